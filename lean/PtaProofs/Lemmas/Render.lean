/-
  PtaProofs.Lemmas.Render — bridge between the raw dotted strings the code manipulates and the component
  lists of the specification.
-/
import Bridge.Abs
namespace Pta
open PtaSpec

/-! ### `startsWith` is `List.IsPrefix` -/

theorem startsWith_eq_isPrefixOf (p s : Str) : startsWith p s = p.isPrefixOf s := by
  induction p generalizing s with
  | nil => simp [startsWith]
  | cons a p ih =>
    cases s with
    | nil => simp [startsWith]
    | cons b s => simp [startsWith, ih, List.isPrefixOf]

theorem startsWith_iff_prefix (p s : Str) : startsWith p s = true ↔ p <+: s := by
  rw [startsWith_eq_isPrefixOf, List.isPrefixOf_iff_prefix]

theorem startsWith_append_self (p t : Str) : startsWith p (p ++ t) = true :=
  (startsWith_iff_prefix _ _).2 (List.prefix_append p t)

/-! ### well-formedness, unpacked -/

theorem compWF_iff (c : Comp) : compWF c = true ↔ c ≠ [] ∧ '.' ∉ c := by
  cases c <;> simp [compWF]

theorem nameWF_iff (n : Name) : nameWF n = true ↔ n ≠ [] ∧ ∀ c ∈ n, c ≠ [] ∧ '.' ∉ c := by
  simp only [nameWF, Bool.and_eq_true, List.all_eq_true, compWF_iff]
  cases n <;> simp

theorem nameWF_ne_nil {n : Name} (h : nameWF n = true) : n ≠ [] := ((nameWF_iff n).1 h).1

theorem nameWF_nodot {n : Name} (h : nameWF n = true) : ∀ c ∈ n, '.' ∉ c :=
  fun c hc => (((nameWF_iff n).1 h).2 c hc).2

theorem nameWF_comp_ne_nil {n : Name} (h : nameWF n = true) : ∀ c ∈ n, c ≠ [] :=
  fun c hc => (((nameWF_iff n).1 h).2 c hc).1

theorem nameWF_cons_iff (x : Comp) (r : Name) :
    nameWF (x :: r) = true ↔ compWF x = true ∧ (r = [] ∨ nameWF r = true) := by
  cases r <;> simp [nameWF]

theorem nameWF_take {n : Name} (h : nameWF n = true) (k : Nat) : nameWF (n.take (k + 1)) = true := by
  rw [nameWF_iff] at h ⊢
  refine ⟨?_, fun c hc => h.2 c (List.mem_of_mem_take hc)⟩
  cases n with
  | nil => exact absurd rfl h.1
  | cons x r => simp

theorem nameWF_of_prefix {p n : Name} (hn : nameWF n = true) (hp : p ≠ []) (h : p <+: n) :
    nameWF p = true := by
  rw [nameWF_iff] at hn ⊢
  exact ⟨hp, fun c hc => hn.2 c (h.subset hc)⟩

/-! ### `splitDots` / `joinDots` -/

theorem splitDots_ne_nil (s : Str) : splitDots s ≠ [] := by
  cases s with
  | nil => simp [splitDots]
  | cons c cs =>
    unfold splitDots
    split
    · simp
    · split <;> simp

theorem splitDots_nodot (x : Str) (hx : '.' ∉ x) : splitDots x = [x] := by
  induction x with
  | nil => simp [splitDots]
  | cons a as ih =>
    have ha : a ≠ '.' := by intro e; apply hx; simp [e]
    have has : '.' ∉ as := by intro e; apply hx; simp [e]
    simp [splitDots, ih has, ha]

/-- `split` distributes over a separating dot (no side conditions) -/
theorem splitDots_append (x y : Str) : splitDots (x ++ '.' :: y) = splitDots x ++ splitDots y := by
  induction x with
  | nil =>
    have := splitDots_ne_nil y
    cases h : splitDots y with
    | nil => exact absurd h this
    | cons a t => simp [splitDots, h]
  | cons c cs ih =>
    have h1 := splitDots_ne_nil cs
    cases hcs : splitDots cs with
    | nil => exact absurd hcs h1
    | cons a t =>
      simp only [List.cons_append]
      rw [splitDots, ih, hcs]
      simp only [List.cons_append]
      rw [splitDots, hcs]
      split <;> simp_all

theorem joinDots_cons_cons (x y : Str) (r : List Str) :
    joinDots (x :: y :: r) = x ++ '.' :: joinDots (y :: r) := rfl

theorem joinDots_cons (x : Str) (r : List Str) (hr : r ≠ []) :
    joinDots (x :: r) = x ++ '.' :: joinDots r := by
  cases r with
  | nil => exact absurd rfl hr
  | cons y r => rfl

theorem joinDots_append (a t : List Str) (ha : a ≠ []) (ht : t ≠ []) :
    joinDots (a ++ t) = joinDots a ++ '.' :: joinDots t := by
  induction a with
  | nil => exact absurd rfl ha
  | cons x r ih =>
    cases r with
    | nil =>
      cases t with
      | nil => exact absurd rfl ht
      | cons y t' => simp [joinDots]
    | cons z r' =>
      have := ih (by simp)
      simp only [List.cons_append] at this ⊢
      simp [joinDots, this]

theorem splitDots_joinDots (cs : List Str) (h : ∀ c ∈ cs, '.' ∉ c) (hne : cs ≠ []) :
    splitDots (joinDots cs) = cs := by
  induction cs with
  | nil => exact absurd rfl hne
  | cons x r ih =>
    cases r with
    | nil => simpa [joinDots] using splitDots_nodot x (h x (by simp))
    | cons y r' =>
      have ih' := ih (by intro c hc; exact h c (by simp [hc])) (by simp)
      rw [joinDots_cons_cons, splitDots_append, ih', splitDots_nodot x (h x (by simp))]
      rfl

/-- `joinDots` is `joinDotsS` of the specification (same equations) -/
theorem joinDotsS_eq (n : List (List Char)) : joinDotsS n = joinDots n := by
  induction n with
  | nil => rfl
  | cons x r ih =>
    cases r with
    | nil => rfl
    | cons y r' => simp only [joinDotsS, joinDots, ih]

theorem render_nil : render [] = [] := rfl

theorem render_singleton (x : Comp) : render [x] = x := rfl

theorem render_cons (x : Comp) (r : Name) (hr : r ≠ []) : render (x :: r) = x ++ '.' :: render r :=
  joinDots_cons x r hr

/-- splitting a rendered well-formed name gives back its components -/
theorem splitDots_render (n : Name) (h : nameWF n = true) : splitDots (render n) = n :=
  splitDots_joinDots n (nameWF_nodot h) (nameWF_ne_nil h)

theorem render_append (a t : Name) (ha : a ≠ []) (ht : t ≠ []) : render (a ++ t) = render a ++ '.' :: render t :=
  joinDots_append a t ha ht

theorem render_injective (a b : Name) (ha : nameWF a = true) (hb : nameWF b = true) (h : render a = render b) : a = b := by
  rw [← splitDots_render a ha, ← splitDots_render b hb, h]

theorem render_ne_nil (n : Name) (h : nameWF n = true) : render n ≠ [] := by
  obtain ⟨hne, hc⟩ := (nameWF_iff n).1 h
  cases n with
  | nil => exact absurd rfl hne
  | cons x r =>
    have hx : x ≠ [] := (hc x (by simp)).1
    cases r with
    | nil => simpa [render, joinDots] using hx
    | cons y r' =>
      cases x with
      | nil => exact absurd rfl hx
      | cons c x' => simp [render, joinDots]

/-- raw-string boundary test = proper dotted prefix on components -/
theorem startsWith_dot_render (p n : Name) (hp : nameWF p = true) (hn : nameWF n = true) :
    startsWith (render p ++ ['.']) (render n) = true ↔ ∃ t, t ≠ [] ∧ n = p ++ t := by
  rw [startsWith_iff_prefix]
  constructor
  · rintro ⟨rest, h⟩
    have hb' := splitDots_render n hn
    rw [← h] at hb'
    simp only [List.append_assoc, List.singleton_append] at hb'
    rw [splitDots_append, splitDots_render p hp] at hb'
    exact ⟨splitDots rest, splitDots_ne_nil rest, hb'.symm⟩
  · rintro ⟨t, ht, rfl⟩
    rw [render_append p t (nameWF_ne_nil hp) ht]
    exact ⟨render t, by simp⟩

theorem prefix_iff_eq_or_proper (p n : Name) : p <+: n ↔ n = p ∨ ∃ t, t ≠ [] ∧ n = p ++ t := by
  constructor
  · rintro ⟨t, rfl⟩
    cases t with
    | nil => left; simp
    | cons y t => right; exact ⟨y :: t, by simp, rfl⟩
  · rintro (rfl | ⟨t, _, rfl⟩)
    · exact List.prefix_refl _
    · exact List.prefix_append _ _

/-- the boundary-aware raw-string test `n == p or n.startswith(p + ".")` is the dotted-prefix relation -/
theorem isModuleOrSub_render (p n : Name) (hp : nameWF p = true) (hn : nameWF n = true) :
    isModuleOrSub (render p) (render n) = desc p n := by
  rw [Bool.eq_iff_iff]
  simp only [isModuleOrSub, desc, Bool.or_eq_true, beq_iff_eq, List.isPrefixOf_iff_prefix,
    startsWith_dot_render p n hp hn, prefix_iff_eq_or_proper]
  constructor
  · rintro (h | h)
    · exact Or.inl (render_injective n p hn hp h)
    · exact Or.inr h
  · rintro (h | h)
    · exact Or.inl (by rw [h])
    · exact Or.inr h

theorem isStrictSub_render (p n : Name) (hp : nameWF p = true) (hn : nameWF n = true) :
    isStrictSub (render p) (render n) = sdesc p n := by
  rw [Bool.eq_iff_iff]
  simp only [isStrictSub, sdesc, Bool.and_eq_true, bne_iff_ne, ne_eq, List.isPrefixOf_iff_prefix,
    startsWith_dot_render p n hp hn]
  constructor
  · rintro ⟨t, ht, rfl⟩
    refine ⟨List.prefix_append _ _, fun h => ht ?_⟩
    simpa using h
  · rintro ⟨⟨t, rfl⟩, hne⟩
    refine ⟨t, ?_, rfl⟩
    rintro rfl
    exact hne (by simp)

/-! ### `parentModules` -/

theorem parentModulesAux_nodot (acc x : Str) (hx : '.' ∉ x) : parentModulesAux acc x = [] := by
  induction x generalizing acc with
  | nil => rfl
  | cons a as ih =>
    have ha : a ≠ '.' := by intro e; apply hx; simp [e]
    have has : '.' ∉ as := by intro e; apply hx; simp [e]
    simp [parentModulesAux, ha, ih _ has]

theorem parentModulesAux_nodot_dot (acc x rest : Str) (hx : '.' ∉ x) :
    parentModulesAux acc (x ++ '.' :: rest) =
      (acc.reverse ++ x) :: parentModulesAux (('.' :: x.reverse) ++ acc) rest := by
  induction x generalizing acc with
  | nil => simp [parentModulesAux]
  | cons a as ih =>
    have ha : a ≠ '.' := by intro e; apply hx; simp [e]
    have has : '.' ∉ as := by intro e; apply hx; simp [e]
    simp [parentModulesAux, ha, ih _ has]

theorem properPrefixes_cons (x : Comp) (l : Name) :
    properPrefixes (x :: l) = (List.range l.length).map fun k => x :: l.take k := by
  simp only [properPrefixes, List.length_cons, List.range_succ_eq_map, List.filterMap_cons,
    Nat.lt_irrefl, if_false, List.filterMap_map]
  have : ((fun k => if 0 < k then some (List.take k (x :: l)) else none) ∘ Nat.succ) =
      fun k => some (x :: l.take k) := by
    funext k; simp
  rw [this]
  exact congrFun (List.filterMap_eq_map (f := fun k => x :: l.take k)) _

theorem properPrefixes_singleton (x : Comp) : properPrefixes [x] = [] := by
  simp [properPrefixes_cons]

theorem properPrefixes_cons_cons (x y : Comp) (r : Name) :
    properPrefixes (x :: y :: r) = [x] :: (properPrefixes (y :: r)).map (x :: ·) := by
  rw [properPrefixes_cons x (y :: r), properPrefixes_cons y r]
  simp [List.range_succ_eq_map, List.map_map, Function.comp_def]

theorem mem_properPrefixes_ne_nil {n p : Name} (h : p ∈ properPrefixes n) : p ≠ [] := by
  cases n with
  | nil => simp [properPrefixes] at h
  | cons x l =>
    rw [properPrefixes_cons] at h
    simp only [List.mem_map] at h
    obtain ⟨k, _, rfl⟩ := h
    simp

theorem parentModulesAux_render (acc : Str) (n : Name) (h : nameWF n = true) :
    parentModulesAux acc (render n) = (properPrefixes n).map fun p => acc.reverse ++ render p := by
  induction n generalizing acc with
  | nil => simp [nameWF] at h
  | cons x r ih =>
    have hx : '.' ∉ x := nameWF_nodot h x (by simp)
    cases r with
    | nil => simp [render_singleton, properPrefixes_singleton, parentModulesAux_nodot acc x hx]
    | cons y r' =>
      have hr : nameWF (y :: r') = true := by
        rcases (nameWF_cons_iff x (y :: r')).1 h with ⟨_, h' | h'⟩
        · cases h'
        · exact h'
      rw [render_cons x _ (by simp), parentModulesAux_nodot_dot acc x _ hx, ih _ hr,
        properPrefixes_cons_cons]
      simp only [List.map_cons, List.map_map, render_singleton]
      congr 1
      apply List.map_congr_left
      intro p hp
      have hpne := mem_properPrefixes_ne_nil hp
      simp [render_cons x p hpne]

/-- `get_parent_modules` on a rendered name = the rendered non-empty proper prefixes, shortest first -/
theorem parentModules_render (n : Name) (h : nameWF n = true) :
    parentModules (render n) = (properPrefixes n).map render := by
  simpa [parentModules] using parentModulesAux_render [] n h

/-- `_flatten_graph_node` on a rendered name keeps the first k+1 components -/
theorem flattenNode_render (k : Nat) (n : Name) (h : nameWF n = true) :
    flattenNode (some k) (render n) = render (n.take (k + 1)) := by
  show joinDots ((splitDots (render n)).take (k + 1)) = _
  rw [splitDots_render n h]
  rfl

/-- dropping a rendered proper prefix leaves "." ++ the rendered rest -/
theorem drop_render_prefix (p t : Name) (hp : p ≠ []) (ht : t ≠ []) :
    (render (p ++ t)).drop (render p).length = '.' :: render t := by
  rw [render_append p t hp ht, List.drop_left]

/-- string length of a rendered name grows strictly with a proper extension -/
theorem render_length_lt (p t : Name) (hp : p ≠ []) (ht : t ≠ []) :
    (render p).length < (render (p ++ t)).length := by
  rw [render_append p t hp ht]
  simp

end Pta
