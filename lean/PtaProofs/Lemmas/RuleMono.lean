/-
  PtaProofs.Lemmas.RuleMono — adding one import edge leaves the hierarchy searches unchanged and only enlarges
  the result lists of the three dependency queries (errors are unchanged).
-/
import PtaProofs.Lemmas.RuleBasics
namespace Pta.Alg
/-! ### adding an import edge -/

theorem hierChildren_add (g : PGraph Str) (u v n : Str) :
    (addImportEdge g u v).hierChildren n = g.hierChildren n := by
  simp [addImportEdge, PGraph.hierChildren, List.filter_append]

theorem hierCount_add (g : PGraph Str) (u v : Str) : hierCount (addImportEdge g u v) = hierCount g := by
  simp [addImportEdge, hierCount, List.countP_append]

theorem subLoop_add (g : PGraph Str) (u v : Str) (f : Nat) (work seen : List Str) :
    subLoop (addImportEdge g u v) f work seen = subLoop g f work seen := by
  induction f generalizing work seen with
  | zero => rfl
  | succ f ih =>
    cases work with
    | nil => rfl
    | cons n rest =>
      by_cases h : n ∈ seen <;> simp [subLoop, h, ih, hierChildren_add]

theorem submodulesOf_add (g : PGraph Str) (u v s : Str) :
    submodulesOf (addImportEdge g u v) s = submodulesOf g s := by
  unfold submodulesOf
  rw [hierCount_add, subLoop_add]
  rfl

theorem exclUnion_add (g : PGraph Str) (u v : Str) (self : Filter) (os : List Filter) :
    exclUnion (addImportEdge g u v) self os = exclUnion g self os := by
  simp only [exclUnion, submodulesOf_add]

theorem importSuccs_add (g : PGraph Str) (u v n : Str) :
    g.importSuccs n ⊆ (addImportEdge g u v).importSuccs n := by
  intro x hx
  simp only [addImportEdge, PGraph.importSuccs, List.filter_append, List.map_append, List.mem_append]
  exact .inl hx

theorem importPreds_add (g : PGraph Str) (u v n : Str) :
    g.importPreds n ⊆ (addImportEdge g u v).importPreds n := by
  intro x hx
  simp only [addImportEdge, PGraph.importPreds, List.filter_append, List.map_append, List.mem_append]
  exact .inl hx

theorem flatMap_filter_map_subset {β γ : Type} (l : List β) (s s' : β → List γ) (p : β → γ → Bool) (f : β → γ → β × γ)
    (h : ∀ n, s n ⊆ s' n) :
    (l.flatMap fun n => ((s n).filter (p n)).map (f n)) ⊆ (l.flatMap fun n => ((s' n).filter (p n)).map (f n)) := by
  intro x hx
  simp only [List.mem_flatMap, List.mem_map, List.mem_filter] at hx ⊢
  obtain ⟨n, hn, c, ⟨hc, hp⟩, rfl⟩ := hx
  exact ⟨n, hn, c, ⟨h n hc, hp⟩, rfl⟩

theorem depBetween_add (g : PGraph Str) (u v : Str) (f o : Filter) (l : List (Str × Str))
    (h : depBetween g f o = .ok l) : ∃ l', depBetween (addImportEdge g u v) f o = .ok l' ∧ l ⊆ l' := by
  unfold depBetween at h ⊢
  simp only [submodulesOf_add]
  cases h1 : submodulesOf g o.id with
  | error k => simp [h1, bind, Except.bind] at h
  | ok up =>
    cases h2 : submodulesOf g f.id with
    | error k => simp [h1, h2, bind, Except.bind] at h
    | ok own =>
      simp only [h1, h2, bind, Except.bind, pure, Except.pure, Except.ok.injEq] at h ⊢
      subst h
      exact ⟨_, rfl, flatMap_filter_map_subset _ _ _ _ _ (importSuccs_add g u v)⟩

theorem otherFrom_add (g : PGraph Str) (u v : Str) (f : Filter) (os : List Filter) (l : List (Str × Str))
    (h : otherFrom g f os = .ok l) : ∃ l', otherFrom (addImportEdge g u v) f os = .ok l' ∧ l ⊆ l' := by
  unfold otherFrom at h ⊢
  simp only [submodulesOf_add, exclUnion_add]
  cases h1 : exclUnion g f os with
  | error k => simp [h1, bind, Except.bind] at h
  | ok ex =>
    cases h2 : submodulesOf g f.id with
    | error k => simp [h1, h2, bind, Except.bind] at h
    | ok own =>
      simp only [h1, h2, bind, Except.bind, pure, Except.pure, Except.ok.injEq] at h ⊢
      subst h
      exact ⟨_, rfl, flatMap_filter_map_subset _ _ _ _ _ (importSuccs_add g u v)⟩

theorem otherTo_add (g : PGraph Str) (u v : Str) (fs : List Filter) (o : Filter) (l : List (Str × Str))
    (h : otherTo g fs o = .ok l) : ∃ l', otherTo (addImportEdge g u v) fs o = .ok l' ∧ l ⊆ l' := by
  unfold otherTo at h ⊢
  simp only [submodulesOf_add, exclUnion_add]
  cases h1 : exclUnion g o fs with
  | error k => simp [h1, bind, Except.bind] at h
  | ok ex =>
    cases h2 : submodulesOf g o.id with
    | error k => simp [h1, h2, bind, Except.bind] at h
    | ok own =>
      simp only [h1, h2, bind, Except.bind, pure, Except.pure, Except.ok.injEq] at h ⊢
      subst h
      refine ⟨_, rfl, ?_⟩
      intro x hx
      simp only [List.mem_flatMap, List.mem_map, List.mem_filter] at hx ⊢
      obtain ⟨n, hn, c, ⟨hc, hp⟩, rfl⟩ := hx
      exact ⟨n, hn, c, ⟨importPreds_add g u v n hc, hp⟩, rfl⟩

/-! ### lifting to the queries -/

/-- pointwise relation on lists of equal length -/
inductive All2 {β : Type} (R : β → β → Prop) : List β → List β → Prop
  | nil : All2 R [] []
  | cons {a b l l'} : R a b → All2 R l l' → All2 R (a :: l) (b :: l')

def KRel {κ β : Type} (a b : κ × List β) : Prop := a.1 = b.1 ∧ a.2 ⊆ b.2

theorem mapM_ok_mono {α β ε : Type} (f f' : α → Except ε β) (R : β → β → Prop)
    (h : ∀ x y, f x = .ok y → ∃ y', f' x = .ok y' ∧ R y y') :
    ∀ (l : List α) (r : List β), l.mapM f = .ok r → ∃ r', l.mapM f' = .ok r' ∧ All2 R r r' := by
  intro l
  induction l with
  | nil =>
    intro r hr
    simp only [List.mapM_nil, pure, Except.pure, Except.ok.injEq] at hr
    subst hr
    exact ⟨[], by simp [pure, Except.pure], .nil⟩
  | cons x xs ih =>
    intro r hr
    simp only [List.mapM_cons, bind, Except.bind, pure, Except.pure] at hr ⊢
    cases hx : f x with
    | error k => simp [hx] at hr
    | ok y =>
      cases hxs : xs.mapM f with
      | error k => simp [hx, hxs] at hr
      | ok ys =>
        simp only [hx, hxs, Except.ok.injEq] at hr
        subst hr
        obtain ⟨y', hy', hR⟩ := h x y hx
        obtain ⟨ys', hys', hRs⟩ := ih ys hxs
        exact ⟨y' :: ys', by simp [hy', hys'], .cons hR hRs⟩

theorem krel_ne {κ β : Type} {a b : κ × List β} (hab : KRel a b) (ha : a.2 ≠ []) : b.2 ≠ [] := by
  intro hnil
  obtain ⟨z, hz⟩ := List.exists_mem_of_ne_nil _ ha
  have := hab.2 hz
  rw [hnil] at this
  cases this

theorem krel_allNE {κ β : Type} {e e' : List (κ × List β)} (h : All2 KRel e e')
    (hne : ∀ kd ∈ e, kd.2 ≠ []) : ∀ kd ∈ e', kd.2 ≠ [] := by
  induction h with
  | nil => simp
  | @cons a b l l' hab _ ih =>
    intro kd hkd
    rcases List.mem_cons.mp hkd with h | hkd
    · rw [h]; exact krel_ne hab (hne a (by simp))
    · exact ih (fun kd h => hne kd (List.mem_cons_of_mem _ h)) kd hkd

theorem krel_existsNE {κ β : Type} {e e' : List (κ × List β)} (h : All2 KRel e e')
    (hne : ∃ kd ∈ e, kd.2 ≠ []) : ∃ kd ∈ e', kd.2 ≠ [] := by
  induction h with
  | nil => simp at hne
  | @cons a b l l' hab _ ih =>
    obtain ⟨kd, hkd, hk⟩ := hne
    rcases List.mem_cons.mp hkd with h | hkd
    · exact ⟨b, by simp, krel_ne hab (h ▸ hk)⟩
    · obtain ⟨kd', h1, h2⟩ := ih ⟨kd, hkd, hk⟩
      exact ⟨kd', List.mem_cons_of_mem _ h1, h2⟩

theorem getDependencies_add (g : PGraph Str) (u v : Str) (I E : List Filter) (e : ExplDeps)
    (h : getDependencies g I E = .ok e) :
    ∃ e', getDependencies (addImportEdge g u v) I E = .ok e' ∧ All2 KRel e e' := by
  unfold getDependencies at h ⊢
  refine mapM_ok_mono _ _ KRel ?_ _ _ h
  intro fo y hy
  cases hd : depBetween g fo.1 fo.2 with
  | error k => simp [hd, bind, Except.bind] at hy
  | ok l =>
    obtain ⟨l', hl', hsub⟩ := depBetween_add g u v _ _ _ hd
    simp only [hd, bind, Except.bind, pure, Except.pure, Except.ok.injEq] at hy
    subst hy
    exact ⟨(_, l'), by simp [hl', bind, Except.bind, pure, Except.pure], rfl, hsub⟩

theorem getOtherFrom_add (g : PGraph Str) (u v : Str) (I E : List Filter) (o : OtherDeps)
    (h : getOtherFrom g I E = .ok o) :
    ∃ o', getOtherFrom (addImportEdge g u v) I E = .ok o' ∧ All2 KRel o o' := by
  unfold getOtherFrom at h ⊢
  refine mapM_ok_mono _ _ KRel ?_ _ _ h
  intro f y hy
  cases hd : otherFrom g f (dedup E) with
  | error k => simp [hd, bind, Except.bind] at hy
  | ok l =>
    obtain ⟨l', hl', hsub⟩ := otherFrom_add g u v _ _ _ hd
    simp only [hd, bind, Except.bind, pure, Except.pure, Except.ok.injEq] at hy
    subst hy
    exact ⟨(_, l'), by simp [hl', bind, Except.bind, pure, Except.pure], rfl, hsub⟩

theorem getOtherTo_add (g : PGraph Str) (u v : Str) (I E : List Filter) (o : OtherDeps)
    (h : getOtherTo g I E = .ok o) :
    ∃ o', getOtherTo (addImportEdge g u v) I E = .ok o' ∧ All2 KRel o o' := by
  unfold getOtherTo at h ⊢
  refine mapM_ok_mono _ _ KRel ?_ _ _ h
  intro f y hy
  cases hd : otherTo g (dedup I) f with
  | error k => simp [hd, bind, Except.bind] at hy
  | ok l =>
    obtain ⟨l', hl', hsub⟩ := otherTo_add g u v _ _ _ hd
    simp only [hd, bind, Except.bind, pure, Except.pure, Except.ok.injEq] at hy
    subst hy
    exact ⟨(_, l'), by simp [hl', bind, Except.bind, pure, Except.pure], rfl, hsub⟩

theorem qExpl_add (g : PGraph Str) (u v : Str) (d : Bool) (A' B' : List Filter) (e : ExplDeps)
    (h : qExpl g d A' B' = .ok e) :
    ∃ e', qExpl (addImportEdge g u v) d A' B' = .ok e' ∧ All2 KRel e e' := by
  unfold qExpl at h ⊢
  cases d
  · exact getDependencies_add g u v _ _ _ h
  · exact getDependencies_add g u v _ _ _ h

theorem qOther_add (g : PGraph Str) (u v : Str) (d : Bool) (A' B' : List Filter) (o : OtherDeps)
    (h : qOther g d A' B' = .ok o) :
    ∃ o', qOther (addImportEdge g u v) d A' B' = .ok o' ∧ All2 KRel o o' := by
  unfold qOther at h ⊢
  cases d
  · exact getOtherTo_add g u v _ _ _ h
  · exact getOtherFrom_add g u v _ _ _ h

end Pta.Alg