/-
  PtaProofs.Lemmas.Build — the graph constructor (`buildGraph`, PtaModel/Graph.lean) builds exactly the quotient
  of a well-formed architecture.

  Route: `BuildGen` shows that *legal* `createNode` / `createEdge` calls (node satisfies `Q`, edge satisfies `P`,
  with `P · · true` / `P · · false` exclusive) only ever append. Here `Q` / `P` are instantiated with the truncated
  nodes / hierarchy pairs / import pairs of the architecture; well-formedness gives legality of every call made by
  `addAllModules` and `addImport` and the non-collision of hierarchy and import pairs.
-/
import Bridge.Abs
import PtaProofs.Lemmas.Render
import PtaProofs.Lemmas.BuildGen
import PtaProofs.Lemmas.BuildNames
namespace Pta
open PtaSpec

namespace BuildMain
open BuildGen BuildNames

theorem fl_render (lim : Option Nat) (n : Name) (h : nameWF n = true) :
    flattenNode lim (render n) = render (trunc lim n) := by
  cases lim with
  | none => rfl
  | some k => exact flattenNode_render k n h

section
variable (a : Arch) (lim : Option Nat)

def Q (s : Str) : Prop := ∃ n ∈ a.nodes, s = render (trunc lim n)
def HP (s x : Str) : Prop :=
  ∃ c ∈ a.nodes, 2 ≤ (trunc lim c).length ∧ s = render (trunc lim c).dropLast ∧ x = render (trunc lim c)
def IP (s x : Str) : Prop :=
  ∃ e ∈ a.imports, trunc lim e.1 ≠ trunc lim e.2 ∧ s = render (trunc lim e.1) ∧ x = render (trunc lim e.2)
def P (s x : Str) (b : Bool) : Prop := (b = true → HP a lim s x) ∧ (b = false → IP a lim s x)

/-- the invariant of the construction: only truncated nodes, only hierarchy / import pairs with the right flag -/
def Inv (g : PGraph Str) : Prop := (∀ s ∈ g.nodes, Q a lim s) ∧ (∀ x ∈ g.edges, P a lim x.src x.dst x.inh)

variable (hwf : a.wf = true)
include hwf

/-- a hierarchy pair is never an import pair -/
theorem P_excl (s e : Str) (h1 : P a lim s e true) (h2 : P a lim s e false) : False := by
  obtain ⟨c, hc, hl, hs, hx⟩ := h1.1 rfl
  obtain ⟨i, hi, -, hs', hx'⟩ := h2.2 rfl
  obtain ⟨i1, i2, -, hsd⟩ := wf_import a hwf i hi
  have wc := nameWF_trunc lim c (wf_nodes a hwf c hc)
  have w1 := nameWF_trunc lim i.1 (wf_nodes a hwf _ i1)
  have w2 := nameWF_trunc lim i.2 (wf_nodes a hwf _ i2)
  have e2 : trunc lim i.2 = trunc lim c := render_injective _ _ w2 wc (hx'.symm.trans hx)
  have e1 : trunc lim i.1 = (trunc lim c).dropLast :=
    render_injective _ _ w1 (nameWF_dropLast _ wc hl) (hs'.symm.trans hs)
  rw [← e2] at e1 hl
  have := trunc_parent_sdesc lim i.1 i.2 hl e1
  rw [hsd] at this
  cases this

/-- every call made for the chain of a node is legal -/
theorem chain_legal (n : Name) (hn : n ∈ a.nodes) :
    (∀ p ∈ parentModules (render n), Q a lim (flattenNode lim p)) ∧
    (∀ pc ∈ consecutive (parentModules (render n) ++ [render n]), flattenNode lim pc.1 ≠ flattenNode lim pc.2 →
      P a lim (flattenNode lim pc.1) (flattenNode lim pc.2) true) := by
  have wn := wf_nodes a hwf n hn
  rw [parentModules_render n wn]
  constructor
  · intro p hp
    obtain ⟨q, hq, rfl⟩ := List.mem_map.1 hp
    obtain ⟨k, h0, hk, rfl⟩ := (mem_properPrefixes n q).1 hq
    have hm := wf_prefix a hwf n hn k h0 (by omega)
    exact ⟨n.take k, hm, fl_render lim _ (wf_nodes a hwf _ hm)⟩
  · intro pc hpc hne
    have : List.map render (properPrefixes n) ++ [render n] = (properPrefixes n ++ [n]).map render := by simp
    rw [this, consecutive_map] at hpc
    obtain ⟨q, hq, rfl⟩ := List.mem_map.1 hpc
    obtain ⟨k, h0, hk, rfl⟩ := (mem_consecutive_prefixes n (nameWF_ne_nil' n wn) q).1 hq
    have hm1 := wf_prefix a hwf n hn k h0 (by omega)
    have hm2 := wf_prefix a hwf n hn (k + 1) (by omega) (by omega)
    simp only at hne ⊢
    rw [fl_render lim _ (wf_nodes a hwf _ hm1), fl_render lim _ (wf_nodes a hwf _ hm2)] at hne ⊢
    refine ⟨fun _ => ?_, fun h => by cases h⟩
    rcases trunc_link lim n k h0 hk with h | ⟨hl, h⟩
    · exact absurd (congrArg render h) hne
    · exact ⟨n.take (k + 1), hm2, hl, by rw [h], rfl⟩

/-- the chain of `c` contains the call that writes the hierarchy edge into `trunc c` -/
theorem chain_last (c : Name) (hc : c ∈ a.nodes) (hl : 2 ≤ (trunc lim c).length) :
    ∃ pc ∈ consecutive (parentModules (render c) ++ [render c]),
      flattenNode lim pc.1 = render (trunc lim c).dropLast ∧ flattenNode lim pc.2 = render (trunc lim c) ∧
      flattenNode lim pc.1 ≠ flattenNode lim pc.2 := by
  have wc := wf_nodes a hwf c hc
  obtain ⟨k, h0, hk, e1, e2⟩ := trunc_last_link lim c hl
  have hm1 := wf_prefix a hwf c hc k h0 (by omega)
  have hm2 := wf_prefix a hwf c hc (k + 1) (by omega) (by omega)
  refine ⟨(render (c.take k), render (c.take (k + 1))), ?_, ?_⟩
  · rw [parentModules_render c wc]
    have : List.map render (properPrefixes c) ++ [render c] = (properPrefixes c ++ [c]).map render := by simp
    rw [this, consecutive_map]
    exact List.mem_map.2 ⟨(c.take k, c.take (k + 1)),
      (mem_consecutive_prefixes c (nameWF_ne_nil' c wc) _).2 ⟨k, h0, hk, rfl⟩, rfl⟩
  · simp only
    rw [fl_render lim _ (wf_nodes a hwf _ hm1), fl_render lim _ (wf_nodes a hwf _ hm2), e1, e2]
    refine ⟨rfl, rfl, ?_⟩
    intro h
    have wt := nameWF_trunc lim c wc
    have := congrArg List.length (render_injective _ _ (nameWF_dropLast _ wt hl) wt h)
    rw [List.length_dropLast] at this
    omega

/-- processing one module -/
theorem step_module (g : PGraph Str) (n : Name) (hn : n ∈ a.nodes) (hg : Inv a lim g) :
    Inv a lim (addHierarchy lim (createNode lim g (render n)) (parentModules (render n)) (render n)) ∧
    g.nodes ⊆ (addHierarchy lim (createNode lim g (render n)) (parentModules (render n)) (render n)).nodes ∧
    g.edges ⊆ (addHierarchy lim (createNode lim g (render n)) (parentModules (render n)) (render n)).edges ∧
    render (trunc lim n) ∈ (addHierarchy lim (createNode lim g (render n)) (parentModules (render n)) (render n)).nodes ∧
    (2 ≤ (trunc lim n).length → ⟨render (trunc lim n).dropLast, render (trunc lim n), true⟩ ∈
      (addHierarchy lim (createNode lim g (render n)) (parentModules (render n)) (render n)).edges) := by
  have wn := wf_nodes a hwf n hn
  have hfl := fl_render lim n wn
  obtain ⟨l1, l2⟩ := chain_legal a lim hwf n hn
  have hq1 : ∀ s ∈ (createNode lim g (render n)).nodes, Q a lim s := by
    intro s hs
    rcases (createNode_nodes lim g _ s).1 hs with h | rfl
    · exact hg.1 s h
    · exact ⟨n, hn, hfl⟩
  have hp1 : ∀ x ∈ (createNode lim g (render n)).edges, P a lim x.src x.dst x.inh := by
    rw [createNode_edges]; exact hg.2
  have hself : flattenNode lim (render n) ∈ (createNode lim g (render n)).nodes :=
    (createNode_nodes lim g _ _).2 (Or.inr rfl)
  obtain ⟨r1, r2, r3, r4, r5⟩ := addHierarchy_spec lim (P a lim) (P_excl a lim hwf) (Q a lim)
    (createNode lim g (render n)) (parentModules (render n)) (render n) hq1 hp1 l1 l2
  refine ⟨⟨r1, r2⟩, ?_, ?_, ?_, ?_⟩
  · intro s hs
    exact r3 ((createNode_nodes lim g _ s).2 (Or.inl hs))
  · intro x hx
    apply r4
    rw [createNode_edges]; exact hx
  · rw [← hfl]; exact r3 hself
  · intro hl
    obtain ⟨pc, hpc, e1, e2, hne⟩ := chain_last a lim hwf n hn hl
    have := r5 hself pc hpc hne
    rw [e1, e2] at this
    exact this

/-- processing one import -/
theorem step_import (known : List Str) (hk : ∀ n ∈ a.nodes, render n ∈ known)
    (g : PGraph Str) (e : Name × Name) (he : e ∈ a.imports) (hg : Inv a lim g) :
    Inv a lim (addImport lim known g (absImport (render e.1) (render e.2))) ∧
    g.nodes ⊆ (addImport lim known g (absImport (render e.1) (render e.2))).nodes ∧
    g.edges ⊆ (addImport lim known g (absImport (render e.1) (render e.2))).edges ∧
    (trunc lim e.1 ≠ trunc lim e.2 → render (trunc lim e.1) ∈ g.nodes → render (trunc lim e.2) ∈ g.nodes →
      ⟨render (trunc lim e.1), render (trunc lim e.2), false⟩ ∈
        (addImport lim known g (absImport (render e.1) (render e.2))).edges) := by
  obtain ⟨i1, i2, -, -⟩ := wf_import a hwf e he
  have hskip : skipImportEdge lim known (absImport (render e.1) (render e.2)) = false := by
    simp [skipImportEdge, absImport, hk _ i1, hk _ i2]
  have w1 := wf_nodes a hwf _ i1
  have w2 := wf_nodes a hwf _ i2
  have f1 := fl_render lim _ w1
  have f2 := fl_render lim _ w2
  have hex := P_excl a lim hwf
  unfold addImport
  rw [hskip]
  unfold absImport
  simp only [Bool.false_eq_true, if_false]
  -- first call: the import edge
  have hleg0 : flattenNode lim (render e.1) ≠ flattenNode lim (render e.2) →
      P a lim (flattenNode lim (render e.1)) (flattenNode lim (render e.2)) false := by
    intro hne
    rw [f1, f2] at hne ⊢
    exact ⟨fun h => (by cases h), fun _ => ⟨e, he, fun h => hne (congrArg render h), rfl, rfl⟩⟩
  have hc0 := createEdge_edges lim (P a lim) hex g (render e.1) (render e.2) false hg.2 hleg0
  have hq0 : ∀ s ∈ (createEdge lim g (render e.1) (render e.2) false).nodes, Q a lim s := by
    rw [createEdge_nodes]; exact hg.1
  have hp0 : ∀ x ∈ (createEdge lim g (render e.1) (render e.2) false).edges, P a lim x.src x.dst x.inh := by
    intro x hx
    rcases (hc0 x).1 hx with h | ⟨rfl, hne, -⟩
    · exact hg.2 x h
    · exact hleg0 hne
  -- second: hierarchy of the importer
  obtain ⟨l1, l2⟩ := chain_legal a lim hwf e.1 i1
  obtain ⟨r1, r2, r3, r4, -⟩ := addHierarchy_spec lim (P a lim) hex (Q a lim)
    (createEdge lim g (render e.1) (render e.2) false) (parentModules (render e.1)) (render e.1) hq0 hp0 l1 l2
  -- third: hierarchy edges of the importee
  obtain ⟨-, m2⟩ := chain_legal a lim hwf e.2 i2
  obtain ⟨s1, s2, -⟩ := edgeFold_spec lim (P a lim) hex true
    (consecutive (parentModules (render e.2) ++ [render e.2])) _ r2 m2
  refine ⟨⟨?_, s1⟩, ?_, ?_, ?_⟩
  · rw [edgeFold_nodes]; exact r1
  · intro s hs
    rw [edgeFold_nodes]
    apply r3
    rw [createEdge_nodes]; exact hs
  · intro x hx
    exact s2 (r4 ((hc0 x).2 (Or.inl hx)))
  · intro hne h1 h2
    apply s2; apply r4
    refine (hc0 _).2 (Or.inr ⟨by rw [f1, f2], ?_, by rw [f1]; exact h1, by rw [f2]; exact h2⟩)
    rw [f1, f2]
    intro h
    exact hne (render_injective _ _ (nameWF_trunc lim _ w1) (nameWF_trunc lim _ w2) h)

/-- the invariant after all modules: complete nodes and hierarchy edges -/
def Full (g : PGraph Str) : Prop :=
  Inv a lim g ∧ (∀ n ∈ a.nodes, render (trunc lim n) ∈ g.nodes) ∧
  (∀ c ∈ a.nodes, 2 ≤ (trunc lim c).length → ⟨render (trunc lim c).dropLast, render (trunc lim c), true⟩ ∈ g.edges)

theorem modules_full : Full a lim (addAllModules lim PGraph.empty (a.nodes.map render)) := by
  unfold addAllModules
  have h0 : Inv a lim (PGraph.empty : PGraph Str) := by
    constructor <;> intro _ h <;> cases h
  have hinv : ∀ (g : PGraph Str) (x : Str), x ∈ a.nodes.map render → Inv a lim g →
      Inv a lim (addHierarchy lim (createNode lim g x) (parentModules x) x) := by
    intro g x hx hg
    obtain ⟨n, hn, rfl⟩ := List.mem_map.1 hx
    exact (step_module a lim hwf g n hn hg).1
  refine ⟨foldl_inv _ _ _ hinv _ h0, ?_, ?_⟩
  · intro n hn
    refine foldl_establish _ (Inv a lim) (fun g => render (trunc lim n) ∈ g.nodes) _ (render n)
      (List.mem_map.2 ⟨n, hn, rfl⟩) hinv ?_ ?_ _ h0
    · intro g x hx hg hh
      obtain ⟨m, hm, rfl⟩ := List.mem_map.1 hx
      exact (step_module a lim hwf g m hm hg).2.1 hh
    · intro g hg
      exact (step_module a lim hwf g n hn hg).2.2.2.1
  · intro c hc hl
    refine foldl_establish _ (Inv a lim)
      (fun g => (⟨render (trunc lim c).dropLast, render (trunc lim c), true⟩ : Edge Str) ∈ g.edges) _ (render c)
      (List.mem_map.2 ⟨c, hc, rfl⟩) hinv ?_ ?_ _ h0
    · intro g x hx hg hh
      obtain ⟨m, hm, rfl⟩ := List.mem_map.1 hx
      exact (step_module a lim hwf g m hm hg).2.2.1 hh
    · intro g hg
      exact (step_module a lim hwf g c hc hg).2.2.2.2 hl

theorem build_full : Full a lim (archGraphLim a lim) ∧
    (∀ e ∈ a.imports, trunc lim e.1 ≠ trunc lim e.2 →
      ⟨render (trunc lim e.1), render (trunc lim e.2), false⟩ ∈ (archGraphLim a lim).edges) := by
  unfold archGraphLim buildGraph
  have h0 := modules_full a lim hwf
  have hk : ∀ n ∈ a.nodes, render n ∈ knownModules (a.nodes.map render) := fun n hn =>
    List.mem_append_left _ (List.mem_map.2 ⟨n, hn, rfl⟩)
  have hinv : ∀ (g : PGraph Str) (x : ImportRec),
      x ∈ a.imports.map (fun e => absImport (render e.1) (render e.2)) → Full a lim g →
      Full a lim (addImport lim (knownModules (a.nodes.map render)) g x) := by
    intro g x hx hg
    obtain ⟨e, he, rfl⟩ := List.mem_map.1 hx
    obtain ⟨s1, s2, s3, -⟩ := step_import a lim hwf _ hk g e he hg.1
    exact ⟨s1, fun n hn => s2 (hg.2.1 n hn), fun c hc hl => s3 (hg.2.2 c hc hl)⟩
  refine ⟨foldl_inv _ _ _ hinv _ h0, ?_⟩
  intro e he hne
  refine foldl_establish _ (Full a lim)
    (fun g => (⟨render (trunc lim e.1), render (trunc lim e.2), false⟩ : Edge Str) ∈ g.edges) _
    (absImport (render e.1) (render e.2)) (List.mem_map.2 ⟨e, he, rfl⟩) hinv ?_ ?_ _ h0
  · intro g x hx hg hh
    obtain ⟨e', he', rfl⟩ := List.mem_map.1 hx
    exact (step_import a lim hwf _ hk g e' he' hg.1).2.2.1 hh
  · intro g hg
    obtain ⟨i1, i2, -, -⟩ := wf_import a hwf e he
    exact (step_import a lim hwf _ hk g e he hg.1).2.2.2 hne (hg.2.1 _ i1) (hg.2.1 _ i2)

end

/-! ### reading the graph -/

theorem mem_hierChildren (g : PGraph Str) (s x : Str) : x ∈ g.hierChildren s ↔ ⟨s, x, true⟩ ∈ g.edges := by
  unfold PGraph.hierChildren
  simp only [List.mem_map, List.mem_filter, Bool.and_eq_true, beq_iff_eq]
  constructor
  · rintro ⟨⟨es, ed, ei⟩, ⟨hm, h1, h2⟩, h3⟩
    simp only at h1 h2 h3
    subst h1 h2 h3
    exact hm
  · intro h
    exact ⟨_, ⟨h, rfl, rfl⟩, rfl⟩

theorem mem_importSuccs (g : PGraph Str) (s x : Str) : x ∈ g.importSuccs s ↔ ⟨s, x, false⟩ ∈ g.edges := by
  unfold PGraph.importSuccs
  simp only [List.mem_map, List.mem_filter, Bool.and_eq_true, beq_iff_eq, Bool.not_eq_true']
  constructor
  · rintro ⟨⟨es, ed, ei⟩, ⟨hm, h1, h2⟩, h3⟩
    simp only at h1 h2 h3
    subst h1 h2 h3
    exact hm
  · intro h
    exact ⟨_, ⟨h, rfl, rfl⟩, rfl⟩

theorem mem_importPreds (g : PGraph Str) (s x : Str) : x ∈ g.importPreds s ↔ ⟨x, s, false⟩ ∈ g.edges := by
  unfold PGraph.importPreds
  simp only [List.mem_map, List.mem_filter, Bool.and_eq_true, beq_iff_eq, Bool.not_eq_true']
  constructor
  · rintro ⟨⟨es, ed, ei⟩, ⟨hm, h1, h2⟩, h3⟩
    simp only at h1 h2 h3
    subst h1 h2 h3
    exact hm
  · intro h
    exact ⟨_, ⟨h, rfl, rfl⟩, rfl⟩

/-! ### no duplicates (no well-formedness needed) -/

theorem addHierarchy_nodup (lim : Option Nat) (g : PGraph Str) (ps : List Str) (c : Str) (h : g.nodes.Nodup) :
    (addHierarchy lim g ps c).nodes.Nodup := by
  unfold addHierarchy
  simp only []
  rw [edgeFold_nodes]
  exact nodeFold_nodup lim ps g h

theorem addImport_nodup (lim : Option Nat) (known : List Str) (g : PGraph Str) (i : ImportRec)
    (h : g.nodes.Nodup) : (addImport lim known g i).nodes.Nodup := by
  unfold addImport
  simp only []
  rw [edgeFold_nodes]
  apply addHierarchy_nodup
  split
  · exact h
  · rw [createEdge_nodes]
    exact h

end BuildMain

open BuildMain BuildGen BuildNames

theorem buildGraph_quotient (a : Arch) (hwf : a.wf = true) (lim : Option Nat) : QuotientOf a lim (archGraphLim a lim) := by
  obtain ⟨⟨hinv, hn, hh⟩, hi⟩ := build_full a lim hwf
  refine ⟨?_, ?_, ?_, ?_⟩
  · intro s
    rw [hasNode_iff]
    constructor
    · exact hinv.1 s
    · rintro ⟨n, hn', rfl⟩; exact hn n hn'
  · intro s x
    rw [mem_hierChildren]
    constructor
    · intro h; exact (hinv.2 _ h).1 rfl
    · rintro ⟨c, hc, hl, rfl, rfl⟩; exact hh c hc hl
  · intro s x
    rw [mem_importSuccs]
    constructor
    · intro h; exact (hinv.2 _ h).2 rfl
    · rintro ⟨e, he, hne, rfl, rfl⟩; exact hi e he hne
  · intro s x
    rw [mem_importPreds]
    constructor
    · intro h
      obtain ⟨e, he, hne, h1, h2⟩ := (hinv.2 _ h).2 rfl
      exact ⟨e, he, hne, h1, h2⟩
    · rintro ⟨e, he, hne, rfl, rfl⟩; exact hi e he hne

theorem archGraph_graphOf (a : Arch) (hwf : a.wf = true) : GraphOf a (archGraph a) := by
  have h := buildGraph_quotient a hwf none
  have hg : archGraphLim a none = archGraph a := rfl
  rw [hg] at h
  refine ⟨?_, ?_, ?_, ?_⟩
  · intro s; exact h.nodes s
  · intro s x; exact h.hier s x
  · intro s x
    rw [h.succs]
    constructor
    · rintro ⟨e, he, -, h1, h2⟩; exact ⟨e, he, h1, h2⟩
    · rintro ⟨e, he, h1, h2⟩; exact ⟨e, he, (wf_import a hwf e he).2.2.1, h1, h2⟩
  · intro s x
    rw [h.preds]
    constructor
    · rintro ⟨e, he, -, h1, h2⟩; exact ⟨e, he, h1, h2⟩
    · rintro ⟨e, he, h1, h2⟩; exact ⟨e, he, (wf_import a hwf e he).2.2.1, h1, h2⟩

theorem archGraphLim_nodup (a : Arch) (lim : Option Nat) : (archGraphLim a lim).nodes.Nodup := by
  unfold archGraphLim buildGraph
  apply foldl_inv (addImport lim _) (fun g => g.nodes.Nodup) _ (fun g x _ h => addImport_nodup lim _ g x h)
  unfold addAllModules
  apply foldl_inv _ (fun g => g.nodes.Nodup) _
    (fun g x _ h => addHierarchy_nodup lim _ _ _ (createNode_nodup lim g x h))
  exact List.nodup_nil

theorem no_self_import_lemma (a : Arch) (hwf : a.wf = true) (lim : Option Nat) (s : Str) :
    s ∉ (archGraphLim a lim).importSuccs s := by
  intro h
  obtain ⟨e, he, hne, h1, h2⟩ := ((buildGraph_quotient a hwf lim).succs s s).1 h
  obtain ⟨i1, i2, -, -⟩ := wf_import a hwf e he
  exact hne (render_injective _ _ (nameWF_trunc lim _ (wf_nodes a hwf _ i1))
    (nameWF_trunc lim _ (wf_nodes a hwf _ i2)) (h1.symm.trans h2))

end Pta
