/-
  PtaProofs.Lemmas.Order — lemmas behind Props/C15.lean (proofs in PtaProofs/Lemmas/OrderCongr.lean, namespace `Pta.Ord`).
-/
import Bridge.Abs
import PtaProofs.Lemmas.SearchChar
import PtaProofs.Lemmas.Expansion
import PtaProofs.Lemmas.Build
import PtaProofs.Lemmas.OrderCongr
namespace Pta
open PtaSpec

theorem verdict_congr_lemma (mt : Str → Str → Bool) (g g' : PGraph Str) (h : GraphEquiv g g') (r : RuleState) :
    verdictOf mt g r = verdictOf mt g' r :=
  Ord.verdict_congr mt g g' h r

theorem perm_subjects_lemma (mt : Str → Str → Bool) (g : PGraph Str) (s o n dir exc : Bool) (subs subs' objs : List Filter)
    (h : subs.Perm subs') :
    verdictOf mt g (mkRule s o n dir exc subs objs) = verdictOf mt g (mkRule s o n dir exc subs' objs) :=
  Ord.verdict_mkRule_congr mt g s o n dir exc subs subs' objs objs h (List.Perm.refl _)

theorem perm_objects_lemma (mt : Str → Str → Bool) (g : PGraph Str) (s o n dir exc : Bool) (subs objs objs' : List Filter)
    (h : objs.Perm objs') :
    verdictOf mt g (mkRule s o n dir exc subs objs) = verdictOf mt g (mkRule s o n dir exc subs objs') :=
  Ord.verdict_mkRule_congr mt g s o n dir exc subs subs objs objs' (List.Perm.refl _) h

theorem perm_modules_imports_lemma (mt : Str → Str → Bool) (a a' : Arch) (hwf : a.wf = true)
    (hn : a.nodes.Perm a'.nodes) (hi : a.imports.Perm a'.imports) (lim : Option Nat) (r : RuleState) :
    verdictOf mt (archGraphLim a lim) r = verdictOf mt (archGraphLim a' lim) r :=
  Ord.perm_modules_imports mt a a' hwf hn hi lim r

theorem reapply_lemma (mt : Str → Str → Bool) (s : RuleState) (g g' : PGraph Str) :
    (assertApplies mt (assertApplies mt s g).1 g').2 = (assertApplies mt s g').2 :=
  Ord.reapply mt s g g'

theorem convertAliases_idem_lemma (c : RuleConfig) : convertAliases (convertAliases c) = convertAliases c :=
  Ord.convertAliases_idem c

theorem perm_patterns_lemma (mt : Str → Str → Bool) (ps ps' : List Str) (h : ps.Perm ps') (s : Str) :
    isExcluded mt (.globs ps) s = isExcluded mt (.globs ps') s ∧ isExcluded mt (.regexes ps) s = isExcluded mt (.regexes ps') s :=
  Ord.perm_patterns mt ps ps' h s

theorem perm_dir_entries_lemma (excl : Str → Bool) (base rootName : Str) (entries entries' : List Entry) (h : entries.Perm entries')
    (fuel : Nat) (e : Entry) :
    (parseWalk excl base rootName entries fuel e).allModules.Perm (parseWalk excl base rootName entries' fuel e).allModules :=
  Ord.perm_dir_entries excl base rootName entries entries' h fuel e

end Pta
