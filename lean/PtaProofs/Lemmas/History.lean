/-
  PtaProofs.Lemmas.History — the evaluation-history machine of Bridge/History.lean: every step keeps the normal form of
  the world, and the outcome of an event depends on the world only through its normal form.
-/
import Bridge.History
import PtaProofs.Lemmas.OrderReport
namespace Pta.History
open Pta

/-! ### `Rule` objects -/

/-- what `Rule.assert_applies` leaves behind does not depend on the architecture: it is the normal form -/
theorem assertAppliesText_fst (mt : Str → Str → Bool) (s : RuleState) (g : PGraph Str) :
    (assertAppliesText mt s g).1 = s.normalForm := by
  unfold assertAppliesText RuleState.normalForm
  by_cases hm : anythingMisused s.cfg = true
  · simp only [hm, if_true]
  · simp only [hm, Bool.false_eq_true, if_false]
    split
    · rfl
    split
    · rfl
    split
    · rfl
    split <;> rfl

theorem anythingMisused_convertAliases (c : RuleConfig) : anythingMisused (convertAliases c) = false := by
  simp [anythingMisused, Ord.convertAliases_anything]

theorem normalForm_idem (s : RuleState) : s.normalForm.normalForm = s.normalForm := by
  unfold RuleState.normalForm
  by_cases hm : anythingMisused s.cfg = true
  · simp only [hm, if_true]
  · simp only [hm, Bool.false_eq_true, if_false, anythingMisused_convertAliases, Ord.convertAliases_idem]

/-- the normal form is indistinguishable from the object itself, on every architecture, text and all -/
theorem assertAppliesText_normalForm (mt : Str → Str → Bool) (s : RuleState) (g : PGraph Str) :
    (assertAppliesText mt s.normalForm g).2 = (assertAppliesText mt s g).2 := by
  rw [← assertAppliesText_fst mt s g]
  exact report_reapply_lemma mt s g g

/-- `RuleState.Equiv` is a congruence for `assertAppliesText` on all graphs -/
theorem assertAppliesText_congr (mt : Str → Str → Bool) (r r' : RuleState) (h : r.Equiv r') (g : PGraph Str) :
    (assertAppliesText mt r g).2 = (assertAppliesText mt r' g).2 := by
  rw [← assertAppliesText_normalForm mt r g, ← assertAppliesText_normalForm mt r' g, h]

/-- … and `assert_applies` stays inside the equivalence class -/
theorem assertAppliesText_equiv (mt : Str → Str → Bool) (r : RuleState) (g : PGraph Str) :
    (assertAppliesText mt r g).1.Equiv r := by
  unfold RuleState.Equiv
  rw [assertAppliesText_fst, normalForm_idem]

/-! ### `LayerRule` objects -/

theorem assertAppliesLayerText_normalRule (mt : Str → Str → Bool) (a : Option LArch) (r : RuleState) (g : PGraph Str) :
    assertAppliesLayerText mt ⟨a, some r.normalForm⟩ g = assertAppliesLayerText mt ⟨a, some r⟩ g := by
  unfold RuleState.normalForm
  by_cases hm : anythingMisused r.cfg = true
  · simp only [hm, if_true]
  · simp only [hm, Bool.false_eq_true, if_false]
    unfold assertAppliesLayerText
    cases a with
    | none => rfl
    | some a =>
      simp only [hm, Bool.false_eq_true, if_false, anythingMisused_convertAliases, Ord.convertAliases_idem]

theorem assertAppliesLayerText_normalForm (mt : Str → Str → Bool) (s : LayerRuleState) (g : PGraph Str) :
    assertAppliesLayerText mt s.normalForm g = assertAppliesLayerText mt s g := by
  obtain ⟨a, r⟩ := s
  cases r with
  | none => rfl
  | some r => exact assertAppliesLayerText_normalRule mt a r g

theorem layer_normalForm_idem (s : LayerRuleState) : s.normalForm.normalForm = s.normalForm := by
  obtain ⟨a, r⟩ := s
  cases r with
  | none => rfl
  | some r => simp only [LayerRuleState.normalForm, Option.map_some, normalForm_idem]

theorem assertAppliesTextSt_fst (mt : Str → Str → Bool) (s : LayerRuleState) (g : PGraph Str) :
    (s.assertAppliesTextSt mt g).1 = s.normalForm := by
  obtain ⟨a, r⟩ := s
  cases r with
  | none => rfl
  | some r => simp only [LayerRuleState.assertAppliesTextSt, LayerRuleState.normalForm, Option.map_some, assertAppliesText_fst]

theorem assertAppliesTextSt_snd (mt : Str → Str → Bool) (s : LayerRuleState) (g : PGraph Str) :
    (s.assertAppliesTextSt mt g).2 = assertAppliesLayerText mt s g := rfl

theorem assertAppliesLayerText_congr (mt : Str → Str → Bool) (s s' : LayerRuleState) (h : s.Equiv s') (g : PGraph Str) :
    assertAppliesLayerText mt s g = assertAppliesLayerText mt s' g := by
  rw [← assertAppliesLayerText_normalForm mt s g, ← assertAppliesLayerText_normalForm mt s' g, h]

theorem assertAppliesTextSt_equiv (mt : Str → Str → Bool) (s : LayerRuleState) (g : PGraph Str) :
    (s.assertAppliesTextSt mt g).1.Equiv s := by
  unfold LayerRuleState.Equiv
  rw [assertAppliesTextSt_fst, layer_normalForm_idem]

/-! ### lists with one slot overwritten by an equivalent object -/

theorem map_set_of_eq {α β : Type} (f : α → β) (l : List α) (i : Nat) (a b : α) (hi : l[i]? = some a) (hab : f b = f a) :
    (l.set i b).map f = l.map f := by
  induction l generalizing i with
  | nil => rfl
  | cons x xs ih =>
    cases i with
    | zero =>
      simp only [List.getElem?_cons_zero, Option.some.injEq] at hi
      simp only [List.set_cons_zero, List.map_cons, hab, hi]
    | succ i =>
      simp only [List.getElem?_cons_succ] at hi
      simp only [List.set_cons_succ, List.map_cons, ih i hi]

theorem set_self {α : Type} (l : List α) (i : Nat) (a : α) (hi : l[i]? = some a) : l.set i a = l := by
  have := map_set_of_eq id l i a a hi rfl
  simpa using this

/-! ### steps -/

theorem step_archs (mt : Str → Str → Bool) (w : World) (e : Ev) : (step mt w e).1.archs = w.archs := by
  cases e <;> simp only [step] <;> split <;> rfl

theorem step_diagramRules (mt : Str → Str → Bool) (w : World) (e : Ev) :
    (step mt w e).1.diagramRules = w.diagramRules := by
  cases e with
  | rule i j => simp only [step]; split <;> rfl
  | layerRule i j => simp only [step]; split <;> rfl
  | diagramRule i j =>
    simp only [step]
    split
    · next d g hd hg => exact set_self _ _ _ hd
    · rfl

/-- a step keeps the normal form of the world -/
theorem step_normalForm (mt : Str → Str → Bool) (w : World) (e : Ev) : (step mt w e).1.normalForm = w.normalForm := by
  cases e with
  | rule i j =>
    simp only [step]
    split
    · next r g hr hg =>
      simp only [World.normalForm]
      rw [map_set_of_eq RuleState.normalForm w.rules i r _ hr (assertAppliesText_equiv mt r g)]
    · rfl
  | layerRule i j =>
    simp only [step]
    split
    · next s g hs hg =>
      simp only [World.normalForm]
      rw [map_set_of_eq LayerRuleState.normalForm w.layerRules i s _ hs (assertAppliesTextSt_equiv mt s g)]
    · rfl
  | diagramRule i j =>
    simp only [step]
    split
    · next d g hd hg =>
      simp only [World.normalForm, set_self _ _ _ hd]
    · rfl

theorem getElem?_of_map_eq {α β : Type} (f : α → β) (l l' : List α) (h : l.map f = l'.map f) (i : Nat) :
    (l[i]?).map f = (l'[i]?).map f := by
  rw [← List.getElem?_map, ← List.getElem?_map, h]

/-- the outcome of an event depends on the world only through its normal form -/
theorem step_outcome_congr (mt : Str → Str → Bool) (w w' : World) (h : w.Equiv w') (e : Ev) :
    (step mt w e).2 = (step mt w' e).2 := by
  unfold World.Equiv World.normalForm at h
  obtain ⟨rs, ls, ds, as⟩ := w
  obtain ⟨rs', ls', ds', as'⟩ := w'
  simp only [World.mk.injEq] at h
  obtain ⟨hr, hl, hd, ha⟩ := h
  subst hd ha
  cases e with
  | rule i j =>
    have hi := getElem?_of_map_eq _ _ _ hr i
    simp only [step]
    cases h1 : rs[i]? with
    | none =>
      rw [h1] at hi
      cases h2 : rs'[i]? with
      | none => rfl
      | some r' => rw [h2] at hi; cases hi
    | some r =>
      rw [h1] at hi
      cases h2 : rs'[i]? with
      | none => rw [h2] at hi; cases hi
      | some r' =>
        rw [h2] at hi
        simp only [Option.map_some, Option.some.injEq] at hi
        cases as[j]? with
        | none => rfl
        | some g => simp only [assertAppliesText_congr mt r r' hi g]
  | layerRule i j =>
    have hi := getElem?_of_map_eq _ _ _ hl i
    simp only [step]
    cases h1 : ls[i]? with
    | none =>
      rw [h1] at hi
      cases h2 : ls'[i]? with
      | none => rfl
      | some r' => rw [h2] at hi; cases hi
    | some r =>
      rw [h1] at hi
      cases h2 : ls'[i]? with
      | none => rw [h2] at hi; cases hi
      | some r' =>
        rw [h2] at hi
        simp only [Option.map_some, Option.some.injEq] at hi
        cases as[j]? with
        | none => rfl
        | some g => simp only [assertAppliesTextSt_snd, assertAppliesLayerText_congr mt r r' hi g]
  | diagramRule i j =>
    simp only [step]
    cases ds[i]? with
    | none => rfl
    | some d =>
      cases as[j]? with
      | none => rfl
      | some g => rfl

/-! ### histories -/

theorem exec_archs (mt : Str → Str → Bool) (w : World) (h : List Ev) : (exec mt w h).archs = w.archs := by
  induction h generalizing w with
  | nil => rfl
  | cons e es ih => rw [exec, ih, step_archs]

theorem exec_diagramRules (mt : Str → Str → Bool) (w : World) (h : List Ev) :
    (exec mt w h).diagramRules = w.diagramRules := by
  induction h generalizing w with
  | nil => rfl
  | cons e es ih => rw [exec, ih, step_diagramRules]

theorem exec_normalForm (mt : Str → Str → Bool) (w : World) (h : List Ev) : (exec mt w h).Equiv w := by
  unfold World.Equiv
  induction h generalizing w with
  | nil => rfl
  | cons e es ih => rw [exec, ih, step_normalForm]

theorem exec_append (mt : Str → Str → Bool) (w : World) (h h' : List Ev) :
    exec mt w (h ++ h') = exec mt (exec mt w h) h' := by
  induction h generalizing w with
  | nil => rfl
  | cons e es ih => simp only [List.cons_append, exec, ih]

theorem run_length (mt : Str → Str → Bool) (w : World) (h : List Ev) : (run mt w h).length = h.length := by
  induction h generalizing w with
  | nil => rfl
  | cons e es ih => simp only [run, List.length_cons, ih]

/-- the outcome of `e` after any history is its outcome in the initial world -/
theorem history_outcome_fresh_lemma (mt : Str → Str → Bool) (w : World) (h : List Ev) (e : Ev) :
    outcomeIn mt (exec mt w h) e = outcomeIn mt w e :=
  step_outcome_congr mt _ _ (exec_normalForm mt w h) e

/-- hence the outcomes of a history are the outcomes of its events in the initial world -/
theorem run_eq_map (mt : Str → Str → Bool) (w : World) (h : List Ev) : run mt w h = h.map (outcomeIn mt w) := by
  suffices ∀ w', w'.Equiv w → run mt w' h = h.map (outcomeIn mt w) from this w rfl
  induction h with
  | nil => intro _ _; rfl
  | cons e es ih =>
    intro w' hw
    simp only [run, List.map_cons]
    rw [ih (step mt w' e).1 (by unfold World.Equiv at hw ⊢; rw [step_normalForm, hw])]
    exact congrArg (· :: _) (step_outcome_congr mt w' w hw e)

theorem trace_eq_map (mt : Str → Str → Bool) (w : World) (h : List Ev) :
    trace mt w h = h.map fun e => (e, outcomeIn mt w e) := by
  unfold trace
  rw [run_eq_map]
  induction h with
  | nil => rfl
  | cons e es ih => simp only [List.map_cons, List.zip_cons_cons, ih]

theorem history_perm_lemma (mt : Str → Str → Bool) (w : World) (h h' : List Ev) (hp : h.Perm h') :
    (trace mt w h).Perm (trace mt w h') := by
  rw [trace_eq_map, trace_eq_map]
  exact hp.map _

/-- the k-th outcome of a history -/
theorem run_getElem?_lemma (mt : Str → Str → Bool) (w : World) (h : List Ev) (k : Nat) :
    (run mt w h)[k]? = (h[k]?).map (outcomeIn mt w) := by
  rw [run_eq_map, List.getElem?_map]

/-! ### the world a history leaves behind, in closed form -/

theorem getElem?_set_apply {α : Type} (f : α → α) (l : List α) (i k : Nat) (a : α) (hi : l[i]? = some a) :
    (l.set i (f a))[k]? = (l[k]?).map fun r => if i = k then f r else r := by
  rw [List.getElem?_set]
  by_cases hik : i = k
  · subst hik
    have hlt : i < l.length := by
      rcases Nat.lt_or_ge i l.length with h | h
      · exact h
      · rw [List.getElem?_eq_none h] at hi; cases hi
    simp only [if_true, hlt, hi, Option.map_some]
  · simp only [hik, if_false]
    cases l[k]? <;> rfl

theorem lt_of_getElem?_eq_some {α : Type} (l : List α) (j : Nat) (a : α) (h : l[j]? = some a) : j < l.length := by
  rcases Nat.lt_or_ge j l.length with h' | h'
  · exact h'
  · rw [List.getElem?_eq_none h'] at h; cases h

theorem not_lt_of_getElem?_eq_none {α : Type} (l : List α) (j : Nat) (h : l[j]? = none) : ¬ j < l.length := by
  intro h'
  rw [List.getElem?_eq_getElem h'] at h
  cases h

theorem map_if_false {α : Type} (f : α → α) (o : Option α) (b : Bool) (hb : b = false) :
    o = o.map fun r => if b = true then f r else r := by
  subst hb
  cases o <;> rfl

theorem step_rules_getElem? (mt : Str → Str → Bool) (w : World) (e : Ev) (k : Nat) :
    (step mt w e).1.rules[k]? =
      (w.rules[k]?).map fun r => if calledRule w.archs.length [e] k then r.normalForm else r := by
  cases e with
  | rule i j =>
    simp only [step, calledRule, List.any_cons, List.any_nil, Bool.or_false]
    split
    · next r g hr hg =>
      simp only [assertAppliesText_fst, lt_of_getElem?_eq_some _ _ _ hg, decide_true, Bool.and_true, beq_iff_eq]
      exact getElem?_set_apply RuleState.normalForm w.rules i k r hr
    · next hno =>
      cases hr : w.rules[i]? with
      | none =>
        by_cases hik : i = k
        · subst hik; simp only [hr, Option.map_none]
        · exact map_if_false _ _ _ (by simp [hik])
      | some r =>
        cases hg : w.archs[j]? with
        | some g => exact absurd hg (hno r g hr)
        | none =>
          exact map_if_false _ _ _ (by simp [not_lt_of_getElem?_eq_none _ _ hg])
  | layerRule i j =>
    simp only [step, calledRule, List.any_cons, List.any_nil, Bool.or_false, Bool.false_eq_true, if_false]
    split <;> (cases w.rules[k]? <;> rfl)
  | diagramRule i j =>
    simp only [step, calledRule, List.any_cons, List.any_nil, Bool.or_false, Bool.false_eq_true, if_false]
    split <;> (cases w.rules[k]? <;> rfl)

theorem step_layerRules_getElem? (mt : Str → Str → Bool) (w : World) (e : Ev) (k : Nat) :
    (step mt w e).1.layerRules[k]? =
      (w.layerRules[k]?).map fun r => if calledLayerRule w.archs.length [e] k then r.normalForm else r := by
  cases e with
  | layerRule i j =>
    simp only [step, calledLayerRule, List.any_cons, List.any_nil, Bool.or_false]
    split
    · next r g hr hg =>
      simp only [assertAppliesTextSt_fst, lt_of_getElem?_eq_some _ _ _ hg, decide_true, Bool.and_true, beq_iff_eq]
      exact getElem?_set_apply LayerRuleState.normalForm w.layerRules i k r hr
    · next hno =>
      cases hr : w.layerRules[i]? with
      | none =>
        by_cases hik : i = k
        · subst hik; simp only [hr, Option.map_none]
        · exact map_if_false _ _ _ (by simp [hik])
      | some r =>
        cases hg : w.archs[j]? with
        | some g => exact absurd hg (hno r g hr)
        | none =>
          exact map_if_false _ _ _ (by simp [not_lt_of_getElem?_eq_none _ _ hg])
  | rule i j =>
    simp only [step, calledLayerRule, List.any_cons, List.any_nil, Bool.or_false, Bool.false_eq_true, if_false]
    split <;> (cases w.layerRules[k]? <;> rfl)
  | diagramRule i j =>
    simp only [step, calledLayerRule, List.any_cons, List.any_nil, Bool.or_false, Bool.false_eq_true, if_false]
    split <;> (cases w.layerRules[k]? <;> rfl)

theorem exec_rules_getElem? (mt : Str → Str → Bool) (w : World) (h : List Ev) (k : Nat) :
    (exec mt w h).rules[k]? =
      (w.rules[k]?).map fun r => if calledRule w.archs.length h k then r.normalForm else r := by
  induction h generalizing w with
  | nil =>
    simp only [exec, calledRule, List.any_nil, Bool.false_eq_true, if_false]
    cases w.rules[k]? <;> rfl
  | cons e es ih =>
    rw [exec, ih, step_rules_getElem?, step_archs]
    have hc : calledRule w.archs.length (e :: es) k = (calledRule w.archs.length [e] k || calledRule w.archs.length es k) := by
      simp only [calledRule, List.any_cons, List.any_nil, Bool.or_false]
    rw [hc]
    cases w.rules[k]? with
    | none => rfl
    | some r =>
      simp only [Option.map_some, Option.some.injEq]
      cases calledRule w.archs.length [e] k <;> cases calledRule w.archs.length es k <;>
        simp only [Bool.or_self, Bool.or_true, Bool.or_false, Bool.false_eq_true, if_false, if_true, normalForm_idem]

theorem exec_layerRules_getElem? (mt : Str → Str → Bool) (w : World) (h : List Ev) (k : Nat) :
    (exec mt w h).layerRules[k]? =
      (w.layerRules[k]?).map fun r => if calledLayerRule w.archs.length h k then r.normalForm else r := by
  induction h generalizing w with
  | nil =>
    simp only [exec, calledLayerRule, List.any_nil, Bool.false_eq_true, if_false]
    cases w.layerRules[k]? <;> rfl
  | cons e es ih =>
    rw [exec, ih, step_layerRules_getElem?, step_archs]
    have hc : calledLayerRule w.archs.length (e :: es) k =
        (calledLayerRule w.archs.length [e] k || calledLayerRule w.archs.length es k) := by
      simp only [calledLayerRule, List.any_cons, List.any_nil, Bool.or_false]
    rw [hc]
    cases w.layerRules[k]? with
    | none => rfl
    | some r =>
      simp only [Option.map_some, Option.some.injEq]
      cases calledLayerRule w.archs.length [e] k <;> cases calledLayerRule w.archs.length es k <;>
        simp only [Bool.or_self, Bool.or_true, Bool.or_false, Bool.false_eq_true, if_false, if_true, layer_normalForm_idem]

/-- the world after a history, in closed form -/
theorem exec_eq_after_lemma (mt : Str → Str → Bool) (w : World) (h : List Ev) : exec mt w h = w.after h := by
  have h1 : (exec mt w h).rules = (w.after h).rules := by
    apply List.ext_getElem?
    intro k
    rw [exec_rules_getElem?]
    simp only [World.after, List.getElem?_mapIdx]
  have h2 : (exec mt w h).layerRules = (w.after h).layerRules := by
    apply List.ext_getElem?
    intro k
    rw [exec_layerRules_getElem?]
    simp only [World.after, List.getElem?_mapIdx]
  have h3 := exec_diagramRules mt w h
  have h4 := exec_archs mt w h
  generalize exec mt w h = w' at h1 h2 h3 h4
  obtain ⟨a, b, c, d⟩ := w'
  simp only at h1 h2 h3 h4
  subst h1 h2 h3 h4
  rfl

theorem after_perm (w : World) (h h' : List Ev) (hp : h.Perm h') : w.after h = w.after h' := by
  unfold World.after calledRule calledLayerRule
  simp only [hp.any_eq]

/-- the objects a history leaves behind do not depend on the order of its events -/
theorem history_final_perm_lemma (mt : Str → Str → Bool) (w : World) (h h' : List Ev) (hp : h.Perm h') :
    exec mt w h = exec mt w h' := by
  rw [exec_eq_after_lemma, exec_eq_after_lemma, after_perm w h h' hp]

/-! ### the outcome of an event, spelled out -/

theorem outcomeIn_rule_lemma (mt : Str → Str → Bool) (w : World) (i j : Nat) (r : RuleState) (g : PGraph Str)
    (hr : w.rules[i]? = some r) (hg : w.archs[j]? = some g) :
    outcomeIn mt w (.rule i j) = .rule (assertAppliesText mt r g).2 := by
  simp only [outcomeIn, step, hr, hg]

theorem outcomeIn_layerRule_lemma (mt : Str → Str → Bool) (w : World) (i j : Nat) (s : LayerRuleState) (g : PGraph Str)
    (hs : w.layerRules[i]? = some s) (hg : w.archs[j]? = some g) :
    outcomeIn mt w (.layerRule i j) = .layerRule (assertAppliesLayerText mt s g) := by
  simp only [outcomeIn, step, hs, hg, assertAppliesTextSt_snd]

theorem outcomeIn_diagramRule_lemma (mt : Str → Str → Bool) (w : World) (i j : Nat) (d : DiagramRuleState) (g : PGraph Str)
    (hd : w.diagramRules[i]? = some d) (hg : w.archs[j]? = some g) :
    outcomeIn mt w (.diagramRule i j) = .diagramRule (d.assertApplies mt g) (d.assertAppliesText mt g) := by
  simp only [outcomeIn, step, hd, hg]

end Pta.History
