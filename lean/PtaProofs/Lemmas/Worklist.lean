/-
  PtaProofs.Lemmas.Worklist — the worklist of `get_all_submodules_of` computes exactly the
  reflexive-transitive closure of the hierarchy-child relation, and the fuel fixed by the top-level
  definition always suffices (potential: worklist length + number of hierarchy edges whose source
  has not been visited; it drops by exactly one per iteration).
-/
import PtaModel.Search
namespace Pta
variable {α : Type} [DecidableEq α]

/-- reflexive-transitive closure of the hierarchy-child relation -/
inductive Reach (g : PGraph α) : α → α → Prop
  | refl (a) : Reach g a a
  | step {a b c} : Reach g a b → c ∈ g.hierChildren b → Reach g a c

theorem Reach.head {g : PGraph α} {a b c : α} (h1 : b ∈ g.hierChildren a) (h2 : Reach g b c) :
    Reach g a c := by
  induction h2 with
  | refl => exact .step (.refl a) h1
  | step _ hc ih => exact .step ih hc

theorem Reach.trans {g : PGraph α} {a b c : α} (h1 : Reach g a b) (h2 : Reach g b c) : Reach g a c := by
  induction h2 with
  | refl => exact h1
  | step _ hc ih => exact .step ih hc

/-- hierarchy edges whose source has not been visited -/
def pendH (es : List (Edge α)) (seen : List α) : Nat :=
  es.countP (fun e => e.inh && !decide (e.src ∈ seen))

theorem countP_split {β : Type} (p r : β → Bool) (l : List β) :
    l.countP (fun x => p x && !r x) + l.countP (fun x => p x && r x) = l.countP p := by
  induction l with
  | nil => simp
  | cons x xs ih =>
    simp only [List.countP_cons]
    cases p x <;> cases r x <;> simp <;> omega

theorem hierChildren_length (g : PGraph α) (n : α) :
    (g.hierChildren n).length = g.edges.countP (fun e => e.src == n && e.inh) := by
  unfold PGraph.hierChildren
  rw [List.length_map, ← List.countP_eq_length_filter]

theorem pendH_expand (es : List (Edge α)) (seen : List α) (n : α) (hn : n ∉ seen) :
    pendH es (n :: seen) + es.countP (fun e => e.src == n && e.inh) = pendH es seen := by
  unfold pendH
  rw [← countP_split (fun e => e.inh && !decide (e.src ∈ seen)) (fun e => e.src == n) es]
  congr 1
  · apply List.countP_congr
    intro e _
    by_cases h1 : e.src = n <;> by_cases h2 : e.src ∈ seen <;> cases e.inh <;> simp [h1, h2]
  · apply List.countP_congr
    intro e _
    by_cases h1 : e.src = n
    · have : e.src ∉ seen := h1 ▸ hn
      cases e.inh <;> simp [h1, hn]
    · cases e.inh <;> simp [h1]

theorem subLoop_sound (g : PGraph α) (f : Nat) (work seen : List α) :
    ∀ x ∈ subLoop g f work seen, x ∈ seen ∨ ∃ w ∈ work, Reach g w x := by
  induction f generalizing work seen with
  | zero => intro x hx; simp [subLoop] at hx; exact .inl hx
  | succ f ih =>
    cases work with
    | nil => intro x hx; simp [subLoop] at hx; exact .inl hx
    | cons n rest =>
      intro x hx
      simp only [subLoop] at hx
      split at hx
      · rcases ih _ _ x hx with h | ⟨w, hw, hr⟩
        · exact .inl h
        · exact .inr ⟨w, List.mem_cons_of_mem _ hw, hr⟩
      · rcases ih _ _ x hx with h | ⟨w, hw, hr⟩
        · rcases List.mem_cons.mp h with rfl | h
          · exact .inr ⟨x, by simp, .refl _⟩
          · exact .inl h
        · rcases List.mem_append.mp hw with hw | hw
          · exact .inr ⟨n, by simp, Reach.head hw hr⟩
          · exact .inr ⟨w, List.mem_cons_of_mem _ hw, hr⟩

theorem subLoop_complete (g : PGraph α) (f : Nat) (work seen : List α)
    (hf : work.length + pendH g.edges seen < f) :
    (∀ x ∈ seen, x ∈ subLoop g f work seen) ∧ (∀ w ∈ work, w ∈ subLoop g f work seen) ∧
    (∀ x ∈ subLoop g f work seen, x ∈ seen ∨ ∀ c ∈ g.hierChildren x, c ∈ subLoop g f work seen) := by
  induction f generalizing work seen with
  | zero => omega
  | succ f ih =>
    cases work with
    | nil => simp only [subLoop]; exact ⟨fun x h => h, by simp, fun x h => .inl h⟩
    | cons n rest =>
      simp only [subLoop]
      split
      · rename_i hn
        obtain ⟨i1, i2, i3⟩ := ih rest seen (by simp at hf; omega)
        refine ⟨i1, ?_, i3⟩
        intro w hw
        rcases List.mem_cons.mp hw with rfl | h
        · exact i1 _ hn
        · exact i2 _ h
      · rename_i hn
        have hexp := pendH_expand g.edges seen n hn
        have hlen := hierChildren_length g n
        obtain ⟨i1, i2, i3⟩ := ih (g.hierChildren n ++ rest) (n :: seen) (by
          simp only [List.length_append, List.length_cons] at hf ⊢; omega)
        refine ⟨fun x hx => i1 x (List.mem_cons_of_mem _ hx), ?_, ?_⟩
        · intro w hw
          rcases List.mem_cons.mp hw with rfl | h
          · exact i1 _ (by simp)
          · exact i2 _ (List.mem_append_right _ h)
        · intro x hx
          rcases i3 x hx with h | h
          · rcases List.mem_cons.mp h with rfl | h
            · exact .inr fun c hc => i2 c (List.mem_append_left _ hc)
            · exact .inl h
          · exact .inr h

theorem pendH_nil (g : PGraph α) : pendH g.edges [] = hierCount g := by
  unfold pendH hierCount; congr 1; funext e; simp

/-- the loop with the fuel the model fixes computes hierarchy reachability -/
theorem mem_subLoop_top (g : PGraph α) (s x : α) :
    x ∈ subLoop g (hierCount g + 2) [s] [] ↔ Reach g s x := by
  constructor
  · intro h
    rcases subLoop_sound g _ [s] [] x h with h | ⟨w, hw, hr⟩
    · cases h
    · simp at hw; subst hw; exact hr
  · intro h
    obtain ⟨_, i2, i3⟩ := subLoop_complete g (hierCount g + 2) [s] [] (by rw [pendH_nil]; simp; omega)
    induction h with
    | refl => exact i2 _ (by simp)
    | step _ hc ih =>
      rcases i3 _ ih with h | h
      · cases h
      · exact h _ hc

/-- `get_all_submodules_of`: a lookup error exactly for unknown start nodes, otherwise the reachable set -/
theorem submodulesOf_spec (g : PGraph α) (s : α) :
    (g.hasNode s = false → submodulesOf g s = .error .lookupError) ∧
    (g.hasNode s = true → ∃ l, submodulesOf g s = .ok l ∧ ∀ x, x ∈ l ↔ Reach g s x) := by
  unfold submodulesOf
  constructor
  · intro h; simp [h]
  · intro h; simp only [h, if_true]
    exact ⟨_, rfl, mem_subLoop_top g s⟩

end Pta
