/-
  PtaProofs.Lemmas.RuleSim — simulation between the Rule builder (`RuleState`) and the specification
  automaton (`RTrack`), and the analysis of the pre-checks of `assert_applies`.
-/
import Bridge.Abs
set_option linter.unusedSimpArgs false
namespace Pta.Hist
open PtaSpec

/-- "some non-empty list" -/
def neOpt : Option (List Filter) → Bool
  | some l => !l.isEmpty
  | none => false

structure RSim (s : RuleState) (t : RTrack) : Prop where
  target : t.target = s.next
  subject : t.subject = neOpt s.cfg.subjects
  object : t.object = neOpt s.cfg.objects
  should : t.should = s.cfg.should
  only : t.only = s.cfg.shouldOnly
  not_ : t.not_ = s.cfg.shouldNot
  importType : t.importType = s.cfg.importDir.isSome
  anything : t.anything = s.cfg.anything

theorem rsim_init : RSim {} {} := by
  constructor <;> rfl

theorem rsim_step (glob : Str → Str) (s : RuleState) (t : RTrack) (op : RuleOp) (h : RSim s t) :
    match t.step (toRCall op) with
    | none => s.step glob op = .error .improperlyConfigured
    | some t' => ∃ s', s.step glob op = .ok s' ∧ RSim s' t' := by
  obtain ⟨h1, h2, h3, h4, h5, h6, h7, h8⟩ := h
  cases op <;> simp only [toRCall, RTrack.step, RuleState.step, RuleState.setModules]
  case modulesThat => exact ⟨_, rfl, ⟨rfl, h2, h3, h4, h5, h6, h7, h8⟩⟩
  case should => exact ⟨_, rfl, ⟨h1, h2, h3, rfl, h5, h6, h7, h8⟩⟩
  case shouldOnly => exact ⟨_, rfl, ⟨h1, h2, h3, h4, rfl, h6, h7, h8⟩⟩
  case shouldNot => exact ⟨_, rfl, ⟨h1, h2, h3, h4, h5, rfl, h7, h8⟩⟩
  case importThat => exact ⟨_, rfl, ⟨rfl, h2, h3, h4, h5, h6, rfl, h8⟩⟩
  case beImportedByThat => exact ⟨_, rfl, ⟨rfl, h2, h3, h4, h5, h6, rfl, h8⟩⟩
  case importExcept => exact ⟨_, rfl, ⟨rfl, h2, h3, h4, h5, h6, rfl, h8⟩⟩
  case beImportedByExcept => exact ⟨_, rfl, ⟨rfl, h2, h3, h4, h5, h6, rfl, h8⟩⟩
  case importAnything => exact ⟨_, rfl, ⟨rfl, h2, h3, h4, h5, h6, rfl, rfl⟩⟩
  case beImportedByAnything => exact ⟨_, rfl, ⟨rfl, h2, h3, h4, h5, h6, rfl, rfl⟩⟩
  all_goals
    rw [h1]
    rcases hn : s.next with _ | _ | _ <;> simp only []
    · exact ⟨_, rfl, ⟨by simp [hn], h2, by simp [neOpt], h4, h5, h6, h7, h8⟩⟩
    · exact ⟨_, rfl, ⟨by simp [hn], by simp [neOpt], h3, h4, h5, h6, h7, h8⟩⟩

/-! ### `dedupSubjects` keeps a non-empty list non-empty -/

theorem startsWith_length (p s : Str) (h : startsWith p s = true) : p.length ≤ s.length := by
  induction p generalizing s with
  | nil => simp
  | cons a p ih =>
    cases s with
    | nil => simp [startsWith] at h
    | cons b s =>
      simp only [startsWith, Bool.and_eq_true] at h
      have := ih s h.2
      simp; omega

theorem isStrictSub_length (p n : Str) (h : isStrictSub p n = true) : p.length < n.length := by
  have := startsWith_length _ _ h
  simp at this; omega

theorem exists_min_id (l : List Filter) (h : l ≠ []) :
    ∃ m ∈ l, ∀ o ∈ l, m.id.length ≤ o.id.length := by
  induction l with
  | nil => exact absurd rfl h
  | cons x xs ih =>
    cases xs with
    | nil => exact ⟨x, by simp, by simp⟩
    | cons y ys =>
      obtain ⟨m, hm, hmin⟩ := ih (by simp)
      by_cases hx : x.id.length ≤ m.id.length
      · refine ⟨x, by simp, ?_⟩
        intro o ho
        rcases List.mem_cons.mp ho with rfl | ho
        · exact Nat.le_refl _
        · exact Nat.le_trans hx (hmin o ho)
      · refine ⟨m, List.mem_cons_of_mem _ hm, ?_⟩
        intro o ho
        rcases List.mem_cons.mp ho with rfl | ho
        · omega
        · exact hmin o ho

theorem dedupSubjects_ne_nil (l : List Filter) (h : l ≠ []) : dedupSubjects l ≠ [] := by
  obtain ⟨m, hm, hmin⟩ := exists_min_id l h
  intro hnil
  have : m ∈ dedupSubjects l := by
    unfold dedupSubjects
    rw [List.mem_filter]
    refine ⟨hm, ?_⟩
    simp only [Bool.not_eq_true', List.any_eq_false]
    intro o ho hs
    have := isStrictSub_length _ _ (Bool.and_eq_true_iff.1 hs).2
    have := hmin o ho
    omega
  rw [hnil] at this
  cases this

theorem neOpt_map_dedup (o : Option (List Filter)) : neOpt (o.map dedupSubjects) = neOpt o := by
  cases o with
  | none => rfl
  | some l =>
    cases l with
    | nil => rfl
    | cons x xs =>
      have := dedupSubjects_ne_nil (x :: xs) (by simp)
      simp only [Option.map, neOpt]
      cases hd : dedupSubjects (x :: xs) with
      | nil => exact absurd hd this
      | cons _ _ => rfl

/-! ### the pre-checks of `assert_applies` -/

theorem configMissing_eq (c : RuleConfig) :
    configMissing c = (!(c.should || c.shouldOnly || c.shouldNot) || !c.importDir.isSome || !neOpt c.subjects || !neOpt c.objects) := by
  unfold configMissing neOpt
  cases c.subjects <;> cases c.objects <;> cases c.importDir <;> simp

/-- the three pre-checks of `assert_applies` / `LayerRule.assert_applies` -/
def preFail (c : RuleConfig) : Bool :=
  anythingMisused c || (configMissing (convertAliases c) || (convertAliases c).behavior.inconsistent)

theorem preFail_eq (c : RuleConfig) :
    preFail c = ((c.anything && !c.shouldNot) ||
      ((!(c.should || c.shouldOnly || c.shouldNot) || !c.importDir.isSome || !neOpt c.subjects ||
          !(if c.anything then neOpt c.subjects else neOpt c.objects)) ||
        Behavior.inconsistent ⟨c.should, c.shouldOnly, c.shouldNot, c.exceptPresent || c.anything⟩)) := by
  unfold preFail
  rw [configMissing_eq]
  unfold anythingMisused convertAliases RuleConfig.behavior
  cases ha : c.anything
  · simp [ha]
  · simp [ha, neOpt_map_dedup]

theorem rsim_mustRaise {s : RuleState} {t : RTrack} (h : RSim s t) (hm : t.classify.mustRaise = true) :
    preFail s.cfg = true := by
  rw [preFail_eq]
  obtain ⟨_, h2, h3, h4, h5, h6, h7, h8⟩ := h
  rw [← h2, ← h3, ← h4, ← h5, ← h6, ← h7, ← h8]
  revert hm
  unfold RTrack.classify
  generalize s.cfg.exceptPresent = e
  rcases t with ⟨tg, a, b, c, d, e', f, g, h⟩
  simp only
  cases a <;> cases b <;> cases c <;> cases d <;> cases e' <;> cases f <;> cases g <;> cases h <;> cases e <;> simp [Behavior.inconsistent, Behavior.explReq, Behavior.explForb, Behavior.otherReq, Behavior.otherForb, RClass.mustRaise]

theorem rsim_complete {s : RuleState} {t : RTrack} (h : RSim s t) (hm : t.classify = .complete) :
    preFail s.cfg = false := by
  rw [preFail_eq]
  obtain ⟨_, h2, h3, h4, h5, h6, h7, h8⟩ := h
  rw [← h2, ← h3, ← h4, ← h5, ← h6, ← h7, ← h8]
  revert hm
  unfold RTrack.classify
  generalize s.cfg.exceptPresent = e
  rcases t with ⟨tg, a, b, c, d, e', f, g, h⟩
  simp only
  cases a <;> cases b <;> cases c <;> cases d <;> cases e' <;> cases f <;> cases g <;> cases h <;> cases e <;> simp [Behavior.inconsistent, Behavior.explReq, Behavior.explForb, Behavior.otherReq, Behavior.otherForb, RClass.mustRaise]
