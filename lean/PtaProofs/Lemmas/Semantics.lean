/-
  PtaProofs.Lemmas.Semantics — lemmas behind Props/C01.lean: model verdict / report = declarative semantics.
  Layers: SemHier (reachability = prefix, searches = `edges`/`others`), SemQueries (query families, shape of
  `assertApplies (compile r)`), this file (verdict, report atoms, unknown names).
-/
import Bridge.Abs
import PtaProofs.Lemmas.Render
import PtaProofs.Lemmas.SearchChar
import PtaProofs.Lemmas.Build
import PtaProofs.Lemmas.SemQueries
namespace Pta
open PtaSpec

theorem realised_isEmpty (d : Bool) {κ : Type} (deps : List (κ × List (Str × Str))) :
    (realised d deps).isEmpty = deps.all (fun kd => kd.2.isEmpty) := by
  rw [Bool.eq_iff_iff]
  simp [realised, List.isEmpty_iff, List.flatMap_eq_nil_iff, List.all_eq_true]

theorem abstractWithout_isEmpty (d : Bool) (e : ExplDeps) :
    (abstractWithout d e).isEmpty = e.all (fun kd => !kd.2.isEmpty) := by
  rw [Bool.eq_iff_iff]
  simp [abstractWithout, List.isEmpty_iff, List.filter_eq_nil_iff, List.all_eq_true]

theorem missingOther_isEmpty (e : OtherDeps) (objs : List Mod) (h : objs ≠ []) :
    (missingOther e objs).isEmpty = e.all (fun kd => !kd.2.isEmpty) := by
  rw [Bool.eq_iff_iff]
  simp [missingOther, List.isEmpty_iff, List.all_eq_true, List.flatMap_eq_nil_iff, h]

theorem all_transfer_E {a : Arch} {r : RuleSpec} {e : ExplDeps} (he : ESpec a r e)
    (P : List (Str × Str) → Bool) (Q : List (Name × Name) → Bool) (hPQ : ∀ l es, Rep l es → P l = Q es) :
    e.all (fun kd => P kd.2) = r.subjects.all fun s => r.effObjects.all fun o => Q (edges a r.importDir s o) := by
  rw [Bool.eq_iff_iff]
  simp only [List.all_eq_true]
  constructor
  · intro h s hs o ho
    obtain ⟨kd, hkd, _, hrep⟩ := he.2 s hs o ho
    rw [← hPQ _ _ hrep]; exact h kd hkd
  · intro h kd hkd
    obtain ⟨s, hs, o, ho, _, hrep⟩ := he.1 kd hkd
    rw [hPQ _ _ hrep]; exact h s hs o ho

theorem all_transfer_O {a : Arch} {r : RuleSpec} {e : OtherDeps} (he : OSpec a r e)
    (P : List (Str × Str) → Bool) (Q : List (Name × Name) → Bool) (hPQ : ∀ l es, Rep l es → P l = Q es) :
    e.all (fun kd => P kd.2) = r.subjects.all fun s => Q (others a r.importDir s r.effObjects) := by
  rw [Bool.eq_iff_iff]
  simp only [List.all_eq_true]
  constructor
  · intro h s hs
    obtain ⟨kd, hkd, _, hrep⟩ := he.2 s hs
    rw [← hPQ _ _ hrep]; exact h kd hkd
  · intro h kd hkd
    obtain ⟨s, hs, _, hrep⟩ := he.1 kd hkd
    rw [hPQ _ _ hrep]; exact h s hs

theorem effObjects_ne_nil (r : RuleSpec) (hs : r.subjects ≠ []) (ho : r.anything = true ∨ r.objects ≠ []) :
    r.effObjects ≠ [] := by
  unfold RuleSpec.effObjects
  cases h : r.anything
  · simpa [h] using ho
  · simpa using hs

theorem detect_any (v : Verb) (x d : Bool) (e : ExplDeps) (o : OtherDeps) (objsM : List Mod) :
    (detect ⟨v == .should, v == .shouldOnly, v == .shouldNot, x⟩ d
      (if ((⟨v == .should, v == .shouldOnly, v == .shouldNot, x⟩ : Behavior).explReq ||
           (⟨v == .should, v == .shouldOnly, v == .shouldNot, x⟩ : Behavior).explForb) = true then some e else none)
      (if ((⟨v == .should, v == .shouldOnly, v == .shouldNot, x⟩ : Behavior).otherReq ||
           (⟨v == .should, v == .shouldOnly, v == .shouldNot, x⟩ : Behavior).otherForb) = true then some o else none)
      objsM).any =
    !(match v, x with
      | .should, false => (abstractWithout d e).isEmpty
      | .shouldNot, false => (realised d e).isEmpty
      | .shouldOnly, false => (abstractWithout d e).isEmpty && (realised d o).isEmpty
      | .should, true => (missingOther o objsM).isEmpty
      | .shouldOnly, true => (missingOther o objsM).isEmpty && (realised d e).isEmpty
      | .shouldNot, true => (realised d o).isEmpty) := by
  generalize hA : (abstractWithout d e).isEmpty = A
  generalize hB : (realised d e).isEmpty = B
  generalize hC : (realised d o).isEmpty = C
  generalize hD : (missingOther o objsM).isEmpty = D
  cases v <;> cases x <;>
    simp [detect, Violations.any, Behavior.explReq, Behavior.explForb, Behavior.otherReq, Behavior.otherForb,
      Behavior.expOtherNotPresent, Behavior.expExplNotPresent, Behavior.expExplAndNoOther,
      Behavior.expExplNotButOthers, Behavior.expAtLeastOneOther, Behavior.expExplPresent, hA, hB, hC, hD]
  all_goals exact Bool.or_comm _ _

theorem verdict_spec_of_graph_lemma (mt : Str → Str → Bool) (a : Arch) (g : PGraph Str) (hg : GraphOf a g) (hwf : a.wf = true)
    (r : RuleSpec) (hstrict : r.strict = true) (hnames : r.namesIn a = true)
    (hs : r.subjects ≠ []) (ho : r.anything = true ∨ r.objects ≠ [])
    (hany : r.anything = true → r.verb = .shouldNot) :
    verdictOf mt g (compile r) = VClass.ofBool (verdict a r) := by
  have hw := archWF_of_wf a hwf
  have ctx := ruleCtx_of a r hstrict hnames
  have hdd : r.anything = true → dedupSubjects (r.subjects.map compileFilter) = r.subjects.map compileFilter :=
    fun _ => dedupSubjects_strict hw r.subjects (fun f hf => ctx.names f (List.mem_append_left _ hf))
      (fun f hf f' hf' => ctx.compat f (List.mem_append_left _ hf) f' (List.mem_append_left _ hf'))
  obtain ⟨e, o, hE, hO, hq⟩ := runQueries_compile hw hg r ctx
  unfold verdictOf
  rw [assertApplies_compile mt g r hs ho hany hdd, hq]
  have hEn := (realised_isEmpty r.importDir e).trans (all_transfer_E hE _ _ (fun _ _ h => h.isEmpty))
  have hEa := (abstractWithout_isEmpty r.importDir e).trans
    (all_transfer_E hE (fun l => !l.isEmpty) (fun l => !l.isEmpty) (fun _ _ h => by simp only [h.isEmpty]))
  have hOn := (realised_isEmpty r.importDir o).trans (all_transfer_O hO _ _ (fun _ _ h => h.isEmpty))
  have hOa := (missingOther_isEmpty o ((r.effObjects.map compileFilter).map Filter.toMod)
      (by simpa using effObjects_ne_nil r hs ho)).trans
    (all_transfer_O hO (fun l => !l.isEmpty) (fun l => !l.isEmpty) (fun _ _ h => by simp only [h.isEmpty]))
  unfold verdict
  simp only []
  generalize (r.subjects.all fun s => r.effObjects.all fun o => (edges a r.importDir s o).isEmpty) = EN at *
  generalize (r.subjects.all fun s => r.effObjects.all fun o => !(edges a r.importDir s o).isEmpty) = EA at *
  generalize (r.subjects.all fun s => (others a r.importDir s r.effObjects).isEmpty) = ON at *
  generalize (r.subjects.all fun s => !(others a r.importDir s r.effObjects).isEmpty) = OA at *
  have hb : beh r = ⟨r.verb == .should, r.verb == .shouldOnly, r.verb == .shouldNot, r.effExc⟩ := rfl
  rw [hb]
  generalize r.verb = v
  generalize r.effExc = x
  rw [detect_any, hEn, hEa, hOn, hOa]
  cases v <;> cases x <;> simp only [] <;> cases EA <;> cases EN <;> cases OA <;> cases ON <;> rfl

/-! ### unknown names -/

theorem depBetween_err_kind (g : PGraph Str) (f o : Filter) (k : ErrKind) (h : depBetween g f o = .error k) :
    k = .lookupError := by
  by_cases hn : g.hasNode f.id = true ∧ g.hasNode o.id = true
  · obtain ⟨l, hl, _⟩ := depBetween_ok g f o hn.1 hn.2
    rw [hl] at h; cases h
  · rw [depBetween_err g f o (by
      by_cases h1 : g.hasNode f.id = true
      · right; simpa using fun h2 => hn ⟨h1, h2⟩
      · left; simpa using h1)] at h
    cases h; rfl

theorem otherFrom_err_kind (g : PGraph Str) (f : Filter) (os : List Filter) (k : ErrKind)
    (h : otherFrom g f os = .error k) : k = .lookupError := by
  by_cases hn : g.hasNode f.id = false ∨ ∃ o ∈ os, o ≠ f ∧ g.hasNode o.id = false
  · rw [otherFrom_err g f os hn] at h; cases h; rfl
  · have hf : g.hasNode f.id = true := by
      cases hh : g.hasNode f.id
      · exact absurd (Or.inl hh) hn
      · rfl
    obtain ⟨l', hl', _⟩ := otherFrom_ok g f os hf (by
      intro o ho
      by_cases hof : o = f
      · rw [hof]; exact hf
      · cases hh : g.hasNode o.id
        · exact absurd (Or.inr ⟨o, ho, hof, hh⟩) hn
        · rfl)
    rw [hl'] at h; cases h

theorem otherTo_err_kind (g : PGraph Str) (fs : List Filter) (o : Filter) (k : ErrKind)
    (h : otherTo g fs o = .error k) : k = .lookupError := by
  by_cases hn : g.hasNode o.id = false ∨ ∃ f ∈ fs, f ≠ o ∧ g.hasNode f.id = false
  · rw [otherTo_err g fs o hn] at h; cases h; rfl
  · have hf : g.hasNode o.id = true := by
      cases hh : g.hasNode o.id
      · exact absurd (Or.inl hh) hn
      · rfl
    obtain ⟨l', hl', _⟩ := otherTo_ok g fs o hf (by
      intro f hf'
      by_cases hof : f = o
      · rw [hof]; exact hf
      · cases hh : g.hasNode f.id
        · exact absurd (Or.inr ⟨f, hf', hof, hh⟩) hn
        · rfl)
    rw [hl'] at h; cases h

theorem bind_pure_err {α β : Type} (x : Except ErrKind α) (f : α → β) (k : ErrKind)
    (h : (do let d ← x; pure (f d) : Except ErrKind β) = .error k) : x = .error k := by
  cases x with
  | error k' => simpa [bind, Except.bind] using h
  | ok d => simp [bind, Except.bind, pure, Except.pure] at h

theorem getDependencies_err (g : PGraph Str) (A B : List Filter) (hA : A ≠ []) (hB : B ≠ [])
    (hm : ∃ F ∈ A ++ B, g.hasNode F.id = false) : getDependencies g A B = .error .lookupError := by
  unfold getDependencies
  apply mapM_err
  · obtain ⟨F, hF, hn⟩ := hm
    obtain ⟨a0, ha0⟩ := List.exists_mem_of_ne_nil A hA
    obtain ⟨b0, hb0⟩ := List.exists_mem_of_ne_nil B hB
    rcases List.mem_append.mp hF with hF | hF
    · refine ⟨(F, b0), ?_, ?_⟩
      · simp only [List.mem_flatMap, List.mem_map, mem_dedup]
        exact ⟨F, hF, b0, hb0, rfl⟩
      · simp [depBetween_err g F b0 (.inl hn), bind, Except.bind]
    · refine ⟨(a0, F), ?_, ?_⟩
      · simp only [List.mem_flatMap, List.mem_map, mem_dedup]
        exact ⟨a0, ha0, F, hF, rfl⟩
      · simp [depBetween_err g a0 F (.inr hn), bind, Except.bind]
  · intro fo _ k' hk
    exact depBetween_err_kind g fo.1 fo.2 k' (bind_pure_err _ _ _ hk)

theorem getOtherFrom_err (g : PGraph Str) (A B : List Filter) (hA : A ≠ [])
    (hm : ∃ F ∈ A ++ B, g.hasNode F.id = false) : getOtherFrom g A B = .error .lookupError := by
  unfold getOtherFrom
  apply mapM_err
  · obtain ⟨F, hF, hn⟩ := hm
    obtain ⟨a0, ha0⟩ := List.exists_mem_of_ne_nil A hA
    rcases List.mem_append.mp hF with hF | hF
    · refine ⟨F, (mem_dedup _ _).2 hF, ?_⟩
      simp [otherFrom_err g F _ (.inl hn), bind, Except.bind]
    · refine ⟨a0, (mem_dedup _ _).2 ha0, ?_⟩
      have : otherFrom g a0 (dedup B) = .error .lookupError := by
        apply otherFrom_err
        cases hh : g.hasNode a0.id
        · exact .inl rfl
        · right
          refine ⟨F, (mem_dedup _ _).2 hF, ?_, hn⟩
          rintro rfl
          rw [hh] at hn; cases hn
      simp [this, bind, Except.bind]
  · intro f _ k' hk
    exact otherFrom_err_kind g f _ k' (bind_pure_err _ _ _ hk)

theorem getOtherTo_err (g : PGraph Str) (A B : List Filter) (hB : B ≠ [])
    (hm : ∃ F ∈ A ++ B, g.hasNode F.id = false) : getOtherTo g A B = .error .lookupError := by
  unfold getOtherTo
  apply mapM_err
  · obtain ⟨F, hF, hn⟩ := hm
    obtain ⟨b0, hb0⟩ := List.exists_mem_of_ne_nil B hB
    rcases List.mem_append.mp hF with hF | hF
    · refine ⟨b0, (mem_dedup _ _).2 hb0, ?_⟩
      have : otherTo g (dedup A) b0 = .error .lookupError := by
        apply otherTo_err
        cases hh : g.hasNode b0.id
        · exact .inl rfl
        · right
          refine ⟨F, (mem_dedup _ _).2 hF, ?_, hn⟩
          rintro rfl
          rw [hh] at hn; cases hn
      simp [this, bind, Except.bind]
    · refine ⟨F, (mem_dedup _ _).2 hF, ?_⟩
      simp [otherTo_err g _ F (.inl hn), bind, Except.bind]
  · intro f _ k' hk
    exact otherTo_err_kind g _ f k' (bind_pure_err _ _ _ hk)

theorem runQueries_err (g : PGraph Str) (b : Behavior) (d : Bool) (subs objs : List Filter)
    (hb : ((b.explReq || b.explForb) || (b.otherReq || b.otherForb)) = true)
    (hs : subs ≠ []) (ho : objs ≠ [])
    (hm : ∃ F ∈ subs ++ objs, g.hasNode F.id = false) :
    runQueries g b d subs objs = .error .lookupError := by
  have hm' : ∃ F ∈ objs ++ subs, g.hasNode F.id = false := by
    obtain ⟨F, hF, hn⟩ := hm
    exact ⟨F, by simpa [or_comm] using hF, hn⟩
  unfold runQueries
  cases d
  · simp only [Bool.false_eq_true, if_false]
    rw [getDependencies_err g objs subs ho hs hm', getOtherTo_err g objs subs hs hm']
    cases h1 : (b.explReq || b.explForb) <;> cases h2 : (b.otherReq || b.otherForb) <;>
      simp_all [bind, Except.bind, pure, Except.pure, Except.map]
  · simp only [if_true]
    rw [getDependencies_err g subs objs hs ho hm, getOtherFrom_err g subs objs hs hm]
    cases h1 : (b.explReq || b.explForb) <;> cases h2 : (b.otherReq || b.otherForb) <;>
      simp_all [bind, Except.bind, pure, Except.pure, Except.map]

theorem beh_queries (r : RuleSpec) :
    (((beh r).explReq || (beh r).explForb) || ((beh r).otherReq || (beh r).otherForb)) = true := by
  unfold beh
  cases r.verb <;> cases r.effExc <;> rfl

theorem unknown_name_no_verdict_lemma (mt : Str → Str → Bool) (a : Arch) (g : PGraph Str) (hg : GraphOf a g)
    (r : RuleSpec) (hs : r.subjects ≠ []) (ho : r.anything = true ∨ r.objects ≠ [])
    (hany : r.anything = true → r.verb = .shouldNot)
    (hdd : r.anything = true → dedupSubjects (r.subjects.map compileFilter) = r.subjects.map compileFilter)
    (hmissing : ∃ f ∈ r.subjects ++ r.effObjects, f.id ∉ a.nodes) (hwfn : ∀ f ∈ r.subjects ++ r.effObjects, nameWF f.id = true)
    (hwf : a.wf = true) :
    verdictOf mt g (compile r) = .err .lookupError := by
  have hw := archWF_of_wf a hwf
  unfold verdictOf
  rw [assertApplies_compile mt g r hs ho hany hdd]
  rw [runQueries_err g (beh r) r.importDir _ _ (beh_queries r) (by simpa using hs)
    (by simpa using effObjects_ne_nil r hs ho) (by
      obtain ⟨f, hf, hn⟩ := hmissing
      refine ⟨compileFilter f, ?_, ?_⟩
      · rw [← List.map_append]; exact List.mem_map_of_mem hf
      · simpa using hasNode_render_false hw hg f.id (hwfn f hf) hn)]
  rfl

/-! ### atoms of the model's report -/

theorem atoms_impItems_realised (d : Bool) {κ : Type} (deps : List (κ × List (Str × Str))) (x : Atom) :
    x ∈ (impItems d (realised d deps)).flatMap Item.atoms ↔ ∃ kd ∈ deps, ∃ p ∈ kd.2, x = Atom.imp p.1 p.2 := by
  simp only [impItems, realised, List.mem_flatMap, List.mem_map]
  constructor
  · rintro ⟨it, ⟨dd, ⟨kd, hkd, p, hp, rfl⟩, rfl⟩, hx⟩
    refine ⟨kd, hkd, p, hp, ?_⟩
    cases d <;> simpa [userOrder, Item.atoms] using hx
  · rintro ⟨kd, hkd, p, hp, rfl⟩
    refine ⟨_, ⟨_, ⟨kd, hkd, p, hp, rfl⟩, rfl⟩, ?_⟩
    cases d <;> simp [userOrder, Item.atoms]

theorem atoms_missItems (any d : Bool) (ds : List Dep) (x : Atom) :
    x ∈ (missItems any d ds).flatMap Item.atoms ↔ ∃ dd ∈ ds, x = Atom.miss any dd.1 dd.2 := by
  simp only [missItems, List.mem_flatMap, List.mem_map, mem_dedup]
  constructor
  · rintro ⟨it, ⟨s, ⟨dd, hdd, rfl⟩, rfl⟩, hx⟩
    simp only [Item.atoms, List.mem_map, mem_dedup, List.mem_filter] at hx
    obtain ⟨o, ⟨y, ⟨hy, hy1⟩, rfl⟩, rfl⟩ := hx
    refine ⟨y, hy, ?_⟩
    rw [of_decide_eq_true hy1]
  · rintro ⟨dd, hdd, rfl⟩
    refine ⟨_, ⟨dd.1, ⟨dd, hdd, rfl⟩, rfl⟩, ?_⟩
    simp only [Item.atoms, List.mem_map, mem_dedup, List.mem_filter]
    exact ⟨dd.2, ⟨dd, ⟨hdd, by simp⟩, rfl⟩, rfl⟩

/-! ### atoms of the specification's violating set -/

def sEforb (a : Arch) (r : RuleSpec) : List SItem :=
  r.subjects.flatMap fun s => r.effObjects.flatMap fun o => (edges a r.importDir s o).map fun e => SItem.imp e.1 e.2
def sOforb (a : Arch) (r : RuleSpec) : List SItem :=
  r.subjects.flatMap fun s => (others a r.importDir s r.effObjects).map fun e => SItem.imp e.1 e.2
def sEneed (a : Arch) (r : RuleSpec) : List SItem :=
  r.subjects.filterMap fun s =>
    let missing := r.effObjects.filter fun o => (edges a r.importDir s o).isEmpty
    if missing.isEmpty then none else some (SItem.miss false s missing)
def sOneed (a : Arch) (r : RuleSpec) : List SItem :=
  r.subjects.filterMap fun s =>
    if (others a r.importDir s r.effObjects).isEmpty then some (SItem.miss true s r.effObjects) else none

theorem mem_violating (a : Arch) (r : RuleSpec) (x : Atom) :
    x ∈ (violating a r).flatMap SItem.atoms ↔
      (match r.verb, r.effExc with
       | .should, false => x ∈ (sEneed a r).flatMap SItem.atoms
       | .shouldNot, false => x ∈ (sEforb a r).flatMap SItem.atoms
       | .shouldOnly, false => x ∈ (sOforb a r).flatMap SItem.atoms ∨ x ∈ (sEneed a r).flatMap SItem.atoms
       | .should, true => x ∈ (sOneed a r).flatMap SItem.atoms
       | .shouldOnly, true => x ∈ (sEforb a r).flatMap SItem.atoms ∨ x ∈ (sOneed a r).flatMap SItem.atoms
       | .shouldNot, true => x ∈ (sOforb a r).flatMap SItem.atoms) := by
  have hv : violating a r =
      (if ((r.verb = .shouldNot && !r.effExc) || (r.verb = .shouldOnly && r.effExc)) = true then sEforb a r else []) ++
      (if ((r.verb = .shouldNot && r.effExc) || (r.verb = .shouldOnly && !r.effExc)) = true then sOforb a r else []) ++
      (if ((r.verb = .should || r.verb = .shouldOnly) && !r.effExc) = true then sEneed a r else []) ++
      (if ((r.verb = .should || r.verb = .shouldOnly) && r.effExc) = true then sOneed a r else []) := rfl
  rw [hv]
  generalize r.verb = v
  generalize r.effExc = c
  cases v <;> cases c <;> simp

theorem mem_sEforb (a : Arch) (r : RuleSpec) (x : Atom) :
    x ∈ (sEforb a r).flatMap SItem.atoms ↔
      ∃ s ∈ r.subjects, ∃ o ∈ r.effObjects, ∃ e ∈ edges a r.importDir s o, x = .imp (render e.1) (render e.2) := by
  simp only [sEforb, List.mem_flatMap, List.mem_map]
  constructor
  · rintro ⟨it, ⟨s, hs, o, ho, e, he, rfl⟩, hx⟩
    exact ⟨s, hs, o, ho, e, he, by simpa [SItem.atoms] using hx⟩
  · rintro ⟨s, hs, o, ho, e, he, rfl⟩
    exact ⟨_, ⟨s, hs, o, ho, e, he, rfl⟩, by simp [SItem.atoms]⟩

theorem mem_sOforb (a : Arch) (r : RuleSpec) (x : Atom) :
    x ∈ (sOforb a r).flatMap SItem.atoms ↔
      ∃ s ∈ r.subjects, ∃ e ∈ others a r.importDir s r.effObjects, x = .imp (render e.1) (render e.2) := by
  simp only [sOforb, List.mem_flatMap, List.mem_map]
  constructor
  · rintro ⟨it, ⟨s, hs, e, he, rfl⟩, hx⟩
    exact ⟨s, hs, e, he, by simpa [SItem.atoms] using hx⟩
  · rintro ⟨s, hs, e, he, rfl⟩
    exact ⟨_, ⟨s, hs, e, he, rfl⟩, by simp [SItem.atoms]⟩

theorem mem_sEneed (a : Arch) (r : RuleSpec) (x : Atom) :
    x ∈ (sEneed a r).flatMap SItem.atoms ↔
      ∃ s ∈ r.subjects, ∃ o ∈ r.effObjects, (edges a r.importDir s o).isEmpty = true ∧
        x = .miss false (sfilterMod s) (sfilterMod o) := by
  simp only [sEneed, List.mem_flatMap, List.mem_filterMap]
  constructor
  · rintro ⟨it, ⟨s, hs, hit⟩, hx⟩
    split at hit
    · cases hit
    · cases hit
      simp only [SItem.atoms, List.mem_map, List.mem_filter] at hx
      obtain ⟨o, ⟨ho, he⟩, rfl⟩ := hx
      exact ⟨s, hs, o, ho, he, rfl⟩
  · rintro ⟨s, hs, o, ho, he, rfl⟩
    have hmem : o ∈ r.effObjects.filter fun o => (edges a r.importDir s o).isEmpty :=
      List.mem_filter.2 ⟨ho, he⟩
    refine ⟨SItem.miss false s (r.effObjects.filter fun o => (edges a r.importDir s o).isEmpty), ⟨s, hs, ?_⟩, ?_⟩
    · rw [if_neg]
      intro h0
      rw [List.isEmpty_iff] at h0
      rw [h0] at hmem; cases hmem
    · simp only [SItem.atoms, List.mem_map]
      exact ⟨o, hmem, rfl⟩

theorem mem_sOneed (a : Arch) (r : RuleSpec) (x : Atom) :
    x ∈ (sOneed a r).flatMap SItem.atoms ↔
      ∃ s ∈ r.subjects, (others a r.importDir s r.effObjects).isEmpty = true ∧ ∃ o ∈ r.effObjects,
        x = .miss true (sfilterMod s) (sfilterMod o) := by
  simp only [sOneed, List.mem_flatMap, List.mem_filterMap]
  constructor
  · rintro ⟨it, ⟨s, hs, hit⟩, hx⟩
    split at hit
    · rename_i he
      cases hit
      simp only [SItem.atoms, List.mem_map] at hx
      obtain ⟨o, ho, rfl⟩ := hx
      exact ⟨s, hs, he, o, ho, rfl⟩
    · cases hit
  · rintro ⟨s, hs, he, o, ho, rfl⟩
    refine ⟨SItem.miss true s r.effObjects, ⟨s, hs, by rw [if_pos he]⟩, ?_⟩
    simp only [SItem.atoms, List.mem_map]
    exact ⟨o, ho, rfl⟩

/-! ### bucket by bucket: model atoms = specification atoms -/

theorem userOrder_userOrder {α : Type} (d : Bool) (p : α × α) : userOrder d (userOrder d p) = p := by
  cases d <;> simp [userOrder]

theorem eforb_iff {a : Arch} {r : RuleSpec} {e : ExplDeps} (he : ESpec a r e) (x : Atom) :
    x ∈ (impItems r.importDir (realised r.importDir e)).flatMap Item.atoms ↔ x ∈ (sEforb a r).flatMap SItem.atoms := by
  rw [atoms_impItems_realised, mem_sEforb]
  constructor
  · rintro ⟨kd, hkd, p, hp, rfl⟩
    obtain ⟨s, hs, o, ho, _, hrep⟩ := he.1 kd hkd
    obtain ⟨e', he', h1, h2⟩ := (hrep p.1 p.2).1 hp
    exact ⟨s, hs, o, ho, e', he', by rw [h1, h2]⟩
  · rintro ⟨s, hs, o, ho, e', he', rfl⟩
    obtain ⟨kd, hkd, _, hrep⟩ := he.2 s hs o ho
    exact ⟨kd, hkd, (render e'.1, render e'.2), (hrep _ _).2 ⟨e', he', rfl, rfl⟩, rfl⟩

theorem oforb_iff {a : Arch} {r : RuleSpec} {e : OtherDeps} (he : OSpec a r e) (x : Atom) :
    x ∈ (impItems r.importDir (realised r.importDir e)).flatMap Item.atoms ↔ x ∈ (sOforb a r).flatMap SItem.atoms := by
  rw [atoms_impItems_realised, mem_sOforb]
  constructor
  · rintro ⟨kd, hkd, p, hp, rfl⟩
    obtain ⟨s, hs, _, hrep⟩ := he.1 kd hkd
    obtain ⟨e', he', h1, h2⟩ := (hrep p.1 p.2).1 hp
    exact ⟨s, hs, e', he', by rw [h1, h2]⟩
  · rintro ⟨s, hs, e', he', rfl⟩
    obtain ⟨kd, hkd, _, hrep⟩ := he.2 s hs
    exact ⟨kd, hkd, (render e'.1, render e'.2), (hrep _ _).2 ⟨e', he', rfl, rfl⟩, rfl⟩

theorem eneed_iff {a : Arch} {r : RuleSpec} {e : ExplDeps} (he : ESpec a r e) (x : Atom) :
    x ∈ (missItems false r.importDir (abstractWithout r.importDir e)).flatMap Item.atoms ↔
      x ∈ (sEneed a r).flatMap SItem.atoms := by
  rw [atoms_missItems, mem_sEneed]
  simp only [abstractWithout, List.mem_map, List.mem_filter]
  constructor
  · rintro ⟨dd, ⟨kd, ⟨hkd, hemp⟩, rfl⟩, rfl⟩
    obtain ⟨s, hs, o, ho, h1, hrep⟩ := he.1 kd hkd
    refine ⟨s, hs, o, ho, by rw [← hrep.isEmpty]; exact hemp, ?_⟩
    rw [h1, userOrder_userOrder]
  · rintro ⟨s, hs, o, ho, hemp, rfl⟩
    obtain ⟨kd, hkd, h1, hrep⟩ := he.2 s hs o ho
    refine ⟨_, ⟨kd, ⟨hkd, by rw [hrep.isEmpty]; exact hemp⟩, rfl⟩, ?_⟩
    rw [h1, userOrder_userOrder]

theorem oneed_iff {a : Arch} {r : RuleSpec} {e : OtherDeps} (he : OSpec a r e) (x : Atom) :
    x ∈ (missItems true r.importDir
        (missingOther e ((r.effObjects.map compileFilter).map Filter.toMod))).flatMap Item.atoms ↔
      x ∈ (sOneed a r).flatMap SItem.atoms := by
  rw [atoms_missItems, mem_sOneed]
  simp only [missingOther, List.mem_flatMap, List.mem_map, List.mem_filter]
  constructor
  · rintro ⟨dd, ⟨kd, ⟨hkd, hemp⟩, m, ⟨F, ⟨o, ho, rfl⟩, rfl⟩, rfl⟩, rfl⟩
    obtain ⟨s, hs, h1, hrep⟩ := he.1 kd hkd
    refine ⟨s, hs, by rw [← hrep.isEmpty]; exact hemp, o, ho, ?_⟩
    simp [h1]
  · rintro ⟨s, hs, hemp, o, ho, rfl⟩
    obtain ⟨kd, hkd, h1, hrep⟩ := he.2 s hs
    refine ⟨_, ⟨kd, ⟨hkd, by rw [hrep.isEmpty]; exact hemp⟩, _, ⟨_, ⟨o, ho, rfl⟩, rfl⟩, rfl⟩, ?_⟩
    simp [h1]

theorem report_detect (v : Verb) (c d : Bool) (e : ExplDeps) (o : OtherDeps) (objsM : List Mod) (x : Atom) :
    x ∈ (reportItems d (detect ⟨v == .should, v == .shouldOnly, v == .shouldNot, c⟩ d
      (if ((⟨v == .should, v == .shouldOnly, v == .shouldNot, c⟩ : Behavior).explReq ||
           (⟨v == .should, v == .shouldOnly, v == .shouldNot, c⟩ : Behavior).explForb) = true then some e else none)
      (if ((⟨v == .should, v == .shouldOnly, v == .shouldNot, c⟩ : Behavior).otherReq ||
           (⟨v == .should, v == .shouldOnly, v == .shouldNot, c⟩ : Behavior).otherForb) = true then some o else none)
      objsM)).flatMap Item.atoms ↔
    (match v, c with
      | .should, false => x ∈ (missItems false d (abstractWithout d e)).flatMap Item.atoms
      | .shouldNot, false => x ∈ (impItems d (realised d e)).flatMap Item.atoms
      | .shouldOnly, false => x ∈ (impItems d (realised d o)).flatMap Item.atoms ∨
          x ∈ (missItems false d (abstractWithout d e)).flatMap Item.atoms
      | .should, true => x ∈ (missItems true d (missingOther o objsM)).flatMap Item.atoms
      | .shouldOnly, true => x ∈ (impItems d (realised d e)).flatMap Item.atoms ∨
          x ∈ (missItems true d (missingOther o objsM)).flatMap Item.atoms
      | .shouldNot, true => x ∈ (impItems d (realised d o)).flatMap Item.atoms) := by
  have hi : impItems d [] = [] := rfl
  have hm : ∀ b, missItems b d [] = [] := fun _ => rfl
  cases v <;> cases c <;>
    simp [reportItems, detect, Behavior.explReq, Behavior.explForb, Behavior.otherReq, Behavior.otherForb,
      Behavior.expOtherNotPresent, Behavior.expExplNotPresent, Behavior.expExplAndNoOther,
      Behavior.expExplNotButOthers, Behavior.expAtLeastOneOther, Behavior.expExplPresent, hi, hm]

theorem report_spec_lemma (mt : Str → Str → Bool) (a : Arch) (g : PGraph Str) (hg : GraphOf a g) (hwf : a.wf = true)
    (r : RuleSpec) (hstrict : r.strict = true) (hnames : r.namesIn a = true)
    (hs : r.subjects ≠ []) (ho : r.anything = true ∨ r.objects ≠ [])
    (hany : r.anything = true → r.verb = .shouldNot) (items : List Item)
    (h : (assertApplies mt (compile r) g).2 = .fail items) :
    ∀ x, x ∈ items.flatMap Item.atoms ↔ x ∈ (violating a r).flatMap SItem.atoms := by
  have hw := archWF_of_wf a hwf
  have ctx := ruleCtx_of a r hstrict hnames
  have hdd : r.anything = true → dedupSubjects (r.subjects.map compileFilter) = r.subjects.map compileFilter :=
    fun _ => dedupSubjects_strict hw r.subjects (fun f hf => ctx.names f (List.mem_append_left _ hf))
      (fun f hf f' hf' => ctx.compat f (List.mem_append_left _ hf) f' (List.mem_append_left _ hf'))
  obtain ⟨e, o, hE, hO, hq⟩ := runQueries_compile hw hg r ctx
  rw [assertApplies_compile mt g r hs ho hany hdd, hq] at h
  simp only [] at h
  have key : ∀ (V : Violations), (if V.any = true then Verdict.fail (reportItems r.importDir V) else .pass) = .fail items →
      items = reportItems r.importDir V := by
    intro V hV
    split at hV
    · cases hV; rfl
    · cases hV
  have hit := key _ h
  subst hit
  · intro x
    have h1 := eforb_iff hE x
    have h2 := oforb_iff hO x
    have h3 := eneed_iff hE x
    have h4 := oneed_iff hO x
    have hb : beh r = ⟨r.verb == .should, r.verb == .shouldOnly, r.verb == .shouldNot, r.effExc⟩ := rfl
    rw [hb, report_detect, mem_violating]
    generalize r.verb = v at *
    generalize r.effExc = c at *
    cases v <;> cases c <;> simp only [h1, h2, h3, h4]

end Pta
