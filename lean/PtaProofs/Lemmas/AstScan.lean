/-
  PtaProofs.Lemmas.AstScan — the specification's `scanImports` does not depend on the ORDER (or multiplicity) of a
  file's statement list: two listings that agree in everything but carry statement lists with the same members give
  the same answer (both `none`, or edge lists with the same members). With `AstWalk.collect_all_imports_lemma` this
  turns the graph-level C02 theorem for entries whose statements are what the model's walk collects
  (`Entry.withCollected`) into one whose specification side reads the statements off the tree (`allImports`).
-/
import Bridge.ScanAst
import PtaProofs.Lemmas.ScanImports
import PtaProofs.Lemmas.ScanCompose
import PtaProofs.Lemmas.AstWalk
namespace Pta.AstScan
open Pta PtaSpec ScanImports

/-! ### `scanImports`, characterised -/

/-- some statement of some surviving file has no targets (a relative import above the root) -/
def Bad (root : Comp) (sentries : List SEntry) (mp : List Comp) : Prop :=
  ∃ f ∈ filesOf sentries mp, ∃ st ∈ f.stmts,
    targets (insideOf root sentries mp) (apOf root mp) (entryName root f) st = none

theorem scanImports_bad {root : Comp} {sentries : List SEntry} {mp : List Comp} (h : Bad root sentries mp) :
    scanImports root sentries mp = none := scanImports_none _ _ _ h

theorem scanImports_good {root : Comp} {sentries : List SEntry} {mp : List Comp} (h : ¬ Bad root sentries mp) :
    ∃ is, scanImports root sentries mp = some is ∧
      ∀ e, e ∈ is ↔ ∃ f ∈ filesOf sentries mp, ∃ st ∈ f.stmts,
        e ∈ stmtEdges (insideOf root sentries mp) (apOf root mp) (entryName root f) st := by
  have hs : ∀ f ∈ filesOf sentries mp, ∀ st ∈ f.stmts,
      targets (insideOf root sentries mp) (apOf root mp) (entryName root f) st ≠ none :=
    fun f hf st hst ht => h ⟨f, hf, st, hst, ht⟩
  refine ⟨_, scanImports_some _ _ _ hs, fun e => ?_⟩
  simp only [List.mem_flatMap]

/-! ### two listings over the same index list that differ in the statement lists only -/

section congr
variable {ι : Type} (f1 f2 : ι → SEntry) (l : List ι) (root : Comp) (mp : List Comp)
  (h_rel : ∀ i, (f1 i).rel = (f2 i).rel) (h_dir : ∀ i, (f1 i).isDir = (f2 i).isDir)
  (h_py : ∀ i, (f1 i).isPy = (f2 i).isPy) (h_stem : ∀ i, (f1 i).stem = (f2 i).stem)
  (h_ex : ∀ i, (f1 i).excludedHere = (f2 i).excludedHere)

include h_rel h_dir h_py h_ex in
theorem survives_congr (i : ι) : survives (l.map f1) mp (f1 i) = survives (l.map f2) mp (f2 i) := by
  simp only [survives, List.all_map, Function.comp_def, h_rel, h_dir, h_py, h_ex]

include h_rel h_stem in
theorem entryName_congr (i : ι) : entryName root (f1 i) = entryName root (f2 i) := by
  simp only [entryName, h_rel, h_stem]

include h_rel h_dir h_py h_stem h_ex in
theorem scanModules_congr : scanModules root (l.map f1) mp = scanModules root (l.map f2) mp := by
  have hown : ((l.map f1).filter (survives (l.map f1) mp)).map (entryName root) =
      ((l.map f2).filter (survives (l.map f2) mp)).map (entryName root) := by
    rw [List.filter_map, List.filter_map, List.map_map, List.map_map]
    have hq : (survives (l.map f1) mp ∘ f1) = (survives (l.map f2) mp ∘ f2) :=
      funext fun i => survives_congr f1 f2 l mp h_rel h_dir h_py h_ex i
    have hn : (entryName root ∘ f1) = (entryName root ∘ f2) :=
      funext fun i => entryName_congr f1 f2 root h_rel h_stem i
    rw [hq, hn]
  simp only [scanModules, hown]

include h_rel h_dir h_py h_stem h_ex in
theorem insideOf_congr : insideOf root (l.map f1) mp = insideOf root (l.map f2) mp := by
  simp only [insideOf, scanModules_congr f1 f2 l root mp h_rel h_dir h_py h_stem h_ex]

/-- the indices of the surviving files -/
def fileIdx : List ι := l.filter fun i => !(f2 i).isDir && survives (l.map f2) mp (f2 i)

theorem filesOf_two : filesOf (l.map f2) mp = (fileIdx f2 l mp).map f2 := by
  simp only [filesOf, fileIdx, List.filter_map]
  rfl

include h_rel h_dir h_py h_ex in
theorem filesOf_one : filesOf (l.map f1) mp = (fileIdx f2 l mp).map f1 := by
  simp only [filesOf, fileIdx, List.filter_map]
  congr 2
  funext i
  simp only [Function.comp, h_dir, survives_congr f1 f2 l mp h_rel h_dir h_py h_ex i]

variable (h_st : ∀ i ∈ l, ∀ st, st ∈ (f1 i).stmts ↔ st ∈ (f2 i).stmts)

include h_rel h_dir h_py h_stem h_ex h_st in
theorem bad_congr : Bad root (l.map f1) mp ↔ Bad root (l.map f2) mp := by
  unfold Bad
  rw [filesOf_one f1 f2 l mp h_rel h_dir h_py h_ex, filesOf_two f2 l mp,
    insideOf_congr f1 f2 l root mp h_rel h_dir h_py h_stem h_ex]
  constructor
  · rintro ⟨f, hf, st, hst, ht⟩
    obtain ⟨i, hi, rfl⟩ := List.mem_map.mp hf
    have hil : i ∈ l := (List.mem_filter.mp hi).1
    refine ⟨f2 i, List.mem_map_of_mem hi, st, (h_st i hil st).mp hst, ?_⟩
    rw [← entryName_congr f1 f2 root h_rel h_stem i]; exact ht
  · rintro ⟨f, hf, st, hst, ht⟩
    obtain ⟨i, hi, rfl⟩ := List.mem_map.mp hf
    have hil : i ∈ l := (List.mem_filter.mp hi).1
    refine ⟨f1 i, List.mem_map_of_mem hi, st, (h_st i hil st).mpr hst, ?_⟩
    rw [entryName_congr f1 f2 root h_rel h_stem i]; exact ht

include h_rel h_dir h_py h_stem h_ex h_st in
/-- both answers are `none`, or both are edge lists with the same members -/
theorem scanImports_congr :
    (scanImports root (l.map f1) mp = none ∧ scanImports root (l.map f2) mp = none) ∨
    ∃ is1 is2, scanImports root (l.map f1) mp = some is1 ∧ scanImports root (l.map f2) mp = some is2 ∧
      ∀ e, e ∈ is1 ↔ e ∈ is2 := by
  have hb := bad_congr f1 f2 l root mp h_rel h_dir h_py h_stem h_ex h_st
  by_cases h2 : Bad root (l.map f2) mp
  · exact .inl ⟨scanImports_bad (hb.mpr h2), scanImports_bad h2⟩
  · have h1 : ¬ Bad root (l.map f1) mp := fun h => h2 (hb.mp h)
    obtain ⟨is1, e1, m1⟩ := scanImports_good h1
    obtain ⟨is2, e2, m2⟩ := scanImports_good h2
    refine .inr ⟨is1, is2, e1, e2, fun e => ?_⟩
    rw [m1, m2, filesOf_one f1 f2 l mp h_rel h_dir h_py h_ex, filesOf_two f2 l mp,
      insideOf_congr f1 f2 l root mp h_rel h_dir h_py h_stem h_ex]
    constructor
    · rintro ⟨f, hf, st, hst, ht⟩
      obtain ⟨i, hi, rfl⟩ := List.mem_map.mp hf
      have hil : i ∈ l := (List.mem_filter.mp hi).1
      refine ⟨f2 i, List.mem_map_of_mem hi, st, (h_st i hil st).mp hst, ?_⟩
      rw [← entryName_congr f1 f2 root h_rel h_stem i]; exact ht
    · rintro ⟨f, hf, st, hst, ht⟩
      obtain ⟨i, hi, rfl⟩ := List.mem_map.mp hf
      have hil : i ∈ l := (List.mem_filter.mp hi).1
      refine ⟨f1 i, List.mem_map_of_mem hi, st, (h_st i hil st).mpr hst, ?_⟩
      rw [entryName_congr f1 f2 root h_rel h_stem i]; exact ht

end congr

/-! ### entries with trees -/

theorem toSEntries_withCollected (excl : Str → Bool) (base : Str) (entries : List Entry) :
    toSEntries excl base (entries.map Entry.withCollected) =
      (rootEntry :: entries).map (toSEntry excl base ∘ Entry.withCollected) := by
  simp only [toSEntries, List.map_cons, List.map_map]
  rfl

section tree
variable {mt : Str → Str → Bool} {base root : Str} {mp : List Str} {entries : List Entry} {o : ScanOptions}

/-- C02 at graph level with the walk inside: the files come with their ASTs, the model collects their statements
    with the walk of `ImportConverter.convert`, the specification reads ALL import nodes off the trees -/
theorem scan_imports_tree_ast_lemma (hwf : treeWFFor (isExcluded mt o.exclusions) base mp entries = true)
    (hmp : mpOK entries mp = true) (hroot : compWF root = true)
    (hxx : o.excludeExternal = true) (hlim : o.levelLimit = none) (hext : o.externalExclusions.isEmpty = true)
    (htree : ∀ e ∈ entries, astOK e.tree = true)
    (hst : ∀ e ∈ entries, ∀ st ∈ allImports (e.tree.map toSNode), stmtOK st = true) :
    match scanImports root (toSEntriesAst (isExcluded mt o.exclusions) base entries) mp with
    | none => generateGraph mt base root mp (entries.map Entry.withCollected) o = .error .lookupError
    | some is => ∃ g, generateGraph mt base root mp (entries.map Entry.withCollected) o = .ok g ∧
        ∀ u v, (u, v) ∈ g.importPairs ↔ ∃ e ∈ is, u = render e.1 ∧ v = render e.2 := by
  have hmemst : ∀ e ∈ entries, ∀ st, st ∈ (e.withCollected.stmts.map toSStmt) ↔ st ∈ allImports (e.tree.map toSNode) :=
    fun e he st => (AstWalk.collect_all_imports_lemma (htree e he)).mem_iff
  have hbase := ScanCompose.scan_imports_tree_lemma (mt := mt) (base := base) (root := root) (mp := mp)
    (entries := entries.map Entry.withCollected) (o := o)
    (by rw [AstWalk.treeWFFor_withCollected]; exact hwf) (by rw [AstWalk.mpOK_withCollected]; exact hmp)
    hroot hxx hlim hext (by
      intro e' he' st hs
      obtain ⟨e, he, rfl⟩ := List.mem_map.mp he'
      exact hst e he _ ((hmemst e he _).mp (List.mem_map_of_mem hs)))
  rw [toSEntries_withCollected] at hbase
  have hc := scanImports_congr (toSEntry (isExcluded mt o.exclusions) base ∘ Entry.withCollected)
    (toSEntryAst (isExcluded mt o.exclusions) base) (rootEntry :: entries) root mp
    (fun _ => rfl) (fun _ => rfl) (fun _ => rfl) (fun _ => rfl) (fun _ => rfl) (by
      intro e he st
      rcases List.mem_cons.mp he with rfl | he
      · exact Iff.rfl
      · exact hmemst e he st)
  unfold toSEntriesAst
  rcases hc with ⟨h1, h2⟩ | ⟨is1, is2, h1, h2, hm⟩
  · rw [h1] at hbase; rw [h2]; exact hbase
  · rw [h1] at hbase; rw [h2]
    obtain ⟨g, hg, hgm⟩ := hbase
    refine ⟨g, hg, fun u v => ?_⟩
    rw [hgm]
    constructor
    · rintro ⟨e, he, h⟩; exact ⟨e, (hm e).mp he, h⟩
    · rintro ⟨e, he, h⟩; exact ⟨e, (hm e).mpr he, h⟩

end tree

end Pta.AstScan
