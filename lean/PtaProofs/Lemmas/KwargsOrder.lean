/-
  PtaProofs.Lemmas.KwargsOrder — audit finding F12: the keyword arguments the drawing backend receives, with values and
  order.  `draw` pops `spacing` / `aliases` from the `kwargs` dict and appends `pos` / `labels`; everything else stays
  where it was, with the value it had.
-/
import PtaModel
namespace Pta

/-- the (key, value) pair of a passed-through keyword -/
def KwArg.pair? : KwArg → Option (Str × Str)
  | .other k v => some (k, v)
  | _ => none

/-- neither `spacing` nor `aliases` -/
def KwArg.kept : KwArg → Bool
  | .spacing => false
  | .aliases => false
  | _ => true

theorem filter_ne_of_not_mem (kw : List KwArg) (x : KwArg) (h : x ∉ kw) : kw.filter (· != x) = kw := by
  rw [List.filter_eq_self]
  intro a ha
  simp only [bne_iff_ne, ne_eq]
  rintro rfl
  exact h ha

/-- the exact list the backend receives: the kept keywords in their order, then `pos` (iff `spacing` was given), then
    `labels` (iff `aliases` was given) -/
theorem drawKwargs_shape (kw : List KwArg) :
    drawKwargs kw = kw.filter KwArg.kept ++ (if KwArg.spacing ∈ kw then [KwArg.pos] else []) ++
      (if KwArg.aliases ∈ kw then [KwArg.labels] else []) := by
  have hk : ∀ l : List KwArg, (l.filter (· != KwArg.spacing)).filter (· != KwArg.aliases) = l.filter KwArg.kept := by
    intro l
    rw [List.filter_filter]
    apply List.filter_congr
    intro a _
    cases a <;> rfl
  have hk2 : ∀ l : List KwArg, KwArg.spacing ∉ l → l.filter (· != KwArg.aliases) = l.filter KwArg.kept := by
    intro l hl
    rw [← hk l, filter_ne_of_not_mem l _ hl]
  have hk3 : ∀ l : List KwArg, KwArg.aliases ∉ l → l.filter (· != KwArg.spacing) = l.filter KwArg.kept := by
    intro l hl
    rw [← hk l, filter_ne_of_not_mem (l.filter (· != KwArg.spacing)) KwArg.aliases
      (fun h => hl (List.mem_filter.1 h).1)]
  have hk4 : ∀ l : List KwArg, KwArg.spacing ∉ l → KwArg.aliases ∉ l → l = l.filter KwArg.kept := by
    intro l h1 h2
    rw [← hk2 l h1, filter_ne_of_not_mem l _ h2]
  unfold drawKwargs
  simp only [List.contains_iff_mem]
  by_cases h1 : KwArg.spacing ∈ kw <;> by_cases h2 : KwArg.aliases ∈ kw
  · have : KwArg.aliases ∈ kw.filter (· != KwArg.spacing) ++ [KwArg.pos] := by
      simp [List.mem_filter, h2]
    simp only [h1, h2, this, if_true, List.filter_append, hk]
    simp
  · have : KwArg.aliases ∉ kw.filter (· != KwArg.spacing) ++ [KwArg.pos] := by
      simp [List.mem_filter, h2]
    rw [hk3 kw h2] at this
    simp only [h1, h2, if_true, if_false, List.append_nil, hk3 kw h2, this]
  · simp only [h1, h2, if_true, if_false, List.append_nil, hk2 kw h1]
  · simp only [h1, h2, if_false, List.append_nil]
    exact hk4 kw h1 h2

theorem filterMap_pair_kept (kw : List KwArg) : (kw.filter KwArg.kept).filterMap KwArg.pair? = kw.filterMap KwArg.pair? := by
  induction kw with
  | nil => rfl
  | cons a l ih =>
    cases a <;> simp [List.filter_cons, List.filterMap_cons, KwArg.kept, KwArg.pair?, ih]

/-- the passed-through (key, value) pairs: same pairs, same order, same multiplicities -/
theorem drawKwargs_pairs (kw : List KwArg) : (drawKwargs kw).filterMap KwArg.pair? = kw.filterMap KwArg.pair? := by
  rw [drawKwargs_shape]
  simp only [List.filterMap_append, filterMap_pair_kept]
  by_cases h1 : KwArg.spacing ∈ kw <;> by_cases h2 : KwArg.aliases ∈ kw <;> simp [h1, h2, KwArg.pair?]

end Pta
