/-
  PtaProofs.Lemmas.RuleBasics — structural facts about `verdictOf` on `mkRule`, `matchRule`, `runQueries`
  and the emptiness of the violation buckets (used by RuleAlgebra.lean).
-/
import Bridge.Abs
import PtaProofs.Lemmas.Worklist
namespace Pta.Alg
theorem verdictOf_mkRule (mt : Str → Str → Bool) (g : PGraph Str) (s o n d e : Bool) (A B : List Filter) :
    verdictOf mt g (mkRule s o n d e A B) =
      if (!(s || o || n)) || A.isEmpty || B.isEmpty then .err .improperlyConfigured
      else if (⟨s, o, n, e⟩ : Behavior).inconsistent then .err .ruleInconsistency
      else (matchRule mt g ⟨s, o, n, e⟩ d A B).cls := by
  simp only [verdictOf, assertApplies, mkRule, anythingMisused, droppedAbsent, List.any_nil, convertAliases, configMissing, RuleConfig.behavior,
    Bool.false_and, Bool.not_false, if_true, Bool.false_eq_true, if_false, Option.isNone_some, Bool.or_false]
  split
  · rfl
  · split <;> rfl

theorem matchRule_cls_pass (mt : Str → Str → Bool) (g : PGraph Str) (b : Behavior) (d : Bool) (A B : List Filter) :
    (matchRule mt g b d A B).cls = .pass ↔ ∃ A' B' ex ot, convertFilters mt g.nodes A = .ok A' ∧
      convertFilters mt g.nodes B = .ok B' ∧ runQueries g b d A' B' = .ok (ex, ot) ∧
      (detect b d ex ot (B'.map Filter.toMod)).any = false := by
  unfold matchRule
  cases hA : convertFilters mt g.nodes A with
  | error k => simp [Verdict.cls]
  | ok A' =>
    cases hB : convertFilters mt g.nodes B with
    | error k => simp [Verdict.cls]
    | ok B' =>
      cases hQ : runQueries g b d A' B' with
      | error k => simp [Verdict.cls, hQ]
      | ok p =>
        obtain ⟨ex, ot⟩ := p
        cases hv : (detect b d ex ot (B'.map Filter.toMod)).any <;> simp [Verdict.cls, hv, hQ] <;>
          exact ⟨ex, ot, ⟨rfl, rfl⟩, hv⟩

theorem matchRule_cls_fail (mt : Str → Str → Bool) (g : PGraph Str) (b : Behavior) (d : Bool) (A B : List Filter) :
    (matchRule mt g b d A B).cls = .fail ↔ ∃ A' B' ex ot, convertFilters mt g.nodes A = .ok A' ∧
      convertFilters mt g.nodes B = .ok B' ∧ runQueries g b d A' B' = .ok (ex, ot) ∧
      (detect b d ex ot (B'.map Filter.toMod)).any = true := by
  unfold matchRule
  cases hA : convertFilters mt g.nodes A with
  | error k => simp [Verdict.cls]
  | ok A' =>
    cases hB : convertFilters mt g.nodes B with
    | error k => simp [Verdict.cls]
    | ok B' =>
      cases hQ : runQueries g b d A' B' with
      | error k => simp [Verdict.cls, hQ]
      | ok p =>
        obtain ⟨ex, ot⟩ := p
        cases hv : (detect b d ex ot (B'.map Filter.toMod)).any <;> simp [Verdict.cls, hv, hQ] <;>
          exact ⟨ex, ot, ⟨rfl, rfl⟩, hv⟩

theorem verdictOf_pass (mt : Str → Str → Bool) (g : PGraph Str) (s o n d e : Bool) (A B : List Filter) :
    verdictOf mt g (mkRule s o n d e A B) = .pass ↔
      (s || o || n) = true ∧ A ≠ [] ∧ B ≠ [] ∧ (⟨s, o, n, e⟩ : Behavior).inconsistent = false ∧
      (matchRule mt g ⟨s, o, n, e⟩ d A B).cls = .pass := by
  rw [verdictOf_mkRule]
  cases hs : (s || o || n) <;> cases A <;> cases B <;>
    cases hi : (⟨s, o, n, e⟩ : Behavior).inconsistent <;> simp

theorem verdictOf_fail (mt : Str → Str → Bool) (g : PGraph Str) (s o n d e : Bool) (A B : List Filter) :
    verdictOf mt g (mkRule s o n d e A B) = .fail ↔
      (s || o || n) = true ∧ A ≠ [] ∧ B ≠ [] ∧ (⟨s, o, n, e⟩ : Behavior).inconsistent = false ∧
      (matchRule mt g ⟨s, o, n, e⟩ d A B).cls = .fail := by
  rw [verdictOf_mkRule]
  cases hs : (s || o || n) <;> cases A <;> cases B <;>
    cases hi : (⟨s, o, n, e⟩ : Behavior).inconsistent <;> simp

theorem detect_any_false (b : Behavior) (d : Bool) (ex : Option ExplDeps) (ot : Option OtherDeps) (objs : List Mod) :
    (detect b d ex ot objs).any = false ↔
      (∀ e, ex = some e →
        (b.expExplNotPresent = true → realised d e = []) ∧ (b.expExplPresent = true → abstractWithout d e = []) ∧
        (b.expExplAndNoOther = true → abstractWithout d e = []) ∧ (b.expExplNotButOthers = true → realised d e = [])) ∧
      (∀ o, ot = some o →
        (b.expExplAndNoOther = true → realised d o = []) ∧ (b.expAtLeastOneOther = true → missingOther o objs = []) ∧
        (b.expExplNotButOthers = true → missingOther o objs = []) ∧ (b.expOtherNotPresent = true → realised d o = [])) := by
  cases ex <;> cases ot <;> simp only [detect, Violations.any] <;>
    cases b.expExplNotPresent <;> cases b.expExplPresent <;> cases b.expExplAndNoOther <;>
    cases b.expExplNotButOthers <;> cases b.expAtLeastOneOther <;> cases b.expOtherNotPresent <;>
    simp [List.isEmpty_iff] <;> grind

theorem detect_any_true (b : Behavior) (d : Bool) (ex : Option ExplDeps) (ot : Option OtherDeps) (objs : List Mod) :
    (detect b d ex ot objs).any = true ↔ ¬ (detect b d ex ot objs).any = false := by simp

/-! ### the two queries -/

/-- the explicit query, after the `ModuleRequirement` swap -/
def qExpl (g : PGraph Str) (d : Bool) (A' B' : List Filter) : Except ErrKind ExplDeps :=
  if d then getDependencies g A' B' else getDependencies g B' A'

/-- the "other" query, after the swap -/
def qOther (g : PGraph Str) (d : Bool) (A' B' : List Filter) : Except ErrKind OtherDeps :=
  if d then getOtherFrom g A' B' else getOtherTo g B' A'

theorem runQueries_ok (g : PGraph Str) (b : Behavior) (d : Bool) (A' B' : List Filter)
    (ex : Option ExplDeps) (ot : Option OtherDeps) :
    runQueries g b d A' B' = .ok (ex, ot) ↔
      (if b.explReq || b.explForb then ∃ e, qExpl g d A' B' = .ok e ∧ ex = some e else ex = none) ∧
      (if b.otherReq || b.otherForb then ∃ o, qOther g d A' B' = .ok o ∧ ot = some o else ot = none) := by
  unfold runQueries qExpl qOther
  generalize (b.explReq || b.explForb) = f1
  generalize (b.otherReq || b.otherForb) = f2
  cases d
  · simp only [Bool.false_eq_true, if_false]
    generalize getDependencies g B' A' = r1
    generalize getOtherTo g B' A' = r2
    cases f1 <;> cases f2 <;> cases r1 <;> cases r2 <;>
      simp [bind, Except.bind, pure, Except.pure, Except.map, eq_comm]
  · simp only [if_true]
    generalize getDependencies g A' B' = r1
    generalize getOtherFrom g A' B' = r2
    cases f1 <;> cases f2 <;> cases r1 <;> cases r2 <;>
      simp [bind, Except.bind, pure, Except.pure, Except.map, eq_comm]

theorem runQueries_exists (g : PGraph Str) (b : Behavior) (d : Bool) (A' B' : List Filter)
    (P : Option ExplDeps → Option OtherDeps → Prop) :
    (∃ ex ot, runQueries g b d A' B' = .ok (ex, ot) ∧ P ex ot) ↔
      if (b.explReq || b.explForb) = true then
        (if (b.otherReq || b.otherForb) = true then
          ∃ e o, qExpl g d A' B' = .ok e ∧ qOther g d A' B' = .ok o ∧ P (some e) (some o)
        else ∃ e, qExpl g d A' B' = .ok e ∧ P (some e) none)
      else
        (if (b.otherReq || b.otherForb) = true then ∃ o, qOther g d A' B' = .ok o ∧ P none (some o)
        else P none none) := by
  simp only [runQueries_ok]
  cases (b.explReq || b.explForb) <;> cases (b.otherReq || b.otherForb) <;>
    simp only [if_true, if_false, Bool.false_eq_true]
  · constructor
    · rintro ⟨_, _, ⟨rfl, rfl⟩, h⟩; exact h
    · intro h; exact ⟨_, _, ⟨rfl, rfl⟩, h⟩
  · constructor
    · rintro ⟨_, _, ⟨rfl, o, h1, rfl⟩, h2⟩; exact ⟨o, h1, h2⟩
    · rintro ⟨o, h1, h2⟩; exact ⟨_, _, ⟨rfl, o, h1, rfl⟩, h2⟩
  · constructor
    · rintro ⟨_, _, ⟨⟨e, h1, rfl⟩, rfl⟩, h2⟩; exact ⟨e, h1, h2⟩
    · rintro ⟨e, h1, h2⟩; exact ⟨_, _, ⟨⟨e, h1, rfl⟩, rfl⟩, h2⟩
  · constructor
    · rintro ⟨_, _, ⟨⟨e, h1, rfl⟩, o, h2, rfl⟩, h3⟩; exact ⟨e, o, h1, h2, h3⟩
    · rintro ⟨e, o, h1, h2, h3⟩; exact ⟨_, _, ⟨⟨e, h1, rfl⟩, o, h2, rfl⟩, h3⟩

theorem matchRule_pass_iff (mt : Str → Str → Bool) (g : PGraph Str) (b : Behavior) (d : Bool) (A B : List Filter) :
    (matchRule mt g b d A B).cls = .pass ↔ ∃ A' B', convertFilters mt g.nodes A = .ok A' ∧
      convertFilters mt g.nodes B = .ok B' ∧
      if (b.explReq || b.explForb) = true then
        (if (b.otherReq || b.otherForb) = true then
          ∃ e o, qExpl g d A' B' = .ok e ∧ qOther g d A' B' = .ok o ∧
            (detect b d (some e) (some o) (B'.map Filter.toMod)).any = false
        else ∃ e, qExpl g d A' B' = .ok e ∧ (detect b d (some e) none (B'.map Filter.toMod)).any = false)
      else
        (if (b.otherReq || b.otherForb) = true then
          ∃ o, qOther g d A' B' = .ok o ∧ (detect b d none (some o) (B'.map Filter.toMod)).any = false
        else (detect b d none none (B'.map Filter.toMod)).any = false) := by
  rw [matchRule_cls_pass]
  constructor
  · rintro ⟨A', B', ex, ot, h1, h2, h3⟩
    exact ⟨A', B', h1, h2, (runQueries_exists g b d A' B' (fun ex ot => (detect b d ex ot (B'.map Filter.toMod)).any = false)).mp ⟨ex, ot, h3⟩⟩
  · rintro ⟨A', B', h1, h2, h3⟩
    obtain ⟨ex, ot, h3⟩ := (runQueries_exists g b d A' B' (fun ex ot => (detect b d ex ot (B'.map Filter.toMod)).any = false)).mpr h3
    exact ⟨A', B', ex, ot, h1, h2, h3⟩

theorem matchRule_fail_iff (mt : Str → Str → Bool) (g : PGraph Str) (b : Behavior) (d : Bool) (A B : List Filter) :
    (matchRule mt g b d A B).cls = .fail ↔ ∃ A' B', convertFilters mt g.nodes A = .ok A' ∧
      convertFilters mt g.nodes B = .ok B' ∧
      if (b.explReq || b.explForb) = true then
        (if (b.otherReq || b.otherForb) = true then
          ∃ e o, qExpl g d A' B' = .ok e ∧ qOther g d A' B' = .ok o ∧
            ¬ (detect b d (some e) (some o) (B'.map Filter.toMod)).any = false
        else ∃ e, qExpl g d A' B' = .ok e ∧ ¬ (detect b d (some e) none (B'.map Filter.toMod)).any = false)
      else
        (if (b.otherReq || b.otherForb) = true then
          ∃ o, qOther g d A' B' = .ok o ∧ ¬ (detect b d none (some o) (B'.map Filter.toMod)).any = false
        else ¬ (detect b d none none (B'.map Filter.toMod)).any = false) := by
  rw [matchRule_cls_fail]
  simp only [detect_any_true]
  constructor
  · rintro ⟨A', B', ex, ot, h1, h2, h3⟩
    exact ⟨A', B', h1, h2, (runQueries_exists g b d A' B' (fun ex ot => ¬ (detect b d ex ot (B'.map Filter.toMod)).any = false)).mp ⟨ex, ot, h3⟩⟩
  · rintro ⟨A', B', h1, h2, h3⟩
    obtain ⟨ex, ot, h3⟩ := (runQueries_exists g b d A' B' (fun ex ot => ¬ (detect b d ex ot (B'.map Filter.toMod)).any = false)).mpr h3
    exact ⟨A', B', ex, ot, h1, h2, h3⟩

/-! ### emptiness of the buckets -/

theorem realised_eq_nil (d : Bool) {κ : Type} (deps : List (κ × List (Str × Str))) :
    realised d deps = [] ↔ ∀ kd ∈ deps, kd.2 = [] := by
  simp [realised, List.flatMap_eq_nil_iff]

theorem abstractWithout_eq_nil (d : Bool) (e : ExplDeps) :
    abstractWithout d e = [] ↔ ∀ kd ∈ e, kd.2 ≠ [] := by
  simp [abstractWithout, List.filter_eq_nil_iff]

theorem missingOther_eq_nil (deps : OtherDeps) (objs : List Mod) :
    missingOther deps objs = [] ↔ objs = [] ∨ ∀ kd ∈ deps, kd.2 ≠ [] := by
  simp only [missingOther, List.flatMap_eq_nil_iff, List.map_eq_nil_iff, List.mem_filter]
  constructor
  · intro h
    by_cases ho : objs = []
    · exact .inl ho
    · refine .inr fun kd hkd hnil => ho (h kd ⟨hkd, by simp [hnil]⟩)
  · rintro (h | h) kd ⟨hkd, he⟩
    · exact h
    · exact absurd (by simpa using he) (h kd hkd)

/-! ### verdict characterisations for the rule shapes of C12 -/

macro "rule_char" : tactic => `(tactic|
  (simp [Behavior.inconsistent, Behavior.explReq, Behavior.explForb, Behavior.otherReq, Behavior.otherForb,
    detect_any_false, Behavior.expExplNotPresent, Behavior.expExplPresent,
    Behavior.expExplAndNoOther, Behavior.expExplNotButOthers, Behavior.expAtLeastOneOther,
    Behavior.expOtherNotPresent, realised_eq_nil, abstractWithout_eq_nil, missingOther_eq_nil]))

theorem should_pass (mt : Str → Str → Bool) (g : PGraph Str) (d : Bool) (A B : List Filter) :
    verdictOf mt g (mkRule true false false d false A B) = .pass ↔
      A ≠ [] ∧ B ≠ [] ∧ ∃ A' B' e, convertFilters mt g.nodes A = .ok A' ∧ convertFilters mt g.nodes B = .ok B' ∧
        qExpl g d A' B' = .ok e ∧ ∀ kd ∈ e, kd.2 ≠ [] := by
  rw [verdictOf_pass, matchRule_pass_iff]
  rule_char

theorem should_exc_pass (mt : Str → Str → Bool) (g : PGraph Str) (d : Bool) (A B : List Filter) :
    verdictOf mt g (mkRule true false false d true A B) = .pass ↔
      A ≠ [] ∧ B ≠ [] ∧ ∃ A' B' o, convertFilters mt g.nodes A = .ok A' ∧ convertFilters mt g.nodes B = .ok B' ∧
        qOther g d A' B' = .ok o ∧ (B' = [] ∨ ∀ kd ∈ o, kd.2 ≠ []) := by
  rw [verdictOf_pass, matchRule_pass_iff]
  rule_char

theorem shouldnot_pass (mt : Str → Str → Bool) (g : PGraph Str) (d : Bool) (A B : List Filter) :
    verdictOf mt g (mkRule false false true d false A B) = .pass ↔
      A ≠ [] ∧ B ≠ [] ∧ ∃ A' B' e, convertFilters mt g.nodes A = .ok A' ∧ convertFilters mt g.nodes B = .ok B' ∧
        qExpl g d A' B' = .ok e ∧ ∀ kd ∈ e, kd.2 = [] := by
  rw [verdictOf_pass, matchRule_pass_iff]
  rule_char

theorem shouldnot_exc_pass (mt : Str → Str → Bool) (g : PGraph Str) (d : Bool) (A B : List Filter) :
    verdictOf mt g (mkRule false false true d true A B) = .pass ↔
      A ≠ [] ∧ B ≠ [] ∧ ∃ A' B' o, convertFilters mt g.nodes A = .ok A' ∧ convertFilters mt g.nodes B = .ok B' ∧
        qOther g d A' B' = .ok o ∧ ∀ kd ∈ o, kd.2 = [] := by
  rw [verdictOf_pass, matchRule_pass_iff]
  rule_char

theorem shouldnot_fail (mt : Str → Str → Bool) (g : PGraph Str) (d : Bool) (A B : List Filter) :
    verdictOf mt g (mkRule false false true d false A B) = .fail ↔
      A ≠ [] ∧ B ≠ [] ∧ ∃ A' B' e, convertFilters mt g.nodes A = .ok A' ∧ convertFilters mt g.nodes B = .ok B' ∧
        qExpl g d A' B' = .ok e ∧ ∃ kd ∈ e, kd.2 ≠ [] := by
  rw [verdictOf_fail, matchRule_fail_iff]
  rule_char

theorem shouldnot_exc_fail (mt : Str → Str → Bool) (g : PGraph Str) (d : Bool) (A B : List Filter) :
    verdictOf mt g (mkRule false false true d true A B) = .fail ↔
      A ≠ [] ∧ B ≠ [] ∧ ∃ A' B' o, convertFilters mt g.nodes A = .ok A' ∧ convertFilters mt g.nodes B = .ok B' ∧
        qOther g d A' B' = .ok o ∧ ∃ kd ∈ o, kd.2 ≠ [] := by
  rw [verdictOf_fail, matchRule_fail_iff]
  rule_char

theorem only_pass (mt : Str → Str → Bool) (g : PGraph Str) (d : Bool) (A B : List Filter) :
    verdictOf mt g (mkRule false true false d false A B) = .pass ↔
      A ≠ [] ∧ B ≠ [] ∧ ∃ A' B' e o, convertFilters mt g.nodes A = .ok A' ∧ convertFilters mt g.nodes B = .ok B' ∧
        qExpl g d A' B' = .ok e ∧ qOther g d A' B' = .ok o ∧ (∀ kd ∈ e, kd.2 ≠ []) ∧ ∀ kd ∈ o, kd.2 = [] := by
  rw [verdictOf_pass, matchRule_pass_iff]
  rule_char

theorem only_exc_pass (mt : Str → Str → Bool) (g : PGraph Str) (d : Bool) (A B : List Filter) :
    verdictOf mt g (mkRule false true false d true A B) = .pass ↔
      A ≠ [] ∧ B ≠ [] ∧ ∃ A' B' e o, convertFilters mt g.nodes A = .ok A' ∧ convertFilters mt g.nodes B = .ok B' ∧
        qExpl g d A' B' = .ok e ∧ qOther g d A' B' = .ok o ∧ (B' = [] ∨ ∀ kd ∈ o, kd.2 ≠ []) ∧ ∀ kd ∈ e, kd.2 = [] := by
  rw [verdictOf_pass, matchRule_pass_iff]
  rule_char
  grind

end Pta.Alg