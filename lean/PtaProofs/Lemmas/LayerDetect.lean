/-
  PtaProofs.Lemmas.LayerDetect — the lenient (layer) detector and the layer report, when every `layerOf` lookup
  succeeds: the monadic definitions of PtaModel/Layer.lean collapse to pure list expressions over the total tag
  function `tagS`.
-/
import Bridge.LayerAbs
import PtaProofs.Lemmas.SearchChar
namespace Pta
open PtaSpec

/-! ### `mapM` / `filterMapM` in `Except` with total functions -/

theorem mapM_ok_map {α β ε : Type} (f : α → Except ε β) (f' : α → β) (l : List α)
    (h : ∀ x ∈ l, f x = .ok (f' x)) : l.mapM f = .ok (l.map f') := by
  induction l with
  | nil => rfl
  | cons a l ih =>
    rw [List.mapM_cons, h a (by simp), ih (fun x hx => h x (List.mem_cons_of_mem _ hx))]
    rfl

theorem filterMapM_ok_filterMap {α β ε : Type} (f : α → Except ε (Option β)) (f' : α → Option β) (l : List α)
    (h : ∀ x ∈ l, f x = .ok (f' x)) : l.filterMapM f = .ok (l.filterMap f') := by
  induction l with
  | nil => rfl
  | cons a l ih =>
    rw [List.filterMapM_cons, h a (by simp), ih (fun x hx => h x (List.mem_cons_of_mem _ hx))]
    simp only [List.filterMap_cons]
    cases f' a <;> rfl

theorem filterMap_ite_eq_filter {α : Type} (p : α → Bool) (l : List α) :
    l.filterMap (fun x => if p x = true then some x else none) = l.filter p := by
  induction l with
  | nil => rfl
  | cons x xs ih =>
    cases h : p x <;> simp [h, ih]

/-! ### total tags -/

/-- the layer tag of a raw identifier, `none` when the lookup raises -/
def tagS (m : LayerMap) (s : Str) : Option Str :=
  match m.layerOf s with
  | .ok t => t
  | .error _ => none

/-- the lookup does not raise -/
def TagOk (m : LayerMap) (s : Str) : Prop := m.layerOf s = .ok (tagS m s)

theorem tagOk_of_eq {m : LayerMap} {s : Str} {t : Option Str} (h : m.layerOf s = .ok t) : TagOk m s := by
  unfold TagOk tagS; rw [h]

theorem tagS_of_eq {m : LayerMap} {s : Str} {t : Option Str} (h : m.layerOf s = .ok t) : tagS m s = t := by
  unfold tagS; rw [h]

def DepsOk (m : LayerMap) (ds : List Dep) : Prop := ∀ d ∈ ds, TagOk m d.1.id ∧ TagOk m d.2.id

theorem depsOk_nil (m : LayerMap) : DepsOk m [] := by intro d hd; cases hd

theorem depsOk_append {m : LayerMap} {a b : List Dep} (ha : DepsOk m a) (hb : DepsOk m b) : DepsOk m (a ++ b) := by
  intro d hd
  rcases List.mem_append.1 hd with h | h
  · exact ha d h
  · exact hb d h

/-! ### the detector's building blocks -/

theorem dropSameLayer_ok (m : LayerMap) (ds : List Dep) (h : DepsOk m ds) :
    dropSameLayer m ds = .ok (ds.filter fun d => tagS m d.1.id != tagS m d.2.id) := by
  unfold dropSameLayer
  rw [filterMapM_ok_filterMap _ (fun d => if (tagS m d.1.id != tagS m d.2.id) = true then some d else none) ds]
  · rw [filterMap_ite_eq_filter]
  · intro d hd
    obtain ⟨h1, h2⟩ := h d hd
    unfold TagOk at h1 h2
    simp only [h1, h2, bind, Except.bind, pure, Except.pure]

theorem realised_mem (d : Bool) {κ : Type} (deps : List (κ × List (Str × Str))) (x : Dep) :
    x ∈ realised d deps ↔ ∃ kd ∈ deps, ∃ p ∈ kd.2, x = userOrder d ((⟨false, p.1⟩ : Mod), (⟨false, p.2⟩ : Mod)) := by
  simp only [realised, List.mem_flatMap, List.mem_map]
  constructor
  · rintro ⟨kd, hkd, p, hp, rfl⟩; exact ⟨kd, hkd, p, hp, rfl⟩
  · rintro ⟨kd, hkd, p, hp, rfl⟩; exact ⟨kd, hkd, p, hp, rfl⟩

/-- every raw identifier occurring in the realised dependencies has a tag -/
def PairsOk (m : LayerMap) {κ : Type} (deps : List (κ × List (Str × Str))) : Prop :=
  ∀ kd ∈ deps, ∀ p ∈ kd.2, TagOk m p.1 ∧ TagOk m p.2

theorem depsOk_realised (m : LayerMap) (d : Bool) {κ : Type} (deps : List (κ × List (Str × Str)))
    (h : PairsOk m deps) : DepsOk m (realised d deps) := by
  intro x hx
  obtain ⟨kd, hkd, p, hp, rfl⟩ := (realised_mem d deps x).1 hx
  obtain ⟨h1, h2⟩ := h kd hkd p hp
  cases d
  · exact ⟨h2, h1⟩
  · exact ⟨h1, h2⟩

/-- the pure form of `realisedL` -/
def realisedP (m : LayerMap) (d : Bool) {κ : Type} (deps : List (κ × List (Str × Str))) : List Dep :=
  (realised d deps).filter fun x => tagS m x.1.id != tagS m x.2.id

theorem realisedL_ok (m : LayerMap) (d : Bool) {κ : Type} (deps : List (κ × List (Str × Str)))
    (h : PairsOk m deps) : realisedL m d deps = .ok (realisedP m d deps) :=
  dropSameLayer_ok m _ (depsOk_realised m d deps h)

theorem realisedP_isEmpty (m : LayerMap) (d : Bool) {κ : Type} (deps : List (κ × List (Str × Str))) :
    (realisedP m d deps).isEmpty = false ↔ ∃ kd ∈ deps, ∃ p ∈ kd.2, tagS m p.1 ≠ tagS m p.2 := by
  rw [← Bool.not_eq_true, List.isEmpty_iff, realisedP]
  simp only [List.filter_eq_nil_iff, realised_mem]
  constructor
  · intro h
    apply Classical.byContradiction
    intro hn
    apply h
    rintro x ⟨kd, hkd, p, hp, rfl⟩
    have : tagS m p.1 = tagS m p.2 := Classical.byContradiction fun hne => hn ⟨kd, hkd, p, hp, hne⟩
    cases d <;> simp [userOrder, this]
  · rintro ⟨kd, hkd, p, hp, hne⟩ h
    have := h _ ⟨kd, hkd, p, hp, rfl⟩
    cases d
    · simp [userOrder] at this; exact hne this.symm
    · simp [userOrder] at this; exact hne this

theorem depsOk_realisedP (m : LayerMap) (d : Bool) {κ : Type} (deps : List (κ × List (Str × Str)))
    (h : PairsOk m deps) : DepsOk m (realisedP m d deps) := by
  intro x hx
  exact depsOk_realised m d deps h x (List.mem_filter.1 hx).1

/-- the module whose layer groups the abstract dependencies: always the rule's object -/
def relevantOf (d : Bool) (kd : Dep × List (Str × Str)) : Mod := if d then kd.1.2 else kd.1.1

/-- the pure form of `abstractWithoutAny` -/
def abstractP (m : LayerMap) (d : Bool) (deps : ExplDeps) : List Dep :=
  m.flatMap fun layer =>
    let forLayer := deps.filter fun kd => tagS m (relevantOf d kd).id == some layer.1
    if forLayer.isEmpty then []
    else if forLayer.any fun kd => !kd.2.isEmpty then []
    else forLayer.map fun kd => userOrder d kd.1

theorem abstractWithoutAny_ok (m : LayerMap) (d : Bool) (deps : ExplDeps)
    (h : ∀ kd ∈ deps, TagOk m (relevantOf d kd).id) :
    abstractWithoutAny m d deps = .ok (abstractP m d deps) := by
  unfold abstractWithoutAny
  rw [mapM_ok_map _ (fun kd => (tagS m (relevantOf d kd).id, kd)) deps]
  · simp only [bind, Except.bind, pure, Except.pure]
    congr 1
    unfold abstractP
    have key : ∀ layer : Str × List Str,
        ((deps.map fun kd => (tagS m (relevantOf d kd).id, kd)).filter fun t => t.1 == some layer.1).map (·.2) =
          deps.filter fun kd => tagS m (relevantOf d kd).id == some layer.1 := by
      intro layer
      rw [List.filter_map, List.map_map]
      simp only [Function.comp_def, List.map_id']
    simp only [key]
  · intro kd hkd
    have := h kd hkd
    unfold TagOk relevantOf at this
    simp only [this, bind, Except.bind, pure, Except.pure]
    rfl

theorem abstractP_nonempty (m : LayerMap) (d : Bool) (deps : ExplDeps) :
    (abstractP m d deps).isEmpty = false ↔
      ∃ layer ∈ m, (∃ kd ∈ deps, tagS m (relevantOf d kd).id = some layer.1) ∧
        ∀ kd ∈ deps, tagS m (relevantOf d kd).id = some layer.1 → kd.2 = [] := by
  rw [← Bool.not_eq_true, List.isEmpty_iff, abstractP, List.flatMap_eq_nil_iff]
  constructor
  · intro h
    apply Classical.byContradiction
    intro hn
    apply h
    intro layer hl
    simp only
    split
    · rfl
    · rename_i h1
      split
      · rfl
      · rename_i h2
        exfalso
        apply hn
        refine ⟨layer, hl, ?_, ?_⟩
        · rw [List.isEmpty_iff] at h1
          obtain ⟨kd, hkd⟩ := List.exists_mem_of_ne_nil _ h1
          obtain ⟨hk1, hk2⟩ := List.mem_filter.1 hkd
          exact ⟨kd, hk1, by simpa using hk2⟩
        · intro kd hkd ht
          simp only [List.any_eq_true, Bool.not_eq_true', not_exists, not_and] at h2
          have := h2 kd (List.mem_filter.2 ⟨hkd, by simpa using ht⟩)
          simpa [List.isEmpty_iff] using this
  · rintro ⟨layer, hl, ⟨kd0, hkd0, ht0⟩, hall⟩ h
    have := h layer hl
    simp only at this
    have hmem : kd0 ∈ deps.filter fun kd => tagS m (relevantOf d kd).id == some layer.1 :=
      List.mem_filter.2 ⟨hkd0, by simpa using ht0⟩
    have hne : (deps.filter fun kd => tagS m (relevantOf d kd).id == some layer.1).isEmpty = false := by
      rw [← Bool.not_eq_true, List.isEmpty_iff]
      intro h0; rw [h0] at hmem; cases hmem
    have hany : ((deps.filter fun kd => tagS m (relevantOf d kd).id == some layer.1).any fun kd => !kd.2.isEmpty) = false := by
      rw [List.any_eq_false]
      intro kd hkd
      obtain ⟨hk1, hk2⟩ := List.mem_filter.1 hkd
      simp [hall kd hk1 (by simpa using hk2)]
    rw [hne, hany] at this
    simp only [Bool.false_eq_true, if_false, List.map_eq_nil_iff] at this
    rw [this] at hmem; cases hmem

theorem abstractP_mem (m : LayerMap) (d : Bool) (deps : ExplDeps) (x : Dep) (h : x ∈ abstractP m d deps) :
    ∃ kd ∈ deps, x = userOrder d kd.1 := by
  unfold abstractP at h
  obtain ⟨layer, _, hx⟩ := List.mem_flatMap.1 h
  simp only at hx
  split at hx
  · cases hx
  · split at hx
    · cases hx
    · obtain ⟨kd, hkd, rfl⟩ := List.mem_map.1 hx
      exact ⟨kd, (List.mem_filter.1 hkd).1, rfl⟩

/-- the pure form of `anyMissing` -/
def anyMissingP (m : LayerMap) (d : Bool) (deps : OtherDeps) (objs : List Mod) : List Dep :=
  if !(realisedP m d deps).isEmpty then [] else deps.flatMap fun kd => objs.map fun o => (kd.1, o)

theorem anyMissing_ok (m : LayerMap) (d : Bool) (deps : OtherDeps) (objs : List Mod) (h : PairsOk m deps) :
    anyMissing m d deps objs = .ok (anyMissingP m d deps objs) := by
  unfold anyMissing anyMissingP
  rw [realisedL_ok m d deps h]
  simp only [bind, Except.bind, pure, Except.pure]
  split <;> rfl

theorem anyMissingP_isEmpty (m : LayerMap) (d : Bool) (deps : OtherDeps) (objs : List Mod) (hd : deps ≠ [])
    (ho : objs ≠ []) : (anyMissingP m d deps objs).isEmpty = !(realisedP m d deps).isEmpty := by
  unfold anyMissingP
  cases hR : (realisedP m d deps).isEmpty
  · simp
  · simp only [Bool.not_true, Bool.false_eq_true, if_false]
    rw [← Bool.not_eq_true, List.isEmpty_iff, List.flatMap_eq_nil_iff]
    intro h
    obtain ⟨kd, hkd⟩ := List.exists_mem_of_ne_nil _ hd
    have := h kd hkd
    simp only [List.map_eq_nil_iff] at this
    exact ho this

theorem anyMissingP_mem (m : LayerMap) (d : Bool) (deps : OtherDeps) (objs : List Mod) (x : Dep)
    (h : x ∈ anyMissingP m d deps objs) : ∃ kd ∈ deps, ∃ o ∈ objs, x = (kd.1, o) := by
  unfold anyMissingP at h
  split at h
  · cases h
  · obtain ⟨kd, hkd, hx⟩ := List.mem_flatMap.1 h
    obtain ⟨o, ho, rfl⟩ := List.mem_map.1 hx
    exact ⟨kd, hkd, o, ho, rfl⟩

/-! ### the detector -/

/-- the pure form of `detectL` -/
def detectP (m : LayerMap) (b : Behavior) (d : Bool) (expl : Option ExplDeps) (other : Option OtherDeps)
    (objs : List Mod) : Violations :=
  let onE (flag : Bool) (f : ExplDeps → List Dep) : List Dep :=
    match expl with | some e => if flag then f e else [] | none => []
  let onO (flag : Bool) (f : OtherDeps → List Dep) : List Dep :=
    match other with | some o => if flag then f o else [] | none => []
  { shouldNot := onE b.expExplNotPresent (realisedP m d)
    should := onE b.expExplPresent (abstractP m d)
    shouldOnlyNoImport := onE b.expExplAndNoOther (abstractP m d)
    shouldOnlyForbidden := onO b.expExplAndNoOther (realisedP m d)
    shouldExcept := onO b.expAtLeastOneOther (fun o => anyMissingP m d o objs)
    shouldOnlyExceptNoImport := onO b.expExplNotButOthers (fun o => anyMissingP m d o objs)
    shouldOnlyExceptForbidden := onE b.expExplNotButOthers (realisedP m d)
    shouldNotExcept := onO b.expOtherNotPresent (realisedP m d) }

theorem detectL_ok (m : LayerMap) (b : Behavior) (d : Bool) (expl : Option ExplDeps) (other : Option OtherDeps)
    (objs : List Mod)
    (hE : ∀ e, expl = some e → PairsOk m e ∧ ∀ kd ∈ e, TagOk m (relevantOf d kd).id)
    (hO : ∀ o, other = some o → PairsOk m o) :
    detectL m b d expl other objs = .ok (detectP m b d expl other objs) := by
  unfold detectL detectP
  cases expl with
  | none =>
    cases other with
    | none => rfl
    | some o =>
      have h1 := realisedL_ok m d o (hO o rfl)
      have h2 := anyMissing_ok m d o objs (hO o rfl)
      simp only [h1, h2, bind, Except.bind, pure, Except.pure]
      cases b.expExplAndNoOther <;> cases b.expAtLeastOneOther <;> cases b.expExplNotButOthers <;>
        cases b.expOtherNotPresent <;> rfl
  | some e =>
    have h3 := realisedL_ok m d e (hE e rfl).1
    have h4 := abstractWithoutAny_ok m d e (hE e rfl).2
    cases other with
    | none =>
      simp only [h3, h4, bind, Except.bind, pure, Except.pure]
      cases b.expExplNotPresent <;> cases b.expExplPresent <;> cases b.expExplAndNoOther <;>
        cases b.expExplNotButOthers <;> rfl
    | some o =>
      have h1 := realisedL_ok m d o (hO o rfl)
      have h2 := anyMissing_ok m d o objs (hO o rfl)
      simp only [h1, h2, h3, h4, bind, Except.bind, pure, Except.pure]
      cases b.expExplNotPresent <;> cases b.expExplPresent <;> cases b.expExplAndNoOther <;>
        cases b.expExplNotButOthers <;> cases b.expAtLeastOneOther <;> cases b.expOtherNotPresent <;> rfl

/-! ### the report -/

/-- the pure form of `impItemsL` -/
def impItemsP (m : LayerMap) (d : Bool) (ds : List Dep) : List LItem :=
  ds.map fun dd =>
    let p := userOrder d (dd.1.id, dd.2.id)
    LItem.imp p.1 p.2 (!d) (tagS m p.1) (tagS m p.2)

theorem impItemsL_ok (m : LayerMap) (d : Bool) (ds : List Dep) (h : DepsOk m ds) :
    impItemsL m d ds = .ok (impItemsP m d ds) := by
  unfold impItemsL impItemsP
  apply mapM_ok_map
  intro dd hdd
  obtain ⟨h1, h2⟩ := h dd hdd
  unfold TagOk at h1 h2
  cases d
  · simp only [userOrder, Bool.false_eq_true, if_false, h1, h2, bind, Except.bind, pure, Except.pure]
  · simp only [userOrder, if_true, h1, h2, bind, Except.bind, pure, Except.pure]

/-- the pure form of `missItemsL` -/
def missItemsP (m : LayerMap) (any d : Bool) (ds : List Dep) : List LItem :=
  let ls := ds.map fun dd => (tagS m dd.1.id, tagS m dd.2.id)
  (dedup (ls.map (·.1))).map fun s =>
    LItem.miss any s (dedup ((ls.filter fun dd => dd.1 = s).map (·.2))) (!d)

theorem missItemsL_ok (m : LayerMap) (any d : Bool) (ds : List Dep) (h : DepsOk m ds) :
    missItemsL m any d ds = .ok (missItemsP m any d ds) := by
  unfold missItemsL missItemsP
  rw [mapM_ok_map _ (fun dd => (tagS m dd.1.id, tagS m dd.2.id)) ds]
  · rfl
  · intro dd hdd
    obtain ⟨h1, h2⟩ := h dd hdd
    unfold TagOk at h1 h2
    simp only [h1, h2, bind, Except.bind, pure, Except.pure]

/-- the pure form of `reportItemsL` -/
def reportItemsP (m : LayerMap) (d : Bool) (v : Violations) : List LItem :=
  missItemsP m false d v.should ++ impItemsP m d v.shouldOnlyForbidden ++ missItemsP m false d v.shouldOnlyNoImport ++
  impItemsP m d v.shouldNot ++ missItemsP m true d v.shouldExcept ++ impItemsP m d v.shouldOnlyExceptForbidden ++
  missItemsP m true d v.shouldOnlyExceptNoImport ++ impItemsP m d v.shouldNotExcept

structure ViolOk (m : LayerMap) (v : Violations) : Prop where
  h1 : DepsOk m v.should
  h2 : DepsOk m v.shouldOnlyForbidden
  h3 : DepsOk m v.shouldOnlyNoImport
  h4 : DepsOk m v.shouldNot
  h5 : DepsOk m v.shouldExcept
  h6 : DepsOk m v.shouldOnlyExceptForbidden
  h7 : DepsOk m v.shouldOnlyExceptNoImport
  h8 : DepsOk m v.shouldNotExcept

theorem reportItemsL_ok (m : LayerMap) (d : Bool) (v : Violations) (h : ViolOk m v) :
    reportItemsL m d v = .ok (reportItemsP m d v) := by
  unfold reportItemsL reportItemsP
  simp only [missItemsL_ok m _ d _ h.h1, impItemsL_ok m d _ h.h2, missItemsL_ok m _ d _ h.h3, impItemsL_ok m d _ h.h4,
    missItemsL_ok m _ d _ h.h5, impItemsL_ok m d _ h.h6, missItemsL_ok m _ d _ h.h7, impItemsL_ok m d _ h.h8,
    bind, Except.bind, pure, Except.pure]

theorem imp_not_mem_missItemsP (m : LayerMap) (any d : Bool) (ds : List Dep) (u v : Str) (b : Bool) (tu tv : Option Str) :
    LItem.imp u v b tu tv ∉ missItemsP m any d ds := by
  unfold missItemsP
  simp

theorem mem_impItemsP (m : LayerMap) (d : Bool) (ds : List Dep) (u v : Str) (b : Bool) (tu tv : Option Str)
    (h : LItem.imp u v b tu tv ∈ impItemsP m d ds) :
    ∃ dd ∈ ds, (u, v) = userOrder d (dd.1.id, dd.2.id) ∧ tu = tagS m u ∧ tv = tagS m v := by
  unfold impItemsP at h
  obtain ⟨dd, hdd, heq⟩ := List.mem_map.1 h
  simp only [LItem.imp.injEq] at heq
  obtain ⟨h1, h2, _, h4, h5⟩ := heq
  refine ⟨dd, hdd, ?_, ?_, ?_⟩
  · rw [← h1, ← h2]
  · rw [← h4, h1]
  · rw [← h5, h2]

/-- the import lines of a layer report come from the four "forbidden" buckets -/
theorem imp_mem_reportItemsP (m : LayerMap) (d : Bool) (V : Violations) (u v : Str) (b : Bool) (tu tv : Option Str)
    (h : LItem.imp u v b tu tv ∈ reportItemsP m d V) :
    ∃ dd ∈ V.shouldOnlyForbidden ++ V.shouldNot ++ V.shouldOnlyExceptForbidden ++ V.shouldNotExcept,
      (u, v) = userOrder d (dd.1.id, dd.2.id) ∧ tu = tagS m u ∧ tv = tagS m v := by
  unfold reportItemsP at h
  simp only [List.mem_append, imp_not_mem_missItemsP, false_or, or_false] at h
  rcases h with ((h | h) | h) | h
  all_goals
    obtain ⟨dd, hdd, hrest⟩ := mem_impItemsP m d _ u v b tu tv h
    exact ⟨dd, by simp [hdd], hrest⟩

theorem mem_realisedP (m : LayerMap) (d : Bool) {κ : Type} (deps : List (κ × List (Str × Str))) (dd : Dep)
    (h : dd ∈ realisedP m d deps) :
    ∃ kd ∈ deps, ∃ p ∈ kd.2, userOrder d (dd.1.id, dd.2.id) = p ∧ tagS m p.1 ≠ tagS m p.2 := by
  obtain ⟨h1, h2⟩ := List.mem_filter.1 h
  obtain ⟨kd, hkd, p, hp, rfl⟩ := (realised_mem d deps dd).1 h1
  refine ⟨kd, hkd, p, hp, ?_, ?_⟩
  · cases d <;> simp [userOrder]
  · cases d
    · simp [userOrder] at h2; exact fun h => h2 h.symm
    · simp [userOrder] at h2; exact h2

/-- the four "forbidden" buckets hold realised dependencies across layers -/
theorem detectP_forbidden_mem (m : LayerMap) (b : Behavior) (d : Bool) (expl : Option ExplDeps) (other : Option OtherDeps)
    (objs : List Mod) (dd : Dep)
    (h : dd ∈ (detectP m b d expl other objs).shouldOnlyForbidden ++ (detectP m b d expl other objs).shouldNot ++
      (detectP m b d expl other objs).shouldOnlyExceptForbidden ++ (detectP m b d expl other objs).shouldNotExcept) :
    (∃ e, expl = some e ∧ dd ∈ realisedP m d e) ∨ (∃ o, other = some o ∧ dd ∈ realisedP m d o) := by
  simp only [List.mem_append] at h
  rcases h with ((h | h) | h) | h <;> simp only [detectP] at h <;> split at h <;> (try split at h) <;>
    first | cases h | exact .inl ⟨_, rfl, h⟩ | exact .inr ⟨_, rfl, h⟩

end Pta
