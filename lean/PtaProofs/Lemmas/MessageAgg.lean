/-
  PtaProofs.Lemmas.MessageAgg — `applyAllText` (MultipleRuleApplier with message texts) in closed form, its relation to
  `applyAll` (report items), and the text lemmas behind them (`joinWith` of joined blocks, `splitLines` of a join).
-/
import Bridge.MessageAgg
import PtaProofs.Lemmas.MessageText
import PtaProofs.Lemmas.DiagramApply
import PtaProofs.Lemmas.PumlBody
namespace Pta.Agg
open Pta

/-! ### views of a text verdict -/

theorem toText_isFail (v : Verdict) : v.toText.isFail = v.isFail := by cases v <;> rfl
theorem toText_errKind (v : Verdict) : v.toText.errKind = v.errKind := by cases v <;> rfl
theorem toText_lines (v : Verdict) : v.toText.lines = renderItems v.items := by
  cases v <;> simp [Verdict.toText, TextVerdict.lines, Verdict.items, renderItems, sortStr, sortBy, dedup]
theorem toText_cls (v : Verdict) : v.toText.cls = v.cls := by cases v <;> rfl

theorem ruleText_eq (mt : Str → Str → Bool) (g : PGraph Str) (r : RuleState) :
    ruleText mt g r = (ruleVerdict mt g r).toText := by
  unfold ruleText ruleVerdict
  rw [assertAppliesText_eq_lemma]

/-! ### `applyAllMessages` / `applyAllText` in closed form -/

theorem go_eq (mt : Str → Str → Bool) (g : PGraph Str) (rs : List RuleState) (acc : List Str) :
    applyAllMessages.go mt g acc rs =
      match rs.findSome? (fun r => (ruleText mt g r).errKind) with
      | some k => .error k
      | none => .ok (acc ++ rs.filterMap fun r => (ruleText mt g r).msg?) := by
  induction rs generalizing acc with
  | nil => simp [applyAllMessages.go]
  | cons r rs ih =>
    rw [applyAllMessages.go]
    have hrv : ruleText mt g r = (assertAppliesText mt r g).2 := rfl
    cases h : (assertAppliesText mt r g).2 with
    | pass =>
      rw [h] at hrv
      simp only [ih, List.findSome?_cons, hrv, TextVerdict.errKind, List.filterMap_cons, TextVerdict.msg?]
    | fail lines =>
      rw [h] at hrv
      simp only [ih, List.findSome?_cons, hrv, TextVerdict.errKind, List.filterMap_cons, TextVerdict.msg?,
        List.append_assoc, List.singleton_append]
    | err k =>
      rw [h] at hrv
      simp only [List.findSome?_cons, hrv, TextVerdict.errKind]

theorem applyAllMessages_eq (mt : Str → Str → Bool) (g : PGraph Str) (rs : List RuleState) :
    applyAllMessages mt g rs =
      match rs.findSome? (fun r => (ruleText mt g r).errKind) with
      | some k => .error k
      | none => .ok (rs.filterMap fun r => (ruleText mt g r).msg?) := by
  unfold applyAllMessages
  rw [go_eq]
  simp

/-- `applyAllText` is the aggregation of the outcomes of the rules, in order -/
theorem applyAllText_eq_aggOf (mt : Str → Str → Bool) (g : PGraph Str) (rs : List RuleState) :
    applyAllText mt g rs = aggOf (rs.map (ruleText mt g)) := by
  unfold applyAllText aggOf
  rw [applyAllMessages_eq, List.findSome?_map, List.filterMap_map]
  simp only [Function.comp_def]
  cases rs.findSome? (fun r => (ruleText mt g r).errKind) <;> rfl

theorem filterMap_msg (mt : Str → Str → Bool) (g : PGraph Str) (rs : List RuleState) :
    (rs.filterMap fun r => (ruleText mt g r).msg?) = aggMessages mt g rs := by
  unfold aggMessages
  induction rs with
  | nil => rfl
  | cons r rs ih =>
    simp only [List.filterMap_cons, List.filter_cons, ih]
    cases h : ruleText mt g r <;> simp [h, TextVerdict.msg?, TextVerdict.isFail, TextVerdict.lines]

theorem findSome_none_of_noErr (mt : Str → Str → Bool) (g : PGraph Str) (rs : List RuleState)
    (hne : ∀ r ∈ rs, ∀ k, ruleText mt g r ≠ .err k) :
    rs.findSome? (fun r => (ruleText mt g r).errKind) = none := by
  rw [List.findSome?_eq_none_iff]
  intro r hr
  cases h : ruleText mt g r with
  | err k => exact absurd h (hne r hr k)
  | pass => rfl
  | fail _ => rfl

/-- no rule raises: the outcome is decided by the list of messages -/
theorem applyAllText_of_noErr (mt : Str → Str → Bool) (g : PGraph Str) (rs : List RuleState)
    (hne : ∀ r ∈ rs, ∀ k, ruleText mt g r ≠ .err k) :
    applyAllText mt g rs =
      if !(aggMessages mt g rs).isEmpty then .fail (joinWith ['\n'] (aggMessages mt g rs)) else .pass := by
  unfold applyAllText
  rw [applyAllMessages_eq, findSome_none_of_noErr mt g rs hne, filterMap_msg]

theorem aggMessages_isEmpty (mt : Str → Str → Bool) (g : PGraph Str) (rs : List RuleState) :
    (aggMessages mt g rs).isEmpty = !(rs.any fun r => (ruleText mt g r).isFail) := by
  unfold aggMessages
  induction rs with
  | nil => rfl
  | cons r rs ih =>
    simp only [List.filter_cons, List.any_cons]
    cases h : (ruleText mt g r).isFail
    · simpa using ih
    · simp

/-- the first rule that raises decides -/
theorem applyAllText_err_iff (mt : Str → Str → Bool) (g : PGraph Str) (rs : List RuleState) (k : ErrKind) :
    applyAllText mt g rs = .err k ↔
      ∃ pre r post, rs = pre ++ r :: post ∧ (∀ r' ∈ pre, ∀ k', ruleText mt g r' ≠ .err k') ∧ ruleText mt g r = .err k := by
  constructor
  · intro h
    unfold applyAllText at h
    rw [applyAllMessages_eq] at h
    cases hf : rs.findSome? (fun r => (ruleText mt g r).errKind) with
    | none =>
      rw [hf] at h
      simp only at h
      split at h <;> cases h
    | some k' =>
      rw [hf] at h
      simp only [AggTextVerdict.err.injEq] at h
      subst h
      induction rs with
      | nil => cases hf
      | cons r rs ih =>
        rw [List.findSome?_cons] at hf
        cases hr : ruleText mt g r with
        | err k1 =>
          rw [hr] at hf
          simp only [TextVerdict.errKind, Option.some.injEq] at hf
          subst hf
          exact ⟨[], r, rs, rfl, (fun _ h => nomatch h), hr⟩
        | pass =>
          rw [hr] at hf
          obtain ⟨pre, r0, post, e, h1, h2⟩ := ih hf
          refine ⟨r :: pre, r0, post, by rw [e]; rfl, ?_, h2⟩
          intro r' hr' k1
          rcases List.mem_cons.1 hr' with rfl | hr'
          · rw [hr]; intro h; cases h
          · exact h1 r' hr' k1
        | fail ls =>
          rw [hr] at hf
          obtain ⟨pre, r0, post, e, h1, h2⟩ := ih hf
          refine ⟨r :: pre, r0, post, by rw [e]; rfl, ?_, h2⟩
          intro r' hr' k1
          rcases List.mem_cons.1 hr' with rfl | hr'
          · rw [hr]; intro h; cases h
          · exact h1 r' hr' k1
  · rintro ⟨pre, r, post, rfl, hpre, hr⟩
    unfold applyAllText
    rw [applyAllMessages_eq, List.findSome?_append, findSome_none_of_noErr mt g pre hpre]
    simp [hr, TextVerdict.errKind]

/-! ### text lemmas -/

theorem joinWith_append (sep : Str) : ∀ (a b : List Str), a ≠ [] → b ≠ [] →
    joinWith sep (a ++ b) = joinWith sep a ++ sep ++ joinWith sep b
  | [], _, h, _ => absurd rfl h
  | [x], y :: r, _, _ => by simp [joinWith]
  | _, [], _, h => absurd rfl h
  | x :: x2 :: r, y :: s, _, _ => by
    have ih := joinWith_append sep (x2 :: r) (y :: s) (by simp) (by simp)
    simp only [List.cons_append] at ih ⊢
    simp only [joinWith, ih, List.append_assoc]

/-- joining joined blocks is joining all lines, as long as no block is empty -/
theorem joinWith_blocks (sep : Str) : ∀ (bs : List (List Str)), (∀ b ∈ bs, b ≠ []) →
    joinWith sep (bs.map (joinWith sep)) = joinWith sep bs.flatten
  | [], _ => rfl
  | [b], _ => by simp [joinWith]
  | b :: b2 :: r, h => by
    have ih := joinWith_blocks sep (b2 :: r) (fun x hx => h x (by simp [hx]))
    have hb : b ≠ [] := h b (by simp)
    have hb2 : b2 ≠ [] := h b2 (by simp)
    have hne : (b2 :: r).flatten ≠ [] := by
      obtain ⟨x, t, e⟩ := List.exists_cons_of_ne_nil hb2
      simp [e]
    simp only [List.map_cons] at ih ⊢
    rw [joinWith, ih]
    show joinWith sep b ++ sep ++ joinWith sep (b2 :: r).flatten = joinWith sep (b ++ (b2 :: r).flatten)
    rw [joinWith_append sep b _ hb hne]

theorem splitLines_joinWith : ∀ (ls : List Str), ls ≠ [] → (∀ l ∈ ls, '\n' ∉ l) →
    splitLines (joinWith ['\n'] ls) = ls
  | [], h, _ => absurd rfl h
  | [l], _, h => by simpa [joinWith] using splitLines_last l (h l (by simp))
  | l :: l2 :: r, _, h => by
    have ih := splitLines_joinWith (l2 :: r) (by simp) (fun x hx => h x (by simp [hx]))
    have e : joinWith ['\n'] (l :: l2 :: r) = l ++ '\n' :: joinWith ['\n'] (l2 :: r) := by simp [joinWith]
    rw [e, splitLines_line l _ (h l (by simp)), ih]

/-! ### a failing rule reports at least one line -/

theorem missItems_ne_nil (any ir : Bool) (ds : List Dep) (h : ds ≠ []) : missItems any ir ds ≠ [] := by
  obtain ⟨d, t, rfl⟩ := List.exists_cons_of_ne_nil h
  unfold missItems
  intro e
  have hm : d.1 ∈ dedup ((d :: t).map (·.1)) := (mem_dedup _ _).2 (by simp)
  rw [List.map_eq_nil_iff] at e
  rw [e] at hm
  cases hm

theorem impItems_ne_nil (ir : Bool) (ds : List Dep) (h : ds ≠ []) : impItems ir ds ≠ [] := by
  unfold impItems
  simpa using h

theorem reportItems_ne_nil (ir : Bool) (v : Violations) (h : v.any = true) : reportItems ir v ≠ [] := by
  unfold Violations.any at h
  unfold reportItems
  intro e
  simp only [List.append_eq_nil_iff] at e
  obtain ⟨⟨⟨⟨⟨⟨⟨e1, e2⟩, e3⟩, e4⟩, e5⟩, e6⟩, e7⟩, e8⟩ := e
  have n {l : List Dep} : (!l.isEmpty) = true → l ≠ [] := by
    intro h1 h2; subst h2; cases h1
  simp only [Bool.or_eq_true] at h
  rcases h with ((((((h | h) | h) | h) | h) | h) | h) | h
  · exact missItems_ne_nil _ _ _ (n h) e1
  · exact impItems_ne_nil _ _ (n h) e2
  · exact missItems_ne_nil _ _ _ (n h) e3
  · exact impItems_ne_nil _ _ (n h) e4
  · exact missItems_ne_nil _ _ _ (n h) e5
  · exact impItems_ne_nil _ _ (n h) e6
  · exact missItems_ne_nil _ _ _ (n h) e7
  · exact impItems_ne_nil _ _ (n h) e8

theorem renderItems_ne_nil (items : List Item) (h : items ≠ []) : renderItems items ≠ [] := by
  obtain ⟨x, t, rfl⟩ := List.exists_cons_of_ne_nil h
  unfold renderItems
  apply sortStr_ne_nil
  intro e
  have hm : renderItem x ∈ dedup ((x :: t).map renderItem) := (mem_dedup _ _).2 (by simp)
  rw [e] at hm
  cases hm

/-- the items of a failing rule are not empty … -/
theorem fail_items_ne_nil (mt : Str → Str → Bool) (g : PGraph Str) (r : RuleState) (items : List Item)
    (h : (assertApplies mt r g).2 = .fail items) : items ≠ [] := by
  unfold assertApplies at h
  split at h
  · cases h
  · simp only at h
    split at h
    · cases h
    · split at h
      · cases h
      · split at h
        · cases h
        · split at h
          · simp only at h
            unfold matchRule at h
            split at h
            · cases h
            · split at h
              · cases h
              · split at h
                · cases h
                · simp only at h
                  split at h
                  · rename_i hany
                    cases h
                    exact reportItems_ne_nil _ _ hany
                  · cases h
          · cases h

/-- … so its message has at least one line -/
theorem fail_lines_ne_nil (mt : Str → Str → Bool) (g : PGraph Str) (r : RuleState) (lines : List Str)
    (h : ruleText mt g r = .fail lines) : lines ≠ [] := by
  obtain ⟨items, hi, rfl⟩ := assertAppliesText_fail_lemma mt r g lines h
  exact renderItems_ne_nil items (fail_items_ne_nil mt g r items hi)

/-- the aggregated text is the join of ALL lines of the failing rules -/
theorem join_aggMessages (mt : Str → Str → Bool) (g : PGraph Str) (rs : List RuleState) :
    joinWith ['\n'] (aggMessages mt g rs) = messageText (aggLines mt g rs) := by
  unfold aggMessages aggLines messageText
  have : ((rs.filter fun r => (ruleText mt g r).isFail).map fun r => joinWith ['\n'] (ruleText mt g r).lines) =
      ((rs.filter fun r => (ruleText mt g r).isFail).map fun r => (ruleText mt g r).lines).map (joinWith ['\n']) := by
    rw [List.map_map]; rfl
  show joinWith ['\n'] ((rs.filter fun r => (ruleText mt g r).isFail).map fun r => joinWith ['\n'] (ruleText mt g r).lines) = _
  rw [this, joinWith_blocks, List.flatMap_def]
  intro b hb
  obtain ⟨r, hr, rfl⟩ := List.mem_map.1 hb
  have hf := (List.mem_filter.1 hr).2
  cases hv : ruleText mt g r with
  | pass => rw [hv] at hf; cases hf
  | err k => rw [hv] at hf; cases hf
  | fail ls => exact fail_lines_ne_nil mt g r ls hv

/-! ### against `applyAll` -/

theorem aggLines_eq_render (mt : Str → Str → Bool) (g : PGraph Str) (rs : List RuleState) :
    aggLines mt g rs =
      (rs.filter fun r => (ruleVerdict mt g r).isFail).flatMap fun r => renderItems (ruleVerdict mt g r).items := by
  unfold aggLines
  simp only [ruleText_eq, toText_isFail, toText_lines]

theorem cls_eq_applyAll (mt : Str → Str → Bool) (g : PGraph Str) (rs : List RuleState) :
    (applyAllText mt g rs).cls = (applyAll mt g rs).cls := by
  rw [Dg.applyAll_eq]
  unfold applyAllText
  rw [applyAllMessages_eq, filterMap_msg]
  simp only [ruleText_eq, toText_errKind]
  cases rs.findSome? (fun r => (ruleVerdict mt g r).errKind) with
  | some k => rfl
  | none =>
    simp only [aggMessages_isEmpty, Bool.not_not, ruleText_eq, toText_isFail]
    cases (rs.any fun r => (ruleVerdict mt g r).isFail) <;> rfl

end Pta.Agg
