/-
  PtaProofs.Lemmas.RuleHist — Rule call histories: the model run against the specification classification.
-/
import PtaProofs.Lemmas.RuleSim
import PtaProofs.Lemmas.QueryErr
namespace Pta.Hist
open PtaSpec

/-- `classify` never reports an error position -/
theorem classify_ne_errorAt (t : RTrack) (j : Nat) : t.classify ≠ .errorAtCall j := by
  unfold RTrack.classify
  simp only
  repeat' split
  all_goals simp

/-- the run either fails at the call where the automaton gets stuck, or reaches `assert_applies` in a state
    simulated by the automaton's final state -/
theorem go_sim (glob : Str → Str) (mt : Str → Str → Bool) (g : PGraph Str) (ops : List RuleOp)
    (s : RuleState) (t : RTrack) (i : Nat) (h : RSim s t) :
    (∃ j, classifyRuleFrom t i (ops.map toRCall) = .errorAtCall j ∧
        runRuleOps.go glob mt g s i ops = (.err .improperlyConfigured, j)) ∨
    (∃ s' t', RSim s' t' ∧ classifyRuleFrom t i (ops.map toRCall) = t'.classify ∧
        runRuleOps.go glob mt g s i ops = ((assertApplies mt s' g).2, i + ops.length)) := by
  induction ops generalizing s t i with
  | nil => exact .inr ⟨s, t, h, rfl, rfl⟩
  | cons op rest ih =>
    have hs := rsim_step glob s t op h
    simp only [List.map_cons, classifyRuleFrom, runRuleOps.go]
    cases ht : t.step (toRCall op) with
    | none =>
      rw [ht] at hs
      simp only [hs]
      exact .inl ⟨i, rfl, rfl⟩
    | some t' =>
      rw [ht] at hs
      obtain ⟨s', hs', hsim⟩ := hs
      simp only [hs']
      rcases ih s' t' (i + 1) hsim with ⟨j, h1, h2⟩ | ⟨s'', t'', h1, h2, h3⟩
      · exact .inl ⟨j, h1, h2⟩
      · refine .inr ⟨s'', t'', h1, h2, ?_⟩
        rw [h3, List.length_cons]
        congr 1
        omega

theorem assertApplies_preFail (mt : Str → Str → Bool) (s : RuleState) (g : PGraph Str)
    (h : preFail s.cfg = true) : ∃ k, (assertApplies mt s g).2 = .err k := by
  unfold preFail at h
  unfold assertApplies
  by_cases h1 : anythingMisused s.cfg = true
  · simp only [h1, if_true]; exact ⟨_, rfl⟩
  · simp only [h1, Bool.false_eq_true, if_false]
    simp only [Bool.not_eq_true] at h1
    simp only [h1, Bool.false_or, Bool.or_eq_true] at h
    by_cases h2 : configMissing (convertAliases s.cfg) = true
    · simp only [h2, if_true]; exact ⟨_, rfl⟩
    · simp only [h2, Bool.false_eq_true, if_false]
      by_cases h0 : droppedAbsent g (convertAliases s.cfg) = true
      · simp only [h0, if_true]; exact ⟨_, rfl⟩
      simp only [h0, Bool.false_eq_true, if_false]
      have h3 := h.resolve_left h2
      simp only [h3, if_true]; exact ⟨_, rfl⟩

theorem assertApplies_not_preFail (mt : Str → Str → Bool) (s : RuleState) (g : PGraph Str)
    (h : preFail s.cfg = false) :
    (assertApplies mt s g).2 ≠ .err .improperlyConfigured ∧ (assertApplies mt s g).2 ≠ .err .ruleInconsistency := by
  unfold preFail at h
  simp only [Bool.or_eq_false_iff] at h
  obtain ⟨h1, h2, h3⟩ := h
  unfold assertApplies
  by_cases h0 : droppedAbsent g (convertAliases s.cfg) = true
  · simp only [h1, h2, h0, Bool.false_eq_true, if_false, if_true]
    constructor <;> intro hk <;> cases hk
  simp only [h1, h0, h2, h3, Bool.false_eq_true, if_false]
  rw [configMissing_eq] at h2
  generalize convertAliases s.cfg = c at h2 ⊢
  rcases hd : c.importDir with _ | d
  · simp [hd] at h2
  rcases hss : c.subjects with _ | ss
  · simp [hss, neOpt] at h2
  rcases hos : c.objects with _ | os
  · simp [hos, neOpt] at h2
  simp only
  constructor <;> intro hk <;> rcases matchRule_err _ _ _ _ _ _ _ hk with hk | hk <;> cases hk

end Pta.Hist
namespace Pta.Hist
open PtaSpec

theorem rule_raises_aux (glob : Str → Str) (mt : Str → Str → Bool) (ops : List RuleOp) (g : PGraph Str) :
    (classifyRule (ops.map toRCall)).mustRaise = true → ∃ k, (runRuleOps glob mt ops g).1 = .err k := by
  intro hm
  unfold classifyRule at hm
  unfold runRuleOps
  rcases go_sim glob mt g ops {} {} 0 rsim_init with ⟨j, _, h2⟩ | ⟨s', t', h1, h2, h3⟩
  · rw [h2]; exact ⟨_, rfl⟩
  · rw [h3]
    rw [h2] at hm
    exact assertApplies_preFail mt s' g (rsim_mustRaise h1 hm)

theorem rule_error_at_aux (glob : Str → Str) (mt : Str → Str → Bool) (ops : List RuleOp) (g : PGraph Str) (i : Nat) :
    classifyRule (ops.map toRCall) = .errorAtCall i → runRuleOps glob mt ops g = (.err .improperlyConfigured, i) := by
  intro hm
  unfold classifyRule at hm
  unfold runRuleOps
  rcases go_sim glob mt g ops {} {} 0 rsim_init with ⟨j, h1, h2⟩ | ⟨s', t', h1, h2, h3⟩
  · rw [h2]; rw [h1] at hm; cases hm; rfl
  · rw [h2] at hm
    exact absurd hm (classify_ne_errorAt _ _)

theorem rule_complete_aux (glob : Str → Str) (mt : Str → Str → Bool) (ops : List RuleOp) (g : PGraph Str) :
    classifyRule (ops.map toRCall) = .complete →
    (runRuleOps glob mt ops g).1 ≠ .err .improperlyConfigured ∧ (runRuleOps glob mt ops g).1 ≠ .err .ruleInconsistency := by
  intro hm
  unfold classifyRule at hm
  unfold runRuleOps
  rcases go_sim glob mt g ops {} {} 0 rsim_init with ⟨j, h1, h2⟩ | ⟨s', t', h1, h2, h3⟩
  · rw [h1] at hm; cases hm
  · rw [h3]
    rw [h2] at hm
    exact assertApplies_not_preFail mt s' g (rsim_complete h1 hm)

theorem unknown_name_aux (mt : Str → Str → Bool) (g : PGraph Str) (b : Behavior) (dir : Bool) (subs objs : List Filter)
    (hverb : b.should = true ∨ b.shouldOnly = true ∨ b.shouldNot = true)
    (hs : subs ≠ []) (ho : objs ≠ [])
    (hnoregex : ∀ f ∈ subs ++ objs, f.isRegex = false)
    (hmissing : ∃ f ∈ subs ++ objs, g.hasNode f.id = false) :
    matchRule mt g b dir subs objs = .err .lookupError := by
  unfold matchRule
  rw [convertFilters_noregex mt g.nodes subs (fun f hf => hnoregex f (List.mem_append_left _ hf)),
    convertFilters_noregex mt g.nodes objs (fun f hf => hnoregex f (List.mem_append_right _ hf))]
  simp only
  rw [runQueries_missing g b dir subs objs hverb hs ho hmissing]

theorem no_match_aux (mt : Str → Str → Bool) (g : PGraph Str) (b : Behavior) (dir : Bool) (subs objs : List Filter)
    (h : ∃ f ∈ subs, f.isRegex = true ∧ ∀ m ∈ g.nodes, mt f.id m = false) :
    matchRule mt g b dir subs objs = .err .impossibleMatch := by
  unfold matchRule
  rw [convertFilters_nomatch mt g.nodes subs h]

end Pta.Hist