/-
  PtaProofs.Lemmas.PumlRoundtrip — composition of the line level (PumlLine), the text level (PumlBody) and the
  aggregation (PumlAgg) into the round-trip theorem of property C06.
-/
import PtaProofs.Lemmas.PumlLine
import PtaProofs.Lemmas.PumlBody
import PtaProofs.Lemmas.PumlAgg
namespace Pta

/-! ## what one rendered line contributes -/

/-- line-local well-formedness (what L1 needs) -/
def DLine.localOK : DLine → Prop
  | .decl f n al => NameLike n ∧ ∀ a, al = some a → NameLike a ∧ f ≠ .compBare
  | .arrow f a b => f.textOK = true ∧ NameLike a.written ∧ NameLike b.written

/-- the declarations the recogniser finds in a line -/
def DLine.mods : DLine → List PModule
  | .decl _ n al => [⟨n, al⟩]
  | .arrow f a b => (lastRef f a b).inlineModule

/-- the arrow the recogniser finds in a line, as written -/
def DLine.raw : DLine → Option (Str × Str)
  | .decl _ _ _ => none
  | .arrow _ a b => some (a.written, b.written)

theorem lineModules_render (l : DLine) (h : l.localOK) : lineModules l.render = l.mods := by
  cases l with
  | decl f n al =>
    obtain ⟨hn, hal⟩ := h
    rw [DLine.render, lineModules_decl_lemma f n al hn hal, DLine.mods]
    by_cases hf : f = .compBare
    · cases al with
      | none => simp
      | some a => exact absurd hf (hal a rfl).2
    · simp [hf]
  | arrow f a b =>
    obtain ⟨ht, ha, hb⟩ := h
    exact lineModules_arrow_lemma f a b ht ha hb

theorem lineDependency_render (l : DLine) (h : l.localOK) : lineDependency l.render = l.raw := by
  cases l with
  | decl f n al => exact lineDependency_decl_lemma f n al h.1
  | arrow f a b =>
    obtain ⟨ht, ha, hb⟩ := h
    exact lineDependency_arrow_lemma f a b ht ha hb

theorem flatMap_lineModules (d : List DLine) (h : ∀ l ∈ d, l.localOK) :
    (d.map DLine.render).flatMap lineModules = d.flatMap DLine.mods := by
  induction d with
  | nil => rfl
  | cons l d ih =>
    simp only [List.map_cons, List.flatMap_cons]
    rw [lineModules_render l (h l (by simp)), ih (fun l hl => h l (by simp [hl]))]

theorem filterMap_lineDependency (d : List DLine) (h : ∀ l ∈ d, l.localOK) :
    (d.map DLine.render).filterMap lineDependency = d.filterMap DLine.raw := by
  induction d with
  | nil => rfl
  | cons l d ih =>
    simp only [List.map_cons, List.filterMap_cons]
    rw [lineDependency_render l (h l (by simp)), ih (fun l hl => h l (by simp [hl]))]

/-! ## the characters of a rendered line -/

def lineChar (c : Char) : Bool :=
  isNameChar c || c == ' ' || c == '[' || c == ']' || c == '-' || c == '<' || c == '>'

def AllLC (s : Str) : Prop := ∀ c ∈ s, lineChar c = true

theorem allLC_nil : AllLC [] := by simp [AllLC]
theorem allLC_of_all (s : Str) (h : s.all lineChar = true) : AllLC s := by
  simpa [AllLC] using h
theorem allLC_append {s t : Str} (hs : AllLC s) (ht : AllLC t) : AllLC (s ++ t) := by
  intro c hc
  rcases List.mem_append.1 hc with h | h
  · exact hs c h
  · exact ht c h
theorem allLC_cons {c : Char} {s : Str} (hc : lineChar c = true) (hs : AllLC s) : AllLC (c :: s) := by
  intro x hx
  rcases List.mem_cons.1 hx with rfl | h
  · exact hc
  · exact hs x h
theorem allLC_name {s : Str} (h : NameLike s) : AllLC s := by
  intro c hc
  simp [lineChar, h.2 c hc]

theorem allLC_ref (r : DRef) (h : NameLike r.written) : AllLC r.render := by
  cases r with
  | bare n => exact allLC_name h
  | viaAlias a => exact allLC_name h
  | bracketed n => exact allLC_cons (by decide) (allLC_append (allLC_name h) (allLC_cons (by decide) allLC_nil))

theorem allLC_token (f : ArrowForm) (h : f.textOK = true) : AllLC f.token := by
  cases f with
  | r2 => exact allLC_of_all _ (by decide)
  | r1 => exact allLC_of_all _ (by decide)
  | l2 => exact allLC_of_all _ (by decide)
  | l1 => exact allLC_of_all _ (by decide)
  | rt t =>
    exact allLC_cons (by decide) (allLC_append (allLC_name (nameOK_nameLike (wordOK_nameOK h)))
      (allLC_cons (by decide) (allLC_cons (by decide) allLC_nil)))
  | lt t =>
    exact allLC_cons (by decide) (allLC_cons (by decide)
      (allLC_append (allLC_name (nameOK_nameLike (wordOK_nameOK h))) (allLC_cons (by decide) allLC_nil)))

theorem allLC_kwComponent : AllLC kwComponent := allLC_of_all _ (by decide)
theorem allLC_kwAs : AllLC kwAs := allLC_of_all _ (by decide)

theorem allLC_alias (al : Option Str) (h : ∀ a, al = some a → NameLike a) : AllLC (renderAlias al) := by
  cases al with
  | none => exact allLC_nil
  | some a => exact allLC_append allLC_kwAs (allLC_name (h a rfl))

theorem allLC_render (l : DLine) (h : l.localOK) : AllLC l.render := by
  cases l with
  | decl f n al =>
    obtain ⟨hn, hal⟩ := h
    have hA := allLC_alias al (fun a ha => (hal a ha).1)
    cases f with
    | bracket =>
      exact allLC_append (allLC_cons (by decide) (allLC_name hn)) (allLC_cons (by decide) hA)
    | compBare =>
      exact allLC_append allLC_kwComponent (allLC_cons (by decide) (allLC_name hn))
    | compBracket =>
      exact allLC_append (allLC_append allLC_kwComponent (allLC_cons (by decide) (allLC_cons (by decide)
        (allLC_name hn)))) (allLC_cons (by decide) hA)
  | arrow f a b =>
    obtain ⟨ht, ha, hb⟩ := h
    have hA := allLC_ref a ha
    have hB := allLC_ref b hb
    have hT := allLC_token f ht
    cases hf : f.isRight with
    | true =>
      rw [DLine.render, renderArrow_right f a b hf]
      exact allLC_append hA (allLC_cons (by decide) (allLC_append hT (allLC_cons (by decide) hB)))
    | false =>
      rw [DLine.render, renderArrow_left f a b hf]
      exact allLC_append hB (allLC_cons (by decide) (allLC_append hT (allLC_cons (by decide) hA)))

theorem dline_render_ne_nil (l : DLine) (h : l.localOK) : l.render ≠ [] := by
  cases l with
  | decl f n al => cases f <;> simp [DLine.render, renderDecl, kwComponent]
  | arrow f a b =>
    cases hf : f.isRight with
    | true => rw [DLine.render, renderArrow_right f a b hf]; simp
    | false => rw [DLine.render, renderArrow_left f a b hf]; simp

theorem not_mem_of_allLC {s : Str} (h : AllLC s) (c : Char) (hc : lineChar c = false) : c ∉ s := by
  intro hm
  rw [h c hm] at hc; cases hc

/-! ## the text level -/

theorem mem_joinWith (sep : Str) (ls : List Str) (c : Char) (h : c ∈ joinWith sep ls) :
    c ∈ sep ∨ ∃ l ∈ ls, c ∈ l := by
  induction ls with
  | nil => simp [joinWith] at h
  | cons l ls ih =>
    cases ls with
    | nil => exact .inr ⟨l, by simp, by simpa [joinWith] using h⟩
    | cons l2 ls =>
      simp only [joinWith, List.mem_append] at h
      rcases h with (h | h) | h
      · exact .inr ⟨l, by simp, h⟩
      · exact .inl h
      · rcases ih h with h | ⟨l', hl', hc⟩
        · exact .inl h
        · exact .inr ⟨l', by simp [hl'], hc⟩

/-- the body between the tags, as `pumlBody` returns it -/
def diagramBody (d : List DLine) : Str := '\n' :: (joinWith ['\n'] (d.map DLine.render) ++ ['\n'])

theorem pyWs_at : pyWs '@' = false := by decide
theorem pyWs_l : pyWs 'l' = false := by decide

theorem diagramText_shape (n1 n2 : Str) (d : List DLine) :
    diagramText n1 d n2 =
      n1 ++ '@' :: ((['s','t','a','r','t','u','m','l'] ++ diagramBody d ++ ['@','e','n','d','u','m']) ++ 'l' :: n2) := by
  simp [diagramText, diagramBody, tagStart, tagEnd]

theorem stripped_shape (x n2 : Str) (d : List DLine) :
    x ++ '@' :: ((['s','t','a','r','t','u','m','l'] ++ diagramBody d ++ ['@','e','n','d','u','m']) ++ 'l' :: n2) =
      x ++ (tagStart ++ (diagramBody d ++ (tagEnd ++ n2))) := by
  simp [tagStart, tagEnd]

theorem at_not_mem_body (d : List DLine) (hd : ∀ l ∈ d, l.localOK) : '@' ∉ diagramBody d := by
  intro h
  simp only [diagramBody, List.mem_cons, List.mem_append, List.not_mem_nil, or_false] at h
  rcases h with h | h | h
  · revert h; decide
  · rcases mem_joinWith _ _ _ h with h | ⟨l, hl, hc⟩
    · revert h; decide
    · obtain ⟨dl, hdl, rfl⟩ := List.mem_map.1 hl
      exact not_mem_of_allLC (allLC_render dl (hd dl hdl)) '@' (by decide) hc
  · revert h; decide

/-- L2: the body of a rendered diagram text -/
theorem pumlBody_diagramText (n1 n2 : Str) (d : List DLine) (hd : ∀ l ∈ d, l.localOK)
    (hn : isInfix tagEnd n2 = false) :
    pumlBody (pyStrip (diagramText n1 d n2)) = .ok (diagramBody d) := by
  rw [diagramText_shape, pyStrip_block n1 '@' _ 'l' n2 pyWs_at pyWs_l, stripped_shape]
  refine pumlBody_block _ _ _ (at_not_mem_body d hd) ?_ (by simp [diagramBody])
  exact isInfix_false_of_infix hn (rstrip_prefix n2).isInfix

theorem lineModules_nil : lineModules [] = [] := by decide
theorem lineDependency_nil : lineDependency [] = none := by decide

/-- L2: the lines of the body are the rendered lines, framed by empty lines -/
theorem splitLines_diagramBody (d : List DLine) (hd : ∀ l ∈ d, l.localOK) :
    splitLines (diagramBody d) =
      [] :: ((if d.map DLine.render = [] then [[]] else d.map DLine.render) ++ [[]]) := by
  have h1 : diagramBody d = [] ++ '\n' :: (joinWith ['\n'] (d.map DLine.render) ++ ['\n']) := rfl
  rw [h1, splitLines_line [] _ (by simp), splitLines_join]
  intro l hl
  obtain ⟨dl, hdl, rfl⟩ := List.mem_map.1 hl
  exact not_mem_of_allLC (allLC_render dl (hd dl hdl)) '\n' (by decide)

theorem flatMap_splitLines_body (d : List DLine) (hd : ∀ l ∈ d, l.localOK) :
    (splitLines (diagramBody d)).flatMap lineModules = (d.map DLine.render).flatMap lineModules := by
  rw [splitLines_diagramBody d hd]
  by_cases h : d.map DLine.render = []
  · simp [h, lineModules_nil]
  · simp [h, lineModules_nil]

theorem filterMap_splitLines_body (d : List DLine) (hd : ∀ l ∈ d, l.localOK) :
    (splitLines (diagramBody d)).filterMap lineDependency = (d.map DLine.render).filterMap lineDependency := by
  rw [splitLines_diagramBody d hd]
  by_cases h : d.map DLine.render = []
  · simp [h, lineDependency_nil]
  · simp [h, lineDependency_nil]

/-! ## the alias table and the meaning of a diagram, unpacked -/

theorem aliasTable_cons (l : DLine) (d : List DLine) :
    aliasTable (l :: d) = (match l with | .decl _ n (some a) => [(a, n)] | _ => []) ++ aliasTable d := by
  cases l with
  | decl f n al => cases al <;> simp [aliasTable]
  | arrow f a b => simp [aliasTable]

theorem inlineModule_alias (r : DRef) :
    r.inlineModule.filterMap (fun m => m.alias.map fun a => (a, m.name)) = [] := by
  cases r <;> simp [DRef.inlineModule]

theorem aliasTable_mods (d : List DLine) :
    (d.flatMap DLine.mods).filterMap (fun m => m.alias.map fun a => (a, m.name)) = aliasTable d := by
  induction d with
  | nil => rfl
  | cons l d ih =>
    rw [List.flatMap_cons, List.filterMap_append, ih, aliasTable_cons]
    congr 1
    cases l with
    | decl f n al => cases al <;> simp [DLine.mods]
    | arrow f a b => simp only [DLine.mods]; exact inlineModule_alias _

theorem mem_aliasTable (d : List DLine) (a n : Str) :
    (a, n) ∈ aliasTable d ↔ ∃ f, DLine.decl f n (some a) ∈ d := by
  induction d with
  | nil => simp [aliasTable]
  | cons l d ih =>
    rw [aliasTable_cons, List.mem_append, ih]
    constructor
    · rintro (h | ⟨f, h⟩)
      · cases l with
        | decl f n' al =>
          cases al with
          | none => simp at h
          | some a' =>
            simp only [List.mem_singleton, Prod.mk.injEq] at h
            obtain ⟨rfl, rfl⟩ := h
            exact ⟨f, by simp⟩
        | arrow f a b => simp at h
      · exact ⟨f, by simp [h]⟩
    · rintro ⟨f, h⟩
      rcases List.mem_cons.1 h with h | h
      · subst h; exact .inl (by simp)
      · exact .inr ⟨f, h⟩

theorem diagramWF_iff (d : List DLine) :
    diagramWF d = true ↔ (∀ l ∈ d, l.ok (aliasTable d) = true) ∧ (∀ p ∈ aliasTable d, p.1 ∉ writtenNames d) ∧
      functionalTbl (aliasTable d) = true := by
  simp [diagramWF, and_assoc]

theorem mem_raw (d : List DLine) (wa wb : Str) :
    (wa, wb) ∈ d.filterMap DLine.raw ↔ ∃ f a b, DLine.arrow f a b ∈ d ∧ wa = a.written ∧ wb = b.written := by
  simp only [List.mem_filterMap]
  constructor
  · rintro ⟨l, hl, h⟩
    cases l with
    | decl f n al => simp [DLine.raw] at h
    | arrow f a b =>
      simp only [DLine.raw, Option.some.injEq, Prod.mk.injEq] at h
      exact ⟨f, a, b, hl, h.1.symm, h.2.symm⟩
  · rintro ⟨f, a, b, hl, rfl, rfl⟩
    exact ⟨_, hl, rfl⟩

theorem mem_diagramArrows (d : List DLine) (x y : Str) :
    (x, y) ∈ diagramArrows d ↔
      ∃ f a b, DLine.arrow f a b ∈ d ∧ x = a.resolve (aliasTable d) ∧ y = b.resolve (aliasTable d) := by
  simp only [diagramArrows, List.mem_filterMap]
  constructor
  · rintro ⟨l, hl, h⟩
    cases l with
    | decl f n al => simp at h
    | arrow f a b =>
      simp only [Option.some.injEq, Prod.mk.injEq] at h
      exact ⟨f, a, b, hl, h.1.symm, h.2.symm⟩
  · rintro ⟨f, a, b, hl, rfl, rfl⟩
    exact ⟨_, hl, rfl⟩

theorem mem_diagramComponents (d : List DLine) (x : Str) :
    x ∈ diagramComponents d ↔ (∃ f al, DLine.decl f x al ∈ d) ∨
      ∃ f a b, DLine.arrow f a b ∈ d ∧ (x = a.resolve (aliasTable d) ∨ x = b.resolve (aliasTable d)) := by
  simp only [diagramComponents, List.mem_flatMap]
  constructor
  · rintro ⟨l, hl, h⟩
    cases l with
    | decl f n al =>
      simp only [List.mem_singleton] at h
      subst h
      exact .inl ⟨f, al, hl⟩
    | arrow f a b =>
      simp only [List.mem_cons, List.not_mem_nil, or_false] at h
      exact .inr ⟨f, a, b, hl, h⟩
  · rintro (⟨f, al, hl⟩ | ⟨f, a, b, hl, h⟩)
    · exact ⟨_, hl, by simp⟩
    · exact ⟨_, hl, by simpa using h⟩

theorem mem_writtenNames_decl (d : List DLine) (f : DeclForm) (n : Str) (al : Option Str)
    (h : DLine.decl f n al ∈ d) : n ∈ writtenNames d := by
  simp only [writtenNames, List.mem_flatMap]
  exact ⟨_, h, by simp⟩

theorem mem_writtenNames_arrow (d : List DLine) (f : ArrowForm) (a b : DRef) (n : Str)
    (h : DLine.arrow f a b ∈ d) (hn : n ∈ a.names ∨ n ∈ b.names) : n ∈ writtenNames d := by
  simp only [writtenNames, List.mem_flatMap]
  exact ⟨_, h, by simpa using hn⟩

/-! ## consequences of well-formedness -/

structure WF (d : List DLine) : Prop where
  ok : ∀ l ∈ d, l.ok (aliasTable d) = true
  fresh : ∀ p ∈ aliasTable d, p.1 ∉ writtenNames d
  functional : functionalTbl (aliasTable d) = true

theorem WF.of (d : List DLine) (h : diagramWF d = true) : WF d :=
  let ⟨h1, h2, h3⟩ := (diagramWF_iff d).1 h
  ⟨h1, h2, h3⟩

theorem WF.alias_nameLike {d : List DLine} (w : WF d) (a n : Str) (h : (a, n) ∈ aliasTable d) : NameLike a := by
  obtain ⟨f, hf⟩ := (mem_aliasTable d a n).1 h
  have := w.ok _ hf
  simp only [DLine.ok, Bool.and_eq_true] at this
  exact nameOK_nameLike (wordOK_nameOK this.2.1)

theorem WF.ref_nameLike {d : List DLine} (w : WF d) (r : DRef) (h : r.ok (aliasTable d) = true) :
    NameLike r.written := by
  cases r with
  | bare n => exact nameOK_nameLike h
  | bracketed n => exact nameOK_nameLike h
  | viaAlias a =>
    simp only [DRef.ok, List.any_eq_true, beq_iff_eq] at h
    obtain ⟨p, hp, rfl⟩ := h
    exact w.alias_nameLike p.1 p.2 hp

theorem WF.localOK {d : List DLine} (w : WF d) (l : DLine) (hl : l ∈ d) : l.localOK := by
  have h := w.ok l hl
  cases l with
  | decl f n al =>
    simp only [DLine.ok, Bool.and_eq_true] at h
    refine ⟨nameOK_nameLike h.1, ?_⟩
    rintro a rfl
    simp only [Bool.and_eq_true, bne_iff_ne, ne_eq] at h
    exact ⟨nameOK_nameLike (wordOK_nameOK h.2.1), h.2.2⟩
  | arrow f a b =>
    simp only [DLine.ok, Bool.and_eq_true] at h
    exact ⟨h.1.1, w.ref_nameLike a h.1.2, w.ref_nameLike b h.2⟩

/-- unifying what is written gives the component the reference denotes -/
theorem WF.unify_ref {d : List DLine} (w : WF d) (r : DRef) (h : r.ok (aliasTable d) = true)
    (hn : ∀ n ∈ r.names, n ∈ writtenNames d) :
    unifyWith (aliasTable d) r.written = r.resolve (aliasTable d) := by
  cases r with
  | bare n =>
    refine unifyWith_miss _ _ ?_
    intro p hp hpn
    exact w.fresh p hp (by rw [hpn]; exact hn n (by simp [DRef.names]))
  | bracketed n =>
    refine unifyWith_miss _ _ ?_
    intro p hp hpn
    exact w.fresh p hp (by rw [hpn]; exact hn n (by simp [DRef.names]))
  | viaAlias a =>
    simp only [DRef.ok, List.any_eq_true, beq_iff_eq] at h
    obtain ⟨p, hp, rfl⟩ := h
    simp only [DRef.written, DRef.resolve]
    rw [unifyWith_hit _ w.functional p.1 p.2 hp, resolveStr_hit _ w.functional p.1 p.2 hp]

theorem WF.unify_arrow {d : List DLine} (w : WF d) (f : ArrowForm) (a b : DRef) (h : DLine.arrow f a b ∈ d) :
    unifyWith (aliasTable d) a.written = a.resolve (aliasTable d) ∧
    unifyWith (aliasTable d) b.written = b.resolve (aliasTable d) := by
  have hok := w.ok _ h
  simp only [DLine.ok, Bool.and_eq_true] at hok
  exact ⟨w.unify_ref a hok.1.2 (fun n hn => mem_writtenNames_arrow d f a b n h (.inl hn)),
    w.unify_ref b hok.2 (fun n hn => mem_writtenNames_arrow d f a b n h (.inr hn))⟩

/-- the names the declaration recogniser finds are components of the diagram -/
theorem mem_mods_name (d : List DLine) (x : Str) :
    (∃ m ∈ d.flatMap DLine.mods, m.name = x) ↔ (∃ f al, DLine.decl f x al ∈ d) ∨
      ∃ f a b, DLine.arrow f a b ∈ d ∧ lastRef f a b = .bracketed x := by
  simp only [List.mem_flatMap]
  constructor
  · rintro ⟨m, ⟨l, hl, hm⟩, rfl⟩
    cases l with
    | decl f n al =>
      simp only [DLine.mods, List.mem_singleton] at hm
      subst hm
      exact .inl ⟨f, al, hl⟩
    | arrow f a b =>
      right
      refine ⟨f, a, b, hl, ?_⟩
      simp only [DLine.mods] at hm
      cases hr : lastRef f a b with
      | bare n => rw [hr] at hm; simp [DRef.inlineModule] at hm
      | viaAlias n => rw [hr] at hm; simp [DRef.inlineModule] at hm
      | bracketed n =>
        rw [hr] at hm
        simp only [DRef.inlineModule, List.mem_singleton] at hm
        subst hm; rfl
  · rintro (⟨f, al, hl⟩ | ⟨f, a, b, hl, hr⟩)
    · exact ⟨⟨x, al⟩, ⟨_, hl, by simp [DLine.mods]⟩, rfl⟩
    · exact ⟨⟨x, none⟩, ⟨_, hl, by simp [DLine.mods, hr, DRef.inlineModule]⟩, rfl⟩

/-- the alias check of the repaired parser passes on diagrams whose alias table is functional -/
theorem aliasesConsistent_mods (d : List DLine) (hf : functionalTbl (aliasTable d) = true) :
    aliasesConsistent (d.flatMap DLine.mods) = true := by
  rw [aliasesConsistent_eq_functionalTbl, aliasTable_mods]; exact hf

theorem aliasesConsistent_of_diagramWF (d : List DLine) (hwf : diagramWF d = true) :
    aliasesConsistent (d.flatMap DLine.mods) = true :=
  aliasesConsistent_mods d ((diagramWF_iff d).1 hwf).2.2

/-- L1 + L2: parsing a rendered diagram is the alias check followed by aggregating its per-line contributions -/
theorem pumlParse_diagramText_gen (n1 n2 : Str) (d : List DLine) (hd : ∀ l ∈ d, l.localOK)
    (hn : isInfix tagEnd n2 = false) :
    pumlParse (diagramText n1 d n2) =
      if aliasesConsistent (d.flatMap DLine.mods) = true then
        .ok (pumlAgg (d.flatMap DLine.mods) (d.filterMap DLine.raw))
      else .error .pumlParsingError := by
  rw [pumlParse_eq, pumlBody_diagramText n1 n2 d hd hn]
  simp only
  rw [flatMap_splitLines_body d hd, filterMap_splitLines_body d hd, flatMap_lineModules d hd,
    filterMap_lineDependency d hd]

/-- … and on a diagram in which every alias stands for one component the check passes -/
theorem pumlParse_diagramText (n1 n2 : Str) (d : List DLine) (hd : ∀ l ∈ d, l.localOK)
    (hf : functionalTbl (aliasTable d) = true) (hn : isInfix tagEnd n2 = false) :
    pumlParse (diagramText n1 d n2) = .ok (pumlAgg (d.flatMap DLine.mods) (d.filterMap DLine.raw)) := by
  rw [pumlParse_diagramText_gen n1 n2 d hd hn, if_pos (aliasesConsistent_mods d hf)]

/-- two declaration lines that give one alias to different names: the text is rejected -/
theorem pumlParse_conflict (n1 n2 : Str) (d : List DLine) (hd : ∀ l ∈ d, l.localOK)
    (hn : isInfix tagEnd n2 = false) (f1 f2 : DeclForm) (a x y : Str)
    (h1 : DLine.decl f1 x (some a) ∈ d) (h2 : DLine.decl f2 y (some a) ∈ d) (hxy : x ≠ y) :
    pumlParse (diagramText n1 d n2) = .error .pumlParsingError := by
  rw [pumlParse_diagramText_gen n1 n2 d hd hn]
  have : aliasesConsistent (d.flatMap DLine.mods) = false :=
    aliasesConsistent_false_of_conflict _ ⟨x, some a⟩ ⟨y, some a⟩ a
      (List.mem_flatMap.2 ⟨_, h1, by simp [DLine.mods]⟩) (List.mem_flatMap.2 ⟨_, h2, by simp [DLine.mods]⟩) rfl rfl hxy
  rw [this]; rfl

/-- local well-formedness needs only the per-line conditions, not functionality of the alias table -/
theorem localOK_of_ok (d : List DLine) (hok : ∀ l ∈ d, l.ok (aliasTable d) = true) : ∀ l ∈ d, l.localOK := by
  have hal : ∀ a n, (a, n) ∈ aliasTable d → NameLike a := by
    intro a n h
    obtain ⟨f, hf⟩ := (mem_aliasTable d a n).1 h
    have := hok _ hf
    simp only [DLine.ok, Bool.and_eq_true] at this
    exact nameOK_nameLike (wordOK_nameOK this.2.1)
  have href : ∀ r : DRef, r.ok (aliasTable d) = true → NameLike r.written := by
    intro r h
    cases r with
    | bare n => exact nameOK_nameLike h
    | bracketed n => exact nameOK_nameLike h
    | viaAlias a =>
      simp only [DRef.ok, List.any_eq_true, beq_iff_eq] at h
      obtain ⟨p, hp, rfl⟩ := h
      exact hal p.1 p.2 hp
  intro l hl
  have h := hok l hl
  cases l with
  | decl f n al =>
    simp only [DLine.ok, Bool.and_eq_true] at h
    refine ⟨nameOK_nameLike h.1, ?_⟩
    rintro a rfl
    simp only [Bool.and_eq_true, bne_iff_ne, ne_eq] at h
    exact ⟨nameOK_nameLike (wordOK_nameOK h.2.1), h.2.2⟩
  | arrow f a b =>
    simp only [DLine.ok, Bool.and_eq_true] at h
    exact ⟨h.1.1, href a h.1.2, href b h.2⟩

/-- ANY text whose tags are fine: two lines of the body that declare one alias for different names → rejected -/
theorem pumlParse_conflict_raw (content body l1 l2 a x y : Str)
    (hb : pumlBody (pyStrip content) = .ok body) (h1 : l1 ∈ splitLines body) (h2 : l2 ∈ splitLines body)
    (hm1 : ⟨x, some a⟩ ∈ lineModules l1) (hm2 : ⟨y, some a⟩ ∈ lineModules l2) (hxy : x ≠ y) :
    pumlParse content = .error .pumlParsingError := by
  rw [pumlParse_eq, hb]
  have : aliasesConsistent ((splitLines body).flatMap lineModules) = false :=
    aliasesConsistent_false_of_conflict _ ⟨x, some a⟩ ⟨y, some a⟩ a
      (List.mem_flatMap.2 ⟨_, h1, hm1⟩) (List.mem_flatMap.2 ⟨_, h2, hm2⟩) rfl rfl hxy
  simp only [this, Bool.false_eq_true, if_false]

/-- … and only then (given that the tags are fine) -/
theorem pumlParse_error_iff (content body : Str) (hb : pumlBody (pyStrip content) = .ok body) :
    pumlParse content = .error .pumlParsingError ↔
      ∃ l1 ∈ splitLines body, ∃ l2 ∈ splitLines body, ∃ a x y,
        ⟨x, some a⟩ ∈ lineModules l1 ∧ ⟨y, some a⟩ ∈ lineModules l2 ∧ x ≠ y := by
  constructor
  · intro h
    rw [pumlParse_eq, hb] at h
    simp only at h
    by_cases hc : aliasesConsistent ((splitLines body).flatMap lineModules) = true
    · rw [if_pos hc] at h; cases h
    · have hn : ¬ ∀ m1 ∈ (splitLines body).flatMap lineModules, ∀ m2 ∈ (splitLines body).flatMap lineModules,
          ∀ a, m1.alias = some a → m2.alias = some a → m1.name = m2.name :=
        fun hall => hc ((aliasesConsistent_iff_forall _).2 hall)
      simp only [Classical.not_forall] at hn
      obtain ⟨m1, hm1, m2, hm2, a, ha1, ha2, hne⟩ := hn
      obtain ⟨l1, hl1, hml1⟩ := List.mem_flatMap.1 hm1
      obtain ⟨l2, hl2, hml2⟩ := List.mem_flatMap.1 hm2
      refine ⟨l1, hl1, l2, hl2, a, m1.name, m2.name, ?_, ?_, hne⟩
      · rw [← ha1]; exact hml1
      · rw [← ha2]; exact hml2
  · rintro ⟨l1, h1, l2, h2, a, x, y, hm1, hm2, hxy⟩
    exact pumlParse_conflict_raw content body l1 l2 a x y hb h1 h2 hm1 hm2 hxy

/-! ## the round trip -/

theorem roundtrip_lemma (n1 n2 : Str) (d : List DLine) (hwf : diagramWF d = true)
    (hn : isInfix tagEnd n2 = false) :
    ∃ p, pumlParse (diagramText n1 d n2) = .ok p ∧
      p.modules.Nodup ∧ (∀ x, x ∈ p.modules ↔ x ∈ diagramComponents d) ∧
      (∀ x y, y ∈ p.depsOf x ↔ (x, y) ∈ diagramArrows d) ∧
      (p.dependencies.map (·.1)).Nodup ∧ (∀ kv ∈ p.dependencies, kv.2.Nodup ∧ kv.2 ≠ []) := by
  have w := WF.of d hwf
  refine ⟨_, pumlParse_diagramText n1 n2 d w.localOK w.functional hn, ?_⟩
  have hspec := pumlAgg_spec (d.flatMap DLine.mods) (d.filterMap DLine.raw)
  simp only [aliasTable_mods] at hspec
  obtain ⟨hok, hnodup, hdeps, hmods⟩ := hspec
  refine ⟨hnodup, ?_, ?_, hok.1, hok.2⟩
  · intro x
    rw [hmods, mem_diagramComponents, mem_mods_name]
    constructor
    · rintro ((h | ⟨f, a, b, hl, hr⟩) | ⟨wa, wb, hraw, h⟩)
      · exact .inl h
      · right
        refine ⟨f, a, b, hl, ?_⟩
        unfold lastRef at hr
        split at hr
        · right; rw [hr]; rfl
        · left; rw [hr]; rfl
      · obtain ⟨f, a, b, hl, rfl, rfl⟩ := (mem_raw d wa wb).1 hraw
        obtain ⟨ha, hb⟩ := w.unify_arrow f a b hl
        rw [ha, hb] at h
        exact .inr ⟨f, a, b, hl, h⟩
    · rintro (h | ⟨f, a, b, hl, h⟩)
      · exact .inl (.inl h)
      · obtain ⟨ha, hb⟩ := w.unify_arrow f a b hl
        refine .inr ⟨a.written, b.written, (mem_raw d _ _).2 ⟨f, a, b, hl, rfl, rfl⟩, ?_⟩
        rw [ha, hb]; exact h
  · intro x y
    rw [hdeps, mem_diagramArrows]
    constructor
    · rintro ⟨wa, wb, hraw, rfl, rfl⟩
      obtain ⟨f, a, b, hl, rfl, rfl⟩ := (mem_raw d wa wb).1 hraw
      obtain ⟨ha, hb⟩ := w.unify_arrow f a b hl
      exact ⟨f, a, b, hl, ha, hb⟩
    · rintro ⟨f, a, b, hl, rfl, rfl⟩
      obtain ⟨ha, hb⟩ := w.unify_arrow f a b hl
      exact ⟨a.written, b.written, (mem_raw d _ _).2 ⟨f, a, b, hl, rfl, rfl⟩, ha.symm, hb.symm⟩

/-- evaluation of `pumlParse` on a concrete text without running the tag search in the kernel -/
theorem pumlParse_concrete (text x body n2 : Str)
    (h1 : pyStrip text = x ++ (tagStart ++ (body ++ (tagEnd ++ n2))))
    (hb : isInfix tagStart (tagStart ++ body).tail = false) (hn : isInfix tagEnd n2 = false) (hne : body ≠ [])
    (hc : aliasesConsistent ((splitLines body).flatMap lineModules) = true) :
    pumlParse text =
      .ok (pumlAgg ((splitLines body).flatMap lineModules) ((splitLines body).filterMap lineDependency)) := by
  rw [pumlParse_eq, h1, pumlBody_block_gen x body n2 hb hn hne]
  simp only [hc, if_true]

/-- … and of the rejection of a text whose body declares one alias for two components -/
theorem pumlParse_concrete_conflict (text x body n2 : Str)
    (h1 : pyStrip text = x ++ (tagStart ++ (body ++ (tagEnd ++ n2))))
    (hb : isInfix tagStart (tagStart ++ body).tail = false) (hn : isInfix tagEnd n2 = false) (hne : body ≠ [])
    (hc : aliasesConsistent ((splitLines body).flatMap lineModules) = false) :
    pumlParse text = .error .pumlParsingError := by
  rw [pumlParse_eq, h1, pumlBody_block_gen x body n2 hb hn hne]
  simp only [hc, Bool.false_eq_true, if_false]

/-! ## L4: no tags, no diagram -/

theorem no_tags_lemma (content : Str)
    (h : isInfix "@startuml".toList content = false ∨ isInfix "@enduml".toList content = false) :
    pumlParse content = .error .pumlParsingError := by
  rw [pumlParse_eq]
  rcases h with h | h
  · rw [pumlBody_no_start _ (isInfix_false_of_infix h (pyStrip_infix content))]
  · rw [pumlBody_no_end _ (isInfix_false_of_infix h (pyStrip_infix content))]

/-! ## the meaning depends on the SET of lines only -/

/-- same lines, in any order and multiplicity -/
def SameLines (d d' : List DLine) : Prop := ∀ l, l ∈ d ↔ l ∈ d'

theorem SameLines.mem_tbl {d d' : List DLine} (h : SameLines d d') (p : Str × Str) :
    p ∈ aliasTable d ↔ p ∈ aliasTable d' := by
  obtain ⟨a, n⟩ := p
  rw [mem_aliasTable, mem_aliasTable]
  constructor <;> rintro ⟨f, hf⟩
  · exact ⟨f, (h _).1 hf⟩
  · exact ⟨f, (h _).2 hf⟩

theorem SameLines.mem_names {d d' : List DLine} (h : SameLines d d') (n : Str) :
    n ∈ writtenNames d ↔ n ∈ writtenNames d' := by
  simp only [writtenNames, List.mem_flatMap]
  constructor <;> rintro ⟨l, hl, hn⟩
  · exact ⟨l, (h l).1 hl, hn⟩
  · exact ⟨l, (h l).2 hl, hn⟩

theorem DRef.ok_congr (tbl tbl' : List (Str × Str)) (h : ∀ p, p ∈ tbl ↔ p ∈ tbl') (r : DRef) :
    r.ok tbl = r.ok tbl' := by
  cases r with
  | bare n => rfl
  | bracketed n => rfl
  | viaAlias a =>
    simp only [DRef.ok]
    rw [Bool.eq_iff_iff, List.any_eq_true, List.any_eq_true]
    constructor <;> rintro ⟨p, hp, hpa⟩
    · exact ⟨p, (h p).1 hp, hpa⟩
    · exact ⟨p, (h p).2 hp, hpa⟩

theorem DLine.ok_congr (tbl tbl' : List (Str × Str)) (h : ∀ p, p ∈ tbl ↔ p ∈ tbl') (l : DLine) :
    l.ok tbl = l.ok tbl' := by
  cases l with
  | decl f n al => rfl
  | arrow f a b => simp only [DLine.ok, DRef.ok_congr tbl tbl' h]

theorem functionalTbl_congr (tbl tbl' : List (Str × Str)) (h : ∀ p, p ∈ tbl ↔ p ∈ tbl')
    (hf : functionalTbl tbl = true) : functionalTbl tbl' = true := by
  rw [functionalTbl_iff] at hf ⊢
  intro p hp q hq
  exact hf p ((h p).2 hp) q ((h q).2 hq)

theorem resolveStr_miss (tbl : List (Str × Str)) (x : Str) (h : ∀ p ∈ tbl, p.1 ≠ x) : resolveStr tbl x = x := by
  unfold resolveStr
  have : tbl.find? (·.1 == x) = none := by
    rw [List.find?_eq_none]
    intro p hp
    simpa using h p hp
  rw [this]

theorem resolveStr_congr (tbl tbl' : List (Str × Str)) (h : ∀ p, p ∈ tbl ↔ p ∈ tbl')
    (hf : functionalTbl tbl = true) (x : Str) : resolveStr tbl x = resolveStr tbl' x := by
  by_cases hx : ∃ p ∈ tbl, p.1 = x
  · obtain ⟨p, hp, rfl⟩ := hx
    rw [resolveStr_hit tbl hf p.1 p.2 hp,
      resolveStr_hit tbl' (functionalTbl_congr tbl tbl' h hf) p.1 p.2 ((h p).1 hp)]
  · have h1 : ∀ p ∈ tbl, p.1 ≠ x := fun p hp hpx => hx ⟨p, hp, hpx⟩
    have h2 : ∀ p ∈ tbl', p.1 ≠ x := fun p hp hpx => hx ⟨p, (h p).2 hp, hpx⟩
    rw [resolveStr_miss tbl x h1, resolveStr_miss tbl' x h2]

theorem DRef.resolve_congr (tbl tbl' : List (Str × Str)) (h : ∀ p, p ∈ tbl ↔ p ∈ tbl')
    (hf : functionalTbl tbl = true) (r : DRef) : r.resolve tbl = r.resolve tbl' := by
  cases r with
  | bare n => rfl
  | bracketed n => rfl
  | viaAlias a => exact resolveStr_congr tbl tbl' h hf a

theorem SameLines.wf {d d' : List DLine} (h : SameLines d d') (hwf : diagramWF d = true) :
    diagramWF d' = true := by
  obtain ⟨h1, h2, h3⟩ := (diagramWF_iff d).1 hwf
  refine (diagramWF_iff d').2 ⟨?_, ?_, functionalTbl_congr _ _ h.mem_tbl h3⟩
  · intro l hl
    rw [← DLine.ok_congr _ _ h.mem_tbl l]
    exact h1 l ((h l).2 hl)
  · intro p hp hn
    exact h2 p ((h.mem_tbl p).2 hp) ((h.mem_names p.1).2 hn)

theorem SameLines.meaning {d d' : List DLine} (h : SameLines d d') (hwf : diagramWF d = true) :
    (∀ x, x ∈ diagramComponents d ↔ x ∈ diagramComponents d') ∧
    (∀ e, e ∈ diagramArrows d ↔ e ∈ diagramArrows d') := by
  have hf := ((diagramWF_iff d).1 hwf).2.2
  have hr : ∀ r : DRef, r.resolve (aliasTable d) = r.resolve (aliasTable d') :=
    DRef.resolve_congr _ _ h.mem_tbl hf
  refine ⟨?_, ?_⟩
  · intro x
    rw [mem_diagramComponents, mem_diagramComponents]
    constructor
    · rintro (⟨f, al, hl⟩ | ⟨f, a, b, hl, hx⟩)
      · exact .inl ⟨f, al, (h _).1 hl⟩
      · exact .inr ⟨f, a, b, (h _).1 hl, by rw [← hr a, ← hr b]; exact hx⟩
    · rintro (⟨f, al, hl⟩ | ⟨f, a, b, hl, hx⟩)
      · exact .inl ⟨f, al, (h _).2 hl⟩
      · exact .inr ⟨f, a, b, (h _).2 hl, by rw [hr a, hr b]; exact hx⟩
  · rintro ⟨x, y⟩
    rw [mem_diagramArrows, mem_diagramArrows]
    constructor
    · rintro ⟨f, a, b, hl, hx, hy⟩
      exact ⟨f, a, b, (h _).1 hl, by rw [← hr a]; exact hx, by rw [← hr b]; exact hy⟩
    · rintro ⟨f, a, b, hl, hx, hy⟩
      exact ⟨f, a, b, (h _).2 hl, by rw [hr a]; exact hx, by rw [hr b]; exact hy⟩

end Pta
