/-
  PtaProofs.Lemmas.BatchThree — audit finding F13: the three-valued versions of the batching theorems of Props/C11.lean.
  A rule with several subjects (several objects, for plain should / should_not rules) compared with its single-subject
  (single-object) rules: which error the batch raises, and when it fails.

  Errors are not raised "by the first member in list order": the regex conversion of ALL subjects and objects precedes every
  lookup, so a no-match error of any member wins over a lookup error of any other member; all errors win over a failure.
-/
import Bridge.Abs
import PtaProofs.Lemmas.Expansion
import PtaProofs.Lemmas.QueryErr
import PtaProofs.Lemmas.RuleBasics
namespace Pta.Batch
open Pta

/-! ### generic combination -/

/-- how the verdicts of the members combine, stated for an arbitrary verdict function `M` on filter lists -/
theorem err_generic (M : List Filter → VClass) (C A : List Filter → Prop) (L : List Filter) (_hne : L ≠ [])
    (hC : C L ↔ ∀ x ∈ L, C [x]) (hA : A L ↔ ∀ x ∈ L, A [x])
    (him : ∀ L', M L' = .err .impossibleMatch ↔ ¬ C L') (hle : ∀ L', M L' = .err .lookupError ↔ C L' ∧ ¬ A L')
    (hk : ∀ L' k, M L' = .err k → k = .impossibleMatch ∨ k = .lookupError) (k : ErrKind) :
    M L = .err k ↔ (∃ x ∈ L, M [x] = .err k) ∧ (k = .lookupError → ∀ x ∈ L, M [x] ≠ .err .impossibleMatch) := by
  by_cases h1 : k = .impossibleMatch
  · subst h1
    simp only [him, hC, reduceCtorEq, false_imp_iff, and_true]
    constructor
    · intro h
      apply Classical.byContradiction
      intro hc
      exact h fun x hx => Classical.byContradiction fun hx' => hc ⟨x, hx, hx'⟩
    · rintro ⟨x, hx, hx'⟩ hall; exact hx' (hall x hx)
  · by_cases h2 : k = .lookupError
    · subst h2
      rw [hle L]
      constructor
      · rintro ⟨hc, ha⟩
        have hc' := hC.1 hc
        refine ⟨?_, fun _ x hx h => ((him [x]).1 h) (hc' x hx)⟩
        apply Classical.byContradiction
        intro hcon
        exact ha (hA.2 fun x hx => Classical.byContradiction fun hx' => hcon ⟨x, hx, (hle [x]).2 ⟨hc' x hx, hx'⟩⟩)
      · rintro ⟨⟨x, hx, h⟩, hall⟩
        have hc : C L := hC.2 fun y hy => Classical.byContradiction fun hn => hall rfl y hy ((him [y]).2 hn)
        exact ⟨hc, fun ha => ((hle [x]).1 h).2 (hA.1 ha x hx)⟩
    · constructor
      · intro h; rcases hk L k h with h | h <;> contradiction
      · rintro ⟨⟨x, _, h⟩, _⟩; rcases hk [x] k h with h | h <;> contradiction

/-- the configuration checks in front of the matcher are the same for the batch and for every member -/
def wrap (c i : Bool) (m : VClass) : VClass :=
  if c then .err .improperlyConfigured else if i then .err .ruleInconsistency else m

theorem err_wrap (M : List Filter → VClass) (L : List Filter) (hne : L ≠ []) (c i : Bool)
    (h : ∀ k, M L = .err k ↔ (∃ x ∈ L, M [x] = .err k) ∧ (k = .lookupError → ∀ x ∈ L, M [x] ≠ .err .impossibleMatch))
    (k : ErrKind) :
    wrap c i (M L) = .err k ↔
      (∃ x ∈ L, wrap c i (M [x]) = .err k) ∧ (k = .lookupError → ∀ x ∈ L, wrap c i (M [x]) ≠ .err .impossibleMatch) := by
  obtain ⟨x0, hx0⟩ := List.exists_mem_of_ne_nil L hne
  cases c
  · cases i
    · simpa [wrap] using h k
    · simp only [wrap, Bool.false_eq_true, if_false, if_true, VClass.err.injEq, ne_eq, reduceCtorEq, not_false_eq_true,
        implies_true, and_true]
      exact ⟨fun h => ⟨x0, hx0, h⟩, fun ⟨_, _, h⟩ => h⟩
  · simp only [wrap, if_true, VClass.err.injEq, ne_eq, reduceCtorEq, not_false_eq_true, implies_true, and_true]
    exact ⟨fun h => ⟨x0, hx0, h⟩, fun ⟨_, _, h⟩ => h⟩

/-- from "passes iff all members pass" and the error combination: the batch fails iff no member raises and some fails;
    it raises iff some member raises -/
theorem fail_generic (V : List Filter → VClass) (L : List Filter)
    (hp : V L = .pass ↔ ∀ x ∈ L, V [x] = .pass)
    (he : ∀ k, V L = .err k ↔ (∃ x ∈ L, V [x] = .err k) ∧ (k = .lookupError → ∀ x ∈ L, V [x] ≠ .err .impossibleMatch)) :
    ((∃ k, V L = .err k) ↔ ∃ x ∈ L, ∃ k, V [x] = .err k) ∧
    (V L = .fail ↔ (∀ x ∈ L, ∀ k, V [x] ≠ .err k) ∧ ∃ x ∈ L, V [x] = .fail) := by
  have herr : (∃ k, V L = .err k) ↔ ∃ x ∈ L, ∃ k, V [x] = .err k := by
    constructor
    · rintro ⟨k, hk⟩
      obtain ⟨⟨x, hx, h⟩, _⟩ := (he k).1 hk
      exact ⟨x, hx, k, h⟩
    · rintro ⟨x, hx, k, h⟩
      by_cases hl : k = .lookupError
      · subst hl
        by_cases him : ∃ y ∈ L, V [y] = .err .impossibleMatch
        · obtain ⟨y, hy, h'⟩ := him
          exact ⟨_, (he .impossibleMatch).2 ⟨⟨y, hy, h'⟩, fun hh => by cases hh⟩⟩
        · exact ⟨_, (he .lookupError).2 ⟨⟨x, hx, h⟩, fun _ y hy h' => him ⟨y, hy, h'⟩⟩⟩
      · exact ⟨k, (he k).2 ⟨⟨x, hx, h⟩, fun hh => absurd hh hl⟩⟩
  refine ⟨herr, ?_⟩
  constructor
  · intro hf
    have hnp : ¬ ∀ x ∈ L, V [x] = .pass := fun hall => by rw [hp.2 hall] at hf; cases hf
    have hne : ¬ ∃ x ∈ L, ∃ k, V [x] = .err k := fun hex => by
      obtain ⟨k, hk⟩ := herr.2 hex; rw [hk] at hf; cases hf
    refine ⟨fun x hx k hk => hne ⟨x, hx, k, hk⟩, ?_⟩
    apply Classical.byContradiction
    intro hcon
    apply hnp
    intro x hx
    cases hv : V [x] with
    | pass => rfl
    | fail => exact absurd ⟨x, hx, hv⟩ hcon
    | err k => exact absurd ⟨x, hx, k, hv⟩ hne
  · rintro ⟨hne, x, hx, hf⟩
    cases hv : V L with
    | pass => rw [hp.1 hv x hx] at hf; cases hf
    | fail => rfl
    | err k =>
      obtain ⟨y, hy, k', hk'⟩ := herr.1 ⟨k, hv⟩
      exact absurd hk' (hne y hy k')

/-! ### the queries succeed iff they succeed for every subject -/

/-- the demands on one (expanded) subject, with arbitrary predicates on the two query results -/
def QG (PE PO : List (Str × Str) → Prop) (g : PGraph Str) (b : Behavior) (ir : Bool) (O : List Filter) (s : Filter) :
    Prop :=
  ((b.explReq || b.explForb) = true → ∀ o ∈ O, ∃ d,
      depBetween g (if ir = true then s else o) (if ir = true then o else s) = .ok d ∧ PE d) ∧
  ((b.otherReq || b.otherForb) = true → ∃ d,
      (if ir = true then otherFrom g s (dedup O) else otherTo g (dedup O) s) = .ok d ∧ PO d)

theorem qgen_iff (PE PO : List (Str × Str) → Prop) (g : PGraph Str) (b : Behavior) (ir : Bool) (S O : List Filter) :
    (∃ expl other, runQueries g b ir S O = .ok (expl, other) ∧
        (∀ e, expl = some e → ∀ kd ∈ e, PE kd.2) ∧ (∀ e, other = some e → ∀ kd ∈ e, PO kd.2)) ↔
      ∀ s ∈ S, QG PE PO g b ir O s := by
  simp only [runQueries_ok_iff, QG]
  refine (exists_pair_split _ _ _ _).trans ?_
  rw [opt_part, opt_part]
  have e1 := getDependencies_all g (if ir = true then S else O) (if ir = true then O else S) PE
  have e2 := getOtherFrom_all g S O PO
  have e3 := getOtherTo_all g O S PO
  cases ir
  · simp only [Bool.false_eq_true, if_false] at e1 ⊢
    rw [e1, e3]
    constructor
    · rintro ⟨h1, h2⟩ s hs; exact ⟨fun c o ho => h1 c o ho s hs, fun c => h2 c s hs⟩
    · intro h; exact ⟨fun c o ho s hs => (h s hs).1 c o ho, fun c s hs => (h s hs).2 c⟩
  · simp only [if_true] at e1 ⊢
    rw [e1, e2]
    constructor
    · rintro ⟨h1, h2⟩ s hs; exact ⟨fun c o ho => h1 c s hs o ho, fun c => h2 c s hs⟩
    · intro h; exact ⟨fun c s hs o ho => (h s hs).1 c o ho, fun c s hs => (h s hs).2 c⟩

/-- "the queries for subject `s` raise nothing" -/
def Qok (g : PGraph Str) (b : Behavior) (ir : Bool) (O : List Filter) (s : Filter) : Prop :=
  QG (fun _ => True) (fun _ => True) g b ir O s

theorem runQueries_ok_iff_Qok (g : PGraph Str) (b : Behavior) (ir : Bool) (S O : List Filter) :
    (∃ eo, runQueries g b ir S O = .ok eo) ↔ ∀ s ∈ S, Qok g b ir O s := by
  unfold Qok
  rw [← qgen_iff]
  constructor
  · rintro ⟨⟨e, o⟩, h⟩; exact ⟨e, o, h, fun _ _ _ _ => trivial, fun _ _ _ _ => trivial⟩
  · rintro ⟨e, o, h, _⟩; exact ⟨_, h⟩

/-! ### error characterisation of the matcher -/

/-- "the regex conversion of `L` succeeds" -/
def Cv (mt : Str → Str → Bool) (g : PGraph Str) (L : List Filter) : Prop := ∃ S, convertFilters mt g.nodes L = .ok S

theorem Cv_batch (mt : Str → Str → Bool) (g : PGraph Str) (L : List Filter) :
    Cv mt g L ↔ ∀ x ∈ L, Cv mt g [x] := by
  have := conv_batch mt g.nodes L (fun _ => True)
  simp only [implies_true, and_true] at this
  exact this

theorem not_Cv (mt : Str → Str → Bool) (g : PGraph Str) (L : List Filter) :
    ¬ Cv mt g L ↔ convertFilters mt g.nodes L = .error .impossibleMatch := by
  unfold Cv
  cases h : convertFilters mt g.nodes L with
  | ok S => simp
  | error k => rw [Hist.convertFilters_err _ _ _ _ h]; simp

theorem matchRule_err_iff (mt : Str → Str → Bool) (g : PGraph Str) (b : Behavior) (ir : Bool) (A B : List Filter) :
    ((matchRule mt g b ir A B).cls = .err .impossibleMatch ↔ ¬ (Cv mt g A ∧ Cv mt g B)) ∧
    ((matchRule mt g b ir A B).cls = .err .lookupError ↔
      ∃ S O, convertFilters mt g.nodes A = .ok S ∧ convertFilters mt g.nodes B = .ok O ∧ ¬ ∀ s ∈ S, Qok g b ir O s) := by
  unfold matchRule Cv
  cases hA : convertFilters mt g.nodes A with
  | error k => rw [Hist.convertFilters_err _ _ _ _ hA]; simp [Verdict.cls]
  | ok S =>
    cases hB : convertFilters mt g.nodes B with
    | error k => rw [Hist.convertFilters_err _ _ _ _ hB]; simp [Verdict.cls]
    | ok O =>
      simp only [Except.ok.injEq, exists_eq', and_self, not_true_eq_false, iff_false, exists_and_left, exists_eq_left']
      rw [← runQueries_ok_iff_Qok]
      cases hq : runQueries g b ir S O with
      | error k =>
        rw [Hist.runQueries_err _ _ _ _ _ _ hq]
        simp [Verdict.cls]
      | ok eo =>
        obtain ⟨e, o⟩ := eo
        simp only
        split <;> simp [Verdict.cls]

theorem matchRule_err_kind (mt : Str → Str → Bool) (g : PGraph Str) (b : Behavior) (ir : Bool) (A B : List Filter)
    (k : ErrKind) (h : (matchRule mt g b ir A B).cls = .err k) : k = .impossibleMatch ∨ k = .lookupError := by
  cases hm : matchRule mt g b ir A B with
  | pass => rw [hm] at h; cases h
  | fail l => rw [hm] at h; cases h
  | err k' =>
    rw [hm] at h
    simp only [Verdict.cls, VClass.err.injEq] at h
    subst h
    exact Hist.matchRule_err mt g b ir A B k' hm

/-! ### several subjects -/

theorem matchRule_batch_subjects_err (mt : Str → Str → Bool) (g : PGraph Str) (b : Behavior) (ir : Bool)
    (subs objs : List Filter) (hne : subs ≠ []) (k : ErrKind) :
    (matchRule mt g b ir subs objs).cls = .err k ↔
      (∃ x ∈ subs, (matchRule mt g b ir [x] objs).cls = .err k) ∧
      (k = .lookupError → ∀ x ∈ subs, (matchRule mt g b ir [x] objs).cls ≠ .err .impossibleMatch) := by
  cases hO : convertFilters mt g.nodes objs with
  | error k' =>
    -- every rule raises the no-match error
    have hall : ∀ L, (matchRule mt g b ir L objs).cls = .err .impossibleMatch := by
      intro L
      apply (matchRule_err_iff mt g b ir L objs).1.2
      rintro ⟨_, S, hS⟩
      rw [hO] at hS; cases hS
    obtain ⟨x0, hx0⟩ := List.exists_mem_of_ne_nil subs hne
    simp only [hall, VClass.err.injEq, ne_eq, not_true_eq_false]
    constructor
    · intro h; subst h; exact ⟨⟨x0, hx0, rfl⟩, fun h => by cases h⟩
    · rintro ⟨⟨_, _, h⟩, _⟩; exact h
  | ok O =>
    apply err_generic (fun L => (matchRule mt g b ir L objs).cls) (Cv mt g)
      (fun L => ∃ S, convertFilters mt g.nodes L = .ok S ∧ ∀ s ∈ S, Qok g b ir O s) subs hne
    · exact Cv_batch mt g subs
    · exact conv_batch mt g.nodes subs (Qok g b ir O)
    · intro L
      rw [(matchRule_err_iff mt g b ir L objs).1]
      have : Cv mt g objs := ⟨O, hO⟩
      simp only [this, and_true]
    · intro L
      rw [(matchRule_err_iff mt g b ir L objs).2]
      simp only [hO, Except.ok.injEq, exists_and_left, exists_eq_left', Cv]
      constructor
      · rintro ⟨S, hS, hn⟩
        refine ⟨⟨S, hS⟩, ?_⟩
        rintro ⟨S', hS', hall⟩
        rw [hS] at hS'; cases hS'
        exact hn hall
      · rintro ⟨⟨S, hS⟩, hn⟩
        exact ⟨S, hS, fun hall => hn ⟨S, hS, hall⟩⟩
    · intro L k'; exact matchRule_err_kind mt g b ir L objs k'

theorem verdictOf_eq_wrap (mt : Str → Str → Bool) (g : PGraph Str) (s o n d e : Bool) (A B : List Filter) :
    verdictOf mt g (mkRule s o n d e A B) =
      wrap ((!(s || o || n)) || A.isEmpty || B.isEmpty) (Behavior.mk s o n e).inconsistent
        (matchRule mt g ⟨s, o, n, e⟩ d A B).cls := by
  rw [Alg.verdictOf_mkRule]; rfl

theorem isEmpty_false_of_ne {α : Type} (l : List α) (h : l ≠ []) : l.isEmpty = false := by
  cases l with
  | nil => exact absurd rfl h
  | cons a l => rfl

theorem batch_subjects_err_lemma (mt : Str → Str → Bool) (g : PGraph Str) (s o n dir exc : Bool) (subs objs : List Filter)
    (hne : subs ≠ []) (k : ErrKind) :
    verdictOf mt g (mkRule s o n dir exc subs objs) = .err k ↔
      (∃ x ∈ subs, verdictOf mt g (mkRule s o n dir exc [x] objs) = .err k) ∧
      (k = .lookupError → ∀ x ∈ subs, verdictOf mt g (mkRule s o n dir exc [x] objs) ≠ .err .impossibleMatch) := by
  simp only [verdictOf_eq_wrap, isEmpty_false_of_ne subs hne, List.isEmpty_cons, Bool.or_false]
  exact err_wrap (fun L => (matchRule mt g ⟨s, o, n, exc⟩ dir L objs).cls) subs hne _ _
    (matchRule_batch_subjects_err mt g _ dir subs objs hne) k

theorem batch_subjects_three_lemma (mt : Str → Str → Bool) (g : PGraph Str) (s o n dir exc : Bool) (subs objs : List Filter)
    (hne : subs ≠ []) :
    ((∃ k, verdictOf mt g (mkRule s o n dir exc subs objs) = .err k) ↔
      ∃ x ∈ subs, ∃ k, verdictOf mt g (mkRule s o n dir exc [x] objs) = .err k) ∧
    (verdictOf mt g (mkRule s o n dir exc subs objs) = .fail ↔
      (∀ x ∈ subs, ∀ k, verdictOf mt g (mkRule s o n dir exc [x] objs) ≠ .err k) ∧
      ∃ x ∈ subs, verdictOf mt g (mkRule s o n dir exc [x] objs) = .fail) :=
  fail_generic (fun L => verdictOf mt g (mkRule s o n dir exc L objs)) subs
    (batch_subjects_lemma mt g s o n dir exc subs objs hne)
    (batch_subjects_err_lemma mt g s o n dir exc subs objs hne)

/-! ### several objects, plain should / should_not -/

theorem Qok_plain (g : PGraph Str) (neg ir : Bool) (O : List Filter) (s : Filter) :
    Qok g ⟨!neg, false, neg, false⟩ ir O s ↔ ∀ o ∈ O, ∃ d,
      depBetween g (if ir = true then s else o) (if ir = true then o else s) = .ok d := by
  unfold Qok QG
  have h1 : ((Behavior.mk (!neg) false neg false).explReq || (Behavior.mk (!neg) false neg false).explForb) = true := by
    cases neg <;> rfl
  have h2 : ((Behavior.mk (!neg) false neg false).otherReq || (Behavior.mk (!neg) false neg false).otherForb) = false := by
    cases neg <;> rfl
  simp only [h1, h2, true_imp_iff, Bool.false_eq_true, false_imp_iff, and_true]

theorem matchRule_batch_objects_err (mt : Str → Str → Bool) (g : PGraph Str) (neg ir : Bool)
    (subs objs : List Filter) (hne : objs ≠ []) (k : ErrKind) :
    (matchRule mt g ⟨!neg, false, neg, false⟩ ir subs objs).cls = .err k ↔
      (∃ y ∈ objs, (matchRule mt g ⟨!neg, false, neg, false⟩ ir subs [y]).cls = .err k) ∧
      (k = .lookupError → ∀ y ∈ objs, (matchRule mt g ⟨!neg, false, neg, false⟩ ir subs [y]).cls ≠ .err .impossibleMatch) := by
  cases hS : convertFilters mt g.nodes subs with
  | error k' =>
    have hall : ∀ L, (matchRule mt g ⟨!neg, false, neg, false⟩ ir subs L).cls = .err .impossibleMatch := by
      intro L
      apply (matchRule_err_iff mt g _ ir subs L).1.2
      rintro ⟨⟨S, hS'⟩, _⟩
      rw [hS] at hS'; cases hS'
    obtain ⟨x0, hx0⟩ := List.exists_mem_of_ne_nil objs hne
    simp only [hall, VClass.err.injEq, ne_eq, not_true_eq_false]
    constructor
    · intro h; subst h; exact ⟨⟨x0, hx0, rfl⟩, fun h => by cases h⟩
    · rintro ⟨⟨_, _, h⟩, _⟩; exact h
  | ok S =>
    apply err_generic (fun L => (matchRule mt g ⟨!neg, false, neg, false⟩ ir subs L).cls) (Cv mt g)
      (fun L => ∃ O, convertFilters mt g.nodes L = .ok O ∧ ∀ o ∈ O, ∀ s ∈ S, ∃ d,
        depBetween g (if ir = true then s else o) (if ir = true then o else s) = .ok d) objs hne
    · exact Cv_batch mt g objs
    · exact conv_batch mt g.nodes objs _
    · intro L
      rw [(matchRule_err_iff mt g _ ir subs L).1]
      have : Cv mt g subs := ⟨S, hS⟩
      simp only [this, true_and]
    · intro L
      rw [(matchRule_err_iff mt g _ ir subs L).2]
      simp only [Cv, Qok_plain]
      constructor
      · rintro ⟨S', O, hS', hO, hn⟩
        rw [hS] at hS'; cases hS'
        refine ⟨⟨O, hO⟩, ?_⟩
        rintro ⟨O', hO', hall⟩
        rw [hO] at hO'; cases hO'
        exact hn fun s hs o ho => hall o ho s hs
      · rintro ⟨⟨O, hO⟩, hn⟩
        exact ⟨S, O, hS, hO, fun hall => hn ⟨O, hO, fun o ho s hs => hall s hs o ho⟩⟩
    · intro L k'; exact matchRule_err_kind mt g _ ir subs L k'

theorem batch_objects_err_lemma (mt : Str → Str → Bool) (g : PGraph Str) (neg dir : Bool) (subs objs : List Filter)
    (hne : objs ≠ []) (k : ErrKind) :
    verdictOf mt g (mkRule (!neg) false neg dir false subs objs) = .err k ↔
      (∃ y ∈ objs, verdictOf mt g (mkRule (!neg) false neg dir false subs [y]) = .err k) ∧
      (k = .lookupError → ∀ y ∈ objs, verdictOf mt g (mkRule (!neg) false neg dir false subs [y]) ≠ .err .impossibleMatch) := by
  simp only [verdictOf_eq_wrap, isEmpty_false_of_ne objs hne, List.isEmpty_cons, Bool.or_false]
  exact err_wrap (fun L => (matchRule mt g ⟨!neg, false, neg, false⟩ dir subs L).cls) objs hne _ _
    (matchRule_batch_objects_err mt g neg dir subs objs hne) k

theorem batch_objects_three_lemma (mt : Str → Str → Bool) (g : PGraph Str) (neg dir : Bool) (subs objs : List Filter)
    (hne : objs ≠ []) :
    ((∃ k, verdictOf mt g (mkRule (!neg) false neg dir false subs objs) = .err k) ↔
      ∃ y ∈ objs, ∃ k, verdictOf mt g (mkRule (!neg) false neg dir false subs [y]) = .err k) ∧
    (verdictOf mt g (mkRule (!neg) false neg dir false subs objs) = .fail ↔
      (∀ y ∈ objs, ∀ k, verdictOf mt g (mkRule (!neg) false neg dir false subs [y]) ≠ .err k) ∧
      ∃ y ∈ objs, verdictOf mt g (mkRule (!neg) false neg dir false subs [y]) = .fail) :=
  fail_generic (fun L => verdictOf mt g (mkRule (!neg) false neg dir false subs L)) objs
    (batch_objects_lemma mt g neg dir subs objs hne)
    (batch_objects_err_lemma mt g neg dir subs objs hne)

end Pta.Batch
