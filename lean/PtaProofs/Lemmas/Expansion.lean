/-
  PtaProofs.Lemmas.Expansion — lemmas behind Props/C11.lean: regex expansion (`convertFilters` of a single regex is
  the list of matching names), and batching (a rule with several subjects / objects passes iff every single-subject /
  single-object rule passes), via a characterisation of "the rule passes" as a conjunction over expanded subjects.
-/
import Bridge.Abs
import PtaProofs.Lemmas.Worklist
import PtaProofs.Lemmas.SearchChar
import PtaProofs.Lemmas.DroppedAbsent
namespace Pta

/-! ### generic helpers -/

theorem mapM_ok_all_iff {α β ε : Type} (f : α → Except ε β) (l : List α) (P : β → Prop) :
    (∃ r, l.mapM f = .ok r ∧ ∀ y ∈ r, P y) ↔ ∀ x ∈ l, ∃ y, f x = .ok y ∧ P y := by
  induction l with
  | nil => simp [pure, Except.pure]
  | cons a l ih =>
    rw [List.mapM_cons]
    simp only [List.forall_mem_cons, ← ih]
    cases hfa : f a with
    | error e => simp [bind, Except.bind]
    | ok b =>
      cases hl : l.mapM f with
      | error e => simp [bind, Except.bind]
      | ok bs => simp [bind, Except.bind, pure, Except.pure]

/-! ### `convertFilters` -/

def convOK (mt : Str → Str → Bool) (mods : List Str) (fs : List Filter) : Prop :=
  ∀ r ∈ fs, r.isRegex = true → ∃ m ∈ mods, mt r.id m = true

def convMem (mt : Str → Str → Bool) (mods : List Str) (fs : List Filter) (y : Filter) : Prop :=
  (∃ r ∈ fs, r.isRegex = true ∧ ∃ m ∈ mods, mt r.id m = true ∧ y = .name m) ∨ (y ∈ fs ∧ y.isRegex = false)

theorem convertFilters_spec (mt : Str → Str → Bool) (mods : List Str) (fs : List Filter) :
    (convOK mt mods fs → ∃ R, convertFilters mt mods fs = .ok R ∧ ∀ y, y ∈ R ↔ convMem mt mods fs y) ∧
    (¬ convOK mt mods fs → convertFilters mt mods fs = .error .impossibleMatch) := by
  unfold convertFilters convOK
  constructor
  · intro h
    have : ((fs.filter (·.isRegex)).any fun r => !(mods.any (mt r.id))) = false := by
      rw [Bool.eq_false_iff]
      intro hh
      simp only [List.any_eq_true, List.mem_filter, Bool.not_eq_true', List.any_eq_false] at hh
      obtain ⟨r, ⟨hr, hreg⟩, hno⟩ := hh
      obtain ⟨m, hm, hmt⟩ := h r hr hreg
      exact hno m hm hmt
    simp only [this, Bool.false_eq_true, if_false]
    refine ⟨_, rfl, ?_⟩
    intro y
    simp only [List.mem_append, mem_dedup, List.mem_map, List.mem_filter, List.any_eq_true, convMem,
      Bool.not_eq_true']
    constructor
    · rintro (⟨m, ⟨hm, r, ⟨hr, hreg⟩, hmt⟩, rfl⟩ | h)
      · exact .inl ⟨r, hr, hreg, m, hm, hmt, rfl⟩
      · exact .inr h
    · rintro (⟨r, hr, hreg, m, hm, hmt, rfl⟩ | h)
      · exact .inl ⟨m, ⟨hm, r, ⟨hr, hreg⟩, hmt⟩, rfl⟩
      · exact .inr h
  · intro h
    have : ((fs.filter (·.isRegex)).any fun r => !(mods.any (mt r.id))) = true := by
      apply Classical.byContradiction
      intro hc
      apply h
      intro r hr hreg
      apply Classical.byContradiction
      intro hno
      apply hc
      simp only [List.any_eq_true, List.mem_filter, Bool.not_eq_true', List.any_eq_false]
      refine ⟨r, ⟨hr, hreg⟩, fun m hm => ?_⟩
      cases hmt : mt r.id m
      · simp
      · exact absurd ⟨m, hm, hmt⟩ hno
    simp [this]

theorem conv_batch (mt : Str → Str → Bool) (mods : List Str) (fs : List Filter) (P : Filter → Prop) :
    (∃ S, convertFilters mt mods fs = .ok S ∧ ∀ s ∈ S, P s) ↔
    ∀ x ∈ fs, ∃ Sx, convertFilters mt mods [x] = .ok Sx ∧ ∀ s ∈ Sx, P s := by
  constructor
  · rintro ⟨S, hS, hP⟩ x hx
    have hok : convOK mt mods fs := by
      by_cases h : convOK mt mods fs
      · exact h
      · rw [(convertFilters_spec mt mods fs).2 h] at hS; cases hS
    obtain ⟨R, hR, hm⟩ := (convertFilters_spec mt mods fs).1 hok
    rw [hS] at hR; cases hR
    have hokx : convOK mt mods [x] := by
      intro r hr; simp at hr; subst hr; exact hok r hx
    obtain ⟨Rx, hRx, hmx⟩ := (convertFilters_spec mt mods [x]).1 hokx
    refine ⟨Rx, hRx, ?_⟩
    intro s hs
    apply hP; rw [hm]
    rcases (hmx s).1 hs with ⟨r, hr, h⟩ | ⟨h1, h2⟩
    · simp at hr; subst hr; exact .inl ⟨r, hx, h⟩
    · simp at h1; subst h1; exact .inr ⟨hx, h2⟩
  · intro h
    have hok : convOK mt mods fs := by
      intro r hr hreg
      obtain ⟨Sx, hSx, _⟩ := h r hr
      by_cases hc : convOK mt mods [r]
      · exact hc r (by simp) hreg
      · rw [(convertFilters_spec mt mods [r]).2 hc] at hSx; cases hSx
    obtain ⟨R, hR, hm⟩ := (convertFilters_spec mt mods fs).1 hok
    refine ⟨R, hR, ?_⟩
    intro s hs
    have key : ∀ x ∈ fs, convMem mt mods [x] s → P s := by
      intro x hx hc
      obtain ⟨Sx, hSx, hPx⟩ := h x hx
      have hokx : convOK mt mods [x] := by
        intro r hr; simp at hr; subst hr; exact hok r hx
      obtain ⟨Rx, hRx, hmx⟩ := (convertFilters_spec mt mods [x]).1 hokx
      rw [hSx] at hRx; cases hRx
      exact hPx s ((hmx s).2 hc)
    rcases (hm s).1 hs with ⟨r, hr, h'⟩ | ⟨h1, h2⟩
    · exact key r hr (.inl ⟨r, by simp, h'⟩)
    · exact key s h1 (.inr ⟨by simp, h2⟩)

theorem conv_ne_nil (mt : Str → Str → Bool) (mods : List Str) (fs R : List Filter) (hne : fs ≠ [])
    (h : convertFilters mt mods fs = .ok R) : R ≠ [] := by
  have hok : convOK mt mods fs := by
    by_cases h' : convOK mt mods fs
    · exact h'
    · rw [(convertFilters_spec mt mods fs).2 h'] at h; cases h
  obtain ⟨R', hR, hm⟩ := (convertFilters_spec mt mods fs).1 hok
  rw [h] at hR; cases hR
  obtain ⟨x, hx⟩ := List.exists_mem_of_ne_nil fs hne
  cases hreg : x.isRegex
  · exact List.ne_nil_of_mem ((hm x).2 (.inr ⟨hx, hreg⟩))
  · obtain ⟨m, hm', hmt⟩ := hok x hx hreg
    exact List.ne_nil_of_mem ((hm (.name m)).2 (.inl ⟨x, hx, hreg, m, hm', hmt, rfl⟩))

/-- what a passing rule demands of one explicit query result -/
def EP (b : Behavior) (l : List (Str × Str)) : Prop :=
  (b.expExplNotPresent = true → l = []) ∧ (b.expExplPresent = true → l ≠ []) ∧
  (b.expExplAndNoOther = true → l ≠ []) ∧ (b.expExplNotButOthers = true → l = [])

/-- what a passing rule demands of one "other" query result -/
def OP (b : Behavior) (l : List (Str × Str)) : Prop :=
  (b.expExplAndNoOther = true → l = []) ∧ (b.expAtLeastOneOther = true → l ≠ []) ∧
  (b.expExplNotButOthers = true → l ≠ []) ∧ (b.expOtherNotPresent = true → l = [])

theorem realised_eq_nil (ir : Bool) {κ : Type} (deps : List (κ × List (Str × Str))) :
    realised ir deps = [] ↔ ∀ kd ∈ deps, kd.2 = [] := by
  simp [realised, List.flatMap_eq_nil_iff]

theorem abstractWithout_eq_nil (ir : Bool) (deps : ExplDeps) :
    abstractWithout ir deps = [] ↔ ∀ kd ∈ deps, kd.2 ≠ [] := by
  simp [abstractWithout, List.filter_eq_nil_iff]

theorem missingOther_eq_nil (deps : OtherDeps) (objsM : List Mod) (h : objsM ≠ []) :
    missingOther deps objsM = [] ↔ ∀ kd ∈ deps, kd.2 ≠ [] := by
  simp [missingOther, List.flatMap_eq_nil_iff, h]

theorem ite_nil_eq_nil {α : Type} (c : Prop) [Decidable c] (l : List α) :
    (if c then l else []) = [] ↔ (c → l = []) := by
  split <;> simp [*]

theorem detect_any_false (b : Behavior) (ir : Bool) (expl : Option ExplDeps) (other : Option OtherDeps)
    (objsM : List Mod) (hO : objsM ≠ []) :
    (detect b ir expl other objsM).any = false ↔
      (∀ e, expl = some e → ∀ kd ∈ e, EP b kd.2) ∧ (∀ e, other = some e → ∀ kd ∈ e, OP b kd.2) := by
  unfold Violations.any detect EP OP
  cases expl <;> cases other
  all_goals simp only [Bool.or_eq_false_iff, Bool.not_eq_false', List.isEmpty_iff, reduceCtorEq, Option.some.injEq,
    forall_eq', false_imp_iff, implies_true, true_and, and_true]
  all_goals simp only [ite_nil_eq_nil, realised_eq_nil, abstractWithout_eq_nil, missingOther_eq_nil _ _ hO]
  · grind
  · grind
  · grind

theorem bind_pure_ok_iff {ε α β : Type} (x : Except ε α) (k : α → β) (P : β → Prop) :
    (∃ y, (do let d ← x; pure (k d) : Except ε β) = .ok y ∧ P y) ↔ ∃ d, x = .ok d ∧ P (k d) := by
  cases x <;> simp [bind, Except.bind, pure, Except.pure]

theorem getDependencies_all (g : PGraph Str) (A B : List Filter) (P : List (Str × Str) → Prop) :
    (∃ e, getDependencies g A B = .ok e ∧ ∀ kd ∈ e, P kd.2) ↔
    ∀ f ∈ A, ∀ o ∈ B, ∃ d, depBetween g f o = .ok d ∧ P d := by
  unfold getDependencies
  refine (mapM_ok_all_iff _ _ (fun kd : _ × List (Str × Str) => P kd.2)).trans ?_
  simp only [bind_pure_ok_iff _ _ (fun kd : Dep × List (Str × Str) => P kd.2)]
  simp only [List.mem_flatMap, List.mem_map, mem_dedup]
  constructor
  · intro h f hf o ho; exact h (f, o) ⟨f, hf, o, ho, rfl⟩
  · rintro h ⟨f, o⟩ ⟨f', hf, o', ho, heq⟩; cases heq; exact h f hf o ho

theorem getOtherFrom_all (g : PGraph Str) (A B : List Filter) (P : List (Str × Str) → Prop) :
    (∃ e, getOtherFrom g A B = .ok e ∧ ∀ kd ∈ e, P kd.2) ↔
    ∀ f ∈ A, ∃ d, otherFrom g f (dedup B) = .ok d ∧ P d := by
  unfold getOtherFrom
  refine (mapM_ok_all_iff _ _ (fun kd : _ × List (Str × Str) => P kd.2)).trans ?_
  simp only [bind_pure_ok_iff _ _ (fun kd : Mod × List (Str × Str) => P kd.2), mem_dedup]

theorem getOtherTo_all (g : PGraph Str) (A B : List Filter) (P : List (Str × Str) → Prop) :
    (∃ e, getOtherTo g A B = .ok e ∧ ∀ kd ∈ e, P kd.2) ↔
    ∀ o ∈ B, ∃ d, otherTo g (dedup A) o = .ok d ∧ P d := by
  unfold getOtherTo
  refine (mapM_ok_all_iff _ _ (fun kd : _ × List (Str × Str) => P kd.2)).trans ?_
  simp only [bind_pure_ok_iff _ _ (fun kd : Mod × List (Str × Str) => P kd.2), mem_dedup]

/-- the demands of a passing rule on one (expanded) subject -/
def Q1 (g : PGraph Str) (b : Behavior) (ir : Bool) (O : List Filter) (s : Filter) : Prop :=
  ((b.explReq || b.explForb) = true → ∀ o ∈ O, ∃ d,
      depBetween g (if ir = true then s else o) (if ir = true then o else s) = .ok d ∧ EP b d) ∧
  ((b.otherReq || b.otherForb) = true → ∃ d,
      (if ir = true then otherFrom g s (dedup O) else otherTo g (dedup O) s) = .ok d ∧ OP b d)

theorem exists_pair_split {α β : Type} (A C : α → Prop) (B D : β → Prop) :
    (∃ x y, (A x ∧ B y) ∧ (C x ∧ D y)) ↔ (∃ x, A x ∧ C x) ∧ (∃ y, B y ∧ D y) := by
  constructor
  · rintro ⟨x, y, ⟨a, b⟩, c, d⟩; exact ⟨⟨x, a, c⟩, y, b, d⟩
  · rintro ⟨⟨x, a, c⟩, y, b, d⟩; exact ⟨x, y, ⟨a, b⟩, c, d⟩

theorem opt_part {α : Type} (c : Prop) [Decidable c] (X : Except ErrKind α) (P : α → Prop) :
    (∃ v : Option α, (if c then ∃ e, X = .ok e ∧ v = some e else v = none) ∧ ∀ e, v = some e → P e) ↔
    (c → ∃ e, X = .ok e ∧ P e) := by
  by_cases hc : c
  · simp only [hc, if_true, true_imp_iff]
    constructor
    · rintro ⟨v, ⟨e, he, rfl⟩, hp⟩; exact ⟨e, he, hp e rfl⟩
    · rintro ⟨e, he, hp⟩; exact ⟨some e, ⟨e, he, rfl⟩, fun e' h => by cases h; exact hp⟩
  · simp only [hc, if_false, false_imp_iff, iff_true]
    exact ⟨none, rfl, fun e h => by cases h⟩

theorem qpass_iff (g : PGraph Str) (b : Behavior) (ir : Bool) (S O : List Filter) (hO : O ≠ []) :
    (∃ expl other, runQueries g b ir S O = .ok (expl, other) ∧
        (detect b ir expl other (O.map Filter.toMod)).any = false) ↔ ∀ s ∈ S, Q1 g b ir O s := by
  have hO' : O.map Filter.toMod ≠ [] := by simpa using hO
  simp only [runQueries_ok_iff, detect_any_false _ _ _ _ _ hO', Q1]
  refine (exists_pair_split _ _ _ _).trans ?_
  rw [opt_part, opt_part]
  have e1 := getDependencies_all g (if ir = true then S else O) (if ir = true then O else S) (EP b)
  have e2 := getOtherFrom_all g S O (OP b)
  have e3 := getOtherTo_all g O S (OP b)
  cases ir
  · simp only [Bool.false_eq_true, if_false] at e1 ⊢
    rw [e1, e3]
    constructor
    · rintro ⟨h1, h2⟩ s hs; exact ⟨fun c o ho => h1 c o ho s hs, fun c => h2 c s hs⟩
    · intro h; exact ⟨fun c o ho s hs => (h s hs).1 c o ho, fun c s hs => (h s hs).2 c⟩
  · simp only [if_true] at e1 ⊢
    rw [e1, e2]
    constructor
    · rintro ⟨h1, h2⟩ s hs; exact ⟨fun c o ho => h1 c s hs o ho, fun c => h2 c s hs⟩
    · intro h; exact ⟨fun c s hs o ho => (h s hs).1 c o ho, fun c s hs => (h s hs).2 c⟩

/-! ### regex expansion -/

theorem dedup_of_nodup {α : Type} [DecidableEq α] (l : List α) (h : l.Nodup) : dedup l = l := by
  induction l with
  | nil => rfl
  | cons x xs ih =>
    rw [List.nodup_cons] at h
    simp only [dedup, ih h.2, h.1, if_false]

theorem startsWith_length (p s : Str) (h : startsWith p s = true) : p.length ≤ s.length := by
  induction p generalizing s with
  | nil => simp
  | cons a p ih =>
    cases s with
    | nil => simp [startsWith] at h
    | cons b s =>
      simp [startsWith] at h
      have := ih s h.2
      simp; omega

theorem isStrictSub_self (p : Str) : isStrictSub p p = false := by
  cases h : isStrictSub p p
  · rfl
  · have := startsWith_length _ _ h
    simp at this
    omega

theorem dedupSubjects_single (f : Filter) : dedupSubjects [f] = [f] := by
  simp [dedupSubjects, isStrictSub_self]

theorem filter_isRegex_names (l : List Str) : (l.map Filter.name).filter (·.isRegex) = [] := by
  induction l with
  | nil => rfl
  | cons x xs ih => simp [Filter.isRegex]

theorem filter_not_isRegex_names (l : List Str) :
    (l.map Filter.name).filter (fun f => !f.isRegex) = l.map Filter.name := by
  induction l with
  | nil => rfl
  | cons x xs ih => simp [Filter.isRegex]

theorem convertFilters_names (mt : Str → Str → Bool) (mods l : List Str) :
    convertFilters mt mods (l.map Filter.name) = .ok (l.map Filter.name) := by
  unfold convertFilters
  simp only [filter_isRegex_names, filter_not_isRegex_names]
  have : mods.filter (fun _ => false) = [] := List.filter_eq_nil_iff.2 (by simp)
  simp [this, dedup]

theorem convertFilters_regex (mt : Str → Str → Bool) (mods : List Str) (hnd : mods.Nodup) (p : Str)
    (hm : ∃ m ∈ mods, mt p m = true) :
    convertFilters mt mods [.regex p] = .ok ((mods.filter (mt p)).map Filter.name) := by
  unfold convertFilters
  have h1 : mods.any (mt p) = true := by simpa using hm
  simp only [List.filter, Filter.isRegex, List.any_cons, List.any_nil, Filter.id, Bool.or_false, h1,
    Bool.not_true, Bool.false_eq_true, if_false, List.append_nil]
  congr 1
  apply dedup_of_nodup
  refine List.Pairwise.map _ ?_ (List.Pairwise.filter _ hnd)
  intro a b hab h; cases h; exact hab rfl

theorem convertFilters_regex_nomatch (mt : Str → Str → Bool) (mods : List Str) (p : Str)
    (h : ∀ m ∈ mods, mt p m = false) :
    convertFilters mt mods [.regex p] = .error .impossibleMatch := by
  unfold convertFilters
  have h1 : mods.any (mt p) = false := by simpa using h
  simp [Filter.isRegex, Filter.id, h1]

theorem matchRule_congr_subjects (mt : Str → Str → Bool) (g : PGraph Str) (b : Behavior) (d : Bool)
    (ss ss' os : List Filter) (h : convertFilters mt g.nodes ss = convertFilters mt g.nodes ss') :
    matchRule mt g b d ss os = matchRule mt g b d ss' os := by
  unfold matchRule; rw [h]

theorem matchRule_congr (mt : Str → Str → Bool) (g : PGraph Str) (b : Behavior) (d : Bool)
    (ss ss' os os' : List Filter) (h : convertFilters mt g.nodes ss = convertFilters mt g.nodes ss')
    (h' : convertFilters mt g.nodes os = convertFilters mt g.nodes os') :
    matchRule mt g b d ss os = matchRule mt g b d ss' os' := by
  unfold matchRule; rw [h, h']

/-- `assertApplies` on a finished rule without the `anything` alias -/
theorem assertApplies_mkRule (mt : Str → Str → Bool) (g : PGraph Str) (s o n dir exc : Bool) (subs objs : List Filter) :
    (assertApplies mt (mkRule s o n dir exc subs objs) g).2 =
      if (!(s || o || n) || subs.isEmpty || objs.isEmpty) = true then .err .improperlyConfigured
      else if (Behavior.mk s o n exc).inconsistent = true then .err .ruleInconsistency
      else matchRule mt g ⟨s, o, n, exc⟩ dir subs objs := by
  unfold assertApplies mkRule
  simp only [anythingMisused, droppedAbsent, List.any_nil, convertAliases, configMissing, RuleConfig.behavior, Bool.false_and, Bool.false_eq_true,
    if_false, Bool.not_false, if_true, Option.isNone_some, Bool.or_false]
  split
  · rfl
  · split <;> rfl

theorem names_isEmpty_of_match (mt : Str → Str → Bool) (mods : List Str) (p : Str) (hm : ∃ m ∈ mods, mt p m = true) :
    ((mods.filter (mt p)).map Filter.name).isEmpty = false := by
  obtain ⟨m, hm, hp⟩ := hm
  cases h : (mods.filter (mt p)).map Filter.name with
  | nil =>
    have : m ∈ mods.filter (mt p) := List.mem_filter.2 ⟨hm, hp⟩
    simp at h
    exact absurd hp (by simpa using h m hm)
  | cons a l => rfl

theorem regex_expansion_subject_lemma (mt : Str → Str → Bool) (g : PGraph Str) (hnd : g.nodes.Nodup)
    (s o n dir exc : Bool) (p : Str) (objs : List Filter) (hm : ∃ m ∈ g.nodes, mt p m = true) :
    (assertApplies mt (mkRule s o n dir exc [.regex p] objs) g).2 =
    (assertApplies mt (mkRule s o n dir exc ((g.nodes.filter (mt p)).map .name) objs) g).2 := by
  rw [assertApplies_mkRule, assertApplies_mkRule, names_isEmpty_of_match mt g.nodes p hm]
  rw [matchRule_congr_subjects mt g _ dir [.regex p] ((g.nodes.filter (mt p)).map .name) objs
    (by rw [convertFilters_regex mt g.nodes hnd p hm, convertFilters_names])]
  rfl

theorem regex_expansion_object_lemma (mt : Str → Str → Bool) (g : PGraph Str) (hnd : g.nodes.Nodup)
    (s o n dir exc : Bool) (p : Str) (subs : List Filter) (hm : ∃ m ∈ g.nodes, mt p m = true) :
    (assertApplies mt (mkRule s o n dir exc subs [.regex p]) g).2 =
    (assertApplies mt (mkRule s o n dir exc subs ((g.nodes.filter (mt p)).map .name)) g).2 := by
  rw [assertApplies_mkRule, assertApplies_mkRule, names_isEmpty_of_match mt g.nodes p hm]
  rw [matchRule_congr mt g _ dir subs subs [.regex p] ((g.nodes.filter (mt p)).map .name) rfl
    (by rw [convertFilters_regex mt g.nodes hnd p hm, convertFilters_names])]
  rfl

theorem anything_congr (mt : Str → Str → Bool) (g : PGraph Str) (dir : Bool) (A B : List Filter)
    (hA : dedupSubjects A = A) (hB : dedupSubjects B = B) (hAe : A.isEmpty = false) (hBe : B.isEmpty = false)
    (hc : convertFilters mt g.nodes A = convertFilters mt g.nodes B) :
    (assertApplies mt { cfg := { subjects := some A, shouldNot := true, importDir := some dir, anything := true }, next := some false } g).2 =
    (assertApplies mt { cfg := { subjects := some B, shouldNot := true, importDir := some dir, anything := true }, next := some false } g).2 := by
  unfold assertApplies
  simp only [anythingMisused, droppedAbsent, convertAliases, configMissing, RuleConfig.behavior, Option.map_some, hA, hB,
    droppedSubjects_of_dedup_eq A hA, droppedSubjects_of_dedup_eq B hB]
  have hA' : A ≠ [] := by intro h; simp [h] at hAe
  have hB' : B ≠ [] := by intro h; simp [h] at hBe
  simp [hA', hB', matchRule_congr mt g _ dir _ _ _ _ hc hc]
  split <;> rfl

theorem regex_expansion_anything_lemma (mt : Str → Str → Bool) (g : PGraph Str) (hnd : g.nodes.Nodup) (dir : Bool) (p : Str)
    (hm : ∃ m ∈ g.nodes, mt p m = true)
    (hdd : dedupSubjects ((g.nodes.filter (mt p)).map Filter.name) = (g.nodes.filter (mt p)).map Filter.name) :
    (assertApplies mt { cfg := { subjects := some [.regex p], shouldNot := true, importDir := some dir, anything := true }, next := some false } g).2 =
    (assertApplies mt { cfg := { subjects := some ((g.nodes.filter (mt p)).map .name), shouldNot := true, importDir := some dir, anything := true }, next := some false } g).2 := by
  apply anything_congr mt g dir _ _ (dedupSubjects_single _) hdd rfl (names_isEmpty_of_match mt g.nodes p hm)
  rw [convertFilters_regex mt g.nodes hnd p hm, convertFilters_names]

theorem regex_no_match_lemma (mt : Str → Str → Bool) (g : PGraph Str) (s o n dir exc : Bool) (p : Str) (objs : List Filter)
    (h : ∀ m ∈ g.nodes, mt p m = false) :
    ∃ k, (assertApplies mt (mkRule s o n dir exc [.regex p] objs) g).2 = .err k := by
  rw [assertApplies_mkRule]
  split
  · exact ⟨_, rfl⟩
  · split
    · exact ⟨_, rfl⟩
    · unfold matchRule
      rw [convertFilters_regex_nomatch mt g.nodes p h]
      exact ⟨_, rfl⟩

/-! ### batching -/

theorem matchRule_pass_iff (mt : Str → Str → Bool) (g : PGraph Str) (b : Behavior) (ir : Bool)
    (subs objs : List Filter) (hO : objs ≠ []) :
    (matchRule mt g b ir subs objs).cls = .pass ↔
    ∃ S O, convertFilters mt g.nodes subs = .ok S ∧ convertFilters mt g.nodes objs = .ok O ∧
      ∀ s ∈ S, Q1 g b ir O s := by
  unfold matchRule
  cases hS : convertFilters mt g.nodes subs with
  | error k => simp [Verdict.cls]
  | ok S =>
    cases hOo : convertFilters mt g.nodes objs with
    | error k => simp [Verdict.cls]
    | ok O =>
      have hne := conv_ne_nil mt g.nodes objs O hO hOo
      simp only [Except.ok.injEq, exists_and_left, exists_eq_left']
      rw [← qpass_iff g b ir S O hne]
      cases hq : runQueries g b ir S O with
      | error k => simp [Verdict.cls]
      | ok eo =>
        obtain ⟨expl, other⟩ := eo
        simp only [Except.ok.injEq, Prod.mk.injEq]
        constructor
        · intro h
          refine ⟨expl, other, ⟨rfl, rfl⟩, ?_⟩
          cases hany : (detect b ir expl other (O.map Filter.toMod)).any
          · rfl
          · simp [hany, Verdict.cls] at h
        · rintro ⟨e, o, ⟨rfl, rfl⟩, hany⟩
          simp [hany, Verdict.cls]

theorem verdictOf_mkRule_pass (mt : Str → Str → Bool) (g : PGraph Str) (s o n dir exc : Bool) (subs objs : List Filter) :
    verdictOf mt g (mkRule s o n dir exc subs objs) = .pass ↔
    ((s || o || n) = true ∧ subs ≠ [] ∧ objs ≠ [] ∧ (Behavior.mk s o n exc).inconsistent = false) ∧
      (matchRule mt g ⟨s, o, n, exc⟩ dir subs objs).cls = .pass := by
  unfold verdictOf
  rw [assertApplies_mkRule]
  split
  · rename_i h
    simp only [Verdict.cls, reduceCtorEq, false_iff]
    rintro ⟨⟨h1, h2, h3, _⟩, _⟩
    simp [h1, h2, h3] at h
  · rename_i h
    simp only [Bool.or_eq_true, Bool.not_eq_true', List.isEmpty_iff, not_or] at h
    split
    · rename_i h'
      simp [Verdict.cls, h']
    · rename_i h'
      simp only [Bool.not_eq_true] at h' h
      simp only [h', and_true]
      constructor
      · intro hh; refine ⟨⟨?_, h.1.2, h.2⟩, hh⟩
        cases hh' : (s || o || n)
        · exact absurd hh' h.1.1
        · rfl
      · exact fun hh => hh.2

theorem batch_subjects_lemma (mt : Str → Str → Bool) (g : PGraph Str) (s o n dir exc : Bool) (subs objs : List Filter)
    (hne : subs ≠ []) :
    verdictOf mt g (mkRule s o n dir exc subs objs) = .pass ↔
    ∀ x ∈ subs, verdictOf mt g (mkRule s o n dir exc [x] objs) = .pass := by
  simp only [verdictOf_mkRule_pass]
  by_cases hO : objs = []
  · subst hO
    obtain ⟨x0, hx0⟩ := List.exists_mem_of_ne_nil subs hne
    constructor
    · rintro ⟨⟨_, _, h, _⟩, _⟩; exact absurd rfl h
    · intro h; exact absurd rfl (h x0 hx0).1.2.2.1
  simp only [matchRule_pass_iff mt g _ dir _ objs hO]
  constructor
  · rintro ⟨⟨h1, _, h3, h4⟩, S, O, hS, hOo, hQ⟩ x hx
    refine ⟨⟨h1, by simp, h3, h4⟩, ?_⟩
    obtain ⟨Sx, hSx, hQx⟩ := (conv_batch mt g.nodes subs (Q1 g ⟨s, o, n, exc⟩ dir O)).1 ⟨S, hS, hQ⟩ x hx
    exact ⟨Sx, O, hSx, hOo, hQx⟩
  · intro h
    obtain ⟨x0, hx0⟩ := List.exists_mem_of_ne_nil subs hne
    obtain ⟨⟨h1, _, h3, h4⟩, _, O, _, hOo, _⟩ := h x0 hx0
    refine ⟨⟨h1, hne, h3, h4⟩, ?_⟩
    obtain ⟨S, hS, hQ⟩ := (conv_batch mt g.nodes subs (Q1 g ⟨s, o, n, exc⟩ dir O)).2 (by
      intro x hx
      obtain ⟨_, Sx, O', hSx, hOo', hQx⟩ := h x hx
      rw [hOo] at hOo'; cases hOo'
      exact ⟨Sx, hSx, hQx⟩)
    exact ⟨S, O, hS, hOo, hQ⟩

theorem Q1_plain (g : PGraph Str) (neg ir : Bool) (O : List Filter) (s : Filter) :
    Q1 g ⟨!neg, false, neg, false⟩ ir O s ↔ ∀ o ∈ O, ∃ d,
      depBetween g (if ir = true then s else o) (if ir = true then o else s) = .ok d ∧
        EP ⟨!neg, false, neg, false⟩ d := by
  unfold Q1
  have h1 : ((Behavior.mk (!neg) false neg false).explReq || (Behavior.mk (!neg) false neg false).explForb) = true := by
    cases neg <;> rfl
  have h2 : ((Behavior.mk (!neg) false neg false).otherReq || (Behavior.mk (!neg) false neg false).otherForb) = false := by
    cases neg <;> rfl
  simp only [h1, h2, true_imp_iff, Bool.false_eq_true, false_imp_iff, and_true]

theorem batch_objects_lemma (mt : Str → Str → Bool) (g : PGraph Str) (neg dir : Bool) (subs objs : List Filter)
    (hne : objs ≠ []) :
    verdictOf mt g (mkRule (!neg) false neg dir false subs objs) = .pass ↔
    ∀ y ∈ objs, verdictOf mt g (mkRule (!neg) false neg dir false subs [y]) = .pass := by
  simp only [verdictOf_mkRule_pass]
  rw [matchRule_pass_iff mt g _ dir _ objs hne]
  have hy : ∀ y : Filter, [y] ≠ [] := by simp
  simp only [matchRule_pass_iff mt g _ dir _ _ (hy _), Q1_plain]
  obtain ⟨y0, hy0⟩ := List.exists_mem_of_ne_nil objs hne
  constructor
  · rintro ⟨⟨h1, h2, _, h4⟩, S, O, hS, hOo, hQ⟩ y hyo
    refine ⟨⟨h1, h2, by simp, h4⟩, ?_⟩
    obtain ⟨Oy, hOy, hQy⟩ := (conv_batch mt g.nodes objs (fun o => ∀ s ∈ S, ∃ d,
      depBetween g (if dir = true then s else o) (if dir = true then o else s) = .ok d ∧
        EP ⟨!neg, false, neg, false⟩ d)).1 ⟨O, hOo, fun o ho s hs => hQ s hs o ho⟩ y hyo
    exact ⟨S, Oy, hS, hOy, fun s hs o ho => hQy o ho s hs⟩
  · intro h
    obtain ⟨⟨h1, h2, _, h4⟩, S, _, hS, _, _⟩ := h y0 hy0
    refine ⟨⟨h1, h2, hne, h4⟩, ?_⟩
    obtain ⟨O, hOo, hQ⟩ := (conv_batch mt g.nodes objs (fun o => ∀ s ∈ S, ∃ d,
      depBetween g (if dir = true then s else o) (if dir = true then o else s) = .ok d ∧
        EP ⟨!neg, false, neg, false⟩ d)).2 (by
      intro y hyo
      obtain ⟨_, S', Oy, hS', hOy, hQy⟩ := h y hyo
      rw [hS] at hS'; cases hS'
      exact ⟨Oy, hOy, fun o ho s hs => hQy s hs o ho⟩)
    exact ⟨S, O, hS, hOo, fun s hs o ho => hQ o ho s hs⟩

end Pta
