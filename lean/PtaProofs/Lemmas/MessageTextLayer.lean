/-
  PtaProofs.Lemmas.MessageTextLayer — the message text of LAYER rules (`messageLinesL`, PtaModel/Message.lean) against
  the layer report items (`reportItemsL`, PtaModel/Layer.lean) rendered by `renderLItem` (Bridge/Message.lean):
  both raise `LayerMismatch` in the same situations, and otherwise `messageLinesL = renderLItems ∘ reportItemsL`.
-/
import PtaProofs.Lemmas.MessageText
import PtaProofs.Lemmas.LayerDetect
import PtaProofs.Lemmas.QueryErr
namespace Pta
open Pta.Dg

/-- same error, or the same set of lines -/
def LinesRel (A : Except ErrKind (List Msg)) (B : Except ErrKind (List LItem)) : Prop :=
  match A, B with
  | .error k, .error k' => k = k'
  | .ok ms, .ok its => ∀ x, x ∈ ms.map Msg.text ↔ x ∈ its.map renderLItem
  | _, _ => False

theorem LinesRel.bind {A : Except ErrKind (List Msg)} {B : Except ErrKind (List LItem)} (h : LinesRel A B)
    {F : List Msg → Except ErrKind (List Msg)} {G : List LItem → Except ErrKind (List LItem)}
    (hFG : ∀ ms its, (∀ x, x ∈ ms.map Msg.text ↔ x ∈ its.map renderLItem) → LinesRel (F ms) (G its)) :
    LinesRel (A >>= F) (B >>= G) := by
  cases A with
  | error k =>
    cases B with
    | error k' => exact h
    | ok its => exact h.elim
  | ok ms =>
    cases B with
    | error k' => exact h.elim
    | ok its => exact hFG ms its h

/-! ### texts -/

theorem layerNameText_eq : layerNameText = layerName := by
  funext o; cases o <;> rfl

theorem layerNameLe_eq : layerNameLe = optStrLe := by
  funext a b; cases a <;> cases b <;> rfl

theorem objectLayerTexts_eq (objs : List (Option Str)) :
    objectLayerTexts objs = (sortBy optStrLe objs).map fun o => "layer ".toList ++ quoted (layerName o) := by
  unfold objectLayerTexts
  rw [layerNameLe_eq, layerNameText_eq]
  rfl

theorem renderLItem_miss (any : Bool) (s : Option Str) (objs : List (Option Str)) (d : Bool) :
    renderLItem (.miss any s objs d) =
      "Layer ".toList ++ (quoted (layerName s) ++ ((if d then " is not imported by ".toList else " does not import ".toList) ++
        ((if any then "any layer that is not ".toList else []) ++
          (joinWith ", ".toList ((sortBy optStrLe objs).map fun o => "layer ".toList ++ quoted (layerName o)) ++ ['.'])))) := rfl

theorem missTextL_eq (ir any : Bool) (s : Option Str) (J : Str) :
    Msg.text ⟨prependLayerPrefix (quotedName (layerNameText s)), concatVerb (baseVerb ir) (verbPrefix ir true true) [],
        (if any then kwAnyLayer else []) ++ J⟩ =
      "Layer ".toList ++ (quoted (layerName s) ++ ((if !ir then " is not imported by ".toList else " does not import ".toList) ++
        ((if any then "any layer that is not ".toList else []) ++ (J ++ ['.'])))) := by
  rw [layerNameText_eq]
  cases ir <;> cases any <;> rfl

theorem sortBy_ne_nil {α : Type} (le : α → α → Bool) (l : List α) (h : l ≠ []) : sortBy le l ≠ [] := by
  intro e
  have := (sortBy_perm le l).length_eq
  rw [e] at this
  exact h (List.length_eq_zero_iff.1 this.symm)

theorem objectLayerTexts_join_ne_nil (objs : List (Option Str)) (h : objs ≠ []) :
    objectLayerTexts objs ≠ [] ∧ joinWith kwCommaSpace (objectLayerTexts objs) ≠ [] := by
  have h1 : objectLayerTexts objs ≠ [] := by
    unfold objectLayerTexts
    intro e
    exact sortBy_ne_nil layerNameLe objs h (List.map_eq_nil_iff.1 e)
  refine ⟨h1, joinWith_ne_nil _ _ h1 ?_⟩
  intro x hx
  unfold objectLayerTexts at hx
  obtain ⟨o, _, rfl⟩ := List.mem_map.1 hx
  simp [prependLayerPrefix]

/-- the `miss` items `missItemsL` builds from the looked-up layer pairs -/
def missOfPairsL (any ir : Bool) (ls : List (Option Str × Option Str)) : List LItem :=
  (dedup (ls.map (·.1))).map fun s => LItem.miss any s (dedup ((ls.filter fun d => d.1 = s).map (·.2))) (!ir)

theorem pairs_objs_ne_nil (ls : List (Option Str × Option Str)) (s : Option Str) (hs : s ∈ setIter (ls.map (·.1))) :
    setIter ((ls.filter fun d => d.1 = s).map (·.2)) ≠ [] := by
  simp only [setIter, mem_dedup] at hs
  obtain ⟨d, hd, rfl⟩ := List.mem_map.1 hs
  have : d.2 ∈ dedup ((ls.filter fun d' => d'.1 = d.1).map (·.2)) := by
    rw [mem_dedup]
    exact List.mem_map.2 ⟨d, List.mem_filter.2 ⟨hd, by simp⟩, rfl⟩
  exact List.ne_nil_of_mem this

theorem noImportBetweenL_texts (ir : Bool) (ls : List (Option Str × Option Str)) :
    ((((setIter (ls.map (·.1))).map fun s => (s, setIter ((ls.filter fun d => d.1 = s).map (·.2)))).flatMap fun so =>
        addCombinedRuleObjects (objectLayerTexts so.2) (prependLayerPrefix (quotedName (layerNameText so.1)))
          (concatVerb (baseVerb ir) (verbPrefix ir true true) [])).map Msg.text) =
      (missOfPairsL false ir ls).map renderLItem := by
  unfold missOfPairsL
  simp only [List.flatMap_map, List.map_flatMap, List.map_map]
  apply flatMap_singleton_on
  intro s hs
  obtain ⟨_, h2⟩ := objectLayerTexts_join_ne_nil _ (pairs_objs_ne_nil ls s hs)
  rw [addCombinedRuleObjects_of_ne _ _ _ h2, List.map_cons, List.map_nil]
  congr 1
  simp only [Function.comp, renderLItem_miss, setIter, ← objectLayerTexts_eq]
  exact missTextL_eq ir false s _

theorem noImportOtherThanL_texts (ir : Bool) (ls : List (Option Str × Option Str)) :
    ((((setIter (ls.map (·.1))).map fun s => (s, setIter ((ls.filter fun d => d.1 = s).map (·.2)))).flatMap fun so =>
        addCombinedAnyRuleObjects (objectLayerTexts so.2) (prependLayerPrefix (quotedName (layerNameText so.1)))
          (concatVerb (baseVerb ir) (verbPrefix ir true true) []) kwAnyLayer).map Msg.text) =
      (missOfPairsL true ir ls).map renderLItem := by
  unfold missOfPairsL
  simp only [List.flatMap_map, List.map_flatMap, List.map_map]
  apply flatMap_singleton_on
  intro s hs
  obtain ⟨h1, _⟩ := objectLayerTexts_join_ne_nil _ (pairs_objs_ne_nil ls s hs)
  rw [addCombinedAnyRuleObjects_of_ne _ _ _ _ h1, List.map_cons, List.map_nil]
  congr 1
  simp only [Function.comp, renderLItem_miss, setIter, ← objectLayerTexts_eq]
  exact missTextL_eq ir true s _

theorem noImportBetweenL_rel (m : LayerMap) (ir : Bool) (ds : List Dep) :
    LinesRel (noImportBetweenMsgsL m ir ds) (missItemsL m false ir ds) := by
  unfold noImportBetweenMsgsL violatingSubjectAndObjectLayers missItemsL
  simp only [bind_assoc, pure_bind]
  cases ds.mapM (fun d => do
      let a ← m.layerOf d.1.id
      let b ← m.layerOf d.2.id
      pure (a, b)) with
  | error k => exact rfl
  | ok ls =>
    intro x
    have := noImportBetweenL_texts ir ls
    simp only [missOfPairsL] at this
    simp only [this]

theorem noImportOtherThanL_rel (m : LayerMap) (ir : Bool) (ds : List Dep) :
    LinesRel (noImportOtherThanMsgsL m ir ds) (missItemsL m true ir ds) := by
  unfold noImportOtherThanMsgsL violatingSubjectAndObjectLayers missItemsL
  simp only [bind_assoc, pure_bind]
  cases ds.mapM (fun d => do
      let a ← m.layerOf d.1.id
      let b ← m.layerOf d.2.id
      pure (a, b)) with
  | error k => exact rfl
  | ok ls =>
    intro x
    have := noImportOtherThanL_texts ir ls
    simp only [missOfPairsL] at this
    simp only [this]

/-! ### `imports` lines with layer tags -/

theorem layerOf_err_kind (m : LayerMap) (x : Str) (e : ErrKind) (h : m.layerOf x = .error e) : e = .layerMismatch := by
  unfold LayerMap.layerOf at h
  split at h
  · cases h
  · simp only at h
    split at h
    · cases h
    · cases h
    · cases h; rfl

/-- two lookups in a row: both succeed (with the total tags), or `LayerMismatch` -/
theorem lookup2 {β : Type} (m : LayerMap) (n1 n2 : Str) (k : Option Str → Option Str → β) :
    (TagOk m n1 ∧ TagOk m n2 ∧
      (do let t1 ← m.layerOf n1; let t2 ← m.layerOf n2; pure (k t1 t2) : Except ErrKind β) = .ok (k (tagS m n1) (tagS m n2))) ∨
    ((¬ TagOk m n1 ∨ ¬ TagOk m n2) ∧
      (do let t1 ← m.layerOf n1; let t2 ← m.layerOf n2; pure (k t1 t2) : Except ErrKind β) = .error .layerMismatch) := by
  cases h1 : m.layerOf n1 with
  | error e =>
    right
    have := layerOf_err_kind m n1 e h1
    subst this
    refine ⟨.inl ?_, rfl⟩
    unfold TagOk; rw [h1]; intro h; cases h
  | ok t1 =>
    cases h2 : m.layerOf n2 with
    | error e =>
      right
      have := layerOf_err_kind m n2 e h2
      subst this
      refine ⟨.inr ?_, rfl⟩
      unfold TagOk; rw [h2]; intro h; cases h
    | ok t2 =>
      left
      refine ⟨tagOk_of_eq h1, tagOk_of_eq h2, ?_⟩
      rw [tagS_of_eq h1, tagS_of_eq h2]
      rfl

theorem layerSuffix_eq (m : LayerMap) (n : Str) : layerSuffix m n = (m.layerOf n >>= fun t => pure (tagText t)) := by
  unfold layerSuffix
  congr 1
  funext t
  cases t <;> rfl

theorem subjectAndObjectOfDependencyL_eq (m : LayerMap) (d : Dep) :
    subjectAndObjectOfDependencyL m d =
      (do let t1 ← m.layerOf d.1.id; let t2 ← m.layerOf d.2.id
          pure (quoted d.1.id ++ tagText t1, quoted d.2.id ++ tagText t2)) := by
  unfold subjectAndObjectOfDependencyL
  simp only [layerSuffix_eq, bind_assoc, pure_bind]
  rfl

theorem impItemsL_elem_eq (m : LayerMap) (ir : Bool) (d : Dep) :
    (do let p := userOrder ir (d.1.id, d.2.id)
        let t1 ← m.layerOf p.1
        let t2 ← m.layerOf p.2
        pure (LItem.imp p.1 p.2 (!ir) t1 t2) : Except ErrKind LItem) =
      (do let t1 ← m.layerOf (userOrder ir (d.1.id, d.2.id)).1; let t2 ← m.layerOf (userOrder ir (d.1.id, d.2.id)).2
          pure (LItem.imp (userOrder ir (d.1.id, d.2.id)).1 (userOrder ir (d.1.id, d.2.id)).2 (!ir) t1 t2)) := rfl

theorem impTextL_eq (ir : Bool) (a b : Str) (ta tb : Option Str) :
    Msg.text ⟨quoted a ++ tagText ta, concatVerb (baseVerb ir) (verbPrefix ir false true) (verbSuffix ir true),
        quoted b ++ tagText tb⟩ =
      renderLItem (if ir then .imp a b false ta tb else .imp b a true tb ta) := by
  simp only [Msg.text, List.append_assoc]
  cases ir <;> rfl

/-- the lines of `impItemsP` -/
theorem mem_impItemsP_render (m : LayerMap) (ir : Bool) (ds : List Dep) (x : Str) :
    x ∈ (impItemsP m ir ds).map renderLItem ↔
      ∃ d ∈ ds, renderLItem (if ir then .imp d.1.id d.2.id false (tagS m d.1.id) (tagS m d.2.id)
                              else .imp d.2.id d.1.id true (tagS m d.2.id) (tagS m d.1.id)) = x := by
  unfold impItemsP
  simp only [List.mem_map]
  constructor
  · rintro ⟨it, ⟨d, hd, rfl⟩, rfl⟩
    exact ⟨d, hd, by cases ir <;> rfl⟩
  · rintro ⟨d, hd, rfl⟩
    exact ⟨_, ⟨d, hd, rfl⟩, by cases ir <;> rfl⟩

theorem otherViolatingL_rel (m : LayerMap) (ir : Bool) (ds : List Dep) :
    LinesRel (otherViolatingMsgsL m ir ds) (impItemsL m ir ds) := by
  by_cases hok : DepsOk m ds
  · rw [impItemsL_ok m ir ds hok]
    unfold otherViolatingMsgsL
    rw [mapM_ok_map _ (fun d => (quoted d.1.id ++ tagText (tagS m d.1.id), quoted d.2.id ++ tagText (tagS m d.2.id)))]
    · show ∀ x, _ ↔ _
      intro x
      rw [mem_impItemsP_render]
      unfold otherViolatingOfNames
      simp only [List.mem_map, mem_sortBy, setIter, mem_dedup]
      constructor
      · rintro ⟨ms, ⟨n, ⟨d, hd, rfl⟩, rfl⟩, rfl⟩
        exact ⟨d, hd, (impTextL_eq ir _ _ _ _).symm⟩
      · rintro ⟨d, hd, rfl⟩
        exact ⟨_, ⟨_, ⟨d, hd, rfl⟩, rfl⟩, impTextL_eq ir _ _ _ _⟩
    · intro d hd
      simp only [setIter, mem_dedup] at hd
      obtain ⟨h1, h2⟩ := hok d hd
      rw [subjectAndObjectOfDependencyL_eq]
      rcases lookup2 m d.1.id d.2.id (fun t1 t2 => (quoted d.1.id ++ tagText t1, quoted d.2.id ++ tagText t2)) with
        ⟨_, _, h⟩ | ⟨h, _⟩
      · exact h
      · rcases h with h | h
        · exact absurd h1 h
        · exact absurd h2 h
  · have hex : ∃ d ∈ ds, ¬ TagOk m d.1.id ∨ ¬ TagOk m d.2.id := by
      apply Classical.byContradiction
      intro hn
      apply hok
      intro d hd
      constructor
      · apply Classical.byContradiction; intro h1; exact hn ⟨d, hd, .inl h1⟩
      · apply Classical.byContradiction; intro h2; exact hn ⟨d, hd, .inr h2⟩
    obtain ⟨d, hd, hbad⟩ := hex
    have hA : otherViolatingMsgsL m ir ds = .error .layerMismatch := by
      unfold otherViolatingMsgsL
      rw [Pta.Hist.mapM_error_of_mem (subjectAndObjectOfDependencyL m) .layerMismatch (setIter ds)]
      · rfl
      · intro x _ e he
        rw [subjectAndObjectOfDependencyL_eq] at he
        rcases lookup2 m x.1.id x.2.id (fun t1 t2 => (quoted x.1.id ++ tagText t1, quoted x.2.id ++ tagText t2)) with
          ⟨_, _, h⟩ | ⟨_, h⟩
        · rw [h] at he; cases he
        · rw [h] at he; cases he; rfl
      · refine ⟨d, by simpa [setIter, mem_dedup] using hd, ?_⟩
        rw [subjectAndObjectOfDependencyL_eq]
        rcases lookup2 m d.1.id d.2.id (fun t1 t2 => (quoted d.1.id ++ tagText t1, quoted d.2.id ++ tagText t2)) with
          ⟨h1, h2, _⟩ | ⟨_, h⟩
        · rcases hbad with h | h
          · exact absurd h1 h
          · exact absurd h2 h
        · exact h
    have hB : impItemsL m ir ds = .error .layerMismatch := by
      unfold impItemsL
      apply Pta.Hist.mapM_error_of_mem
      · intro x _ e he
        rw [impItemsL_elem_eq] at he
        rcases lookup2 m (userOrder ir (x.1.id, x.2.id)).1 (userOrder ir (x.1.id, x.2.id)).2
          (fun t1 t2 => LItem.imp (userOrder ir (x.1.id, x.2.id)).1 (userOrder ir (x.1.id, x.2.id)).2 (!ir) t1 t2) with
          ⟨_, _, h⟩ | ⟨_, h⟩
        · rw [h] at he; cases he
        · rw [h] at he; cases he; rfl
      · refine ⟨d, hd, ?_⟩
        rw [impItemsL_elem_eq]
        rcases lookup2 m (userOrder ir (d.1.id, d.2.id)).1 (userOrder ir (d.1.id, d.2.id)).2
          (fun t1 t2 => LItem.imp (userOrder ir (d.1.id, d.2.id)).1 (userOrder ir (d.1.id, d.2.id)).2 (!ir) t1 t2) with
          ⟨h1, h2, _⟩ | ⟨_, h⟩
        · cases ir
          · simp only [userOrder, Bool.false_eq_true, if_false] at h1 h2
            rcases hbad with h | h
            · exact absurd h2 h
            · exact absurd h1 h
          · simp only [userOrder, if_true] at h1 h2
            rcases hbad with h | h
            · exact absurd h1 h
            · exact absurd h2 h
        · exact h
    rw [hA, hB]
    exact rfl

/-! ### the whole message -/

theorem violationMessagesL_rel (m : LayerMap) (ir : Bool) (v : Violations) :
    LinesRel (violationMessagesL m ir v) (reportItemsL m ir v) := by
  unfold violationMessagesL reportItemsL
  apply LinesRel.bind (noImportBetweenL_rel m ir v.should); intro a a' ha
  apply LinesRel.bind (otherViolatingL_rel m ir v.shouldOnlyForbidden); intro b b' hb
  apply LinesRel.bind (noImportBetweenL_rel m ir v.shouldOnlyNoImport); intro c c' hc
  apply LinesRel.bind (otherViolatingL_rel m ir v.shouldNot); intro d d' hd
  apply LinesRel.bind (noImportOtherThanL_rel m ir v.shouldExcept); intro e e' he
  apply LinesRel.bind (otherViolatingL_rel m ir v.shouldOnlyExceptForbidden); intro f f' hf
  apply LinesRel.bind (noImportOtherThanL_rel m ir v.shouldOnlyExceptNoImport); intro g g' hg
  apply LinesRel.bind (otherViolatingL_rel m ir v.shouldNotExcept); intro h h' hh
  show ∀ x, _ ↔ _
  intro x
  simp only [List.map_append, List.mem_append, ha, hb, hc, hd, he, hf, hg, hh]

/-- `line_of_item` for layer rules: same error, or the lines are the rendered layer report items -/
theorem messageLinesL_eq_lemma (m : LayerMap) (ir : Bool) (v : Violations) :
    messageLinesL m ir v = (reportItemsL m ir v).map renderLItems := by
  have h := violationMessagesL_rel m ir v
  unfold messageLinesL
  cases hA : violationMessagesL m ir v with
  | error k =>
    cases hB : reportItemsL m ir v with
    | error k' => rw [hA, hB] at h; cases (h : k = k'); rfl
    | ok its => rw [hA, hB] at h; exact h.elim
  | ok ms =>
    cases hB : reportItemsL m ir v with
    | error k' => rw [hA, hB] at h; exact h.elim
    | ok its =>
      rw [hA, hB] at h
      show Except.ok (finishLines ms) = Except.ok (renderLItems its)
      congr 1
      exact canon_ext _ _ h

theorem matchLayerRuleText_eq (mt : Str → Str → Bool) (g : PGraph Str) (a : LArch) (b : Behavior) (d : Bool)
    (ss os : List Filter) : matchLayerRuleText mt g a b d ss os = (matchLayerRule mt g a b d ss os).toText := by
  unfold matchLayerRuleText matchLayerRule
  cases convertFilters mt g.nodes ss with
  | error k => rfl
  | ok subs =>
    simp only
    cases convertFilters mt g.nodes os with
    | error k => rfl
    | ok objs =>
      simp only
      cases runQueries g b d subs objs with
      | error k => rfl
      | ok eo =>
        obtain ⟨expl, other⟩ := eo
        simp only
        split
        · rfl
        · cases detectL _ b d expl other (objs.map Filter.toMod) with
          | error k => rfl
          | ok v =>
            simp only
            cases v.any with
            | false => rfl
            | true =>
              simp only [if_true, messageLinesL_eq_lemma]
              cases reportItemsL _ d v with
              | error k => rfl
              | ok items => rfl

theorem assertAppliesLayerText_eq_lemma (mt : Str → Str → Bool) (s : LayerRuleState) (g : PGraph Str) :
    assertAppliesLayerText mt s g = (assertAppliesLayer mt s g).toText := by
  unfold assertAppliesLayerText assertAppliesLayer
  cases s.rule with
  | none => rfl
  | some r =>
    cases s.arch with
    | none => rfl
    | some a =>
      simp only
      cases anythingMisused r.cfg with
      | true => rfl
      | false =>
        simp only [Bool.false_eq_true, if_false]
        cases configMissing (convertAliases r.cfg) with
        | true => rfl
        | false =>
          simp only [Bool.false_eq_true, if_false]
          cases droppedAbsent g (convertAliases r.cfg) with
          | true => rfl
          | false =>
            simp only [Bool.false_eq_true, if_false]
            cases (convertAliases r.cfg).behavior.inconsistent with
            | true => rfl
            | false =>
              simp only [Bool.false_eq_true, if_false]
              cases (convertAliases r.cfg).importDir <;> cases (convertAliases r.cfg).subjects <;>
                cases (convertAliases r.cfg).objects <;> simp only [matchLayerRuleText_eq] <;> rfl

theorem runLayerRuleOpsTextGo_eq (mt : Str → Str → Bool) (g : PGraph Str) (ops : List LayerRuleOp) :
    ∀ (s : LayerRuleState) (i : Nat), runLayerRuleOpsTextGo mt g s i ops =
      ((runLayerRuleOps.go mt g s i ops).1.toText, (runLayerRuleOps.go mt g s i ops).2) := by
  induction ops with
  | nil =>
    intro s i
    simp only [runLayerRuleOpsTextGo, runLayerRuleOps.go, assertAppliesLayerText_eq_lemma]
  | cons op rest ih =>
    intro s i
    simp only [runLayerRuleOpsTextGo, runLayerRuleOps.go]
    cases s.step op with
    | error k => rfl
    | ok s' => exact ih _ _

theorem runLayerRuleOpsText_eq_lemma (mt : Str → Str → Bool) (ops : List LayerRuleOp) (g : PGraph Str) :
    runLayerRuleOpsText mt ops g = ((runLayerRuleOps mt ops g).1.toText, (runLayerRuleOps mt ops g).2) :=
  runLayerRuleOpsTextGo_eq mt g ops {} 0

end Pta
