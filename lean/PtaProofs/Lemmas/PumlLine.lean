/-
  PtaProofs.Lemmas.PumlLine — line-level lemmas behind Props/C06.lean: the recognisers `lineModules` and
  `lineDependency` on rendered declaration and arrow lines (layer L1).
-/
import Bridge.PumlRender
namespace Pta

/-! ## character classes -/

theorem kw_component_eq : "component".toList = kwComponent := by decide
theorem tag_start_eq : "@startuml".toList = tagStart := by decide
theorem tag_end_eq : "@enduml".toList = tagEnd := by decide

theorem wordChar_nameChar {c : Char} (h : isWordChar c = true) : isNameChar c = true := by
  simp [isNameChar, h]

theorem nameChar_innerChar {c : Char} (h : isNameChar c = true) : isInnerChar c = true := by
  simp [isInnerChar, h]

theorem nameChar_not_space {c : Char} (h : isNameChar c = true) : isSpaceChar c = false := by
  cases hs : isSpaceChar c with
  | false => rfl
  | true =>
    exfalso
    simp only [isSpaceChar, Bool.or_eq_true, beq_iff_eq] at hs
    rcases hs with (((rfl | rfl) | rfl) | rfl) | rfl <;> revert h <;> decide

theorem nameChar_ne {c : Char} (h : isNameChar c = true) :
    c ≠ '[' ∧ c ≠ ']' ∧ c ≠ ' ' ∧ c ≠ '-' ∧ c ≠ '<' ∧ c ≠ '>' ∧ c ≠ '\n' ∧ c ≠ '@' := by
  refine ⟨?_, ?_, ?_, ?_, ?_, ?_, ?_, ?_⟩ <;> rintro rfl <;> revert h <;> decide

/-- a written name / alias / arrow text: non-empty, name characters only -/
def NameLike (w : Str) : Prop := w ≠ [] ∧ ∀ c ∈ w, isNameChar c = true

theorem nameOK_nameLike {n : Str} (h : nameOK n = true) : NameLike n := by
  simp only [nameOK, Bool.and_eq_true, Bool.not_eq_true', List.isEmpty_eq_false_iff, List.all_eq_true] at h
  exact ⟨h.1, h.2⟩

theorem wordOK_nameOK {a : Str} (h : wordOK a = true) : nameOK a = true := by
  simp only [wordOK, nameOK, Bool.and_eq_true, Bool.not_eq_true', List.all_eq_true] at h ⊢
  exact ⟨h.1, fun c hc => wordChar_nameChar (h.2 c hc)⟩

theorem wordOK_word {a : Str} (h : wordOK a = true) : a ≠ [] ∧ ∀ c ∈ a, isWordChar c = true := by
  simp only [wordOK, Bool.and_eq_true, Bool.not_eq_true', List.isEmpty_eq_false_iff, List.all_eq_true] at h
  exact h

theorem NameLike.head {w : Str} (h : NameLike w) : ∃ c r, w = c :: r ∧ isNameChar c = true := by
  obtain ⟨hne, hall⟩ := h
  cases w with
  | nil => exact absurd rfl hne
  | cons c r => exact ⟨c, r, rfl, hall c (by simp)⟩

/-! ## takeWhile / dropWhile over a run -/

theorem takeWhile_run {p : Char → Bool} (w r : Str) (hw : ∀ c ∈ w, p c = true)
    (hr : ∀ c ∈ r.head?, p c = false) : (w ++ r).takeWhile p = w := by
  induction w with
  | nil =>
    cases r with
    | nil => rfl
    | cons c r => simp [hr c (by simp)]
  | cons c w ih =>
    simp only [List.cons_append, List.takeWhile_cons, hw c (by simp), if_true]
    rw [ih (fun c hc => hw c (by simp [hc]))]

theorem dropWhile_run {p : Char → Bool} (w r : Str) (hw : ∀ c ∈ w, p c = true)
    (hr : ∀ c ∈ r.head?, p c = false) : (w ++ r).dropWhile p = r := by
  induction w with
  | nil =>
    cases r with
    | nil => rfl
    | cons c r => simp [hr c (by simp)]
  | cons c w ih =>
    simp only [List.cons_append, List.dropWhile_cons, hw c (by simp), if_true]
    rw [ih (fun c hc => hw c (by simp [hc]))]

/-- what may follow a written name inside a line: nothing, or a character that is neither a name character -/
def Stop (r : Str) : Prop := ∀ c ∈ r.head?, isNameChar c = false

theorem stop_nil : Stop [] := by simp [Stop]
theorem stop_cons {c : Char} {r : Str} (h : isNameChar c = false) : Stop (c :: r) := by simpa [Stop] using h

theorem takeName_run {w r : Str} (hw : NameLike w) (hr : Stop r) : takeName (w ++ r) = (w, r) := by
  simp only [takeName, takeWhile_run w r hw.2 hr, dropWhile_run w r hw.2 hr]

/-! ## references -/

theorem dropSpaces1_one (c : Char) (r : Str) (hc : isSpaceChar c = false) :
    dropSpaces1 (' ' :: c :: r) = some (c :: r) := by
  have h1 : isSpaceChar ' ' = true := by decide
  simp [dropSpaces1, h1, hc]

theorem stop_space (t : Str) : Stop (' ' :: t) := stop_cons (by decide)
theorem stop_close (t : Str) : Stop (']' :: t) := stop_cons (by decide)

def stripOpen : Str → Str
  | '[' :: r => r
  | r => r

def stripClose : Str → Str
  | ']' :: r => r
  | r => r

theorem optBracketName_eq (s : Str) :
    optBracketName s = (if (takeName (stripOpen s)).1.isEmpty then none
      else some ((takeName (stripOpen s)).1, stripClose (takeName (stripOpen s)).2)) := by
  rfl

theorem stripOpen_nobr (c : Char) (s : Str) (hc : c ≠ '[') : stripOpen (c :: s) = c :: s := by
  unfold stripOpen
  split
  · rename_i r heq
    cases heq; exact absurd rfl hc
  · rfl

theorem stripClose_nobr (c : Char) (s : Str) (hc : c ≠ ']') : stripClose (c :: s) = c :: s := by
  unfold stripClose
  split
  · rename_i r heq
    cases heq; exact absurd rfl hc
  · rfl

theorem optBracketName_nobr (c : Char) (s : Str) (hc : c ≠ '[') :
    optBracketName (c :: s) = (if (takeName (c :: s)).1.isEmpty then none
      else some ((takeName (c :: s)).1, stripClose (takeName (c :: s)).2)) := by
  rw [optBracketName_eq, stripOpen_nobr c s hc]

theorem optBracketName_br (s : Str) :
    optBracketName ('[' :: s) = (if (takeName s).1.isEmpty then none
      else some ((takeName s).1, stripClose (takeName s).2)) := by
  rw [optBracketName_eq]; rfl

theorem optBracketName_bare {n rest : Str} (hn : NameLike n) (hrest : rest = [] ∨ ∃ t, rest = ' ' :: t) :
    optBracketName (n ++ rest) = some (n, rest) := by
  obtain ⟨c, n', rfl, hc⟩ := hn.head
  have hstop : Stop rest := by
    rcases hrest with rfl | ⟨t, rfl⟩
    · exact stop_nil
    · exact stop_space t
  have h := optBracketName_nobr c (n' ++ rest) (nameChar_ne hc).1
  rw [← List.cons_append, takeName_run hn hstop] at h
  rw [h]
  rcases hrest with rfl | ⟨t, rfl⟩ <;> simp [stripClose]

theorem optBracketName_bracketed {n rest : Str} (hn : NameLike n) :
    optBracketName ('[' :: n ++ ']' :: rest) = some (n, rest) := by
  have h := optBracketName_br (n ++ ']' :: rest)
  rw [takeName_run hn (stop_close rest)] at h
  rw [List.cons_append, h]
  simp [hn.1, stripClose]

theorem optBracketName_ref (r : DRef) (rest : Str) (hw : NameLike r.written)
    (hrest : rest = [] ∨ ∃ t, rest = ' ' :: t) :
    optBracketName (r.render ++ rest) = some (r.written, rest) := by
  cases r with
  | bare n => exact optBracketName_bare hw hrest
  | bracketed n =>
    simp only [DRef.render, DRef.written, List.cons_append, List.append_assoc, List.nil_append]
    exact optBracketName_bracketed hw
  | viaAlias a => exact optBracketName_bare hw hrest

/-- a rendered reference starts with a character that is not white space -/
theorem ref_render_head (r : DRef) (hw : NameLike r.written) :
    ∃ c t, r.render = c :: t ∧ isSpaceChar c = false := by
  cases r with
  | bare n => obtain ⟨c, t, rfl, hc⟩ := hw.head; exact ⟨c, t, rfl, nameChar_not_space hc⟩
  | bracketed n => exact ⟨'[', n ++ [']'], rfl, by decide⟩
  | viaAlias a => obtain ⟨c, t, rfl, hc⟩ := hw.head; exact ⟨c, t, rfl, nameChar_not_space hc⟩

theorem dropSpaces1_ref (r : DRef) (rest : Str) (hw : NameLike r.written) :
    dropSpaces1 (' ' :: (r.render ++ rest)) = some (r.render ++ rest) := by
  obtain ⟨c, t, h, hc⟩ := ref_render_head r hw
  rw [h]
  exact dropSpaces1_one c _ hc

/-! ## arrow tokens -/

theorem wordChar_ne_dash {c : Char} (h : isWordChar c = true) : c ≠ '-' ∧ c ≠ '>' :=
  ⟨(nameChar_ne (wordChar_nameChar h)).2.2.2.1, (nameChar_ne (wordChar_nameChar h)).2.2.2.2.2.1⟩

theorem arrowRight_token (f : ArrowForm) (hf : f.isRight = true) (ht : f.textOK = true) (r : Str) :
    arrowRight (f.token ++ ' ' :: r) = some (' ' :: r) := by
  cases f with
  | r2 => rfl
  | r1 => rfl
  | l2 => cases hf
  | l1 => cases hf
  | lt t => cases hf
  | rt t =>
    obtain ⟨hne, hall⟩ := wordOK_word ht
    cases t with
    | nil => exact absurd rfl hne
    | cons c t =>
      have hc := hall c (by simp)
      have hstop : ∀ x ∈ (['-', '>'] ++ ' ' :: r : Str).head?, isWordChar x = false := by
        simp; decide
      have h1 : ((c :: t) ++ (['-', '>'] ++ ' ' :: r)).takeWhile isWordChar = c :: t := takeWhile_run _ _ hall hstop
      have h2 : ((c :: t) ++ (['-', '>'] ++ ' ' :: r)).dropWhile isWordChar = ['-', '>'] ++ ' ' :: r :=
        dropWhile_run _ _ hall hstop
      simp only [ArrowForm.token, List.cons_append, List.append_assoc] at h1 h2 ⊢
      unfold arrowRight
      split
      · rename_i r' heq
        simp only [List.cons.injEq, true_and] at heq
        exact absurd heq.1 (wordChar_ne_dash hc).2
      · rename_i r' heq
        simp only [List.cons.injEq, true_and] at heq
        exact absurd heq.1 (wordChar_ne_dash hc).1
      · rename_i r' _ _ heq
        cases heq
        simp only [h1, h2]
        simp
      · rename_i h
        exact absurd rfl (h _)

theorem arrowRight_lt (s : Str) : arrowRight ('<' :: s) = none := by
  unfold arrowRight
  split <;> first | rfl | (rename_i heq; cases heq)

theorem dropSpaces1_space (r : Str) : (dropSpaces1 (' ' :: r)).isSome = true := by
  have h1 : isSpaceChar ' ' = true := by decide
  simp [dropSpaces1, h1]

theorem dropSpaces1_nospace (c : Char) (r : Str) (hc : isSpaceChar c = false) : dropSpaces1 (c :: r) = none := by
  simp [dropSpaces1, hc]

theorem arrowLeft_token (f : ArrowForm) (hf : f.isRight = false) (ht : f.textOK = true) (r : Str) :
    arrowLeft (f.token ++ ' ' :: r) = some (' ' :: r) := by
  cases f with
  | r2 => cases hf
  | r1 => cases hf
  | rt t => cases hf
  | l2 =>
    simp only [ArrowForm.token, List.cons_append, List.nil_append, arrowLeft, dropSpaces1_space, if_true]
  | l1 =>
    simp only [ArrowForm.token, List.cons_append, List.nil_append, arrowLeft, dropSpaces1_space, if_true]
    split
    · rename_i heq; cases heq
    · rfl
  | lt t =>
    obtain ⟨hne, hall⟩ := wordOK_word ht
    cases t with
    | nil => exact absurd rfl hne
    | cons c t =>
      have hc := hall c (by simp)
      have hstop : ∀ x ∈ (['-'] ++ ' ' :: r : Str).head?, isWordChar x = false := by
        simp; decide
      have h1 : ((c :: t) ++ (['-'] ++ ' ' :: r)).takeWhile isWordChar = c :: t := takeWhile_run _ _ hall hstop
      have h2 : ((c :: t) ++ (['-'] ++ ' ' :: r)).dropWhile isWordChar = ['-'] ++ ' ' :: r :=
        dropWhile_run _ _ hall hstop
      have h3 : dropSpaces1 (c :: (t ++ '-' :: ' ' :: r)) = none :=
        dropSpaces1_nospace _ _ (nameChar_not_space (wordChar_nameChar hc))
      simp only [ArrowForm.token, List.cons_append, List.append_assoc, List.nil_append] at h1 h2 ⊢
      unfold arrowLeft
      split
      · rename_i r0 heq
        cases heq
        split
        · rename_i r' heq
          simp only [List.cons.injEq] at heq
          exact absurd heq.1 (wordChar_ne_dash hc).1
        · simp only [h3, h1, h2]
          simp
      · rename_i h
        exact absurd rfl (h _)

theorem token_head (f : ArrowForm) : ∃ c t, f.token = c :: t ∧ isSpaceChar c = false := by
  cases f <;> exact ⟨_, _, rfl, by decide⟩

theorem dropSpaces1_token (f : ArrowForm) (r : Str) :
    dropSpaces1 (' ' :: (f.token ++ r)) = some (f.token ++ r) := by
  obtain ⟨c, t, h, hc⟩ := token_head f
  rw [h]
  exact dropSpaces1_one c _ hc

/-! ## `lineDependency` -/

theorem parseRightArrow_line (f : ArrowForm) (a b : DRef) (hf : f.isRight = true) (ht : f.textOK = true)
    (ha : NameLike a.written) (hb : NameLike b.written) :
    parseRightArrow (a.render ++ ' ' :: (f.token ++ ' ' :: b.render)) = some (a.written, b.written) := by
  have h1 := optBracketName_ref a (' ' :: (f.token ++ ' ' :: b.render)) ha (Or.inr ⟨_, rfl⟩)
  have h2 := dropSpaces1_token f (' ' :: b.render)
  have h3 := arrowRight_token f hf ht b.render
  have h4 := dropSpaces1_ref b [] hb
  have h5 := optBracketName_ref b [] hb (Or.inl rfl)
  simp only [List.append_nil] at h4 h5
  simp only [parseRightArrow, h1, h2, h3, h4, h5, Option.bind_eq_bind, Option.bind_some, Option.pure_def]

theorem parseLeftArrow_line (f : ArrowForm) (a b : DRef) (hf : f.isRight = false) (ht : f.textOK = true)
    (ha : NameLike a.written) (hb : NameLike b.written) :
    parseLeftArrow (b.render ++ ' ' :: (f.token ++ ' ' :: a.render)) = some (a.written, b.written) := by
  have h1 := optBracketName_ref b (' ' :: (f.token ++ ' ' :: a.render)) hb (Or.inr ⟨_, rfl⟩)
  have h2 := dropSpaces1_token f (' ' :: a.render)
  have h3 := arrowLeft_token f hf ht a.render
  have h4 := dropSpaces1_ref a [] ha
  have h5 := optBracketName_ref a [] ha (Or.inl rfl)
  simp only [List.append_nil] at h4 h5
  simp only [parseLeftArrow, h1, h2, h3, h4, h5, Option.bind_eq_bind, Option.bind_some, Option.pure_def,
    List.isEmpty_nil, if_true]

theorem token_left_head (f : ArrowForm) (hf : f.isRight = false) : ∃ t, f.token = '<' :: t := by
  cases f <;> first | exact ⟨_, rfl⟩ | cases hf

theorem parseRightArrow_left_line (f : ArrowForm) (a b : DRef) (hf : f.isRight = false)
    (hb : NameLike b.written) :
    parseRightArrow (b.render ++ ' ' :: (f.token ++ ' ' :: a.render)) = none := by
  have h1 := optBracketName_ref b (' ' :: (f.token ++ ' ' :: a.render)) hb (Or.inr ⟨_, rfl⟩)
  have h2 := dropSpaces1_token f (' ' :: a.render)
  obtain ⟨t, htok⟩ := token_left_head f hf
  have h3 : arrowRight (f.token ++ ' ' :: a.render) = none := by rw [htok]; exact arrowRight_lt _
  simp only [parseRightArrow, h1, h2, h3, Option.bind_eq_bind, Option.bind_some, Option.bind_none]

theorem renderArrow_right (f : ArrowForm) (a b : DRef) (hf : f.isRight = true) :
    renderArrow f a b = a.render ++ ' ' :: (f.token ++ ' ' :: b.render) := by
  simp [renderArrow, hf]

theorem renderArrow_left (f : ArrowForm) (a b : DRef) (hf : f.isRight = false) :
    renderArrow f a b = b.render ++ ' ' :: (f.token ++ ' ' :: a.render) := by
  simp [renderArrow, hf]

theorem lineDependency_arrow_lemma (f : ArrowForm) (a b : DRef) (ht : f.textOK = true)
    (ha : NameLike a.written) (hb : NameLike b.written) :
    lineDependency (renderArrow f a b) = some (a.written, b.written) := by
  cases hf : f.isRight with
  | true =>
    rw [renderArrow_right f a b hf, lineDependency, parseRightArrow_line f a b hf ht ha hb]
  | false =>
    rw [renderArrow_left f a b hf, lineDependency, parseRightArrow_left_line f a b hf hb,
      parseLeftArrow_line f a b hf ht ha hb]

theorem arrowRight_other (c : Char) (s : Str) (hc : c ≠ '-') : arrowRight (c :: s) = none := by
  unfold arrowRight
  split <;> first | rfl | (rename_i heq; cases heq; exact absurd rfl hc)

theorem arrowLeft_other (c : Char) (s : Str) (hc : c ≠ '<') : arrowLeft (c :: s) = none := by
  unfold arrowLeft
  split <;> first | rfl | (rename_i heq; cases heq; exact absurd rfl hc)

theorem lineDependency_none_of (line x rest : Str) (h : optBracketName line = some (x, rest))
    (h2 : dropSpaces1 rest = none ∨ ∃ c s, dropSpaces1 rest = some (c :: s) ∧ c ≠ '-' ∧ c ≠ '<') :
    lineDependency line = none := by
  rcases h2 with h2 | ⟨c, s, h2, hc1, hc2⟩
  · simp only [lineDependency, parseRightArrow, parseLeftArrow, h, h2, Option.bind_eq_bind, Option.bind_some,
      Option.bind_none]
  · simp only [lineDependency, parseRightArrow, parseLeftArrow, h, h2, Option.bind_eq_bind, Option.bind_some,
      Option.bind_none, arrowRight_other c s hc1, arrowLeft_other c s hc2]

theorem kwComponent_nameLike : NameLike kwComponent := by
  refine ⟨by decide, ?_⟩
  decide

theorem lineDependency_decl_lemma (f : DeclForm) (n : Str) (al : Option Str) (hn : NameLike n) :
    lineDependency (renderDecl f n al) = none := by
  cases f with
  | bracket =>
    have h : optBracketName ('[' :: n ++ ']' :: renderAlias al) = some (n, renderAlias al) :=
      optBracketName_bracketed hn
    refine lineDependency_none_of _ _ _ h ?_
    cases al with
    | none => exact Or.inl rfl
    | some a =>
      refine Or.inr ⟨'a', 's' :: ' ' :: a, ?_, by decide, by decide⟩
      exact dropSpaces1_one 'a' _ (by decide)
  | compBare =>
    have h : optBracketName (kwComponent ++ ' ' :: n) = some (kwComponent, ' ' :: n) :=
      optBracketName_bare kwComponent_nameLike (Or.inr ⟨_, rfl⟩)
    refine lineDependency_none_of _ _ _ h ?_
    obtain ⟨c, n', rfl, hc⟩ := hn.head
    exact Or.inr ⟨c, n', dropSpaces1_one c _ (nameChar_not_space hc), (nameChar_ne hc).2.2.2.1,
      (nameChar_ne hc).2.2.2.2.1⟩
  | compBracket =>
    have h : optBracketName (kwComponent ++ ' ' :: '[' :: n ++ ']' :: renderAlias al)
        = some (kwComponent, ' ' :: '[' :: n ++ ']' :: renderAlias al) :=
      optBracketName_bare kwComponent_nameLike (Or.inr ⟨_, rfl⟩)
    refine lineDependency_none_of _ _ _ h ?_
    exact Or.inr ⟨'[', _, dropSpaces1_one '[' _ (by decide), by decide, by decide⟩

/-! ## `bracketDecl`: a fuel-free scan, and the two pieces of `bracketDeclAt` -/

def bdScan : Str → Option PModule
  | [] => none
  | c :: cs =>
    match bracketDeclAt (c :: cs) with
    | some m => some m
    | none => bdScan cs

theorem bracketDeclAt_nil : bracketDeclAt [] = none := by decide

theorem bracketDecl_go_eq (s : Str) (fuel : Nat) (h : s.length < fuel) : bracketDecl.go s fuel = bdScan s := by
  induction s generalizing fuel with
  | nil =>
    cases fuel with
    | zero => omega
    | succ f => simp [bracketDecl.go, bdScan, bracketDeclAt_nil]
  | cons c cs ih =>
    cases fuel with
    | zero => omega
    | succ f =>
      simp only [bracketDecl.go, bdScan]
      cases bracketDeclAt (c :: cs) with
      | some m => rfl
      | none => exact ih f (by simp at h; omega)

theorem bracketDecl_eq (s : Str) : bracketDecl s = bdScan s :=
  bracketDecl_go_eq s _ (Nat.lt_succ_self _)

/-- the optional `component\s+` prefix -/
def compStrip (s : Str) : Str :=
  if startsWith "component".toList s then
    match dropSpaces1 (s.drop 9) with | some r => r | none => s
  else s

/-- `\[INNER\](\s+as\s+(.+))?$` -/
def bdCore (s : Str) : Option PModule :=
  match s with
  | '[' :: r =>
    let inner := r.takeWhile isInnerChar
    if inner.isEmpty then none
    else match r.dropWhile isInnerChar with
      | ']' :: rest =>
        if rest.isEmpty then some ⟨inner, none⟩
        else match dropSpaces1 rest with
          | some ('a' :: 's' :: r2) =>
            match dropSpaces1 r2 with
            | some al => if al.isEmpty then none else some ⟨inner, some al⟩
            | none => none
          | _ => none
      | _ => none
  | _ => none

theorem bracketDeclAt_eq (s : Str) : bracketDeclAt s = bdCore (compStrip s) := rfl

theorem bdCore_other (c : Char) (s : Str) (hc : c ≠ '[') : bdCore (c :: s) = none := by
  unfold bdCore
  split
  · rename_i heq; cases heq; exact absurd rfl hc
  · rfl

theorem bdCore_nil : bdCore [] = none := rfl

theorem bdCore_of_head (s : Str) (h : s.head? ≠ some '[') : bdCore s = none := by
  cases s with
  | nil => rfl
  | cons c s => exact bdCore_other c s (by intro hc; apply h; simp [hc])

theorem bdCore_bracket_gen (n rest : Str) (hn : NameLike n) :
    bdCore ('[' :: n ++ ']' :: rest) =
      if rest.isEmpty then some ⟨n, none⟩
      else match dropSpaces1 rest with
        | some ('a' :: 's' :: r2) =>
          match dropSpaces1 r2 with
          | some al => if al.isEmpty then none else some ⟨n, some al⟩
          | none => none
        | _ => none := by
  have hw : ∀ c ∈ n, isInnerChar c = true := fun c hc => nameChar_innerChar (hn.2 c hc)
  have hr : ∀ c ∈ (']' :: rest : Str).head?, isInnerChar c = false := by simp; decide
  have h1 := takeWhile_run n (']' :: rest) hw hr
  have h2 := dropWhile_run n (']' :: rest) hw hr
  have h3 : n.isEmpty = false := by simpa using hn.1
  simp only [List.cons_append, bdCore, h1, h2, h3, Bool.false_eq_true, if_false]

theorem bdCore_bracket_end (n : Str) (hn : NameLike n) : bdCore ('[' :: n ++ [']']) = some ⟨n, none⟩ := by
  rw [bdCore_bracket_gen n [] hn]; rfl

theorem bdCore_bracket_as (n al : Str) (hn : NameLike n) (hal : NameLike al) :
    bdCore ('[' :: n ++ ']' :: (kwAs ++ al)) = some ⟨n, some al⟩ := by
  rw [bdCore_bracket_gen n _ hn]
  obtain ⟨c, t, rfl, hc⟩ := hal.head
  have h1 : dropSpaces1 (' ' :: 'a' :: 's' :: ' ' :: c :: t) = some ('a' :: 's' :: ' ' :: c :: t) :=
    dropSpaces1_one 'a' _ (by decide)
  have h2 : dropSpaces1 (' ' :: c :: t) = some (c :: t) := dropSpaces1_one c _ (nameChar_not_space hc)
  simp [h1, h2, kwAs]

theorem bdCore_bracket_arrow (n : Str) (c : Char) (t : Str) (hn : NameLike n) (hc : isSpaceChar c = false)
    (hca : c ≠ 'a') : bdCore ('[' :: n ++ ']' :: ' ' :: c :: t) = none := by
  rw [bdCore_bracket_gen n _ hn, dropSpaces1_one c t hc]
  simp only [List.isEmpty_cons, Bool.false_eq_true, if_false]
  split
  · rename_i heq; simp only [Option.some.injEq, List.cons.injEq] at heq; exact absurd heq.1 hca
  · rfl

/-! ## the `component` prefix -/

theorem startsWith_run (pat w rest : Str) (hp : ∀ c ∈ pat, isNameChar c = true) (hrest : Stop rest)
    (h : startsWith pat (w ++ rest) = true) : ∃ w', w = pat ++ w' := by
  induction pat generalizing w with
  | nil => exact ⟨w, rfl⟩
  | cons a pat ih =>
    cases w with
    | nil =>
      cases rest with
      | nil => simp [startsWith] at h
      | cons x r =>
        simp only [List.nil_append, startsWith, Bool.and_eq_true, beq_iff_eq] at h
        have hx : isNameChar x = false := hrest x (by simp)
        rw [← h.1, hp a (by simp)] at hx
        cases hx
    | cons c w =>
      simp only [List.cons_append, startsWith, Bool.and_eq_true, beq_iff_eq] at h
      obtain ⟨w', hw'⟩ := ih w (fun c hc => hp c (by simp [hc])) h.2
      exact ⟨w', by rw [h.1, hw']; rfl⟩

theorem compStrip_other (c : Char) (s : Str) (hc : c ≠ 'c') : compStrip (c :: s) = c :: s := by
  have h : startsWith "component".toList (c :: s) = false := by
    rw [kw_component_eq]
    simp only [kwComponent, startsWith, Bool.and_eq_false_iff, beq_eq_false_iff_ne]
    exact Or.inl (fun h => hc h.symm)
  simp only [compStrip, h, Bool.false_eq_true, if_false]

theorem compStrip_comp_space (c : Char) (s : Str) (hc : isSpaceChar c = false) :
    compStrip (kwComponent ++ ' ' :: c :: s) = c :: s := by
  have h : startsWith "component".toList (kwComponent ++ ' ' :: c :: s) = true := by
    rw [kw_component_eq]
    simp [kwComponent, startsWith]
  have h2 : (kwComponent ++ ' ' :: c :: s).drop 9 = ' ' :: c :: s := by simp [kwComponent]
  simp only [compStrip, h, if_true, h2, dropSpaces1_one c s hc]

theorem dropSpaces1_head (rest r : Str) (h : dropSpaces1 rest = some r) : r = rest.dropWhile isSpaceChar := by
  cases rest with
  | nil => simp [dropSpaces1] at h
  | cons c t =>
    simp only [dropSpaces1] at h
    split at h
    · exact (Option.some.inj h).symm
    · cases h

theorem compStrip_run (w rest : Str) (hw : NameLike w) (hrest : Stop rest)
    (hr : (rest.dropWhile isSpaceChar).head? ≠ some '[') : (compStrip (w ++ rest)).head? ≠ some '[' := by
  have hhead : (w ++ rest).head? ≠ some '[' := by
    obtain ⟨c, t, rfl, hc⟩ := hw.head
    simp only [List.cons_append, List.head?_cons, ne_eq, Option.some.injEq]
    exact (nameChar_ne hc).1
  unfold compStrip
  split
  · rename_i hsw
    rw [kw_component_eq] at hsw
    obtain ⟨w', rfl⟩ := startsWith_run kwComponent w rest kwComponent_nameLike.2 hrest hsw
    have hd : (kwComponent ++ w' ++ rest).drop 9 = w' ++ rest := by simp [kwComponent]
    rw [hd]
    cases w' with
    | nil =>
      cases hds : dropSpaces1 ([] ++ rest) with
      | none => exact hhead
      | some r =>
        have := dropSpaces1_head _ _ hds
        simp only [List.nil_append] at this
        rw [this]; exact hr
    | cons c t =>
      have hc : isNameChar c = true := hw.2 c (by simp)
      rw [List.cons_append, dropSpaces1_nospace c _ (nameChar_not_space hc)]
      exact hhead
  · exact hhead

/-! ## skipping over parts of an arrow line -/

theorem bdScan_skip_char (c : Char) (s : Str) (h1 : c ≠ '[') (h2 : c ≠ 'c') : bdScan (c :: s) = bdScan s := by
  have h : bracketDeclAt (c :: s) = none := by
    rw [bracketDeclAt_eq, compStrip_other c s h2]; exact bdCore_other c s h1
  simp only [bdScan, h]

theorem bdScan_skip_run (w rest : Str) (hw : ∀ c ∈ w, isNameChar c = true) (hrest : Stop rest)
    (hr : (rest.dropWhile isSpaceChar).head? ≠ some '[') : bdScan (w ++ rest) = bdScan rest := by
  induction w with
  | nil => rfl
  | cons c w ih =>
    have h : bracketDeclAt (c :: w ++ rest) = none := by
      rw [bracketDeclAt_eq]
      exact bdCore_of_head _ (compStrip_run (c :: w) rest ⟨by simp, hw⟩ hrest hr)
    rw [List.cons_append] at h ⊢
    simp only [bdScan, h]
    exact ih (fun c hc => hw c (by simp [hc]))

theorem bdScan_nil : bdScan [] = none := rfl

theorem bdScan_hit (s : Str) (m : PModule) (h : bracketDeclAt s = some m) : bdScan s = some m := by
  cases s with
  | nil => rw [bracketDeclAt_nil] at h; cases h
  | cons c s => simp only [bdScan, h]

theorem dropWhile_space_nospace (c : Char) (s : Str) (hc : isSpaceChar c = false) :
    (c :: s).dropWhile isSpaceChar = c :: s := by
  simp [hc]

theorem bdScan_token (f : ArrowForm) (ht : f.textOK = true) (s : Str) :
    bdScan (' ' :: (f.token ++ ' ' :: s)) = bdScan s := by
  have sk := fun (c : Char) (s : Str) (h1 : c ≠ '[') (h2 : c ≠ 'c') => bdScan_skip_char c s h1 h2
  cases f with
  | r2 =>
    simp only [ArrowForm.token, List.cons_append, List.nil_append]
    iterate 5 rw [sk _ _ (by decide) (by decide)]
  | r1 =>
    simp only [ArrowForm.token, List.cons_append, List.nil_append]
    iterate 4 rw [sk _ _ (by decide) (by decide)]
  | l2 =>
    simp only [ArrowForm.token, List.cons_append, List.nil_append]
    iterate 5 rw [sk _ _ (by decide) (by decide)]
  | l1 =>
    simp only [ArrowForm.token, List.cons_append, List.nil_append]
    iterate 4 rw [sk _ _ (by decide) (by decide)]
  | rt t =>
    have hw : ∀ c ∈ t, isNameChar c = true := fun c hc => wordChar_nameChar ((wordOK_word ht).2 c hc)
    simp only [ArrowForm.token, List.cons_append, List.nil_append, List.append_assoc]
    iterate 2 rw [sk _ _ (by decide) (by decide)]
    rw [bdScan_skip_run t _ hw (stop_cons (by decide))
      (by rw [dropWhile_space_nospace _ _ (by decide)]; simp)]
    iterate 3 rw [sk _ _ (by decide) (by decide)]
  | lt t =>
    have hw : ∀ c ∈ t, isNameChar c = true := fun c hc => wordChar_nameChar ((wordOK_word ht).2 c hc)
    simp only [ArrowForm.token, List.cons_append, List.nil_append, List.append_assoc]
    iterate 3 rw [sk _ _ (by decide) (by decide)]
    rw [bdScan_skip_run t _ hw (stop_cons (by decide))
      (by rw [dropWhile_space_nospace _ _ (by decide)]; simp)]
    iterate 2 rw [sk _ _ (by decide) (by decide)]

/-- the token starts with `-` or `<` -/
theorem token_head' (f : ArrowForm) : ∃ c t, f.token = c :: t ∧ isSpaceChar c = false ∧ c ≠ 'a' ∧ c ≠ '[' := by
  cases f <;> exact ⟨_, _, rfl, by decide, by decide, by decide⟩

/-- scanning over the first reference of an arrow line -/
theorem bdScan_first_ref (r : DRef) (f : ArrowForm) (s : Str) (hw : NameLike r.written) :
    bdScan (r.render ++ ' ' :: (f.token ++ s)) = bdScan (' ' :: (f.token ++ s)) := by
  obtain ⟨c, t, htok, hc1, hc2, hc3⟩ := token_head' f
  have hr : ((' ' :: (f.token ++ s)).dropWhile isSpaceChar).head? ≠ some '[' := by
    rw [htok]
    have h1 : isSpaceChar ' ' = true := by decide
    simp only [List.cons_append, List.dropWhile_cons, h1, if_true, hc1, Bool.false_eq_true, if_false,
      List.head?_cons, ne_eq, Option.some.injEq]
    exact hc3
  cases r with
  | bare n => exact bdScan_skip_run n _ hw.2 (stop_space _) hr
  | viaAlias a => exact bdScan_skip_run a _ hw.2 (stop_space _) hr
  | bracketed n =>
    simp only [DRef.render, List.cons_append, List.append_assoc, List.nil_append]
    have h : bracketDeclAt ('[' :: (n ++ ']' :: ' ' :: (f.token ++ s))) = none := by
      rw [bracketDeclAt_eq, compStrip_other _ _ (by decide), htok]
      exact bdCore_bracket_arrow n c (t ++ s) hw hc1 hc2
    simp only [bdScan, h]
    rw [bdScan_skip_run n _ hw.2 (stop_close _)
      (by rw [dropWhile_space_nospace _ _ (by decide)]; simp)]
    exact bdScan_skip_char _ _ (by decide) (by decide)

/-- scanning the last reference of an arrow line -/
theorem bdScan_last_ref (r : DRef) (hw : NameLike r.written) :
    bdScan r.render = r.inlineModule.head? := by
  cases r with
  | bare n =>
    have := bdScan_skip_run n [] hw.2 stop_nil (by simp)
    simpa [DRef.render, bdScan_nil, DRef.inlineModule] using this
  | viaAlias a =>
    have := bdScan_skip_run a [] hw.2 stop_nil (by simp)
    simpa [DRef.render, bdScan_nil, DRef.inlineModule] using this
  | bracketed n =>
    apply bdScan_hit
    rw [bracketDeclAt_eq, DRef.render, List.cons_append, compStrip_other _ _ (by decide)]
    exact bdCore_bracket_end n hw

/-! ## `lineModules` -/

/-- first alternative `^component\s+NAME` -/
def compFirst (line : Str) : Option PModule :=
  if startsWith "component".toList line then
    match dropSpaces1 (line.drop 9) with
    | some r => let n := r.takeWhile isNameChar; if n.isEmpty then none else some ⟨n, none⟩
    | none => none
  else none

theorem lineModules_eq (line : Str) :
    lineModules line =
      match compFirst line with
      | some m =>
        m :: (match bracketDecl (((line.drop 9).dropWhile isSpaceChar).dropWhile isNameChar) with
              | some b => [b] | none => [])
      | none => match bracketDecl line with | some b => [b] | none => [] := rfl

theorem compFirst_other (c : Char) (s : Str) (hc : c ≠ 'c') : compFirst (c :: s) = none := by
  have h : startsWith "component".toList (c :: s) = false := by
    rw [kw_component_eq]
    simp only [kwComponent, startsWith, Bool.and_eq_false_iff, beq_eq_false_iff_ne]
    exact Or.inl (fun h => hc h.symm)
  simp only [compFirst, h, Bool.false_eq_true, if_false]

theorem compFirst_word_then (w : Str) (c : Char) (s : Str) (hw : ∀ x ∈ w, isNameChar x = true)
    (hc1 : isSpaceChar c = false) (hc2 : isNameChar c = false) :
    compFirst (w ++ ' ' :: c :: s) = none := by
  unfold compFirst
  split
  · rename_i hsw
    rw [kw_component_eq] at hsw
    obtain ⟨w', rfl⟩ := startsWith_run kwComponent w _ kwComponent_nameLike.2 (stop_space _) hsw
    have hd : (kwComponent ++ w' ++ ' ' :: c :: s).drop 9 = w' ++ ' ' :: c :: s := by simp [kwComponent]
    rw [hd]
    cases w' with
    | nil =>
      simp only [List.nil_append, dropSpaces1_one c s hc1, List.takeWhile_cons, hc2, Bool.false_eq_true,
        if_false, List.isEmpty_nil, if_true]
    | cons x t =>
      have hx : isNameChar x = true := hw x (by simp)
      rw [List.cons_append, dropSpaces1_nospace x _ (nameChar_not_space hx)]
  · rfl

theorem compFirst_comp_name (n : Str) (hn : NameLike n) :
    compFirst (kwComponent ++ ' ' :: n) = some ⟨n, none⟩ := by
  obtain ⟨c, t, rfl, hc⟩ := hn.head
  have h : startsWith "component".toList (kwComponent ++ ' ' :: c :: t) = true := by
    rw [kw_component_eq]
    simp [kwComponent, startsWith]
  have h2 : (kwComponent ++ ' ' :: c :: t).drop 9 = ' ' :: c :: t := by simp [kwComponent]
  have h3 : (c :: t).takeWhile isNameChar = c :: t := by
    have := takeWhile_run (c :: t) [] hn.2 (by simp)
    simpa using this
  simp only [compFirst, h, if_true, h2, dropSpaces1_one c t (nameChar_not_space hc), h3, List.isEmpty_cons,
    Bool.false_eq_true, if_false]

theorem renderDecl_bracket (n : Str) (al : Option Str) :
    renderDecl .bracket n al = '[' :: (n ++ ']' :: renderAlias al) := by
  simp [renderDecl]

theorem renderDecl_compBracket (n : Str) (al : Option Str) :
    renderDecl .compBracket n al = kwComponent ++ ' ' :: '[' :: (n ++ ']' :: renderAlias al) := by
  simp [renderDecl]

theorem lineModules_decl_lemma (f : DeclForm) (n : Str) (al : Option Str) (hn : NameLike n)
    (hal : ∀ a, al = some a → NameLike a ∧ f ≠ .compBare) :
    lineModules (renderDecl f n al) = [⟨n, if f = .compBare then none else al⟩] := by
  cases f with
  | bracket =>
    have h1 : compFirst (renderDecl .bracket n al) = none := compFirst_other _ _ (by decide)
    have h2 : bracketDecl (renderDecl .bracket n al) = some ⟨n, al⟩ := by
      rw [bracketDecl_eq]
      apply bdScan_hit
      rw [bracketDeclAt_eq, renderDecl_bracket, compStrip_other _ _ (by decide)]
      cases al with
      | none => exact bdCore_bracket_end n hn
      | some a => exact bdCore_bracket_as n a hn (hal a rfl).1
    rw [lineModules_eq, h1]
    simp only [h2]
    simp
  | compBracket =>
    have h1 : compFirst (renderDecl .compBracket n al) = none := by
      have := compFirst_word_then kwComponent '[' (n ++ ']' :: renderAlias al) kwComponent_nameLike.2
        (by decide) (by decide)
      simpa [renderDecl] using this
    have h2 : bracketDecl (renderDecl .compBracket n al) = some ⟨n, al⟩ := by
      rw [bracketDecl_eq]
      apply bdScan_hit
      rw [bracketDeclAt_eq, renderDecl_compBracket, compStrip_comp_space _ _ (by decide)]
      cases al with
      | none => exact bdCore_bracket_end n hn
      | some a => exact bdCore_bracket_as n a hn (hal a rfl).1
    rw [lineModules_eq, h1]
    simp only [h2]
    simp
  | compBare =>
    have h1 : compFirst (renderDecl .compBare n al) = some ⟨n, none⟩ := compFirst_comp_name n hn
    have h2 : (((renderDecl .compBare n al).drop 9).dropWhile isSpaceChar).dropWhile isNameChar = [] := by
      obtain ⟨c, t, rfl, hc⟩ := hn.head
      have hd : (kwComponent ++ ' ' :: c :: t).drop 9 = ' ' :: c :: t := by simp [kwComponent]
      have h3 : (c :: t).dropWhile isNameChar = [] := by
        have := dropWhile_run (c :: t) [] hn.2 (by simp)
        simpa using this
      have h1 : isSpaceChar ' ' = true := by decide
      rw [renderDecl, hd, List.dropWhile_cons, if_pos h1, dropWhile_space_nospace c t (nameChar_not_space hc), h3]
    rw [lineModules_eq, h1]
    simp only [h2, bracketDecl_eq, bdScan_nil]
    simp

theorem token_head'' (f : ArrowForm) :
    ∃ c t, f.token = c :: t ∧ isSpaceChar c = false ∧ isNameChar c = false := by
  cases f <;> exact ⟨_, _, rfl, by decide, by decide⟩

theorem lineModules_two_refs (r1 r2 : DRef) (f : ArrowForm) (ht : f.textOK = true)
    (h1 : NameLike r1.written) (h2 : NameLike r2.written) :
    lineModules (r1.render ++ ' ' :: (f.token ++ ' ' :: r2.render)) = r2.inlineModule := by
  have hc : compFirst (r1.render ++ ' ' :: (f.token ++ ' ' :: r2.render)) = none := by
    obtain ⟨c, t, htok, hc1, hc2⟩ := token_head'' f
    rw [htok]
    cases r1 with
    | bare n => exact compFirst_word_then n c _ h1.2 hc1 hc2
    | viaAlias a => exact compFirst_word_then a c _ h1.2 hc1 hc2
    | bracketed n => exact compFirst_other _ _ (by decide)
  have hb : bracketDecl (r1.render ++ ' ' :: (f.token ++ ' ' :: r2.render)) = r2.inlineModule.head? := by
    rw [bracketDecl_eq, bdScan_first_ref r1 f _ h1, bdScan_token f ht, bdScan_last_ref r2 h2]
  rw [lineModules_eq, hc]
  simp only [hb]
  cases r2 <;> rfl

theorem lineModules_arrow_lemma (f : ArrowForm) (a b : DRef) (ht : f.textOK = true)
    (ha : NameLike a.written) (hb : NameLike b.written) :
    lineModules (renderArrow f a b) = (lastRef f a b).inlineModule := by
  cases hf : f.isRight with
  | true =>
    rw [renderArrow_right f a b hf, lineModules_two_refs a b f ht ha hb]
    simp [lastRef, hf]
  | false =>
    rw [renderArrow_left f a b hf, lineModules_two_refs b a f ht hb ha]
    simp [lastRef, hf]

end Pta
