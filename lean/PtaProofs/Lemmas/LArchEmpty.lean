/-
  PtaProofs.Lemmas.LArchEmpty — `containing_modules([])` in LayeredArchitecture histories (property C16):
  the specification automaton on appended histories, and the consequence that an empty module list keeps the
  pending layer open (so a following `layer(...)` call is rejected, by the automaton and by the builder model).
-/
import Bridge.Abs
import PtaProofs.Lemmas.LArchSim
namespace Pta.Hist
open PtaSpec

/-- the automaton on an appended history: run the accepted prefix, continue from its final state -/
theorem classifyLArchFrom_append (cs cs' : List LCall) (t t' : LTrack) (i : Nat)
    (h : classifyLArchFrom t i cs = .accepted t') :
    classifyLArchFrom t i (cs ++ cs') = classifyLArchFrom t' (i + cs.length) cs' := by
  induction cs generalizing t i with
  | nil =>
    simp only [classifyLArchFrom, LOutcome.accepted.injEq] at h
    subst h
    rfl
  | cons c cs ih =>
    simp only [classifyLArchFrom, List.cons_append, List.length_cons] at h ⊢
    cases hs : t.step c with
    | reject => rw [hs] at h; cases h
    | dontCare => rw [hs] at h; cases h
    | ok t1 =>
      rw [hs] at h
      simp only at h ⊢
      rw [ih t1 (i + 1) h]
      congr 1
      omega

/-- an empty module list on an open layer changes nothing -/
theorem step_modules_nil_open (t : LTrack) (n : List Char) (ho : t.opened = some n) :
    t.step (.modules []) = .ok t := by
  simp [LTrack.step, ho]

theorem classify_empty_then_layer (t : LTrack) (n m : List Char) (i : Nat) (ho : t.opened = some n) :
    classifyLArchFrom t i [.modules [], .layer m] = .rejectedAt (i + 1) := by
  simp [classifyLArchFrom, LTrack.step, ho]

theorem classify_empty_noop (t : LTrack) (n : List Char) (i : Nat) (ho : t.opened = some n) :
    classifyLArchFrom t i [.modules []] = .accepted t := by
  simp [classifyLArchFrom, LTrack.step, ho]

theorem classify_modules_closed (t : LTrack) (ms : List (List Char)) (i : Nat) (ho : t.opened = none)
    (rest : List LCall) :
    classifyLArchFrom t i (.modules ms :: rest) = .rejectedAt i := by
  simp [classifyLArchFrom, LTrack.step, ho]

/-- specification side: after a history that leaves layer `n` open, `containing_modules([])` followed by
    `layer(m)` is rejected at the `layer` call -/
theorem spec_empty_keeps_open_aux (cs : List LCall) (t : LTrack) (n m : List Char)
    (hacc : classifyLArch cs = .accepted t) (ho : t.opened = some n) :
    classifyLArch (cs ++ [.modules [], .layer m]) = .rejectedAt (cs.length + 1) := by
  unfold classifyLArch at hacc ⊢
  rw [classifyLArchFrom_append cs _ {} t 0 hacc, classify_empty_then_layer t n m _ ho]
  simp

theorem spec_empty_noop_aux (cs : List LCall) (t : LTrack) (n : List Char)
    (hacc : classifyLArch cs = .accepted t) (ho : t.opened = some n) :
    classifyLArch (cs ++ [.modules []]) = .accepted t := by
  unfold classifyLArch at hacc ⊢
  rw [classifyLArchFrom_append cs _ {} t 0 hacc, classify_empty_noop t n _ ho]

theorem spec_empty_closed_aux (cs : List LCall) (t : LTrack) (rest : List LCall)
    (hacc : classifyLArch cs = .accepted t) (ho : t.opened = none) :
    classifyLArch (cs ++ .modules [] :: rest) = .rejectedAt cs.length := by
  unfold classifyLArch at hacc ⊢
  rw [classifyLArchFrom_append cs _ {} t 0 hacc, classify_modules_closed t [] _ ho]
  simp

/-- the model run on an appended history -/
theorem runLArch_go_append (ops ops' : List LArchOp) (a : LArch) (i : Nat) (a' : LArch)
    (h : runLArch.go a i ops = .ok a') :
    runLArch.go a i (ops ++ ops') = runLArch.go a' (i + ops.length) ops' := by
  induction ops generalizing a i with
  | nil => simp only [runLArch.go, Except.ok.injEq] at h; subst h; rfl
  | cons op rest ih =>
    simp only [runLArch.go, List.cons_append, List.length_cons] at h ⊢
    cases hs : a.step op with
    | error k => rw [hs] at h; cases h
    | ok a1 =>
      rw [hs] at h
      simp only at h ⊢
      rw [ih a1 (i + 1) h]
      congr 1
      omega

/-- specification and model: the empty list keeps the layer open -/
theorem empty_keeps_open_aux (h : List LArchOp) (t : LTrack) (n m : Str)
    (hacc : classifyLArch (h.map toLCall) = .accepted t) (ho : t.opened = some n) :
    classifyLArch ((h ++ [LArchOp.containingModules [], LArchOp.layer m]).map toLCall) = .rejectedAt (h.length + 1) ∧
    runLArch (h ++ [LArchOp.containingModules [], LArchOp.layer m]) = .error (.improperlyConfigured, h.length + 1) := by
  have hspec : classifyLArch ((h ++ [LArchOp.containingModules [], LArchOp.layer m]).map toLCall) = .rejectedAt (h.length + 1) := by
    have := spec_empty_keeps_open_aux (h.map toLCall) t n m hacc ho
    simpa [toLCall] using this
  refine ⟨hspec, ?_⟩
  have href := larch_refines_aux (h ++ [LArchOp.containingModules [], LArchOp.layer m])
  rw [hspec] at href
  exact href

/-- … and the empty list itself is accepted by both, the model state still listing layer `n` as pending (last, empty) -/
theorem empty_noop_aux (h : List LArchOp) (t : LTrack) (n : Str)
    (hacc : classifyLArch (h.map toLCall) = .accepted t) (ho : t.opened = some n) :
    classifyLArch ((h ++ [LArchOp.containingModules []]).map toLCall) = .accepted t ∧
    ∃ a, runLArch (h ++ [LArchOp.containingModules []]) = .ok a ∧ runLArch h = .ok a ∧ a.pending = [n] := by
  have hspec : classifyLArch ((h ++ [LArchOp.containingModules []]).map toLCall) = .accepted t := by
    have := spec_empty_noop_aux (h.map toLCall) t n hacc ho
    simpa [toLCall] using this
  refine ⟨hspec, ?_⟩
  have h1 := larch_go_refines h [] {} 0 lsim_init
  unfold classifyLArch at hacc
  rw [hacc] at h1
  obtain ⟨a, hr, c, hsh, _⟩ := h1
  rw [ho] at hsh
  have hstep : a.step (.containingModules []) = .ok a := by
    rw [step_modules_open hsh []]
    simp only [List.any_nil, Bool.false_eq_true, if_false, List.map_nil]
    rw [hsh.eq]; rfl
  refine ⟨a, ?_, hr, by rw [pending_shape hsh]; rfl⟩
  unfold runLArch
  rw [runLArch_go_append h _ [] 0 a hr]
  simp only [runLArch.go, hstep]

/-- without an open layer the empty list is rejected at that call, like a non-empty one -/
theorem empty_closed_aux (h rest : List LArchOp) (t : LTrack)
    (hacc : classifyLArch (h.map toLCall) = .accepted t) (ho : t.opened = none) :
    classifyLArch ((h ++ LArchOp.containingModules [] :: rest).map toLCall) = .rejectedAt h.length ∧
    runLArch (h ++ LArchOp.containingModules [] :: rest) = .error (.improperlyConfigured, h.length) := by
  have hspec : classifyLArch ((h ++ LArchOp.containingModules [] :: rest).map toLCall) = .rejectedAt h.length := by
    have := spec_empty_closed_aux (h.map toLCall) t (rest.map toLCall) hacc ho
    simpa [toLCall] using this
  refine ⟨hspec, ?_⟩
  have href := larch_refines_aux (h ++ LArchOp.containingModules [] :: rest)
  rw [hspec] at href
  exact href

end Pta.Hist
