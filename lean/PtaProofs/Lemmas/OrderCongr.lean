/-
  PtaProofs.Lemmas.OrderCongr — helper lemmas (namespace `Pta.Ord`) behind PtaProofs/Lemmas/Order.lean:
  the verdict class only depends on the member SETS of the node list, the three edge relations and the
  (converted) subject / object lists. Technique: relation lifting to `Except ErrKind` (`ERel`), "same members"
  (`SM`) on inputs, and "same emptiness" (`NilRel`) on the query results, which is all `detect` looks at.
-/
import Bridge.Abs
import PtaProofs.Lemmas.SearchChar
import PtaProofs.Lemmas.Expansion
import PtaProofs.Lemmas.Build
import PtaProofs.Lemmas.QueryErr
namespace Pta.Ord
open Pta PtaSpec

/-- same members -/
def SM {α : Type} (l l' : List α) : Prop := ∀ x, x ∈ l ↔ x ∈ l'

theorem SM.refl {α : Type} (l : List α) : SM l l := fun _ => Iff.rfl
theorem SM.of_perm {α : Type} {l l' : List α} (h : l.Perm l') : SM l l' := fun _ => h.mem_iff
theorem SM.nil_iff {α : Type} {l l' : List α} (h : SM l l') : l = [] ↔ l' = [] := by
  constructor
  · intro e; subst e
    apply List.eq_nil_iff_forall_not_mem.2
    intro x hx; exact absurd ((h x).2 hx) (by simp)
  · intro e; subst e
    apply List.eq_nil_iff_forall_not_mem.2
    intro x hx; exact absurd ((h x).1 hx) (by simp)

theorem SM.dedup {α : Type} [DecidableEq α] {l l' : List α} (h : SM l l') : SM (dedup l) (dedup l') := by
  intro x; rw [mem_dedup, mem_dedup]; exact h x

/-- relation lifting to `Except ErrKind` -/
def ERel {α β : Type} (R : α → β → Prop) : Except ErrKind α → Except ErrKind β → Prop
  | .error a, .error b => a = b
  | .ok a, .ok b => R a b
  | _, _ => False

theorem ERel.mono {α β : Type} {R S : α → β → Prop} {x : Except ErrKind α} {y : Except ErrKind β}
    (h : ERel R x y) (hRS : ∀ a b, R a b → S a b) : ERel S x y := by
  cases x <;> cases y <;> simp_all [ERel]

theorem ERel.bind_pure {α β α' β' : Type} {R : α → β → Prop} {S : α' → β' → Prop}
    {x : Except ErrKind α} {y : Except ErrKind β} (k : α → α') (k' : β → β')
    (h : ERel R x y) (hk : ∀ a b, R a b → S (k a) (k' b)) :
    ERel S (do let d ← x; pure (k d)) (do let d ← y; pure (k' d)) := by
  cases x <;> cases y <;> simp_all [ERel, bind, Except.bind, pure, Except.pure]

/-- both directions of "every element has a related partner" -/
def LRel {α β : Type} (R : α → β → Prop) (r : List α) (r' : List β) : Prop :=
  (∀ y ∈ r, ∃ y' ∈ r', R y y') ∧ (∀ y' ∈ r', ∃ y ∈ r, R y y')

def ORel {α β : Type} (R : α → β → Prop) : Option α → Option β → Prop
  | none, none => True
  | some a, some b => R a b
  | _, _ => False

/-! ### graph equivalence -/

theorem reach_congr {g g' : PGraph Str} (h : GraphEquiv g g') (a b : Str) : Reach g a b ↔ Reach g' a b := by
  constructor
  · intro hr
    induction hr with
    | refl => exact .refl _
    | step _ hc ih => exact .step ih ((h.hier _ _).1 hc)
  · intro hr
    induction hr with
    | refl => exact .refl _
    | step _ hc ih => exact .step ih ((h.hier _ _).2 hc)

theorem hasNode_congr {g g' : PGraph Str} (h : GraphEquiv g g') (s : Str) : g.hasNode s = g'.hasNode s := by
  unfold PGraph.hasNode
  rw [Bool.eq_iff_iff]
  simp only [List.contains_iff_mem]
  exact h.nodes s

theorem mem_parentIds (fs : List Filter) (x : Str) : x ∈ parentIds fs ↔ ∃ f ∈ fs, f.isParent = true ∧ f.id = x := by
  unfold parentIds
  simp only [List.mem_map, List.mem_filter, and_assoc]

theorem parentIds_congr {fs fs' : List Filter} (h : SM fs fs') (x : Str) : x ∈ parentIds fs ↔ x ∈ parentIds fs' := by
  rw [mem_parentIds, mem_parentIds]
  constructor
  · rintro ⟨f, hf, h1⟩; exact ⟨f, (h f).1 hf, h1⟩
  · rintro ⟨f, hf, h1⟩; exact ⟨f, (h f).2 hf, h1⟩

theorem depBetween_congr {g g' : PGraph Str} (h : GraphEquiv g g') (f o : Filter) :
    ERel SM (depBetween g f o) (depBetween g' f o) := by
  by_cases hn : g.hasNode f.id = true ∧ g.hasNode o.id = true
  · obtain ⟨l, hl, hm⟩ := depBetween_ok g f o hn.1 hn.2
    rw [hasNode_congr h, hasNode_congr h] at hn
    obtain ⟨l', hl', hm'⟩ := depBetween_ok g' f o hn.1 hn.2
    rw [hl, hl']
    rintro ⟨u, v⟩
    rw [hm, hm', reach_congr h, reach_congr h, h.succs]
  · have hn1 : g.hasNode f.id = false ∨ g.hasNode o.id = false := by
      cases h1 : g.hasNode f.id <;> cases h2 : g.hasNode o.id <;> simp_all
    rw [depBetween_err g f o hn1]
    rw [hasNode_congr h, hasNode_congr h] at hn1
    rw [depBetween_err g' f o hn1]
    rfl

theorem otherFrom_congr {g g' : PGraph Str} (h : GraphEquiv g g') (f : Filter) (os os' : List Filter) (hos : SM os os') :
    ERel SM (otherFrom g f os) (otherFrom g' f os') := by
  by_cases hn : g.hasNode f.id = true ∧ ∀ o ∈ os, g.hasNode o.id = true
  · obtain ⟨l, hl, hm⟩ := otherFrom_ok g f os hn.1 hn.2
    have hn' : g'.hasNode f.id = true ∧ ∀ o ∈ os', g'.hasNode o.id = true := by
      refine ⟨by rw [← hasNode_congr h]; exact hn.1, fun o ho => ?_⟩
      rw [← hasNode_congr h]; exact hn.2 o ((hos o).2 ho)
    obtain ⟨l', hl', hm'⟩ := otherFrom_ok g' f os' hn'.1 hn'.2
    rw [hl, hl']
    rintro ⟨u, v⟩
    rw [hm, hm', reach_congr h, reach_congr h, h.succs, parentIds_congr hos]
    have : (∃ o ∈ os, o ≠ f ∧ Reach g o.id v) ↔ (∃ o ∈ os', o ≠ f ∧ Reach g' o.id v) := by
      constructor
      · rintro ⟨o, ho, h1, h2⟩; exact ⟨o, (hos o).1 ho, h1, (reach_congr h _ _).1 h2⟩
      · rintro ⟨o, ho, h1, h2⟩; exact ⟨o, (hos o).2 ho, h1, (reach_congr h _ _).2 h2⟩
    rw [this]
  · have hn1 : g.hasNode f.id = false ∨ ∃ o ∈ os, o ≠ f ∧ g.hasNode o.id = false := by
      cases h1 : g.hasNode f.id
      · exact .inl rfl
      · right
        have hn2 : ¬ ∀ o ∈ os, g.hasNode o.id = true := fun hh => hn ⟨h1, hh⟩
        apply Classical.byContradiction; intro hc; apply hn2; intro o ho
        cases h2 : g.hasNode o.id
        · exfalso; apply hc; refine ⟨o, ho, ?_, h2⟩; intro e; subst e; rw [h1] at h2; cases h2
        · rfl
    rw [otherFrom_err g f os hn1]
    have hn2 : g'.hasNode f.id = false ∨ ∃ o ∈ os', o ≠ f ∧ g'.hasNode o.id = false := by
      rcases hn1 with h1 | ⟨o, ho, h1, h2⟩
      · left; rw [← hasNode_congr h]; exact h1
      · right; exact ⟨o, (hos o).1 ho, h1, by rw [← hasNode_congr h]; exact h2⟩
    rw [otherFrom_err g' f os' hn2]
    rfl

theorem otherTo_congr {g g' : PGraph Str} (h : GraphEquiv g g') (fs fs' : List Filter) (o : Filter) (hfs : SM fs fs') :
    ERel SM (otherTo g fs o) (otherTo g' fs' o) := by
  by_cases hn : g.hasNode o.id = true ∧ ∀ f ∈ fs, g.hasNode f.id = true
  · obtain ⟨l, hl, hm⟩ := otherTo_ok g fs o hn.1 hn.2
    have hn' : g'.hasNode o.id = true ∧ ∀ f ∈ fs', g'.hasNode f.id = true := by
      refine ⟨by rw [← hasNode_congr h]; exact hn.1, fun f hf => ?_⟩
      rw [← hasNode_congr h]; exact hn.2 f ((hfs f).2 hf)
    obtain ⟨l', hl', hm'⟩ := otherTo_ok g' fs' o hn'.1 hn'.2
    rw [hl, hl']
    rintro ⟨p, n⟩
    rw [hm, hm', reach_congr h, reach_congr h, h.preds, parentIds_congr hfs]
    have : (∃ f ∈ fs, f ≠ o ∧ Reach g f.id p) ↔ (∃ f ∈ fs', f ≠ o ∧ Reach g' f.id p) := by
      constructor
      · rintro ⟨f, hf, h1, h2⟩; exact ⟨f, (hfs f).1 hf, h1, (reach_congr h _ _).1 h2⟩
      · rintro ⟨f, hf, h1, h2⟩; exact ⟨f, (hfs f).2 hf, h1, (reach_congr h _ _).2 h2⟩
    rw [this]
  · have hn1 : g.hasNode o.id = false ∨ ∃ f ∈ fs, f ≠ o ∧ g.hasNode f.id = false := by
      cases h1 : g.hasNode o.id
      · exact .inl rfl
      · right
        have hn2 : ¬ ∀ f ∈ fs, g.hasNode f.id = true := fun hh => hn ⟨h1, hh⟩
        apply Classical.byContradiction; intro hc; apply hn2; intro f hf
        cases h2 : g.hasNode f.id
        · exfalso; apply hc; refine ⟨f, hf, ?_, h2⟩; intro e; subst e; rw [h1] at h2; cases h2
        · rfl
    rw [otherTo_err g fs o hn1]
    have hn2 : g'.hasNode o.id = false ∨ ∃ f ∈ fs', f ≠ o ∧ g'.hasNode f.id = false := by
      rcases hn1 with h1 | ⟨f, hf, h1, h2⟩
      · left; rw [← hasNode_congr h]; exact h1
      · right; exact ⟨f, (hfs f).1 hf, h1, by rw [← hasNode_congr h]; exact h2⟩
    rw [otherTo_err g' fs' o hn2]
    rfl

/-! ### `mapM` -/

theorem mapM_char {α β : Type} (f : α → Except ErrKind β) (e0 : ErrKind) (l : List α)
    (hall : ∀ x ∈ l, ∀ e, f x = .error e → e = e0) :
    ((∃ x ∈ l, ∃ e, f x = .error e) → l.mapM f = .error e0) ∧
    ((∀ x ∈ l, ∃ y, f x = .ok y) → ∃ r, l.mapM f = .ok r ∧ (∀ y ∈ r, ∃ x ∈ l, f x = .ok y) ∧ (∀ x ∈ l, ∃ y ∈ r, f x = .ok y)) := by
  induction l with
  | nil =>
    refine ⟨?_, fun _ => ⟨[], rfl, by simp, by simp⟩⟩
    rintro ⟨x, hx, _⟩; cases hx
  | cons a l ih =>
    have ih' := ih (fun x hx => hall x (List.mem_cons_of_mem _ hx))
    rw [List.mapM_cons]
    constructor
    · rintro ⟨x, hx, e, he⟩
      cases hfa : f a with
      | error e' =>
        simp only [bind, Except.bind]
        rw [hall a (by simp) _ hfa]
      | ok b =>
        simp only [bind, Except.bind]
        rcases List.mem_cons.mp hx with rfl | hx
        · rw [hfa] at he; cases he
        · rw [ih'.1 ⟨x, hx, e, he⟩]
    · intro hok
      obtain ⟨b, hb⟩ := hok a (by simp)
      obtain ⟨r, hr, h1, h2⟩ := ih'.2 (fun x hx => hok x (List.mem_cons_of_mem _ hx))
      refine ⟨b :: r, by simp [hb, hr, bind, Except.bind, pure, Except.pure], ?_, ?_⟩
      · intro y hy
        rcases List.mem_cons.mp hy with rfl | hy
        · exact ⟨a, by simp, hb⟩
        · obtain ⟨x, hx, hxy⟩ := h1 y hy; exact ⟨x, List.mem_cons_of_mem _ hx, hxy⟩
      · intro x hx
        rcases List.mem_cons.mp hx with rfl | hx
        · exact ⟨b, by simp, hb⟩
        · obtain ⟨y, hy, hxy⟩ := h2 x hx; exact ⟨y, List.mem_cons_of_mem _ hy, hxy⟩

theorem ERel.error_left {α β : Type} {R : α → β → Prop} {e : ErrKind} {y : Except ErrKind β}
    (h : ERel R (.error e) y) : y = .error e := by
  cases y <;> simp_all [ERel]

theorem ERel.error_right {α β : Type} {R : α → β → Prop} {e : ErrKind} {x : Except ErrKind α}
    (h : ERel R x (.error e)) : x = .error e := by
  cases x <;> simp_all [ERel]

theorem ERel.ok_left {α β : Type} {R : α → β → Prop} {a : α} {y : Except ErrKind β}
    (h : ERel R (.ok a) y) : ∃ b, y = .ok b ∧ R a b := by
  cases y <;> simp_all [ERel]

theorem mapM_congr {α β β' : Type} (f : α → Except ErrKind β) (f' : α → Except ErrKind β') (R : β → β' → Prop)
    (e0 : ErrKind) (l l' : List α) (hl : SM l l') (hf : ∀ x ∈ l, ERel R (f x) (f' x))
    (he : ∀ x ∈ l, ∀ e, f x = .error e → e = e0) :
    ERel (LRel R) (l.mapM f) (l'.mapM f') := by
  have he' : ∀ x ∈ l', ∀ e, f' x = .error e → e = e0 := by
    intro x hx e hfe
    have hx' := (hl x).2 hx
    have := hf x hx'
    rw [hfe] at this
    exact he x hx' e this.error_right
  obtain ⟨c1, c2⟩ := mapM_char f e0 l he
  obtain ⟨c1', c2'⟩ := mapM_char f' e0 l' he'
  by_cases hx : ∃ x ∈ l, ∃ e, f x = .error e
  · rw [c1 hx]
    obtain ⟨x, hxl, e, hxe⟩ := hx
    have := hf x hxl
    rw [hxe] at this
    rw [c1' ⟨x, (hl x).1 hxl, e, this.error_left⟩]
    rfl
  · have hok : ∀ x ∈ l, ∃ y, f x = .ok y := by
      intro x hxl
      cases hfx : f x with
      | error e => exact absurd ⟨x, hxl, e, hfx⟩ hx
      | ok y => exact ⟨y, rfl⟩
    have hok' : ∀ x ∈ l', ∃ y, f' x = .ok y := by
      intro x hxl
      have hxl' := (hl x).2 hxl
      obtain ⟨y, hy⟩ := hok x hxl'
      have := hf x hxl'
      rw [hy] at this
      obtain ⟨b, hb, _⟩ := this.ok_left
      exact ⟨b, hb⟩
    obtain ⟨r, hr, h1, h2⟩ := c2 hok
    obtain ⟨r', hr', h1', h2'⟩ := c2' hok'
    rw [hr, hr']
    constructor
    · intro y hy
      obtain ⟨x, hxl, hxy⟩ := h1 y hy
      obtain ⟨y', hy', hxy'⟩ := h2' x ((hl x).1 hxl)
      have := hf x hxl
      rw [hxy, hxy'] at this
      exact ⟨y', hy', this⟩
    · intro y' hy'
      obtain ⟨x, hxl, hxy'⟩ := h1' y' hy'
      obtain ⟨y, hy, hxy⟩ := h2 x ((hl x).2 hxl)
      have := hf x ((hl x).2 hxl)
      rw [hxy, hxy'] at this
      exact ⟨y, hy, this⟩

/-! ### the three queries -/

/-- only emptiness of the found dependencies matters -/
def NilRel {κ κ' : Type} (kd : κ × List (Str × Str)) (kd' : κ' × List (Str × Str)) : Prop := kd.2 = [] ↔ kd'.2 = []

theorem getDependencies_congr {g g' : PGraph Str} (h : GraphEquiv g g') (A A' B B' : List Filter)
    (hA : SM A A') (hB : SM B B') :
    ERel (LRel NilRel) (getDependencies g A B) (getDependencies g' A' B') := by
  unfold getDependencies
  apply mapM_congr _ _ _ .lookupError
  · rintro ⟨f, o⟩
    simp only [List.mem_flatMap, List.mem_map, mem_dedup, Prod.mk.injEq]
    constructor
    · rintro ⟨f', hf, o', ho, rfl, rfl⟩; exact ⟨f', (hA _).1 hf, o', (hB _).1 ho, rfl, rfl⟩
    · rintro ⟨f', hf, o', ho, rfl, rfl⟩; exact ⟨f', (hA _).2 hf, o', (hB _).2 ho, rfl, rfl⟩
  · intro fo _
    exact (depBetween_congr h fo.1 fo.2).bind_pure _ _ (fun a b hab => hab.nil_iff)
  · intro fo _ e he
    exact Pta.Hist.depBetween_err _ _ _ _ (Pta.Hist.bind_pure_err _ _ _ he)

theorem getOtherFrom_congr {g g' : PGraph Str} (h : GraphEquiv g g') (A A' B B' : List Filter)
    (hA : SM A A') (hB : SM B B') :
    ERel (LRel NilRel) (getOtherFrom g A B) (getOtherFrom g' A' B') := by
  unfold getOtherFrom
  apply mapM_congr _ _ _ .lookupError
  · exact hA.dedup
  · intro f _
    exact (otherFrom_congr h f _ _ hB.dedup).bind_pure _ _ (fun a b hab => hab.nil_iff)
  · intro f _ e he
    exact Pta.Hist.otherFrom_err _ _ _ _ (Pta.Hist.bind_pure_err _ _ _ he)

theorem getOtherTo_congr {g g' : PGraph Str} (h : GraphEquiv g g') (A A' B B' : List Filter)
    (hA : SM A A') (hB : SM B B') :
    ERel (LRel NilRel) (getOtherTo g A B) (getOtherTo g' A' B') := by
  unfold getOtherTo
  apply mapM_congr _ _ _ .lookupError
  · exact hB.dedup
  · intro o _
    exact (otherTo_congr h _ _ o hA.dedup).bind_pure _ _ (fun a b hab => hab.nil_iff)
  · intro o _ e he
    exact Pta.Hist.otherTo_err _ _ _ _ (Pta.Hist.bind_pure_err _ _ _ he)

def QRel (p : Option ExplDeps × Option OtherDeps) (p' : Option ExplDeps × Option OtherDeps) : Prop :=
  ORel (LRel NilRel) p.1 p'.1 ∧ ORel (LRel NilRel) p.2 p'.2

theorem runQ_aux (c1 c2 : Bool) (X X' : Except ErrKind ExplDeps) (Y Y' : Except ErrKind OtherDeps)
    (e1 : ERel (LRel NilRel) X X') (e2 : ERel (LRel NilRel) Y Y') :
    ERel QRel
      (do let expl ← if c1 then X.map some else pure none
          let other ← if c2 then Y.map some else pure none
          pure (expl, other))
      (do let expl ← if c1 then X'.map some else pure none
          let other ← if c2 then Y'.map some else pure none
          pure (expl, other)) := by
  cases c1 <;> cases c2 <;> cases X <;> cases X' <;> cases Y <;> cases Y' <;>
    simp_all [ERel, QRel, ORel, bind, Except.bind, pure, Except.pure, Except.map]

theorem runQueries_congr {g g' : PGraph Str} (h : GraphEquiv g g') (b : Behavior) (ir : Bool) (S S' O O' : List Filter)
    (hS : SM S S') (hO : SM O O') :
    ERel QRel (runQueries g b ir S O) (runQueries g' b ir S' O') := by
  unfold runQueries
  cases ir
  · exact runQ_aux _ _ _ _ _ _ (getDependencies_congr h _ _ _ _ hO hS) (getOtherTo_congr h _ _ _ _ hO hS)
  · exact runQ_aux _ _ _ _ _ _ (getDependencies_congr h _ _ _ _ hS hO) (getOtherFrom_congr h _ _ _ _ hS hO)

/-! ### `convertFilters` -/

theorem convertFilters_congr (mt : Str → Str → Bool) (mods mods' : List Str) (fs fs' : List Filter)
    (hm : SM mods mods') (hf : SM fs fs') :
    ERel SM (convertFilters mt mods fs) (convertFilters mt mods' fs') := by
  have hok : convOK mt mods fs ↔ convOK mt mods' fs' := by
    unfold convOK
    constructor
    · intro h r hr hreg; obtain ⟨m, hm', hmt⟩ := h r ((hf r).2 hr) hreg; exact ⟨m, (hm m).1 hm', hmt⟩
    · intro h r hr hreg; obtain ⟨m, hm', hmt⟩ := h r ((hf r).1 hr) hreg; exact ⟨m, (hm m).2 hm', hmt⟩
  have hmem : ∀ y, convMem mt mods fs y ↔ convMem mt mods' fs' y := by
    intro y
    unfold convMem
    constructor
    · rintro (⟨r, hr, hreg, m, hm', h⟩ | ⟨h1, h2⟩)
      · exact .inl ⟨r, (hf r).1 hr, hreg, m, (hm m).1 hm', h⟩
      · exact .inr ⟨(hf y).1 h1, h2⟩
    · rintro (⟨r, hr, hreg, m, hm', h⟩ | ⟨h1, h2⟩)
      · exact .inl ⟨r, (hf r).2 hr, hreg, m, (hm m).2 hm', h⟩
      · exact .inr ⟨(hf y).2 h1, h2⟩
  by_cases h : convOK mt mods fs
  · obtain ⟨R, hR, hRm⟩ := (convertFilters_spec mt mods fs).1 h
    obtain ⟨R', hR', hRm'⟩ := (convertFilters_spec mt mods' fs').1 (hok.1 h)
    rw [hR, hR']
    intro y
    rw [hRm, hRm', hmem]
  · rw [(convertFilters_spec mt mods fs).2 h, (convertFilters_spec mt mods' fs').2 (fun h' => h (hok.2 h'))]
    rfl

/-! ### `detect` -/

theorem isEmpty_congr {α β : Type} {l : List α} {l' : List β} (h : l = [] ↔ l' = []) : l.isEmpty = l'.isEmpty := by
  rw [Bool.eq_iff_iff]; simpa using h

theorem realised_congr (ir : Bool) {κ κ' : Type} (e : List (κ × List (Str × Str))) (e' : List (κ' × List (Str × Str)))
    (h : LRel NilRel e e') : (realised ir e).isEmpty = (realised ir e').isEmpty := by
  apply isEmpty_congr
  rw [realised_eq_nil, realised_eq_nil]
  constructor
  · intro hh kd' hkd'
    obtain ⟨kd, hkd, hr⟩ := h.2 kd' hkd'
    exact hr.1 (hh kd hkd)
  · intro hh kd hkd
    obtain ⟨kd', hkd', hr⟩ := h.1 kd hkd
    exact hr.2 (hh kd' hkd')

theorem abstractWithout_congr (ir : Bool) (e e' : ExplDeps)
    (h : LRel NilRel e e') : (abstractWithout ir e).isEmpty = (abstractWithout ir e').isEmpty := by
  apply isEmpty_congr
  rw [abstractWithout_eq_nil, abstractWithout_eq_nil]
  constructor
  · intro hh kd' hkd' hn
    obtain ⟨kd, hkd, hr⟩ := h.2 kd' hkd'
    exact hh kd hkd (hr.2 hn)
  · intro hh kd hkd hn
    obtain ⟨kd', hkd', hr⟩ := h.1 kd hkd
    exact hh kd' hkd' (hr.1 hn)

theorem missingOther_eq_nil' (deps : OtherDeps) (M : List Mod) :
    missingOther deps M = [] ↔ ∀ kd ∈ deps, kd.2 = [] → M = [] := by
  simp [missingOther, List.flatMap_eq_nil_iff]

theorem missingOther_congr (e e' : OtherDeps) (M M' : List Mod) (hM : M = [] ↔ M' = [])
    (h : LRel NilRel e e') : (missingOther e M).isEmpty = (missingOther e' M').isEmpty := by
  apply isEmpty_congr
  rw [missingOther_eq_nil', missingOther_eq_nil']
  constructor
  · intro hh kd' hkd' hn
    obtain ⟨kd, hkd, hr⟩ := h.2 kd' hkd'
    exact hM.1 (hh kd hkd (hr.2 hn))
  · intro hh kd hkd hn
    obtain ⟨kd', hkd', hr⟩ := h.1 kd hkd
    exact hM.2 (hh kd' hkd' (hr.1 hn))

theorem ite_isEmpty {α : Type} (c : Bool) (l : List α) : (if c = true then l else []).isEmpty = (!c || l.isEmpty) := by
  cases c <;> simp

theorem detect_any_congr (b : Behavior) (ir : Bool) (expl expl' : Option ExplDeps) (other other' : Option OtherDeps)
    (M M' : List Mod) (hM : M = [] ↔ M' = []) (he : ORel (LRel NilRel) expl expl') (ho : ORel (LRel NilRel) other other') :
    (detect b ir expl other M).any = (detect b ir expl' other' M').any := by
  unfold Violations.any detect
  cases expl <;> cases expl' <;> cases other <;> cases other' <;> simp only [ORel] at he ho <;>
    simp only [ite_isEmpty, List.isEmpty_nil]
  · rw [realised_congr ir _ _ ho, missingOther_congr _ _ M M' hM ho]
  · rw [realised_congr ir _ _ he, abstractWithout_congr ir _ _ he]
  · rw [realised_congr ir _ _ he, abstractWithout_congr ir _ _ he, realised_congr ir _ _ ho,
      missingOther_congr _ _ M M' hM ho]

/-! ### `matchRule` and `assertApplies` -/

theorem matchRule_cls_congr (mt : Str → Str → Bool) {g g' : PGraph Str} (h : GraphEquiv g g') (b : Behavior) (ir : Bool)
    (ss ss' os os' : List Filter) (hs : SM ss ss') (ho : SM os os') :
    (matchRule mt g b ir ss os).cls = (matchRule mt g' b ir ss' os').cls := by
  unfold matchRule
  have c1 := convertFilters_congr mt g.nodes g'.nodes ss ss' h.nodes hs
  have c2 := convertFilters_congr mt g.nodes g'.nodes os os' h.nodes ho
  cases hS : convertFilters mt g.nodes ss with
  | error k => rw [hS] at c1; rw [c1.error_left]
  | ok S =>
    rw [hS] at c1
    obtain ⟨S', hS', hSS⟩ := c1.ok_left
    rw [hS']
    cases hO : convertFilters mt g.nodes os with
    | error k => rw [hO] at c2; rw [c2.error_left]
    | ok O =>
      rw [hO] at c2
      obtain ⟨O', hO', hOO⟩ := c2.ok_left
      rw [hO']
      simp only []
      have c3 := runQueries_congr h b ir S S' O O' hSS hOO
      cases hq : runQueries g b ir S O with
      | error k => rw [hq] at c3; rw [c3.error_left]
      | ok eo =>
        rw [hq] at c3
        obtain ⟨eo', hq', hr⟩ := c3.ok_left
        rw [hq']
        obtain ⟨expl, other⟩ := eo
        obtain ⟨expl', other'⟩ := eo'
        simp only
        have hM : O.map Filter.toMod = [] ↔ O'.map Filter.toMod = [] := by
          simpa using hOO.nil_iff
        rw [detect_any_congr b ir expl expl' other other' _ _ hM hr.1 hr.2]
        split <;> rfl

theorem verdict_congr (mt : Str → Str → Bool) (g g' : PGraph Str) (h : GraphEquiv g g') (r : RuleState) :
    verdictOf mt g r = verdictOf mt g' r := by
  have hda : ∀ c, droppedAbsent g c = droppedAbsent g' c := by
    intro c
    apply droppedAbsent_congr
    intro s
    rw [Bool.eq_iff_iff]
    unfold PGraph.hasNode
    simp only [List.contains_iff_mem]
    exact h.nodes s
  unfold verdictOf assertApplies
  split
  · rfl
  · simp only [hda]
    split
    · rfl
    split
    · rfl
    · split
      · rfl
      · generalize convertAliases r.cfg = c
        rcases c with ⟨subjects, objects, _, _, _, _, importDir, _, _⟩
        cases subjects <;> cases objects <;> cases importDir <;> simp only [Verdict.cls]
        exact matchRule_cls_congr mt h _ _ _ _ _ _ (SM.refl _) (SM.refl _)

theorem perm_isEmpty {α : Type} {l l' : List α} (h : l.Perm l') : l.isEmpty = l'.isEmpty :=
  isEmpty_congr (SM.of_perm h).nil_iff

theorem verdict_mkRule_congr (mt : Str → Str → Bool) (g : PGraph Str) (s o n dir exc : Bool) (subs subs' objs objs' : List Filter)
    (hs : subs.Perm subs') (ho : objs.Perm objs') :
    verdictOf mt g (mkRule s o n dir exc subs objs) = verdictOf mt g (mkRule s o n dir exc subs' objs') := by
  unfold verdictOf
  rw [assertApplies_mkRule, assertApplies_mkRule, perm_isEmpty hs, perm_isEmpty ho]
  split
  · rfl
  · split
    · rfl
    · exact matchRule_cls_congr mt ⟨fun _ => Iff.rfl, fun _ _ => Iff.rfl, fun _ _ => Iff.rfl, fun _ _ => Iff.rfl⟩ _ _ _ _ _ _
        (SM.of_perm hs) (SM.of_perm ho)

/-! ### `Arch.wf` under permutations -/

theorem nodupB_iff (l : List Name) : nodupB l = true ↔ l.Nodup := by
  induction l with
  | nil => simp [nodupB]
  | cons x xs ih => simp [nodupB, ih, List.nodup_cons]

theorem contains_perm {l l' : List Name} (h : l.Perm l') (x : Name) : l.contains x = l'.contains x := by
  rw [Bool.eq_iff_iff]; simp only [List.contains_iff_mem]; exact h.mem_iff

theorem wf_perm (a a' : Arch) (hwf : a.wf = true) (hn : a.nodes.Perm a'.nodes) (hi : a.imports.Perm a'.imports) :
    a'.wf = true := by
  unfold Arch.wf at hwf ⊢
  simp only [Bool.and_eq_true] at hwf ⊢
  obtain ⟨⟨⟨h1, h2⟩, h3⟩, h4⟩ := hwf
  have hc : a'.nodes.contains = a.nodes.contains := by funext x; exact (contains_perm hn x).symm
  rw [hc]
  refine ⟨⟨⟨?_, ?_⟩, ?_⟩, ?_⟩
  · rw [nodupB_iff] at h1 ⊢; exact hn.nodup_iff.1 h1
  · rw [← hn.all_eq]; exact h2
  · rw [← hn.all_eq]; exact h3
  · rw [← hi.all_eq]; exact h4

theorem quotient_equiv (a a' : Arch) (lim : Option Nat) (g g' : PGraph Str) (hn : a.nodes.Perm a'.nodes)
    (hi : a.imports.Perm a'.imports) (q : QuotientOf a lim g) (q' : QuotientOf a' lim g') : GraphEquiv g g' := by
  have hN : ∀ P : Name → Prop, (∃ n ∈ a.nodes, P n) ↔ (∃ n ∈ a'.nodes, P n) := by
    intro P
    constructor
    · rintro ⟨n, h1, h2⟩; exact ⟨n, hn.mem_iff.1 h1, h2⟩
    · rintro ⟨n, h1, h2⟩; exact ⟨n, hn.mem_iff.2 h1, h2⟩
  have hI : ∀ P : Name × Name → Prop, (∃ e ∈ a.imports, P e) ↔ (∃ e ∈ a'.imports, P e) := by
    intro P
    constructor
    · rintro ⟨n, h1, h2⟩; exact ⟨n, hi.mem_iff.1 h1, h2⟩
    · rintro ⟨n, h1, h2⟩; exact ⟨n, hi.mem_iff.2 h1, h2⟩
  refine ⟨?_, ?_, ?_, ?_⟩
  · intro s
    have h1 := q.nodes s
    have h2 := q'.nodes s
    unfold PGraph.hasNode at h1 h2
    simp only [List.contains_iff_mem] at h1 h2
    rw [h1, h2]; exact hN _
  · intro s x; rw [q.hier, q'.hier]; exact hN _
  · intro s x; rw [q.succs, q'.succs]; exact hI _
  · intro s x; rw [q.preds, q'.preds]; exact hI _

theorem perm_modules_imports (mt : Str → Str → Bool) (a a' : Arch) (hwf : a.wf = true)
    (hn : a.nodes.Perm a'.nodes) (hi : a.imports.Perm a'.imports) (lim : Option Nat) (r : RuleState) :
    verdictOf mt (archGraphLim a lim) r = verdictOf mt (archGraphLim a' lim) r :=
  verdict_congr mt _ _ (quotient_equiv a a' lim _ _ hn hi (buildGraph_quotient a hwf lim)
    (buildGraph_quotient a' (wf_perm a a' hwf hn hi) lim)) r

/-! ### re-application, patterns, directory entries -/

theorem convertAliases_idem (c : RuleConfig) : convertAliases (convertAliases c) = convertAliases c :=
  Pta.convertAliases_idem c

theorem convertAliases_anything (c : RuleConfig) : (convertAliases c).anything = false :=
  Pta.convertAliases_anything c

/-- re-applying a rule object (to the same or to another architecture) gives what a fresh rule object gives: the only
    in-place rewrite (`_convert_aliases`) is idempotent and keeps the subjects it removed (`dropped`), so that the
    existence check on them is repeated on the new architecture -/
theorem reapply (mt : Str → Str → Bool) (s : RuleState) (g g' : PGraph Str) :
    (assertApplies mt (assertApplies mt s g).1 g').2 = (assertApplies mt s g').2 := by
  by_cases hm : anythingMisused s.cfg = true
  · have : (assertApplies mt s g).1 = s := by unfold assertApplies; simp [hm]
    rw [this]
  · have h1 : (assertApplies mt s g).1 = { s with cfg := convertAliases s.cfg } := by
      unfold assertApplies
      simp only [hm, if_false, Bool.false_eq_true]
      split
      · rfl
      split
      · rfl
      · split
        · rfl
        · split <;> rfl
    rw [h1]
    have h2 : anythingMisused (convertAliases s.cfg) = false := by
      simp [anythingMisused, convertAliases_anything]
    unfold assertApplies
    simp only [h2, hm, convertAliases_idem, Bool.false_eq_true, if_false]

theorem perm_patterns (mt : Str → Str → Bool) (ps ps' : List Str) (h : ps.Perm ps') (s : Str) :
    isExcluded mt (.globs ps) s = isExcluded mt (.globs ps') s ∧ isExcluded mt (.regexes ps) s = isExcluded mt (.regexes ps') s := by
  unfold isExcluded
  exact ⟨h.any_eq, h.any_eq⟩

theorem foldl_append_allModules {γ : Type} (f : γ → Parsed) (l : List γ) (init : Parsed) :
    (l.foldl (fun acc c => acc.append (f c)) init).allModules = init.allModules ++ l.flatMap (fun c => (f c).allModules) := by
  induction l generalizing init with
  | nil => simp
  | cons x xs ih =>
    rw [List.foldl_cons, ih]
    simp [Parsed.append]

theorem flatMap_perm_left {α β : Type} (l : List α) (f g : α → List β) (h : ∀ a ∈ l, (f a).Perm (g a)) :
    (l.flatMap f).Perm (l.flatMap g) := by
  induction l with
  | nil => simp
  | cons x xs ih =>
    simp only [List.flatMap_cons]
    exact (h x (by simp)).append (ih fun a ha => h a (List.mem_cons_of_mem _ ha))

theorem perm_dir_entries (excl : Str → Bool) (base rootName : Str) (entries entries' : List Entry) (h : entries.Perm entries')
    (fuel : Nat) (e : Entry) :
    (parseWalk excl base rootName entries fuel e).allModules.Perm (parseWalk excl base rootName entries' fuel e).allModules := by
  induction fuel generalizing e with
  | zero => simp [parseWalk]
  | succ n ih =>
    unfold parseWalk
    simp only
    split
    · split
      · exact List.Perm.refl _
      · rw [foldl_append_allModules, foldl_append_allModules]
        apply List.Perm.append_left
        refine ((h.filter _).flatMap_right _).trans ?_
        exact flatMap_perm_left _ _ _ (fun c _ => ih c)
    · exact List.Perm.refl _
end Pta.Ord
