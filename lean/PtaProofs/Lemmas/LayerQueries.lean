/-
  PtaProofs.Lemmas.LayerQueries — the three query families on filters that all name a module (`.named`, no
  `subOf`): they return the rendered `edges` / `others` of the specification WITHOUT any unrelatedness hypothesis
  between the filters. (SemHier / SemQueries prove the same under `Compat`; `Compat` is only ever used there to rule out
  that a node reached from one filter is the excluded parent of a `subOf` filter.) Layer rules query name filters only,
  so within one layer a module and its sub module may both be listed (audit finding F6).
  The 'edge' question on named filters (`depBetween_rep_named`, `getDeps_spec_named`) is in SemanticsPlain; here are the
  two "something else" questions and `runQueries`.
-/
import PtaProofs.Lemmas.SemQueries
import PtaProofs.Lemmas.SemanticsPlain
namespace Pta
open PtaSpec

section searches
variable {a : Arch} {g : PGraph Str} (hw : ArchWF a) (hg : GraphOf a g)
include hw hg

/-- the exclusion set of the two "something else" searches, on a node `far` outside the subject's sub tree -/
theorem far_excl_named (s : SFilter) (os : List SFilter) (L : List Filter)
    (hL : ∀ F, F ∈ L ↔ ∃ o ∈ os, F = compileFilter o)
    (hs : s.id ∈ a.nodes) (hos : ∀ o ∈ os, o.id ∈ a.nodes) (hN : ∀ o ∈ os, o.isSub = false)
    (far : Name) (hfar : far ∈ a.nodes) (hnd : desc s.id far = false) :
    (¬ ((∃ O ∈ L, O ≠ compileFilter s ∧ Reach g O.id (render far)) ∧ render far ∉ parentIds L)) ↔
      (os.all fun o => !o.mem far) = true := by
  simp only [List.all_eq_true, Bool.not_eq_true']
  rw [mem_parentIds_of_mem L os hL]
  have hnoPar : ¬ ∃ f ∈ os, f.isSub = true ∧ render far = render f.id := by
    rintro ⟨p, hp, hps, _⟩
    rw [hN p hp] at hps; cases hps
  constructor
  · intro h o ho
    cases hm : o.mem far
    · rfl
    · exfalso
      apply h
      refine ⟨⟨compileFilter o, (hL _).2 ⟨o, ho, rfl⟩, ?_, ?_⟩, hnoPar⟩
      · intro heq
        have := compileFilter_inj o s (hw.nwf _ (hos o ho)) (hw.nwf _ hs) heq
        subst this
        rw [mem_desc _ _ hm] at hnd; cases hnd
      · simpa using (reach_render hw hg _ _ (hos o ho) hfar).2 (mem_desc _ _ hm)
  · rintro h ⟨⟨O, hO, _, hr⟩, _⟩
    obtain ⟨o, ho, rfl⟩ := (hL O).1 hO
    have hd := (reach_render hw hg _ _ (hos o ho) hfar).1 (by simpa using hr)
    have hm := h o ho
    rw [(mem_iff o far).2 ⟨hd, fun hh => by rw [hN o ho] at hh; cases hh⟩] at hm
    cases hm

theorem otherFrom_rep_named (s : SFilter) (os : List SFilter) (L : List Filter)
    (hL : ∀ F, F ∈ L ↔ ∃ o ∈ os, F = compileFilter o)
    (hs : s.id ∈ a.nodes) (hos : ∀ o ∈ os, o.id ∈ a.nodes) (hN : ∀ o ∈ os, o.isSub = false) :
    ∃ l, otherFrom g (compileFilter s) L = .ok l ∧ Rep l (others a true s os) := by
  obtain ⟨l, hl, hm⟩ := otherFrom_ok g (compileFilter s) L (by simpa using hasNode_render hg _ hs) (by
    intro F hF
    obtain ⟨o, ho, rfl⟩ := (hL F).1 hF
    simpa using hasNode_render hg _ (hos o ho))
  refine ⟨l, hl, ?_⟩
  intro u v
  rw [hm]
  simp only [compileFilter_id, compileFilter_isParent, others, if_true, List.mem_filter, Bool.and_eq_true,
    Bool.not_eq_true']
  constructor
  · rintro ⟨h1, h2, h3, h4, h5⟩
    obtain ⟨e, he, rfl, rfl⟩ := (hg.succs _ _).1 h3
    have hi1 := hw.nwf _ (hw.impL e he)
    have hnd : desc s.id e.2 = false := by
      cases hd : desc s.id e.2
      · rfl
      · exact absurd ((reach_render hw hg _ _ hs (hw.impR e he)).2 hd) h4
    refine ⟨e, ⟨he, ⟨?_, hnd⟩, ?_⟩, rfl, rfl⟩
    · rw [mem_iff]
      refine ⟨(reach_render hw hg _ _ hs (hw.impL e he)).1 h1, ?_⟩
      intro hsub hn
      exact h2 hsub (by rw [hn])
    · exact (far_excl_named hw hg s os L hL hs hos hN e.2 (hw.impR e he) hnd).1 (by simpa using h5)
  · rintro ⟨e, ⟨he, ⟨h1, h2⟩, h3⟩, rfl, rfl⟩
    have hi1 := hw.nwf _ (hw.impL e he)
    refine ⟨(reach_render hw hg _ _ hs (hw.impL e he)).2 (mem_desc _ _ h1), ?_,
      (hg.succs _ _).2 ⟨e, he, rfl, rfl⟩, ?_, ?_⟩
    · intro hsub hr
      exact ((mem_iff s e.1).1 h1).2 hsub (render_injective _ _ hi1 (hw.nwf _ hs) hr)
    · intro hr
      rw [(reach_render hw hg _ _ hs (hw.impR e he)).1 hr] at h2; cases h2
    · simpa using (far_excl_named hw hg s os L hL hs hos hN e.2 (hw.impR e he) h2).2 h3

theorem otherTo_rep_named (s : SFilter) (os : List SFilter) (L : List Filter)
    (hL : ∀ F, F ∈ L ↔ ∃ o ∈ os, F = compileFilter o)
    (hs : s.id ∈ a.nodes) (hos : ∀ o ∈ os, o.id ∈ a.nodes) (hN : ∀ o ∈ os, o.isSub = false) :
    ∃ l, otherTo g L (compileFilter s) = .ok l ∧ Rep l (others a false s os) := by
  obtain ⟨l, hl, hm⟩ := otherTo_ok g L (compileFilter s) (by simpa using hasNode_render hg _ hs) (by
    intro F hF
    obtain ⟨o, ho, rfl⟩ := (hL F).1 hF
    simpa using hasNode_render hg _ (hos o ho))
  refine ⟨l, hl, ?_⟩
  intro u v
  rw [hm]
  simp only [compileFilter_id, compileFilter_isParent, others, Bool.false_eq_true, if_false, List.mem_filter,
    Bool.and_eq_true, Bool.not_eq_true']
  constructor
  · rintro ⟨h1, h2, h3, h4, h5⟩
    obtain ⟨e, he, rfl, rfl⟩ := (hg.preds _ _).1 h3
    have hi1 := hw.nwf _ (hw.impL e he)
    have hi2 := hw.nwf _ (hw.impR e he)
    have hmem : s.mem e.2 = true := by
      rw [mem_iff]
      refine ⟨(reach_render hw hg _ _ hs (hw.impR e he)).1 h1, ?_⟩
      intro hsub hn
      exact h2 hsub (by rw [hn])
    have hnd : desc s.id e.1 = false := by
      cases hd : desc s.id e.1
      · rfl
      · exfalso
        apply h4
        refine ⟨(reach_render hw hg _ _ hs (hw.impL e he)).2 hd, ?_⟩
        intro hsub hr
        have h1e := render_injective _ _ hi1 (hw.nwf _ hs) hr
        have hna := hw.noAnc e he
        have hsd : sdesc e.1 e.2 = true := by
          rw [sdesc_iff, h1e]
          exact ⟨(desc_iff _ _).1 (mem_desc _ _ hmem), fun h => ((mem_iff s e.2).1 hmem).2 hsub h.symm⟩
        rw [hsd] at hna; cases hna
    refine ⟨e, ⟨he, ⟨hmem, hnd⟩, ?_⟩, rfl, rfl⟩
    exact (far_excl_named hw hg s os L hL hs hos hN e.1 (hw.impL e he) hnd).1 (by simpa using h5)
  · rintro ⟨e, ⟨he, ⟨h1, h2⟩, h3⟩, rfl, rfl⟩
    have hi2 := hw.nwf _ (hw.impR e he)
    refine ⟨(reach_render hw hg _ _ hs (hw.impR e he)).2 (mem_desc _ _ h1), ?_,
      (hg.preds _ _).2 ⟨e, he, rfl, rfl⟩, ?_, ?_⟩
    · intro hsub hr
      exact ((mem_iff s e.2).1 h1).2 hsub (render_injective _ _ hi2 (hw.nwf _ hs) hr)
    · rintro ⟨hr, _⟩
      rw [(reach_render hw hg _ _ hs (hw.impL e he)).1 hr] at h2; cases h2
    · simpa using (far_excl_named hw hg s os L hL hs hos hN e.1 (hw.impL e he) h2).2 h3

theorem getOtherFrom_spec_named (S os : List SFilter) (hS : ∀ f ∈ S, f.id ∈ a.nodes) (hos : ∀ o ∈ os, o.id ∈ a.nodes)
    (hN : ∀ o ∈ os, o.isSub = false) :
    ∃ e, getOtherFrom g (S.map compileFilter) (os.map compileFilter) = .ok e ∧
      (∀ kd ∈ e, ∃ s ∈ S, kd.1 = sfilterMod s ∧ Rep kd.2 (others a true s os)) ∧
      (∀ s ∈ S, ∃ kd ∈ e, kd.1 = sfilterMod s ∧ Rep kd.2 (others a true s os)) := by
  unfold getOtherFrom
  have hL := mem_dedup_map os
  obtain ⟨e, he, hm⟩ := mapM_ok_of_forall (fun f : Filter => do
      let d ← otherFrom g f (dedup (os.map compileFilter))
      pure (f.toMod, d)) (dedup (S.map compileFilter)) (by
    intro F hF
    obtain ⟨s, hs, rfl⟩ := (mem_dedup_map S F).1 hF
    obtain ⟨l, hl, _⟩ := otherFrom_rep_named hw hg s os _ hL (hS s hs) hos hN
    exact ⟨_, by simp only [hl, bind, Except.bind, pure, Except.pure]; rfl⟩)
  refine ⟨e, he, ?_, ?_⟩
  · intro kd hkd
    obtain ⟨F, hF, hfx⟩ := (hm kd).1 hkd
    obtain ⟨s, hs, rfl⟩ := (mem_dedup_map S F).1 hF
    obtain ⟨l, hl, hrep⟩ := otherFrom_rep_named hw hg s os _ hL (hS s hs) hos hN
    simp only [hl, bind, Except.bind, pure, Except.pure, Except.ok.injEq] at hfx
    subst hfx
    exact ⟨s, hs, by simp, hrep⟩
  · intro s hs
    obtain ⟨l, hl, hrep⟩ := otherFrom_rep_named hw hg s os _ hL (hS s hs) hos hN
    refine ⟨(sfilterMod s, l), (hm _).2 ⟨compileFilter s, (mem_dedup_map S _).2 ⟨s, hs, rfl⟩, ?_⟩, rfl, hrep⟩
    simp only [hl, bind, Except.bind, pure, Except.pure, compileFilter_toMod]

theorem getOtherTo_spec_named (S os : List SFilter) (hS : ∀ f ∈ S, f.id ∈ a.nodes) (hos : ∀ o ∈ os, o.id ∈ a.nodes)
    (hN : ∀ o ∈ os, o.isSub = false) :
    ∃ e, getOtherTo g (os.map compileFilter) (S.map compileFilter) = .ok e ∧
      (∀ kd ∈ e, ∃ s ∈ S, kd.1 = sfilterMod s ∧ Rep kd.2 (others a false s os)) ∧
      (∀ s ∈ S, ∃ kd ∈ e, kd.1 = sfilterMod s ∧ Rep kd.2 (others a false s os)) := by
  unfold getOtherTo
  have hL := mem_dedup_map os
  obtain ⟨e, he, hm⟩ := mapM_ok_of_forall (fun o : Filter => do
      let d ← otherTo g (dedup (os.map compileFilter)) o
      pure (o.toMod, d)) (dedup (S.map compileFilter)) (by
    intro F hF
    obtain ⟨s, hs, rfl⟩ := (mem_dedup_map S F).1 hF
    obtain ⟨l, hl, _⟩ := otherTo_rep_named hw hg s os _ hL (hS s hs) hos hN
    exact ⟨_, by simp only [hl, bind, Except.bind, pure, Except.pure]; rfl⟩)
  refine ⟨e, he, ?_, ?_⟩
  · intro kd hkd
    obtain ⟨F, hF, hfx⟩ := (hm kd).1 hkd
    obtain ⟨s, hs, rfl⟩ := (mem_dedup_map S F).1 hF
    obtain ⟨l, hl, hrep⟩ := otherTo_rep_named hw hg s os _ hL (hS s hs) hos hN
    simp only [hl, bind, Except.bind, pure, Except.pure, Except.ok.injEq] at hfx
    subst hfx
    exact ⟨s, hs, by simp, hrep⟩
  · intro s hs
    obtain ⟨l, hl, hrep⟩ := otherTo_rep_named hw hg s os _ hL (hS s hs) hos hN
    refine ⟨(sfilterMod s, l), (hm _).2 ⟨compileFilter s, (mem_dedup_map S _).2 ⟨s, hs, rfl⟩, ?_⟩, rfl, hrep⟩
    simp only [hl, bind, Except.bind, pure, Except.pure, compileFilter_toMod]

end searches

/-- what `runQueries` returns on a rule all of whose filters name existing modules: no unrelatedness needed -/
theorem runQueries_compile_named {a : Arch} {g : PGraph Str} (hw : ArchWF a) (hg : GraphOf a g) (r : RuleSpec)
    (hS : ∀ f ∈ r.subjects, f.id ∈ a.nodes) (hO : ∀ f ∈ r.effObjects, f.id ∈ a.nodes)
    (hSN : ∀ f ∈ r.subjects, f.isSub = false) (hON : ∀ f ∈ r.effObjects, f.isSub = false) :
    ∃ e o, ESpec a r e ∧ OSpec a r o ∧
      runQueries g (beh r) r.importDir (r.subjects.map compileFilter) (r.effObjects.map compileFilter) =
        .ok (if ((beh r).explReq || (beh r).explForb) = true then some e else none,
             if ((beh r).otherReq || (beh r).otherForb) = true then some o else none) := by
  cases hd : r.importDir
  · obtain ⟨e, he, he1, he2⟩ := getDeps_spec_named hw hg r.effObjects r.subjects hO hS hON hSN
    obtain ⟨o, ho, ho1, ho2⟩ := getOtherTo_spec_named hw hg r.subjects r.effObjects hS hO hON
    refine ⟨e, o, ⟨?_, ?_⟩, ⟨?_, ?_⟩, ?_⟩
    · intro kd hkd
      obtain ⟨f, hf, s, hs, h1, h2⟩ := he1 kd hkd
      exact ⟨s, hs, f, hf, by simp [hd, userOrder, h1], by rw [hd, edges_false]; exact h2⟩
    · intro s hs f hf
      obtain ⟨kd, hkd, h1, h2⟩ := he2 f hf s hs
      exact ⟨kd, hkd, by simp [hd, userOrder, h1], by rw [hd, edges_false]; exact h2⟩
    · simpa [hd] using ho1
    · simpa [hd] using ho2
    · rw [runQueries_ok_iff]
      constructor
      · split
        · exact ⟨e, by simpa using he, rfl⟩
        · rfl
      · split
        · exact ⟨o, by simpa using ho, rfl⟩
        · rfl
  · obtain ⟨e, he, he1, he2⟩ := getDeps_spec_named hw hg r.subjects r.effObjects hS hO hSN hON
    obtain ⟨o, ho, ho1, ho2⟩ := getOtherFrom_spec_named hw hg r.subjects r.effObjects hS hO hON
    refine ⟨e, o, ⟨?_, ?_⟩, ⟨?_, ?_⟩, ?_⟩
    · intro kd hkd
      obtain ⟨s, hs, f, hf, h1, h2⟩ := he1 kd hkd
      exact ⟨s, hs, f, hf, by simp [hd, userOrder, h1], by rw [hd]; exact h2⟩
    · intro s hs f hf
      obtain ⟨kd, hkd, h1, h2⟩ := he2 s hs f hf
      exact ⟨kd, hkd, by simp [hd, userOrder, h1], by rw [hd]; exact h2⟩
    · simpa [hd] using ho1
    · simpa [hd] using ho2
    · rw [runQueries_ok_iff]
      constructor
      · split
        · exact ⟨e, by simpa using he, rfl⟩
        · rfl
      · split
        · exact ⟨o, by simpa using ho, rfl⟩
        · rfl

end Pta
