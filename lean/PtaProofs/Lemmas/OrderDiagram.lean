/-
  PtaProofs.Lemmas.OrderDiagram — `MultipleRuleApplier.assert_applies` (`applyAll`) and the aggregation step of the
  PlantUML parser do not depend on the order of the generated rules / of the diagram lines (namespace `Pta.OrdD`).
-/
import Bridge.Abs
import Bridge.OrderDefs
import PtaProofs.Lemmas.OrderCongr
namespace Pta.OrdD
open Pta PtaSpec Pta.Ord

/-! ### `applyAll` -/

def vOf (mt : Str → Str → Bool) (g : PGraph Str) (r : RuleState) : Verdict := (assertApplies mt r g).2

def itemsOf : Verdict → List Item
  | .fail is => is
  | _ => []

def isFail : Verdict → Bool
  | .fail _ => true
  | _ => false

theorem go_ok (mt : Str → Str → Bool) (g : PGraph Str) (rules : List RuleState) (acc : List Item) (failed : Bool)
    (h : ∀ r ∈ rules, ∀ k, vOf mt g r ≠ .err k) :
    applyAll.go mt g acc failed rules =
      if failed || rules.any (fun r => isFail (vOf mt g r)) then .fail (acc ++ rules.flatMap fun r => itemsOf (vOf mt g r))
      else .pass := by
  induction rules generalizing acc failed with
  | nil => cases failed <;> simp [applyAll.go]
  | cons r rs ih =>
    have ih' := fun acc failed => ih acc failed (fun r' hr' => h r' (List.mem_cons_of_mem _ hr'))
    have hr := h r List.mem_cons_self
    unfold applyAll.go
    unfold vOf at hr
    cases hv : (assertApplies mt r g).2 with
    | pass =>
      have e1 : isFail (vOf mt g r) = false := by unfold vOf; rw [hv]; rfl
      have e2 : itemsOf (vOf mt g r) = [] := by unfold vOf; rw [hv]; rfl
      simp only [ih', List.any_cons, List.flatMap_cons, e1, e2, Bool.false_or, List.nil_append]
    | fail items =>
      have e1 : isFail (vOf mt g r) = true := by unfold vOf; rw [hv]; rfl
      have e2 : itemsOf (vOf mt g r) = items := by unfold vOf; rw [hv]; rfl
      simp only [ih', List.any_cons, List.flatMap_cons, e1, e2, Bool.true_or, Bool.or_true, if_true,
        List.append_assoc]
    | err k => exact absurd hv (hr k)

theorem go_err (mt : Str → Str → Bool) (g : PGraph Str) (rules : List RuleState) (acc : List Item) (failed : Bool)
    (h : ∃ r ∈ rules, ∃ k, vOf mt g r = .err k) :
    ∃ k, applyAll.go mt g acc failed rules = .err k ∧ ∃ r ∈ rules, vOf mt g r = .err k := by
  induction rules generalizing acc failed with
  | nil => obtain ⟨r, hr, _⟩ := h; cases hr
  | cons r rs ih =>
    unfold applyAll.go
    cases hv : (assertApplies mt r g).2 with
    | err k => exact ⟨k, rfl, r, List.mem_cons_self, hv⟩
    | pass =>
      simp only
      obtain ⟨r', hr', k', hk'⟩ := h
      rcases List.mem_cons.1 hr' with rfl | hr'
      · unfold vOf at hk'; rw [hv] at hk'; cases hk'
      · obtain ⟨k, h1, r2, hr2, h2⟩ := ih acc failed ⟨r', hr', k', hk'⟩
        exact ⟨k, h1, r2, List.mem_cons_of_mem _ hr2, h2⟩
    | fail items =>
      simp only
      obtain ⟨r', hr', k', hk'⟩ := h
      rcases List.mem_cons.1 hr' with rfl | hr'
      · unfold vOf at hk'; rw [hv] at hk'; cases hk'
      · obtain ⟨k, h1, r2, hr2, h2⟩ := ih (acc ++ items) true ⟨r', hr', k', hk'⟩
        exact ⟨k, h1, r2, List.mem_cons_of_mem _ hr2, h2⟩

/-- no generated rule raises: pass / fail and the collected items (as a multiset) do not depend on the order -/
theorem applyAll_perm_ok (mt : Str → Str → Bool) (g : PGraph Str) (rules rules' : List RuleState) (hp : rules.Perm rules')
    (h : ∀ r ∈ rules, ∀ k, (assertApplies mt r g).2 ≠ .err k) :
    (applyAll mt g rules).cls = (applyAll mt g rules').cls ∧
    (∀ k, (applyAll mt g rules).cls ≠ .err k) ∧
    (applyAll mt g rules).items.Perm (applyAll mt g rules').items := by
  have h' : ∀ r ∈ rules', ∀ k, (assertApplies mt r g).2 ≠ .err k := fun r hr => h r (hp.mem_iff.2 hr)
  unfold applyAll
  rw [go_ok mt g rules [] false h, go_ok mt g rules' [] false h', hp.any_eq]
  simp only [Bool.false_or, List.nil_append]
  split
  · refine ⟨rfl, fun k => by simp [DVerdict.cls], ?_⟩
    exact hp.flatMap_right _
  · exact ⟨rfl, fun k => by simp [DVerdict.cls], List.Perm.refl _⟩

/-- some generated rule raises: the result is an error for every order, namely the error of one of the raising rules
    (the first one in the respective order) -/
theorem applyAll_perm_err (mt : Str → Str → Bool) (g : PGraph Str) (rules rules' : List RuleState) (hp : rules.Perm rules')
    (h : ∃ r ∈ rules, ∃ k, (assertApplies mt r g).2 = .err k) :
    ∃ k k', applyAll mt g rules = .err k ∧ applyAll mt g rules' = .err k' ∧
      (∃ r ∈ rules, (assertApplies mt r g).2 = .err k) ∧ (∃ r ∈ rules, (assertApplies mt r g).2 = .err k') := by
  have h' : ∃ r ∈ rules', ∃ k, (assertApplies mt r g).2 = .err k := by
    obtain ⟨r, hr, hk⟩ := h; exact ⟨r, hp.mem_iff.1 hr, hk⟩
  obtain ⟨k, h1, r1, hr1, e1⟩ := go_err mt g rules [] false h
  obtain ⟨k', h2, r2, hr2, e2⟩ := go_err mt g rules' [] false h'
  exact ⟨k, k', h1, h2, ⟨r1, hr1, e1⟩, ⟨r2, hp.mem_iff.2 hr2, e2⟩⟩

/-- in particular, if all raising rules raise the same kind of error, the error does not depend on the order either -/
theorem applyAll_perm_err_same (mt : Str → Str → Bool) (g : PGraph Str) (rules rules' : List RuleState)
    (hp : rules.Perm rules') (e0 : ErrKind)
    (h : ∃ r ∈ rules, ∃ k, (assertApplies mt r g).2 = .err k)
    (hall : ∀ r ∈ rules, ∀ k, (assertApplies mt r g).2 = .err k → k = e0) :
    applyAll mt g rules = .err e0 ∧ applyAll mt g rules' = .err e0 := by
  obtain ⟨k, k', h1, h2, ⟨r1, hr1, e1⟩, ⟨r2, hr2, e2⟩⟩ := applyAll_perm_err mt g rules rules' hp h
  rw [h1, h2, hall r1 hr1 k e1, hall r2 hr2 k' e2]
  exact ⟨rfl, rfl⟩

/-! ### the aggregation step of the PlantUML parser -/

theorem pumlParse_eq (content : Str) :
    pumlParse content = (pumlBody (pyStrip content)).bind fun body =>
      pumlUnify ((splitLines body).flatMap lineModules) ((splitLines body).filterMap lineDependency) := by
  unfold pumlParse pumlUnify pumlAggregate
  cases pumlBody (pyStrip content) <;> rfl

/-- `k ↦ v` is recorded in the insertion-ordered dict -/
def DR (deps : List (Str × List Str)) (k v : Str) : Prop := ∃ e ∈ deps, e.1 = k ∧ v ∈ e.2

theorem hasDep_iff (p : Parsed') (k v : Str) : p.hasDep k v = true ↔ DR p.dependencies k v := by
  unfold Parsed'.hasDep DR
  simp only [List.any_eq_true, Bool.and_eq_true, beq_iff_eq, List.contains_iff_mem]

theorem addDep_rel (deps : List (Str × List Str)) (k v k' v' : Str) :
    DR (addDep deps k v) k' v' ↔ DR deps k' v' ∨ (k' = k ∧ v' = v) := by
  unfold addDep DR
  split
  · rename_i hany
    simp only [List.any_eq_true, beq_iff_eq] at hany
    obtain ⟨e0, he0, hk0⟩ := hany
    simp only [List.mem_map]
    constructor
    · rintro ⟨e', ⟨e, he, rfl⟩, h1, h2⟩
      by_cases hek : e.1 = k
      · simp only [hek, beq_self_eq_true, if_true] at h1 h2
        split at h2
        · exact Or.inl ⟨e, he, hek.trans h1, h2⟩
        · rcases List.mem_append.1 h2 with h | h
          · exact Or.inl ⟨e, he, hek.trans h1, h⟩
          · simp only [List.mem_singleton] at h
            exact Or.inr ⟨h1.symm, h⟩
      · have : (e.1 == k) = false := by simpa using hek
        simp only [this, Bool.false_eq_true, if_false] at h1 h2
        exact Or.inl ⟨e, he, h1, h2⟩
    · rintro (⟨e, he, h1, h2⟩ | ⟨rfl, rfl⟩)
      · refine ⟨_, ⟨e, he, rfl⟩, ?_⟩
        by_cases hek : e.1 = k
        · simp only [hek, beq_self_eq_true, if_true]
          refine ⟨hek.symm.trans h1, ?_⟩
          split
          · exact h2
          · exact List.mem_append_left _ h2
        · have : (e.1 == k) = false := by simpa using hek
          simp only [this, Bool.false_eq_true, if_false]
          exact ⟨h1, h2⟩
      · refine ⟨_, ⟨e0, he0, rfl⟩, ?_⟩
        simp only [hk0, beq_self_eq_true, if_true, true_and]
        split
        · rename_i hc; simpa using hc
        · simp
  · simp only [List.mem_append, List.mem_singleton]
    constructor
    · rintro ⟨e, he | rfl, h1, h2⟩
      · exact Or.inl ⟨e, he, h1, h2⟩
      · simp only [List.mem_singleton] at h2
        exact Or.inr ⟨h1.symm, h2⟩
    · rintro (⟨e, he, h1, h2⟩ | ⟨rfl, rfl⟩)
      · exact ⟨e, Or.inl he, h1, h2⟩
      · exact ⟨_, Or.inr rfl, rfl, by simp⟩

/-- every key has at least one value -/
def NE (deps : List (Str × List Str)) : Prop := ∀ e ∈ deps, e.2 ≠ []

theorem addDep_ne (deps : List (Str × List Str)) (k v : Str) (h : NE deps) : NE (addDep deps k v) := by
  unfold addDep
  split
  · intro e' he'
    obtain ⟨e, he, rfl⟩ := List.mem_map.1 he'
    split
    · simp only
      split
      · exact h e he
      · simp
    · exact h e he
  · intro e he
    rcases List.mem_append.1 he with h1 | h1
    · exact h e h1
    · simp only [List.mem_singleton] at h1; subst h1; simp

theorem foldl_rel {γ : Type} (f : List (Str × List Str) → γ → List (Str × List Str)) (W : γ → Str → Str → Prop)
    (hf : ∀ acc x k v, DR (f acc x) k v ↔ DR acc k v ∨ W x k v) (hne : ∀ acc x, NE acc → NE (f acc x))
    (l : List γ) (init : List (Str × List Str)) :
    (∀ k v, DR (l.foldl f init) k v ↔ DR init k v ∨ ∃ x ∈ l, W x k v) ∧ (NE init → NE (l.foldl f init)) := by
  induction l generalizing init with
  | nil => exact ⟨fun k v => by simp, fun h => h⟩
  | cons a l ih =>
    obtain ⟨i1, i2⟩ := ih (f init a)
    refine ⟨fun k v => ?_, fun h => i2 (hne _ _ h)⟩
    rw [List.foldl_cons, i1, hf]
    simp only [List.mem_cons, exists_eq_or_imp, or_assoc]

theorem grouped_spec (rawDeps : List (Str × Str)) :
    (∀ k v, DR (rawDeps.foldl (fun acc d => addDep acc d.1 d.2) []) k v ↔ (k, v) ∈ rawDeps) ∧
    NE (rawDeps.foldl (fun acc d => addDep acc d.1 d.2) []) := by
  obtain ⟨h1, h2⟩ := foldl_rel (fun acc (d : Str × Str) => addDep acc d.1 d.2) (fun d k v => k = d.1 ∧ v = d.2)
    (fun acc x k v => addDep_rel acc x.1 x.2 k v) (fun acc x h => addDep_ne acc x.1 x.2 h) rawDeps []
  refine ⟨fun k v => ?_, h2 (fun e he => by cases he)⟩
  rw [h1]
  constructor
  · rintro (⟨e, he, -⟩ | ⟨x, hx, rfl, rfl⟩)
    · cases he
    · exact hx
  · intro h; exact Or.inr ⟨(k, v), h, rfl, rfl⟩

theorem unified_spec (u : Str → Str) (grouped : List (Str × List Str)) :
    (∀ k v, DR (grouped.foldl (fun acc kv => kv.2.foldl (fun acc v => addDep acc (u kv.1) (u v)) acc) []) k v ↔
      ∃ k0 v0, DR grouped k0 v0 ∧ k = u k0 ∧ v = u v0) ∧
    NE (grouped.foldl (fun acc kv => kv.2.foldl (fun acc v => addDep acc (u kv.1) (u v)) acc) []) := by
  have inner : ∀ (kv : Str × List Str) (acc : List (Str × List Str)),
      (∀ k v, DR (kv.2.foldl (fun acc v => addDep acc (u kv.1) (u v)) acc) k v ↔
        DR acc k v ∨ ∃ v0 ∈ kv.2, k = u kv.1 ∧ v = u v0) ∧
      (NE acc → NE (kv.2.foldl (fun acc v => addDep acc (u kv.1) (u v)) acc)) := fun kv acc =>
    foldl_rel (fun acc (v : Str) => addDep acc (u kv.1) (u v)) (fun v0 k v => k = u kv.1 ∧ v = u v0)
      (fun acc x k v => addDep_rel acc _ _ k v) (fun acc x h => addDep_ne acc _ _ h) kv.2 acc
  obtain ⟨h1, h2⟩ := foldl_rel (fun acc (kv : Str × List Str) => kv.2.foldl (fun acc v => addDep acc (u kv.1) (u v)) acc)
    (fun kv k v => ∃ v0 ∈ kv.2, k = u kv.1 ∧ v = u v0)
    (fun acc x k v => (inner x acc).1 k v) (fun acc x h => (inner x acc).2 h) grouped []
  refine ⟨fun k v => ?_, h2 (fun e he => by cases he)⟩
  rw [h1]
  constructor
  · rintro (⟨e, he, -⟩ | ⟨kv, hkv, v0, hv0, rfl, rfl⟩)
    · cases he
    · exact ⟨kv.1, v0, ⟨kv, hkv, rfl, hv0⟩, rfl, rfl⟩
  · rintro ⟨k0, v0, ⟨kv, hkv, rfl, hv0⟩, rfl, rfl⟩
    exact Or.inr ⟨kv, hkv, v0, hv0, rfl, rfl⟩

/-- the alias table and the unification map of a module list -/
def aliasesOf (modules : List PModule) : List (Str × Str) := modules.filterMap fun m => m.alias.map fun a => (a, m.name)
def unifyOf (modules : List PModule) (x : Str) : Str :=
  match ((aliasesOf modules).filter (·.1 == x)).getLast? with | some p => p.2 | none => x

/-- what the aggregation computes, as sets -/
theorem aggregate_spec (modules : List PModule) (rawDeps : List (Str × Str)) :
    (∀ k v, DR (pumlAggregate modules rawDeps).dependencies k v ↔
      ∃ k0 v0, (k0, v0) ∈ rawDeps ∧ k = unifyOf modules k0 ∧ v = unifyOf modules v0) ∧
    (∀ x, x ∈ (pumlAggregate modules rawDeps).modules ↔
      (∃ m ∈ modules, x = m.name) ∨ ∃ k0 v0, (k0, v0) ∈ rawDeps ∧ (x = unifyOf modules k0 ∨ x = unifyOf modules v0)) := by
  obtain ⟨g1, -⟩ := grouped_spec rawDeps
  obtain ⟨u1, u2⟩ := unified_spec (unifyOf modules) (rawDeps.foldl (fun acc d => addDep acc d.1 d.2) [])
  have hdep : ∀ k v, DR (pumlAggregate modules rawDeps).dependencies k v ↔
      ∃ k0 v0, (k0, v0) ∈ rawDeps ∧ k = unifyOf modules k0 ∧ v = unifyOf modules v0 := by
    intro k v
    have := u1 k v
    simp only [g1] at this
    exact this
  have hne : NE (pumlAggregate modules rawDeps).dependencies := u2
  refine ⟨hdep, fun x => ?_⟩
  show x ∈ dedup (modules.map (·.name) ++ (pumlAggregate modules rawDeps).dependencies.map (·.1) ++
    (pumlAggregate modules rawDeps).dependencies.flatMap (·.2)) ↔ _
  rw [Pta.mem_dedup]
  simp only [List.mem_append, List.mem_map, List.mem_flatMap]
  constructor
  · rintro ((⟨m, hm, rfl⟩ | ⟨e, he, rfl⟩) | ⟨e, he, hx⟩)
    · exact Or.inl ⟨m, hm, rfl⟩
    · obtain ⟨v, hv⟩ := List.exists_mem_of_ne_nil _ (hne e he)
      obtain ⟨k0, v0, h0, hk, -⟩ := (hdep e.1 v).1 ⟨e, he, rfl, hv⟩
      exact Or.inr ⟨k0, v0, h0, Or.inl hk⟩
    · obtain ⟨k0, v0, h0, -, hv⟩ := (hdep e.1 x).1 ⟨e, he, rfl, hx⟩
      exact Or.inr ⟨k0, v0, h0, Or.inr hv⟩
  · rintro (⟨m, hm, rfl⟩ | ⟨k0, v0, h0, rfl | rfl⟩)
    · exact Or.inl (Or.inl ⟨m, hm, rfl⟩)
    · obtain ⟨e, he, h1, -⟩ := (hdep _ _).2 ⟨k0, v0, h0, rfl, rfl⟩
      exact Or.inl (Or.inr ⟨e, he, h1⟩)
    · obtain ⟨e, he, -, h2⟩ := (hdep _ _).2 ⟨k0, v0, h0, rfl, rfl⟩
      exact Or.inr ⟨e, he, h2⟩

theorem aliasesConsistent_iff (modules : List PModule) :
    aliasesConsistent modules = true ↔ ∀ p ∈ aliasesOf modules, ∀ q ∈ aliasesOf modules, p.1 = q.1 → p.2 = q.2 := by
  unfold aliasesConsistent aliasesOf
  simp only [List.all_eq_true, List.mem_filterMap, Option.map_eq_some_iff]
  constructor
  · rintro h p ⟨m1, hm1, a1, ha1, rfl⟩ q ⟨m2, hm2, a2, ha2, rfl⟩ heq
    have := h m1 hm1 m2 hm2
    rw [ha1, ha2] at this
    simp only at heq
    simpa [heq] using this
  · intro h m1 hm1 m2 hm2
    cases ha1 : m1.alias with
    | none => rfl
    | some a1 =>
      cases ha2 : m2.alias with
      | none => rfl
      | some a2 =>
        simp only [Bool.or_eq_true, bne_iff_ne, ne_eq, beq_iff_eq]
        by_cases e : a1 = a2
        · right
          exact h (a1, m1.name) ⟨m1, hm1, a1, ha1, rfl⟩ (a2, m2.name) ⟨m2, hm2, a2, ha2, rfl⟩ e
        · exact Or.inl e

theorem unifyOf_perm {modules modules' : List PModule} (hp : modules.Perm modules')
    (hc : aliasesConsistent modules = true) (x : Str) : unifyOf modules x = unifyOf modules' x := by
  rw [aliasesConsistent_iff] at hc
  unfold unifyOf
  have hal : (aliasesOf modules).Perm (aliasesOf modules') := hp.filterMap _
  have hf := hal.filter (fun p => p.1 == x)
  have hn : ∀ p ∈ (aliasesOf modules).filter (fun p => p.1 == x), ∀ q ∈ (aliasesOf modules).filter (fun p => p.1 == x),
      p.2 = q.2 := by
    intro p hp' q hq'
    simp only [List.mem_filter, beq_iff_eq] at hp' hq'
    exact hc p hp'.1 q hq'.1 (hp'.2.trans hq'.2.symm)
  generalize (aliasesOf modules).filter (fun p => p.1 == x) = F at hf hn
  generalize (aliasesOf modules').filter (fun p => p.1 == x) = F' at hf
  cases h1 : F.getLast? with
  | none =>
    rw [List.getLast?_eq_none_iff] at h1
    subst h1
    rw [← hf.nil_eq]
    rfl
  | some p =>
    cases h2 : F'.getLast? with
    | none =>
      rw [List.getLast?_eq_none_iff] at h2
      subst h2
      rw [hf.eq_nil] at h1
      cases h1
    | some q =>
      exact hn p (List.mem_of_getLast? h1) q (hf.mem_iff.2 (List.mem_of_getLast? h2))

/-- the aggregation step does not depend on the order of the per-line results, provided no alias is declared twice
    with different names -/
theorem aggregate_perm (modules modules' : List PModule) (rawDeps rawDeps' : List (Str × Str))
    (hm : modules.Perm modules') (hd : rawDeps.Perm rawDeps') (hc : aliasesConsistent modules = true) :
    (∀ x, x ∈ (pumlAggregate modules rawDeps).modules ↔ x ∈ (pumlAggregate modules' rawDeps').modules) ∧
    (∀ k v, (pumlAggregate modules rawDeps).hasDep k v = (pumlAggregate modules' rawDeps').hasDep k v) := by
  obtain ⟨d1, m1⟩ := aggregate_spec modules rawDeps
  obtain ⟨d2, m2⟩ := aggregate_spec modules' rawDeps'
  have hu : unifyOf modules' = unifyOf modules := funext fun x => (unifyOf_perm hm hc x).symm
  constructor
  · intro x
    rw [m1, m2, hu]
    constructor
    · rintro (⟨m, hm', rfl⟩ | ⟨k0, v0, h0, h⟩)
      · exact Or.inl ⟨m, hm.mem_iff.1 hm', rfl⟩
      · exact Or.inr ⟨k0, v0, hd.mem_iff.1 h0, h⟩
    · rintro (⟨m, hm', rfl⟩ | ⟨k0, v0, h0, h⟩)
      · exact Or.inl ⟨m, hm.mem_iff.2 hm', rfl⟩
      · exact Or.inr ⟨k0, v0, hd.mem_iff.2 h0, h⟩
  · intro k v
    rw [Bool.eq_iff_iff, hasDep_iff, hasDep_iff, d1, d2, hu]
    constructor
    · rintro ⟨k0, v0, h0, h⟩; exact ⟨k0, v0, hd.mem_iff.1 h0, h⟩
    · rintro ⟨k0, v0, h0, h⟩; exact ⟨k0, v0, hd.mem_iff.2 h0, h⟩

/-- permuting the lines of the diagram body permutes the per-line results -/
theorem lines_perm {lines lines' : List Str} (h : lines.Perm lines') :
    (lines.flatMap lineModules).Perm (lines'.flatMap lineModules) ∧
    (lines.filterMap lineDependency).Perm (lines'.filterMap lineDependency) :=
  ⟨h.flatMap_right _, h.filterMap _⟩

/-- the alias check of `_get_modules_by_alias` looks at the SET of declarations only -/
theorem aliasesConsistent_congr {modules modules' : List PModule} (h : ∀ m, m ∈ modules ↔ m ∈ modules') :
    aliasesConsistent modules = aliasesConsistent modules' := by
  unfold aliasesConsistent
  rw [Bool.eq_iff_iff]
  simp only [List.all_eq_true]
  constructor
  · intro hc m1 h1 m2 h2; exact hc m1 ((h m1).2 h1) m2 ((h m2).2 h2)
  · intro hc m1 h1 m2 h2; exact hc m1 ((h m1).1 h1) m2 ((h m2).1 h2)

theorem aliasesConsistent_perm {modules modules' : List PModule} (hp : modules.Perm modules') :
    aliasesConsistent modules = aliasesConsistent modules' :=
  aliasesConsistent_congr fun _ => hp.mem_iff

/-- check + aggregation (`_unify`) does not depend on the order of the per-line results — no side condition: either
    both orders are rejected with the parsing error or both succeed with the same module set and dependency relation -/
theorem unify_perm (modules modules' : List PModule) (rawDeps rawDeps' : List (Str × Str))
    (hm : modules.Perm modules') (hd : rawDeps.Perm rawDeps') :
    SameDiagram (pumlUnify modules rawDeps) (pumlUnify modules' rawDeps') := by
  have hcc := aliasesConsistent_perm hm
  unfold pumlUnify
  cases hc : aliasesConsistent modules with
  | true =>
    rw [← hcc, hc]
    exact aggregate_perm modules modules' rawDeps rawDeps' hm hd hc
  | false =>
    rw [← hcc, hc]
    exact ⟨rfl, rfl⟩

/-- the outcomes, explicitly -/
theorem sameDiagram_iff (x y : Except ErrKind Parsed') :
    SameDiagram x y ↔ (x = .error .pumlParsingError ∧ y = .error .pumlParsingError) ∨
      ∃ p q, x = .ok p ∧ y = .ok q ∧ (∀ m, m ∈ p.modules ↔ m ∈ q.modules) ∧ (∀ k v, p.hasDep k v = q.hasDep k v) := by
  cases x with
  | error e =>
    cases y with
    | error e' =>
      constructor
      · rintro ⟨rfl, rfl⟩; exact .inl ⟨rfl, rfl⟩
      · rintro (⟨h1, h2⟩ | ⟨p, q, h, _⟩)
        · cases h1; cases h2; exact ⟨rfl, rfl⟩
        · cases h
    | ok q =>
      constructor
      · intro h; exact h.elim
      · rintro (⟨_, h⟩ | ⟨p, q, h, _⟩) <;> cases h
  | ok p =>
    cases y with
    | error e' =>
      constructor
      · intro h; exact h.elim
      · rintro (⟨h, _⟩ | ⟨p, q, _, h, _⟩) <;> cases h
    | ok q =>
      constructor
      · intro h; exact .inr ⟨p, q, rfl, rfl, h⟩
      · rintro (⟨h, _⟩ | ⟨p', q', h1, h2, h⟩)
        · cases h
        · cases h1; cases h2; exact h

/-- two texts with fine tags whose bodies consist of the same lines in a different order parse alike -/
theorem parse_perm (content content' body body' : Str)
    (hb : pumlBody (pyStrip content) = .ok body) (hb' : pumlBody (pyStrip content') = .ok body')
    (h : (splitLines body).Perm (splitLines body')) :
    SameDiagram (pumlParse content) (pumlParse content') := by
  rw [pumlParse_eq, pumlParse_eq, hb, hb']
  exact unify_perm _ _ _ _ (lines_perm h).1 (lines_perm h).2

end Pta.OrdD
