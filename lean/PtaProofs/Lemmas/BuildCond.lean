/-
  PtaProofs.Lemmas.BuildCond — the graph constructor on inputs as a scan produces them (property C04, parts 2-4):
  the module list need not be closed under ancestors, and import records may name importees that are not modules
  (their `createEdge` calls are no-ops, and only those links of the importee's chain whose two ends exist are
  written). `createEdge` / edge folds with legality required only when both ends are present; `get_parent_modules`
  on arbitrary strings; and `buildGraph_scanlike`: such inputs still build a graph of the architecture.
-/
import Bridge.Abs
import PtaProofs.Lemmas.Render
import PtaProofs.Lemmas.BuildGen
import PtaProofs.Lemmas.BuildNames
import PtaProofs.Lemmas.Build
namespace Pta
namespace BuildCond
open PtaSpec BuildGen BuildNames BuildMain

/-! ### `split` / `join` / `get_parent_modules` on arbitrary strings -/

theorem joinDots_splitDots (s : Str) : joinDots (splitDots s) = s := by
  induction s with
  | nil => rfl
  | cons c cs ih =>
    have hne := splitDots_ne_nil cs
    unfold splitDots
    cases h : splitDots cs with
    | nil => exact absurd h hne
    | cons a t =>
      rw [h] at ih
      simp only []
      split
      · rename_i hc
        rw [joinDots_cons_cons, ih, hc]; rfl
      · cases t with
        | nil => simp only [joinDots] at ih ⊢; rw [ih]
        | cons b t' =>
          rw [joinDots_cons_cons] at ih ⊢
          rw [List.cons_append, ih]

theorem splitDots_comp_nodot (s : Str) : ∀ c ∈ splitDots s, '.' ∉ c := by
  induction s with
  | nil => intro c hc; simp [splitDots] at hc; subst hc; simp
  | cons x xs ih =>
    have hne := splitDots_ne_nil xs
    unfold splitDots
    cases h : splitDots xs with
    | nil => exact absurd h hne
    | cons a t =>
      rw [h] at ih
      simp only []
      split
      · intro c hc
        rcases List.mem_cons.1 hc with rfl | hc
        · simp
        · exact ih c hc
      · rename_i hx
        intro c hc
        rcases List.mem_cons.1 hc with rfl | hc
        · intro hm
          rcases List.mem_cons.1 hm with h' | h'
          · exact hx h'.symm
          · exact ih a List.mem_cons_self h'
        · exact ih c (List.mem_cons_of_mem _ hc)

/-- `get_parent_modules` on a dotted string with dot-free (possibly empty) components -/
theorem parentModulesAux_join (acc : Str) (cs : List Str) (hne : cs ≠ []) (h : ∀ c ∈ cs, '.' ∉ c) :
    parentModulesAux acc (joinDots cs) = (properPrefixes cs).map fun p => acc.reverse ++ joinDots p := by
  induction cs generalizing acc with
  | nil => exact absurd rfl hne
  | cons x r ih =>
    have hx : '.' ∉ x := h x List.mem_cons_self
    cases r with
    | nil => simp [joinDots, properPrefixes_singleton, parentModulesAux_nodot acc x hx]
    | cons y r' =>
      rw [joinDots_cons_cons, parentModulesAux_nodot_dot acc x _ hx,
        ih _ (by simp) (fun c hc => h c (List.mem_cons_of_mem _ hc)), properPrefixes_cons_cons]
      simp only [List.map_cons, List.map_map]
      congr 1
      apply List.map_congr_left
      intro p hp
      have hpne := mem_properPrefixes_ne_nil hp
      simp [joinDots_cons x p hpne]

theorem parentModules_join (cs : List Str) (hne : cs ≠ []) (h : ∀ c ∈ cs, '.' ∉ c) :
    parentModules (joinDots cs) = (properPrefixes cs).map joinDots := by
  simpa [parentModules] using parentModulesAux_join [] cs hne h

/-- every link of the chain `get_parent_modules(x) + [x]`, for an arbitrary string -/
theorem chain_pairs (x : Str) (pc : Str × Str) (h : pc ∈ consecutive (parentModules x ++ [x])) :
    ∃ k, 0 < k ∧ k < (splitDots x).length ∧
      pc = (joinDots ((splitDots x).take k), joinDots ((splitDots x).take (k + 1))) := by
  have hne := splitDots_ne_nil x
  have hnd := splitDots_comp_nodot x
  have hx : x = joinDots (splitDots x) := (joinDots_splitDots x).symm
  generalize splitDots x = cs at *
  subst hx
  rw [parentModules_join cs hne hnd] at h
  have : List.map joinDots (properPrefixes cs) ++ [joinDots cs] = (properPrefixes cs ++ [cs]).map joinDots := by simp
  rw [this, consecutive_map] at h
  obtain ⟨q, hq, rfl⟩ := List.mem_map.1 h
  obtain ⟨k, h0, hk, rfl⟩ := (mem_consecutive_prefixes cs hne q).1 hq
  exact ⟨k, h0, hk, rfl⟩

/-- a link whose two ends are rendered well-formed names is a (parent, child) pair -/
theorem chain_pair_names (x : Str) (pc : Str × Str) (h : pc ∈ consecutive (parentModules x ++ [x]))
    (m n : Name) (hm : nameWF m = true) (hn : nameWF n = true) (h1 : pc.1 = render m) (h2 : pc.2 = render n) :
    2 ≤ n.length ∧ m = n.dropLast := by
  obtain ⟨k, h0, hk, rfl⟩ := chain_pairs x pc h
  have hnd := splitDots_comp_nodot x
  generalize splitDots x = cs at *
  simp only at h1 h2
  have e1 : cs.take k = m := by
    have := splitDots_joinDots (cs.take k) (fun c hc => hnd c (List.mem_of_mem_take hc))
      (by intro h; have := congrArg List.length h; simp only [List.length_take, List.length_nil] at this; omega)
    rw [h1] at this
    rw [← this]; exact splitDots_render m hm
  have e2 : cs.take (k + 1) = n := by
    have := splitDots_joinDots (cs.take (k + 1)) (fun c hc => hnd c (List.mem_of_mem_take hc))
      (by intro h; have := congrArg List.length h; simp only [List.length_take, List.length_nil] at this; omega)
    rw [h2] at this
    rw [← this]; exact splitDots_render n hn
  rw [← e1, ← e2]
  constructor
  · rw [List.length_take]; omega
  · rw [List.dropLast_eq_take, List.length_take, List.take_take]
    congr 1
    omega

/-! ### `createEdge` without a level limit, legality required only when both ends are present -/

theorem createEdge_absent (g : PGraph Str) (s e : Str) (inh : Bool) (h : ¬ (s ∈ g.nodes ∧ e ∈ g.nodes)) :
    createEdge none g s e inh = g := by
  have hn : (g.hasNode s && g.hasNode e) = false := by
    rw [Bool.eq_false_iff]
    intro hn
    simp only [Bool.and_eq_true, hasNode_iff] at hn
    exact h hn
  show (if (s == e) = true then g else if (g.hasNode s && g.hasNode e) = true then _ else g) = g
  rw [hn]
  by_cases hse : (s == e) = true
  · rw [if_pos hse]
  · rw [if_neg hse]; rfl

section
variable (P : Str → Str → Bool → Prop) (hex : ∀ s e, P s e true → P s e false → False)
include hex

theorem createEdge_edges_cond (g : PGraph Str) (s e : Str) (inh : Bool)
    (hg : ∀ x ∈ g.edges, P x.src x.dst x.inh)
    (hleg : s ≠ e → s ∈ g.nodes → e ∈ g.nodes → P s e inh) (x : Edge Str) :
    x ∈ (createEdge none g s e inh).edges ↔
      x ∈ g.edges ∨ (x = ⟨s, e, inh⟩ ∧ s ≠ e ∧ s ∈ g.nodes ∧ e ∈ g.nodes) := by
  by_cases hn : s ∈ g.nodes ∧ e ∈ g.nodes
  · exact createEdge_edges none P hex g s e inh hg (fun hne => hleg hne hn.1 hn.2) x
  · rw [createEdge_absent g s e inh hn]
    constructor
    · exact Or.inl
    · rintro (h | ⟨-, -, h⟩)
      · exact h
      · exact absurd h hn

theorem edgeFold_spec_cond (inh : Bool) (l : List (Str × Str)) (g : PGraph Str)
    (hg : ∀ x ∈ g.edges, P x.src x.dst x.inh)
    (hleg : ∀ pc ∈ l, pc.1 ≠ pc.2 → pc.1 ∈ g.nodes → pc.2 ∈ g.nodes → P pc.1 pc.2 inh) :
    (∀ x ∈ (l.foldl (fun g pc => createEdge none g pc.1 pc.2 inh) g).edges, P x.src x.dst x.inh) ∧
    g.edges ⊆ (l.foldl (fun g pc => createEdge none g pc.1 pc.2 inh) g).edges := by
  induction l generalizing g with
  | nil => exact ⟨hg, fun _ h => h⟩
  | cons p ps ih =>
    simp only [List.foldl_cons]
    have hp := hleg p List.mem_cons_self
    have hchar := createEdge_edges_cond P hex g p.1 p.2 inh hg hp
    have hg' : ∀ x ∈ (createEdge none g p.1 p.2 inh).edges, P x.src x.dst x.inh := by
      intro x hx
      rcases (hchar x).1 hx with h | ⟨rfl, hne, h1, h2⟩
      · exact hg x h
      · exact hp hne h1 h2
    obtain ⟨i1, i2⟩ := ih (createEdge none g p.1 p.2 inh) hg'
      (fun pc h => by rw [createEdge_nodes]; exact hleg pc (List.mem_cons_of_mem _ h))
    exact ⟨i1, fun x hx => i2 ((hchar x).2 (Or.inl hx))⟩

end

/-! ### nodes of the constructed graph, for arbitrary inputs -/

theorem addHierarchy_nodes (lim : Option Nat) (g : PGraph Str) (ps : List Str) (c s : Str) :
    s ∈ (addHierarchy lim g ps c).nodes ↔ s ∈ g.nodes ∨ ∃ p ∈ ps, s = flattenNode lim p := by
  unfold addHierarchy
  simp only []
  rw [edgeFold_nodes, nodeFold_nodes]

theorem addImport_nodes (lim : Option Nat) (known : List Str) (g : PGraph Str) (i : ImportRec) (s : Str) :
    s ∈ (addImport lim known g i).nodes ↔ s ∈ g.nodes ∨ ∃ p ∈ parentModules i.importer, s = flattenNode lim p := by
  unfold addImport
  simp only []
  rw [edgeFold_nodes, addHierarchy_nodes, addImport_nodes_first]

theorem buildGraph_nodup (mods : List Str) (imports : List ImportRec) (lim : Option Nat) :
    (buildGraph mods imports lim).nodes.Nodup := by
  unfold buildGraph
  apply foldl_inv (addImport lim _) (fun g => g.nodes.Nodup) _ (fun g x _ h => addImport_nodup lim _ g x h)
  unfold addAllModules
  apply foldl_inv _ (fun g => g.nodes.Nodup) _
    (fun g x _ h => addHierarchy_nodup lim _ _ _ (createNode_nodup lim g x h))
  exact List.nodup_nil

end BuildCond
end Pta
