/-
  PtaProofs.Lemmas.AnythingDedup — the parent/sub-module de-duplication `_convert_aliases` applies to the subjects of
  `import_anything` / `be_imported_by_anything` rules (`dedupSubjects`) does not change the verdict CLASS of the rule
  `S should not import / be imported by modules except S`, provided every name of `S` is a node and the graph's
  hierarchy edges cover the dotted nesting of its nodes (`HierClosed`; true of every `buildGraph`, with or without a
  level limit, and of every `GraphOf a g`).

  Idea: with objects = subjects = `S` (name filters) the rule passes iff no import edge leaves (resp. enters) the union
  `Cover g S` of the subjects' sub trees; a subject dropped by the de-duplication lies in the sub tree of a kept one.
-/
import Bridge.Abs
import PtaProofs.Lemmas.Expansion
import PtaProofs.Lemmas.QueryErr
import PtaProofs.Lemmas.SemHier
import PtaProofs.Lemmas.ExtBuild
import PtaProofs.Lemmas.Build
namespace Pta
open PtaSpec

/-! ### the hypothesis on the graph -/

/-- the hierarchy edges cover the dotted nesting of the nodes: a node whose identifier extends another node's
    identifier by `.`-separated components is reachable from it along hierarchy edges -/
def HierClosed (g : PGraph Str) : Prop :=
  ∀ a b, g.hasNode a = true → g.hasNode b = true → isStrictSub a b = true → Reach g a b

/-- name filters only (no regex, no `are_sub_modules_of`) -/
def namesOnly (S : List Filter) : Bool := S.all fun f => !f.isRegex && !f.isParent

theorem namesOnly_iff (S : List Filter) :
    namesOnly S = true ↔ ∀ f ∈ S, f.isRegex = false ∧ f.isParent = false := by
  simp [namesOnly, List.all_eq_true]

theorem namesOnly_map_name (ns : List Str) : namesOnly (ns.map Filter.name) = true := by
  rw [namesOnly_iff]
  intro f hf
  obtain ⟨n, _, rfl⟩ := List.mem_map.1 hf
  exact ⟨rfl, rfl⟩

/-! ### `dedupSubjects` -/

theorem dedupSubjects_subset (S : List Filter) : ∀ f ∈ dedupSubjects S, f ∈ S :=
  fun f hf => ((mem_dedupSubjects S f).1 hf).1

theorem isStrictSub_length (a b : Str) (h : isStrictSub a b = true) : a.length < b.length := by
  have := startsWith_length _ _ h
  simp at this
  omega

/-- every subject lies in the sub tree of a subject the de-duplication keeps -/
theorem dedup_ancestor (g : PGraph Str) (hc : HierClosed g) (S : List Filter)
    (hn : ∀ f ∈ S, g.hasNode f.id = true) :
    ∀ f ∈ S, ∃ r ∈ dedupSubjects S, Reach g r.id f.id := by
  have key : ∀ n, ∀ f ∈ S, f.id.length ≤ n → ∃ r ∈ dedupSubjects S, Reach g r.id f.id := by
    intro n
    induction n with
    | zero =>
      intro f hf hl
      refine ⟨f, (mem_dedupSubjects S f).2 ⟨hf, fun o _ => ?_⟩, .refl _⟩
      cases h : isStrictSub o.id f.id
      · exact Bool.and_false _
      · have := isStrictSub_length _ _ h; omega
    | succ n ih =>
      intro f hf hl
      by_cases hd : f ∈ dedupSubjects S
      · exact ⟨f, hd, .refl _⟩
      · have : ∃ o ∈ S, isStrictSub o.id f.id = true := by
          apply Classical.byContradiction
          intro hno
          apply hd
          refine (mem_dedupSubjects S f).2 ⟨hf, fun o ho => ?_⟩
          cases h : isStrictSub o.id f.id
          · exact Bool.and_false _
          · exact absurd ⟨o, ho, h⟩ hno
        obtain ⟨o, ho, hs⟩ := this
        have hlt := isStrictSub_length _ _ hs
        obtain ⟨r, hr, hreach⟩ := ih o ho (by omega)
        exact ⟨r, hr, hreach.trans (hc _ _ (hn o ho) (hn f hf) hs)⟩
  intro f hf
  exact key _ f hf (Nat.le_refl _)

theorem dedupSubjects_ne_nil (S : List Filter) (hne : S ≠ []) : dedupSubjects S ≠ [] := by
  -- an element with an identifier of minimal length survives
  have key : ∀ n, ∀ f ∈ S, f.id.length ≤ n → ∃ r, r ∈ dedupSubjects S := by
    intro n
    induction n with
    | zero =>
      intro f hf hl
      refine ⟨f, (mem_dedupSubjects S f).2 ⟨hf, fun o _ => ?_⟩⟩
      cases h : isStrictSub o.id f.id
      · exact Bool.and_false _
      · have := isStrictSub_length _ _ h; omega
    | succ n ih =>
      intro f hf hl
      by_cases hd : f ∈ dedupSubjects S
      · exact ⟨f, hd⟩
      · have : ∃ o ∈ S, isStrictSub o.id f.id = true := by
          apply Classical.byContradiction
          intro hno
          apply hd
          refine (mem_dedupSubjects S f).2 ⟨hf, fun o ho => ?_⟩
          cases h : isStrictSub o.id f.id
          · exact Bool.and_false _
          · exact absurd ⟨o, ho, h⟩ hno
        obtain ⟨o, ho, hs⟩ := this
        have hlt := isStrictSub_length _ _ hs
        exact ih o ho (by omega)
  obtain ⟨f, hf⟩ := List.exists_mem_of_ne_nil S hne
  obtain ⟨r, hr⟩ := key _ f hf (Nat.le_refl _)
  exact List.ne_nil_of_mem hr

/-! ### what the rule `S should not import / be imported by modules except S` says -/

/-- `x` lies in the sub tree of one of the subjects -/
def Cover (g : PGraph Str) (S : List Filter) (x : Str) : Prop := ∃ f ∈ S, Reach g f.id x

/-- no import edge leaves (`dir = true`) resp. enters (`dir = false`) the union of the subjects' sub trees -/
def NoEscape (g : PGraph Str) (dir : Bool) (S : List Filter) : Prop :=
  ∀ u v, v ∈ g.importSuccs u →
    if dir = true then Cover g S u → Cover g S v else Cover g S v → Cover g S u

theorem cover_dedup (g : PGraph Str) (hc : HierClosed g) (S : List Filter)
    (hn : ∀ f ∈ S, g.hasNode f.id = true) (x : Str) :
    Cover g (dedupSubjects S) x ↔ Cover g S x := by
  constructor
  · rintro ⟨f, hf, hr⟩; exact ⟨f, dedupSubjects_subset S f hf, hr⟩
  · rintro ⟨f, hf, hr⟩
    obtain ⟨r, hr', hreach⟩ := dedup_ancestor g hc S hn f hf
    exact ⟨r, hr', hreach.trans hr⟩

theorem noEscape_dedup (g : PGraph Str) (hc : HierClosed g) (dir : Bool) (S : List Filter)
    (hn : ∀ f ∈ S, g.hasNode f.id = true) :
    NoEscape g dir (dedupSubjects S) ↔ NoEscape g dir S := by
  unfold NoEscape
  simp only [cover_dedup g hc S hn]

theorem parentIds_namesOnly (S : List Filter) (hS : namesOnly S = true) : parentIds S = [] := by
  unfold parentIds
  rw [List.map_eq_nil_iff, List.filter_eq_nil_iff]
  intro f hf
  simp [((namesOnly_iff S).1 hS f hf).2]

theorem OP_anything (d : List (Str × Str)) : OP ⟨false, false, true, true⟩ d ↔ d = [] := by
  simp [OP, Behavior.expExplAndNoOther, Behavior.expAtLeastOneOther, Behavior.expExplNotButOthers,
    Behavior.expOtherNotPresent]

theorem list_eq_nil_iff_pairs {α β : Type} (l : List (α × β)) : l = [] ↔ ∀ u v, (u, v) ∉ l := by
  constructor
  · rintro rfl u v h; cases h
  · intro h
    cases l with
    | nil => rfl
    | cons p _ => exact absurd List.mem_cons_self (h p.1 p.2)

/-- the demand of the rule on one subject, forward direction -/
theorem Q1_anything_from (g : PGraph Str) (S : List Filter) (hS : namesOnly S = true)
    (hn : ∀ f ∈ S, g.hasNode f.id = true) (s : Filter) (hs : s ∈ S) :
    Q1 g ⟨false, false, true, true⟩ true S s ↔
      ∀ u v, v ∈ g.importSuccs u → Reach g s.id u → Cover g S v := by
  unfold Q1
  have h1 : ((Behavior.mk false false true true).explReq || (Behavior.mk false false true true).explForb) = false := rfl
  have h2 : ((Behavior.mk false false true true).otherReq || (Behavior.mk false false true true).otherForb) = true := rfl
  simp only [h1, h2, Bool.false_eq_true, false_imp_iff, true_and, true_imp_iff, if_true, OP_anything]
  obtain ⟨l, hl, hm⟩ := otherFrom_ok g s (dedup S) (hn s hs) (fun o ho => hn o ((mem_dedup _ _).1 ho))
  have hsp : s.isParent = false := ((namesOnly_iff S).1 hS s hs).2
  have hpar : parentIds (dedup S) = [] := by
    unfold parentIds
    rw [List.map_eq_nil_iff, List.filter_eq_nil_iff]
    intro f hf
    simp [((namesOnly_iff S).1 hS f ((mem_dedup _ _).1 hf)).2]
  rw [hl]
  simp only [Except.ok.injEq, exists_eq_left', list_eq_nil_iff_pairs, hm, hsp, Bool.false_eq_true, false_imp_iff,
    true_and, hpar, List.not_mem_nil, not_false_eq_true, and_true, mem_dedup]
  constructor
  · intro h u v huv hu
    apply Classical.byContradiction
    intro hcov
    apply h u v
    refine ⟨hu, huv, fun hv => hcov ⟨s, hs, hv⟩, ?_⟩
    rintro ⟨o, ho, _, hov⟩
    exact hcov ⟨o, ho, hov⟩
  · rintro h u v ⟨hu, huv, hnv, hno⟩
    obtain ⟨o, ho, hov⟩ := h u v huv hu
    by_cases hos : o = s
    · subst hos; exact hnv hov
    · exact hno ⟨o, ho, hos, hov⟩

/-- the demand of the rule on one subject, backward direction -/
theorem Q1_anything_to (g : PGraph Str) (S : List Filter) (hS : namesOnly S = true)
    (hn : ∀ f ∈ S, g.hasNode f.id = true) (s : Filter) (hs : s ∈ S) :
    Q1 g ⟨false, false, true, true⟩ false S s ↔
      ∀ u v, v ∈ g.importSuccs u → Reach g s.id v → Cover g S u := by
  unfold Q1
  have h1 : ((Behavior.mk false false true true).explReq || (Behavior.mk false false true true).explForb) = false := rfl
  have h2 : ((Behavior.mk false false true true).otherReq || (Behavior.mk false false true true).otherForb) = true := rfl
  simp only [h1, h2, Bool.false_eq_true, false_imp_iff, true_and, true_imp_iff, if_false, OP_anything]
  obtain ⟨l, hl, hm⟩ := otherTo_ok g (dedup S) s (hn s hs) (fun o ho => hn o ((mem_dedup _ _).1 ho))
  have hsp : s.isParent = false := ((namesOnly_iff S).1 hS s hs).2
  have hpar : parentIds (dedup S) = [] := by
    unfold parentIds
    rw [List.map_eq_nil_iff, List.filter_eq_nil_iff]
    intro f hf
    simp [((namesOnly_iff S).1 hS f ((mem_dedup _ _).1 hf)).2]
  rw [hl]
  simp only [Except.ok.injEq, exists_eq_left', list_eq_nil_iff_pairs, hm, hsp, Bool.false_eq_true, false_imp_iff,
    true_and, hpar, List.not_mem_nil, not_false_eq_true, and_true, mem_dedup, mem_importPreds_iff]
  constructor
  · intro h u v huv hv
    apply Classical.byContradiction
    intro hcov
    apply h u v
    refine ⟨hv, huv, fun hu => hcov ⟨s, hs, hu⟩, ?_⟩
    rintro ⟨o, ho, _, hou⟩
    exact hcov ⟨o, ho, hou⟩
  · rintro h u v ⟨hv, huv, hnu, hno⟩
    obtain ⟨o, ho, hou⟩ := h u v huv hv
    by_cases hos : o = s
    · subst hos; exact hnu hou
    · exact hno ⟨o, ho, hos, hou⟩

theorem namesOnly_noregex (S : List Filter) (hS : namesOnly S = true) : ∀ f ∈ S, f.isRegex = false :=
  fun f hf => ((namesOnly_iff S).1 hS f hf).1

/-- the rule passes iff no import escapes the union of the subjects' sub trees -/
theorem anything_pass_iff (mt : Str → Str → Bool) (g : PGraph Str) (dir : Bool) (S : List Filter) (hne : S ≠ [])
    (hS : namesOnly S = true) (hn : ∀ f ∈ S, g.hasNode f.id = true) :
    verdictOf mt g (mkRule false false true dir true S S) = .pass ↔ NoEscape g dir S := by
  rw [verdictOf_mkRule_pass, matchRule_pass_iff mt g _ dir S S hne,
    Hist.convertFilters_noregex mt g.nodes S (namesOnly_noregex S hS)]
  have hb : (Behavior.mk false false true true).inconsistent = false := rfl
  simp only [Bool.or_true, hb, ne_eq, hne, not_false_eq_true, and_self, true_and, Except.ok.injEq, exists_and_left,
    exists_eq_left']
  unfold NoEscape
  cases dir
  · simp only [Bool.false_eq_true, if_false]
    constructor
    · rintro h u v huv ⟨s, hs, hv⟩
      exact (Q1_anything_to g S hS hn s hs).1 (h s hs) u v huv hv
    · intro h s hs
      exact (Q1_anything_to g S hS hn s hs).2 (fun u v huv hv => h u v huv ⟨s, hs, hv⟩)
  · simp only [if_true]
    constructor
    · rintro h u v huv ⟨s, hs, hu⟩
      exact (Q1_anything_from g S hS hn s hs).1 (h s hs) u v huv hu
    · intro h s hs
      exact (Q1_anything_from g S hS hn s hs).2 (fun u v huv hu => h u v huv ⟨s, hs, hu⟩)

/-! ### no error when all names exist -/

theorem getOtherFrom_ok_of_nodes (g : PGraph Str) (A B : List Filter)
    (hA : ∀ f ∈ A, g.hasNode f.id = true) (hB : ∀ f ∈ B, g.hasNode f.id = true) :
    ∃ e, getOtherFrom g A B = .ok e := by
  obtain ⟨e, he, _⟩ := (getOtherFrom_all g A B (fun _ => True)).2 (fun f hf => by
    obtain ⟨l, hl, _⟩ := otherFrom_ok g f (dedup B) (hA f hf) (fun o ho => hB o ((mem_dedup _ _).1 ho))
    exact ⟨l, hl, trivial⟩)
  exact ⟨e, he⟩

theorem getOtherTo_ok_of_nodes (g : PGraph Str) (A B : List Filter)
    (hA : ∀ f ∈ A, g.hasNode f.id = true) (hB : ∀ f ∈ B, g.hasNode f.id = true) :
    ∃ e, getOtherTo g A B = .ok e := by
  obtain ⟨e, he, _⟩ := (getOtherTo_all g A B (fun _ => True)).2 (fun o ho => by
    obtain ⟨l, hl, _⟩ := otherTo_ok g (dedup A) o (hB o ho) (fun f hf => hA f ((mem_dedup _ _).1 hf))
    exact ⟨l, hl, trivial⟩)
  exact ⟨e, he⟩

/-- the rule yields a verdict (never an error) when all names exist -/
theorem anything_pass_or_fail (mt : Str → Str → Bool) (g : PGraph Str) (dir : Bool) (S : List Filter) (hne : S ≠ [])
    (hS : namesOnly S = true) (hn : ∀ f ∈ S, g.hasNode f.id = true) :
    verdictOf mt g (mkRule false false true dir true S S) = .pass ∨
    verdictOf mt g (mkRule false false true dir true S S) = .fail := by
  unfold verdictOf
  rw [assertApplies_mkRule]
  have he : S.isEmpty = false := by cases S with | nil => exact absurd rfl hne | cons _ _ => rfl
  have hb : (Behavior.mk false false true true).inconsistent = false := rfl
  simp only [Bool.or_true, Bool.not_true, he, Bool.or_self, Bool.false_eq_true, if_false, hb]
  unfold matchRule
  rw [Hist.convertFilters_noregex mt g.nodes S (namesOnly_noregex S hS)]
  simp only
  have hq : ∃ eo, runQueries g ⟨false, false, true, true⟩ dir S S = .ok eo := by
    cases dir
    · obtain ⟨e, he⟩ := getOtherTo_ok_of_nodes g S S hn hn
      exact ⟨(none, some e), (runQueries_ok_iff g _ false S S none (some e)).2 ⟨rfl, e, he, rfl⟩⟩
    · obtain ⟨e, he⟩ := getOtherFrom_ok_of_nodes g S S hn hn
      exact ⟨(none, some e), (runQueries_ok_iff g _ true S S none (some e)).2 ⟨rfl, e, he, rfl⟩⟩
  obtain ⟨⟨expl, other⟩, hq⟩ := hq
  rw [hq]
  simp only
  split
  · exact .inr rfl
  · exact .inl rfl

/-! ### the main lemma -/

/-- **de-duplication is irrelevant to the verdict class** of `S should not import / be imported by modules except S` -/
theorem anything_dedup_irrelevant (mt : Str → Str → Bool) (g : PGraph Str) (hc : HierClosed g) (dir : Bool)
    (S : List Filter) (hS : namesOnly S = true) (hn : ∀ f ∈ S, g.hasNode f.id = true) :
    verdictOf mt g (mkRule false false true dir true S S) =
    verdictOf mt g (mkRule false false true dir true (dedupSubjects S) (dedupSubjects S)) := by
  by_cases hne : S = []
  · subst hne; rfl
  have hne' := dedupSubjects_ne_nil S hne
  have hS' : namesOnly (dedupSubjects S) = true :=
    (namesOnly_iff _).2 fun f hf => (namesOnly_iff S).1 hS f (dedupSubjects_subset S f hf)
  have hn' : ∀ f ∈ dedupSubjects S, g.hasNode f.id = true := fun f hf => hn f (dedupSubjects_subset S f hf)
  have p1 := anything_pass_iff mt g dir S hne hS hn
  have p2 := anything_pass_iff mt g dir (dedupSubjects S) hne' hS' hn'
  have q := noEscape_dedup g hc dir S hn
  rcases anything_pass_or_fail mt g dir S hne hS hn with h1 | h1 <;>
    rcases anything_pass_or_fail mt g dir (dedupSubjects S) hne' hS' hn' with h2 | h2
  · rw [h1, h2]
  · exfalso
    have := p2.2 (q.2 (p1.1 h1))
    rw [h2] at this; cases this
  · exfalso
    have := p1.2 (q.1 (p2.1 h2))
    rw [h1] at this; cases this
  · rw [h1, h2]

/-- a missing name makes the rule raise a lookup error -/
theorem anything_lookup_error (mt : Str → Str → Bool) (g : PGraph Str) (dir : Bool) (S : List Filter)
    (hS : namesOnly S = true) (hmiss : ∃ f ∈ S, g.hasNode f.id = false) :
    verdictOf mt g (mkRule false false true dir true S S) = .err .lookupError := by
  obtain ⟨f, hf, hm⟩ := hmiss
  have hne : S ≠ [] := List.ne_nil_of_mem hf
  unfold verdictOf
  rw [assertApplies_mkRule]
  have he : S.isEmpty = false := by cases S with | nil => exact absurd rfl hne | cons _ _ => rfl
  have hb : (Behavior.mk false false true true).inconsistent = false := rfl
  simp only [Bool.or_true, Bool.not_true, he, Bool.or_self, Bool.false_eq_true, if_false, hb]
  unfold matchRule
  rw [Hist.convertFilters_noregex mt g.nodes S (namesOnly_noregex S hS)]
  simp only
  rw [Hist.runQueries_missing g _ dir S S (.inr (.inr rfl)) hne hne ⟨f, List.mem_append_left _ hf, hm⟩]
  rfl

/-- the same statement under "the rule on `S` raises no lookup error" instead of "all names exist" -/
theorem anything_dedup_irrelevant_of_no_lookup_error (mt : Str → Str → Bool) (g : PGraph Str) (hc : HierClosed g)
    (dir : Bool) (S : List Filter) (hS : namesOnly S = true)
    (hok : verdictOf mt g (mkRule false false true dir true S S) ≠ .err .lookupError) :
    verdictOf mt g (mkRule false false true dir true S S) =
    verdictOf mt g (mkRule false false true dir true (dedupSubjects S) (dedupSubjects S)) := by
  apply anything_dedup_irrelevant mt g hc dir S hS
  intro f hf
  cases h : g.hasNode f.id
  · exact absurd (anything_lookup_error mt g dir S hS ⟨f, hf, h⟩) hok
  · rfl

/-! ### which graphs are `HierClosed` -/

/-- dotted ancestors are nodes, and every immediate-parent pair into a node is a hierarchy edge -/
structure DottedHier (g : PGraph Str) : Prop where
  closed : ∀ e ∈ g.nodes, ∀ s ∈ ExtNames.chain e, s ∈ g.nodes
  hier : ∀ a b, ExtNames.hierPair a b → b ∈ g.nodes → b ∈ g.hierChildren a

theorem isStrictSub_imp (a b : Str) (h : isStrictSub a b = true) :
    splitDots a <+: splitDots b ∧ a ≠ b := by
  constructor
  · rw [← ExtNames.isModuleOrSub_iff]
    unfold isModuleOrSub; unfold isStrictSub at h
    simp [h]
  · rintro rfl
    have := isStrictSub_length _ _ h
    omega

theorem DottedHier.reach {g : PGraph Str} (hd : DottedHier g) (a : Str) :
    ∀ k b, b ∈ g.nodes → splitDots a <+: splitDots b → (splitDots b).length = (splitDots a).length + k →
      Reach g a b := by
  intro k
  induction k with
  | zero =>
    intro b _ hp hl
    have : splitDots a = splitDots b := hp.eq_of_length (by omega)
    rw [ExtNames.splitDots_injective this]
    exact .refl _
  | succ k ih =>
    intro b hb hp hl
    have hane : splitDots a ≠ [] := splitDots_ne_nil a
    have halen : 0 < (splitDots a).length := List.length_pos_iff.2 hane
    have hbne : splitDots b ≠ [] := splitDots_ne_nil b
    have hdne : (splitDots b).dropLast ≠ [] := by
      intro h
      have := congrArg List.length h
      simp at this
      omega
    have hnodot : ∀ c ∈ (splitDots b).dropLast, '.' ∉ c :=
      fun c hc => ExtNames.splitDots_mem_nodot b c (List.dropLast_subset _ hc)
    have hsplit : splitDots (joinDots (splitDots b).dropLast) = (splitDots b).dropLast :=
      ExtNames.splitDots_join _ hnodot hdne
    have hpair : ExtNames.hierPair (joinDots (splitDots b).dropLast) b := by
      rw [ExtNames.hierPair_iff, hsplit]
      exact ⟨(splitDots b).getLast hbne, (List.dropLast_concat_getLast hbne).symm⟩
    have hb' : joinDots (splitDots b).dropLast ∈ g.nodes :=
      hd.closed b hb _ (ExtNames.parent_mem_chain (ExtNames.hierPair_parent hpair))
    have hp' : splitDots a <+: splitDots (joinDots (splitDots b).dropLast) := by
      rw [hsplit]
      obtain ⟨t, ht⟩ := hp
      have htne : t ≠ [] := by
        rintro rfl
        rw [List.append_nil] at ht
        rw [← ht] at hl; omega
      rw [← ht, List.dropLast_append_of_ne_nil htne]
      exact List.prefix_append _ _
    have hl' : (splitDots (joinDots (splitDots b).dropLast)).length = (splitDots a).length + k := by
      rw [hsplit, List.length_dropLast]; omega
    exact .step (ih _ hb' hp' hl') (hd.hier _ _ hpair hb)

theorem DottedHier.hierClosed {g : PGraph Str} (hd : DottedHier g) : HierClosed g := by
  intro a b _ hb hs
  obtain ⟨hp, _⟩ := isStrictSub_imp a b hs
  have hle := hp.length_le
  exact hd.reach a ((splitDots b).length - (splitDots a).length) b ((BuildGen.hasNode_iff g b).1 hb) hp (by omega)

/-- every graph `NetworkxGraph(all_modules, imports, level_limit)` builds from absolute imports whose importers are
    among the modules is `HierClosed` — arbitrary module strings, with or without a level limit -/
theorem buildGraph_dottedHier (mods : List Str) (imps : List ImportRec) (lim : Option Nat)
    (himp : ∀ i ∈ imps, ExtBuild.NodeOf lim mods (flattenNode lim i.importer) ∧
      i.importeeParents = parentModules i.importee) :
    DottedHier (buildGraph mods imps lim) := by
  obtain ⟨hnodes, hhier, _⟩ := ExtBuild.buildGraph_char mods imps lim himp
  constructor
  · intro e he s hs
    rw [hnodes] at he ⊢
    obtain ⟨m, hm, hc⟩ := he
    exact ⟨m, hm, ExtNames.chain_trans hs hc⟩
  · intro a b hp hb
    rw [BuildMain.mem_hierChildren, hhier]
    exact ⟨hp, (hnodes b).1 hb⟩

theorem buildGraph_hierClosed (mods : List Str) (imps : List ImportRec) (lim : Option Nat)
    (himp : ∀ i ∈ imps, ExtBuild.NodeOf lim mods (flattenNode lim i.importer) ∧
      i.importeeParents = parentModules i.importee) :
    HierClosed (buildGraph mods imps lim) :=
  (buildGraph_dottedHier mods imps lim himp).hierClosed

/-- the graph of a well-formed architecture (the `GraphOf` interface of C01) is `HierClosed` -/
theorem hierClosed_of_graphOf {a : Arch} {g : PGraph Str} (hw : ArchWF a) (hg : GraphOf a g) : HierClosed g := by
  intro s t hs ht hsub
  obtain ⟨x, hx, rfl⟩ := (hg.nodes s).1 hs
  obtain ⟨n, hn, rfl⟩ := (hg.nodes t).1 ht
  rw [isStrictSub_render x n (hw.nwf x hx) (hw.nwf n hn)] at hsub
  refine (reach_render hw hg x n hx hn).2 ?_
  simp only [sdesc, Bool.and_eq_true] at hsub
  exact hsub.1

/-! ### consequences for the `anything` aliases -/

/-- the rule object after `modules_that()…should_not().import_anything()` / `be_imported_by_anything()` -/
abbrev anythingRule (dir : Bool) (S : List Filter) : RuleState :=
  { cfg := { subjects := some S, shouldNot := true, importDir := some dir, anything := true }, next := some false }

/-- what `_convert_aliases` rewrites the alias to: the `except` rule on the de-duplicated subjects, which remembers the
    subjects it removed -/
abbrev dedupRule (dir : Bool) (S : List Filter) : RuleState :=
  { cfg := { subjects := some (dedupSubjects S), objects := some (dedupSubjects S), shouldNot := true,
             exceptPresent := true, importDir := some dir, dropped := droppedSubjects S }, next := some false }

/-- `Rule.assert_applies` on the alias, for every subject list (outcome and rule object afterwards) -/
theorem anything_alias_eq (mt : Str → Str → Bool) (g : PGraph Str) (S : List Filter) (dir : Bool) :
    assertApplies mt (anythingRule dir S) g = assertApplies mt (dedupRule dir S) g := by
  simp [assertApplies, anythingMisused, convertAliases]

theorem droppedSubjects_nil : droppedSubjects [] = [] := rfl

/-- the outcome of the alias: the existence check on the removed subjects (repair of F-C13b), then the `except` rule on
    the de-duplicated subjects -/
theorem anything_alias_verdict (mt : Str → Str → Bool) (g : PGraph Str) (S : List Filter) (dir : Bool) :
    (assertApplies mt (anythingRule dir S) g).2 =
      if droppedAbsentIn g S = true then .err .lookupError
      else (assertApplies mt (mkRule false false true dir true (dedupSubjects S) (dedupSubjects S)) g).2 := by
  by_cases hS : S = []
  · subst hS; rfl
  have hne := dedupSubjects_ne_nil S hS
  have he : (dedupSubjects S).isEmpty = false := by
    cases h : dedupSubjects S with | nil => exact absurd h hne | cons _ _ => rfl
  rw [assertApplies_mkRule]
  unfold assertApplies
  simp only [anythingMisused, convertAliases, configMissing, droppedAbsent, droppedAbsentIn, RuleConfig.behavior,
    Option.map_some, he, Bool.not_true, Bool.and_false, Bool.false_eq_true, if_false, Bool.or_true,
    Option.isNone_some, Bool.or_self]
  split
  · rfl
  · split <;> rfl

/-- the alias when none of the removed subjects is absent: the verdict of the `except` rule on the de-duplicated subjects -/
theorem anything_alias_dedup (mt : Str → Str → Bool) (g : PGraph Str) (S : List Filter) (dir : Bool)
    (hd : droppedAbsentIn g S = false) :
    (assertApplies mt (anythingRule dir S) g).2 =
      (assertApplies mt (mkRule false false true dir true (dedupSubjects S) (dedupSubjects S)) g).2 := by
  rw [anything_alias_verdict, hd]; rfl

theorem anything_alias_dedup_of_nodes (mt : Str → Str → Bool) (g : PGraph Str) (S : List Filter) (dir : Bool)
    (hn : ∀ f ∈ S, f.isRegex = false → g.hasNode f.id = true) :
    (assertApplies mt (anythingRule dir S) g).2 =
      (assertApplies mt (mkRule false false true dir true (dedupSubjects S) (dedupSubjects S)) g).2 :=
  anything_alias_dedup mt g S dir (droppedAbsentIn_of_nodes g S hn)

/-- nothing is removed: the alias IS the `except` rule (outcome and rule object afterwards) -/
theorem anything_alias_of_dedup_eq (mt : Str → Str → Bool) (g : PGraph Str) (S : List Filter) (dir : Bool)
    (hS : dedupSubjects S = S) :
    assertApplies mt (anythingRule dir S) g = assertApplies mt (mkRule false false true dir true S S) g := by
  simp [assertApplies, anythingMisused, convertAliases, mkRule, hS, droppedSubjects_of_dedup_eq S hS]

/-- a missing (non-regex) subject makes the `except` rule raise a lookup error — name and parent filters alike -/
theorem mkRule_lookup_error (mt : Str → Str → Bool) (g : PGraph Str) (dir : Bool) (S : List Filter)
    (hS : ∀ f ∈ S, f.isRegex = false) (hmiss : ∃ f ∈ S, g.hasNode f.id = false) :
    (assertApplies mt (mkRule false false true dir true S S) g).2 = .err .lookupError := by
  obtain ⟨f, hf, hm⟩ := hmiss
  have hne : S ≠ [] := List.ne_nil_of_mem hf
  rw [assertApplies_mkRule]
  have he : S.isEmpty = false := by cases S with | nil => exact absurd rfl hne | cons _ _ => rfl
  have hb : (Behavior.mk false false true true).inconsistent = false := rfl
  simp only [Bool.or_true, Bool.not_true, he, Bool.or_self, Bool.false_eq_true, if_false, hb]
  unfold matchRule
  rw [Hist.convertFilters_noregex mt g.nodes S hS]
  simp only
  rw [Hist.runQueries_missing g _ dir S S (.inr (.inr rfl)) hne hne ⟨f, List.mem_append_left _ hf, hm⟩]

/-- **an unknown subject of an `anything` rule is a lookup error** — whether the de-duplication drops it (the new
    check) or keeps it (the ordinary lookup of the queries). Name and parent filters, both directions, any graph. -/
theorem anything_unknown_name_lemma (mt : Str → Str → Bool) (g : PGraph Str) (dir : Bool) (S : List Filter)
    (hS : ∀ f ∈ S, f.isRegex = false) (hmiss : ∃ f ∈ S, g.hasNode f.id = false) :
    (assertApplies mt (anythingRule dir S) g).2 = .err .lookupError := by
  rw [anything_alias_verdict]
  split
  · rfl
  · rename_i hd
    rw [Bool.not_eq_true, droppedAbsentIn_false_iff] at hd
    obtain ⟨f, hf, hm⟩ := hmiss
    have hfd : f ∈ dedupSubjects S := by
      apply Classical.byContradiction
      intro hnot
      rw [hd f hf hnot (hS f hf)] at hm; cases hm
    exact mkRule_lookup_error mt g dir (dedupSubjects S) (fun x hx => hS x (dedupSubjects_subset S x hx)) ⟨f, hfd, hm⟩

/-- the same for layer rules (`LayerRule.assert_applies` delegates to `Rule.assert_applies`): an `anything` layer rule
    one of whose (non-regex) subject filters names a module that does not exist raises the lookup error -/
theorem layer_anything_unknown_name_lemma (mt : Str → Str → Bool) (g : PGraph Str) (a : LArch) (dir : Bool)
    (S : List Filter) (hS : ∀ f ∈ S, f.isRegex = false) (hmiss : ∃ f ∈ S, g.hasNode f.id = false) :
    assertAppliesLayer mt ⟨some a, some (anythingRule dir S)⟩ g = .err .lookupError := by
  obtain ⟨f, hf, hfm⟩ := hmiss
  have hSne : S ≠ [] := List.ne_nil_of_mem hf
  have hne := dedupSubjects_ne_nil S hSne
  have he : (dedupSubjects S).isEmpty = false := by
    cases h : dedupSubjects S with | nil => exact absurd h hne | cons _ _ => rfl
  unfold assertAppliesLayer
  simp only [anythingMisused, convertAliases, configMissing, droppedAbsent, RuleConfig.behavior,
    Option.map_some, he, Bool.not_true, Bool.and_false, Bool.false_eq_true, if_false, Bool.or_true,
    Option.isNone_some, Bool.or_self]
  split
  · rfl
  · rename_i hd
    have hd' : droppedAbsentIn g S = false := by
      unfold droppedAbsentIn; simpa using hd
    rw [droppedAbsentIn_false_iff] at hd'
    have hfd : f ∈ dedupSubjects S := by
      apply Classical.byContradiction
      intro hnot
      rw [hd' f hf hnot (hS f hf)] at hfm; cases hfm
    have hS' : ∀ x ∈ dedupSubjects S, x.isRegex = false := fun x hx => hS x (dedupSubjects_subset S x hx)
    have hb : (Behavior.mk false false true true).inconsistent = false := rfl
    simp only [hb, Bool.false_eq_true, if_false]
    unfold matchLayerRule
    rw [Hist.convertFilters_noregex mt g.nodes _ hS']
    simp only
    rw [Hist.runQueries_missing g _ dir _ _ (.inr (.inr rfl)) hne hne ⟨f, List.mem_append_left _ hfd, hfm⟩]

/-- the alias has the verdict class of `S should not … modules except S` when all names exist -/
theorem alias_anything_verdict_of_nodes (mt : Str → Str → Bool) (g : PGraph Str) (hc : HierClosed g) (S : List Filter)
    (dir : Bool) (hS : namesOnly S = true) (hn : ∀ f ∈ S, g.hasNode f.id = true) :
    verdictOf mt g (anythingRule dir S) = verdictOf mt g (mkRule false false true dir true S S) := by
  unfold verdictOf
  rw [anything_alias_dedup_of_nodes mt g S dir (fun f hf _ => hn f hf)]
  exact (anything_dedup_irrelevant mt g hc dir S hS hn).symm

/-- … and for EVERY batch of names, existing or not (an absent name makes both sides raise a lookup error) -/
theorem alias_anything_verdict_lemma (mt : Str → Str → Bool) (g : PGraph Str) (hc : HierClosed g) (S : List Filter)
    (dir : Bool) (hS : namesOnly S = true) :
    verdictOf mt g (anythingRule dir S) = verdictOf mt g (mkRule false false true dir true S S) := by
  by_cases hn : ∀ f ∈ S, g.hasNode f.id = true
  · exact alias_anything_verdict_of_nodes mt g hc S dir hS hn
  · have hmiss : ∃ f ∈ S, g.hasNode f.id = false := by
      apply Classical.byContradiction
      intro hno
      apply hn
      intro f hf
      cases h : g.hasNode f.id
      · exact absurd ⟨f, hf, h⟩ hno
      · rfl
    rw [anything_lookup_error mt g dir S hS hmiss]
    unfold verdictOf
    rw [anything_unknown_name_lemma mt g dir S (namesOnly_noregex S hS) hmiss]
    rfl

theorem regex_expansion_anything_verdict_lemma (mt : Str → Str → Bool) (g : PGraph Str) (hnd : g.nodes.Nodup)
    (hc : HierClosed g) (dir : Bool) (p : Str) (hm : ∃ m ∈ g.nodes, mt p m = true) :
    verdictOf mt g (anythingRule dir [.regex p]) =
    verdictOf mt g (anythingRule dir ((g.nodes.filter (mt p)).map .name)) := by
  rw [alias_anything_verdict_lemma mt g hc _ dir (namesOnly_map_name _)]
  unfold verdictOf
  rw [anything_alias_dedup_of_nodes mt g [.regex p] dir (fun f hf hr => by
        rw [List.mem_singleton.1 hf] at hr; cases hr),
    dedupSubjects_single,
    regex_expansion_subject_lemma mt g hnd false false true dir true p _ hm,
    regex_expansion_object_lemma mt g hnd false false true dir true p _ hm]

end Pta
