/-
  PtaProofs.Lemmas.LArchSim — the LayeredArchitecture builder: canonical shape of reachable states, the
  builder step on that shape, refinement of the specification automaton and the reachable-state invariant.
-/
import Bridge.Abs
namespace Pta.Hist
open PtaSpec

/-- the pending layer, if any, as an architecture fragment -/
def otoL (o : Option Str) : LArch := match o with | some n => [(n, [])] | none => []

/-- reachable architectures: finished layers (all non-empty) followed by the optional pending layer -/
structure Shape (a c : LArch) (o : Option Str) : Prop where
  eq : a = c ++ otoL o
  ne : ∀ l ∈ c, l.2 ≠ []
  nodup : (a.map (·.1)).Nodup

theorem pending_append (a b : LArch) : LArch.pending (a ++ b) = LArch.pending a ++ LArch.pending b := by
  simp [LArch.pending]

theorem pending_closed (c : LArch) (h : ∀ l ∈ c, l.2 ≠ []) : LArch.pending c = [] := by
  unfold LArch.pending
  rw [List.map_eq_nil_iff, List.filter_eq_nil_iff]
  intro l hl
  simpa using h l hl

theorem pending_shape {a c : LArch} {o : Option Str} (h : Shape a c o) : a.pending = o.toList := by
  rw [h.eq, pending_append, pending_closed c h.ne]
  cases o <;> simp [otoL, LArch.pending]

theorem setModules_append (a b : LArch) (n : Str) (fs : List Filter) :
    LArch.setModules (a ++ b) n fs = LArch.setModules a n fs ++ LArch.setModules b n fs := by
  simp [LArch.setModules]

theorem setModules_not_mem (c : LArch) (n : Str) (fs : List Filter) (h : n ∉ c.map (·.1)) :
    LArch.setModules c n fs = c := by
  induction c with
  | nil => rfl
  | cons l ls ih =>
    simp only [List.map_cons, List.mem_cons, not_or] at h
    have h1 : (l.1 == n) = false := by simpa using fun e => h.1 e.symm
    simp only [LArch.setModules, List.map_cons, h1, Bool.false_eq_true, if_false]
    congr 1
    exact ih h.2

theorem setModules_shape {a c : LArch} {p : Str} (h : Shape a c (some p)) (fs : List Filter) :
    a.setModules p fs = c ++ [(p, fs)] := by
  have hnd := h.nodup
  rw [h.eq] at hnd ⊢
  simp only [otoL, List.map_append, List.map_cons, List.map_nil] at hnd
  have hp : p ∉ c.map (·.1) := by
    intro hp
    have := (List.nodup_append.mp hnd).2.2 p hp p (by simp)
    exact this rfl
  rw [setModules_append, setModules_not_mem c p fs hp]
  simp [LArch.setModules, otoL]

theorem allIds_shape {a c : LArch} {o : Option Str} (h : Shape a c o) : a.allIds = c.allIds := by
  rw [h.eq]
  cases o <;> simp [LArch.allIds, otoL]

theorem hasLayer_iff (c : LArch) (n : Str) : c.hasLayer n = true ↔ n ∈ c.map (·.1) := by
  simp only [LArch.hasLayer, List.any_eq_true, List.mem_map, beq_iff_eq]

/-! ### the builder step on a shaped state -/

theorem step_layer_open {a c : LArch} {p : Str} (h : Shape a c (some p)) (n : Str) :
    a.step (.layer n) = .error .improperlyConfigured := by
  simp [LArch.step, pending_shape h]

theorem step_layer_closed {a c : LArch} (h : Shape a c none) (n : Str) :
    a.step (.layer n) = if c.hasLayer n then .error .improperlyConfigured else .ok (c ++ [(n, [])]) := by
  have : a = c := by simpa [otoL] using h.eq
  subst this
  simp [LArch.step, pending_shape h]

theorem step_modules_closed {a c : LArch} (h : Shape a c none) (ms : List Str) :
    a.step (.containingModules ms) = .error .improperlyConfigured := by
  simp [LArch.step, pending_shape h]

theorem step_modules_open {a c : LArch} {p : Str} (h : Shape a c (some p)) (ms : List Str) :
    a.step (.containingModules ms) =
      if ms.any (fun m => c.allIds.contains m) then .error .improperlyConfigured
      else .ok (c ++ [(p, ms.map .name)]) := by
  simp only [LArch.step, pending_shape h, Option.toList, allIds_shape h, setModules_shape h]

theorem step_matching_closed {a c : LArch} (h : Shape a c none) (r : Str) :
    a.step (.matching r) = .error .improperlyConfigured := by
  simp [LArch.step, pending_shape h]

theorem step_matching_open {a c : LArch} {p : Str} (h : Shape a c (some p)) (r : Str) :
    a.step (.matching r) = .ok (c ++ [(p, [.regex r])]) := by
  simp only [LArch.step, pending_shape h, Option.toList, setModules_shape h]

/-! ### shapes after a step -/

theorem shape_nil : Shape [] [] none := ⟨rfl, by simp, by simp⟩

theorem shape_layer {a c : LArch} (h : Shape a c none) (n : Str) (hn : c.hasLayer n = false) :
    Shape (c ++ [(n, [])]) c (some n) := by
  have : a = c := by simpa [otoL] using h.eq
  subst this
  refine ⟨rfl, h.ne, ?_⟩
  have hn' : n ∉ a.map (·.1) := by
    rw [← hasLayer_iff]; simp [hn]
  simp only [List.map_append, List.map_cons, List.map_nil]
  rw [List.nodup_append]
  refine ⟨h.nodup, by simp, ?_⟩
  intro x hx y hy
  simp only [List.mem_singleton] at hy
  subst hy
  intro e; subst e; exact hn' hx

theorem shape_fill {a c : LArch} {p : Str} (h : Shape a c (some p)) (fs : List Filter) (hfs : fs ≠ []) :
    Shape (c ++ [(p, fs)]) (c ++ [(p, fs)]) none := by
  refine ⟨by simp [otoL], ?_, ?_⟩
  · intro l hl
    rcases List.mem_append.mp hl with hl | hl
    · exact h.ne l hl
    · simp only [List.mem_singleton] at hl; subst hl; exact hfs
  · have := h.nodup
    rw [h.eq] at this
    simpa [otoL] using this

end Pta.Hist
namespace Pta.Hist
open PtaSpec

/-! ### refinement of the specification automaton -/

/-- identifiers per layer -/
def idsOf (a : LArch) : List (Str × List Str) := a.map fun l => (l.1, l.2.map (·.id))

def LSim (a : LArch) (t : LTrack) : Prop := ∃ c, Shape a c t.opened ∧ idsOf c = t.closed

theorem idsOf_any (c : LArch) (n : Str) : (idsOf c).any (·.1 == n) = c.hasLayer n := by
  simp [idsOf, LArch.hasLayer, List.any_map, Function.comp_def]

theorem idsOf_assigned (c : LArch) : (idsOf c).flatMap (·.2) = c.allIds := by
  simp [idsOf, LArch.allIds, List.flatMap_map]

theorem idsOf_otoL (o : Option Str) :
    idsOf (otoL o) = (match o with | some n => [(n, [])] | none => []) := by
  cases o <;> rfl

theorem lsim_step (a : LArch) (t : LTrack) (op : LArchOp) (h : LSim a t) :
    match t.step (toLCall op) with
    | .ok t' => ∃ a', a.step op = .ok a' ∧ LSim a' t'
    | .reject => a.step op = .error .improperlyConfigured
    | .dontCare => True := by
  obtain ⟨c, hsh, hids⟩ := h
  rcases t with ⟨closed, opened⟩
  simp only at hsh hids
  subst hids
  cases op with
  | withLayer => exact ⟨a, rfl, c, hsh, rfl⟩
  | layer n =>
    simp only [toLCall, LTrack.step]
    cases opened with
    | some p => simpa using step_layer_open hsh n
    | none =>
      simp only [Option.isSome_none, Bool.false_eq_true, if_false, idsOf_any]
      rw [step_layer_closed hsh n]
      cases hn : c.hasLayer n
      · simp only [Bool.false_eq_true, if_false]
        exact ⟨_, rfl, c, shape_layer hsh n hn, rfl⟩
      · simp
  | containingModules ms =>
    simp only [toLCall, LTrack.step]
    cases opened with
    | none => simpa using step_modules_closed hsh ms
    | some p =>
      simp only
      cases hms : ms.isEmpty
      · simp only [Bool.false_eq_true, if_false, LTrack.assigned, idsOf_assigned]
        rw [step_modules_open hsh ms]
        have hcontains : (ms.any c.allIds.contains) = ms.any (fun m => c.allIds.contains m) := rfl
        rw [hcontains]
        cases hany : ms.any (fun m => c.allIds.contains m)
        · simp only [Bool.false_eq_true, if_false]
          have hne : ms.map Filter.name ≠ [] := by
            intro e; rw [List.map_eq_nil_iff] at e; subst e; simp at hms
          refine ⟨_, rfl, c ++ [(p, ms.map .name)], shape_fill hsh _ hne, ?_⟩
          simp [idsOf, Function.comp_def, Filter.id]
        · simp
      · -- the empty module list: nothing is supplied, the layer stays open and the state is unchanged
        have hnil : ms = [] := by simpa using hms
        subst hnil
        simp only [if_true]
        refine ⟨a, ?_, c, hsh, rfl⟩
        rw [step_modules_open hsh []]
        simp only [List.any_nil, Bool.false_eq_true, if_false, List.map_nil]
        rw [hsh.eq]; rfl
  | matching r =>
    simp only [toLCall, LTrack.step]
    cases opened with
    | none => simpa using step_matching_closed hsh r
    | some p =>
      simp only
      cases hr : (LTrack.assigned ⟨idsOf c, some p⟩).contains r
      · simp only [Bool.false_eq_true, if_false]
        rw [step_matching_open hsh r]
        refine ⟨_, rfl, c ++ [(p, [.regex r])], shape_fill hsh _ (by simp), ?_⟩
        simp [idsOf, Filter.id]
      · simp

theorem larch_go_refines (ops : List LArchOp) (a : LArch) (t : LTrack) (i : Nat) (h : LSim a t) :
    match classifyLArchFrom t i (ops.map toLCall) with
    | .accepted t' => ∃ a', runLArch.go a i ops = .ok a' ∧ LSim a' t'
    | .rejectedAt j => runLArch.go a i ops = .error (.improperlyConfigured, j)
    | .unspecified => True := by
  induction ops generalizing a t i with
  | nil => exact ⟨a, rfl, h⟩
  | cons op rest ih =>
    have hs := lsim_step a t op h
    simp only [List.map_cons, classifyLArchFrom, runLArch.go]
    cases ht : t.step (toLCall op) with
    | reject => rw [ht] at hs; simp only [hs]
    | dontCare => trivial
    | ok t' =>
      rw [ht] at hs
      obtain ⟨a', ha', hsim⟩ := hs
      simp only [ha']
      exact ih a' t' (i + 1) hsim

theorem lsim_init : LSim [] {} := ⟨[], shape_nil, rfl⟩

theorem larch_refines_aux (ops : List LArchOp) :
    match classifyLArch (ops.map toLCall) with
    | .accepted t => ∃ a, runLArch ops = .ok a ∧
        (a.map fun l => (l.1, l.2.map (·.id))) = t.closed ++ (match t.opened with | some n => [(n, [])] | none => [])
    | .rejectedAt i => runLArch ops = .error (.improperlyConfigured, i)
    | .unspecified => True := by
  have := larch_go_refines ops [] {} 0 lsim_init
  unfold classifyLArch runLArch
  split
  · rename_i t ht
    rw [ht] at this
    obtain ⟨a, ha, c, hsh, hids⟩ := this
    refine ⟨a, ha, ?_⟩
    rw [← hids, hsh.eq]
    have := idsOf_otoL t.opened
    simp only [idsOf] at this ⊢
    rw [List.map_append, this]
    cases t.opened <;> rfl
  · rename_i j hj
    rw [hj] at this
    exact this
  · trivial

end Pta.Hist
namespace Pta.Hist
open PtaSpec

/-! ### invariant of reachable architectures -/

/-- no module identifier (of a non-regex filter) is listed in two different layers -/
def Disj (a : LArch) : Prop :=
  ∀ l₁ ∈ a, ∀ l₂ ∈ a, ∀ f₁ ∈ l₁.2, ∀ f₂ ∈ l₂.2, f₁.isRegex = false → f₂.isRegex = false → f₁.id = f₂.id → l₁.1 = l₂.1

def LInv (a : LArch) : Prop := ∃ c o, Shape a c o ∧ Disj a

theorem mem_allIds {c : LArch} {l : Str × List Filter} {f : Filter} (hl : l ∈ c) (hf : f ∈ l.2) :
    f.id ∈ c.allIds := by
  simp only [LArch.allIds, List.mem_flatMap, List.mem_map]
  exact ⟨l, hl, f, hf, rfl⟩

theorem disj_fill (c : LArch) (p : Str) (fs : List Filter) (hc : Disj c)
    (hnew : ∀ f ∈ fs, f.isRegex = false → f.id ∉ c.allIds) : Disj (c ++ [(p, fs)]) := by
  intro l₁ h₁ l₂ h₂ f₁ hf₁ f₂ hf₂ r₁ r₂ e
  rcases List.mem_append.mp h₁ with h₁ | h₁ <;> rcases List.mem_append.mp h₂ with h₂ | h₂
  · exact hc l₁ h₁ l₂ h₂ f₁ hf₁ f₂ hf₂ r₁ r₂ e
  · simp only [List.mem_singleton] at h₂; subst h₂
    exact absurd (e ▸ mem_allIds h₁ hf₁) (hnew f₂ hf₂ r₂)
  · simp only [List.mem_singleton] at h₁; subst h₁
    exact absurd (e ▸ mem_allIds h₂ hf₂) (hnew f₁ hf₁ r₁)
  · simp only [List.mem_singleton] at h₁ h₂; subst h₁; subst h₂; rfl

theorem disj_closed_of_shape {a c : LArch} {o : Option Str} (h : Shape a c o) (hd : Disj a) : Disj c := by
  intro l₁ h₁ l₂ h₂
  exact hd l₁ (by rw [h.eq]; exact List.mem_append_left _ h₁) l₂ (by rw [h.eq]; exact List.mem_append_left _ h₂)

theorem linv_step (a a' : LArch) (op : LArchOp) (h : LInv a) (hs : a.step op = .ok a') : LInv a' := by
  obtain ⟨c, o, hsh, hd⟩ := h
  have hdc := disj_closed_of_shape hsh hd
  cases op with
  | withLayer => cases hs; exact ⟨c, o, hsh, hd⟩
  | layer n =>
    cases o with
    | some p => rw [step_layer_open hsh n] at hs; cases hs
    | none =>
      rw [step_layer_closed hsh n] at hs
      cases hn : c.hasLayer n
      · simp only [hn, Bool.false_eq_true, if_false] at hs
        cases hs
        exact ⟨c, some n, shape_layer hsh n hn, disj_fill c n [] hdc (by simp)⟩
      · simp [hn] at hs
  | containingModules ms =>
    cases o with
    | none => rw [step_modules_closed hsh ms] at hs; cases hs
    | some p =>
      rw [step_modules_open hsh ms] at hs
      cases hany : ms.any (fun m => c.allIds.contains m)
      · simp only [hany, Bool.false_eq_true, if_false] at hs
        cases hs
        have hdisj : Disj (c ++ [(p, ms.map Filter.name)]) := by
          apply disj_fill c p _ hdc
          intro f hf _
          rw [List.mem_map] at hf
          obtain ⟨m, hm, rfl⟩ := hf
          rw [List.any_eq_false] at hany
          simpa [Filter.id] using hany m hm
        by_cases hms : ms = []
        · subst hms
          refine ⟨c, some p, ?_, hdisj⟩
          have := hsh.eq
          simp only [otoL] at this
          simp only [List.map_nil]
          rw [← this]
          exact hsh
        · exact ⟨_, none, shape_fill hsh _ (by simpa using hms), hdisj⟩
      · simp only [hany, if_true] at hs; cases hs
  | matching r =>
    cases o with
    | none => rw [step_matching_closed hsh r] at hs; cases hs
    | some p =>
      rw [step_matching_open hsh r] at hs
      cases hs
      refine ⟨_, none, shape_fill hsh _ (by simp), disj_fill c p _ hdc ?_⟩
      intro f hf hr
      simp only [List.mem_singleton] at hf
      subst hf
      cases hr

theorem larch_go_inv (ops : List LArchOp) (a a' : LArch) (i : Nat) (h : LInv a)
    (hr : runLArch.go a i ops = .ok a') : LInv a' := by
  induction ops generalizing a i with
  | nil => cases hr; exact h
  | cons op rest ih =>
    simp only [runLArch.go] at hr
    cases hs : a.step op with
    | error k => rw [hs] at hr; cases hr
    | ok a1 =>
      rw [hs] at hr
      exact ih a1 (i + 1) (linv_step a a1 op h hs) hr

theorem larch_invariant_aux (ops : List LArchOp) (a : LArch) (h : runLArch ops = .ok a) :
    (a.map (·.1)).Nodup ∧ a.pending.length ≤ 1 ∧
    ∀ l₁ ∈ a, ∀ l₂ ∈ a, ∀ f₁ ∈ l₁.2, ∀ f₂ ∈ l₂.2, f₁.isRegex = false → f₂.isRegex = false → f₁.id = f₂.id → l₁.1 = l₂.1 := by
  have hinit : LInv [] := ⟨[], none, shape_nil, by intro l hl; cases hl⟩
  obtain ⟨c, o, hsh, hd⟩ := larch_go_inv ops [] a 0 hinit h
  refine ⟨hsh.nodup, ?_, hd⟩
  rw [pending_shape hsh]
  cases o <;> simp

end Pta.Hist