/-
  PtaProofs.Lemmas.ScanGraph — from the parsed walk to the graph (property C04, parts 2-4): every import record
  of `convertAll` is an `AbsoluteImport` of a parsed file; the specification's `scanModules` is a duplicate-free,
  well-formed, prefix-closed node list; together with the leaf property of `.py` files the inputs of the graph
  constructor are `ScanLike`, so the scan graph is a graph of a well-formed architecture on `scanModules`.
-/
import Bridge.Abs
import Bridge.ScanTree
import PtaProofs.Lemmas.Render
import PtaProofs.Lemmas.BuildNames
import PtaProofs.Lemmas.Build
import PtaProofs.Lemmas.BuildCond
import PtaProofs.Lemmas.BuildScan
import PtaProofs.Lemmas.ScanWalk
import PtaProofs.Lemmas.ScanNames
import PtaProofs.Lemmas.ScanSpec
import PtaProofs.Lemmas.SemHier
namespace Pta
namespace ScanGraph
open PtaSpec BuildGen BuildNames BuildMain BuildCond BuildScan ScanWalk ScanNames ScanSpec

/-! ### import records -/

theorem mapM_ok_mem {α β : Type} (f : α → Except ErrKind β) :
    ∀ (l : List α) (rs : List β), l.mapM f = .ok rs → ∀ r ∈ rs, ∃ x ∈ l, f x = .ok r := by
  intro l
  induction l with
  | nil =>
    intro rs h r hr
    simp only [List.mapM_nil, pure, Except.pure, Except.ok.injEq] at h
    subst h; cases hr
  | cons x xs ih =>
    intro rs h r hr
    rw [List.mapM_cons] at h
    cases hx : f x with
    | error k => rw [hx] at h; cases h
    | ok y =>
      rw [hx] at h
      cases hxs : xs.mapM f with
      | error k => rw [hxs] at h; cases h
      | ok ys =>
        rw [hxs] at h
        simp only [bind, Except.bind, pure, Except.pure, Except.ok.injEq] at h
        subst h
        rcases List.mem_cons.1 hr with rfl | hr'
        · exact ⟨x, List.mem_cons_self, hx⟩
        · obtain ⟨z, hz, hfz⟩ := ih ys hxs r hr'
          exact ⟨z, List.mem_cons_of_mem _ hz, hfz⟩

theorem foldlM_append_ok {α β : Type} (step : α → Except ErrKind (List β)) (Pr : β → Prop) :
    ∀ (l : List α) (acc res : List β),
      l.foldlM (fun acc x => do let r ← step x; pure (acc ++ r)) acc = .ok res →
      (∀ b ∈ acc, Pr b) → (∀ x ∈ l, ∀ r, step x = .ok r → ∀ b ∈ r, Pr b) → ∀ b ∈ res, Pr b := by
  intro l
  induction l with
  | nil =>
    intro acc res h hacc _
    simp only [List.foldlM_nil, pure, Except.pure, Except.ok.injEq] at h
    subst h; exact hacc
  | cons x xs ih =>
    intro acc res h hacc hstep
    rw [List.foldlM_cons] at h
    cases hx : step x with
    | error k => rw [hx] at h; cases h
    | ok r =>
      rw [hx] at h
      simp only [bind, Except.bind, pure, Except.pure] at h
      refine ih (acc ++ r) res h ?_ (fun y hy => hstep y (List.mem_cons_of_mem _ hy))
      intro b hb
      rcases List.mem_append.1 hb with h' | h'
      · exact hacc b h'
      · exact hstep x List.mem_cons_self r hx b h'

/-- the shape of an `AbsoluteImport` of `importer` -/
def RecOf (importer : Str) (r : ImportRec) : Prop :=
  r.importer = importer ∧ r.importeeParents = parentModules r.importee

theorem absImport_recOf (importer importee : Str) : RecOf importer (absImport importer importee) := ⟨rfl, rfl⟩

theorem convertStmt_recs (importer absPrefix : Str) (internal : List Str) (st : ImportStmt) (rs : List ImportRec)
    (h : convertStmt importer absPrefix internal st = .ok rs) : ∀ r ∈ rs, RecOf importer r := by
  cases st with
  | imp names =>
    simp only [convertStmt, Except.ok.injEq] at h
    subst h
    intro r hr
    obtain ⟨n, -, rfl⟩ := List.mem_map.1 hr
    exact absImport_recOf _ _
  | impFrom module names level =>
    cases level with
    | zero =>
      cases module with
      | none => simp [convertStmt] at h
      | some m =>
        simp only [convertStmt, Except.ok.injEq] at h
        subst h
        intro r hr
        obtain ⟨n, -, rfl⟩ := List.mem_map.1 hr
        split <;> exact absImport_recOf _ _
    | succ level =>
      simp only [convertStmt] at h
      intro r hr
      obtain ⟨n, -, hn⟩ := mapM_ok_mem _ names rs h r hr
      cases module with
      | none =>
        simp only [] at hn
        cases h1 : relativeImportee importer n (level + 1) with
        | error k => rw [h1] at hn; cases hn
        | ok importee =>
          rw [h1] at hn
          simp only [bind, Except.bind, pure, Except.pure, Except.ok.injEq] at hn
          subst hn; exact absImport_recOf _ _
      | some m =>
        simp only [] at hn
        cases h1 : relativeImportee importer m (level + 1) with
        | error k => rw [h1] at hn; cases hn
        | ok importee =>
          rw [h1] at hn
          simp only [bind, Except.bind] at hn
          cases h2 : relativeImportee importer (m ++ '.' :: n) (level + 1) with
          | error k => rw [h2] at hn; cases hn
          | ok sub =>
            rw [h2] at hn
            simp only [pure, Except.pure, Except.ok.injEq] at hn
            subst hn
            split <;> exact absImport_recOf _ _

/-- every record `convertAll` produces is an `AbsoluteImport` of a parsed file -/
theorem convertAll_recs (parsed : Parsed) (absPrefix : Str) (internal : List Str) (imps : List ImportRec)
    (h : convertAll parsed absPrefix internal = .ok imps) :
    ∀ r ∈ imps, ∃ f ∈ parsed.files, RecOf f.1 r := by
  unfold convertAll at h
  refine foldlM_append_ok
    (fun (f : Str × List ImportStmt) => f.2.foldlM (fun acc2 st => do
        let r ← convertStmt f.1 absPrefix internal st
        pure (acc2 ++ r)) [])
    (fun r => ∃ f ∈ parsed.files, RecOf f.1 r) parsed.files [] imps h (fun _ hb => by cases hb) ?_
  intro f hf rs hrs r hr
  refine ⟨f, hf, ?_⟩
  exact foldlM_append_ok (fun st => convertStmt f.1 absPrefix internal st) (RecOf f.1) f.2 [] rs hrs
    (fun _ hb => by cases hb) (fun st _ r' h' => convertStmt_recs f.1 absPrefix internal st r' h') r hr

theorem retainImports_subset (mt : Str → Str → Bool) (o : ScanOptions) (pre : Str) (imps : List ImportRec) :
    ∀ r ∈ retainImports mt o pre imps, r ∈ imps := by
  intro r hr
  unfold retainImports at hr
  simp only [] at hr
  split at hr
  · exact hr
  · split at hr
    · exact (List.mem_filter.1 hr).1
    · exact (List.mem_filter.1 hr).1

/-! ### duplicate-free lists -/

theorem nodup_eraseDups {α : Type} [BEq α] [LawfulBEq α] : ∀ (l : List α), l.eraseDups.Nodup
  | [] => by simp
  | a :: as => by
    rw [List.eraseDups_cons, List.nodup_cons]
    refine ⟨?_, nodup_eraseDups (as.filter fun b => !b == a)⟩
    simp [List.mem_eraseDups]
termination_by l => l.length
decreasing_by
  simp only [List.length_cons]
  exact Nat.lt_succ_of_le (List.length_filter_le _ _)

theorem nodupB_iff (l : List Name) : nodupB l = true ↔ l.Nodup := by
  induction l with
  | nil => simp [nodupB]
  | cons x xs ih => simp [nodupB, ih, List.nodup_cons]

/-! ### an architecture from a node list and import records -/

/-- the import pairs among `N` that the records account for -/
def scanImportPairs (N : List Name) (imps : List ImportRec) : List (Name × Name) :=
  (imps.filter fun i => (N.map render).contains i.importee && i.importer != i.importee).map
    fun i => (splitDots i.importer, splitDots i.importee)

def scanArch (N : List Name) (imps : List ImportRec) : Arch := ⟨N, scanImportPairs N imps⟩

/-- what the graph part needs to know about the node list, the module list and the records -/
structure ScanInputs (N : List Name) (mods : List Str) (imps : List ImportRec) : Prop where
  nodup : N.Nodup
  wf : ∀ n ∈ N, nameWF n = true
  closed : ∀ n ∈ N, ∀ p ∈ properPrefixes n, p ∈ N
  mods_in : ∀ m ∈ mods, ∃ n ∈ N, m = render n
  cover : ∀ n ∈ N, ∃ m ∈ N, render m ∈ mods ∧ n <+: m
  /-- importers are leaves of `N` -/
  recs : ∀ i ∈ imps, i.importeeParents = parentModules i.importee ∧
    ∃ f ∈ N, i.importer = render f ∧ ∀ n ∈ N, f <+: n → n = f

theorem mem_scanImportPairs (N : List Name) (imps : List ImportRec) (e : Name × Name) :
    e ∈ scanImportPairs N imps ↔ ∃ i ∈ imps, (∃ n ∈ N, i.importee = render n) ∧ i.importer ≠ i.importee ∧
      e = (splitDots i.importer, splitDots i.importee) := by
  simp only [scanImportPairs, List.mem_map, List.mem_filter, Bool.and_eq_true, List.contains_iff_mem, bne_iff_ne, ne_eq]
  constructor
  · rintro ⟨i, ⟨hi, ⟨n, hn, hr⟩, hne⟩, rfl⟩
    exact ⟨i, hi, ⟨n, hn, hr.symm⟩, hne, rfl⟩
  · rintro ⟨i, hi, ⟨n, hn, hr⟩, hne, rfl⟩
    exact ⟨i, ⟨hi, ⟨n, hn, hr.symm⟩, hne⟩, rfl⟩

section
variable {N : List Name} {mods : List Str} {imps : List ImportRec} (h : ScanInputs N mods imps)
include h

theorem scanArch_wf : (scanArch N imps).wf = true := by
  unfold Arch.wf
  simp only [Bool.and_eq_true, List.all_eq_true, List.contains_iff_mem, bne_iff_ne, ne_eq, Bool.not_eq_true']
  refine ⟨⟨⟨(nodupB_iff N).2 h.nodup, h.wf⟩, h.closed⟩, ?_⟩
  intro e he
  obtain ⟨i, hi, ⟨n, hn, hnr⟩, hne, rfl⟩ := (mem_scanImportPairs N imps e).1 he
  obtain ⟨-, f, hf, hfr, hleaf⟩ := h.recs i hi
  have e1 : splitDots i.importer = f := by rw [hfr]; exact splitDots_render f (h.wf f hf)
  have e2 : splitDots i.importee = n := by rw [hnr]; exact splitDots_render n (h.wf n hn)
  simp only [e1, e2]
  have hfn : f ≠ n := by
    rintro rfl
    exact hne (hfr.trans hnr.symm)
  refine ⟨⟨⟨hf, hn⟩, hfn⟩, ?_⟩
  cases hsd : sdesc f n with
  | false => rfl
  | true =>
    exfalso
    have := ((sdesc_iff f n).1 hsd).1
    exact hfn (hleaf n hn this).symm

theorem scanArch_scanLike : ScanLike (scanArch N imps) mods imps := by
  refine ⟨h.mods_in, h.cover, ?_, ?_⟩
  · intro i hi
    obtain ⟨hpar, f, hf, hfr, -⟩ := h.recs i hi
    refine ⟨hpar, f, hf, hfr, ?_⟩
    intro n hn hnr hfn
    refine (mem_scanImportPairs N imps (f, n)).2 ⟨i, hi, ⟨n, hn, hnr⟩, ?_, ?_⟩
    · intro heq
      apply hfn
      exact render_injective _ _ (h.wf f hf) (h.wf n hn) (hfr.symm.trans (heq.trans hnr))
    · rw [hfr, hnr, splitDots_render f (h.wf f hf), splitDots_render n (h.wf n hn)]
  · intro e he
    obtain ⟨i, hi, ⟨n, hn, hnr⟩, -, rfl⟩ := (mem_scanImportPairs N imps e).1 he
    obtain ⟨hpar, f, hf, hfr, -⟩ := h.recs i hi
    have e1 : render (splitDots i.importer) = i.importer := by
      rw [hfr, splitDots_render f (h.wf f hf)]
    have e2 : render (splitDots i.importee) = i.importee := by
      rw [hnr, splitDots_render n (h.wf n hn)]
    have : absImport (render (splitDots i.importer)) (render (splitDots i.importee)) = i := by
      rw [e1, e2]
      unfold absImport
      rw [← hpar]
    simp only []
    rw [this]
    exact hi

/-- the graph built from such inputs is a graph of a well-formed architecture with node list `N` -/
theorem scanArch_graphOf : GraphOf (scanArch N imps) (buildGraph mods imps none) :=
  buildGraph_scanlike (scanArch N imps) (scanArch_wf h) mods imps (scanArch_scanLike h)

end

/-! ### the specification's module list -/

theorem mem_scanModules (root : Comp) (sents : List SEntry) (mp : List Comp) (n : Name) :
    n ∈ scanModules root sents mp ↔
      ∃ se ∈ sents, survives sents mp se = true ∧ (n = entryName root se ∨ n ∈ properPrefixes (entryName root se)) := by
  unfold scanModules
  simp only [List.mem_eraseDups, List.mem_append, List.mem_map, List.mem_filter, List.mem_flatMap]
  constructor
  · rintro (⟨se, ⟨h1, h2⟩, rfl⟩ | ⟨m, ⟨se, ⟨h1, h2⟩, rfl⟩, hp⟩)
    · exact ⟨se, h1, h2, Or.inl rfl⟩
    · exact ⟨se, h1, h2, Or.inr hp⟩
  · rintro ⟨se, h1, h2, rfl | hp⟩
    · exact Or.inl ⟨se, ⟨h1, h2⟩, rfl⟩
    · exact Or.inr ⟨_, ⟨se, ⟨h1, h2⟩, rfl⟩, hp⟩

theorem scanModules_nodup (root : Comp) (sents : List SEntry) (mp : List Comp) : (scanModules root sents mp).Nodup := by
  unfold scanModules
  exact nodup_eraseDups _

theorem properPrefixes_prefix {n p : Name} (h : p ∈ properPrefixes n) : p <+: n := by
  obtain ⟨k, -, -, rfl⟩ := (mem_properPrefixes n p).1 h
  exact List.take_prefix _ _

theorem properPrefixes_trans {m n p : Name} (h1 : n ∈ properPrefixes m) (h2 : p ∈ properPrefixes n) :
    p ∈ properPrefixes m := by
  obtain ⟨k, k0, hk, rfl⟩ := (mem_properPrefixes m n).1 h1
  obtain ⟨j, j0, hj, rfl⟩ := (mem_properPrefixes _ p).1 h2
  rw [List.length_take] at hj
  refine (mem_properPrefixes m _).2 ⟨j, j0, by omega, ?_⟩
  rw [List.take_take]
  congr 1
  omega

/-! ### the inputs of the graph constructor in a scan -/

section
variable (mt : Str → Str → Bool) (base root : Str) (mp : List Str) (entries : List Entry) (o : ScanOptions)

/-- the specification's module list of the scanned tree -/
abbrev specModules : List Name := scanModules root (toSEntries (isExcluded mt o.exclusions) base entries) mp

theorem generateGraph_ok (g : PGraph Str) (hxx : o.excludeExternal = true) (hlim : o.levelLimit = none)
    (h : generateGraph mt base root mp entries o = .ok g) :
    ∃ imps0, convertAll (scanParsed mt base root mp entries o) (absolutePrefix root mp)
        ((scanParsed mt base root mp entries o).allModules.filter fun m => isInternal m (internalPrefix root mp)) = .ok imps0 ∧
      g = buildGraph (scanParsed mt base root mp entries o).allModules
        (retainImports mt o (internalPrefix root mp) imps0) none := by
  unfold generateGraph at h
  simp only [] at h
  cases hc : convertAll (scanParsed mt base root mp entries o) (absolutePrefix root mp)
      ((scanParsed mt base root mp entries o).allModules.filter fun m => isInternal m (internalPrefix root mp)) with
  | error k => rw [hc] at h; cases h
  | ok imps0 =>
    rw [hc] at h
    simp only [bind, Except.bind, pure, Except.pure, Except.ok.injEq, moduleList, hxx, if_true, shiftedLimit, hlim,
      Option.map_none] at h
    exact ⟨imps0, rfl, h.symm⟩

theorem scan_inputs (hwf : treeWFFor (isExcluded mt o.exclusions) base mp entries = true) (hmp : mpOK entries mp = true) (hroot : compWF root = true)
    (imps : List ImportRec)
    (himps : ∀ r ∈ imps, ∃ f ∈ (scanParsed mt base root mp entries o).files, RecOf f.1 r) :
    ScanInputs (specModules mt base root mp entries o) (scanParsed mt base root mp entries o).allModules imps := by
  have hwf' := hwf
  simp only [treeWFFor, Bool.and_eq_true] at hwf'
  have hshape := hwf'.1
  have s := shape_of entries hshape
  have nm := names_of _ base mp entries hwf'.2
  have hmem := mem_scanModules root (toSEntries (isExcluded mt o.exclusions) base entries) mp
  have hsent : ∀ se ∈ toSEntries (isExcluded mt o.exclusions) base entries,
      ∃ e ∈ rootEntry :: entries, se = toSEntry (isExcluded mt o.exclusions) base e := by
    intro se hse
    obtain ⟨e, he, rfl⟩ := List.mem_map.1 hse
    exact ⟨e, he, rfl⟩
  refine ⟨scanModules_nodup _ _ _, ?_, ?_, ?_, ?_, ?_⟩
  · intro n hn
    obtain ⟨se, hse, hsv, hor⟩ := (hmem n).1 hn
    obtain ⟨e, he, rfl⟩ := hsent se hse
    have hw := scan_modules_wf_lemma base mt root mp entries o hwf hroot e he hsv
    rcases hor with rfl | hp
    · exact hw
    · obtain ⟨k, k0, -, rfl⟩ := (mem_properPrefixes _ n).1 hp
      exact BuildNames.nameWF_take _ hw k k0
  · intro n hn p hp
    obtain ⟨se, hse, hsv, hor⟩ := (hmem n).1 hn
    refine (hmem p).2 ⟨se, hse, hsv, Or.inr ?_⟩
    rcases hor with rfl | hp'
    · exact hp
    · exact properPrefixes_trans hp' hp
  · intro m hm
    obtain ⟨e, he, hsv, rfl⟩ := (scan_modules_lemma base mt root mp entries o hshape hmp m).1 hm
    exact ⟨_, (hmem _).2 ⟨_, List.mem_map.2 ⟨e, he, rfl⟩, hsv, Or.inl rfl⟩, rfl⟩
  · intro n hn
    obtain ⟨se, hse, hsv, hor⟩ := (hmem n).1 hn
    obtain ⟨e, he, rfl⟩ := hsent se hse
    refine ⟨entryName root (toSEntry (isExcluded mt o.exclusions) base e), (hmem _).2 ⟨_, hse, hsv, Or.inl rfl⟩,
      (scan_modules_lemma base mt root mp entries o hshape hmp _).2 ⟨e, he, hsv, rfl⟩, ?_⟩
    rcases hor with rfl | hp
    · exact List.prefix_refl _
    · exact properPrefixes_prefix hp
  · intro i hi
    obtain ⟨f, hf, hrec⟩ := himps i hi
    obtain ⟨e, he, hed, hsv, rfl⟩ := (scan_files_lemma base mt root mp entries o hshape hmp f).1 hf
    refine ⟨hrec.2, entryName root (toSEntry (isExcluded mt o.exclusions) base e),
      (hmem _).2 ⟨_, List.mem_map.2 ⟨e, List.mem_cons_of_mem _ he, rfl⟩, hsv, Or.inl rfl⟩, hrec.1, ?_⟩
    intro n hn hpre
    obtain ⟨se, hse, hsv', hor⟩ := (hmem n).1 hn
    obtain ⟨d, hd, rfl⟩ := hsent se hse
    have hS := (survives_iff _ base s mp e (List.mem_cons_of_mem _ he)).1 hsv
    have hpy : isPyFile (lastName e) = true := by
      have := survives_dirOrPy _ base hS
      simpa [dirOrPy, hed] using this
    have hdn : IsNode entries d := by
      rcases List.mem_cons.1 hd with rfl | h
      · exact Or.inr ⟨rfl, Or.inl rfl⟩
      · exact Or.inl h
    rw [entryName_toSEntry] at hpre ⊢
    refine file_leaf s nm root e he hed hpy (Rel.of_survives hS) d hdn n hpre ?_
    rw [entryName_toSEntry] at hor
    rcases hor with rfl | hp
    · exact List.prefix_refl _
    · exact properPrefixes_prefix hp

/-- C04, graph: with external modules excluded and no level limit, the scan graph is a graph of a well-formed
    architecture whose node list is the specification's `scanModules` -/
theorem scan_graph_lemma (hwf : treeWFFor (isExcluded mt o.exclusions) base mp entries = true) (hmp : mpOK entries mp = true) (hroot : compWF root = true)
    (hxx : o.excludeExternal = true) (hlim : o.levelLimit = none) (g : PGraph Str)
    (h : generateGraph mt base root mp entries o = .ok g) :
    ∃ a : Arch, a.nodes = specModules mt base root mp entries o ∧ a.wf = true ∧ GraphOf a g ∧ g.nodes.Nodup := by
  obtain ⟨imps0, hc, rfl⟩ := generateGraph_ok mt base root mp entries o g hxx hlim h
  have hin := scan_inputs mt base root mp entries o hwf hmp hroot
    (retainImports mt o (internalPrefix root mp) imps0)
    (fun r hr => convertAll_recs _ _ _ imps0 hc r (retainImports_subset mt o _ imps0 r hr))
  exact ⟨scanArch _ _, rfl, scanArch_wf hin, scanArch_graphOf hin, buildGraph_nodup _ _ _⟩

end

/-! ### the architecture read off the graph -/

theorem mem_importPairs (g : PGraph Str) (u v : Str) : (u, v) ∈ g.importPairs ↔ ⟨u, v, false⟩ ∈ g.edges := by
  unfold PGraph.importPairs
  simp only [List.mem_map, List.mem_filter, Bool.not_eq_true', Prod.mk.injEq]
  constructor
  · rintro ⟨⟨es, ed, ei⟩, ⟨hm, h1⟩, h2, h3⟩
    simp only at h1 h2 h3
    subst h1 h2 h3
    exact hm
  · intro h
    exact ⟨_, ⟨h, rfl⟩, rfl, rfl⟩

theorem wf_congr (a b : Arch) (hwf : a.wf = true) (hn : b.nodes.Nodup) (h1 : ∀ n, n ∈ b.nodes ↔ n ∈ a.nodes)
    (h2 : ∀ e, e ∈ b.imports → e ∈ a.imports) : b.wf = true := by
  unfold Arch.wf at hwf ⊢
  simp only [Bool.and_eq_true, List.all_eq_true, List.contains_iff_mem, bne_iff_ne, ne_eq, Bool.not_eq_true'] at hwf ⊢
  obtain ⟨⟨⟨-, w1⟩, w2⟩, w3⟩ := hwf
  refine ⟨⟨⟨(nodupB_iff b.nodes).2 hn, fun n hn' => w1 n ((h1 n).1 hn')⟩,
    fun n hn' p hp => (h1 p).2 (w2 n ((h1 n).1 hn') p hp)⟩, ?_⟩
  intro e he
  obtain ⟨⟨⟨i1, i2⟩, i3⟩, i4⟩ := w3 e (h2 e he)
  exact ⟨⟨⟨(h1 _).2 i1, (h1 _).2 i2⟩, i3⟩, i4⟩

/-- a graph of a well-formed architecture is a graph of the architecture read off it, which is well-formed too -/
theorem graphArch_of_graphOf (a : Arch) (g : PGraph Str) (hwf : a.wf = true) (hg : GraphOf a g) (hnd : g.nodes.Nodup) :
    (graphArch g).wf = true ∧ GraphOf (graphArch g) g := by
  have hnode : ∀ s ∈ g.nodes, ∃ n ∈ a.nodes, s = render n ∧ splitDots s = n := by
    intro s hs
    obtain ⟨n, hn, rfl⟩ := (hg.nodes s).1 ((hasNode_iff g s).2 hs)
    exact ⟨n, hn, rfl, splitDots_render n (wf_nodes a hwf n hn)⟩
  have h1 : ∀ n, n ∈ (graphArch g).nodes ↔ n ∈ a.nodes := by
    intro n
    simp only [graphArch, List.mem_map]
    constructor
    · rintro ⟨s, hs, rfl⟩
      obtain ⟨m, hm, -, hsm⟩ := hnode s hs
      rw [hsm]; exact hm
    · intro hn
      exact ⟨render n, (hasNode_iff g _).1 ((hg.nodes _).2 ⟨n, hn, rfl⟩), splitDots_render n (wf_nodes a hwf n hn)⟩
  have h2 : ∀ e, e ∈ (graphArch g).imports ↔ e ∈ a.imports := by
    intro e
    simp only [graphArch, List.mem_map]
    constructor
    · rintro ⟨⟨u, v⟩, huv, rfl⟩
      rw [mem_importPairs, ← mem_importSuccs] at huv
      obtain ⟨e, he, rfl, rfl⟩ := (hg.succs u v).1 huv
      obtain ⟨i1, i2, -, -⟩ := wf_import a hwf e he
      simp only [splitDots_render _ (wf_nodes a hwf _ i1), splitDots_render _ (wf_nodes a hwf _ i2)]
      exact he
    · intro he
      obtain ⟨i1, i2, -, -⟩ := wf_import a hwf e he
      refine ⟨(render e.1, render e.2), ?_, ?_⟩
      · rw [mem_importPairs, ← mem_importSuccs]
        exact (hg.succs _ _).2 ⟨e, he, rfl, rfl⟩
      · simp only [splitDots_render _ (wf_nodes a hwf _ i1), splitDots_render _ (wf_nodes a hwf _ i2)]
  have hnd' : (graphArch g).nodes.Nodup := by
    show (g.nodes.map splitDots).Nodup
    rw [List.nodup_iff_pairwise_ne, List.pairwise_map]
    refine List.Pairwise.imp_of_mem ?_ hnd
    intro s s' hs hs' hne heq
    obtain ⟨n, -, rfl, e1⟩ := hnode s hs
    obtain ⟨n', -, rfl, e2⟩ := hnode s' hs'
    apply hne
    rw [← e1, ← e2, heq]
  refine ⟨wf_congr a _ hwf hnd' h1 (fun e => (h2 e).1), ?_, ?_, ?_, ?_⟩
  · intro s
    rw [hg.nodes]
    constructor
    · rintro ⟨n, hn, rfl⟩; exact ⟨n, (h1 n).2 hn, rfl⟩
    · rintro ⟨n, hn, rfl⟩; exact ⟨n, (h1 n).1 hn, rfl⟩
  · intro s x
    rw [hg.hier]
    constructor
    · rintro ⟨c, hc, r⟩; exact ⟨c, (h1 c).2 hc, r⟩
    · rintro ⟨c, hc, r⟩; exact ⟨c, (h1 c).1 hc, r⟩
  · intro s x
    rw [hg.succs]
    constructor
    · rintro ⟨e, he, r⟩; exact ⟨e, (h2 e).2 he, r⟩
    · rintro ⟨e, he, r⟩; exact ⟨e, (h2 e).1 he, r⟩
  · intro s x
    rw [hg.preds]
    constructor
    · rintro ⟨e, he, r⟩; exact ⟨e, (h2 e).2 he, r⟩
    · rintro ⟨e, he, r⟩; exact ⟨e, (h2 e).1 he, r⟩

/-- the sub modules of a node of a graph of a well-formed architecture: exactly the nodes whose name extends it -/
theorem submodules_of_graphOf (a : Arch) (g : PGraph Str) (hwf : a.wf = true) (hg : GraphOf a g) (n : Name)
    (hn : n ∈ a.nodes) :
    ∃ l, submodulesOf g (render n) = .ok l ∧ ∀ x, x ∈ l ↔ ∃ m ∈ a.nodes, x = render m ∧ n <+: m := by
  obtain ⟨l, hl, hm⟩ := (submodulesOf_spec g (render n)).2 (hasNode_render hg n hn)
  refine ⟨l, hl, fun x => ?_⟩
  rw [hm x, reach_iff (archWF_of_wf a hwf) hg n hn x]

/-! ### the module list, explicitly: surviving entries and the ancestor packages of `module_path` -/

section
variable (excl : Str → Bool) (base root : Str) {entries : List Entry} {mp : List Str} (s : Shape entries)
  (nm : Names (Rel excl base mp) entries) (hmp : mpOK entries mp = true)
include s nm

/-- a listed directory is named by its path -/
theorem relName_dir (d : Entry) (hd : d ∈ rootEntry :: entries) (hdir : d.isDir = true)
    (hR : Rel excl base mp d.rel) : relName root d = root :: d.rel := by
  rcases List.mem_cons.1 hd with rfl | hde
  · rfl
  · have hne := s.ne d hde
    simp only [relName, List.isEmpty_iff, hne, if_false, dropSuffix_compWF _ (nm.dirWF d hde hR hdir)]
    rw [← rel_split d hne]

omit nm in
/-- the parent directory of a surviving entry strictly below `module_path` survives -/
theorem parent_survives (d : Entry) (hd : d ∈ rootEntry :: entries) (hS : Survives excl base mp d) (hne : d.rel ≠ mp) :
    ∃ p ∈ rootEntry :: entries, p.isDir = true ∧ p.rel = d.rel.dropLast ∧ Survives excl base mp p := by
  have hde : d ∈ entries := by
    rcases List.mem_cons.1 hd with rfl | h
    · exfalso
      apply hne
      have := hS.1
      simp only [rootEntry, List.prefix_nil] at this
      rw [this]; rfl
    · exact h
  have hdne := s.ne d hde
  have hsplit := rel_split d hdne
  have hpre : mp <+: d.rel.dropLast := by
    have h1 := hS.1
    rw [hsplit] at h1
    rcases List.prefix_concat_iff.1 h1 with h' | h'
    · exact absurd (hsplit.trans h'.symm) hne
    · exact h'
  have hp : ∃ p ∈ rootEntry :: entries, p.isDir = true ∧ p.rel = d.rel.dropLast := by
    by_cases h2 : 2 ≤ d.rel.length
    · obtain ⟨p, hp, hpd, hpr⟩ := s.parent d hde h2
      exact ⟨p, List.mem_cons_of_mem _ hp, hpd, hpr⟩
    · refine ⟨rootEntry, List.mem_cons_self, rfl, ?_⟩
      symm
      apply List.length_eq_zero_iff.1
      rw [List.length_dropLast]; omega
  obtain ⟨p, hpm, hpd, hpr⟩ := hp
  refine ⟨p, hpm, hpd, hpr, ?_⟩
  refine ⟨by rw [hpr]; exact hpre, Or.inl hpd, ?_⟩
  intro k h1 h2
  have hk : k ≤ d.rel.dropLast.length := by rw [← hpr]; exact h2
  have : p.rel.take k = d.rel.take k := by
    rw [hpr, List.dropLast_eq_take, List.take_take]
    congr 1
    rw [List.length_dropLast] at hk
    omega
  rw [this]
  apply hS.2.2 k h1
  rw [List.length_dropLast] at hk
  omega

include hmp

/-- every non-empty prefix of a surviving entry's name is a surviving entry's name or an ancestor of `module_path` -/
theorem prefix_explicit : ∀ j, ∀ d ∈ rootEntry :: entries, Survives excl base mp d → d.rel.length = mp.length + j →
    ∀ n : Name, n ≠ [] → n <+: relName root d →
      (∃ e ∈ rootEntry :: entries, Survives excl base mp e ∧ n = relName root e) ∨
      (∃ k, 0 < k ∧ k ≤ mp.length ∧ n = (root :: mp).take k) := by
  intro j
  induction j with
  | zero =>
    intro d hd hS hlen n hn hpre
    have hrel : d.rel = mp := (hS.1.eq_of_length (by omega)).symm
    have hname : relName root d = root :: mp := by
      rw [← relName_start s nm hmp (Rel.self excl base mp) root]
      exact relName_congr root (by rw [hrel]; rfl)
    by_cases heq : n = relName root d
    · exact Or.inl ⟨d, hd, hS, heq⟩
    · right
      rw [hname] at hpre heq
      have hl : n.length < (root :: mp).length := by
        rcases Nat.lt_or_ge n.length (root :: mp).length with h | h
        · exact h
        · exact absurd (hpre.eq_of_length_le h) heq
      refine ⟨n.length, List.length_pos_iff.2 hn, by simpa using Nat.le_of_lt_succ hl, ?_⟩
      exact List.prefix_iff_eq_take.1 hpre
  | succ j ih =>
    intro d hd hS hlen n hn hpre
    by_cases heq : n = relName root d
    · exact Or.inl ⟨d, hd, hS, heq⟩
    · have hne : d.rel ≠ mp := by
        intro h
        rw [h] at hlen
        omega
      obtain ⟨p, hpm, hpd, hpr, hpS⟩ := parent_survives excl base s d hd hS hne
      have hdne : d.rel ≠ [] := by
        intro h
        rw [h] at hlen
        simp at hlen
      refine ih p hpm hpS ?_ n hn ?_
      · rw [hpr, List.length_dropLast]; omega
      · rw [relName_dir excl base root s nm p hpm hpd (Rel.of_survives hpS), hpr]
        have hrn : relName root d = (root :: d.rel.dropLast) ++ [dropSuffix (lastName d)] := by
          simp [relName, hdne]
        rw [hrn] at hpre heq
        rcases List.prefix_concat_iff.1 hpre with h' | h'
        · exact absurd h' heq
        · exact h'

/-- the specification's module list, explicitly -/
theorem mem_scanModules_explicit (n : Name) :
    n ∈ scanModules root (toSEntries excl base entries) mp ↔
      (∃ e ∈ rootEntry :: entries, survives (toSEntries excl base entries) mp (toSEntry excl base e) = true ∧
        n = entryName root (toSEntry excl base e)) ∨
      (excl (pathStr base mp) = false ∧ ∃ k, 0 < k ∧ k ≤ mp.length ∧ n = (root :: mp).take k) := by
  rw [mem_scanModules]
  constructor
  · rintro ⟨se, hse, hsv, hor⟩
    obtain ⟨d, hd, rfl⟩ := List.mem_map.1 hse
    rcases hor with rfl | hp
    · exact Or.inl ⟨d, hd, hsv, rfl⟩
    · have hS := (survives_iff excl base s mp d hd).1 hsv
      have hle := hS.1.length_le
      rcases prefix_explicit excl base root s nm hmp (d.rel.length - mp.length) d hd hS (by omega) n
        (mem_properPrefixes_ne_nil hp) (by rw [← entryName_toSEntry excl base]; exact properPrefixes_prefix hp) with
        ⟨e, he, heS, hen⟩ | hk
      · exact Or.inl ⟨e, he, (survives_iff excl base s mp e he).2 heS, by rw [entryName_toSEntry]; exact hen⟩
      · exact Or.inr ⟨survives_excl excl base hS, hk⟩
  · rintro (⟨e, he, hsv, rfl⟩ | ⟨hx, k, k0, hk, rfl⟩)
    · exact ⟨_, List.mem_map.2 ⟨e, he, rfl⟩, hsv, Or.inl rfl⟩
    · obtain ⟨e, he, hr, hdir⟩ := start_repr hmp
      have hS : Survives excl base mp e :=
        Survives.congr excl base (d := startEntry mp) hr.symm hdir.symm
          (survives_self excl base (startEntry mp) rfl (fun h => by cases h) hx)
      refine ⟨_, List.mem_map.2 ⟨e, he, rfl⟩, (survives_iff excl base s mp e he).2 hS, Or.inr ?_⟩
      rw [entryName_toSEntry, relName_dir excl base root s nm e he hdir (Rel.of_survives hS), hr]
      exact (mem_properPrefixes _ _).2 ⟨k, k0, by simpa using Nat.lt_succ_of_le hk, rfl⟩

end

/-! ### the property-level lemmas -/

section
variable (mt : Str → Str → Bool) (base root : Str) (mp : List Str) (entries : List Entry) (o : ScanOptions)
  (hwf : treeWFFor (isExcluded mt o.exclusions) base mp entries = true) (hmp : mpOK entries mp = true)
  (hroot : compWF root = true)
  (hxx : o.excludeExternal = true) (hlim : o.levelLimit = none) (g : PGraph Str)
  (h : generateGraph mt base root mp entries o = .ok g)
include hwf hmp hroot hxx hlim h

theorem scan_nodes_lemma (s : Str) :
    s ∈ g.nodes ↔ ∃ n ∈ specModules mt base root mp entries o, s = render n := by
  obtain ⟨a, ha, -, hg, -⟩ := scan_graph_lemma mt base root mp entries o hwf hmp hroot hxx hlim g h
  rw [← hasNode_iff, hg.nodes, ha]

/-- nodes, explicitly: names of surviving entries, and the ancestor packages of `module_path` up to the root -/
theorem scan_nodes_explicit_lemma (s : Str) :
    s ∈ g.nodes ↔
      (∃ e ∈ rootEntry :: entries,
        survives (toSEntries (isExcluded mt o.exclusions) base entries) mp
          (toSEntry (isExcluded mt o.exclusions) base e) = true ∧
        s = render (entryName root (toSEntry (isExcluded mt o.exclusions) base e))) ∨
      (isExcluded mt o.exclusions (pathStr base mp) = false ∧
        ∃ k, 0 < k ∧ k ≤ mp.length ∧ s = render ((root :: mp).take k)) := by
  rw [scan_nodes_lemma mt base root mp entries o hwf hmp hroot hxx hlim g h s]
  simp only [treeWFFor, Bool.and_eq_true] at hwf
  have hm := mem_scanModules_explicit (isExcluded mt o.exclusions) base root (shape_of entries hwf.1)
    (names_of _ base mp entries hwf.2) hmp
  constructor
  · rintro ⟨n, hn, rfl⟩
    rcases (hm n).1 hn with ⟨e, he, hsv, rfl⟩ | ⟨hx, k, k0, hk, rfl⟩
    · exact Or.inl ⟨e, he, hsv, rfl⟩
    · exact Or.inr ⟨hx, k, k0, hk, rfl⟩
  · rintro (⟨e, he, hsv, rfl⟩ | ⟨hx, k, k0, hk, rfl⟩)
    · exact ⟨_, (hm _).2 (Or.inl ⟨e, he, hsv, rfl⟩), rfl⟩
    · exact ⟨_, (hm _).2 (Or.inr ⟨hx, k, k0, hk, rfl⟩), rfl⟩

theorem scan_hier_lemma (s x : Str) :
    x ∈ g.hierChildren s ↔
      ∃ c ∈ specModules mt base root mp entries o, 2 ≤ c.length ∧ s = render c.dropLast ∧ x = render c := by
  obtain ⟨a, ha, -, hg, -⟩ := scan_graph_lemma mt base root mp entries o hwf hmp hroot hxx hlim g h
  rw [hg.hier, ha]

theorem scan_submodules_lemma (n : Name) (hn : n ∈ specModules mt base root mp entries o) :
    ∃ l, submodulesOf g (render n) = .ok l ∧
      ∀ x, x ∈ l ↔ ∃ m ∈ specModules mt base root mp entries o, x = render m ∧ n <+: m := by
  obtain ⟨a, ha, hawf, hg, -⟩ := scan_graph_lemma mt base root mp entries o hwf hmp hroot hxx hlim g h
  rw [← ha] at hn ⊢
  exact submodules_of_graphOf a g hawf hg n hn

theorem scan_wf_lemma : (graphArch g).wf = true ∧ GraphOf (graphArch g) g := by
  obtain ⟨a, -, hawf, hg, hnd⟩ := scan_graph_lemma mt base root mp entries o hwf hmp hroot hxx hlim g h
  exact graphArch_of_graphOf a g hawf hg hnd

theorem scan_arch_nodes_lemma (n : Name) :
    n ∈ (graphArch g).nodes ↔ n ∈ specModules mt base root mp entries o := by
  obtain ⟨a, ha, hawf, hg, hnd⟩ := scan_graph_lemma mt base root mp entries o hwf hmp hroot hxx hlim g h
  have h2 := (graphArch_of_graphOf a g hawf hg hnd).2
  rw [← ha]
  constructor
  · intro hn
    obtain ⟨m, hm, hr⟩ := (hg.nodes (render n)).1 ((h2.nodes (render n)).2 ⟨n, hn, rfl⟩)
    have hw := wf_nodes _ (graphArch_of_graphOf a g hawf hg hnd).1 n hn
    rw [render_injective n m hw (wf_nodes a hawf m hm) hr]; exact hm
  · intro hn
    obtain ⟨m, hm, hr⟩ := (h2.nodes (render n)).1 ((hg.nodes (render n)).2 ⟨n, hn, rfl⟩)
    have hw := wf_nodes _ (graphArch_of_graphOf a g hawf hg hnd).1 m hm
    rw [render_injective n m (wf_nodes a hawf n hn) hw hr]; exact hm

end

end ScanGraph
end Pta
