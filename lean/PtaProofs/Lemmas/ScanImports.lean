/-
  PtaProofs.Lemmas.ScanImports — a whole scan (`generateGraph`, default options): the import edges of the graph
  against the specification's `scanImports` (property C02, graph level). The directory walk is taken from `ScanHyps`.
-/
import Bridge.ScanAbs
import PtaProofs.Lemmas.Render
import PtaProofs.Lemmas.ScanStmt
import PtaProofs.Lemmas.BuildImports
namespace Pta
namespace ScanImports
open PtaSpec ScanStmt BuildImports

/-! ### monadic folds that append -/

theorem foldlM_option_some {α β : Type} (step : List β → α → Option (List β)) (G : α → List β) :
    ∀ (l : List α) (acc : List β), (∀ x ∈ l, ∀ acc, step acc x = some (acc ++ G x)) →
      l.foldlM step acc = some (acc ++ l.flatMap G)
  | [], acc, _ => by simp
  | x :: l, acc, h => by
    rw [List.foldlM_cons, h x List.mem_cons_self acc]
    show l.foldlM step (acc ++ G x) = _
    rw [foldlM_option_some step G l _ (fun y hy => h y (List.mem_cons_of_mem _ hy))]
    simp

theorem foldlM_option_none {α β : Type} (step : List β → α → Option (List β)) :
    ∀ (l : List α) (acc : List β), (∃ x ∈ l, ∀ acc, step acc x = none) → l.foldlM step acc = none
  | [], _, h => by obtain ⟨x, hx, -⟩ := h; cases hx
  | y :: l, acc, h => by
    rw [List.foldlM_cons]
    cases hy : step acc y with
    | none => rfl
    | some r =>
      show l.foldlM step r = none
      apply foldlM_option_none step l r
      obtain ⟨x, hx, hn⟩ := h
      rcases List.mem_cons.1 hx with rfl | hx'
      · rw [hn acc] at hy; cases hy
      · exact ⟨x, hx', hn⟩

theorem foldlM_except_ok {α β ε : Type} (step : List β → α → Except ε (List β)) (G : α → List β) :
    ∀ (l : List α) (acc : List β), (∀ x ∈ l, ∀ acc, step acc x = .ok (acc ++ G x)) →
      l.foldlM step acc = .ok (acc ++ l.flatMap G)
  | [], acc, _ => by simp [pure, Except.pure]
  | x :: l, acc, h => by
    rw [List.foldlM_cons, h x List.mem_cons_self acc]
    show l.foldlM step (acc ++ G x) = _
    rw [foldlM_except_ok step G l _ (fun y hy => h y (List.mem_cons_of_mem _ hy))]
    simp

theorem foldlM_except_error {α β ε : Type} (step : List β → α → Except ε (List β)) (k : ε) :
    ∀ (l : List α) (acc : List β), (∀ x ∈ l, ∀ acc, step acc x = .error k ∨ ∃ r, step acc x = .ok r) →
      (∃ x ∈ l, ∀ acc, step acc x = .error k) → l.foldlM step acc = .error k
  | [], _, _, h => by obtain ⟨x, hx, -⟩ := h; cases hx
  | y :: l, acc, hall, h => by
    rw [List.foldlM_cons]
    rcases hall y List.mem_cons_self acc with hy | ⟨r, hy⟩
    · rw [hy]; rfl
    · rw [hy]
      show l.foldlM step r = _
      apply foldlM_except_error step k l r (fun x hx => hall x (List.mem_cons_of_mem _ hx))
      obtain ⟨x, hx, hn⟩ := h
      rcases List.mem_cons.1 hx with rfl | hx'
      · rw [hn acc] at hy; cases hy
      · exact ⟨x, hx', hn⟩

/-! ### the specification's lists -/

/-- `inside` of `scanImports` -/
def insideOf (root : Comp) (sentries : List SEntry) (mp : List Comp) : List Name :=
  (scanModules root sentries mp).filter fun m => (root :: mp).isPrefixOf m

/-- `absPrefix` of `scanImports` -/
def apOf (root : Comp) (mp : List Comp) : Option Name := if mp.isEmpty then none else some (root :: mp.dropLast)

/-- the surviving files -/
def filesOf (sentries : List SEntry) (mp : List Comp) : List SEntry :=
  sentries.filter fun e => !e.isDir && survives sentries mp e

/-- the edges one statement of `importer` contributes -/
def stmtEdges (inside : List Name) (ap : Option Name) (importer : Name) (st : SStmt) : List (Name × Name) :=
  (((targets inside ap importer st).getD []).filter fun t => inside.contains t && t != importer).map
    fun t => (importer, t)

theorem scanImports_unfold (root : Comp) (sentries : List SEntry) (mp : List Comp) :
    scanImports root sentries mp =
      (filesOf sentries mp).foldlM (fun acc f =>
        f.stmts.foldlM (fun acc2 st =>
          match targets (insideOf root sentries mp) (apOf root mp) (entryName root f) st with
          | none => none
          | some ts => some (acc2 ++ (ts.filter fun t => (insideOf root sentries mp).contains t && t != entryName root f).map
              fun t => (entryName root f, t))) acc) [] := rfl

theorem scanImports_some (root : Comp) (sentries : List SEntry) (mp : List Comp)
    (h : ∀ f ∈ filesOf sentries mp, ∀ st ∈ f.stmts,
      targets (insideOf root sentries mp) (apOf root mp) (entryName root f) st ≠ none) :
    scanImports root sentries mp = some ((filesOf sentries mp).flatMap fun f =>
      f.stmts.flatMap (stmtEdges (insideOf root sentries mp) (apOf root mp) (entryName root f))) := by
  rw [scanImports_unfold]
  have := foldlM_option_some
    (fun acc (f : SEntry) => f.stmts.foldlM (fun acc2 st =>
          match targets (insideOf root sentries mp) (apOf root mp) (entryName root f) st with
          | none => none
          | some ts => some (acc2 ++ (ts.filter fun t => (insideOf root sentries mp).contains t && t != entryName root f).map
              fun t => (entryName root f, t))) acc)
    (fun f => f.stmts.flatMap (stmtEdges (insideOf root sentries mp) (apOf root mp) (entryName root f)))
    (filesOf sentries mp) [] ?_
  · simpa using this
  · intro f hf acc
    apply foldlM_option_some
    intro st hst acc2
    cases ht : targets (insideOf root sentries mp) (apOf root mp) (entryName root f) st with
    | none => exact absurd ht (h f hf st hst)
    | some ts => simp only [stmtEdges, ht, Option.getD_some]

theorem scanImports_none (root : Comp) (sentries : List SEntry) (mp : List Comp)
    (h : ∃ f ∈ filesOf sentries mp, ∃ st ∈ f.stmts,
      targets (insideOf root sentries mp) (apOf root mp) (entryName root f) st = none) :
    scanImports root sentries mp = none := by
  rw [scanImports_unfold]
  apply foldlM_option_none
  obtain ⟨f, hf, st, hst, ht⟩ := h
  refine ⟨f, hf, fun acc => ?_⟩
  apply foldlM_option_none
  refine ⟨st, hst, fun acc2 => ?_⟩
  simp only [ht]

/-! ### membership in the specification's module lists -/

theorem mem_scanModules (root : Comp) (sentries : List SEntry) (mp : List Comp)
    (hwf : ∀ n ∈ ownNames root sentries mp, nameWF n = true) (n : Name) :
    n ∈ scanModules root sentries mp ↔ Cl (ownNames root sentries mp) n := by
  unfold scanModules
  simp only [List.mem_eraseDups, List.mem_append, List.mem_flatMap]
  show (n ∈ ownNames root sentries mp ∨ ∃ m ∈ ownNames root sentries mp, n ∈ properPrefixes m) ↔ _
  constructor
  · rintro (h | ⟨m, hm, hp⟩)
    · exact Cl_self hwf h
    · obtain ⟨k, h0, hk, rfl⟩ := (BuildNames.mem_properPrefixes m n).1 hp
      exact Cl_take (Cl_self hwf hm) k h0
  · rintro ⟨hne, m, hm, hp⟩
    obtain ⟨k, hk, rfl⟩ := (prefix_iff_take n m).1 hp
    by_cases hkm : k = m.length
    · subst hkm; rw [List.take_length]; exact Or.inl hm
    · refine Or.inr ⟨m, hm, (BuildNames.mem_properPrefixes m _).2 ⟨k, ?_, by omega, rfl⟩⟩
      cases k with
      | zero => simp at hne
      | succ k => omega

theorem mem_insideOf (root : Comp) (sentries : List SEntry) (mp : List Comp)
    (hwf : ∀ n ∈ ownNames root sentries mp, nameWF n = true) (n : Name) :
    n ∈ insideOf root sentries mp ↔ Cl (ownNames root sentries mp) n ∧ (root :: mp) <+: n := by
  unfold insideOf
  rw [List.mem_filter, mem_scanModules root sentries mp hwf, List.isPrefixOf_iff_prefix]

/-- on a directory tree (`closed`) every inside module is a surviving entry's name -/
theorem mem_insideOf_closed (root : Comp) (sentries : List SEntry) (mp : List Comp)
    (hwf : ∀ n ∈ ownNames root sentries mp, nameWF n = true)
    (hcl : ∀ n ∈ ownNames root sentries mp, ∀ p ∈ properPrefixes n,
      desc (root :: mp) p = true → p ∈ ownNames root sentries mp) (n : Name) :
    n ∈ insideOf root sentries mp ↔ n ∈ ownNames root sentries mp ∧ (root :: mp) <+: n := by
  rw [mem_insideOf root sentries mp hwf]
  constructor
  · rintro ⟨⟨hne, m, hm, hp⟩, hd⟩
    refine ⟨?_, hd⟩
    obtain ⟨k, hk, rfl⟩ := (prefix_iff_take n m).1 hp
    by_cases hkm : k = m.length
    · subst hkm; rw [List.take_length]; exact hm
    · refine hcl m hm _ ((BuildNames.mem_properPrefixes m _).2 ⟨k, ?_, by omega, rfl⟩) ?_
      · cases k with
        | zero => simp at hne
        | succ k => omega
      · simpa [desc, List.isPrefixOf_iff_prefix] using hd
  · rintro ⟨h, hd⟩
    exact ⟨Cl_self hwf h, hd⟩

theorem insideOf_wf (root : Comp) (sentries : List SEntry) (mp : List Comp)
    (hwf : ∀ n ∈ ownNames root sentries mp, nameWF n = true) :
    ∀ n ∈ insideOf root sentries mp, nameWF n = true :=
  fun n hn => Cl_wf hwf ((mem_insideOf root sentries mp hwf n).1 hn).1

/-! ### the model's prefixes -/

theorem internalPrefix_eq (root : Str) (mp : List Str) : internalPrefix root mp = render (root :: mp) := by
  cases mp <;> rfl

theorem absolutePrefix_eq (root : Str) (mp : List Str) : absolutePrefix root mp = renderPrefix (apOf root mp) := by
  cases mp <;> rfl

theorem apOf_wf (root : Str) (mp : List Str) (h : nameWF (root :: mp) = true) :
    ∀ p, apOf root mp = some p → nameWF p = true := by
  intro p hp
  unfold apOf at hp
  split at hp
  · cases hp
  · simp only [Option.some.injEq] at hp
    subst hp
    exact nameWF_of_prefix h (by simp) (List.prefix_cons_inj root |>.2 (List.dropLast_prefix mp))

/-! ### one scan -/

section
variable {mt : Str → Str → Bool} {base root : Str} {mp : List Str} {entries : List Entry} {o : ScanOptions}

/-- the model's `internal` list -/
def internalOf (mt : Str → Str → Bool) (base root : Str) (mp : List Str) (entries : List Entry) (o : ScanOptions) :
    List Str :=
  (scanParsed mt base root mp entries o).allModules.filter fun m => isInternal m (internalPrefix root mp)

theorem generateGraph_default (H : ScanHyps mt base root mp entries o) :
    generateGraph mt base root mp entries o =
      match convertAll (scanParsed mt base root mp entries o) (absolutePrefix root mp) (internalOf mt base root mp entries o) with
      | .error k => .error k
      | .ok imports => .ok (buildGraph (scanParsed mt base root mp entries o).allModules
          (imports.filter fun i => isInternal i.importee (internalPrefix root mp)) none) := by
  unfold generateGraph retainImports moduleList shiftedLimit internalOf
  simp only [H.excl, H.lim, H.ext, Bool.not_true, Bool.false_and, Bool.false_eq_true, if_false, if_true,
    Option.map_none, bind, Except.bind, pure, Except.pure]
  split <;> simp_all

/-- `internal` is the rendering of `inside` -/
theorem ctx (H : ScanHyps mt base root mp entries o) :
    Ctx (insideOf root (sentriesOf mt base entries o) mp) (internalOf mt base root mp entries o) := by
  refine ⟨insideOf_wf _ _ _ H.ownWF, fun s => ?_⟩
  unfold internalOf isInternal
  rw [List.mem_filter, H.mods, internalPrefix_eq]
  constructor
  · rintro ⟨⟨n, hn, rfl⟩, hi⟩
    rw [isModuleOrSub_render _ _ H.rootWF (H.ownWF n hn)] at hi
    refine ⟨n, (mem_insideOf_closed _ _ _ H.ownWF H.closed n).2 ⟨hn, ?_⟩, rfl⟩
    simpa [desc, List.isPrefixOf_iff_prefix] using hi
  · rintro ⟨n, hn, rfl⟩
    obtain ⟨h1, h2⟩ := (mem_insideOf_closed _ _ _ H.ownWF H.closed n).1 hn
    refine ⟨⟨n, h1, rfl⟩, ?_⟩
    rw [isModuleOrSub_render _ _ H.rootWF (H.ownWF n h1)]
    simpa [desc, List.isPrefixOf_iff_prefix] using h2

/-- the targets the statement `st` of the parsed file named `nm` has in the specification -/
def tg (mt : Str → Str → Bool) (base root : Str) (mp : List Str) (entries : List Entry) (o : ScanOptions)
    (nm : Str) (st : ImportStmt) : Option (List Name) :=
  targets (insideOf root (sentriesOf mt base entries o) mp) (apOf root mp) (splitDots nm) (toSStmt st)

/-- all (importer, target) pairs of the parsed files -/
def rawOf (mt : Str → Str → Bool) (base root : Str) (mp : List Str) (entries : List Entry) (o : ScanOptions) :
    List (Name × Name) :=
  (scanParsed mt base root mp entries o).files.flatMap fun f =>
    f.2.flatMap fun st => ((tg mt base root mp entries o f.1 st).getD []).map fun t => (splitDots f.1, t)

def mkRec (e : Name × Name) : ImportRec := absImport (render e.1) (render e.2)

/-- a parsed file: its name is a surviving entry's name, its statements are parser statements -/
theorem file_facts (H : ScanHyps mt base root mp entries o) (f : Str × List ImportStmt)
    (hf : f ∈ (scanParsed mt base root mp entries o).files) :
    splitDots f.1 ∈ ownNames root (sentriesOf mt base entries o) mp ∧ render (splitDots f.1) = f.1 ∧
    ∀ st ∈ f.2, stmtOK (toSStmt st) = true := by
  obtain ⟨e, he, -, hs, rfl⟩ := (H.files f).1 hf
  have hown : entryName root (toSEntry (isExcluded mt o.exclusions) base e) ∈
      ownNames root (sentriesOf mt base entries o) mp := by
    unfold ownNames
    exact List.mem_map.2 ⟨_, List.mem_filter.2 ⟨List.mem_map.2 ⟨e, he, rfl⟩, hs⟩, rfl⟩
  refine ⟨?_, render_splitDots _, H.stmts e he⟩
  simp only
  rw [splitDots_render _ (H.ownWF _ hown)]
  exact hown

/-- `convertStmt` on a statement of a parsed file -/
theorem convert_file_stmt (H : ScanHyps mt base root mp entries o) (f : Str × List ImportStmt)
    (hf : f ∈ (scanParsed mt base root mp entries o).files) (st : ImportStmt) (hst : st ∈ f.2) :
    convertStmt f.1 (absolutePrefix root mp) (internalOf mt base root mp entries o) st =
      match tg mt base root mp entries o f.1 st with
      | some ts => .ok (recsOf (splitDots f.1) ts)
      | none => .error .lookupError := by
  obtain ⟨h1, h2, h3⟩ := file_facts H f hf
  have := convertStmt_targets (ctx H) (apOf root mp) (apOf_wf root mp H.rootWF) (splitDots f.1) (H.ownWF _ h1)
    (toSStmt st) (h3 st hst)
  rw [h2, toStmt_toSStmt, ← absolutePrefix_eq] at this
  exact this

theorem convertAll_ok (H : ScanHyps mt base root mp entries o)
    (h : ∀ f ∈ (scanParsed mt base root mp entries o).files, ∀ st ∈ f.2, tg mt base root mp entries o f.1 st ≠ none) :
    convertAll (scanParsed mt base root mp entries o) (absolutePrefix root mp) (internalOf mt base root mp entries o) =
      .ok ((rawOf mt base root mp entries o).map mkRec) := by
  unfold convertAll
  have := foldlM_except_ok (ε := ErrKind)
    (fun acc (f : Str × List ImportStmt) => do
      let is ← f.2.foldlM (fun acc2 st => do
        let r ← convertStmt f.1 (absolutePrefix root mp) (internalOf mt base root mp entries o) st
        pure (acc2 ++ r)) []
      pure (acc ++ is))
    (fun f => f.2.flatMap fun st => recsOf (splitDots f.1) ((tg mt base root mp entries o f.1 st).getD []))
    (scanParsed mt base root mp entries o).files [] ?_
  · rw [this]
    simp only [List.nil_append, rawOf, List.map_flatMap, List.map_map, recsOf]
    rfl
  · intro f hf acc
    have hin := foldlM_except_ok (ε := ErrKind)
      (fun acc2 st => do
        let r ← convertStmt f.1 (absolutePrefix root mp) (internalOf mt base root mp entries o) st
        pure (acc2 ++ r))
      (fun st => recsOf (splitDots f.1) ((tg mt base root mp entries o f.1 st).getD []))
      f.2 [] ?_
    · simp only [hin]
      rfl
    · intro st hst acc2
      rw [convert_file_stmt H f hf st hst]
      cases ht : tg mt base root mp entries o f.1 st with
      | none => exact absurd ht (h f hf st hst)
      | some ts => rfl

theorem convertAll_error (H : ScanHyps mt base root mp entries o)
    (h : ∃ f ∈ (scanParsed mt base root mp entries o).files, ∃ st ∈ f.2, tg mt base root mp entries o f.1 st = none) :
    convertAll (scanParsed mt base root mp entries o) (absolutePrefix root mp) (internalOf mt base root mp entries o) =
      .error .lookupError := by
  unfold convertAll
  have hinner : ∀ f ∈ (scanParsed mt base root mp entries o).files, ∀ st ∈ f.2, ∀ acc2 : List ImportRec,
      (do let r ← convertStmt f.1 (absolutePrefix root mp) (internalOf mt base root mp entries o) st
          pure (acc2 ++ r) : Except ErrKind (List ImportRec)) = .error .lookupError ∨
      ∃ r, (do let r ← convertStmt f.1 (absolutePrefix root mp) (internalOf mt base root mp entries o) st
               pure (acc2 ++ r) : Except ErrKind (List ImportRec)) = .ok r := by
    intro f hf st hst acc2
    rw [convert_file_stmt H f hf st hst]
    cases tg mt base root mp entries o f.1 st with
    | none => exact Or.inl rfl
    | some ts => exact Or.inr ⟨_, rfl⟩
  apply foldlM_except_error
  · intro f hf acc
    by_cases hb : ∃ st ∈ f.2, tg mt base root mp entries o f.1 st = none
    · left
      obtain ⟨st, hst, ht⟩ := hb
      have := foldlM_except_error (ε := ErrKind)
        (fun acc2 st => do
          let r ← convertStmt f.1 (absolutePrefix root mp) (internalOf mt base root mp entries o) st
          pure (acc2 ++ r)) .lookupError f.2 [] (fun st hst acc2 => hinner f hf st hst acc2)
        ⟨st, hst, fun acc2 => by rw [convert_file_stmt H f hf st hst, ht]; rfl⟩
      simp only [this]
      rfl
    · right
      have := foldlM_except_ok (ε := ErrKind)
        (fun acc2 st => do
          let r ← convertStmt f.1 (absolutePrefix root mp) (internalOf mt base root mp entries o) st
          pure (acc2 ++ r))
        (fun st => recsOf (splitDots f.1) ((tg mt base root mp entries o f.1 st).getD []))
        f.2 [] ?_
      · simp only [this]
        exact ⟨_, rfl⟩
      · intro st hst acc2
        rw [convert_file_stmt H f hf st hst]
        cases ht : tg mt base root mp entries o f.1 st with
        | none => exact absurd ⟨st, hst, ht⟩ hb
        | some ts => rfl
  · obtain ⟨f, hf, st, hst, ht⟩ := h
    refine ⟨f, hf, fun acc => ?_⟩
    have := foldlM_except_error (ε := ErrKind)
      (fun acc2 st => do
        let r ← convertStmt f.1 (absolutePrefix root mp) (internalOf mt base root mp entries o) st
        pure (acc2 ++ r)) .lookupError f.2 [] (fun st hst acc2 => hinner f hf st hst acc2)
      ⟨st, hst, fun acc2 => by rw [convert_file_stmt H f hf st hst, ht]; rfl⟩
    simp only [this]
    rfl

/-- statement `st` of the surviving file `e0` (named `imp`) names the module `t` -/
def Acc (mt : Str → Str → Bool) (base root : Str) (mp : List Str) (entries : List Entry) (o : ScanOptions)
    (imp t : Name) : Prop :=
  ∃ e0 ∈ entries, e0.isDir = false ∧
    survives (sentriesOf mt base entries o) mp (toSEntry (isExcluded mt o.exclusions) base e0) = true ∧
    imp = entryName root (toSEntry (isExcluded mt o.exclusions) base e0) ∧
    ∃ st ∈ e0.stmts, ∃ ts, targets (insideOf root (sentriesOf mt base entries o) mp) (apOf root mp) imp (toSStmt st) = some ts ∧
      t ∈ ts

theorem mem_getD {α : Type} (x : Option (List α)) (a : α) : a ∈ x.getD [] ↔ ∃ l, x = some l ∧ a ∈ l := by
  cases x with
  | none => simp
  | some l => simp

theorem mem_filesOf (e : SEntry) :
    e ∈ filesOf (sentriesOf mt base entries o) mp ↔
      ∃ e0 ∈ entries, e = toSEntry (isExcluded mt o.exclusions) base e0 ∧ e0.isDir = false ∧
        survives (sentriesOf mt base entries o) mp (toSEntry (isExcluded mt o.exclusions) base e0) = true := by
  unfold filesOf
  rw [List.mem_filter]
  constructor
  · rintro ⟨hm, hc⟩
    obtain ⟨e0, he0, rfl⟩ := List.mem_map.1 hm
    simp only [Bool.and_eq_true, Bool.not_eq_true'] at hc
    exact ⟨e0, he0, rfl, hc.1, hc.2⟩
  · rintro ⟨e0, he0, rfl, hd, hs⟩
    refine ⟨List.mem_map.2 ⟨e0, he0, rfl⟩, ?_⟩
    simp only [Bool.and_eq_true, Bool.not_eq_true']
    exact ⟨hd, hs⟩

/-- the edges of the specification -/
theorem mem_specEdges (e : Name × Name) :
    e ∈ ((filesOf (sentriesOf mt base entries o) mp).flatMap fun f =>
      f.stmts.flatMap (stmtEdges (insideOf root (sentriesOf mt base entries o) mp) (apOf root mp) (entryName root f))) ↔
    Acc mt base root mp entries o e.1 e.2 ∧ e.2 ∈ insideOf root (sentriesOf mt base entries o) mp ∧ e.2 ≠ e.1 := by
  simp only [List.mem_flatMap, stmtEdges, List.mem_map, List.mem_filter, mem_getD, Bool.and_eq_true,
    List.contains_iff_mem, bne_iff_ne, ne_eq]
  constructor
  · rintro ⟨f, hf, st, hst, t, ⟨⟨ts, hts, ht⟩, hin, hne⟩, rfl⟩
    obtain ⟨e0, he0, rfl, hd, hs⟩ := (mem_filesOf f).1 hf
    obtain ⟨st0, hst0, rfl⟩ := List.mem_map.1 hst
    exact ⟨⟨e0, he0, hd, hs, rfl, st0, hst0, ts, hts, ht⟩, hin, hne⟩
  · rintro ⟨⟨e0, he0, hd, hs, himp, st0, hst0, ts, hts, ht⟩, hin, hne⟩
    obtain ⟨imp, t⟩ := e
    simp only at himp hts ht hin hne
    subst himp
    exact ⟨_, (mem_filesOf _).2 ⟨e0, he0, rfl, hd, hs⟩, toSStmt st0, List.mem_map.2 ⟨st0, hst0, rfl⟩, t,
      ⟨⟨ts, hts, ht⟩, hin, hne⟩, rfl⟩

/-- the raw (importer, target) pairs of the model -/
theorem mem_rawOf (H : ScanHyps mt base root mp entries o) (e : Name × Name) :
    e ∈ rawOf mt base root mp entries o ↔ Acc mt base root mp entries o e.1 e.2 := by
  unfold rawOf
  simp only [List.mem_flatMap, List.mem_map, mem_getD, tg]
  constructor
  · rintro ⟨f, hf, st, hst, t, ⟨ts, hts, ht⟩, rfl⟩
    obtain ⟨e0, he0, hd, hs, rfl⟩ := (H.files f).1 hf
    have hown : entryName root (toSEntry (isExcluded mt o.exclusions) base e0) ∈
        ownNames root (sentriesOf mt base entries o) mp := by
      unfold ownNames
      exact List.mem_map.2 ⟨_, List.mem_filter.2 ⟨List.mem_map.2 ⟨e0, he0, rfl⟩, hs⟩, rfl⟩
    simp only at hts hst ⊢
    rw [splitDots_render _ (H.ownWF _ hown)] at hts ⊢
    exact ⟨e0, he0, hd, hs, rfl, st, hst, ts, hts, ht⟩
  · rintro ⟨e0, he0, hd, hs, himp, st, hst, ts, hts, ht⟩
    obtain ⟨imp, t⟩ := e
    simp only at himp hts ht
    subst himp
    have hown : entryName root (toSEntry (isExcluded mt o.exclusions) base e0) ∈
        ownNames root (sentriesOf mt base entries o) mp := by
      unfold ownNames
      exact List.mem_map.2 ⟨_, List.mem_filter.2 ⟨List.mem_map.2 ⟨e0, he0, rfl⟩, hs⟩, rfl⟩
    refine ⟨(render (entryName root (toSEntry (isExcluded mt o.exclusions) base e0)), e0.stmts),
      (H.files _).2 ⟨e0, he0, hd, hs, rfl⟩, st, hst, t, ⟨ts, ?_, ht⟩, ?_⟩
    · simp only
      rw [splitDots_render _ (H.ownWF _ hown)]; exact hts
    · simp only
      rw [splitDots_render _ (H.ownWF _ hown)]

theorem Acc_facts (H : ScanHyps mt base root mp entries o) (imp t : Name)
    (h : Acc mt base root mp entries o imp t) :
    imp ∈ ownNames root (sentriesOf mt base entries o) mp ∧ nameWF t = true := by
  obtain ⟨e0, he0, hd, hs, rfl, st, hst, ts, hts, ht⟩ := h
  have hown : entryName root (toSEntry (isExcluded mt o.exclusions) base e0) ∈
      ownNames root (sentriesOf mt base entries o) mp := by
    unfold ownNames
    exact List.mem_map.2 ⟨_, List.mem_filter.2 ⟨List.mem_map.2 ⟨e0, he0, rfl⟩, hs⟩, rfl⟩
  exact ⟨hown, targets_wf _ _ (apOf_wf root mp H.rootWF) _ (H.ownWF _ hown) _ (H.stmts e0 he0 st hst) ts hts t ht⟩

/-- no statement of a surviving file reaches above the root: the same condition on both sides -/
theorem bad_iff (H : ScanHyps mt base root mp entries o) :
    (∃ f ∈ (scanParsed mt base root mp entries o).files, ∃ st ∈ f.2, tg mt base root mp entries o f.1 st = none) ↔
    (∃ f ∈ filesOf (sentriesOf mt base entries o) mp, ∃ st ∈ f.stmts,
      targets (insideOf root (sentriesOf mt base entries o) mp) (apOf root mp) (entryName root f) st = none) := by
  constructor
  · rintro ⟨f, hf, st, hst, ht⟩
    obtain ⟨e0, he0, hd, hs, rfl⟩ := (H.files f).1 hf
    have hown : entryName root (toSEntry (isExcluded mt o.exclusions) base e0) ∈
        ownNames root (sentriesOf mt base entries o) mp := by
      unfold ownNames
      exact List.mem_map.2 ⟨_, List.mem_filter.2 ⟨List.mem_map.2 ⟨e0, he0, rfl⟩, hs⟩, rfl⟩
    simp only [tg] at ht hst
    rw [splitDots_render _ (H.ownWF _ hown)] at ht
    exact ⟨_, (mem_filesOf _).2 ⟨e0, he0, rfl, hd, hs⟩, toSStmt st, List.mem_map.2 ⟨st, hst, rfl⟩, ht⟩
  · rintro ⟨f, hf, st, hst, ht⟩
    obtain ⟨e0, he0, rfl, hd, hs⟩ := (mem_filesOf f).1 hf
    obtain ⟨st0, hst0, rfl⟩ := List.mem_map.1 hst
    have hown : entryName root (toSEntry (isExcluded mt o.exclusions) base e0) ∈
        ownNames root (sentriesOf mt base entries o) mp := by
      unfold ownNames
      exact List.mem_map.2 ⟨_, List.mem_filter.2 ⟨List.mem_map.2 ⟨e0, he0, rfl⟩, hs⟩, rfl⟩
    refine ⟨(render (entryName root (toSEntry (isExcluded mt o.exclusions) base e0)), e0.stmts),
      (H.files _).2 ⟨e0, he0, hd, hs, rfl⟩, st0, hst0, ?_⟩
    simp only [tg]
    rw [splitDots_render _ (H.ownWF _ hown)]; exact ht

/-- the graph of a scan whose conversion succeeded -/
theorem graph_inv (H : ScanHyps mt base root mp entries o) :
    ImpInv (ownNames root (sentriesOf mt base entries o) mp)
      ((rawOf mt base root mp entries o).filter fun e => isInternal (render e.2) (internalPrefix root mp))
      (buildGraph (scanParsed mt base root mp entries o).allModules
        (((rawOf mt base root mp entries o).map mkRec).filter fun i => isInternal i.importee (internalPrefix root mp)) none) := by
  have hf : (((rawOf mt base root mp entries o).map mkRec).filter fun i => isInternal i.importee (internalPrefix root mp)) =
      ((rawOf mt base root mp entries o).filter fun e => isInternal (render e.2) (internalPrefix root mp)).map
        fun e => absImport (render e.1) (render e.2) := by
    rw [List.filter_map]; rfl
  rw [hf]
  apply buildGraph_inv_set _ H.ownWF _ H.mods
  intro e he
  exact Acc_facts H e.1 e.2 ((mem_rawOf H e).1 (List.mem_filter.1 he).1)

/-- graph level: both sides fail together; otherwise the import pairs of the graph are the specification's edges,
    except those from a module to its own direct child (such a pair stays a hierarchy edge) -/
theorem scan_imports_lemma (H : ScanHyps mt base root mp entries o) :
    match scanImports root (sentriesOf mt base entries o) mp with
    | none => generateGraph mt base root mp entries o = .error .lookupError
    | some is => ∃ g, generateGraph mt base root mp entries o = .ok g ∧
        ∀ u v, (u, v) ∈ g.importPairs ↔ ∃ e ∈ is, u = render e.1 ∧ v = render e.2 ∧ e.1 ≠ e.2.dropLast := by
  by_cases hb : ∃ f ∈ filesOf (sentriesOf mt base entries o) mp, ∃ st ∈ f.stmts,
      targets (insideOf root (sentriesOf mt base entries o) mp) (apOf root mp) (entryName root f) st = none
  · rw [scanImports_none _ _ _ hb]
    simp only
    rw [generateGraph_default H, convertAll_error H ((bad_iff H).2 hb)]
  · have hs : ∀ f ∈ filesOf (sentriesOf mt base entries o) mp, ∀ st ∈ f.stmts,
        targets (insideOf root (sentriesOf mt base entries o) mp) (apOf root mp) (entryName root f) st ≠ none :=
      fun f hf st hst ht => hb ⟨f, hf, st, hst, ht⟩
    have hm : ∀ f ∈ (scanParsed mt base root mp entries o).files, ∀ st ∈ f.2,
        tg mt base root mp entries o f.1 st ≠ none :=
      fun f hf st hst ht => hb ((bad_iff H).1 ⟨f, hf, st, hst, ht⟩)
    rw [scanImports_some _ _ _ hs]
    simp only
    rw [generateGraph_default H, convertAll_ok H hm]
    refine ⟨_, rfl, fun u v => ?_⟩
    have hinv := graph_inv H
    rw [mem_importPairs, hinv.imps]
    have hown := H.ownWF
    constructor
    · rintro ⟨hnp, e, he, rfl, rfl, hne, hq⟩
      obtain ⟨he1, he2⟩ := List.mem_filter.1 he
      have hacc := (mem_rawOf H e).1 he1
      obtain ⟨ho, hw⟩ := Acc_facts H e.1 e.2 hacc
      have hw1 := hown _ ho
      obtain ⟨c, hc, hce⟩ := hq
      have := render_injective _ _ hw (Cl_wf hown hc) hce
      subst this
      refine ⟨e, (mem_specEdges e).2 ⟨hacc, (mem_insideOf _ _ _ hown _).2 ⟨hc, ?_⟩, fun h => hne (by rw [h])⟩,
        rfl, rfl, ?_⟩
      · unfold isInternal at he2
        rw [internalPrefix_eq, isModuleOrSub_render _ _ H.rootWF hw] at he2
        simpa [desc, List.isPrefixOf_iff_prefix] using he2
      · intro h
        apply hnp
        refine ⟨e.2, hc, ?_, by rw [h], rfl⟩
        have hl := congrArg List.length h
        rw [List.length_dropLast] at hl
        have := List.length_pos_iff.2 (nameWF_ne_nil hw1)
        omega
    · rintro ⟨e, he, rfl, rfl, hnd⟩
      obtain ⟨hacc, hin, hne⟩ := (mem_specEdges e).1 he
      obtain ⟨ho, hw⟩ := Acc_facts H e.1 e.2 hacc
      have hw1 := hown _ ho
      obtain ⟨hc, hd⟩ := (mem_insideOf _ _ _ hown _).1 hin
      refine ⟨?_, e, List.mem_filter.2 ⟨(mem_rawOf H e).2 hacc, ?_⟩, rfl, rfl, ?_, ⟨e.2, hc, rfl⟩⟩
      · rintro ⟨c, hc', hl, h1, h2⟩
        have := render_injective _ _ hw (Cl_wf hown hc') h2
        subst this
        exact hnd (render_injective _ _ hw1 (BuildNames.nameWF_dropLast _ hw hl) h1)
      · unfold isInternal
        rw [internalPrefix_eq, isModuleOrSub_render _ _ H.rootWF hw]
        simpa [desc, List.isPrefixOf_iff_prefix] using hd
      · intro h
        exact hne (render_injective _ _ hw1 hw h).symm

/-- the hypotheses from their decidable form -/
theorem scanHyps_of_check (h : scanCheck mt base root mp entries o = true) : ScanHyps mt base root mp entries o := by
  unfold scanCheck at h
  simp only [Bool.and_eq_true, List.all_eq_true, Bool.or_eq_true, Bool.not_eq_true', List.contains_iff_mem,
    Option.isNone_iff_eq_none] at h
  obtain ⟨⟨⟨⟨⟨⟨⟨⟨⟨⟨h1, h2⟩, h3⟩, h4⟩, h5⟩, h6⟩, h7⟩, h8⟩, h9⟩, h10⟩, h11⟩ := h
  refine ⟨h1, h2, h3, h4, h5, ?_, h7, ?_, ?_⟩
  · intro n hn p hp hd
    rcases h6 n hn p hp with h | h
    · rw [h] at hd; cases hd
    · exact h
  · intro s
    constructor
    · intro hs
      obtain ⟨n, hn, e⟩ := List.mem_map.1 (h8 s hs)
      exact ⟨n, hn, e.symm⟩
    · rintro ⟨n, hn, rfl⟩
      exact h9 n hn
  · intro f
    constructor
    · intro hf
      have := h10 f hf
      unfold expectedFiles at this
      obtain ⟨e, he, rfl⟩ := List.mem_map.1 this
      obtain ⟨he1, he2⟩ := List.mem_filter.1 he
      simp only [Bool.and_eq_true, Bool.not_eq_true'] at he2
      exact ⟨e, he1, he2.1, he2.2, rfl⟩
    · rintro ⟨e, he, hd, hs, rfl⟩
      apply h11
      unfold expectedFiles
      refine List.mem_map.2 ⟨e, List.mem_filter.2 ⟨he, ?_⟩, rfl⟩
      simp only [Bool.and_eq_true, Bool.not_eq_true']
      exact ⟨hd, hs⟩

/-- every edge of the specification goes from a surviving file's module to an inside module -/
theorem scanImports_mem (root : Comp) (sentries : List SEntry) (mp : List Comp) (is : List (Name × Name))
    (h : scanImports root sentries mp = some is) (e : Name × Name) (he : e ∈ is) :
    (∃ f ∈ filesOf sentries mp, e.1 = entryName root f) ∧ e.2 ∈ insideOf root sentries mp ∧ e.2 ≠ e.1 := by
  by_cases hb : ∃ f ∈ filesOf sentries mp, ∃ st ∈ f.stmts,
      targets (insideOf root sentries mp) (apOf root mp) (entryName root f) st = none
  · rw [scanImports_none _ _ _ hb] at h; cases h
  · have hs : ∀ f ∈ filesOf sentries mp, ∀ st ∈ f.stmts,
        targets (insideOf root sentries mp) (apOf root mp) (entryName root f) st ≠ none :=
      fun f hf st hst ht => hb ⟨f, hf, st, hst, ht⟩
    rw [scanImports_some _ _ _ hs, Option.some.injEq] at h
    subst h
    simp only [List.mem_flatMap, stmtEdges, List.mem_map, List.mem_filter, Bool.and_eq_true,
      List.contains_iff_mem, bne_iff_ne, ne_eq] at he
    obtain ⟨f, hf, st, -, t, ⟨-, hin, hne⟩, rfl⟩ := he
    exact ⟨⟨f, hf, rfl⟩, hin, hne⟩

/-- no `x.py` next to a directory `x`: no surviving file's module is a strict ancestor of a surviving entry's -/
def noFileParent (root : Comp) (sentries : List SEntry) (mp : List Comp) : Bool :=
  (filesOf sentries mp).all fun f => (ownNames root sentries mp).all fun n => !sdesc (entryName root f) n

theorem no_collision (H : ScanHyps mt base root mp entries o)
    (hnc : noFileParent root (sentriesOf mt base entries o) mp = true) (is : List (Name × Name))
    (h : scanImports root (sentriesOf mt base entries o) mp = some is) (e : Name × Name) (he : e ∈ is) :
    e.1 ≠ e.2.dropLast := by
  obtain ⟨⟨f, hf, hef⟩, hin, hne⟩ := scanImports_mem _ _ _ is h e he
  obtain ⟨⟨hnn, m, hm, hp⟩, -⟩ := (mem_insideOf _ _ _ H.ownWF _).1 hin
  intro hd
  unfold noFileParent at hnc
  simp only [List.all_eq_true, Bool.not_eq_true'] at hnc
  have := hnc f hf m hm
  rw [← hef] at this
  have hlt : e.1.length < e.2.length := by
    have hl := congrArg List.length hd
    rw [List.length_dropLast] at hl
    have := List.length_pos_iff.2 hnn
    omega
  have hpre : e.1 <+: m := by
    rw [hd]; exact (List.dropLast_prefix e.2).trans hp
  have : sdesc e.1 m = true := by
    unfold sdesc
    simp only [Bool.and_eq_true, List.isPrefixOf_iff_prefix, bne_iff_ne, ne_eq]
    refine ⟨hpre, fun h => ?_⟩
    have := hp.length_le
    rw [← h] at this
    omega
  simp_all

theorem scan_imports_nocollision_lemma (H : ScanHyps mt base root mp entries o)
    (hnc : noFileParent root (sentriesOf mt base entries o) mp = true) :
    match scanImports root (sentriesOf mt base entries o) mp with
    | none => generateGraph mt base root mp entries o = .error .lookupError
    | some is => ∃ g, generateGraph mt base root mp entries o = .ok g ∧
        ∀ u v, (u, v) ∈ g.importPairs ↔ ∃ e ∈ is, u = render e.1 ∧ v = render e.2 := by
  have h := scan_imports_lemma H
  cases hs : scanImports root (sentriesOf mt base entries o) mp with
  | none => rw [hs] at h; exact h
  | some is =>
    rw [hs] at h
    obtain ⟨g, hg, hiff⟩ := h
    refine ⟨g, hg, fun u v => ?_⟩
    rw [hiff]
    constructor
    · rintro ⟨e, he, h1, h2, -⟩; exact ⟨e, he, h1, h2⟩
    · rintro ⟨e, he, h1, h2⟩; exact ⟨e, he, h1, h2, no_collision H hnc is hs e he⟩

/-- a pair from a module to its direct child is never an import pair of the scan graph -/
theorem parent_child_not_import_lemma (H : ScanHyps mt base root mp entries o) (g : PGraph Str)
    (hg : generateGraph mt base root mp entries o = .ok g) (c : Name)
    (hc : c ∈ scanModules root (sentriesOf mt base entries o) mp) (hl : 2 ≤ c.length) :
    (render c.dropLast, render c) ∉ g.importPairs ∧ (render c.dropLast, render c) ∈ g.hierPairs := by
  rw [generateGraph_default H] at hg
  have hcl := (mem_scanModules _ _ _ H.ownWF c).1 hc
  by_cases hb : ∃ f ∈ (scanParsed mt base root mp entries o).files, ∃ st ∈ f.2, tg mt base root mp entries o f.1 st = none
  · rw [convertAll_error H hb] at hg; cases hg
  · have hm : ∀ f ∈ (scanParsed mt base root mp entries o).files, ∀ st ∈ f.2,
        tg mt base root mp entries o f.1 st ≠ none :=
      fun f hf st hst ht => hb ⟨f, hf, st, hst, ht⟩
    rw [convertAll_ok H hm] at hg
    simp only [Except.ok.injEq] at hg
    subst hg
    have hinv := graph_inv H
    have hp : HP (ownNames root (sentriesOf mt base entries o) mp) (render c.dropLast) (render c) :=
      ⟨c, hcl, hl, rfl, rfl⟩
    rw [mem_importPairs, mem_hierPairs, hinv.imps, hinv.hier]
    exact ⟨fun h => h.1 hp, hp⟩

end

end ScanImports
end Pta
