/-
  PtaProofs.Lemmas.LayerChain — `compileLayerRule larch r` is the state the fluent LayerRule builder reaches after
  the complete call chain `layerRuleOps larch r`, so `runLayerRuleOps` on the chain is `assertAppliesLayer` on it.
-/
import Bridge.LayerAbs
namespace Pta
open PtaSpec

theorem larch_get_of_hasLayer (a : LArch) (n : Str) (h : a.hasLayer n = true) : a.get n = .ok (a.getD n) := by
  unfold LArch.getD
  unfold LArch.get
  cases hf : a.find? (·.1 == n) with
  | some l => rfl
  | none =>
    rw [List.find?_eq_none] at hf
    simp only [LArch.hasLayer, List.any_eq_true] at h
    obtain ⟨l, hl, hn⟩ := h
    exact absurd hn (hf l hl)

theorem mapM_get_getD (a : LArch) (ls : List Str) (h : ls.all a.hasLayer = true) :
    ls.mapM a.get = .ok (ls.map a.getD) := by
  induction ls with
  | nil => rfl
  | cons l ls ih =>
    simp only [List.all_cons, Bool.and_eq_true] at h
    rw [List.mapM_cons, ih h.2, larch_get_of_hasLayer a l h.1]
    rfl

theorem flatten_map_getD (a : LArch) (ls : List Str) : (ls.map a.getD).flatten = ls.flatMap a.getD := by
  rw [List.flatMap_def]

/-- the state after `based_on(larch).layers_that().are_named(subject)` -/
def chain3 (larch : LArch) (subject : Str) : LayerRuleState :=
  { arch := some larch, rule := some { cfg := { subjects := some (larch.getD subject) }, next := some true } }

theorem go_chain3 (mt : Str → Str → Bool) (g : PGraph Str) (larch : LArch) (subject : Str) (rest : List LayerRuleOp)
    (hS : larch.hasLayer subject = true) :
    runLayerRuleOps.go mt g {} 0 (.basedOn larch :: .layersThat :: .areNamed [subject] false :: rest) =
      runLayerRuleOps.go mt g (chain3 larch subject) 3 rest := by
  have h1 : [subject].mapM larch.get = .ok [larch.getD subject] := by
    have := mapM_get_getD larch [subject] (by simpa using hS)
    simpa using this
  simp [runLayerRuleOps.go, LayerRuleState.step, h1, RuleState.addModules, chain3, bind, Except.bind, pure, Except.pure]

theorem runLayerRuleOps_chain_lemma (mt : Str → Str → Bool) (g : PGraph Str) (larch : LArch) (r : LRuleSpec) (isList : Bool)
    (hS : larch.hasLayer r.subject = true) (hSne : larch.getD r.subject ≠ [])
    (hO : r.anything = false → r.objects.all larch.hasLayer = true) :
    runLayerRuleOps mt (layerRuleOps larch r isList) g =
      (assertAppliesLayer mt (compileLayerRule larch r) g, (layerRuleOps larch r isList).length) := by
  obtain ⟨verb, dir, exc, subject, objects, anything⟩ := r
  simp only at hS hSne hO
  unfold runLayerRuleOps layerRuleOps
  simp only [List.cons_append, List.nil_append]
  rw [go_chain3 mt g larch subject _ hS]
  have hse : (larch.getD subject).isEmpty = false := by
    cases h : larch.getD subject
    · exact absurd h hSne
    · rfl
  cases anything
  · have h2 := mapM_get_getD larch objects (hO rfl)
    cases verb <;> cases dir <;> cases exc <;>
      simp [runLayerRuleOps.go, LayerRuleState.step, RuleState.step, RuleState.addModules, chain3, verbOp, accessOp,
        compileLayerRule, h2, hse, flatten_map_getD, bind, Except.bind, pure, Except.pure, Except.map] <;> rfl
  · cases verb <;> cases dir <;>
      simp [runLayerRuleOps.go, LayerRuleState.step, RuleState.step, chain3, verbOp, accessOp,
        compileLayerRule, Except.map] <;> rfl

end Pta
