/-
  PtaProofs.Lemmas.OrderLayer — layer rules do not depend on the order in which the layers were defined, nor on the
  order of the subject / object filters (hence of the object layers) of the rule (namespace `Pta.OrdL`).

  The layer mapping enters the lenient detector only through `LayerMap.layerOf` and through the list of layer names.
  `layerOf` is invariant under permutations of the mapping exactly when no identifier is listed under two different
  layer names (`LayerMap.consistent`); otherwise the LAST listing layer would win. Since the repair of
  `LayerRuleMatcher._update_layer_mapping` the matcher raises `LayerMismatch` on an inconsistent mapping (for every
  definition order, `consistent_perm`), so the verdict class no longer depends on the order of the layers at all.
-/
import Bridge.Abs
import Bridge.OrderDefs
import PtaProofs.Lemmas.OrderCongr
import PtaProofs.Lemmas.OrderScan
import PtaProofs.Lemmas.LayerRuleSim
import PtaProofs.Lemmas.LayerConsistent
namespace Pta.OrdL
open Pta PtaSpec Pta.Ord Pta.OrdS

/-! ### generic -/

theorem ERel.bind {α β α' β' : Type} {R : α → β → Prop} {S : α' → β' → Prop}
    {x : Except ErrKind α} {y : Except ErrKind β} {k : α → Except ErrKind α'} {k' : β → Except ErrKind β'}
    (h : ERel R x y) (hk : ∀ a b, R a b → ERel S (k a) (k' b)) : ERel S (x >>= k) (y >>= k') := by
  cases x <;> cases y
  · exact h
  · exact h.elim
  · exact h.elim
  · exact hk _ _ h

theorem ERel.pure {α β : Type} {R : α → β → Prop} {a : α} {b : β} (h : R a b) :
    ERel R (pure a : Except ErrKind α) (pure b : Except ErrKind β) := h

theorem ERel.refl_eq {α : Type} (x : Except ErrKind α) : ERel (fun a b => a = b) x x := by
  cases x <;> simp [ERel]

theorem LRel.of_SM {α : Type} {l l' : List α} (h : SM l l') : LRel (fun a b => a = b) l l' :=
  ⟨fun y hy => ⟨y, (h y).1 hy, rfl⟩, fun y hy => ⟨y, (h y).2 hy, rfl⟩⟩

theorem LRel.to_SM {α : Type} {l l' : List α} (h : LRel (fun a b => a = b) l l') : SM l l' := by
  intro x
  constructor
  · intro hx; obtain ⟨y, hy, rfl⟩ := h.1 x hx; exact hy
  · intro hx; obtain ⟨y, hy, rfl⟩ := h.2 x hx; exact hy

theorem LRel.nil_iff {α β : Type} {R : α → β → Prop} {l : List α} {l' : List β} (h : LRel R l l') : l = [] ↔ l' = [] := by
  constructor
  · intro e; subst e
    apply List.eq_nil_iff_forall_not_mem.2
    intro x hx; obtain ⟨y, hy, -⟩ := h.2 x hx; cases hy
  · intro e; subst e
    apply List.eq_nil_iff_forall_not_mem.2
    intro x hx; obtain ⟨y, hy, -⟩ := h.1 x hx; cases hy

/-- `mapM` over related lists with related functions and a uniform error -/
theorem mapM_rel {α α' β β' : Type} (f : α → Except ErrKind β) (f' : α' → Except ErrKind β') (Q : α → α' → Prop)
    (R : β → β' → Prop) (e0 : ErrKind) (l : List α) (l' : List α') (hl : LRel Q l l')
    (hf : ∀ x ∈ l, ∀ x' ∈ l', Q x x' → ERel R (f x) (f' x'))
    (he : ∀ x ∈ l, ∀ e, f x = .error e → e = e0) (he' : ∀ x ∈ l', ∀ e, f' x = .error e → e = e0) :
    ERel (LRel R) (l.mapM f) (l'.mapM f') := by
  obtain ⟨c1, c2⟩ := mapM_char f e0 l he
  obtain ⟨c1', c2'⟩ := mapM_char f' e0 l' he'
  by_cases hx : ∃ x ∈ l, ∃ e, f x = .error e
  · rw [c1 hx]
    obtain ⟨x, hxl, e, hxe⟩ := hx
    obtain ⟨x', hx', hq⟩ := hl.1 x hxl
    have := hf x hxl x' hx' hq
    rw [hxe] at this
    rw [c1' ⟨x', hx', e, this.error_left⟩]
    rfl
  · have hok : ∀ x ∈ l, ∃ y, f x = .ok y := by
      intro x hxl
      cases hfx : f x with
      | error e => exact absurd ⟨x, hxl, e, hfx⟩ hx
      | ok y => exact ⟨y, rfl⟩
    have hok' : ∀ x ∈ l', ∃ y, f' x = .ok y := by
      intro x' hxl'
      obtain ⟨x, hxl, hq⟩ := hl.2 x' hxl'
      obtain ⟨y, hy⟩ := hok x hxl
      have := hf x hxl x' hxl' hq
      rw [hy] at this
      obtain ⟨b, hb, _⟩ := this.ok_left
      exact ⟨b, hb⟩
    obtain ⟨r, hr, h1, h2⟩ := c2 hok
    obtain ⟨r', hr', h1', h2'⟩ := c2' hok'
    rw [hr, hr']
    constructor
    · intro y hy
      obtain ⟨x, hxl, hxy⟩ := h1 y hy
      obtain ⟨x', hx', hq⟩ := hl.1 x hxl
      obtain ⟨y', hy', hxy'⟩ := h2' x' hx'
      have := hf x hxl x' hx' hq
      rw [hxy, hxy'] at this
      exact ⟨y', hy', this⟩
    · intro y' hy'
      obtain ⟨x', hxl', hxy'⟩ := h1' y' hy'
      obtain ⟨x, hx, hq⟩ := hl.2 x' hxl'
      obtain ⟨y, hy, hxy⟩ := h2 x hx
      have := hf x hx x' hxl' hq
      rw [hxy, hxy'] at this
      exact ⟨y, hy, this⟩

theorem filterMapM_eq {α β : Type} (f : α → Except ErrKind (Option β)) (l : List α) :
    l.filterMapM f = (l.mapM f).map (List.filterMap id) := by
  induction l with
  | nil => simp [List.mapM_nil, pure, Except.pure, Except.map]
  | cons a l ih =>
    rw [List.filterMapM_cons, List.mapM_cons, ih]
    cases f a with
    | error e => simp [bind, Except.bind, Except.map]
    | ok o =>
      cases l.mapM f with
      | error e => cases o <;> simp [bind, Except.bind, Except.map]
      | ok r => cases o <;> simp [bind, Except.bind, Except.map, pure, Except.pure]

theorem filterMap_id_rel {β β' : Type} {R : β → β' → Prop} {r : List (Option β)} {r' : List (Option β')}
    (h : LRel (ORel R) r r') : LRel R (r.filterMap id) (r'.filterMap id) := by
  constructor
  · intro y hy
    simp only [List.mem_filterMap, id] at hy
    obtain ⟨o, ho, rfl⟩ := hy
    obtain ⟨o', ho', hr⟩ := h.1 _ ho
    cases o' with
    | none => simp [ORel] at hr
    | some y' => exact ⟨y', by simp only [List.mem_filterMap, id]; exact ⟨_, ho', rfl⟩, hr⟩
  · intro y' hy'
    simp only [List.mem_filterMap, id] at hy'
    obtain ⟨o', ho', rfl⟩ := hy'
    obtain ⟨o, ho, hr⟩ := h.2 _ ho'
    cases o with
    | none => simp [ORel] at hr
    | some y => exact ⟨y, by simp only [List.mem_filterMap, id]; exact ⟨_, ho, rfl⟩, hr⟩

/-! ### `layerOf` under permutations of a consistent mapping -/

theorem layerOfListed_perm {m m' : LayerMap} (hp : m.Perm m') (hc : ConsP m) (id : Str) :
    m.layerOfListed id = m'.layerOfListed id := by
  unfold LayerMap.layerOfListed
  have hf := hp.filter (fun l => l.2.contains id)
  have hn : ∀ x ∈ m.filter (fun l => l.2.contains id), ∀ y ∈ m.filter (fun l => l.2.contains id), x.1 = y.1 := by
    intro x hx y hy
    simp only [List.mem_filter, List.contains_iff_mem] at hx hy
    exact hc x hx.1 y hy.1 id hx.2 hy.2
  generalize m.filter (fun l => l.2.contains id) = F at hf hn
  generalize m'.filter (fun l => l.2.contains id) = F' at hf
  cases h1 : F.getLast? with
  | none =>
    rw [List.getLast?_eq_none_iff] at h1
    subst h1
    rw [← hf.nil_eq]
    rfl
  | some x =>
    cases h2 : F'.getLast? with
    | none =>
      rw [List.getLast?_eq_none_iff] at h2
      subst h2
      rw [hf.eq_nil] at h1
      cases h1
    | some y =>
      simp only [Option.map_some, Option.some.injEq]
      exact hn x (List.mem_of_getLast? h1) y (hf.mem_iff.2 (List.mem_of_getLast? h2))

theorem dedup_nodup {α : Type} [DecidableEq α] (l : List α) : (dedup l).Nodup := by
  induction l with
  | nil => simp [dedup]
  | cons x xs ih =>
    simp only [dedup]
    split
    · exact ih
    · rename_i h; exact List.nodup_cons.2 ⟨h, ih⟩

theorem dedup_perm {α : Type} [DecidableEq α] {l l' : List α} (h : l.Perm l') : (dedup l).Perm (dedup l') := by
  rw [List.perm_ext_iff_of_nodup (dedup_nodup l) (dedup_nodup l')]
  intro a
  rw [Pta.mem_dedup, Pta.mem_dedup]
  exact h.mem_iff

theorem listed_perm {m m' : LayerMap} (hp : m.Perm m') : m.listed.Perm m'.listed := by
  unfold LayerMap.listed
  exact hp.flatMap_right _

theorem layerOf_perm {m m' : LayerMap} (hp : m.Perm m') (hc : ConsP m) (name : Str) :
    m.layerOf name = m'.layerOf name := by
  unfold LayerMap.layerOf
  rw [layerOfListed_perm hp hc name]
  cases m'.layerOfListed name with
  | some l => rfl
  | none =>
    simp only
    have hfun : m.layerOfListed = m'.layerOfListed := funext (layerOfListed_perm hp hc)
    rw [hfun]
    have hperm : (dedup (List.filterMap m'.layerOfListed (List.filter (fun c => isStrictSub c name) m.listed))).Perm
        (dedup (List.filterMap m'.layerOfListed (List.filter (fun c => isStrictSub c name) m'.listed))) :=
      dedup_perm ((((listed_perm hp).filter _).filterMap _))
    generalize dedup (List.filterMap m'.layerOfListed (List.filter (fun c => isStrictSub c name) m.listed)) = d at hperm
    generalize dedup (List.filterMap m'.layerOfListed (List.filter (fun c => isStrictSub c name) m'.listed)) = d' at hperm
    cases d with
    | nil => have := hperm.nil_eq; subst this; rfl
    | cons x t =>
      cases t with
      | nil => have := List.singleton_perm.1 hperm; subst this; rfl
      | cons y r =>
        cases d' with
        | nil => exact absurd hperm.eq_nil (by simp)
        | cons x' t' =>
          cases t' with
          | nil => exact absurd (List.perm_singleton.1 hperm) (by simp)
          | cons y' r' => rfl

theorem layerOf_err (m : LayerMap) (x : Str) (e : ErrKind) (h : m.layerOf x = .error e) : e = .layerMismatch := by
  unfold LayerMap.layerOf at h
  split at h
  · cases h
  · simp only at h
    split at h
    · cases h
    · cases h
    · cases h; rfl

/-! ### errors of one kind only -/

def ErrOnly {α : Type} (e0 : ErrKind) (x : Except ErrKind α) : Prop := ∀ e, x = .error e → e = e0

theorem ErrOnly.bind {α β : Type} {e0 : ErrKind} {x : Except ErrKind α} {k : α → Except ErrKind β}
    (hx : ErrOnly e0 x) (hk : ∀ a, ErrOnly e0 (k a)) : ErrOnly e0 (x >>= k) := by
  intro e h
  cases x with
  | error e' =>
    have h' : (Except.error e' : Except ErrKind β) = .error e := h
    cases h'
    exact hx _ rfl
  | ok a => exact hk a e h

theorem ErrOnly.pure {α : Type} {e0 : ErrKind} (a : α) : ErrOnly e0 (pure a : Except ErrKind α) := by
  intro e h; cases h

theorem ErrOnly.mapM {α β : Type} {e0 : ErrKind} {f : α → Except ErrKind β} {l : List α}
    (h : ∀ x ∈ l, ErrOnly e0 (f x)) : ErrOnly e0 (l.mapM f) :=
  Pta.Hist.mapM_error_only f e0 l h

theorem layerOf_errOnly (m : LayerMap) (x : Str) : ErrOnly .layerMismatch (m.layerOf x) := layerOf_err m x

theorem ERel.refl_of {α : Type} {R : α → α → Prop} (hR : ∀ a, R a a) (x : Except ErrKind α) : ERel R x x := by
  cases x with
  | error e => rfl
  | ok a => exact hR a

theorem ERel.trivial {α β : Type} {R : α → β → Prop} {x : Except ErrKind α} {y : Except ErrKind β} (h : ERel R x y) :
    ERel (fun _ _ => True) x y := h.mono (fun _ _ _ => True.intro)

/-! ### relations -/

/-- same key, same set of found dependencies -/
def KR {κ : Type} (kd kd' : κ × List (Str × Str)) : Prop := kd.1 = kd'.1 ∧ SM kd.2 kd'.2

theorem KR.refl {κ : Type} (kd : κ × List (Str × Str)) : KR kd kd := ⟨rfl, SM.refl _⟩

/-- what the detector sees of a layer mapping -/
def MapRel (m m' : LayerMap) : Prop := (∀ x, m.layerOf x = m'.layerOf x) ∧ SM (m.map (·.1)) (m'.map (·.1))

theorem MapRel.refl (m : LayerMap) : MapRel m m := ⟨fun _ => rfl, SM.refl _⟩

theorem MapRel.of_perm {m m' : LayerMap} (hp : m.Perm m') (hc : ConsP m) : MapRel m m' :=
  ⟨layerOf_perm hp hc, SM.of_perm (hp.map _)⟩

/-! ### the lenient detector -/

theorem realised_rel (ir : Bool) {κ : Type} {d d' : List (κ × List (Str × Str))} (h : LRel KR d d') :
    SM (realised ir d) (realised ir d') := by
  intro x
  simp only [realised, List.mem_flatMap, List.mem_map]
  constructor
  · rintro ⟨kd, hkd, p, hp, rfl⟩
    obtain ⟨kd', hkd', hr⟩ := h.1 kd hkd
    exact ⟨kd', hkd', p, (hr.2 p).1 hp, rfl⟩
  · rintro ⟨kd', hkd', p, hp, rfl⟩
    obtain ⟨kd, hkd, hr⟩ := h.2 kd' hkd'
    exact ⟨kd, hkd, p, (hr.2 p).2 hp, rfl⟩

theorem dropSameLayer_congr {m m' : LayerMap} (hm : MapRel m m') {ds ds' : List Dep} (h : SM ds ds') :
    ERel SM (dropSameLayer m ds) (dropSameLayer m' ds') := by
  unfold dropSameLayer
  rw [filterMapM_eq, filterMapM_eq]
  refine ERel.map_rel _ _ (mapM_rel _ _ (fun a b => a = b) (ORel fun a b => a = b) .layerMismatch ds ds' (LRel.of_SM h)
    ?_ ?_ ?_) (fun a b hab => LRel.to_SM (filterMap_id_rel hab))
  · intro x _ x' _ hxx
    subst hxx
    simp only [← hm.1]
    exact ERel.refl_of (fun o => by cases o <;> simp [ORel]) _
  · intro x _
    exact ErrOnly.bind (layerOf_errOnly _ _) fun _ => ErrOnly.bind (layerOf_errOnly _ _) fun _ => ErrOnly.pure _
  · intro x _
    exact ErrOnly.bind (layerOf_errOnly _ _) fun _ => ErrOnly.bind (layerOf_errOnly _ _) fun _ => ErrOnly.pure _

theorem realisedL_congr {m m' : LayerMap} (hm : MapRel m m') (ir : Bool) {κ : Type} {d d' : List (κ × List (Str × Str))}
    (h : LRel KR d d') : ERel SM (realisedL m ir d) (realisedL m' ir d') :=
  dropSameLayer_congr hm (realised_rel ir h)

/-- the contribution of one layer name to `abstractWithoutAny` -/
def FL (ir : Bool) (tg : List (Option Str × (Dep × List (Str × Str)))) (n : Str) : List Dep :=
  let forLayer := (tg.filter fun t => t.1 == some n).map (·.2)
  if forLayer.isEmpty then []
  else if forLayer.any fun kd => !kd.2.isEmpty then []
  else forLayer.map fun kd => userOrder ir kd.1

theorem mem_FL (ir : Bool) (tg : List (Option Str × (Dep × List (Str × Str)))) (n : Str) (x : Dep) :
    x ∈ FL ir tg n ↔ (∀ t ∈ tg, t.1 = some n → t.2.2 = []) ∧ ∃ t ∈ tg, t.1 = some n ∧ x = userOrder ir t.2.1 := by
  unfold FL
  simp only
  split
  · rename_i h
    simp only [List.isEmpty_iff, List.map_eq_nil_iff, List.filter_eq_nil_iff, beq_iff_eq] at h
    constructor
    · intro hx; cases hx
    · rintro ⟨-, t, ht, htn, -⟩; exact absurd htn (h t ht)
  · split
    · rename_i h
      simp only [List.any_eq_true, List.mem_map, List.mem_filter, beq_iff_eq, Bool.not_eq_true',
        List.isEmpty_eq_false_iff] at h
      obtain ⟨kd, ⟨t, ⟨ht, htn⟩, rfl⟩, hne⟩ := h
      constructor
      · intro hx; cases hx
      · rintro ⟨hall, -⟩; exact absurd (hall t ht htn) hne
    · rename_i h
      simp only [List.any_eq_true, List.mem_map, List.mem_filter, beq_iff_eq, Bool.not_eq_true',
        List.isEmpty_eq_false_iff, not_exists, not_and] at h
      simp only [List.mem_map, List.mem_filter, beq_iff_eq]
      constructor
      · rintro ⟨kd, ⟨t, ⟨ht, htn⟩, rfl⟩, rfl⟩
        refine ⟨fun t' ht' htn' => ?_, t, ht, htn, rfl⟩
        exact Classical.not_not.1 (h t'.2 ⟨t', ⟨ht', htn'⟩, rfl⟩)
      · rintro ⟨-, t, ht, htn, rfl⟩
        exact ⟨t.2, ⟨t, ⟨ht, htn⟩, rfl⟩, rfl⟩

/-- tagged dependencies: same tag, related entry -/
def TR (t t' : Option Str × (Dep × List (Str × Str))) : Prop := t.1 = t'.1 ∧ KR t.2 t'.2

theorem FL_rel (ir : Bool) {tg tg' : List (Option Str × (Dep × List (Str × Str)))} (h : LRel TR tg tg') (n : Str) :
    SM (FL ir tg n) (FL ir tg' n) := by
  intro x
  rw [mem_FL, mem_FL]
  constructor
  · rintro ⟨h1, t, ht, htn, rfl⟩
    refine ⟨fun t' ht' htn' => ?_, ?_⟩
    · obtain ⟨t0, ht0, hr⟩ := h.2 t' ht'
      exact (SM.nil_iff hr.2.2).1 (h1 t0 ht0 (hr.1.trans htn'))
    · obtain ⟨t', ht', hr⟩ := h.1 t ht
      exact ⟨t', ht', hr.1.symm.trans htn, by rw [hr.2.1]⟩
  · rintro ⟨h1, t', ht', htn', rfl⟩
    refine ⟨fun t ht htn => ?_, ?_⟩
    · obtain ⟨t0, ht0, hr⟩ := h.1 t ht
      exact (SM.nil_iff hr.2.2).2 (h1 t0 ht0 (hr.1.symm.trans htn))
    · obtain ⟨t, ht, hr⟩ := h.2 t' ht'
      exact ⟨t, ht, hr.1.trans htn', by rw [hr.2.1]⟩

theorem abstractWithoutAny_eq (m : LayerMap) (ir : Bool) (deps : ExplDeps) :
    abstractWithoutAny m ir deps =
      (deps.mapM fun kd => do
        let l ← m.layerOf (if ir then kd.1.2 else kd.1.1).id
        pure (l, kd)) >>= fun tagged => pure ((m.map (·.1)).flatMap (FL ir tagged)) := by
  unfold abstractWithoutAny
  simp only [List.flatMap_map]
  rfl

theorem abstractWithoutAny_congr {m m' : LayerMap} (hm : MapRel m m') (ir : Bool) {d d' : ExplDeps}
    (h : LRel KR d d') : ERel SM (abstractWithoutAny m ir d) (abstractWithoutAny m' ir d') := by
  rw [abstractWithoutAny_eq, abstractWithoutAny_eq]
  refine ERel.bind (R := LRel TR) (mapM_rel _ _ KR TR .layerMismatch d d' h ?_ ?_ ?_) ?_
  · intro kd _ kd' _ hk
    simp only [← hm.1, hk.1]
    refine ERel.bind (ERel.refl_eq _) ?_
    intro a b hab
    subst hab
    exact ⟨rfl, hk⟩
  · intro x _; exact ErrOnly.bind (layerOf_errOnly _ _) fun _ => ErrOnly.pure _
  · intro x _; exact ErrOnly.bind (layerOf_errOnly _ _) fun _ => ErrOnly.pure _
  · intro tg tg' htg
    show SM _ _
    intro x
    simp only [List.mem_flatMap]
    constructor
    · rintro ⟨n, hn, hx⟩; exact ⟨n, (hm.2 n).1 hn, (FL_rel ir htg n x).1 hx⟩
    · rintro ⟨n, hn, hx⟩; exact ⟨n, (hm.2 n).2 hn, (FL_rel ir htg n x).2 hx⟩

theorem anyMissing_congr {m m' : LayerMap} (hm : MapRel m m') (ir : Bool) {d d' : OtherDeps} (h : LRel KR d d')
    {objs objs' : List Mod} (ho : SM objs objs') :
    ERel SM (anyMissing m ir d objs) (anyMissing m' ir d' objs') := by
  unfold anyMissing
  refine ERel.bind (realisedL_congr hm ir h) ?_
  intro r r' hr
  rw [isEmpty_congr (SM.nil_iff hr)]
  split
  · exact SM.refl _
  · show SM _ _
    intro x
    simp only [List.mem_flatMap, List.mem_map]
    constructor
    · rintro ⟨kd, hkd, o, ho', rfl⟩
      obtain ⟨kd', hkd', hk⟩ := h.1 kd hkd
      exact ⟨kd', hkd', o, (ho o).1 ho', by rw [hk.1]⟩
    · rintro ⟨kd', hkd', o, ho', rfl⟩
      obtain ⟨kd, hkd, hk⟩ := h.2 kd' hkd'
      exact ⟨kd, hkd, o, (ho o).2 ho', by rw [hk.1]⟩

/-- component-wise same members -/
def VRel (v v' : Violations) : Prop :=
  SM v.should v'.should ∧ SM v.shouldOnlyForbidden v'.shouldOnlyForbidden ∧ SM v.shouldOnlyNoImport v'.shouldOnlyNoImport ∧
  SM v.shouldNot v'.shouldNot ∧ SM v.shouldExcept v'.shouldExcept ∧
  SM v.shouldOnlyExceptForbidden v'.shouldOnlyExceptForbidden ∧ SM v.shouldOnlyExceptNoImport v'.shouldOnlyExceptNoImport ∧
  SM v.shouldNotExcept v'.shouldNotExcept

theorem ite_rel (c : Bool) {x x' : Except ErrKind (List Dep)} (h : ERel SM x x') :
    ERel SM (if c then x else pure []) (if c then x' else pure []) := by
  cases c
  · exact SM.refl _
  · exact h

theorem detectL_congr {m m' : LayerMap} (hm : MapRel m m') (b : Behavior) (ir : Bool) {expl expl' : Option ExplDeps}
    {other other' : Option OtherDeps} {objs objs' : List Mod} (he : ORel (LRel KR) expl expl')
    (ho : ORel (LRel KR) other other') (hobj : SM objs objs') :
    ERel VRel (detectL m b ir expl other objs) (detectL m' b ir expl' other' objs') := by
  unfold detectL
  cases expl <;> cases expl' <;> cases other <;> cases other' <;> simp only [ORel] at he ho <;> dsimp only
  all_goals
    repeat (first
      | refine ERel.bind (ite_rel _ (realisedL_congr hm ir (by assumption))) (fun _ _ _ => ?_)
      | refine ERel.bind (ite_rel _ (abstractWithoutAny_congr hm ir (by assumption))) (fun _ _ _ => ?_)
      | refine ERel.bind (ite_rel _ (anyMissing_congr hm ir (by assumption) hobj)) (fun _ _ _ => ?_)
      | refine ERel.bind (ERel.pure (SM.refl ([] : List Dep))) (fun _ _ _ => ?_))
    exact ⟨by assumption, by assumption, by assumption, by assumption, by assumption, by assumption, by assumption,
      by assumption⟩

theorem any_congr {v v' : Violations} (h : VRel v v') : v.any = v'.any := by
  obtain ⟨h1, h2, h3, h4, h5, h6, h7, h8⟩ := h
  unfold Violations.any
  rw [isEmpty_congr (SM.nil_iff h1), isEmpty_congr (SM.nil_iff h2), isEmpty_congr (SM.nil_iff h3),
    isEmpty_congr (SM.nil_iff h4), isEmpty_congr (SM.nil_iff h5), isEmpty_congr (SM.nil_iff h6),
    isEmpty_congr (SM.nil_iff h7), isEmpty_congr (SM.nil_iff h8)]

/-! ### the report: only whether it can be produced matters for the verdict class -/

theorem impItemsL_congr {m m' : LayerMap} (hm : MapRel m m') (ir : Bool) {ds ds' : List Dep} (h : SM ds ds') :
    ERel (fun _ _ => True) (impItemsL m ir ds) (impItemsL m' ir ds') := by
  unfold impItemsL
  refine ERel.trivial (mapM_rel _ _ (fun a b => a = b) (fun a b => a = b) .layerMismatch ds ds' (LRel.of_SM h) ?_ ?_ ?_)
  · intro x _ x' _ hxx
    subst hxx
    simp only [← hm.1]
    exact ERel.refl_eq _
  · intro x _
    exact ErrOnly.bind (layerOf_errOnly _ _) fun _ => ErrOnly.bind (layerOf_errOnly _ _) fun _ => ErrOnly.pure _
  · intro x _
    exact ErrOnly.bind (layerOf_errOnly _ _) fun _ => ErrOnly.bind (layerOf_errOnly _ _) fun _ => ErrOnly.pure _

theorem missItemsL_congr {m m' : LayerMap} (hm : MapRel m m') (any ir : Bool) {ds ds' : List Dep} (h : SM ds ds') :
    ERel (fun _ _ => True) (missItemsL m any ir ds) (missItemsL m' any ir ds') := by
  unfold missItemsL
  refine ERel.bind (mapM_rel _ _ (fun a b => a = b) (fun a b => a = b) .layerMismatch ds ds' (LRel.of_SM h) ?_ ?_ ?_)
    (fun _ _ _ => True.intro)
  · intro x _ x' _ hxx
    subst hxx
    simp only [← hm.1]
    exact ERel.refl_eq _
  · intro x _
    exact ErrOnly.bind (layerOf_errOnly _ _) fun _ => ErrOnly.bind (layerOf_errOnly _ _) fun _ => ErrOnly.pure _
  · intro x _
    exact ErrOnly.bind (layerOf_errOnly _ _) fun _ => ErrOnly.bind (layerOf_errOnly _ _) fun _ => ErrOnly.pure _

theorem reportItemsL_congr {m m' : LayerMap} (hm : MapRel m m') (ir : Bool) {v v' : Violations} (h : VRel v v') :
    ERel (fun _ _ => True) (reportItemsL m ir v) (reportItemsL m' ir v') := by
  obtain ⟨h1, h2, h3, h4, h5, h6, h7, h8⟩ := h
  unfold reportItemsL
  refine ERel.bind (missItemsL_congr hm false ir h1) fun _ _ _ => ?_
  refine ERel.bind (impItemsL_congr hm ir h2) fun _ _ _ => ?_
  refine ERel.bind (missItemsL_congr hm false ir h3) fun _ _ _ => ?_
  refine ERel.bind (impItemsL_congr hm ir h4) fun _ _ _ => ?_
  refine ERel.bind (missItemsL_congr hm true ir h5) fun _ _ _ => ?_
  refine ERel.bind (impItemsL_congr hm ir h6) fun _ _ _ => ?_
  refine ERel.bind (missItemsL_congr hm true ir h7) fun _ _ _ => ?_
  refine ERel.bind (impItemsL_congr hm ir h8) fun _ _ _ => ?_
  exact True.intro

/-! ### the queries, with the found dependencies compared as sets -/

theorem equivRefl (g : PGraph Str) : GraphEquiv g g :=
  ⟨fun _ => Iff.rfl, fun _ _ => Iff.rfl, fun _ _ => Iff.rfl, fun _ _ => Iff.rfl⟩

theorem getDependencies_rel (g : PGraph Str) (A A' B B' : List Filter) (hA : SM A A') (hB : SM B B') :
    ERel (LRel KR) (getDependencies g A B) (getDependencies g A' B') := by
  unfold getDependencies
  apply mapM_rel _ _ (fun a b => a = b) KR .lookupError
  · apply LRel.of_SM
    rintro ⟨f, o⟩
    simp only [List.mem_flatMap, List.mem_map, Pta.mem_dedup, Prod.mk.injEq]
    constructor
    · rintro ⟨f', hf, o', ho, rfl, rfl⟩; exact ⟨f', (hA _).1 hf, o', (hB _).1 ho, rfl, rfl⟩
    · rintro ⟨f', hf, o', ho, rfl, rfl⟩; exact ⟨f', (hA _).2 hf, o', (hB _).2 ho, rfl, rfl⟩
  · intro fo _ fo' _ h
    subst h
    exact ERel.refl_of KR.refl _
  · intro fo _ e he
    exact Pta.Hist.depBetween_err _ _ _ _ (Pta.Hist.bind_pure_err _ _ _ he)
  · intro fo _ e he
    exact Pta.Hist.depBetween_err _ _ _ _ (Pta.Hist.bind_pure_err _ _ _ he)

theorem getOtherFrom_rel (g : PGraph Str) (A A' B B' : List Filter) (hA : SM A A') (hB : SM B B') :
    ERel (LRel KR) (getOtherFrom g A B) (getOtherFrom g A' B') := by
  unfold getOtherFrom
  apply mapM_rel _ _ (fun a b => a = b) KR .lookupError
  · exact LRel.of_SM hA.dedup
  · intro f _ f' _ h
    subst h
    exact (otherFrom_congr (equivRefl g) f _ _ hB.dedup).bind_pure _ _ (fun a b hab => ⟨rfl, hab⟩)
  · intro f _ e he
    exact Pta.Hist.otherFrom_err _ _ _ _ (Pta.Hist.bind_pure_err _ _ _ he)
  · intro f _ e he
    exact Pta.Hist.otherFrom_err _ _ _ _ (Pta.Hist.bind_pure_err _ _ _ he)

theorem getOtherTo_rel (g : PGraph Str) (A A' B B' : List Filter) (hA : SM A A') (hB : SM B B') :
    ERel (LRel KR) (getOtherTo g A B) (getOtherTo g A' B') := by
  unfold getOtherTo
  apply mapM_rel _ _ (fun a b => a = b) KR .lookupError
  · exact LRel.of_SM hB.dedup
  · intro o _ o' _ h
    subst h
    exact (otherTo_congr (equivRefl g) _ _ o hA.dedup).bind_pure _ _ (fun a b hab => ⟨rfl, hab⟩)
  · intro o _ e he
    exact Pta.Hist.otherTo_err _ _ _ _ (Pta.Hist.bind_pure_err _ _ _ he)
  · intro o _ e he
    exact Pta.Hist.otherTo_err _ _ _ _ (Pta.Hist.bind_pure_err _ _ _ he)

def QRel' (p p' : Option ExplDeps × Option OtherDeps) : Prop :=
  ORel (LRel KR) p.1 p'.1 ∧ ORel (LRel KR) p.2 p'.2

theorem runQ_aux' (c1 c2 : Bool) (X X' : Except ErrKind ExplDeps) (Y Y' : Except ErrKind OtherDeps)
    (e1 : ERel (LRel KR) X X') (e2 : ERel (LRel KR) Y Y') :
    ERel QRel'
      (do let expl ← if c1 then X.map some else pure none
          let other ← if c2 then Y.map some else pure none
          pure (expl, other))
      (do let expl ← if c1 then X'.map some else pure none
          let other ← if c2 then Y'.map some else pure none
          pure (expl, other)) := by
  cases c1 <;> cases c2 <;> cases X <;> cases X' <;> cases Y <;> cases Y' <;>
    simp_all [ERel, QRel', ORel, bind, Except.bind, pure, Except.pure, Except.map]

theorem runQueries_rel (g : PGraph Str) (b : Behavior) (ir : Bool) (S S' O O' : List Filter)
    (hS : SM S S') (hO : SM O O') :
    ERel QRel' (runQueries g b ir S O) (runQueries g b ir S' O') := by
  unfold runQueries
  cases ir
  · exact runQ_aux' _ _ _ _ _ _ (getDependencies_rel g _ _ _ _ hO hS) (getOtherTo_rel g _ _ _ _ hO hS)
  · exact runQ_aux' _ _ _ _ _ _ (getDependencies_rel g _ _ _ _ hS hO) (getOtherFrom_rel g _ _ _ _ hS hO)

/-! ### `matchLayerRule` -/

/-- the regexes the rule converts -/
def convOf (ss os : List Filter) : List Str := ((ss ++ os).filter (·.isRegex)).map (·.id)

theorem SM.map {α β : Type} {l l' : List α} (h : SM l l') (f : α → β) : SM (l.map f) (l'.map f) := by
  intro x
  simp only [List.mem_map]
  constructor
  · rintro ⟨a, ha, rfl⟩; exact ⟨a, (h a).1 ha, rfl⟩
  · rintro ⟨a, ha, rfl⟩; exact ⟨a, (h a).2 ha, rfl⟩

theorem convOf_congr {ss ss' os os' : List Filter} (hs : SM ss ss') (ho : SM os os') :
    SM (convOf ss os) (convOf ss' os') :=
  SM.map (SM.filter (SM.append hs ho) _) _

theorem updateLayerMap_congr (mt : Str → Str → Bool) (mods : List Str) (a : LArch) {c c' : List Str} (h : SM c c') :
    updateLayerMap mt mods a c = updateLayerMap mt mods a c' := by
  unfold updateLayerMap
  have hc : ∀ x, c.contains x = c'.contains x := contains_congr h
  simp only [hc]

theorem matchLayerRule_cls_congr (mt : Str → Str → Bool) (g : PGraph Str) (a a' : LArch) (b : Behavior) (ir : Bool)
    (ss ss' os os' : List Filter) (hs : SM ss ss') (ho : SM os os')
    (hcc : (updateLayerMap mt g.nodes a (convOf ss os)).consistent = (updateLayerMap mt g.nodes a' (convOf ss os)).consistent)
    (hm : (updateLayerMap mt g.nodes a (convOf ss os)).consistent = true →
      MapRel (updateLayerMap mt g.nodes a (convOf ss os)) (updateLayerMap mt g.nodes a' (convOf ss os))) :
    (matchLayerRule mt g a b ir ss os).cls = (matchLayerRule mt g a' b ir ss' os').cls := by
  unfold matchLayerRule
  have c1 := convertFilters_congr mt g.nodes g.nodes ss ss' (SM.refl _) hs
  have c2 := convertFilters_congr mt g.nodes g.nodes os os' (SM.refl _) ho
  cases hS : convertFilters mt g.nodes ss with
  | error k => rw [hS] at c1; rw [c1.error_left]
  | ok S =>
    rw [hS] at c1
    obtain ⟨S', hS', hSS⟩ := c1.ok_left
    rw [hS']
    cases hO : convertFilters mt g.nodes os with
    | error k => rw [hO] at c2; rw [c2.error_left]
    | ok O =>
      rw [hO] at c2
      obtain ⟨O', hO', hOO⟩ := c2.ok_left
      rw [hO']
      simp only []
      have c3 := runQueries_rel g b ir S S' O O' hSS hOO
      cases hq : runQueries g b ir S O with
      | error k => rw [hq] at c3; rw [c3.error_left]
      | ok eo =>
        rw [hq] at c3
        obtain ⟨eo', hq', hr⟩ := c3.ok_left
        rw [hq']
        obtain ⟨expl, other⟩ := eo
        obtain ⟨expl', other'⟩ := eo'
        simp only
        have e1 : List.map (fun x : Filter => x.id) (List.filter (fun x => x.isRegex) (ss ++ os)) = convOf ss os := rfl
        have e2 : List.map (fun x : Filter => x.id) (List.filter (fun x => x.isRegex) (ss' ++ os')) = convOf ss' os' := rfl
        rw [e1, e2, updateLayerMap_congr mt g.nodes a' (fun x => ((convOf_congr hs ho) x).symm)]
        generalize updateLayerMap mt g.nodes a (convOf ss os) = m at hm hcc ⊢
        generalize updateLayerMap mt g.nodes a' (convOf ss os) = m' at hm hcc ⊢
        rw [← hcc]
        cases hcons : m.consistent with
        | false => rfl
        | true =>
        replace hm := hm hcons
        simp only [Bool.not_true, Bool.false_eq_true, if_false]
        have hd := detectL_congr hm b ir hr.1 hr.2 (SM.map hOO Filter.toMod)
        cases hv : detectL m b ir expl other (O.map Filter.toMod) with
        | error k =>
          rw [hv] at hd
          rw [hd.error_left]
        | ok v =>
          rw [hv] at hd
          obtain ⟨v', hv', hvv⟩ := hd.ok_left
          rw [hv']
          simp only
          rw [any_congr hvv]
          split
          · have hrep := reportItemsL_congr hm ir hvv
            cases hr1 : reportItemsL m ir v with
            | error k => rw [hr1] at hrep; rw [hrep.error_left]
            | ok it =>
              rw [hr1] at hrep
              obtain ⟨it', hit', -⟩ := hrep.ok_left
              rw [hit']
              rfl
          · rfl

/-! ### `assertAppliesLayer` -/

/-- the mapping a rule uses lists a subset of what the fully expanded mapping lists -/
theorem consP_update_of_full (mt : Str → Str → Bool) (mods : List Str) (a : LArch) (c : List Str)
    (h : ConsP (fullLayerMap mt mods a)) : ConsP (updateLayerMap mt mods a c) := by
  have hsub : ∀ l : Str × List Filter, ∀ id,
      id ∈ (l.2.flatMap fun f => match f with
        | .regex p => if c.contains p then mods.filter (mt p) else []
        | f => [f.id]) →
      id ∈ (l.2.flatMap fun f => match f with
        | .regex p => mods.filter (mt p)
        | f => [f.id]) := by
    intro l id hid
    simp only [List.mem_flatMap] at hid ⊢
    obtain ⟨f, hf, hx⟩ := hid
    refine ⟨f, hf, ?_⟩
    cases f with
    | name i => exact hx
    | parent i => exact hx
    | regex p =>
      simp only at hx ⊢
      split at hx
      · exact hx
      · cases hx
  intro l1 h1 l2 h2 id i1 i2
  unfold updateLayerMap at h1 h2
  obtain ⟨k1, hk1, rfl⟩ := List.mem_map.1 h1
  obtain ⟨k2, hk2, rfl⟩ := List.mem_map.1 h2
  have m1 : ((fun l : Str × List Filter => (l.1, l.2.flatMap fun f => match f with
      | .regex p => mods.filter (mt p)
      | f => [f.id])) k1) ∈ fullLayerMap mt mods a := List.mem_map.2 ⟨k1, hk1, rfl⟩
  have m2 : ((fun l : Str × List Filter => (l.1, l.2.flatMap fun f => match f with
      | .regex p => mods.filter (mt p)
      | f => [f.id])) k2) ∈ fullLayerMap mt mods a := List.mem_map.2 ⟨k2, hk2, rfl⟩
  have := h _ m1 _ m2 id (hsub k1 id i1) (hsub k2 id i2)
  exact this

theorem updateLayerMap_perm (mt : Str → Str → Bool) (mods : List Str) {a a' : LArch} (h : a.Perm a') (c : List Str) :
    (updateLayerMap mt mods a c).Perm (updateLayerMap mt mods a' c) := by
  unfold updateLayerMap
  exact h.map _

/-- the order in which the layers were defined does not matter: an inconsistent mapping is rejected for both orders, and
    on a consistent mapping the detector sees the same thing -/
theorem matchLayerRule_perm_layers (mt : Str → Str → Bool) (g : PGraph Str) (a a' : LArch) (b : Behavior) (ir : Bool)
    (ss os : List Filter) (hp : a.Perm a') :
    (matchLayerRule mt g a b ir ss os).cls = (matchLayerRule mt g a' b ir ss os).cls :=
  matchLayerRule_cls_congr mt g a a' b ir ss ss os os (SM.refl _) (SM.refl _)
    (consistent_perm (updateLayerMap_perm mt g.nodes hp _))
    (fun hc => MapRel.of_perm (updateLayerMap_perm mt g.nodes hp _) ((consistent_iff _).1 hc))

theorem perm_layers (mt : Str → Str → Bool) (larch larch' : LArch) (rule : Option RuleState) (g : PGraph Str)
    (hp : larch.Perm larch') :
    (assertAppliesLayer mt ⟨some larch, rule⟩ g).cls = (assertAppliesLayer mt ⟨some larch', rule⟩ g).cls := by
  unfold assertAppliesLayer
  cases rule with
  | none => rfl
  | some r =>
    simp only
    split
    · rfl
    split
    · rfl
    · split
      · rfl
      · split
        · rfl
        · generalize convertAliases r.cfg = c
          rcases c with ⟨subjects, objects, _, _, _, _, importDir, _⟩
          cases subjects <;> cases objects <;> cases importDir <;> simp only [LVerdict.cls]
          exact matchLayerRule_perm_layers mt g larch larch' _ _ _ _ hp

theorem assertAppliesLayer_mkRule (mt : Str → Str → Bool) (g : PGraph Str) (a : LArch) (s o n dir exc : Bool)
    (subs objs : List Filter) :
    assertAppliesLayer mt ⟨some a, some (mkRule s o n dir exc subs objs)⟩ g =
      if (!(s || o || n) || subs.isEmpty || objs.isEmpty) = true then .err .improperlyConfigured
      else if (Behavior.mk s o n exc).inconsistent = true then .err .ruleInconsistency
      else matchLayerRule mt g a ⟨s, o, n, exc⟩ dir subs objs := by
  unfold assertAppliesLayer mkRule
  simp only [anythingMisused, droppedAbsent, List.any_nil, convertAliases, configMissing, RuleConfig.behavior, Bool.false_and, Bool.false_eq_true,
    if_false, Bool.not_false, if_true, Option.isNone_some, Bool.or_false]

/-- the order in which the subject / object filters of a layer rule are listed does not matter -/
theorem perm_layer_rule_filters (mt : Str → Str → Bool) (g : PGraph Str) (a : LArch) (s o n dir exc : Bool)
    (subs subs' objs objs' : List Filter) (hs : subs.Perm subs') (ho : objs.Perm objs') :
    (assertAppliesLayer mt ⟨some a, some (mkRule s o n dir exc subs objs)⟩ g).cls =
      (assertAppliesLayer mt ⟨some a, some (mkRule s o n dir exc subs' objs')⟩ g).cls := by
  rw [assertAppliesLayer_mkRule, assertAppliesLayer_mkRule, perm_isEmpty hs, perm_isEmpty ho]
  split
  · rfl
  · split
    · rfl
    · exact matchLayerRule_cls_congr mt g a a _ _ _ _ _ _ (SM.of_perm hs) (SM.of_perm ho) rfl
        (fun _ => MapRel.refl _)

/-- `are_named(l₁, l₂, …)`: permuting the named layers permutes the blocks of filters that are appended to the rule -/
theorem layers_get_perm (a : LArch) {ls ls' : List Str} (h : ls.Perm ls') :
    ERel (fun ms ms' => ms.flatten.Perm ms'.flatten) (ls.mapM a.get) (ls'.mapM a.get) := by
  induction h with
  | nil => exact List.Perm.refl _
  | cons x _ ih =>
    rw [List.mapM_cons, List.mapM_cons]
    refine ERel.bind (ERel.refl_eq _) fun f f' hf => ?_
    subst hf
    refine ERel.bind ih fun r r' hr => ?_
    show (f :: r).flatten.Perm (f :: r').flatten
    simp only [List.flatten_cons]
    exact hr.append_left _
  | swap x y l =>
    rw [List.mapM_cons, List.mapM_cons, List.mapM_cons, List.mapM_cons]
    have hx := Pta.Hist.get_err a x
    have hy := Pta.Hist.get_err a y
    cases h1 : a.get x with
    | error e1 =>
      cases h2 : a.get y with
      | error e2 =>
        rw [hx e1 h1, hy e2 h2]; rfl
      | ok f2 => rfl
    | ok f1 =>
      cases h2 : a.get y with
      | error e2 => rfl
      | ok f2 =>
        cases l.mapM a.get with
        | error e => rfl
        | ok r =>
          show (f2 :: f1 :: r).flatten.Perm (f1 :: f2 :: r).flatten
          simp only [List.flatten_cons, ← List.append_assoc]
          exact List.perm_append_comm.append_right _
  | trans _ _ ih1 ih2 =>
    rename_i l1 l2 l3 _ _
    cases h1 : l1.mapM a.get <;> cases h2 : l2.mapM a.get <;> cases h3 : l3.mapM a.get <;>
      rw [h1, h2] at ih1 <;> rw [h2, h3] at ih2 <;> simp only [ERel] at ih1 ih2 ⊢
    · exact ih1.trans ih2
    · exact ih1.trans ih2

end Pta.OrdL
