/-
  PtaProofs.Lemmas.EntryPoint — the two entry points of pytestarch.py (PtaModel/Scan.lean: `dirname`, `parsePath`,
  `entryPaths`, `getEvaluableArchitecture`, `scanForModuleObjects`): `posixpath.dirname` on `dir/file`, the path entry
  point as `generateGraph` on what `entryPaths` computes, and the module-object entry point as the path entry point on
  the two directories.
-/
import PtaModel
namespace Pta.Entry

/-! ### `posixpath.dirname` -/

theorem dropWhile_ne_slash_reverse (d f : Str) (hf : '/' ∉ f) :
    ((d ++ '/' :: f).reverse.dropWhile (· != '/')) = '/' :: d.reverse := by
  rw [List.reverse_append, List.reverse_cons, List.append_assoc]
  rw [List.dropWhile_append_of_pos]
  · simp
  · intro c hc
    have : c ≠ '/' := fun e => hf (e ▸ List.mem_reverse.mp hc)
    simpa using this

/-- `dirname (dir ++ "/" ++ file)` for a directory string ending in a character other than `/` -/
theorem dirname_concat (d : Str) (c : Char) (f : Str) (hc : c ≠ '/') (hf : '/' ∉ f) :
    dirname ((d ++ [c]) ++ '/' :: f) = d ++ [c] := by
  unfold dirname
  simp only [dropWhile_ne_slash_reverse (d ++ [c]) f hf]
  have hne : (('/' :: (d ++ [c]).reverse).reverse).isEmpty = false := by simp
  have hall : (('/' :: (d ++ [c]).reverse).reverse).all (· == '/') = false := by
    rw [List.all_eq_false]
    exact ⟨c, by simp, by simpa using hc⟩
  simp only [hne, hall, Bool.not_false, Bool.and_self, if_true, List.reverse_reverse]
  rw [List.dropWhile_cons_of_pos (by simp), List.reverse_append, List.reverse_cons, List.reverse_nil, List.nil_append,
    List.singleton_append, List.dropWhile_cons_of_neg (by simpa using hc)]
  simp

theorem dirname_spec_lemma (d f : Str) (hd : d ≠ []) (hlast : d.getLast? ≠ some '/') (hf : '/' ∉ f) :
    dirname (d ++ '/' :: f) = d := by
  obtain ⟨d0, c, rfl⟩ : ∃ d0 c, d = d0 ++ [c] := by
    rcases List.eq_nil_or_concat d with h | ⟨d0, c, h⟩
    · exact absurd h hd
    · exact ⟨d0, c, by simpa using h⟩
  have hc : c ≠ '/' := by
    intro e
    apply hlast
    simp [e]
  exact dirname_concat d0 c f hc hf

/-- a name without `/` has the empty `dirname` -/
theorem dirname_no_slash (p : Str) (hp : '/' ∉ p) : dirname p = [] := by
  unfold dirname
  have : p.reverse.dropWhile (· != '/') = [] := by
    have h := List.dropWhile_append_of_pos (p := (· != '/')) (l₁ := p.reverse) (l₂ := []) (by
      intro c hc
      have : c ≠ '/' := fun e => hp (e ▸ List.mem_reverse.mp hc)
      simpa using this)
    simpa using h
  simp only [this]
  rfl

/-- a file directly below the file-system root: `dirname "/f" = "/"` -/
theorem dirname_root_file (f : Str) (hf : '/' ∉ f) : dirname ('/' :: f) = ['/'] := by
  have h := dropWhile_ne_slash_reverse [] f hf
  simp only [List.nil_append, List.reverse_nil] at h
  unfold dirname
  simp only [h]
  rfl

/-! ### the path entry point -/

theorem entryPaths_error (rootPath modulePath : Str) (k : ErrKind) (h : entryPaths rootPath modulePath = .error k) :
    k = .lookupError := by
  unfold entryPaths PPath.relativeTo at h
  by_cases hc : ((parsePath modulePath).root == (parsePath rootPath).root &&
      (parsePath rootPath).parts.isPrefixOf (parsePath modulePath).parts) = true
  · simp only [hc, if_true] at h
    cases h
  · simp only [hc] at h
    cases h
    rfl

/-- with acceptable options, paths one inside the other and `exclusions` / `regex_exclusions` not both absent, the path
    entry point is `generate_graph` on what `entryPaths` computes -/
theorem getEvaluableArchitecture_eq (mt : Str → Str → Bool) (fs : Str → List Entry) (rootPath modulePath : Str)
    (a : EntryArgs) (base root : Str) (mp : List Str) (o : ScanOptions)
    (hopt : entryOptionsError (a.flags true) = none)
    (hpaths : entryPaths rootPath modulePath = .ok (base, root, mp))
    (ho : a.scanOptions = some o) :
    getEvaluableArchitecture mt fs rootPath modulePath a =
      (generateGraph mt base root mp (fs base) o).mapError EntryErr.kind := by
  unfold getEvaluableArchitecture
  rw [hopt, hpaths, ho]
  simp only
  cases generateGraph mt base root mp (fs base) o <;> rfl

/-- the errors the option table `entryOptionsError` lists are the errors of the path entry point; the flag
    `modulePathInsideRoot` is "`module_path.relative_to(root_path)` succeeds" -/
theorem getEvaluableArchitecture_option_error (mt : Str → Str → Bool) (fs : Str → List Entry) (rootPath modulePath : Str)
    (a : EntryArgs) (k : ErrKind)
    (h : entryOptionsError (a.flags (entryPaths rootPath modulePath).toBool) = some k) :
    getEvaluableArchitecture mt fs rootPath modulePath a = .error (.kind k) := by
  unfold getEvaluableArchitecture
  cases hp : entryPaths rootPath modulePath with
  | ok r =>
    rw [hp] at h
    simp only [Except.toBool] at h
    rw [h]
  | error k' =>
    have hk' := entryPaths_error _ _ _ hp
    subst hk'
    rw [hp] at h
    simp only [Except.toBool] at h
    cases hopt : entryOptionsError (a.flags true) with
    | some k2 =>
      simp only
      -- one of the three option checks fired; it fires whatever the last flag is
      unfold entryOptionsError EntryArgs.flags at h hopt
      simp only at h hopt
      split at hopt
      · rw [if_pos (by assumption)] at h; cases h; cases hopt; rfl
      · rw [if_neg (by assumption)] at h
        split at hopt
        · rw [if_pos (by assumption)] at h; cases h; cases hopt; rfl
        · rw [if_neg (by assumption)] at h
          split at hopt
          · rw [if_pos (by assumption)] at h; cases h; cases hopt; rfl
          · simp at hopt
    | none =>
      simp only
      unfold entryOptionsError EntryArgs.flags at h hopt
      simp only at h hopt
      split at hopt
      · cases hopt
      · rw [if_neg (by assumption)] at h
        split at hopt
        · cases hopt
        · rw [if_neg (by assumption)] at h
          split at hopt
          · cases hopt
          · rw [if_neg (by assumption)] at h
            simp at h
            cases h; rfl

/-! ### the module-object entry point -/

theorem scanForModuleObjects_eq (mt : Str → Str → Bool) (fs : Str → List Entry) (rdir mdir rfile mfile : Str)
    (a : EntryArgs) (hr : rdir ≠ []) (hr' : rdir.getLast? ≠ some '/') (hm : mdir ≠ []) (hm' : mdir.getLast? ≠ some '/')
    (hrf : '/' ∉ rfile) (hmf : '/' ∉ mfile) :
    scanForModuleObjects mt fs ⟨rdir ++ '/' :: rfile⟩ ⟨mdir ++ '/' :: mfile⟩ a =
      getEvaluableArchitecture mt fs rdir mdir a := by
  unfold scanForModuleObjects
  simp only [dirname_spec_lemma rdir rfile hr hr' hrf, dirname_spec_lemma mdir mfile hm hm' hmf]

/-! ### `str(module_as_path)` is `pathStr (str root_as_path) mp` -/

theorem joinWith_concat (sep : Str) (ps : List Str) (c : Str) (h : ps ≠ []) :
    joinWith sep (ps ++ [c]) = joinWith sep ps ++ sep ++ c := by
  induction ps with
  | nil => exact absurd rfl h
  | cons x xs ih =>
    cases xs with
    | nil => simp [joinWith]
    | cons y ys =>
      have := ih (by simp)
      simp only [List.cons_append, joinWith] at this ⊢
      rw [this]
      simp [List.append_assoc]

theorem str_of_nonempty (root : Str) (ps : List Str) (h : root ++ joinWith ['/'] ps ≠ []) :
    PPath.str ⟨root, ps⟩ = root ++ joinWith ['/'] ps := by
  unfold PPath.str
  have : (root ++ joinWith ['/'] ps).isEmpty = false := by
    cases hh : root ++ joinWith ['/'] ps with
    | nil => exact absurd hh h
    | cons _ _ => rfl
  simp only [this, Bool.false_eq_true, if_false]

theorem str_append (root : Str) (ps mp : List Str) (hps : ps ≠ []) (hs : root ++ joinWith ['/'] ps ≠ []) :
    PPath.str ⟨root, ps ++ mp⟩ = pathStr (PPath.str ⟨root, ps⟩) mp := by
  induction mp generalizing ps with
  | nil => simp [pathStr]
  | cons c rest ih =>
    have hjoin : root ++ joinWith ['/'] (ps ++ [c]) = (root ++ joinWith ['/'] ps) ++ '/' :: c := by
      rw [joinWith_concat _ ps c hps]; simp [List.append_assoc]
    have hs' : root ++ joinWith ['/'] (ps ++ [c]) ≠ [] := by rw [hjoin]; simp
    have := ih (ps ++ [c]) (by simp) hs'
    rw [List.append_assoc, List.singleton_append] at this
    rw [this, str_of_nonempty _ _ hs', str_of_nonempty _ _ hs, hjoin]
    simp [pathStr]

theorem joinWith_ne_nil (sep : Str) (ps : List Str) (hps : ps ≠ []) (hne : ∀ x ∈ ps, x ≠ []) : joinWith sep ps ≠ [] := by
  cases ps with
  | nil => exact absurd rfl hps
  | cons x xs =>
    have hx : x ≠ [] := hne x (by simp)
    cases xs with
    | nil => simpa [joinWith] using hx
    | cons y ys => simp [joinWith, hx]

theorem parsePath_parts_ne (s : Str) : ∀ x ∈ (parsePath s).parts, x ≠ [] := by
  intro x hx
  simp only [parsePath, List.mem_filter] at hx
  intro e
  rw [e] at hx
  simp at hx

/-- the string of `module_as_path` is the string of `root_as_path` extended by the components of the relative path, as
    `pathStr` builds it — provided the root path has at least one component (it is not `/`, `//` or the current directory) -/
theorem entryPaths_module_str (rootPath modulePath base root : Str) (mp : List Str)
    (h : entryPaths rootPath modulePath = .ok (base, root, mp)) (hparts : (parsePath rootPath).parts ≠ []) :
    (parsePath modulePath).str = pathStr base mp ∧ base = (parsePath rootPath).str ∧ root = (parsePath rootPath).name := by
  unfold entryPaths PPath.relativeTo at h
  by_cases hc : ((parsePath modulePath).root == (parsePath rootPath).root &&
      (parsePath rootPath).parts.isPrefixOf (parsePath modulePath).parts) = true
  · simp only [hc, if_true, Except.ok.injEq, Prod.mk.injEq] at h
    obtain ⟨hb, hr, hmp⟩ := h
    simp only [Bool.and_eq_true, beq_iff_eq] at hc
    obtain ⟨hroot, hpre⟩ := hc
    obtain ⟨t, ht⟩ := List.isPrefixOf_iff_prefix.mp hpre
    have hmp' : mp = t := by rw [← hmp, ← ht]; simp
    refine ⟨?_, hb.symm, hr.symm⟩
    have hm : parsePath modulePath = ⟨(parsePath rootPath).root, (parsePath rootPath).parts ++ mp⟩ := by
      rw [hmp', ht, ← hroot]
    rw [hm, ← hb]
    refine str_append _ _ _ hparts ?_
    intro e
    have := joinWith_ne_nil ['/'] _ hparts (parsePath_parts_ne rootPath)
    exact this (List.append_eq_nil_iff.mp e).2
  · simp only [hc] at h
    cases h

end Pta.Entry
