/-
  PtaProofs.Lemmas.LArchCalls — LayeredArchitecture histories with both argument forms of `containing_modules`
  (`LArchCall`, `runLArchCalls`): reduction to the list-form histories of `runLArch`, the lifted refinement and
  invariant, and "a module name ends up in at most one layer, whatever form it was passed in".
-/
import Bridge.Abs
import Bridge.BuilderCalls
import PtaProofs.Lemmas.LArchSim
import PtaProofs.Lemmas.LArchEmpty
import PtaProofs.Lemmas.Builders
namespace Pta.Hist
open PtaSpec

/-! ### both argument forms reduce to the list form -/

theorem stepCall_eq_step (a : LArch) (c : LArchCall) : a.stepCall c = a.step c.toOp := by
  cases c <;> rfl

theorem runLArchCallsFrom_stepCall (cs : List LArchCall) (a : LArch) (i : Nat) :
    runLArchCallsFrom LArch.stepCall a i cs = runLArch.go a i (cs.map LArchCall.toOp) := by
  induction cs generalizing a i with
  | nil => rfl
  | cons c rest ih =>
    simp only [runLArchCallsFrom, List.map_cons, runLArch.go, stepCall_eq_step]
    cases a.step c.toOp with
    | error k => rfl
    | ok a' => exact ih a' (i + 1)

theorem runLArchCalls_eq (cs : List LArchCall) : runLArchCalls cs = runLArch (cs.map LArchCall.toOp) :=
  runLArchCallsFrom_stepCall cs [] 0

theorem toLCall_toOp (c : LArchCall) : toLCall c.toOp = callToLCall c := by
  cases c with
  | op o => rfl
  | containing a => cases a <;> rfl

theorem toOp_listForm (c : LArchCall) : c.listForm.toOp = c.toOp := by
  cases c with
  | op o => rfl
  | containing a => cases a <;> rfl

theorem map_toOp_listForm (cs : List LArchCall) : (cs.map LArchCall.listForm).map LArchCall.toOp = cs.map LArchCall.toOp := by
  rw [List.map_map]
  exact List.map_congr_left fun c _ => toOp_listForm c

/-- histories that agree once every `str` argument is written as a one-element list run alike -/
theorem string_form_eq_list_form_lemma {cs cs' : List LArchCall}
    (h : cs.map LArchCall.listForm = cs'.map LArchCall.listForm) : runLArchCalls cs = runLArchCalls cs' := by
  rw [runLArchCalls_eq, runLArchCalls_eq, ← map_toOp_listForm cs, h, map_toOp_listForm]

theorem listForm_idem (c : LArchCall) : c.listForm.listForm = c.listForm := by
  cases c with
  | op o => rfl
  | containing a => cases a <;> rfl

/-! ### refinement and invariant, lifted -/

theorem larch_calls_refine_lemma (cs : List LArchCall) :
    match classifyLArch (cs.map callToLCall) with
    | .accepted t => ∃ a, runLArchCalls cs = .ok a ∧
        a.idsPerLayer = t.closed ++ (match t.opened with | some n => [(n, [])] | none => [])
    | .rejectedAt i => runLArchCalls cs = .error (.improperlyConfigured, i)
    | .unspecified => True := by
  have h := Pta.larch_refines_lemma (cs.map LArchCall.toOp)
  rw [List.map_map] at h
  have e : (toLCall ∘ LArchCall.toOp) = callToLCall := funext toLCall_toOp
  rw [e] at h
  rw [runLArchCalls_eq]
  exact h

theorem larch_calls_invariant_lemma (cs : List LArchCall) (a : LArch) (h : runLArchCalls cs = .ok a) :
    (a.map (·.1)).Nodup ∧ a.pending.length ≤ 1 ∧
    ∀ l₁ ∈ a, ∀ l₂ ∈ a, ∀ f₁ ∈ l₁.2, ∀ f₂ ∈ l₂.2, f₁.isRegex = false → f₂.isRegex = false → f₁.id = f₂.id → l₁.1 = l₂.1 := by
  rw [runLArchCalls_eq] at h
  exact Pta.larch_invariant_lemma _ a h

/-! ### errors of a run: kind, index, stability under extension -/

theorem step_error_kind (a : LArch) (op : LArchOp) (k : ErrKind) (h : a.step op = .error k) :
    k = .improperlyConfigured := by
  cases op with
  | withLayer => simp [LArch.step] at h
  | layer n =>
    simp only [LArch.step] at h
    split at h
    · cases h; rfl
    · split at h
      · cases h; rfl
      · cases h
  | containingModules ms =>
    simp only [LArch.step] at h
    split at h
    · split at h
      · cases h; rfl
      · cases h
    · cases h; rfl
  | matching r =>
    simp only [LArch.step] at h
    split at h
    · cases h
    · cases h; rfl

theorem go_error (ops : List LArchOp) (a : LArch) (i : Nat) (k : ErrKind) (j : Nat)
    (h : runLArch.go a i ops = .error (k, j)) : k = .improperlyConfigured ∧ i ≤ j ∧ j < i + ops.length := by
  induction ops generalizing a i with
  | nil => cases h
  | cons op rest ih =>
    simp only [runLArch.go] at h
    cases hs : a.step op with
    | error k' =>
      rw [hs] at h
      simp only [Except.error.injEq, Prod.mk.injEq] at h
      obtain ⟨rfl, rfl⟩ := h
      exact ⟨step_error_kind a op _ hs, Nat.le_refl _, by simp⟩
    | ok a1 =>
      rw [hs] at h
      obtain ⟨h1, h2, h3⟩ := ih a1 (i + 1) h
      refine ⟨h1, by omega, ?_⟩
      simp only [List.length_cons]
      omega

theorem go_append_error (ops ops' : List LArchOp) (a : LArch) (i : Nat) (e : ErrKind × Nat)
    (h : runLArch.go a i ops = .error e) : runLArch.go a i (ops ++ ops') = .error e := by
  induction ops generalizing a i with
  | nil => cases h
  | cons op rest ih =>
    simp only [runLArch.go, List.cons_append] at h ⊢
    cases hs : a.step op with
    | error k' => rw [hs] at h; exact h
    | ok a1 => rw [hs] at h; exact ih a1 (i + 1) h

theorem go_append_ok (ops ops' : List LArchOp) (a a' : LArch) (i : Nat)
    (h : runLArch.go a i (ops ++ ops') = .ok a') :
    ∃ a1, runLArch.go a i ops = .ok a1 ∧ runLArch.go a1 (i + ops.length) ops' = .ok a' := by
  cases h1 : runLArch.go a i ops with
  | error e => rw [go_append_error ops ops' a i e h1] at h; cases h
  | ok a1 =>
    refine ⟨a1, rfl, ?_⟩
    rw [runLArch_go_append ops ops' a i a1 h1] at h
    exact h

/-! ### assigned identifiers only grow along an accepted history -/

theorem allIds_append (a b : LArch) : LArch.allIds (a ++ b) = LArch.allIds a ++ LArch.allIds b := by
  simp [LArch.allIds]

theorem allIds_mono_step (a a' : LArch) (op : LArchOp) (h : LInv a) (hs : a.step op = .ok a') :
    ∀ x ∈ a.allIds, x ∈ a'.allIds := by
  obtain ⟨c, o, hsh, _⟩ := h
  intro x hx
  rw [allIds_shape hsh] at hx
  cases op with
  | withLayer => cases hs; rw [allIds_shape hsh]; exact hx
  | layer n =>
    cases o with
    | some p => rw [step_layer_open hsh n] at hs; cases hs
    | none =>
      rw [step_layer_closed hsh n] at hs
      split at hs
      · cases hs
      · cases hs; rw [allIds_append]; exact List.mem_append_left _ hx
  | containingModules ms =>
    cases o with
    | none => rw [step_modules_closed hsh ms] at hs; cases hs
    | some p =>
      rw [step_modules_open hsh ms] at hs
      split at hs
      · cases hs
      · cases hs; rw [allIds_append]; exact List.mem_append_left _ hx
  | matching r =>
    cases o with
    | none => rw [step_matching_closed hsh r] at hs; cases hs
    | some p =>
      rw [step_matching_open hsh r] at hs
      cases hs; rw [allIds_append]; exact List.mem_append_left _ hx

theorem allIds_mono_go (ops : List LArchOp) (a a' : LArch) (i : Nat) (h : LInv a)
    (hr : runLArch.go a i ops = .ok a') : ∀ x ∈ a.allIds, x ∈ a'.allIds := by
  induction ops generalizing a i with
  | nil => cases hr; exact fun x hx => hx
  | cons op rest ih =>
    simp only [runLArch.go] at hr
    cases hs : a.step op with
    | error k => rw [hs] at hr; cases hr
    | ok a1 =>
      rw [hs] at hr
      intro x hx
      exact ih a1 (i + 1) (linv_step a a1 op h hs) hr x (allIds_mono_step a a1 op h hs x hx)

/-- an accepted `containing_modules` call assigns every module it was given -/
theorem step_modules_assigns (a a' : LArch) (ms : List Str) (h : LInv a)
    (hs : a.step (.containingModules ms) = .ok a') : ∀ m ∈ ms, m ∈ a'.allIds := by
  obtain ⟨c, o, hsh, _⟩ := h
  cases o with
  | none => rw [step_modules_closed hsh ms] at hs; cases hs
  | some p =>
    rw [step_modules_open hsh ms] at hs
    split at hs
    · cases hs
    · cases hs
      intro m hm
      rw [allIds_append]
      refine List.mem_append_right _ ?_
      simp only [LArch.allIds, List.flatMap_cons, List.flatMap_nil, List.append_nil, List.map_map, List.mem_map]
      exact ⟨m, hm, rfl⟩

/-- `containing_modules` with an already assigned module raises, whatever the state -/
theorem step_modules_dup (a : LArch) (ms : List Str) (m : Str) (hm : m ∈ ms) (ha : m ∈ a.allIds) :
    a.step (.containingModules ms) = .error .improperlyConfigured := by
  simp only [LArch.step]
  split
  · have : ms.any (fun m => a.allIds.contains m) = true := by
      rw [List.any_eq_true]
      exact ⟨m, hm, by simpa using ha⟩
    rw [if_pos this]
  · rfl

theorem linv_nil : LInv [] := ⟨[], none, shape_nil, by intro l hl; cases hl⟩

/-- list-form histories: a module supplied to `containing_modules` at call `pre.length` and again at call
    `pre.length + 1 + mid.length`: the history is rejected, at the second of the two calls at the latest, and exactly
    there when everything before it was accepted -/
theorem module_twice_ops (pre mid rest : List LArchOp) (ys xs : List Str) (m : Str) (hy : m ∈ ys) (hx : m ∈ xs) :
    ∃ i, i ≤ pre.length + 1 + mid.length ∧
      runLArch (pre ++ .containingModules ys :: mid ++ .containingModules xs :: rest) = .error (.improperlyConfigured, i) ∧
      ((∃ a, runLArch (pre ++ .containingModules ys :: mid) = .ok a) → i = pre.length + 1 + mid.length) := by
  have hsplit : pre ++ LArchOp.containingModules ys :: mid ++ LArchOp.containingModules xs :: rest =
      (pre ++ LArchOp.containingModules ys :: mid) ++ (LArchOp.containingModules xs :: rest) := by simp
  have hlen : (pre ++ LArchOp.containingModules ys :: mid).length = pre.length + 1 + mid.length := by
    simp only [List.length_append, List.length_cons]; omega
  rw [hsplit]
  cases hP : runLArch (pre ++ LArchOp.containingModules ys :: mid) with
  | error e =>
    obtain ⟨k, i⟩ := e
    obtain ⟨hk, _, hi⟩ := go_error _ [] 0 k i hP
    subst hk
    refine ⟨i, by omega, go_append_error _ _ [] 0 _ hP, ?_⟩
    rintro ⟨a, ha⟩
    cases ha
  | ok a =>
    refine ⟨pre.length + 1 + mid.length, Nat.le_refl _, ?_, fun _ => rfl⟩
    -- the module is assigned in `a`
    obtain ⟨a0, h0, h1⟩ := go_append_ok pre _ [] a 0 hP
    have hinv0 : LInv a0 := larch_go_inv pre [] a0 0 linv_nil h0
    simp only [runLArch.go] at h1
    cases hs : a0.step (.containingModules ys) with
    | error k => rw [hs] at h1; cases h1
    | ok a1 =>
      rw [hs] at h1
      have hm1 : m ∈ a1.allIds := step_modules_assigns a0 a1 ys hinv0 hs m hy
      have hinv1 : LInv a1 := linv_step a0 a1 _ hinv0 hs
      have hma : m ∈ a.allIds := allIds_mono_go mid a1 a _ hinv1 h1 m hm1
      unfold runLArch at hP ⊢
      rw [runLArch_go_append _ _ [] 0 a hP, hlen]
      simp only [runLArch.go, step_modules_dup a xs m hx hma, Nat.zero_add]

/-- the same for histories with both argument forms -/
theorem module_twice_calls (pre mid rest : List LArchCall) (y x : ModArg) (m : Str)
    (hy : m ∈ y.toList) (hx : m ∈ x.toList) :
    ∃ i, i ≤ pre.length + 1 + mid.length ∧
      runLArchCalls (pre ++ .containing y :: mid ++ .containing x :: rest) = .error (.improperlyConfigured, i) ∧
      ((∃ a, runLArchCalls (pre ++ .containing y :: mid) = .ok a) → i = pre.length + 1 + mid.length) := by
  have h := module_twice_ops (pre.map LArchCall.toOp) (mid.map LArchCall.toOp) (rest.map LArchCall.toOp)
    y.toList x.toList m hy hx
  simp only [List.length_map] at h
  simpa only [runLArchCalls_eq, List.map_append, List.map_cons, LArchCall.toOp] using h

end Pta.Hist
