/-
  PtaProofs.Lemmas.DiagramItems — the REPORT of a rule (not only its pass/fail class, Lemmas/OrderCongr.lean) depends
  on the subject / object lists only as sets: the `imports` lines are the same set, the `does not import` lines are
  the same up to the order in which the objects are listed (`Item.sim`). Namespace `Pta.Itm`.
  Technique as in OrderCongr, with "same key, same value set" (`KRel`) instead of "same emptiness" (`NilRel`).
-/
import Bridge.Abs
import Bridge.DiagramE2E
import PtaProofs.Lemmas.OrderCongr
namespace Pta.Itm
open Pta PtaSpec Pta.Ord

theorem geq (g : PGraph Str) : GraphEquiv g g :=
  ⟨fun _ => Iff.rfl, fun _ _ => Iff.rfl, fun _ _ => Iff.rfl, fun _ _ => Iff.rfl⟩

/-- same key, same value set -/
def KRel {κ : Type} (kd kd' : κ × List (Str × Str)) : Prop := kd.1 = kd'.1 ∧ SM kd.2 kd'.2

theorem SM.symm {α : Type} {l l' : List α} (h : SM l l') : SM l' l := fun x => (h x).symm

theorem LRel.symm_of {α : Type} {R : α → α → Prop} (hR : ∀ a b, R a b → R b a) {l l' : List α}
    (h : LRel R l l') : LRel R l' l := by
  refine ⟨fun y hy => ?_, fun y hy => ?_⟩
  · obtain ⟨x, hx, r⟩ := h.2 y hy; exact ⟨x, hx, hR _ _ r⟩
  · obtain ⟨x, hx, r⟩ := h.1 y hy; exact ⟨x, hx, hR _ _ r⟩

theorem KRel.symm {κ : Type} (a b : κ × List (Str × Str)) (h : KRel a b) : KRel b a := ⟨h.1.symm, SM.symm h.2⟩

theorem LRel.append {α : Type} {R : α → α → Prop} {a a' b b' : List α} (h1 : LRel R a a') (h2 : LRel R b b') :
    LRel R (a ++ b) (a' ++ b') := by
  refine ⟨fun y hy => ?_, fun y hy => ?_⟩
  · rcases List.mem_append.1 hy with hy | hy
    · obtain ⟨x, hx, r⟩ := h1.1 y hy; exact ⟨x, List.mem_append_left _ hx, r⟩
    · obtain ⟨x, hx, r⟩ := h2.1 y hy; exact ⟨x, List.mem_append_right _ hx, r⟩
  · rcases List.mem_append.1 hy with hy | hy
    · obtain ⟨x, hx, r⟩ := h1.2 y hy; exact ⟨x, List.mem_append_left _ hx, r⟩
    · obtain ⟨x, hx, r⟩ := h2.2 y hy; exact ⟨x, List.mem_append_right _ hx, r⟩

theorem sm_map {α β : Type} (f : α → β) {l l' : List α} (h : SM l l') : SM (l.map f) (l'.map f) := by
  intro y
  simp only [List.mem_map]
  constructor
  · rintro ⟨x, hx, rfl⟩; exact ⟨x, (h x).1 hx, rfl⟩
  · rintro ⟨x, hx, rfl⟩; exact ⟨x, (h x).2 hx, rfl⟩

/-! ### the three queries -/

theorem getDependencies_krel (g : PGraph Str) (A A' B B' : List Filter) (hA : SM A A') (hB : SM B B') :
    ERel (LRel KRel) (getDependencies g A B) (getDependencies g A' B') := by
  unfold getDependencies
  apply mapM_congr _ _ _ .lookupError
  · rintro ⟨f, o⟩
    simp only [List.mem_flatMap, List.mem_map, mem_dedup, Prod.mk.injEq]
    constructor
    · rintro ⟨f', hf, o', ho, rfl, rfl⟩; exact ⟨f', (hA _).1 hf, o', (hB _).1 ho, rfl, rfl⟩
    · rintro ⟨f', hf, o', ho, rfl, rfl⟩; exact ⟨f', (hA _).2 hf, o', (hB _).2 ho, rfl, rfl⟩
  · intro fo _
    exact (depBetween_congr (geq g) fo.1 fo.2).bind_pure _ _ (fun a b hab => ⟨rfl, hab⟩)
  · intro fo _ e he
    exact Pta.Hist.depBetween_err _ _ _ _ (Pta.Hist.bind_pure_err _ _ _ he)

theorem getOtherFrom_krel (g : PGraph Str) (A A' B B' : List Filter) (hA : SM A A') (hB : SM B B') :
    ERel (LRel KRel) (getOtherFrom g A B) (getOtherFrom g A' B') := by
  unfold getOtherFrom
  apply mapM_congr _ _ _ .lookupError
  · exact hA.dedup
  · intro f _
    exact (otherFrom_congr (geq g) f _ _ hB.dedup).bind_pure _ _ (fun a b hab => ⟨rfl, hab⟩)
  · intro f _ e he
    exact Pta.Hist.otherFrom_err _ _ _ _ (Pta.Hist.bind_pure_err _ _ _ he)

theorem getOtherTo_krel (g : PGraph Str) (A A' B B' : List Filter) (hA : SM A A') (hB : SM B B') :
    ERel (LRel KRel) (getOtherTo g A B) (getOtherTo g A' B') := by
  unfold getOtherTo
  apply mapM_congr _ _ _ .lookupError
  · exact hB.dedup
  · intro o _
    exact (otherTo_congr (geq g) _ _ o hA.dedup).bind_pure _ _ (fun a b hab => ⟨rfl, hab⟩)
  · intro o _ e he
    exact Pta.Hist.otherTo_err _ _ _ _ (Pta.Hist.bind_pure_err _ _ _ he)

def QRelK (p : Option ExplDeps × Option OtherDeps) (p' : Option ExplDeps × Option OtherDeps) : Prop :=
  ORel (LRel KRel) p.1 p'.1 ∧ ORel (LRel KRel) p.2 p'.2

theorem runQ_aux (c1 c2 : Bool) (X X' : Except ErrKind ExplDeps) (Y Y' : Except ErrKind OtherDeps)
    (e1 : ERel (LRel KRel) X X') (e2 : ERel (LRel KRel) Y Y') :
    ERel QRelK
      (do let expl ← if c1 then X.map some else pure none
          let other ← if c2 then Y.map some else pure none
          pure (expl, other))
      (do let expl ← if c1 then X'.map some else pure none
          let other ← if c2 then Y'.map some else pure none
          pure (expl, other)) := by
  cases c1 <;> cases c2 <;> cases X <;> cases X' <;> cases Y <;> cases Y' <;>
    simp_all [ERel, QRelK, ORel, bind, Except.bind, pure, Except.pure, Except.map]

theorem runQueries_krel (g : PGraph Str) (b : Behavior) (ir : Bool) (S S' O O' : List Filter)
    (hS : SM S S') (hO : SM O O') :
    ERel QRelK (runQueries g b ir S O) (runQueries g b ir S' O') := by
  unfold runQueries
  cases ir
  · exact runQ_aux _ _ _ _ _ _ (getDependencies_krel g _ _ _ _ hO hS) (getOtherTo_krel g _ _ _ _ hO hS)
  · exact runQ_aux _ _ _ _ _ _ (getDependencies_krel g _ _ _ _ hS hO) (getOtherFrom_krel g _ _ _ _ hS hO)

/-! ### the violation buckets -/

theorem realised_sub (ir : Bool) {κ : Type} (e e' : List (κ × List (Str × Str))) (h : LRel KRel e e') :
    ∀ x ∈ realised ir e, x ∈ realised ir e' := by
  intro x hx
  unfold realised at hx ⊢
  rw [List.mem_flatMap] at hx ⊢
  obtain ⟨kd, hkd, hx⟩ := hx
  obtain ⟨kd', hkd', r⟩ := h.1 kd hkd
  refine ⟨kd', hkd', ?_⟩
  rw [List.mem_map] at hx ⊢
  obtain ⟨p, hp, rfl⟩ := hx
  exact ⟨p, (r.2 p).1 hp, rfl⟩

theorem realised_sm (ir : Bool) {κ : Type} (e e' : List (κ × List (Str × Str))) (h : LRel KRel e e') :
    SM (realised ir e) (realised ir e') :=
  fun x => ⟨realised_sub ir e e' h x, realised_sub ir e' e (LRel.symm_of KRel.symm h) x⟩

theorem abstractWithout_sub (ir : Bool) (e e' : ExplDeps) (h : LRel KRel e e') :
    ∀ x ∈ abstractWithout ir e, x ∈ abstractWithout ir e' := by
  intro x hx
  unfold abstractWithout at hx ⊢
  rw [List.mem_map] at hx ⊢
  obtain ⟨kd, hkd, rfl⟩ := hx
  rw [List.mem_filter] at hkd
  obtain ⟨kd', hkd', r⟩ := h.1 kd hkd.1
  refine ⟨kd', ?_, by rw [r.1]⟩
  rw [List.mem_filter]
  refine ⟨hkd', ?_⟩
  rw [← isEmpty_congr r.2.nil_iff]; exact hkd.2

theorem abstractWithout_sm (ir : Bool) (e e' : ExplDeps) (h : LRel KRel e e') :
    SM (abstractWithout ir e) (abstractWithout ir e') :=
  fun x => ⟨abstractWithout_sub ir e e' h x, abstractWithout_sub ir e' e (LRel.symm_of KRel.symm h) x⟩

theorem missingOther_sub (e e' : OtherDeps) (M M' : List Mod) (hM : SM M M') (h : LRel KRel e e') :
    ∀ x ∈ missingOther e M, x ∈ missingOther e' M' := by
  intro x hx
  unfold missingOther at hx ⊢
  rw [List.mem_flatMap] at hx ⊢
  obtain ⟨kd, hkd, hx⟩ := hx
  rw [List.mem_filter] at hkd
  obtain ⟨kd', hkd', r⟩ := h.1 kd hkd.1
  refine ⟨kd', ?_, ?_⟩
  · rw [List.mem_filter]
    refine ⟨hkd', ?_⟩
    rw [← isEmpty_congr r.2.nil_iff]; exact hkd.2
  · rw [List.mem_map] at hx ⊢
    obtain ⟨o, ho, rfl⟩ := hx
    exact ⟨o, (hM o).1 ho, by rw [r.1]⟩

theorem missingOther_sm (e e' : OtherDeps) (M M' : List Mod) (hM : SM M M') (h : LRel KRel e e') :
    SM (missingOther e M) (missingOther e' M') :=
  fun x => ⟨missingOther_sub e e' M M' hM h x,
    missingOther_sub e' e M' M (SM.symm hM) (LRel.symm_of KRel.symm h) x⟩

theorem sm_ite {α : Type} (c : Bool) {l l' : List α} (h : SM l l') :
    SM (if c = true then l else []) (if c = true then l' else []) := by
  cases c
  · exact SM.refl _
  · exact h

/-- the eight buckets, as sets -/
structure VioRel (v v' : Violations) : Prop where
  h1 : SM v.should v'.should
  h2 : SM v.shouldOnlyForbidden v'.shouldOnlyForbidden
  h3 : SM v.shouldOnlyNoImport v'.shouldOnlyNoImport
  h4 : SM v.shouldNot v'.shouldNot
  h5 : SM v.shouldExcept v'.shouldExcept
  h6 : SM v.shouldOnlyExceptForbidden v'.shouldOnlyExceptForbidden
  h7 : SM v.shouldOnlyExceptNoImport v'.shouldOnlyExceptNoImport
  h8 : SM v.shouldNotExcept v'.shouldNotExcept

theorem detect_rel (b : Behavior) (ir : Bool) (expl expl' : Option ExplDeps) (other other' : Option OtherDeps)
    (M M' : List Mod) (hM : SM M M') (he : ORel (LRel KRel) expl expl') (ho : ORel (LRel KRel) other other') :
    VioRel (detect b ir expl other M) (detect b ir expl' other' M') := by
  unfold detect
  cases expl <;> cases expl' <;> cases other <;> cases other' <;> simp only [ORel] at he ho <;>
    constructor <;> dsimp only <;>
    first
      | exact SM.refl _
      | exact sm_ite _ (realised_sm ir _ _ he)
      | exact sm_ite _ (realised_sm ir _ _ ho)
      | exact sm_ite _ (abstractWithout_sm ir _ _ he)
      | exact sm_ite _ (missingOther_sm _ _ M M' hM ho)

theorem VioRel.any_eq {v v' : Violations} (h : VioRel v v') : v.any = v'.any := by
  unfold Violations.any
  rw [isEmpty_congr h.h1.nil_iff, isEmpty_congr h.h2.nil_iff, isEmpty_congr h.h3.nil_iff,
    isEmpty_congr h.h4.nil_iff, isEmpty_congr h.h5.nil_iff, isEmpty_congr h.h6.nil_iff,
    isEmpty_congr h.h7.nil_iff, isEmpty_congr h.h8.nil_iff]

/-! ### the report -/

/-- `Item.sim`, as a proposition -/
def ItemSim (i i' : Item) : Prop := i.sim i' = true

theorem ItemSim.refl (i : Item) : ItemSim i i := by
  cases i <;> simp [ItemSim, Item.sim]

theorem ItemSim.symm (i i' : Item) (h : ItemSim i i') : ItemSim i' i := by
  cases i <;> cases i' <;>
    simp only [ItemSim, Item.sim, Bool.and_eq_true, beq_iff_eq, Bool.false_eq_true] at h ⊢
  · obtain ⟨⟨h1, h2⟩, h3⟩ := h
    exact ⟨⟨h1.symm, h2.symm⟩, h3.symm⟩
  · obtain ⟨⟨⟨⟨h1, h2⟩, h3⟩, h4⟩, h5⟩ := h
    exact ⟨⟨⟨⟨h1.symm, h2.symm⟩, h3.symm⟩, h5⟩, h4⟩

theorem itemSim_miss (n : Bool) (s : Mod) (os os' : List Mod) (d : Bool) (h : SM os os') :
    ItemSim (.miss n s os d) (.miss n s os' d) := by
  simp only [ItemSim, Item.sim, beq_self_eq_true, Bool.true_and, Bool.and_eq_true, List.all_eq_true,
    List.contains_iff_mem]
  exact ⟨fun x hx => (h x).1 hx, fun x hx => (h x).2 hx⟩

theorem impItems_rel (ir : Bool) (ds ds' : List Dep) (h : SM ds ds') :
    LRel ItemSim (impItems ir ds) (impItems ir ds') := by
  unfold impItems
  refine ⟨fun y hy => ?_, fun y hy => ?_⟩
  · obtain ⟨d, hd, rfl⟩ := List.mem_map.1 hy
    exact ⟨_, List.mem_map.2 ⟨d, (h d).1 hd, rfl⟩, ItemSim.refl _⟩
  · obtain ⟨d, hd, rfl⟩ := List.mem_map.1 hy
    exact ⟨_, List.mem_map.2 ⟨d, (h d).2 hd, rfl⟩, ItemSim.refl _⟩

theorem missObjs_sm (ds ds' : List Dep) (h : SM ds ds') (s : Mod) :
    SM (dedup ((ds.filter fun d => d.1 = s).map (·.2))) (dedup ((ds'.filter fun d => d.1 = s).map (·.2))) := by
  apply SM.dedup
  apply sm_map
  intro d
  simp only [List.mem_filter]
  rw [h d]

theorem missItems_half (n ir : Bool) (ds ds' : List Dep) (h : SM ds ds') :
    ∀ y ∈ missItems n ir ds, ∃ y' ∈ missItems n ir ds', ItemSim y y' := by
  intro y hy
  unfold missItems at hy ⊢
  obtain ⟨s, hs, rfl⟩ := List.mem_map.1 hy
  refine ⟨_, List.mem_map.2 ⟨s, ?_, rfl⟩, itemSim_miss _ _ _ _ _ (missObjs_sm ds ds' h s)⟩
  rw [mem_dedup] at hs ⊢
  exact sm_map _ h s |>.1 hs

theorem missItems_rel (n ir : Bool) (ds ds' : List Dep) (h : SM ds ds') :
    LRel ItemSim (missItems n ir ds) (missItems n ir ds') := by
  refine ⟨missItems_half n ir ds ds' h, fun y' hy' => ?_⟩
  obtain ⟨y, hy, r⟩ := missItems_half n ir ds' ds (SM.symm h) y' hy'
  exact ⟨y, hy, ItemSim.symm _ _ r⟩

theorem reportItems_rel (ir : Bool) (v v' : Violations) (h : VioRel v v') :
    LRel ItemSim (reportItems ir v) (reportItems ir v') := by
  unfold reportItems
  exact LRel.append (LRel.append (LRel.append (LRel.append (LRel.append (LRel.append (LRel.append
    (missItems_rel _ _ _ _ h.h1) (impItems_rel _ _ _ h.h2)) (missItems_rel _ _ _ _ h.h3))
    (impItems_rel _ _ _ h.h4)) (missItems_rel _ _ _ _ h.h5)) (impItems_rel _ _ _ h.h6))
    (missItems_rel _ _ _ _ h.h7)) (impItems_rel _ _ _ h.h8)

/-! ### verdicts -/

/-- the same outcome, with the same report up to `Item.sim` -/
def VRel : Verdict → Verdict → Prop
  | .pass, .pass => True
  | .fail its, .fail its' => LRel ItemSim its its'
  | .err k, .err k' => k = k'
  | _, _ => False

theorem VRel.cls_eq {v v' : Verdict} (h : VRel v v') : v.cls = v'.cls := by
  cases v <;> cases v' <;> simp_all [VRel, Verdict.cls]

theorem VRel.items {v v' : Verdict} (h : VRel v v') : LRel ItemSim v.items v'.items := by
  cases v <;> cases v' <;> simp_all [VRel, Verdict.items, LRel]

theorem VRel.symm {v v' : Verdict} (h : VRel v v') : VRel v' v := by
  cases v <;> cases v' <;> simp_all [VRel]
  exact LRel.symm_of ItemSim.symm h

theorem matchRule_vrel (mt : Str → Str → Bool) (g : PGraph Str) (b : Behavior) (ir : Bool)
    (ss ss' os os' : List Filter) (hs : SM ss ss') (ho : SM os os') :
    VRel (matchRule mt g b ir ss os) (matchRule mt g b ir ss' os') := by
  unfold matchRule
  have c1 := convertFilters_congr mt g.nodes g.nodes ss ss' (SM.refl _) hs
  have c2 := convertFilters_congr mt g.nodes g.nodes os os' (SM.refl _) ho
  cases hS : convertFilters mt g.nodes ss with
  | error k => rw [hS] at c1; rw [c1.error_left]; rfl
  | ok S =>
    rw [hS] at c1
    obtain ⟨S', hS', hSS⟩ := c1.ok_left
    rw [hS']
    cases hO : convertFilters mt g.nodes os with
    | error k => rw [hO] at c2; rw [c2.error_left]; rfl
    | ok O =>
      rw [hO] at c2
      obtain ⟨O', hO', hOO⟩ := c2.ok_left
      rw [hO']
      simp only []
      have c3 := runQueries_krel g b ir S S' O O' hSS hOO
      cases hq : runQueries g b ir S O with
      | error k => rw [hq] at c3; rw [c3.error_left]; rfl
      | ok eo =>
        rw [hq] at c3
        obtain ⟨eo', hq', hr⟩ := c3.ok_left
        rw [hq']
        obtain ⟨expl, other⟩ := eo
        obtain ⟨expl', other'⟩ := eo'
        simp only
        have hv := detect_rel b ir expl expl' other other' _ _ (sm_map Filter.toMod hOO) hr.1 hr.2
        rw [hv.any_eq]
        split
        · exact reportItems_rel ir _ _ hv
        · trivial

/-- a rule `mkRule …`: outcome and report depend on the subject and object lists as sets only -/
theorem mkRule_vrel (mt : Str → Str → Bool) (g : PGraph Str) (s o n dir exc : Bool)
    (subs subs' objs objs' : List Filter) (hs : SM subs subs') (ho : SM objs objs') :
    VRel (assertApplies mt (mkRule s o n dir exc subs objs) g).2
      (assertApplies mt (mkRule s o n dir exc subs' objs') g).2 := by
  rw [assertApplies_mkRule, assertApplies_mkRule, isEmpty_congr hs.nil_iff, isEmpty_congr ho.nil_iff]
  split
  · rfl
  · split
    · rfl
    · exact matchRule_vrel mt g _ _ _ _ _ _ hs ho

end Pta.Itm
