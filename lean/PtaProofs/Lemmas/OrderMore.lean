/-
  PtaProofs.Lemmas.OrderMore — lemmas behind the second half of Props/C15.lean (proofs in OrderBuild.lean, OrderScan.lean,
  OrderLayer.lean, OrderDiagram.lean).
-/
import Bridge.Abs
import Bridge.OrderDefs
import PtaProofs.Lemmas.Order
import PtaProofs.Lemmas.OrderBuild
import PtaProofs.Lemmas.OrderScan
import PtaProofs.Lemmas.OrderLayer
import PtaProofs.Lemmas.OrderDiagram
import PtaProofs.Lemmas.OrderPumlText
namespace Pta
open PtaSpec

theorem sameScan_of_erel {x y : Except ErrKind (PGraph Str)} (h : Ord.ERel GraphEquiv x y) : SameScan x y := by
  cases x <;> cases y <;> exact h

theorem buildGraph_sets_lemma (lim : Option Nat) (mods mods' : List Str) (imps imps' : List ImportRec)
    (hm : ∀ x, x ∈ mods ↔ x ∈ mods') (hi : ∀ x, x ∈ imps ↔ x ∈ imps') (hc : importsClosed mods imps = true) :
    GraphEquiv (buildGraph mods imps lim) (buildGraph mods' imps' lim) := by
  unfold importsClosed at hc
  simp only [List.all_eq_true, Bool.and_eq_true, List.contains_iff_mem, beq_iff_eq] at hc
  exact OrdB.buildGraph_equiv lim mods mods' imps imps' hm hi (fun i h => (hc i h).1) (fun i h => (hc i h).2)

theorem scan_graph_perm_lemma (mt : Str → Str → Bool) (base rootName : Str) (mp : List Str) (entries entries' : List Entry)
    (o : ScanOptions) (h : entries.Perm entries') :
    SameScan (generateGraph mt base rootName mp entries o) (generateGraph mt base rootName mp entries' o) :=
  sameScan_of_erel (OrdS.scan_graph_perm mt base rootName mp entries entries' o h)

theorem scan_verdict_perm_lemma (mt mt' : Str → Str → Bool) (base rootName : Str) (mp : List Str) (entries entries' : List Entry)
    (o : ScanOptions) (h : entries.Perm entries') (g g' : PGraph Str)
    (hg : generateGraph mt base rootName mp entries o = .ok g) (hg' : generateGraph mt base rootName mp entries' o = .ok g')
    (r : RuleState) : verdictOf mt' g r = verdictOf mt' g' r := by
  have := OrdS.scan_graph_perm mt base rootName mp entries entries' o h
  rw [hg, hg'] at this
  exact Ord.verdict_congr mt' g g' this r

theorem perm_layers_lemma (mt : Str → Str → Bool) (larch larch' : LArch) (rule : Option RuleState) (g : PGraph Str)
    (hp : larch.Perm larch') :
    (assertAppliesLayer mt ⟨some larch, rule⟩ g).cls = (assertAppliesLayer mt ⟨some larch', rule⟩ g).cls :=
  OrdL.perm_layers mt larch larch' rule g hp

theorem matchLayerRule_perm_layers_lemma (mt : Str → Str → Bool) (g : PGraph Str) (a a' : LArch) (b : Behavior) (ir : Bool)
    (ss os : List Filter) (hp : a.Perm a') :
    (matchLayerRule mt g a b ir ss os).cls = (matchLayerRule mt g a' b ir ss os).cls :=
  OrdL.matchLayerRule_perm_layers mt g a a' b ir ss os hp

theorem perm_layer_rule_filters_lemma (mt : Str → Str → Bool) (g : PGraph Str) (a : LArch) (s o n dir exc : Bool)
    (subs subs' objs objs' : List Filter) (hs : subs.Perm subs') (ho : objs.Perm objs') :
    (assertAppliesLayer mt ⟨some a, some (mkRule s o n dir exc subs objs)⟩ g).cls =
      (assertAppliesLayer mt ⟨some a, some (mkRule s o n dir exc subs' objs')⟩ g).cls :=
  OrdL.perm_layer_rule_filters mt g a s o n dir exc subs subs' objs objs' hs ho

theorem layers_get_perm_lemma (a : LArch) (ls ls' : List Str) (h : ls.Perm ls') :
    match ls.mapM a.get, ls'.mapM a.get with
    | .ok ms, .ok ms' => ms.flatten.Perm ms'.flatten
    | .error e, .error e' => e = e'
    | _, _ => False := by
  have := OrdL.layers_get_perm a h
  cases h1 : ls.mapM a.get <;> cases h2 : ls'.mapM a.get <;> rw [h1, h2] at this <;> exact this

theorem applyAll_perm_ok_lemma (mt : Str → Str → Bool) (g : PGraph Str) (rules rules' : List RuleState) (hp : rules.Perm rules')
    (h : ∀ r ∈ rules, ∀ k, (assertApplies mt r g).2 ≠ .err k) :
    (applyAll mt g rules).cls = (applyAll mt g rules').cls ∧ (∀ k, (applyAll mt g rules).cls ≠ .err k) ∧
    (applyAll mt g rules).items.Perm (applyAll mt g rules').items :=
  OrdD.applyAll_perm_ok mt g rules rules' hp h

theorem applyAll_perm_err_lemma (mt : Str → Str → Bool) (g : PGraph Str) (rules rules' : List RuleState) (hp : rules.Perm rules')
    (h : ∃ r ∈ rules, ∃ k, (assertApplies mt r g).2 = .err k) :
    ∃ k k', applyAll mt g rules = .err k ∧ applyAll mt g rules' = .err k' ∧
      (∃ r ∈ rules, (assertApplies mt r g).2 = .err k) ∧ (∃ r ∈ rules, (assertApplies mt r g).2 = .err k') :=
  OrdD.applyAll_perm_err mt g rules rules' hp h

theorem applyAll_perm_err_same_lemma (mt : Str → Str → Bool) (g : PGraph Str) (rules rules' : List RuleState)
    (hp : rules.Perm rules') (e0 : ErrKind)
    (h : ∃ r ∈ rules, ∃ k, (assertApplies mt r g).2 = .err k)
    (hall : ∀ r ∈ rules, ∀ k, (assertApplies mt r g).2 = .err k → k = e0) :
    applyAll mt g rules = .err e0 ∧ applyAll mt g rules' = .err e0 :=
  OrdD.applyAll_perm_err_same mt g rules rules' hp e0 h hall

theorem pumlParse_aggregate_lemma (content : Str) :
    pumlParse content = (pumlBody (pyStrip content)).bind fun body =>
      pumlUnify ((splitLines body).flatMap lineModules) ((splitLines body).filterMap lineDependency) :=
  OrdD.pumlParse_eq content

theorem aggregate_perm_lemma (modules modules' : List PModule) (rawDeps rawDeps' : List (Str × Str))
    (hm : modules.Perm modules') (hd : rawDeps.Perm rawDeps') (hc : aliasesConsistent modules = true) :
    (∀ x, x ∈ (pumlAggregate modules rawDeps).modules ↔ x ∈ (pumlAggregate modules' rawDeps').modules) ∧
    (∀ k v, (pumlAggregate modules rawDeps).hasDep k v = (pumlAggregate modules' rawDeps').hasDep k v) :=
  OrdD.aggregate_perm modules modules' rawDeps rawDeps' hm hd hc

theorem unify_perm_lemma (modules modules' : List PModule) (rawDeps rawDeps' : List (Str × Str))
    (hm : modules.Perm modules') (hd : rawDeps.Perm rawDeps') :
    SameDiagram (pumlUnify modules rawDeps) (pumlUnify modules' rawDeps') :=
  OrdD.unify_perm modules modules' rawDeps rawDeps' hm hd

theorem alias_check_perm_lemma (modules modules' : List PModule) (hm : modules.Perm modules') :
    aliasesConsistent modules = aliasesConsistent modules' := OrdD.aliasesConsistent_perm hm

theorem diagram_lines_perm_lemma (lines lines' : List Str) (h : lines.Perm lines') :
    SameDiagram (pumlUnify (lines.flatMap lineModules) (lines.filterMap lineDependency))
      (pumlUnify (lines'.flatMap lineModules) (lines'.filterMap lineDependency)) :=
  OrdD.unify_perm _ _ _ _ (OrdD.lines_perm h).1 (OrdD.lines_perm h).2

theorem sameDiagram_iff_lemma (x y : Except ErrKind Parsed') :
    SameDiagram x y ↔ (x = .error .pumlParsingError ∧ y = .error .pumlParsingError) ∨
      ∃ p q, x = .ok p ∧ y = .ok q ∧ (∀ m, m ∈ p.modules ↔ m ∈ q.modules) ∧ (∀ k v, p.hasDep k v = q.hasDep k v) :=
  OrdD.sameDiagram_iff x y

theorem diagram_parse_perm_lemma (content content' body body' : Str)
    (hb : pumlBody (pyStrip content) = .ok body) (hb' : pumlBody (pyStrip content') = .ok body')
    (h : (splitLines body).Perm (splitLines body')) :
    SameDiagram (pumlParse content) (pumlParse content') :=
  OrdD.parse_perm content content' body body' hb hb' h

theorem diagram_text_perm_lemma (n1 n2 : Str) (lines lines' : List Str) (hp : lines.Perm lines')
    (hl : ∀ l ∈ lines, '\n' ∉ l ∧ '@' ∉ l) (hn : isInfix "@enduml".toList n2 = false) :
    SameDiagram (pumlParse (linesText n1 lines n2)) (pumlParse (linesText n1 lines' n2)) :=
  OrdT.text_perm n1 n2 lines lines' hp hl hn

theorem parse_linesText_lemma (n1 n2 : Str) (lines : List Str) (hl : ∀ l ∈ lines, '\n' ∉ l ∧ '@' ∉ l)
    (hn : isInfix "@enduml".toList n2 = false) :
    pumlParse (linesText n1 lines n2) = pumlUnify (lines.flatMap lineModules) (lines.filterMap lineDependency) :=
  OrdT.parse_linesText n1 n2 lines hl hn

theorem eq_error_of_check_lemma (x : Except ErrKind Parsed') (h : isParsingError x = true) :
    x = .error .pumlParsingError := by
  cases x with
  | ok p => cases h
  | error e => cases e <;> first | rfl | cases h

end Pta
