/-
  PtaProofs.Lemmas.LayerConsistent — the check the repaired `LayerRuleMatcher._update_layer_mapping` performs
  (`LayerMap.consistent`: no identifier is listed by two entries carrying different layer names) in propositional form,
  its invariance under permutations, and what `matchLayerRule` returns when the check fails / succeeds.
-/
import PtaModel
namespace Pta

/-- `LayerMap.consistent`, as a proposition -/
def ConsP (m : LayerMap) : Prop := ∀ l1 ∈ m, ∀ l2 ∈ m, ∀ id, id ∈ l1.2 → id ∈ l2.2 → l1.1 = l2.1

theorem consistent_iff (m : LayerMap) : m.consistent = true ↔ ConsP m := by
  unfold LayerMap.consistent ConsP
  simp only [List.all_eq_true, Bool.or_eq_true, beq_iff_eq, Bool.not_eq_true', List.any_eq_false,
    List.contains_iff_mem]
  constructor
  · intro h l1 h1 l2 h2 id i1 i2
    rcases h l1 h1 l2 h2 with e | hn
    · exact e
    · exact absurd i2 (hn id i1)
  · intro h l1 h1 l2 h2
    by_cases e : l1.1 = l2.1
    · exact Or.inl e
    · right
      intro id i1 i2
      exact e (h l1 h1 l2 h2 id i1 i2)

/-- the check fails exactly when some identifier sits in two entries with different layer names -/
theorem consistent_false_iff (m : LayerMap) :
    m.consistent = false ↔ ∃ l1 ∈ m, ∃ l2 ∈ m, ∃ id, id ∈ l1.2 ∧ id ∈ l2.2 ∧ l1.1 ≠ l2.1 := by
  rw [← Bool.not_eq_true, consistent_iff]
  unfold ConsP
  constructor
  · intro h
    apply Classical.byContradiction
    intro hn
    apply h
    intro l1 h1 l2 h2 id i1 i2
    apply Classical.byContradiction
    intro hne
    exact hn ⟨l1, h1, l2, h2, id, i1, i2, hne⟩
  · rintro ⟨l1, h1, l2, h2, id, i1, i2, hne⟩ h
    exact hne (h l1 h1 l2 h2 id i1 i2)

/-- only the SET of entries matters for the check -/
theorem consistent_congr {m m' : LayerMap} (h : ∀ x, x ∈ m ↔ x ∈ m') : m.consistent = m'.consistent := by
  rw [Bool.eq_iff_iff, consistent_iff, consistent_iff]
  unfold ConsP
  constructor
  · intro hc l1 h1 l2 h2
    exact hc l1 ((h l1).2 h1) l2 ((h l2).2 h2)
  · intro hc l1 h1 l2 h2
    exact hc l1 ((h l1).1 h1) l2 ((h l2).1 h2)

theorem consistent_perm {m m' : LayerMap} (h : m.Perm m') : m.consistent = m'.consistent :=
  consistent_congr fun _ => h.mem_iff

/-- a mapping whose entries list subsets of the entries of a consistent mapping (same names) is consistent -/
theorem ConsP.of_sub {m m' : LayerMap} (h : ConsP m')
    (hsub : ∀ l ∈ m, ∃ l' ∈ m', l'.1 = l.1 ∧ ∀ id ∈ l.2, id ∈ l'.2) : ConsP m := by
  intro l1 h1 l2 h2 id i1 i2
  obtain ⟨k1, hk1, e1, s1⟩ := hsub l1 h1
  obtain ⟨k2, hk2, e2, s2⟩ := hsub l2 h2
  rw [← e1, ← e2]
  exact h k1 hk1 k2 hk2 id (s1 id i1) (s2 id i2)

/-- the layer mapping the rule matcher builds: the regexes occurring in the rule are expanded -/
def ruleMap (mt : Str → Str → Bool) (g : PGraph Str) (a : LArch) (subjects objects : List Filter) : LayerMap :=
  updateLayerMap mt g.nodes a (((subjects ++ objects).filter (·.isRegex)).map (·.id))

/-- the repaired matcher: conversion and queries succeed, the resolved mapping assigns an identifier to two different
    layers ⟹ `LayerMismatch`, whatever the detector would have said -/
theorem matchLayerRule_inconsistent (mt : Str → Str → Bool) (g : PGraph Str) (a : LArch) (b : Behavior) (d : Bool)
    (subjects objects subs objs : List Filter) (q : Option ExplDeps × Option OtherDeps)
    (h1 : convertFilters mt g.nodes subjects = .ok subs) (h2 : convertFilters mt g.nodes objects = .ok objs)
    (h3 : runQueries g b d subs objs = .ok q)
    (hc : (ruleMap mt g a subjects objects).consistent = false) :
    matchLayerRule mt g a b d subjects objects = .err .layerMismatch := by
  unfold ruleMap at hc
  unfold matchLayerRule
  simp only [h1, h2, h3, hc, Bool.not_false, if_true]

/-- a verdict (pass or fail) is only ever returned on a consistent mapping -/
theorem matchLayerRule_verdict_consistent (mt : Str → Str → Bool) (g : PGraph Str) (a : LArch) (b : Behavior) (d : Bool)
    (subjects objects : List Filter)
    (h : matchLayerRule mt g a b d subjects objects = .pass ∨ ∃ items, matchLayerRule mt g a b d subjects objects = .fail items) :
    (ruleMap mt g a subjects objects).consistent = true := by
  unfold ruleMap
  unfold matchLayerRule at h
  cases hc : (updateLayerMap mt g.nodes a (((subjects ++ objects).filter (·.isRegex)).map (·.id))).consistent with
  | true => rfl
  | false =>
    exfalso
    cases h1 : convertFilters mt g.nodes subjects with
    | error k => simp only [h1] at h; rcases h with h | ⟨_, h⟩ <;> cases h
    | ok subs =>
      cases h2 : convertFilters mt g.nodes objects with
      | error k => simp only [h1, h2] at h; rcases h with h | ⟨_, h⟩ <;> cases h
      | ok objs =>
        cases h3 : runQueries g b d subs objs with
        | error k => simp only [h1, h2, h3] at h; rcases h with h | ⟨_, h⟩ <;> cases h
        | ok q =>
          simp only [h1, h2, h3, hc, Bool.not_false, if_true] at h
          rcases h with h | ⟨_, h⟩ <;> cases h

/-- with an inconsistent mapping the matcher never returns a verdict (it raises `LayerMismatch`, or an earlier error of
    the regex conversion / the graph queries) -/
theorem matchLayerRule_err_of_inconsistent (mt : Str → Str → Bool) (g : PGraph Str) (a : LArch) (b : Behavior) (d : Bool)
    (subjects objects : List Filter) (hc : (ruleMap mt g a subjects objects).consistent = false) :
    ∃ k, matchLayerRule mt g a b d subjects objects = .err k := by
  cases h1 : convertFilters mt g.nodes subjects with
  | error k => exact ⟨k, by unfold matchLayerRule; simp only [h1]⟩
  | ok subs =>
    cases h2 : convertFilters mt g.nodes objects with
    | error k => exact ⟨k, by unfold matchLayerRule; simp only [h1, h2]⟩
    | ok objs =>
      cases h3 : runQueries g b d subs objs with
      | error k => exact ⟨k, by unfold matchLayerRule; simp only [h1, h2, h3]⟩
      | ok q => exact ⟨_, matchLayerRule_inconsistent mt g a b d subjects objects subs objs q h1 h2 h3 hc⟩

/-- the layer mapping `assert_applies` builds for a rule object (`LayerRuleMatcher._update_layer_mapping` on the
    subjects and objects that are left after `_convert_aliases`) -/
def stateLayerMap (mt : Str → Str → Bool) (g : PGraph Str) (larch : LArch) (r : RuleState) : LayerMap :=
  ruleMap mt g larch ((convertAliases r.cfg).subjects.getD []) ((convertAliases r.cfg).objects.getD [])

/-- `assert_applies` of ANY layer rule object whose layer mapping is inconsistent raises -/
theorem assertAppliesLayer_err_of_inconsistent (mt : Str → Str → Bool) (g : PGraph Str) (larch : LArch) (r : RuleState)
    (hc : (stateLayerMap mt g larch r).consistent = false) :
    ∃ k, assertAppliesLayer mt ⟨some larch, some r⟩ g = .err k := by
  unfold stateLayerMap at hc
  unfold assertAppliesLayer
  simp only
  split
  · exact ⟨_, rfl⟩
  · split
    · exact ⟨_, rfl⟩
    · split
      · exact ⟨_, rfl⟩
      · split
        · exact ⟨_, rfl⟩
        · split
          · rename_i d ss os _ hs ho
            rw [hs, ho] at hc
            exact matchLayerRule_err_of_inconsistent mt g larch _ d ss os hc
          · exact ⟨_, rfl⟩

end Pta
