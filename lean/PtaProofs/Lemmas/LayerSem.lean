/-
  PtaProofs.Lemmas.LayerSem — core of C05: once the filters of a layer rule are converted to the modules `S` (subject
  layer) and `O` (object layers), and every node has a layer tag that agrees with the specification's `inLayer`
  on the layers the rule mentions, the rest of `matchLayerRule` (queries, lenient detector, report) returns
  pass / fail exactly as `layerVerdict` says.
-/
import Bridge.LayerAbs
import PtaProofs.Lemmas.Semantics
import PtaProofs.Lemmas.LayerTag
import PtaProofs.Lemmas.LayerDetect
import PtaProofs.Lemmas.LayerConsistent
import PtaProofs.Lemmas.LayerQueries
namespace Pta
open PtaSpec

/-! ### the tail of `matchLayerRule` after filter conversion -/

def matchTail (g : PGraph Str) (m : LayerMap) (b : Behavior) (d : Bool) (subs objs : List Filter) : LVerdict :=
  match runQueries g b d subs objs with
  | .error k => .err k
  | .ok (expl, other) =>
    match detectL m b d expl other (objs.map Filter.toMod) with
    | .error k => .err k
    | .ok v =>
      if v.any then
        match reportItemsL m d v with
        | .error k => .err k
        | .ok items => .fail items
      else .pass

theorem matchLayerRule_eq (mt : Str → Str → Bool) (g : PGraph Str) (a : LArch) (b : Behavior) (d : Bool)
    (subjects objects subs objs : List Filter)
    (h1 : convertFilters mt g.nodes subjects = .ok subs) (h2 : convertFilters mt g.nodes objects = .ok objs)
    (hc : (updateLayerMap mt g.nodes a (((subjects ++ objects).filter (·.isRegex)).map (·.id))).consistent = true) :
    matchLayerRule mt g a b d subjects objects =
      matchTail g (updateLayerMap mt g.nodes a (((subjects ++ objects).filter (·.isRegex)).map (·.id))) b d subs objs := by
  unfold matchLayerRule matchTail
  simp only [h1, h2, hc, Bool.not_true, Bool.false_eq_true, if_false]
  rfl

/-! ### near / far ends of an import -/

def nearE (dir : Bool) (e : Name × Name) : Name := if dir then e.1 else e.2
def farE (dir : Bool) (e : Name × Name) : Name := if dir then e.2 else e.1

theorem mem_edges_named (a : Arch) (dir : Bool) (x y : Name) (e : Name × Name) :
    e ∈ edges a dir (.named x) (.named y) ↔
      e ∈ a.imports ∧ desc x (nearE dir e) = true ∧ desc y (farE dir e) = true := by
  cases dir <;> simp [edges, SFilter.mem, nearE, farE, and_comm]

theorem mem_others_named (a : Arch) (dir : Bool) (x : Name) (O : List Name) (e : Name × Name) :
    e ∈ others a dir (.named x) (O.map .named) ↔
      e ∈ a.imports ∧ desc x (nearE dir e) = true ∧ desc x (farE dir e) = false ∧
        ∀ y ∈ O, desc y (farE dir e) = false := by
  cases dir <;> simp [others, SFilter.mem, SFilter.id, nearE, farE, and_assoc]

theorem mem_access (a : Arch) (dir : Bool) (s o : List Name) (e : Name × Name) :
    e ∈ access a dir s o ↔ e ∈ a.imports ∧ inLayer s (nearE dir e) = true ∧ inLayer o (farE dir e) = true := by
  cases dir <;> simp [access, nearE, farE, and_comm]

theorem mem_otherAccess (a : Arch) (dir : Bool) (s : List Name) (os : List (List Name)) (e : Name × Name) :
    e ∈ otherAccess a dir s os ↔
      e ∈ a.imports ∧ inLayer s (nearE dir e) = true ∧ inLayer s (farE dir e) = false ∧
        ∀ o ∈ os, inLayer o (farE dir e) = false := by
  cases dir <;> simp [otherAccess, nearE, farE, and_assoc]

theorem isEmpty_false_iff_exists {α : Type} (l : List α) : l.isEmpty = false ↔ ∃ x, x ∈ l := by
  cases l <;> simp

theorem inLayer_congr {S s : List Name} (h : ∀ x, x ∈ S ↔ x ∈ s) (n : Name) : inLayer S n = inLayer s n := by
  rw [Bool.eq_iff_iff, inLayer_iff, inLayer_iff]
  constructor
  · rintro ⟨x, hx, hp⟩; exact ⟨x, (h x).1 hx, hp⟩
  · rintro ⟨x, hx, hp⟩; exact ⟨x, (h x).2 hx, hp⟩

/-! ### the context of the core lemma -/

/-- the module rule the converted layer rule amounts to (before the lenient detector) -/
def coreRule (r : LRuleSpec) (S O : List Name) : RuleSpec :=
  { verb := r.verb, importDir := r.importDir, exc := r.anything || r.exc,
    subjects := S.map .named, objects := O.map .named, anything := false }

/-- the behaviour flags of a layer rule after `_convert_aliases` -/
def behL (r : LRuleSpec) : Behavior :=
  ⟨r.verb == .should, r.verb == .shouldOnly, r.verb == .shouldNot, r.anything || r.exc⟩

theorem beh_coreRule (r : LRuleSpec) (S O : List Name) : beh (coreRule r S O) = behL r := by
  simp [beh, behL, coreRule, RuleSpec.effExc]

structure LCtx (a : Arch) (ls : Layers) (r : LRuleSpec) (m : LayerMap) (S O : List Name)
    (tag : Name → Option Str) : Prop where
  tagOk : ∀ n ∈ a.nodes, m.layerOf (render n) = .ok (tag n)
  tagSub : ∀ n, tag n = some r.subject ↔ inLayer (ls.get r.subject) n = true
  tagObj : r.anything = false → ∀ on ∈ r.objects, ∀ n, tag n = some on ↔ inLayer (ls.get on) n = true
  hasObj : r.anything = false → ∀ on ∈ r.objects, ∃ e ∈ m, e.1 = on
  /-- the queried subject modules generate the subject layer (they need not be all of its listed modules: the `any layer`
      aliases query the listed modules without those that are sub modules of other listed modules) -/
  inS : ∀ n, inLayer S n = inLayer (ls.get r.subject) n
  memO : ∀ x, x ∈ O ↔ if r.anything = true then x ∈ S else ∃ on ∈ r.objects, x ∈ ls.get on
  nodes : ∀ x ∈ S ++ O, x ∈ a.nodes
  sne : S ≠ []
  one : O ≠ []
  objNe : r.anything = false → ∀ on ∈ r.objects, ls.get on ≠ []
  subjNotObj : r.anything = false → r.subject ∉ r.objects
  /-- the check of the repaired `_update_layer_mapping` passes -/
  cons : m.consistent = true

section core
variable {a : Arch} {g : PGraph Str} {ls : Layers} {r : LRuleSpec} {m : LayerMap} {S O : List Name}
  {tag : Name → Option Str}

theorem LCtx.tagS_node (c : LCtx a ls r m S O tag) (n : Name) (hn : n ∈ a.nodes) : tagS m (render n) = tag n :=
  tagS_of_eq (c.tagOk n hn)

theorem LCtx.tagOkS (c : LCtx a ls r m S O tag) (n : Name) (hn : n ∈ a.nodes) : TagOk m (render n) :=
  tagOk_of_eq (c.tagOk n hn)

theorem nearE_mem (hw : ArchWF a) (dir : Bool) (e : Name × Name) (he : e ∈ a.imports) : nearE dir e ∈ a.nodes := by
  cases dir
  · exact hw.impR e he
  · exact hw.impL e he

theorem farE_mem (hw : ArchWF a) (dir : Bool) (e : Name × Name) (he : e ∈ a.imports) : farE dir e ∈ a.nodes := by
  cases dir
  · exact hw.impL e he
  · exact hw.impR e he

/-- tags of the two raw ends differ iff the tags of near and far end differ -/
theorem tags_ne_iff (c : LCtx a ls r m S O tag) (hw : ArchWF a) (dir : Bool) (e : Name × Name) (he : e ∈ a.imports) :
    tagS m (render e.1) ≠ tagS m (render e.2) ↔ tag (nearE dir e) ≠ tag (farE dir e) := by
  rw [c.tagS_node _ (hw.impL e he), c.tagS_node _ (hw.impR e he)]
  cases dir
  · simp only [nearE, farE, Bool.false_eq_true, if_false]
    exact ⟨fun h h' => h h'.symm, fun h h' => h h'.symm⟩
  · simp only [nearE, farE, if_true]

/-! #### subjects / objects of the core rule -/

theorem mem_core_subjects (f : SFilter) : f ∈ (coreRule r S O).subjects ↔ ∃ x ∈ S, f = .named x := by
  simp only [coreRule, List.mem_map]
  constructor
  · rintro ⟨x, hx, rfl⟩; exact ⟨x, hx, rfl⟩
  · rintro ⟨x, hx, rfl⟩; exact ⟨x, hx, rfl⟩

theorem mem_core_objects (f : SFilter) : f ∈ (coreRule r S O).effObjects ↔ ∃ y ∈ O, f = .named y := by
  simp only [coreRule, RuleSpec.effObjects, Bool.false_eq_true, if_false, List.mem_map]
  constructor
  · rintro ⟨x, hx, rfl⟩; exact ⟨x, hx, rfl⟩
  · rintro ⟨x, hx, rfl⟩; exact ⟨x, hx, rfl⟩

theorem core_effObjects : (coreRule r S O).effObjects = O.map .named := by
  simp [coreRule, RuleSpec.effObjects]

theorem core_dir : (coreRule r S O).importDir = r.importDir := rfl

/-! #### every raw identifier the detector looks up has a tag -/

theorem pairsOk_E (c : LCtx a ls r m S O tag) (hw : ArchWF a) {e : ExplDeps} (hE : ESpec a (coreRule r S O) e) :
    PairsOk m e := by
  intro kd hkd p hp
  obtain ⟨s, _, o, _, _, hrep⟩ := hE.1 kd hkd
  obtain ⟨e', he', h1, h2⟩ := (hrep p.1 p.2).1 hp
  have him : e' ∈ a.imports := (List.mem_filter.1 he').1
  rw [h1, h2]
  exact ⟨c.tagOkS _ (hw.impL e' him), c.tagOkS _ (hw.impR e' him)⟩

theorem pairsOk_O (c : LCtx a ls r m S O tag) (hw : ArchWF a) {o : OtherDeps} (hO : OSpec a (coreRule r S O) o) :
    PairsOk m o := by
  intro kd hkd p hp
  obtain ⟨s, _, _, hrep⟩ := hO.1 kd hkd
  obtain ⟨e', he', h1, h2⟩ := (hrep p.1 p.2).1 hp
  have him : e' ∈ a.imports := (List.mem_filter.1 he').1
  rw [h1, h2]
  exact ⟨c.tagOkS _ (hw.impL e' him), c.tagOkS _ (hw.impR e' him)⟩

/-- the key of an explicit entry: subject module and object module -/
theorem key_E {e : ExplDeps} (hE : ESpec a (coreRule r S O) e) (kd : Dep × List (Str × Str)) (hkd : kd ∈ e) :
    ∃ x ∈ S, ∃ y ∈ O, kd.1 = userOrder r.importDir ((⟨false, render x⟩ : Mod), (⟨false, render y⟩ : Mod)) ∧
      Rep kd.2 (edges a r.importDir (.named x) (.named y)) := by
  obtain ⟨s, hs, o, ho, h1, hrep⟩ := hE.1 kd hkd
  obtain ⟨x, hx, rfl⟩ := (mem_core_subjects s).1 hs
  obtain ⟨y, hy, rfl⟩ := (mem_core_objects o).1 ho
  exact ⟨x, hx, y, hy, h1, hrep⟩

theorem relevantOf_key (dir : Bool) (kd : Dep × List (Str × Str)) (sx sy : Mod) (h : kd.1 = userOrder dir (sx, sy)) :
    relevantOf dir kd = sy := by
  cases dir <;> simp [relevantOf, h, userOrder]

theorem relevantOk_E (c : LCtx a ls r m S O tag) {e : ExplDeps} (hE : ESpec a (coreRule r S O) e) :
    ∀ kd ∈ e, TagOk m (relevantOf r.importDir kd).id := by
  intro kd hkd
  obtain ⟨x, hx, y, hy, h1, _⟩ := key_E hE kd hkd
  rw [relevantOf_key _ _ _ _ h1]
  exact c.tagOkS y (c.nodes y (List.mem_append_right _ hy))

/-! #### the four emptiness equations -/

/-- (E1) realised explicit dependencies across layers ⟺ some object layer is accessed -/
theorem realisedP_E_nonempty (c : LCtx a ls r m S O tag) (hw : ArchWF a) (hany : r.anything = false)
    {e : ExplDeps} (hE : ESpec a (coreRule r S O) e) :
    (realisedP m r.importDir e).isEmpty = false ↔
      ∃ on ∈ r.objects, (access a r.importDir (ls.get r.subject) (ls.get on)).isEmpty = false := by
  rw [realisedP_isEmpty]
  have hmemO := c.memO
  simp only [hany, Bool.false_eq_true, if_false] at hmemO
  constructor
  · rintro ⟨kd, hkd, p, hp, _⟩
    obtain ⟨x, hx, y, hy, _, hrep⟩ := key_E hE kd hkd
    obtain ⟨e', he', _, _⟩ := (hrep p.1 p.2).1 hp
    obtain ⟨on, hon, hyon⟩ := (hmemO y).1 hy
    obtain ⟨him, hnear, hfar⟩ := (mem_edges_named a _ x y e').1 he'
    refine ⟨on, hon, (isEmpty_false_iff_exists _).2 ⟨e', (mem_access a _ _ _ e').2 ⟨him, ?_, ?_⟩⟩⟩
    · rw [← c.inS]; exact (inLayer_iff _ _).2 ⟨x, hx, (desc_iff _ _).1 hnear⟩
    · exact (inLayer_iff _ _).2 ⟨y, hyon, (desc_iff _ _).1 hfar⟩
  · rintro ⟨on, hon, hne⟩
    obtain ⟨e', he'⟩ := (isEmpty_false_iff_exists _).1 hne
    obtain ⟨him, hnear, hfar⟩ := (mem_access a _ _ _ e').1 he'
    obtain ⟨x, hxS, hxn⟩ := (inLayer_iff _ _).1 (by rw [c.inS]; exact hnear)
    obtain ⟨y, hy, hyn⟩ := (inLayer_iff _ _).1 hfar
    have hyO : y ∈ O := (hmemO y).2 ⟨on, hon, hy⟩
    obtain ⟨kd, hkd, _, hrep⟩ := hE.2 (.named x) ((mem_core_subjects _).2 ⟨x, hxS, rfl⟩) (.named y)
      ((mem_core_objects _).2 ⟨y, hyO, rfl⟩)
    have he'' : e' ∈ edges a r.importDir (.named x) (.named y) :=
      (mem_edges_named a _ x y e').2 ⟨him, (desc_iff _ _).2 hxn, (desc_iff _ _).2 hyn⟩
    refine ⟨kd, hkd, (render e'.1, render e'.2), (hrep _ _).2 ⟨e', he'', rfl, rfl⟩, ?_⟩
    rw [tags_ne_iff c hw r.importDir e' him, (c.tagSub _).2 hnear, (c.tagObj hany on hon _).2 hfar]
    intro h
    exact c.subjNotObj hany ((Option.some.inj h) ▸ hon)

/-- (E2) an object layer without any realised dependency ⟺ some object layer is not accessed -/
theorem abstractP_nonempty_iff (c : LCtx a ls r m S O tag) (hany : r.anything = false)
    {e : ExplDeps} (hE : ESpec a (coreRule r S O) e) :
    (abstractP m r.importDir e).isEmpty = false ↔
      ∃ on ∈ r.objects, (access a r.importDir (ls.get r.subject) (ls.get on)).isEmpty = true := by
  rw [abstractP_nonempty]
  have hmemO := c.memO
  simp only [hany, Bool.false_eq_true, if_false] at hmemO
  -- the tag of the relevant module of an entry is the object layer listing its object module
  have htag : ∀ kd ∈ e, ∀ x ∈ S, ∀ y ∈ O,
      kd.1 = userOrder r.importDir ((⟨false, render x⟩ : Mod), (⟨false, render y⟩ : Mod)) →
      ∀ on ∈ r.objects, y ∈ ls.get on → tagS m (relevantOf r.importDir kd).id = some on := by
    intro kd _ x _ y hy h1 on hon hyon
    rw [relevantOf_key _ _ _ _ h1]
    show tagS m (render y) = some on
    rw [c.tagS_node y (c.nodes y (List.mem_append_right _ hy))]
    exact (c.tagObj hany on hon y).2 (inLayer_self _ _ hyon)
  constructor
  · rintro ⟨layer, _, ⟨kd0, hkd0, ht0⟩, hall⟩
    obtain ⟨x0, hx0, y0, hy0, h10, _⟩ := key_E hE kd0 hkd0
    obtain ⟨on0, hon0, hyon0⟩ := (hmemO y0).1 hy0
    have hl : some layer.1 = some on0 := by rw [← ht0]; exact htag kd0 hkd0 x0 hx0 y0 hy0 h10 on0 hon0 hyon0
    refine ⟨on0, hon0, ?_⟩
    rw [List.isEmpty_iff]
    apply List.eq_nil_iff_forall_not_mem.2
    intro e' he'
    obtain ⟨him, hnear, hfar⟩ := (mem_access a _ _ _ e').1 he'
    obtain ⟨x, hxS, hxn⟩ := (inLayer_iff _ _).1 (by rw [c.inS]; exact hnear)
    obtain ⟨y, hy, hyn⟩ := (inLayer_iff _ _).1 hfar
    have hyO : y ∈ O := (hmemO y).2 ⟨on0, hon0, hy⟩
    obtain ⟨kd, hkd, h1, hrep⟩ := hE.2 (.named x) ((mem_core_subjects _).2 ⟨x, hxS, rfl⟩) (.named y)
      ((mem_core_objects _).2 ⟨y, hyO, rfl⟩)
    have he'' : e' ∈ edges a r.importDir (.named x) (.named y) :=
      (mem_edges_named a _ x y e').2 ⟨him, (desc_iff _ _).2 hxn, (desc_iff _ _).2 hyn⟩
    have hnil := hall kd hkd (by rw [hl]; exact htag kd hkd x hxS y hyO h1 on0 hon0 hy)
    have := (hrep (render e'.1) (render e'.2)).2 ⟨e', he'', rfl, rfl⟩
    rw [hnil] at this; cases this
  · rintro ⟨on, hon, hemp⟩
    obtain ⟨layer, hl, hln⟩ := c.hasObj hany on hon
    obtain ⟨y0, hy0⟩ := List.exists_mem_of_ne_nil _ (c.objNe hany on hon)
    obtain ⟨x0, hx0⟩ := List.exists_mem_of_ne_nil _ c.sne
    have hy0O : y0 ∈ O := (hmemO y0).2 ⟨on, hon, hy0⟩
    obtain ⟨kd0, hkd0, h10, _⟩ := hE.2 (.named x0) ((mem_core_subjects _).2 ⟨x0, hx0, rfl⟩) (.named y0)
      ((mem_core_objects _).2 ⟨y0, hy0O, rfl⟩)
    refine ⟨layer, hl, ⟨kd0, hkd0, ?_⟩, ?_⟩
    · rw [hln]; exact htag kd0 hkd0 x0 hx0 y0 hy0O h10 on hon hy0
    · intro kd hkd ht
      obtain ⟨x, hx, y, hy, h1, hrep⟩ := key_E hE kd hkd
      obtain ⟨on', hon', hyon'⟩ := (hmemO y).1 hy
      have : on' = on := by
        have h' := htag kd hkd x hx y hy h1 on' hon' hyon'
        rw [ht, hln] at h'
        exact (Option.some.inj h').symm
      subst this
      apply List.eq_nil_iff_forall_not_mem.2
      intro p hp
      obtain ⟨e', he', _, _⟩ := (hrep p.1 p.2).1 hp
      obtain ⟨him, hnear, hfar⟩ := (mem_edges_named a _ x y e').1 he'
      have : e' ∈ access a r.importDir (ls.get r.subject) (ls.get on') :=
        (mem_access a _ _ _ e').2 ⟨him, by rw [← c.inS]; exact (inLayer_iff _ _).2 ⟨x, hx, (desc_iff _ _).1 hnear⟩,
          (inLayer_iff _ _).2 ⟨y, hyon', (desc_iff _ _).1 hfar⟩⟩
      rw [List.isEmpty_iff] at hemp
      rw [hemp] at this; cases this

/-- (E3) realised "other" dependencies across layers ⟺ the subject layer accesses something else -/
theorem realisedP_O_nonempty (c : LCtx a ls r m S O tag) (hw : ArchWF a)
    {o : OtherDeps} (hO : OSpec a (coreRule r S O) o) :
    (realisedP m r.importDir o).isEmpty = false ↔
      (otherAccess a r.importDir (ls.get r.subject)
        (if r.anything = true then [] else r.objects.map ls.get)).isEmpty = false := by
  rw [realisedP_isEmpty, isEmpty_false_iff_exists]
  have hmemO := c.memO
  constructor
  · rintro ⟨kd, hkd, p, hp, hne⟩
    obtain ⟨s, hs, _, hrep⟩ := hO.1 kd hkd
    obtain ⟨x, hx, rfl⟩ := (mem_core_subjects s).1 hs
    rw [core_effObjects] at hrep
    have hrep : Rep kd.2 (others a r.importDir (.named x) (O.map .named)) := hrep
    obtain ⟨e', he', h1, h2⟩ := (hrep p.1 p.2).1 hp
    obtain ⟨him, hnear, hfarx, hfarO⟩ := (mem_others_named a r.importDir x O e').1 he'
    rw [h1, h2, tags_ne_iff c hw r.importDir e' him] at hne
    have hnearL : inLayer (ls.get r.subject) (nearE r.importDir e') = true := by
      rw [← c.inS]; exact (inLayer_iff _ _).2 ⟨x, hx, (desc_iff _ _).1 hnear⟩
    rw [(c.tagSub _).2 hnearL] at hne
    refine ⟨e', (mem_otherAccess a _ _ _ e').2 ⟨him, hnearL, ?_, ?_⟩⟩
    · cases hh : inLayer (ls.get r.subject) (farE r.importDir e')
      · rfl
      · exact absurd ((c.tagSub _).2 hh).symm hne
    · intro o' ho'
      cases hany : r.anything
      · simp only [hany, Bool.false_eq_true, if_false, List.mem_map] at ho' hmemO
        obtain ⟨on, hon, rfl⟩ := ho'
        cases hh : inLayer (ls.get on) (farE r.importDir e')
        · rfl
        · obtain ⟨y, hy, hyn⟩ := (inLayer_iff _ _).1 hh
          have := hfarO y ((hmemO y).2 ⟨on, hon, hy⟩)
          rw [(desc_iff _ _).2 hyn] at this; cases this
      · simp [hany] at ho'
  · rintro ⟨e', he'⟩
    obtain ⟨him, hnear, hfarS, hfarO⟩ := (mem_otherAccess a _ _ _ e').1 he'
    obtain ⟨x, hxS, hxn⟩ := (inLayer_iff _ _).1 (by rw [c.inS]; exact hnear)
    have hx := hxS
    obtain ⟨kd, hkd, _, hrep⟩ := hO.2 (.named x) ((mem_core_subjects _).2 ⟨x, hxS, rfl⟩)
    rw [core_effObjects] at hrep
    have hrep : Rep kd.2 (others a r.importDir (.named x) (O.map .named)) := hrep
    have hfarS' : inLayer S (farE r.importDir e') = false := by rw [c.inS]; exact hfarS
    have hnotS : ∀ z ∈ S, desc z (farE r.importDir e') = false := by
      intro z hz
      cases hd : desc z (farE r.importDir e')
      · rfl
      · rw [(inLayer_iff _ _).2 ⟨z, hz, (desc_iff _ _).1 hd⟩] at hfarS'; cases hfarS'
    have he'' : e' ∈ others a r.importDir (.named x) (O.map .named) := by
      refine (mem_others_named a _ x O e').2 ⟨him, (desc_iff _ _).2 hxn, hnotS x hx, ?_⟩
      intro y hy
      cases hany : r.anything
      · simp only [hany, Bool.false_eq_true, if_false] at hmemO hfarO
        obtain ⟨on, hon, hyon⟩ := (hmemO y).1 hy
        cases hd : desc y (farE r.importDir e')
        · rfl
        · have := hfarO (ls.get on) (List.mem_map.2 ⟨on, hon, rfl⟩)
          rw [(inLayer_iff _ _).2 ⟨y, hyon, (desc_iff _ _).1 hd⟩] at this; cases this
      · simp only [hany, if_true] at hmemO
        exact hnotS y ((hmemO y).1 hy)
    refine ⟨kd, hkd, (render e'.1, render e'.2), (hrep _ _).2 ⟨e', he'', rfl, rfl⟩, ?_⟩
    rw [tags_ne_iff c hw r.importDir e' him, (c.tagSub _).2 hnear]
    intro h
    rw [(c.tagSub _).1 h.symm] at hfarS; cases hfarS

/-! #### `detectP`: which buckets are filled -/

theorem detectP_any (m : LayerMap) (v : Verb) (x d : Bool) (e : ExplDeps) (o : OtherDeps) (objsM : List Mod) :
    (detectP m ⟨v == .should, v == .shouldOnly, v == .shouldNot, x⟩ d
      (if ((⟨v == .should, v == .shouldOnly, v == .shouldNot, x⟩ : Behavior).explReq ||
           (⟨v == .should, v == .shouldOnly, v == .shouldNot, x⟩ : Behavior).explForb) = true then some e else none)
      (if ((⟨v == .should, v == .shouldOnly, v == .shouldNot, x⟩ : Behavior).otherReq ||
           (⟨v == .should, v == .shouldOnly, v == .shouldNot, x⟩ : Behavior).otherForb) = true then some o else none)
      objsM).any =
    !(match v, x with
      | .should, false => (abstractP m d e).isEmpty
      | .shouldNot, false => (realisedP m d e).isEmpty
      | .shouldOnly, false => (abstractP m d e).isEmpty && (realisedP m d o).isEmpty
      | .should, true => (anyMissingP m d o objsM).isEmpty
      | .shouldOnly, true => (anyMissingP m d o objsM).isEmpty && (realisedP m d e).isEmpty
      | .shouldNot, true => (realisedP m d o).isEmpty) := by
  generalize hA : (abstractP m d e).isEmpty = A
  generalize hB : (realisedP m d e).isEmpty = B
  generalize hC : (realisedP m d o).isEmpty = C
  generalize hD : (anyMissingP m d o objsM).isEmpty = D
  cases v <;> cases x <;>
    simp [detectP, Violations.any, Behavior.explReq, Behavior.explForb, Behavior.otherReq, Behavior.otherForb,
      Behavior.expOtherNotPresent, Behavior.expExplNotPresent, Behavior.expExplAndNoOther,
      Behavior.expExplNotButOthers, Behavior.expAtLeastOneOther, Behavior.expExplPresent, hA, hB, hC, hD]
  all_goals exact Bool.or_comm _ _

theorem violOk_detectP (m : LayerMap) (b : Behavior) (d : Bool) (expl : Option ExplDeps) (other : Option OtherDeps)
    (objs : List Mod)
    (hE : ∀ e, expl = some e → DepsOk m (realisedP m d e) ∧ DepsOk m (abstractP m d e))
    (hO : ∀ o, other = some o → DepsOk m (realisedP m d o) ∧ DepsOk m (anyMissingP m d o objs)) :
    ViolOk m (detectP m b d expl other objs) := by
  cases expl with
  | none =>
    cases other with
    | none => constructor <;> exact depsOk_nil m
    | some o =>
      obtain ⟨h1, h2⟩ := hO o rfl
      constructor <;> simp only [detectP] <;> (try split) <;> first | exact depsOk_nil m | exact h1 | exact h2
  | some e =>
    obtain ⟨h3, h4⟩ := hE e rfl
    cases other with
    | none =>
      constructor <;> simp only [detectP] <;> (try split) <;> first | exact depsOk_nil m | exact h3 | exact h4
    | some o =>
      obtain ⟨h1, h2⟩ := hO o rfl
      constructor <;> simp only [detectP] <;> (try split) <;>
        first | exact depsOk_nil m | exact h1 | exact h2 | exact h3 | exact h4

/-- the tail of `matchLayerRule` in pure form, given that every lookup has a tag -/
theorem matchTail_pure (g : PGraph Str) (m : LayerMap) (b : Behavior) (d : Bool) (subs objs : List Filter)
    (expl : Option ExplDeps) (other : Option OtherDeps)
    (hq : runQueries g b d subs objs = .ok (expl, other))
    (hE : ∀ e, expl = some e → PairsOk m e ∧ (∀ kd ∈ e, TagOk m (relevantOf d kd).id) ∧ DepsOk m (abstractP m d e))
    (hO : ∀ o, other = some o → PairsOk m o ∧ DepsOk m (anyMissingP m d o (objs.map Filter.toMod))) :
    matchTail g m b d subs objs =
      if (detectP m b d expl other (objs.map Filter.toMod)).any then
        .fail (reportItemsP m d (detectP m b d expl other (objs.map Filter.toMod)))
      else .pass := by
  unfold matchTail
  rw [hq]
  simp only []
  rw [detectL_ok m b d expl other _ (fun e he => ⟨(hE e he).1, (hE e he).2.1⟩) (fun o ho => (hO o ho).1)]
  simp only []
  rw [reportItemsL_ok m d _ (violOk_detectP m b d expl other _
    (fun e he => ⟨depsOk_realisedP m d e (hE e he).1, (hE e he).2.2⟩)
    (fun o ho => ⟨depsOk_realisedP m d o (hO o ho).1, (hO o ho).2⟩))]

/-! #### the core lemma -/

/-- what the tail of `matchLayerRule` returns, in pure form -/
theorem matchTail_core (c : LCtx a ls r m S O tag) (hw : ArchWF a) (hg : GraphOf a g) :
    ∃ e o, ESpec a (coreRule r S O) e ∧ OSpec a (coreRule r S O) o ∧
      let expl := if ((behL r).explReq || (behL r).explForb) = true then some e else none
      let other := if ((behL r).otherReq || (behL r).otherForb) = true then some o else none
      let objsM := ((O.map SFilter.named).map compileFilter).map Filter.toMod
      let V := detectP m (behL r) r.importDir expl other objsM
      matchTail g m (behL r) r.importDir ((S.map SFilter.named).map compileFilter) ((O.map SFilter.named).map compileFilter) =
        if V.any then .fail (reportItemsP m r.importDir V) else .pass := by
  obtain ⟨e, o, hE, hO, hq⟩ := runQueries_compile_named hw hg (coreRule r S O)
    (fun f hf => by
      obtain ⟨x, hx, rfl⟩ := (mem_core_subjects f).1 hf
      exact c.nodes x (List.mem_append_left _ hx))
    (fun f hf => by
      obtain ⟨x, hx, rfl⟩ := (mem_core_objects f).1 hf
      exact c.nodes x (List.mem_append_right _ hx))
    (fun f hf => by
      obtain ⟨x, _, rfl⟩ := (mem_core_subjects f).1 hf
      rfl)
    (fun f hf => by
      obtain ⟨x, _, rfl⟩ := (mem_core_objects f).1 hf
      rfl)
  rw [beh_coreRule, core_effObjects] at hq
  refine ⟨e, o, hE, hO, ?_⟩
  have hq' : runQueries g (behL r) r.importDir ((S.map SFilter.named).map compileFilter)
      ((O.map SFilter.named).map compileFilter) = _ := hq
  have hPE := pairsOk_E c hw hE
  have hPO := pairsOk_O c hw hO
  have hRel := relevantOk_E c hE
  simp only []
  apply matchTail_pure g m (behL r) r.importDir _ _ _ _ hq'
  · intro e' he'
    split at he'
    · cases he'
      refine ⟨hPE, hRel, ?_⟩
      intro x hx
      obtain ⟨kd, hkd, rfl⟩ := abstractP_mem m _ _ x hx
      obtain ⟨x', hx', y', hy', h1, _⟩ := key_E hE kd hkd
      rw [h1, userOrder_userOrder]
      exact ⟨c.tagOkS x' (c.nodes x' (List.mem_append_left _ hx')),
        c.tagOkS y' (c.nodes y' (List.mem_append_right _ hy'))⟩
    · cases he'
  · intro o' ho'
    split at ho'
    · cases ho'
      refine ⟨hPO, ?_⟩
      intro x hx
      obtain ⟨kd, hkd, om, hom, rfl⟩ := anyMissingP_mem m _ _ _ x hx
      obtain ⟨s, hs, h1, _⟩ := hO.1 kd hkd
      obtain ⟨x', hx', rfl⟩ := (mem_core_subjects s).1 hs
      simp only [List.mem_map] at hom
      obtain ⟨F, ⟨sf, ⟨y', hy', rfl⟩, rfl⟩, rfl⟩ := hom
      rw [h1]
      exact ⟨c.tagOkS x' (c.nodes x' (List.mem_append_left _ hx')),
        c.tagOkS y' (c.nodes y' (List.mem_append_right _ hy'))⟩
    · cases ho'

theorem other_ne_nil (c : LCtx a ls r m S O tag) {o : OtherDeps} (hO : OSpec a (coreRule r S O) o) : o ≠ [] := by
  obtain ⟨x0, hx0⟩ := List.exists_mem_of_ne_nil _ c.sne
  obtain ⟨kd, hkd, _⟩ := hO.2 (.named x0) ((mem_core_subjects _).2 ⟨x0, hx0, rfl⟩)
  intro h; rw [h] at hkd; cases hkd

theorem all_isEmpty_iff {α β γ : Type} (l : List α) (g : α → γ) (f : γ → List β) :
    ((l.map g).all fun o => (f o).isEmpty) = false ↔ ∃ o ∈ l, (f (g o)).isEmpty = false := by
  simp

theorem all_not_isEmpty_iff {α β γ : Type} (l : List α) (g : α → γ) (f : γ → List β) :
    ((l.map g).all fun o => !(f o).isEmpty) = false ↔ ∃ o ∈ l, (f (g o)).isEmpty = true := by
  simp

/-- the verdict class of the tail = the documented layer semantics -/
theorem matchTail_verdict (c : LCtx a ls r m S O tag) (hw : ArchWF a) (hg : GraphOf a g)
    (hanyV : r.anything = true → r.verb = .shouldNot) :
    (matchTail g m (behL r) r.importDir ((S.map SFilter.named).map compileFilter)
      ((O.map SFilter.named).map compileFilter)).cls = VClass.ofBool (layerVerdict a ls r) := by
  obtain ⟨e, o, hE, hO, hmt⟩ := matchTail_core c hw hg
  simp only [] at hmt
  rw [hmt]
  have hcls : ∀ (b : Bool) (items : List LItem),
      (if b = true then LVerdict.fail items else LVerdict.pass).cls = VClass.ofBool (!b) := by
    intro b items; cases b <;> rfl
  rw [hcls]
  congr 1
  have hb : behL r = ⟨r.verb == .should, r.verb == .shouldOnly, r.verb == .shouldNot, r.anything || r.exc⟩ := rfl
  rw [hb, detectP_any, Bool.not_not]
  have hobjs : (((O.map SFilter.named).map compileFilter).map Filter.toMod) ≠ [] := by
    simpa using c.one
  have h4 := anyMissingP_isEmpty m r.importDir o _ (other_ne_nil c hO) hobjs
  have h3 := realisedP_O_nonempty c hw hO
  unfold layerVerdict
  simp only []
  cases hany : r.anything
  · -- the twelve shapes
    have h1 := realisedP_E_nonempty c hw hany hE
    have h2 := abstractP_nonempty_iff c hany hE
    simp only [hany, Bool.false_eq_true, if_false, Bool.false_or] at h3 ⊢
    have e1 : (realisedP m r.importDir e).isEmpty =
        (r.objects.map ls.get).all fun o => (access a r.importDir (ls.get r.subject) o).isEmpty := by
      rw [Bool.eq_iff_iff, ← Bool.not_eq_false, ← Bool.not_eq_false (b := List.all _ _), h1, all_isEmpty_iff]
    have e2 : (abstractP m r.importDir e).isEmpty =
        (r.objects.map ls.get).all fun o => !(access a r.importDir (ls.get r.subject) o).isEmpty := by
      rw [Bool.eq_iff_iff, ← Bool.not_eq_false, ← Bool.not_eq_false (b := List.all _ _), h2, all_not_isEmpty_iff]
    have e3 : (realisedP m r.importDir o).isEmpty =
        (otherAccess a r.importDir (ls.get r.subject) (r.objects.map ls.get)).isEmpty := by
      rw [Bool.eq_iff_iff, ← Bool.not_eq_false, ← Bool.not_eq_false (b := List.isEmpty _), h3]
    rw [h4, e1, e2, e3]
    generalize ((r.objects.map ls.get).all fun o => (access a r.importDir (ls.get r.subject) o).isEmpty) = EN
    generalize ((r.objects.map ls.get).all fun o => !(access a r.importDir (ls.get r.subject) o).isEmpty) = EA
    generalize (otherAccess a r.importDir (ls.get r.subject) (r.objects.map ls.get)).isEmpty = OE
    cases r.verb <;> cases r.exc <;> simp only [] <;> cases EN <;> cases EA <;> cases OE <;> rfl
  · -- the two `any layer` aliases
    have hv := hanyV hany
    simp only [hany, if_true, Bool.true_or] at h3 ⊢
    have e3 : (realisedP m r.importDir o).isEmpty =
        (otherAccess a r.importDir (ls.get r.subject) []).isEmpty := by
      rw [Bool.eq_iff_iff, ← Bool.not_eq_false, ← Bool.not_eq_false (b := List.isEmpty _), h3]
    rw [hv, e3]
    simp

/-- soundness of the layer report: every reported import line is an import of the architecture whose ends carry
    different layer tags — the tags printed with it -/
theorem matchTail_sound (c : LCtx a ls r m S O tag) (hw : ArchWF a) (hg : GraphOf a g) (items : List LItem)
    (h : matchTail g m (behL r) r.importDir ((S.map SFilter.named).map compileFilter)
      ((O.map SFilter.named).map compileFilter) = .fail items) :
    ∀ u v b tu tv, LItem.imp u v b tu tv ∈ items →
      ∃ e ∈ a.imports, u = render e.1 ∧ v = render e.2 ∧ tu = tag e.1 ∧ tv = tag e.2 ∧ tu ≠ tv := by
  obtain ⟨e, o, hE, hO, hmt⟩ := matchTail_core c hw hg
  simp only [] at hmt
  rw [hmt] at h
  intro u v b tu tv hmem
  have hV : ∀ (V : Violations),
      (if V.any = true then LVerdict.fail (reportItemsP m r.importDir V) else .pass) = .fail items →
      items = reportItemsP m r.importDir V := by
    intro V hV
    by_cases hv : V.any = true
    · rw [if_pos hv] at hV; cases hV; rfl
    · rw [if_neg hv] at hV; cases hV
  have hit := hV _ h
  subst hit
  · obtain ⟨dd, hdd, huv, htu, htv⟩ := imp_mem_reportItemsP m _ _ u v b tu tv hmem
    have key : ∀ {κ : Type} (deps : List (κ × List (Str × Str))),
        (∀ kd ∈ deps, ∀ p ∈ kd.2, ∃ e' ∈ a.imports, p.1 = render e'.1 ∧ p.2 = render e'.2) →
        dd ∈ realisedP m r.importDir deps →
        ∃ e ∈ a.imports, u = render e.1 ∧ v = render e.2 ∧ tu = tag e.1 ∧ tv = tag e.2 ∧ tu ≠ tv := by
      intro κ deps hdeps hin
      obtain ⟨kd, hkd, p, hp, hp1, hne⟩ := mem_realisedP m _ deps dd hin
      obtain ⟨e', he', h1, h2⟩ := hdeps kd hkd p hp
      rw [← huv] at hp1
      have hu : u = render e'.1 := by rw [← h1, ← hp1]
      have hv : v = render e'.2 := by rw [← h2, ← hp1]
      refine ⟨e', he', hu, hv, ?_, ?_, ?_⟩
      · rw [htu, hu]; exact c.tagS_node _ (hw.impL e' he')
      · rw [htv, hv]; exact c.tagS_node _ (hw.impR e' he')
      · rw [htu, htv]
        rw [← hp1] at hne
        exact hne
    rcases detectP_forbidden_mem m _ _ _ _ _ dd hdd with ⟨e', he', hin⟩ | ⟨o', ho', hin⟩
    · split at he'
      · cases he'
        refine key _ ?_ hin
        intro kd hkd p hp
        obtain ⟨s, _, o', _, _, hrep⟩ := hE.1 kd hkd
        obtain ⟨e'', he'', h1, h2⟩ := (hrep p.1 p.2).1 hp
        exact ⟨e'', (List.mem_filter.1 he'').1, h1, h2⟩
      · cases he'
    · split at ho'
      · cases ho'
        refine key _ ?_ hin
        intro kd hkd p hp
        obtain ⟨s, _, _, hrep⟩ := hO.1 kd hkd
        obtain ⟨e'', he'', h1, h2⟩ := (hrep p.1 p.2).1 hp
        exact ⟨e'', (List.mem_filter.1 he'').1, h1, h2⟩
      · cases ho'

end core

end Pta
