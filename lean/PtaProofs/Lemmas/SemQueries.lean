/-
  PtaProofs.Lemmas.SemQueries — layer 3/4 of the C01 proof: what the three query families return on a strict rule,
  and the shape of `assertApplies (compile r)`.
-/
import PtaProofs.Lemmas.SemHier
import PtaProofs.Lemmas.DroppedAbsent
namespace Pta
open PtaSpec

/-! ### `mapM` in `Except` -/

theorem mapM_ok_of_forall {α β ε : Type} (f : α → Except ε β) (l : List α) (h : ∀ x ∈ l, ∃ y, f x = .ok y) :
    ∃ r, l.mapM f = .ok r ∧ ∀ y, y ∈ r ↔ ∃ x ∈ l, f x = .ok y := by
  induction l with
  | nil => exact ⟨[], rfl, by simp⟩
  | cons a l ih =>
    obtain ⟨b, hb⟩ := h a (by simp)
    obtain ⟨r, hr, hm⟩ := ih (fun x hx => h x (List.mem_cons_of_mem _ hx))
    refine ⟨b :: r, ?_, ?_⟩
    · rw [List.mapM_cons]; simp [hb, hr, bind, Except.bind, pure, Except.pure]
    · intro y
      simp only [List.mem_cons, hm]
      constructor
      · rintro (rfl | ⟨x, hx, hfx⟩)
        · exact ⟨a, .inl rfl, hb⟩
        · exact ⟨x, .inr hx, hfx⟩
      · rintro ⟨x, rfl | hx, hfx⟩
        · rw [hb] at hfx; cases hfx; exact .inl rfl
        · exact .inr ⟨x, hx, hfx⟩

theorem mapM_err {α β ε : Type} (f : α → Except ε β) (l : List α) (k : ε) (hex : ∃ x ∈ l, f x = .error k)
    (hall : ∀ x ∈ l, ∀ k', f x = .error k' → k' = k) : l.mapM f = .error k := by
  induction l with
  | nil => simp at hex
  | cons a l ih =>
    rw [List.mapM_cons]
    cases hfa : f a with
    | error k' =>
      rw [hall a (by simp) k' hfa]
      simp [bind, Except.bind]
    | ok b =>
      have : ∃ x ∈ l, f x = .error k := by
        obtain ⟨x, hx, hfx⟩ := hex
        rcases List.mem_cons.mp hx with rfl | hx
        · rw [hfa] at hfx; cases hfx
        · exact ⟨x, hx, hfx⟩
      rw [ih this (fun x hx => hall x (List.mem_cons_of_mem _ hx))]
      simp [bind, Except.bind]

/-! ### strictness, unpacked -/

theorem related_comm (x y : Name) : related x y = related y x := by
  simp [related, Bool.or_comm]

theorem pw_compat (l : List SFilter) (h : pairwiseUnrelated (l.map (·.id)) = true) :
    ∀ f ∈ l, ∀ f' ∈ l, Compat f f' := by
  induction l with
  | nil => simp
  | cons x xs ih =>
    simp only [List.map_cons, pairwiseUnrelated, Bool.and_eq_true, List.all_eq_true, List.mem_map,
      Bool.not_eq_true', forall_exists_index, and_imp, forall_apply_eq_imp_iff₂] at h
    intro f hf f' hf'
    rcases List.mem_cons.mp hf with h1 | h1 <;> rcases List.mem_cons.mp hf' with h2 | h2
    · exact .inl (h1.trans h2.symm)
    · exact .inr (h1 ▸ h.1 f' h2)
    · exact .inr (by rw [related_comm, h2]; exact h.1 f h1)
    · exact ih h.2 f h1 f' h2

structure RuleCtx (a : Arch) (r : RuleSpec) : Prop where
  compat : ∀ f ∈ r.subjects ++ r.effObjects, ∀ f' ∈ r.subjects ++ r.effObjects, Compat f f'
  names : ∀ f ∈ r.subjects ++ r.effObjects, f.id ∈ a.nodes

theorem ruleCtx_of (a : Arch) (r : RuleSpec) (hstrict : r.strict = true) (hnames : r.namesIn a = true) :
    RuleCtx a r := by
  constructor
  · unfold RuleSpec.strict at hstrict
    unfold RuleSpec.effObjects
    cases hany : r.anything
    · rw [hany] at hstrict
      simp only [Bool.false_eq_true, if_false, ← List.map_append] at hstrict ⊢
      exact pw_compat _ hstrict
    · rw [hany] at hstrict
      simp only [if_true, List.append_nil] at hstrict ⊢
      have := pw_compat _ hstrict
      intro f hf f' hf'
      exact this f (by simpa using hf) f' (by simpa using hf')
  · unfold RuleSpec.namesIn at hnames
    simp only [List.all_eq_true, List.contains_iff_mem] at hnames
    exact hnames

/-! ### the query families -/

section queries
variable {a : Arch} {g : PGraph Str} (hw : ArchWF a) (hg : GraphOf a g)
include hw hg

theorem getDeps_spec (A B : List SFilter) (hA : ∀ f ∈ A, f.id ∈ a.nodes) (hB : ∀ o ∈ B, o.id ∈ a.nodes)
    (hc : ∀ f ∈ A, ∀ o ∈ B, Compat f o ∧ Compat o f) :
    ∃ e, getDependencies g (A.map compileFilter) (B.map compileFilter) = .ok e ∧
      (∀ kd ∈ e, ∃ f ∈ A, ∃ o ∈ B, kd.1 = (sfilterMod f, sfilterMod o) ∧ Rep kd.2 (edges a true f o)) ∧
      (∀ f ∈ A, ∀ o ∈ B, ∃ kd ∈ e, kd.1 = (sfilterMod f, sfilterMod o) ∧ Rep kd.2 (edges a true f o)) := by
  unfold getDependencies
  have hpairs : ∀ fo, fo ∈ ((dedup (A.map compileFilter)).flatMap fun f =>
      (dedup (B.map compileFilter)).map fun o => (f, o)) ↔
      ∃ f ∈ A, ∃ o ∈ B, fo = (compileFilter f, compileFilter o) := by
    intro fo
    simp only [List.mem_flatMap, List.mem_map, mem_dedup]
    constructor
    · rintro ⟨_, ⟨f, hf, rfl⟩, _, ⟨o, ho, rfl⟩, rfl⟩; exact ⟨f, hf, o, ho, rfl⟩
    · rintro ⟨f, hf, o, ho, rfl⟩; exact ⟨_, ⟨f, hf, rfl⟩, _, ⟨o, ho, rfl⟩, rfl⟩
  obtain ⟨e, he, hm⟩ := mapM_ok_of_forall (fun fo : Filter × Filter => do
      let d ← depBetween g fo.1 fo.2
      pure ((fo.1.toMod, fo.2.toMod), d)) _ (by
    intro fo hfo
    obtain ⟨f, hf, o, ho, rfl⟩ := (hpairs fo).1 hfo
    obtain ⟨l, hl, _⟩ := depBetween_rep hw hg f o (hA f hf) (hB o ho) (hc f hf o ho).1 (hc f hf o ho).2
    exact ⟨_, by simp only [hl, bind, Except.bind, pure, Except.pure]; rfl⟩)
  refine ⟨e, he, ?_, ?_⟩
  · intro kd hkd
    obtain ⟨fo, hfo, hfx⟩ := (hm kd).1 hkd
    obtain ⟨f, hf, o, ho, rfl⟩ := (hpairs fo).1 hfo
    obtain ⟨l, hl, hrep⟩ := depBetween_rep hw hg f o (hA f hf) (hB o ho) (hc f hf o ho).1 (hc f hf o ho).2
    simp only [hl, bind, Except.bind, pure, Except.pure, Except.ok.injEq] at hfx
    subst hfx
    exact ⟨f, hf, o, ho, by simp, hrep⟩
  · intro f hf o ho
    obtain ⟨l, hl, hrep⟩ := depBetween_rep hw hg f o (hA f hf) (hB o ho) (hc f hf o ho).1 (hc f hf o ho).2
    refine ⟨((sfilterMod f, sfilterMod o), l), (hm _).2 ⟨(compileFilter f, compileFilter o),
      (hpairs _).2 ⟨f, hf, o, ho, rfl⟩, ?_⟩, rfl, hrep⟩
    simp only [hl, bind, Except.bind, pure, Except.pure, compileFilter_toMod]

omit hw hg in
theorem mem_dedup_map (os : List SFilter) (F : Filter) :
    F ∈ dedup (os.map compileFilter) ↔ ∃ o ∈ os, F = compileFilter o := by
  simp only [mem_dedup, List.mem_map]
  constructor
  · rintro ⟨o, ho, rfl⟩; exact ⟨o, ho, rfl⟩
  · rintro ⟨o, ho, rfl⟩; exact ⟨o, ho, rfl⟩

theorem getOtherFrom_spec (S os : List SFilter) (hS : ∀ f ∈ S, f.id ∈ a.nodes) (hos : ∀ o ∈ os, o.id ∈ a.nodes)
    (hso : ∀ s ∈ S, ∀ o ∈ os, Compat s o) (hoo : ∀ o ∈ os, ∀ p ∈ os, Compat o p) :
    ∃ e, getOtherFrom g (S.map compileFilter) (os.map compileFilter) = .ok e ∧
      (∀ kd ∈ e, ∃ s ∈ S, kd.1 = sfilterMod s ∧ Rep kd.2 (others a true s os)) ∧
      (∀ s ∈ S, ∃ kd ∈ e, kd.1 = sfilterMod s ∧ Rep kd.2 (others a true s os)) := by
  unfold getOtherFrom
  have hL := mem_dedup_map os
  obtain ⟨e, he, hm⟩ := mapM_ok_of_forall (fun f : Filter => do
      let d ← otherFrom g f (dedup (os.map compileFilter))
      pure (f.toMod, d)) (dedup (S.map compileFilter)) (by
    intro F hF
    obtain ⟨s, hs, rfl⟩ := (mem_dedup_map S F).1 hF
    obtain ⟨l, hl, _⟩ := otherFrom_rep hw hg s os _ hL (hS s hs) hos (hso s hs) hoo
    exact ⟨_, by simp only [hl, bind, Except.bind, pure, Except.pure]; rfl⟩)
  refine ⟨e, he, ?_, ?_⟩
  · intro kd hkd
    obtain ⟨F, hF, hfx⟩ := (hm kd).1 hkd
    obtain ⟨s, hs, rfl⟩ := (mem_dedup_map S F).1 hF
    obtain ⟨l, hl, hrep⟩ := otherFrom_rep hw hg s os _ hL (hS s hs) hos (hso s hs) hoo
    simp only [hl, bind, Except.bind, pure, Except.pure, Except.ok.injEq] at hfx
    subst hfx
    exact ⟨s, hs, by simp, hrep⟩
  · intro s hs
    obtain ⟨l, hl, hrep⟩ := otherFrom_rep hw hg s os _ hL (hS s hs) hos (hso s hs) hoo
    refine ⟨(sfilterMod s, l), (hm _).2 ⟨compileFilter s, (mem_dedup_map S _).2 ⟨s, hs, rfl⟩, ?_⟩, rfl, hrep⟩
    simp only [hl, bind, Except.bind, pure, Except.pure, compileFilter_toMod]

theorem getOtherTo_spec (S os : List SFilter) (hS : ∀ f ∈ S, f.id ∈ a.nodes) (hos : ∀ o ∈ os, o.id ∈ a.nodes)
    (hso : ∀ s ∈ S, ∀ o ∈ os, Compat s o) (hoo : ∀ o ∈ os, ∀ p ∈ os, Compat o p) :
    ∃ e, getOtherTo g (os.map compileFilter) (S.map compileFilter) = .ok e ∧
      (∀ kd ∈ e, ∃ s ∈ S, kd.1 = sfilterMod s ∧ Rep kd.2 (others a false s os)) ∧
      (∀ s ∈ S, ∃ kd ∈ e, kd.1 = sfilterMod s ∧ Rep kd.2 (others a false s os)) := by
  unfold getOtherTo
  have hL := mem_dedup_map os
  obtain ⟨e, he, hm⟩ := mapM_ok_of_forall (fun o : Filter => do
      let d ← otherTo g (dedup (os.map compileFilter)) o
      pure (o.toMod, d)) (dedup (S.map compileFilter)) (by
    intro F hF
    obtain ⟨s, hs, rfl⟩ := (mem_dedup_map S F).1 hF
    obtain ⟨l, hl, _⟩ := otherTo_rep hw hg s os _ hL (hS s hs) hos (hso s hs) hoo
    exact ⟨_, by simp only [hl, bind, Except.bind, pure, Except.pure]; rfl⟩)
  refine ⟨e, he, ?_, ?_⟩
  · intro kd hkd
    obtain ⟨F, hF, hfx⟩ := (hm kd).1 hkd
    obtain ⟨s, hs, rfl⟩ := (mem_dedup_map S F).1 hF
    obtain ⟨l, hl, hrep⟩ := otherTo_rep hw hg s os _ hL (hS s hs) hos (hso s hs) hoo
    simp only [hl, bind, Except.bind, pure, Except.pure, Except.ok.injEq] at hfx
    subst hfx
    exact ⟨s, hs, by simp, hrep⟩
  · intro s hs
    obtain ⟨l, hl, hrep⟩ := otherTo_rep hw hg s os _ hL (hS s hs) hos (hso s hs) hoo
    refine ⟨(sfilterMod s, l), (hm _).2 ⟨compileFilter s, (mem_dedup_map S _).2 ⟨s, hs, rfl⟩, ?_⟩, rfl, hrep⟩
    simp only [hl, bind, Except.bind, pure, Except.pure, compileFilter_toMod]

end queries

/-! ### the shape of `assertApplies (compile r)` -/

def beh (r : RuleSpec) : Behavior := ⟨r.verb == .should, r.verb == .shouldOnly, r.verb == .shouldNot, r.effExc⟩

theorem convertFilters_map (mt : Str → Str → Bool) (mods : List Str) (fs : List SFilter) :
    convertFilters mt mods (fs.map compileFilter) = .ok (fs.map compileFilter) := by
  have h1 : (fs.map compileFilter).filter (·.isRegex) = [] := by
    rw [List.filter_eq_nil_iff]
    intro F hF
    obtain ⟨f, _, rfl⟩ := List.mem_map.1 hF
    simp
  have h2 : (fs.map compileFilter).filter (fun f => !f.isRegex) = fs.map compileFilter := by
    rw [List.filter_eq_self]
    intro F hF
    obtain ⟨f, _, rfl⟩ := List.mem_map.1 hF
    simp
  unfold convertFilters
  have h3 : ∀ l : List Str, l.filter (fun _ => false) = [] := fun l => List.filter_eq_nil_iff.2 (by simp)
  simp only [h1, h2]
  simp [h3, dedup]

theorem dedupSubjects_strict {a : Arch} (hw : ArchWF a) (S : List SFilter) (hS : ∀ f ∈ S, f.id ∈ a.nodes)
    (hc : ∀ f ∈ S, ∀ f' ∈ S, Compat f f') :
    dedupSubjects (S.map compileFilter) = S.map compileFilter := by
  unfold dedupSubjects
  rw [List.filter_eq_self]
  intro F hF
  obtain ⟨f, hf, rfl⟩ := List.mem_map.1 hF
  simp only [Bool.not_eq_true', List.any_eq_false, List.mem_map, forall_exists_index, and_imp,
    forall_apply_eq_imp_iff₂, compileFilter_id]
  intro f' hf'
  rw [isStrictSub_render _ _ (hw.nwf _ (hS f' hf')) (hw.nwf _ (hS f hf))]
  cases hsd : sdesc f'.id f.id
  · simp
  · exfalso
    rw [sdesc_iff] at hsd
    rcases hc f' hf' f hf with rfl | h
    · exact hsd.2 rfl
    · simp [related, (desc_iff _ _).2 hsd.1] at h

theorem assertApplies_compile (mt : Str → Str → Bool) (g : PGraph Str) (r : RuleSpec)
    (hs : r.subjects ≠ []) (ho : r.anything = true ∨ r.objects ≠ [])
    (hany : r.anything = true → r.verb = .shouldNot)
    (hdd : r.anything = true → dedupSubjects (r.subjects.map compileFilter) = r.subjects.map compileFilter) :
    (assertApplies mt (compile r) g).2 =
      match runQueries g (beh r) r.importDir (r.subjects.map compileFilter) (r.effObjects.map compileFilter) with
      | .error k => .err k
      | .ok (expl, other) =>
        let v := detect (beh r) r.importDir expl other ((r.effObjects.map compileFilter).map Filter.toMod)
        if v.any then .fail (reportItems r.importDir v) else .pass := by
  obtain ⟨verb, dir, exc, subjects, objects, anything⟩ := r
  simp only at hs ho hany hdd
  cases anything
  · have ho' : objects ≠ [] := by simpa using ho
    have hs1 : (subjects.map compileFilter).isEmpty = false := by cases subjects <;> simp_all
    have ho1 : (objects.map compileFilter).isEmpty = false := by cases objects <;> simp_all
    cases verb <;> cases exc <;>
      simp [assertApplies, compile, anythingMisused, droppedAbsent, convertAliases, configMissing, RuleConfig.behavior,
        Behavior.inconsistent, Behavior.explReq, Behavior.explForb, Behavior.otherReq, Behavior.otherForb,
        hs1, ho1, matchRule, convertFilters_map, beh, RuleSpec.effObjects, RuleSpec.effExc] <;> rfl
  · have hv : verb = .shouldNot := hany rfl
    subst hv
    have hdd' := hdd rfl
    have hs1 : (subjects.map compileFilter).isEmpty = false := by cases subjects <;> simp_all
    have hda : droppedAbsent g (convertAliases (compile ⟨.shouldNot, dir, exc, subjects, objects, true⟩).cfg) = false := by
      rw [droppedAbsent_convert g _ (subjects.map compileFilter) rfl rfl]
      exact droppedAbsentIn_of_dedup_eq g _ hdd'
    rw [assertApplies]
    simp only [hda]
    simp [compile, anythingMisused, convertAliases, configMissing, RuleConfig.behavior,
        Behavior.inconsistent, Behavior.explReq, Behavior.explForb, Behavior.otherReq, Behavior.otherForb,
        hs1, hdd', matchRule, convertFilters_map, beh, RuleSpec.effObjects, RuleSpec.effExc]
    rfl

/-! ### what `runQueries` returns on a strict rule -/

def ESpec (a : Arch) (r : RuleSpec) (e : ExplDeps) : Prop :=
  (∀ kd ∈ e, ∃ s ∈ r.subjects, ∃ o ∈ r.effObjects,
      kd.1 = userOrder r.importDir (sfilterMod s, sfilterMod o) ∧ Rep kd.2 (edges a r.importDir s o)) ∧
  (∀ s ∈ r.subjects, ∀ o ∈ r.effObjects, ∃ kd ∈ e,
      kd.1 = userOrder r.importDir (sfilterMod s, sfilterMod o) ∧ Rep kd.2 (edges a r.importDir s o))

def OSpec (a : Arch) (r : RuleSpec) (e : OtherDeps) : Prop :=
  (∀ kd ∈ e, ∃ s ∈ r.subjects, kd.1 = sfilterMod s ∧ Rep kd.2 (others a r.importDir s r.effObjects)) ∧
  (∀ s ∈ r.subjects, ∃ kd ∈ e, kd.1 = sfilterMod s ∧ Rep kd.2 (others a r.importDir s r.effObjects))

theorem edges_false (a : Arch) (s o : SFilter) : edges a false s o = edges a true o s := rfl

theorem runQueries_compile {a : Arch} {g : PGraph Str} (hw : ArchWF a) (hg : GraphOf a g) (r : RuleSpec)
    (ctx : RuleCtx a r) :
    ∃ e o, ESpec a r e ∧ OSpec a r o ∧
      runQueries g (beh r) r.importDir (r.subjects.map compileFilter) (r.effObjects.map compileFilter) =
        .ok (if ((beh r).explReq || (beh r).explForb) = true then some e else none,
             if ((beh r).otherReq || (beh r).otherForb) = true then some o else none) := by
  have hS : ∀ f ∈ r.subjects, f.id ∈ a.nodes := fun f hf => ctx.names f (List.mem_append_left _ hf)
  have hO : ∀ f ∈ r.effObjects, f.id ∈ a.nodes := fun f hf => ctx.names f (List.mem_append_right _ hf)
  have hSO : ∀ s ∈ r.subjects, ∀ o ∈ r.effObjects, Compat s o :=
    fun s hs o ho => ctx.compat s (List.mem_append_left _ hs) o (List.mem_append_right _ ho)
  have hOS : ∀ s ∈ r.subjects, ∀ o ∈ r.effObjects, Compat o s :=
    fun s hs o ho => ctx.compat o (List.mem_append_right _ ho) s (List.mem_append_left _ hs)
  have hOO : ∀ o ∈ r.effObjects, ∀ p ∈ r.effObjects, Compat o p :=
    fun s hs o ho => ctx.compat s (List.mem_append_right _ hs) o (List.mem_append_right _ ho)
  cases hd : r.importDir
  · obtain ⟨e, he, he1, he2⟩ := getDeps_spec hw hg r.effObjects r.subjects hO hS
      (fun o ho s hs => ⟨hOS s hs o ho, hSO s hs o ho⟩)
    obtain ⟨o, ho, ho1, ho2⟩ := getOtherTo_spec hw hg r.subjects r.effObjects hS hO hSO hOO
    refine ⟨e, o, ⟨?_, ?_⟩, ⟨?_, ?_⟩, ?_⟩
    · intro kd hkd
      obtain ⟨f, hf, s, hs, h1, h2⟩ := he1 kd hkd
      exact ⟨s, hs, f, hf, by simp [hd, userOrder, h1], by rw [hd, edges_false]; exact h2⟩
    · intro s hs f hf
      obtain ⟨kd, hkd, h1, h2⟩ := he2 f hf s hs
      exact ⟨kd, hkd, by simp [hd, userOrder, h1], by rw [hd, edges_false]; exact h2⟩
    · simpa [hd] using ho1
    · simpa [hd] using ho2
    · rw [runQueries_ok_iff]
      constructor
      · split
        · exact ⟨e, by simpa using he, rfl⟩
        · rfl
      · split
        · exact ⟨o, by simpa using ho, rfl⟩
        · rfl
  · obtain ⟨e, he, he1, he2⟩ := getDeps_spec hw hg r.subjects r.effObjects hS hO
      (fun s hs o ho => ⟨hSO s hs o ho, hOS s hs o ho⟩)
    obtain ⟨o, ho, ho1, ho2⟩ := getOtherFrom_spec hw hg r.subjects r.effObjects hS hO hSO hOO
    refine ⟨e, o, ⟨?_, ?_⟩, ⟨?_, ?_⟩, ?_⟩
    · intro kd hkd
      obtain ⟨s, hs, f, hf, h1, h2⟩ := he1 kd hkd
      exact ⟨s, hs, f, hf, by simp [hd, userOrder, h1], by rw [hd]; exact h2⟩
    · intro s hs f hf
      obtain ⟨kd, hkd, h1, h2⟩ := he2 s hs f hf
      exact ⟨kd, hkd, by simp [hd, userOrder, h1], by rw [hd]; exact h2⟩
    · simpa [hd] using ho1
    · simpa [hd] using ho2
    · rw [runQueries_ok_iff]
      constructor
      · split
        · exact ⟨e, by simpa using he, rfl⟩
        · rfl
      · split
        · exact ⟨o, by simpa using ho, rfl⟩
        · rfl

end Pta
