/-
  PtaProofs.Lemmas.MessageText — the message TEXT (PtaModel/Message.lean) against the report items
  (PtaModel/Rule.lean `reportItems`) and the line shapes of Bridge/Message.lean:
    * `strLe` is a total order, so `sorted(set(lines))` depends on the SET of lines only (`canon_ext`);
    * `messageLines d v = renderItems (reportItems d v)` (`messageLines_eq_lemma`), and the text-valued
      `assert_applies` is the item-valued one with the items rendered (`assertAppliesText_eq_lemma`);
    * `parseLine (renderLine x) = some x` for names without `"` (`parseLine_renderLine_lemma`);
    * a line of the shape `"X" imports "Y".` / `"X" is imported by "Y".` comes from exactly that item
      (`renderLine_eq_imp_lemma`), by counting `"`.
-/
import Bridge.Abs
import Bridge.Message
import PtaProofs.Lemmas.SearchChar
import PtaProofs.Lemmas.GlobLabel
import PtaProofs.Lemmas.DiagramApply
import PtaProofs.Lemmas.DiagramSem
namespace Pta
open Pta.Dg

/-! ### `strLt` / `strLe`: a total order -/

theorem strLt_irrefl : ∀ a : Str, strLt a a = false
  | [] => rfl
  | a :: as => by simp [strLt, strLt_irrefl as]

theorem strLt_trans : ∀ a b c : Str, strLt a b = true → strLt b c = true → strLt a c = true
  | [], [], _, h, _ => by simp [strLt] at h
  | [], _ :: _, [], _, h => by simp [strLt] at h
  | [], _ :: _, _ :: _, _, _ => by simp [strLt]
  | _ :: _, [], _, h, _ => by simp [strLt] at h
  | _ :: _, _ :: _, [], _, h => by simp [strLt] at h
  | a :: as, b :: bs, c :: cs, h1, h2 => by
    have ih := strLt_trans as bs cs
    simp only [strLt] at h1 h2 ⊢
    grind

theorem strLt_trichotomy : ∀ a b : Str, strLt a b = false → strLt b a = false → a = b
  | [], [], _, _ => rfl
  | [], _ :: _, h, _ => by simp [strLt] at h
  | _ :: _, [], _, h => by simp [strLt] at h
  | a :: as, b :: bs, h1, h2 => by
    have ih := strLt_trichotomy as bs
    simp only [strLt] at h1 h2
    have : a.toNat = b.toNat := by grind
    have hab : a = b := Char.toNat_inj.1 this
    subst hab
    simp only [Nat.lt_irrefl, if_false] at h1 h2
    rw [ih h1 h2]

theorem strLt_asymm (a b : Str) (h : strLt a b = true) : strLt b a = false := by
  cases hb : strLt b a
  · rfl
  · have := strLt_trans a b a h hb
    rw [strLt_irrefl] at this
    cases this

theorem strLe_total (a b : Str) (h : strLe a b = false) : strLe b a = true := by
  unfold strLe at *
  cases hb : strLt b a
  · simp [hb] at h
  · simp [strLt_asymm b a hb]

theorem strLe_trans (a b c : Str) (h1 : strLe a b = true) (h2 : strLe b c = true) : strLe a c = true := by
  unfold strLe at *
  simp only [Bool.not_eq_true'] at *
  cases hca : strLt c a
  · rfl
  · cases hab : strLt a b
    · have := strLt_trichotomy a b hab h1
      subst this
      rw [hca] at h2
      cases h2
    · have := strLt_trans c a b hca hab
      rw [this] at h2
      cases h2

theorem strLe_antisymm (a b : Str) (h1 : strLe a b = true) (h2 : strLe b a = true) : a = b := by
  unfold strLe at *
  simp only [Bool.not_eq_true'] at *
  exact strLt_trichotomy a b h2 h1

/-! ### sorting: the result depends on the multiset only; `sorted(set(...))` on the set only -/

theorem sortBy_eq_of_perm {α : Type} (le : α → α → Bool)
    (htot : ∀ a b, le a b = false → le b a = true)
    (htrans : ∀ a b c, le a b = true → le b c = true → le a c = true)
    (hanti : ∀ a b, le a b = true → le b a = true → a = b)
    (l₁ l₂ : List α) (h : l₁.Perm l₂) : sortBy le l₁ = sortBy le l₂ := by
  apply List.Perm.eq_of_pairwise (le := fun a b => le a b = true)
  · intro a b _ _ h1 h2
    exact hanti a b h1 h2
  · exact pairwise_sortBy le htot htrans l₁
  · exact pairwise_sortBy le htot htrans l₂
  · exact ((sortBy_perm le l₁).trans h).trans (sortBy_perm le l₂).symm

theorem sortStr_eq_of_perm (l₁ l₂ : List Str) (h : l₁.Perm l₂) : sortStr l₁ = sortStr l₂ :=
  sortBy_eq_of_perm strLe strLe_total strLe_trans strLe_antisymm l₁ l₂ h

/-- `sorted(set(l))` is a function of the set of elements of `l` -/
theorem canon_ext (l₁ l₂ : List Str) (h : ∀ x, x ∈ l₁ ↔ x ∈ l₂) : sortStr (dedup l₁) = sortStr (dedup l₂) := by
  apply sortStr_eq_of_perm
  rw [List.perm_ext_iff_of_nodup (nodup_dedup l₁) (nodup_dedup l₂)]
  intro x
  rw [mem_dedup, mem_dedup, h]

/-! ### the generator's pieces against the line shapes of Bridge/Message.lean -/

theorem quotedName_eq (n : Str) : quotedName n = quoted n := rfl

theorem ruleObjectText_eq (o : Mod) : ruleObjectText o = objText o := by
  unfold ruleObjectText objText
  cases o.group <;> rfl

theorem ruleSubjectText_eq (s : Mod) : ruleSubjectText s = subjText s := by
  unfold ruleSubjectText subjText
  cases s.group <;> rfl

theorem sortObjs_map (objs : List Mod) : (sortObjs objs).map objText = sortStr (objs.map objText) := by
  unfold sortObjs sortStr
  exact (sortBy_map strLe (fun a b => strLe (objText a) (objText b)) objText (fun _ _ => rfl) objs).symm

theorem renderItem_miss (any : Bool) (s : Mod) (objs : List Mod) (d : Bool) :
    renderItem (.miss any s objs d) =
      subjText s ++ (missVerb d s.group ++ (anyText any ++ (joinWith ", ".toList (sortStr (objs.map objText)) ++ ['.']))) := by
  unfold renderItem Item.canon renderLine
  simp only [sortObjs_map]

/-- the text of a `does not import` message is the `miss` line -/
theorem missText_eq (ir any : Bool) (s : Mod) (objsT : Str) :
    Msg.text ⟨ruleSubjectText s, concatVerb (baseVerb ir) (verbPrefix ir true (!s.group)) [], anyText any ++ objsT⟩ =
      subjText s ++ (missVerb (!ir) s.group ++ (anyText any ++ (objsT ++ ['.']))) := by
  obtain ⟨g, n⟩ := s
  cases ir <;> cases g <;> cases any <;> rfl

/-- the text of an `imports` message is the `imp` line -/
theorem impText_eq (ir : Bool) (d : Dep) :
    Msg.text ⟨(subjectAndObjectOfDependency d).1,
        concatVerb (baseVerb ir) (verbPrefix ir false true) (verbSuffix ir true), (subjectAndObjectOfDependency d).2⟩ =
      renderItem (.imp (userOrder ir (d.1.id, d.2.id)).1 (userOrder ir (d.1.id, d.2.id)).2 (!ir)) := by
  have h : subjectAndObjectOfDependency d = (quoted d.1.id, quoted d.2.id) := by
    unfold subjectAndObjectOfDependency moduleSuffix
    rw [List.append_nil, List.append_nil]; rfl
  rw [h]
  cases ir <;> rfl

/-! ### grouping by subject: the generator's lists against `missItems` -/

theorem nodup_map_on {α β : Type} (f : α → β) :
    ∀ (l : List α), l.Nodup → (∀ a ∈ l, ∀ b ∈ l, f a = f b → a = b) → (l.map f).Nodup
  | [], _, _ => List.nodup_nil
  | x :: xs, hn, hinj => by
    rw [List.nodup_cons] at hn
    rw [List.map_cons, List.nodup_cons]
    refine ⟨?_, nodup_map_on f xs hn.2 fun a ha b hb => hinj a (List.mem_cons_of_mem _ ha) b (List.mem_cons_of_mem _ hb)⟩
    intro hx
    obtain ⟨y, hy, hxy⟩ := List.mem_map.1 hx
    have := hinj y (List.mem_cons_of_mem _ hy) x List.mem_cons_self hxy
    subst this
    exact hn.1 hy

/-- the objects the generator collects for one subject are those of the report item, up to order -/
theorem objs_perm (ds : List Dep) (s : Mod) :
    (((setIter ds).filter fun d => d.1 = s).map (·.2)).Perm (dedup ((ds.filter fun d => d.1 = s).map (·.2))) := by
  rw [List.perm_ext_iff_of_nodup _ (nodup_dedup _)]
  · intro o
    simp only [setIter, mem_dedup, List.mem_map, List.mem_filter]
  · apply nodup_map_on
    · exact ((nodup_dedup ds).sublist List.filter_sublist)
    · intro a ha b hb hab
      simp only [List.mem_filter, decide_eq_true_eq] at ha hb
      exact Prod.ext (ha.2.trans hb.2.symm) hab

theorem objTexts_eq (ds : List Dep) (s : Mod) :
    sortStr ((((setIter ds).filter fun d => d.1 = s).map (·.2)).map ruleObjectText) =
      sortStr ((dedup ((ds.filter fun d => d.1 = s).map (·.2))).map objText) := by
  have : ruleObjectText = objText := funext ruleObjectText_eq
  rw [this]
  exact sortStr_eq_of_perm _ _ ((objs_perm ds s).map objText)

theorem objText_ne_nil (o : Mod) : objText o ≠ [] := by
  unfold objText quoted
  cases o.group <;> simp

theorem joinWith_ne_nil (sep : Str) : ∀ l : List Str, l ≠ [] → (∀ x ∈ l, x ≠ []) → joinWith sep l ≠ []
  | [], h, _ => absurd rfl h
  | [x], _, h => by simpa [joinWith] using h x (by simp)
  | x :: y :: r, _, h => by
    have := h x (by simp)
    simp [joinWith, this]

theorem sortStr_ne_nil (l : List Str) (h : l ≠ []) : sortStr l ≠ [] := by
  obtain ⟨x, hx⟩ := List.exists_mem_of_ne_nil l h
  exact List.ne_nil_of_mem ((mem_sortStr x l).2 hx)

theorem flatMap_singleton_on {α β : Type} (l : List α) (h : α → List β) (F : α → β) (hh : ∀ a ∈ l, h a = [F a]) :
    l.flatMap h = l.map F := by
  induction l with
  | nil => rfl
  | cons x xs ih =>
    rw [List.flatMap_cons, List.map_cons, hh x List.mem_cons_self,
      ih fun a ha => hh a (List.mem_cons_of_mem _ ha)]
    rfl

/-- the line of the `miss` item `missItems` builds for subject `s` -/
def missLineOf (any ir : Bool) (ds : List Dep) (s : Mod) : Str :=
  renderItem (.miss any s (dedup ((ds.filter fun d => d.1 = s).map (·.2))) (!ir))

theorem missItems_render (any ir : Bool) (ds : List Dep) :
    (missItems any ir ds).map renderItem = (dedup (ds.map (·.1))).map (missLineOf any ir ds) := by
  simp only [missItems, List.map_map]
  rfl

/-- the texts of one subject's objects are a non-empty list of non-empty strings -/
theorem objTexts_ok (ds : List Dep) (s : Mod) (hs : s ∈ ds.map (·.1)) :
    sortStr ((dedup ((ds.filter fun d => d.1 = s).map (·.2))).map objText) ≠ [] ∧
      ∀ x ∈ sortStr ((dedup ((ds.filter fun d => d.1 = s).map (·.2))).map objText), x ≠ [] := by
  obtain ⟨d, hd, rfl⟩ := List.mem_map.1 hs
  constructor
  · apply sortStr_ne_nil
    have : d.2 ∈ dedup ((ds.filter fun d' => d'.1 = d.1).map (·.2)) := by
      rw [mem_dedup]
      exact List.mem_map.2 ⟨d, List.mem_filter.2 ⟨hd, by simp⟩, rfl⟩
    exact List.ne_nil_of_mem (List.mem_map_of_mem this)
  · intro x hx
    rw [mem_sortStr] at hx
    obtain ⟨o, _, rfl⟩ := List.mem_map.1 hx
    exact objText_ne_nil o

theorem subjects_mem (ds : List Dep) (s : Mod) :
    s ∈ setIter ((setIter ds).map (·.1)) ↔ s ∈ dedup (ds.map (·.1)) := by
  simp only [setIter, mem_dedup, List.mem_map]

theorem isEmpty_false_of_ne {α : Type} (l : List α) (h : l ≠ []) : l.isEmpty = false := by
  cases l with
  | nil => exact absurd rfl h
  | cons _ _ => rfl

theorem addCombinedRuleObjects_of_ne (objs : List Str) (subj verb : Str) (h : joinWith kwCommaSpace objs ≠ []) :
    addCombinedRuleObjects objs subj verb = [⟨subj, verb, joinWith kwCommaSpace objs⟩] := by
  unfold addCombinedRuleObjects
  simp only [isEmpty_false_of_ne _ h, Bool.not_false, if_true]

theorem addCombinedAnyRuleObjects_of_ne (objs : List Str) (subj verb ty : Str) (h : objs ≠ []) :
    addCombinedAnyRuleObjects objs subj verb ty = [⟨subj, verb, ty ++ joinWith kwCommaSpace objs⟩] := by
  unfold addCombinedAnyRuleObjects
  simp only [isEmpty_false_of_ne _ h, Bool.not_false, if_true]

theorem noImportBetween_texts (ir : Bool) (ds : List Dep) :
    (noImportBetweenMsgs ir ds).map Msg.text =
      (setIter ((setIter ds).map (·.1))).map (missLineOf false ir ds) := by
  unfold noImportBetweenMsgs violatingSubjectsAndObjects
  simp only [List.flatMap_map, List.map_flatMap]
  apply flatMap_singleton_on
  intro s hs
  have hs' : s ∈ ds.map (·.1) := by
    rw [subjects_mem, mem_dedup] at hs; exact hs
  obtain ⟨h1, h2⟩ := objTexts_ok ds s hs'
  simp only [objTexts_eq]
  rw [addCombinedRuleObjects_of_ne _ _ _ (joinWith_ne_nil _ _ h1 h2), List.map_cons, List.map_nil]
  congr 1
  unfold missLineOf
  rw [renderItem_miss]
  exact missText_eq ir false s _

theorem noImportOtherThan_texts (ir : Bool) (ds : List Dep) :
    (noImportOtherThanMsgs ir ds).map Msg.text =
      (setIter ((setIter ds).map (·.1))).map (missLineOf true ir ds) := by
  unfold noImportOtherThanMsgs violatingSubjectsAndObjects
  simp only [List.flatMap_map, List.map_flatMap]
  apply flatMap_singleton_on
  intro s hs
  have hs' : s ∈ ds.map (·.1) := by
    rw [subjects_mem, mem_dedup] at hs; exact hs
  obtain ⟨h1, _⟩ := objTexts_ok ds s hs'
  simp only [objTexts_eq]
  rw [addCombinedAnyRuleObjects_of_ne _ _ _ _ h1, List.map_cons, List.map_nil]
  congr 1
  unfold missLineOf
  rw [renderItem_miss]
  exact missText_eq ir true s _

theorem mem_map_of_mem_iff {α β : Type} (f : α → β) (l₁ l₂ : List α) (h : ∀ a, a ∈ l₁ ↔ a ∈ l₂) (x : β) :
    x ∈ l₁.map f ↔ x ∈ l₂.map f := by
  simp only [List.mem_map, h]

theorem mem_noImportBetween (ir : Bool) (ds : List Dep) (x : Str) :
    x ∈ (noImportBetweenMsgs ir ds).map Msg.text ↔ x ∈ (missItems false ir ds).map renderItem := by
  rw [noImportBetween_texts, missItems_render]
  exact mem_map_of_mem_iff _ _ _ (subjects_mem ds) x

theorem mem_noImportOtherThan (ir : Bool) (ds : List Dep) (x : Str) :
    x ∈ (noImportOtherThanMsgs ir ds).map Msg.text ↔ x ∈ (missItems true ir ds).map renderItem := by
  rw [noImportOtherThan_texts, missItems_render]
  exact mem_map_of_mem_iff _ _ _ (subjects_mem ds) x

theorem mem_otherViolating (ir : Bool) (ds : List Dep) (x : Str) :
    x ∈ (otherViolatingMsgs ir ds).map Msg.text ↔ x ∈ (impItems ir ds).map renderItem := by
  unfold otherViolatingMsgs otherViolatingOfNames impItems
  simp only [List.mem_map, mem_sortBy, setIter, mem_dedup]
  constructor
  · rintro ⟨m, ⟨n, ⟨d, hd, rfl⟩, rfl⟩, rfl⟩
    exact ⟨_, ⟨d, hd, rfl⟩, (impText_eq ir d).symm⟩
  · rintro ⟨it, ⟨d, hd, rfl⟩, rfl⟩
    exact ⟨_, ⟨_, ⟨d, hd, rfl⟩, rfl⟩, impText_eq ir d⟩

/-- the generator's messages and the rendered report items are the same set of lines -/
theorem mem_violationMessages (ir : Bool) (v : Violations) (x : Str) :
    x ∈ (violationMessages ir v).map Msg.text ↔ x ∈ (reportItems ir v).map renderItem := by
  unfold violationMessages reportItems
  simp only [List.map_append, List.mem_append, mem_noImportBetween, mem_noImportOtherThan, mem_otherViolating]
  simp only [or_assoc]

/-- `line_of_item`: the message lines are the rendered report items, sorted and without duplicates -/
theorem messageLines_eq_lemma (ir : Bool) (v : Violations) :
    messageLines ir v = renderItems (reportItems ir v) := by
  unfold messageLines finishLines renderItems setIter
  exact canon_ext _ _ (mem_violationMessages ir v)

theorem mem_renderItems (items : List Item) (line : Str) :
    line ∈ renderItems items ↔ ∃ x ∈ items, renderItem x = line := by
  unfold renderItems
  rw [mem_sortStr, mem_dedup, List.mem_map]

/-! ### the text-valued `assert_applies` is the item-valued one, rendered -/

theorem matchRuleText_eq (mt : Str → Str → Bool) (g : PGraph Str) (b : Behavior) (d : Bool) (ss os : List Filter) :
    matchRuleText mt g b d ss os = (matchRule mt g b d ss os).toText := by
  unfold matchRuleText matchRule
  cases convertFilters mt g.nodes ss with
  | error k => rfl
  | ok subs =>
    simp only
    cases convertFilters mt g.nodes os with
    | error k => rfl
    | ok objs =>
      simp only
      cases runQueries g b d subs objs with
      | error k => rfl
      | ok eo =>
        obtain ⟨expl, other⟩ := eo
        simp only
        cases (detect b d expl other (objs.map Filter.toMod)).any with
        | true => simp only [if_true, Verdict.toText, messageLines_eq_lemma]
        | false => rfl

theorem assertAppliesText_eq_lemma (mt : Str → Str → Bool) (s : RuleState) (g : PGraph Str) :
    assertAppliesText mt s g = ((assertApplies mt s g).1, (assertApplies mt s g).2.toText) := by
  unfold assertAppliesText assertApplies
  cases anythingMisused s.cfg with
  | true => rfl
  | false =>
    simp only [Bool.false_eq_true, if_false]
    cases configMissing (convertAliases s.cfg) with
    | true => rfl
    | false =>
      simp only [Bool.false_eq_true, if_false]
      cases droppedAbsent g (convertAliases s.cfg) with
      | true => rfl
      | false =>
        simp only [Bool.false_eq_true, if_false]
        cases (convertAliases s.cfg).behavior.inconsistent with
        | true => rfl
        | false =>
          simp only [Bool.false_eq_true, if_false]
          cases (convertAliases s.cfg).importDir <;> cases (convertAliases s.cfg).subjects <;>
            cases (convertAliases s.cfg).objects <;> simp only [matchRuleText_eq] <;> rfl

theorem runRuleOpsTextGo_eq (glob : Str → Str) (mt : Str → Str → Bool) (g : PGraph Str) (ops : List RuleOp) :
    ∀ (s : RuleState) (i : Nat), runRuleOpsTextGo glob mt g s i ops =
      ((runRuleOps.go glob mt g s i ops).1.toText, (runRuleOps.go glob mt g s i ops).2) := by
  induction ops with
  | nil =>
    intro s i
    simp only [runRuleOpsTextGo, runRuleOps.go, assertAppliesText_eq_lemma]
  | cons op rest ih =>
    intro s i
    simp only [runRuleOpsTextGo, runRuleOps.go]
    cases RuleState.step glob s op with
    | error k => rfl
    | ok s' => exact ih _ _

theorem runRuleOpsText_eq_lemma (glob : Str → Str) (mt : Str → Str → Bool) (ops : List RuleOp) (g : PGraph Str) :
    runRuleOpsText glob mt ops g = ((runRuleOps glob mt ops g).1.toText, (runRuleOps glob mt ops g).2) :=
  runRuleOpsTextGo_eq glob mt g ops {} 0

/-! ### the parser inverts the renderer -/

theorem startsWith_append (p s : Str) : startsWith p (p ++ s) = true := by
  induction p with
  | nil => cases s <;> rfl
  | cons a p ih => simp [startsWith, ih]

theorem stripPrefix_append (p s : Str) : stripPrefix p (p ++ s) = some s := by
  unfold stripPrefix
  rw [startsWith_append]
  simp

theorem noQuote_iff (n : Str) : noQuote n = true ↔ '"' ∉ n := by simp [noQuote]

theorem takeWhile_dropWhile_quote (rest : Str) : ∀ n : Str, '"' ∉ n →
    (n ++ '"' :: rest).dropWhile (· != '"') = '"' :: rest ∧ (n ++ '"' :: rest).takeWhile (· != '"') = n
  | [], _ => by simp
  | c :: n, h => by
    have hc : c ≠ '"' := fun e => h (e ▸ List.mem_cons_self)
    have hn : '"' ∉ n := fun e => h (List.mem_cons_of_mem _ e)
    obtain ⟨h1, h2⟩ := takeWhile_dropWhile_quote rest n hn
    simp [hc, h1, h2]

theorem takeQuoted_quoted (n rest : Str) (h : noQuote n = true) : takeQuoted (quoted n ++ rest) = some (n, rest) := by
  obtain ⟨h1, h2⟩ := takeWhile_dropWhile_quote rest n ((noQuote_iff n).1 h)
  have : quoted n ++ rest = '"' :: (n ++ '"' :: rest) := by simp [quoted]
  rw [this]
  simp only [takeQuoted, h1, h2]

theorem parseObj_objText (o : Mod) (rest : Str) (h : noQuote o.id = true) :
    parseObj (objText o ++ rest) = some (o, rest) := by
  obtain ⟨g, n⟩ := o
  cases g
  · have h0 : objText ⟨false, n⟩ ++ rest = quoted n ++ rest := rfl
    have h1 : stripPrefix "a sub module of ".toList (quoted n ++ rest) = none := rfl
    rw [h0]
    unfold parseObj
    rw [h1]
    simp only [takeQuoted_quoted n rest h, Option.map_some]
  · have h0 : objText ⟨true, n⟩ ++ rest = "a sub module of ".toList ++ (quoted n ++ rest) := by
      simp [objText]
    rw [h0]
    unfold parseObj
    rw [stripPrefix_append]
    simp only [takeQuoted_quoted n rest h, Option.map_some]

theorem length_le_joinWith (sep : Str) : ∀ l : List Str, (∀ x ∈ l, 1 ≤ x.length) → l.length ≤ (joinWith sep l).length
  | [], _ => Nat.zero_le _
  | [x], h => by simpa [joinWith] using h x (by simp)
  | x :: y :: r, h => by
    have h1 := h x (by simp)
    have ih := length_le_joinWith sep (y :: r) fun z hz => h z (List.mem_cons_of_mem _ hz)
    simp only [joinWith, List.length_append, List.length_cons] at ih ⊢
    omega

theorem objText_length (o : Mod) : 1 ≤ (objText o).length := by
  unfold objText quoted
  simp only [List.length_append, List.length_cons]
  omega

/-- `OBJ, OBJ, … OBJ.` parses back to the objects -/
theorem parseObjs_join : ∀ (objs : List Mod) (fuel : Nat), objs ≠ [] → objs.length ≤ fuel →
    (∀ o ∈ objs, noQuote o.id = true) →
    parseObjs fuel (joinWith ", ".toList (objs.map objText) ++ ['.']) = some objs
  | [], _, h, _, _ => absurd rfl h
  | [o], fuel + 1, _, _, hq => by
    simp only [List.map_cons, List.map_nil, joinWith, parseObjs]
    rw [parseObj_objText o ['.'] (hq o (by simp))]
    simp
  | o :: o2 :: r, fuel + 1, _, hf, hq => by
    have ih := parseObjs_join (o2 :: r) fuel (by simp) (by simpa using hf)
      (fun x hx => hq x (List.mem_cons_of_mem _ hx))
    have h0 : joinWith ", ".toList ((o :: o2 :: r).map objText) ++ ['.'] =
        objText o ++ (", ".toList ++ (joinWith ", ".toList ((o2 :: r).map objText) ++ ['.'])) := by
      simp only [List.map_cons, joinWith, List.append_assoc]
    rw [h0]
    unfold parseObjs
    rw [parseObj_objText o _ (hq o (by simp))]
    have hne : (", ".toList ++ (joinWith ", ".toList ((o2 :: r).map objText) ++ ['.'])) ≠ ['.'] := by
      intro h; cases h
    simp only [hne, if_false, stripPrefix_append, ih, Option.map_some]
  | _ :: _, 0, _, hf, _ => by simp at hf

theorem objsText_length (objs : List Mod) : objs.length ≤ (joinWith ", ".toList (objs.map objText) ++ ['.']).length := by
  have := length_le_joinWith ", ".toList (objs.map objText) (by
    intro x hx
    obtain ⟨o, _, rfl⟩ := List.mem_map.1 hx
    exact objText_length o)
  simp only [List.length_map, List.length_append] at this ⊢
  omega

theorem joinWith_cons_exists (sep x : Str) (l : List Str) (e : Str) : ∃ t, joinWith sep (x :: l) ++ e = x ++ t := by
  cases l with
  | nil => exact ⟨e, rfl⟩
  | cons y r => exact ⟨sep ++ (joinWith sep (y :: r) ++ e), by simp [joinWith]⟩

theorem stripAny_objText (o : Mod) (t : Str) : stripPrefix "any module that is not ".toList (objText o ++ t) = none := by
  obtain ⟨g, n⟩ := o
  cases g <;> rfl

theorem parseMissTail_render (s : Mod) (byDir any : Bool) (objs : List Mod) (hne : objs ≠ [])
    (hq : ∀ o ∈ objs, noQuote o.id = true) :
    parseMissTail s byDir (anyText any ++ (joinWith ", ".toList (objs.map objText) ++ ['.'])) =
      some (.miss any s objs byDir) := by
  have hp := parseObjs_join objs _ hne (objsText_length objs) hq
  cases any
  · have h0 : anyText false ++ (joinWith ", ".toList (objs.map objText) ++ ['.']) =
        joinWith ", ".toList (objs.map objText) ++ ['.'] := rfl
    rw [h0]
    unfold parseMissTail
    have hnone : stripPrefix "any module that is not ".toList (joinWith ", ".toList (objs.map objText) ++ ['.']) = none := by
      cases objs with
      | nil => exact absurd rfl hne
      | cons o r =>
        obtain ⟨t, ht⟩ := joinWith_cons_exists ", ".toList (objText o) (r.map objText) ['.']
        rw [List.map_cons, ht]
        exact stripAny_objText o t
    rw [hnone]
    simp only [hp, Option.map_some]
  · have h0 : anyText true = "any module that is not ".toList := rfl
    rw [h0]
    unfold parseMissTail
    rw [stripPrefix_append]
    simp only [hp, Option.map_some]

theorem parseMiss_render (s : Mod) (byDir : Bool) (tail : Str) :
    parseMiss s (missVerb byDir s.group ++ tail) = parseMissTail s byDir tail := by
  unfold parseMiss
  cases byDir
  · rw [stripPrefix_append]
  · have : stripPrefix (missVerb false s.group) (missVerb true s.group ++ tail) = none := by
      cases s.group <;> rfl
    rw [this]
    simp only [stripPrefix_append]

theorem parseAfterName_miss (n : Str) (byDir : Bool) (tail : Str) :
    parseAfterName n (missVerb byDir false ++ tail) = parseMiss ⟨false, n⟩ (missVerb byDir false ++ tail) := by
  unfold parseAfterName
  have h1 : stripPrefix " imports ".toList (missVerb byDir false ++ tail) = none := by cases byDir <;> rfl
  have h2 : stripPrefix " is imported by ".toList (missVerb byDir false ++ tail) = none := by cases byDir <;> rfl
  rw [h1, h2]

theorem renderLine_imp_false (u v : Str) :
    renderLine (.imp u v false) = quoted u ++ (" imports ".toList ++ (quoted v ++ ['.'])) := rfl
theorem renderLine_imp_true (u v : Str) :
    renderLine (.imp u v true) = quoted v ++ (" is imported by ".toList ++ (quoted u ++ ['.'])) := rfl
theorem renderLine_miss (any : Bool) (s : Mod) (objs : List Mod) (d : Bool) :
    renderLine (.miss any s objs d) =
      subjText s ++ (missVerb d s.group ++ (anyText any ++ (joinWith ", ".toList (objs.map objText) ++ ['.']))) := rfl

/-- `parse_render`: the parser inverts the renderer on items whose names are free of `"` -/
theorem parseLine_renderLine_lemma (x : Item) (h : x.parsable = true) : parseLine (renderLine x) = some x := by
  cases x with
  | imp u v d =>
    simp only [Item.parsable, Bool.and_eq_true] at h
    cases d
    · rw [renderLine_imp_false]
      unfold parseLine
      have h1 : stripPrefix "Sub modules of ".toList (quoted u ++ (" imports ".toList ++ (quoted v ++ ['.']))) = none := rfl
      rw [h1]
      simp only [takeQuoted_quoted u _ h.1, parseAfterName, stripPrefix_append, takeQuoted_quoted v _ h.2]
    · rw [renderLine_imp_true]
      unfold parseLine
      have h1 : stripPrefix "Sub modules of ".toList (quoted v ++ (" is imported by ".toList ++ (quoted u ++ ['.']))) = none := rfl
      rw [h1]
      have h2 : stripPrefix " imports ".toList (" is imported by ".toList ++ (quoted u ++ ['.'])) = none := rfl
      simp only [takeQuoted_quoted v _ h.2, parseAfterName, h2, stripPrefix_append, takeQuoted_quoted u _ h.1]
  | miss any s objs d =>
    simp only [Item.parsable, Bool.and_eq_true, List.all_eq_true, Bool.not_eq_true', List.isEmpty_eq_false_iff] at h
    obtain ⟨⟨hs, hq⟩, hne⟩ := h
    obtain ⟨g, n⟩ := s
    rw [renderLine_miss]
    unfold parseLine
    cases g
    · have h0 : subjText ⟨false, n⟩ ++ (missVerb d (Mod.mk false n).group ++ (anyText any ++ (joinWith ", ".toList (objs.map objText) ++ ['.']))) =
          quoted n ++ (missVerb d false ++ (anyText any ++ (joinWith ", ".toList (objs.map objText) ++ ['.']))) := rfl
      rw [h0]
      have h1 : stripPrefix "Sub modules of ".toList (quoted n ++ (missVerb d false ++ (anyText any ++ (joinWith ", ".toList (objs.map objText) ++ ['.'])))) = none := rfl
      rw [h1]
      simp only [takeQuoted_quoted n _ hs, parseAfterName_miss]
      exact (parseMiss_render ⟨false, n⟩ d _).trans (parseMissTail_render _ d any objs hne hq)
    · have h0 : subjText ⟨true, n⟩ ++ (missVerb d (Mod.mk true n).group ++ (anyText any ++ (joinWith ", ".toList (objs.map objText) ++ ['.']))) =
          "Sub modules of ".toList ++ (quoted n ++ (missVerb d true ++ (anyText any ++ (joinWith ", ".toList (objs.map objText) ++ ['.'])))) := by
        simp [subjText]
      rw [h0, stripPrefix_append]
      simp only [takeQuoted_quoted n _ hs]
      exact (parseMiss_render ⟨true, n⟩ d _).trans (parseMissTail_render _ d any objs hne hq)

/-! ### counting `"`: which item a line of the shape `"X" imports "Y".` comes from -/

/-- the number of `"` in a string -/
def nq (s : Str) : Nat := s.count '"'

theorem nq_append (a b : Str) : nq (a ++ b) = nq a + nq b := List.count_append

theorem nq_quoted (n : Str) : nq (quoted n) = nq n + 2 := by
  simp [nq, quoted, List.count_append]

theorem noQuote_iff_nq (n : Str) : noQuote n = true ↔ nq n = 0 := by
  rw [noQuote_iff, nq, List.count_eq_zero]

theorem nq_renderLine_imp (u v : Str) (d : Bool) : nq (renderLine (.imp u v d)) = nq u + nq v + 4 := by
  have h1 : nq " imports ".toList = 0 := by decide
  have h2 : nq " is imported by ".toList = 0 := by decide
  have h3 : nq ['.'] = 0 := by decide
  cases d
  · rw [renderLine_imp_false]; simp only [nq_append, nq_quoted, h1, h3]; omega
  · rw [renderLine_imp_true]; simp only [nq_append, nq_quoted, h2, h3]; omega

def nqObjs (objs : List Mod) : Nat := (objs.map fun o => nq o.id + 2).sum

theorem nq_objText (o : Mod) : nq (objText o) = nq o.id + 2 := by
  have h1 : nq "a sub module of ".toList = 0 := by decide
  obtain ⟨g, n⟩ := o
  cases g
  · exact nq_quoted n
  · have : objText ⟨true, n⟩ = "a sub module of ".toList ++ quoted n := rfl
    rw [this, nq_append, nq_quoted, h1]; simp only []; omega

theorem nq_subjText (s : Mod) : nq (subjText s) = nq s.id + 2 := by
  have h1 : nq "Sub modules of ".toList = 0 := by decide
  obtain ⟨g, n⟩ := s
  cases g
  · exact nq_quoted n
  · have : subjText ⟨true, n⟩ = "Sub modules of ".toList ++ quoted n := rfl
    rw [this, nq_append, nq_quoted, h1]; simp only []; omega

theorem nq_objs : ∀ objs : List Mod, nq (joinWith ", ".toList (objs.map objText)) = nqObjs objs
  | [] => rfl
  | [o] => by simp [joinWith, nqObjs, nq_objText]
  | o :: o2 :: r => by
    have ih := nq_objs (o2 :: r)
    have h1 : nq ", ".toList = 0 := by decide
    simp only [List.map_cons, joinWith, nq_append, nq_objText, h1, nqObjs, List.sum_cons] at ih ⊢
    omega

theorem nq_renderLine_miss (any : Bool) (s : Mod) (objs : List Mod) (d : Bool) :
    nq (renderLine (.miss any s objs d)) = nq s.id + 2 + nqObjs objs := by
  have h1 : nq (missVerb d s.group) = 0 := by cases d <;> cases s.group <;> decide
  have h2 : nq (anyText any) = 0 := by cases any <;> decide
  have h3 : nq ['.'] = 0 := by decide
  rw [renderLine_miss]
  simp only [nq_append, nq_subjText, nq_objs, h1, h2, h3]
  omega

/-- an item whose line has exactly four `"` has names free of `"` (and, if it is a `miss` item with objects, exactly one) -/
theorem parsable_of_nq (x : Item) (hne : ∀ any s objs d, x = .miss any s objs d → objs ≠ [])
    (h : nq (renderLine x) = 4) : x.parsable = true := by
  cases x with
  | imp u v d =>
    rw [nq_renderLine_imp] at h
    simp only [Item.parsable, Bool.and_eq_true, noQuote_iff_nq]
    omega
  | miss any s objs d =>
    rw [nq_renderLine_miss] at h
    cases objs with
    | nil => exact absurd rfl (hne _ _ _ _ rfl)
    | cons o r =>
      cases r with
      | nil =>
        simp only [nqObjs, List.map_cons, List.map_nil, List.sum_cons, List.sum_nil] at h
        simp only [Item.parsable, Bool.and_eq_true, noQuote_iff_nq, List.all_cons, List.all_nil, List.isEmpty_cons,
          Bool.not_false, and_true]
        omega
      | cons o2 r2 =>
        simp only [nqObjs, List.map_cons, List.sum_cons] at h
        omega

/-- a line of the shape `"X" imports "Y".` / `"X" is imported by "Y".` (X, Y free of `"`) is the line of that item only -/
theorem renderLine_eq_imp_lemma (x : Item) (hne : ∀ any s objs d, x = .miss any s objs d → objs ≠ [])
    (X Y : Str) (d : Bool) (hX : noQuote X = true) (hY : noQuote Y = true)
    (h : renderLine x = renderLine (.imp X Y d)) : x = .imp X Y d := by
  have hp : (Item.imp X Y d).parsable = true := by simp [Item.parsable, hX, hY]
  have hn : nq (renderLine x) = 4 := by
    rw [h, nq_renderLine_imp, (noQuote_iff_nq X).1 hX, (noQuote_iff_nq Y).1 hY]
  have h1 := parseLine_renderLine_lemma x (parsable_of_nq x hne hn)
  rw [h, parseLine_renderLine_lemma _ hp] at h1
  exact (Option.some.inj h1).symm


/-! ### from a literal line back to the report item -/

theorem missItems_objs_ne_nil (any ir : Bool) (ds : List Dep) :
    ∀ x ∈ missItems any ir ds, ∀ a s objs d, x = Item.miss a s objs d → objs ≠ [] := by
  intro x hx a s objs d hxe
  unfold missItems at hx
  obtain ⟨s', hs', rfl⟩ := List.mem_map.1 hx
  cases hxe
  rw [mem_dedup] at hs'
  obtain ⟨dd, hdd, rfl⟩ := List.mem_map.1 hs'
  have : dd.2 ∈ dedup ((ds.filter fun d' => d'.1 = dd.1).map (·.2)) := by
    rw [mem_dedup]
    exact List.mem_map.2 ⟨dd, List.mem_filter.2 ⟨hdd, by simp⟩, rfl⟩
  exact List.ne_nil_of_mem this

theorem impItems_not_miss (ir : Bool) (ds : List Dep) :
    ∀ x ∈ impItems ir ds, ∀ a s objs d, x = Item.miss a s objs d → objs ≠ [] := by
  intro x hx a s objs d hxe
  unfold impItems at hx
  obtain ⟨_, _, rfl⟩ := List.mem_map.1 hx
  cases hxe

/-- the generator never emits a `does not import` line without objects -/
theorem reportItems_objs_ne_nil (ir : Bool) (v : Violations) :
    ∀ x ∈ reportItems ir v, ∀ a s objs d, x = Item.miss a s objs d → objs ≠ [] := by
  intro x hx
  unfold reportItems at hx
  simp only [List.mem_append] at hx
  rcases hx with ((((((h | h) | h) | h) | h) | h) | h) | h
  · exact missItems_objs_ne_nil _ _ _ x h
  · exact impItems_not_miss _ _ x h
  · exact missItems_objs_ne_nil _ _ _ x h
  · exact impItems_not_miss _ _ x h
  · exact missItems_objs_ne_nil _ _ _ x h
  · exact impItems_not_miss _ _ x h
  · exact missItems_objs_ne_nil _ _ _ x h
  · exact impItems_not_miss _ _ x h

theorem sortObjs_ne_nil (objs : List Mod) (h : objs ≠ []) : sortObjs objs ≠ [] := by
  intro e
  have := (sortBy_perm (fun a b => strLe (objText a) (objText b)) objs).length_eq
  unfold sortObjs at e
  rw [e] at this
  exact h (List.length_eq_zero_iff.1 this.symm)

/-- an `imports` / `is imported by` line (names free of `"`) in the rendered report comes from that very item -/
theorem imp_line_mem_lemma (items : List Item)
    (hne : ∀ x ∈ items, ∀ a s objs d, x = Item.miss a s objs d → objs ≠ [])
    (X Y : Str) (d : Bool) (hX : noQuote X = true) (hY : noQuote Y = true)
    (h : renderLine (.imp X Y d) ∈ renderItems items) : Item.imp X Y d ∈ items := by
  obtain ⟨x, hx, hxl⟩ := (mem_renderItems items _).1 h
  have hc : x.canon = .imp X Y d := by
    apply renderLine_eq_imp_lemma _ _ X Y d hX hY hxl
    intro a s objs dd he
    cases x with
    | imp u v d' => cases he
    | miss a' s' objs' d' =>
      simp only [Item.canon] at he
      cases he
      exact sortObjs_ne_nil _ (hne _ hx _ _ _ _ rfl)
  cases x with
  | imp u v d' => simpa [Item.canon] using hc ▸ hx
  | miss a' s' objs' d' => simp [Item.canon] at hc

/-- a failing text verdict is the rendering of the failing item verdict -/
theorem assertAppliesText_fail_lemma (mt : Str → Str → Bool) (r : RuleState) (g : PGraph Str) (lines : List Str)
    (h : (assertAppliesText mt r g).2 = .fail lines) :
    ∃ items, (assertApplies mt r g).2 = .fail items ∧ lines = renderItems items := by
  rw [assertAppliesText_eq_lemma] at h
  simp only at h
  cases hv : (assertApplies mt r g).2 with
  | pass => rw [hv] at h; cases h
  | err k => rw [hv] at h; cases h
  | fail items =>
    rw [hv] at h
    simp only [Verdict.toText, TextVerdict.fail.injEq] at h
    exact ⟨items, rfl, h.symm⟩

theorem assertApplies_fail_objs_ne_nil (mt : Str → Str → Bool) (g : PGraph Str) (r : RuleState) (items : List Item)
    (h : (assertApplies mt r g).2 = .fail items) :
    ∀ x ∈ items, ∀ a s objs d, x = Item.miss a s objs d → objs ≠ [] := by
  obtain ⟨d, ss, os, subs, objs, expl, other, _, _, _, _, _, _, rfl⟩ := assertApplies_fail mt g r items h
  exact reportItems_objs_ne_nil _ _

end Pta
