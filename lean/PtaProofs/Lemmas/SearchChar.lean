/-
  PtaProofs.Lemmas.SearchChar — characterisation of the three graph searches on an arbitrary graph, in terms of
  hierarchy reachability `Reach` (PtaProofs/Lemmas/Worklist.lean) and the import successor/predecessor lists;
  plus the generic report lemmas of Props/C03.lean.
-/
import Bridge.Abs
import PtaProofs.Lemmas.Worklist
namespace Pta

theorem exclUnion_go_ok (g : PGraph Str) (f : Filter) (os : List Filter) (acc : List Str)
    (hos : ∀ o ∈ os, o ≠ f → g.hasNode o.id = true) :
    ∃ l, os.foldlM (fun acc o => if o = f then pure acc else do
        let s ← submodulesOf g o.id
        pure (acc ++ s)) acc = Except.ok l ∧
      ∀ x, x ∈ l ↔ x ∈ acc ∨ ∃ o ∈ os, o ≠ f ∧ Reach g o.id x := by
  induction os generalizing acc with
  | nil => exact ⟨acc, rfl, by simp⟩
  | cons o os ih =>
    simp only [List.foldlM_cons]
    by_cases hof : o = f
    · subst hof
      obtain ⟨l, hl, hm⟩ := ih acc (fun o' ho' => hos o' (List.mem_cons_of_mem _ ho'))
      refine ⟨l, ?_, ?_⟩
      · simpa [bind, Except.bind, pure, Except.pure] using hl
      · intro x; rw [hm]; simp
    · obtain ⟨s, hs, hsm⟩ := (submodulesOf_spec g o.id).2 (hos o (by simp) hof)
      obtain ⟨l, hl, hm⟩ := ih (acc ++ s) (fun o' ho' => hos o' (List.mem_cons_of_mem _ ho'))
      refine ⟨l, ?_, ?_⟩
      · simpa [hof, hs, bind, Except.bind, pure, Except.pure] using hl
      · intro x; rw [hm]; simp [hsm, hof, or_assoc]

theorem exclUnion_go_err (g : PGraph Str) (f : Filter) (os : List Filter) (acc : List Str)
    (h : ∃ o ∈ os, o ≠ f ∧ g.hasNode o.id = false) :
    os.foldlM (fun acc o => if o = f then pure acc else do
        let s ← submodulesOf g o.id
        pure (acc ++ s)) acc = Except.error ErrKind.lookupError := by
  induction os generalizing acc with
  | nil => simp at h
  | cons o os ih =>
    simp only [List.foldlM_cons]
    by_cases hof : o = f
    · subst hof
      have : ∃ o' ∈ os, o' ≠ o ∧ g.hasNode o'.id = false := by
        obtain ⟨o', ho', hne, hn⟩ := h
        rcases List.mem_cons.mp ho' with rfl | ho'
        · exact absurd rfl hne
        · exact ⟨o', ho', hne, hn⟩
      simpa [bind, Except.bind, pure, Except.pure] using ih acc this
    · by_cases hn : g.hasNode o.id = true
      · obtain ⟨s, hs, _⟩ := (submodulesOf_spec g o.id).2 hn
        have : ∃ o' ∈ os, o' ≠ f ∧ g.hasNode o'.id = false := by
          obtain ⟨o', ho', hne, hn'⟩ := h
          rcases List.mem_cons.mp ho' with rfl | ho'
          · simp [hn] at hn'
          · exact ⟨o', ho', hne, hn'⟩
        simpa [hof, hs, bind, Except.bind, pure, Except.pure] using ih (acc ++ s) this
      · have hs := (submodulesOf_spec g o.id).1 (by simpa using hn)
        simp [hof, hs, bind, Except.bind]

theorem exclUnion_ok (g : PGraph Str) (f : Filter) (os : List Filter)
    (hos : ∀ o ∈ os, o ≠ f → g.hasNode o.id = true) :
    ∃ l, exclUnion g f os = .ok l ∧ ∀ x, x ∈ l ↔ ∃ o ∈ os, o ≠ f ∧ Reach g o.id x := by
  obtain ⟨l, hl, hm⟩ := exclUnion_go_ok g f os [] hos
  exact ⟨l, hl, by simpa using hm⟩

theorem exclUnion_err (g : PGraph Str) (f : Filter) (os : List Filter)
    (h : ∃ o ∈ os, o ≠ f ∧ g.hasNode o.id = false) :
    exclUnion g f os = .error .lookupError := exclUnion_go_err g f os [] h

theorem depBetween_ok (g : PGraph Str) (f o : Filter) (hf : g.hasNode f.id = true) (ho : g.hasNode o.id = true) :
    ∃ l, depBetween g f o = .ok l ∧ ∀ u v, (u, v) ∈ l ↔
      (Reach g f.id u ∧ v ∈ g.importSuccs u ∧ Reach g o.id v ∧ u ∉ parentIds [f, o] ∧ v ∉ parentIds [f, o]) := by
  obtain ⟨lf, hlf, hmf⟩ := (submodulesOf_spec g f.id).2 hf
  obtain ⟨lo, hlo, hmo⟩ := (submodulesOf_spec g o.id).2 ho
  unfold depBetween
  simp only [hlf, hlo, bind, Except.bind, pure, Except.pure]
  refine ⟨_, rfl, ?_⟩
  intro u v
  simp only [List.mem_flatMap, List.mem_map, List.mem_filter, Prod.mk.injEq, Bool.and_eq_true,
    Bool.not_eq_true', List.contains_iff_mem, hmf, hmo]
  constructor
  · rintro ⟨n, hn, c, ⟨hc, ⟨h1, h2⟩, h3⟩, rfl, rfl⟩
    simp at h2 h3
    exact ⟨hn, hc, h1, h2, h3⟩
  · rintro ⟨h1, h2, h3, h4, h5⟩
    exact ⟨u, h1, v, ⟨h2, ⟨h3, by simpa using h4⟩, by simpa using h5⟩, rfl, rfl⟩

theorem depBetween_err (g : PGraph Str) (f o : Filter) (h : g.hasNode f.id = false ∨ g.hasNode o.id = false) :
    depBetween g f o = .error .lookupError := by
  unfold depBetween
  by_cases ho : g.hasNode o.id = true
  · obtain ⟨lo, hlo, _⟩ := (submodulesOf_spec g o.id).2 ho
    have hf : g.hasNode f.id = false := by rcases h with h | h; exact h; simp [ho] at h
    simp [hlo, (submodulesOf_spec g f.id).1 hf, bind, Except.bind]
  · simp [(submodulesOf_spec g o.id).1 (by simpa using ho), bind, Except.bind]

theorem otherFrom_ok (g : PGraph Str) (f : Filter) (os : List Filter) (hf : g.hasNode f.id = true)
    (hos : ∀ o ∈ os, g.hasNode o.id = true) :
    ∃ l, otherFrom g f os = .ok l ∧ ∀ u v, (u, v) ∈ l ↔
      (Reach g f.id u ∧ (f.isParent = true → u ≠ f.id) ∧ v ∈ g.importSuccs u ∧ ¬ Reach g f.id v ∧
       ¬ ((∃ o ∈ os, o ≠ f ∧ Reach g o.id v) ∧ v ∉ parentIds os)) := by
  obtain ⟨lf, hlf, hmf⟩ := (submodulesOf_spec g f.id).2 hf
  obtain ⟨le, hle, hme⟩ := exclUnion_ok g f os (fun o ho _ => hos o ho)
  unfold otherFrom
  simp only [hlf, hle, bind, Except.bind, pure, Except.pure]
  refine ⟨_, rfl, ?_⟩
  intro u v
  simp only [List.mem_flatMap, List.mem_map, List.mem_filter, Prod.mk.injEq, Bool.and_eq_true,
    Bool.not_eq_true', hmf]
  constructor
  · rintro ⟨n, ⟨hn, hsk⟩, c, ⟨hc, h1, h2⟩, rfl, rfl⟩
    refine ⟨hn, ?_, hc, ?_, ?_⟩
    · intro hp; simpa [hp] using hsk
    · simpa [hmf] using h2
    · simpa [hme] using h1
  · rintro ⟨h1, h2, h3, h4, h5⟩
    refine ⟨u, ⟨h1, ?_⟩, v, ⟨h3, ?_, ?_⟩, rfl, rfl⟩
    · cases hp : f.isParent <;> simp_all
    · simpa [hme] using h5
    · simpa [hmf] using h4

theorem otherFrom_err (g : PGraph Str) (f : Filter) (os : List Filter)
    (h : g.hasNode f.id = false ∨ ∃ o ∈ os, o ≠ f ∧ g.hasNode o.id = false) :
    otherFrom g f os = .error .lookupError := by
  unfold otherFrom
  by_cases he : ∃ o ∈ os, o ≠ f ∧ g.hasNode o.id = false
  · simp [exclUnion_err g f os he, bind, Except.bind]
  · have hf : g.hasNode f.id = false := by rcases h with h | h; exact h; exact absurd h he
    obtain ⟨le, hle, _⟩ := exclUnion_ok g f os (fun o ho hne => by
      by_cases hn : g.hasNode o.id = true
      · exact hn
      · exact absurd ⟨o, ho, hne, by simpa using hn⟩ he)
    simp [hle, (submodulesOf_spec g f.id).1 hf, bind, Except.bind]

theorem otherTo_ok (g : PGraph Str) (fs : List Filter) (o : Filter) (ho : g.hasNode o.id = true)
    (hfs : ∀ f ∈ fs, g.hasNode f.id = true) :
    ∃ l, otherTo g fs o = .ok l ∧ ∀ p n, (p, n) ∈ l ↔
      (Reach g o.id n ∧ (o.isParent = true → n ≠ o.id) ∧ p ∈ g.importPreds n ∧
       ¬ (Reach g o.id p ∧ (o.isParent = true → p ≠ o.id)) ∧
       ¬ ((∃ f ∈ fs, f ≠ o ∧ Reach g f.id p) ∧ p ∉ parentIds fs)) := by
  obtain ⟨lo, hlo, hmo⟩ := (submodulesOf_spec g o.id).2 ho
  obtain ⟨le, hle, hme⟩ := exclUnion_ok g o fs (fun f hf _ => hfs f hf)
  unfold otherTo
  simp only [hlo, hle, bind, Except.bind, pure, Except.pure]
  refine ⟨_, rfl, ?_⟩
  intro p n
  have hown : ∀ x, x ∈ (if o.isParent = true then lo.filter (· != o.id) else lo) ↔
      (Reach g o.id x ∧ (o.isParent = true → x ≠ o.id)) := by
    intro x
    cases hp : o.isParent <;> simp [hmo]
  simp only [List.mem_flatMap, List.mem_map, List.mem_filter, Prod.mk.injEq, Bool.and_eq_true,
    Bool.not_eq_true']
  constructor
  · rintro ⟨n', hn, p', ⟨hp, h1, h2⟩, rfl, rfl⟩
    rw [hown] at hn
    refine ⟨hn.1, hn.2, hp, ?_, ?_⟩
    · rw [← hown]; simpa using h2
    · simpa [hme] using h1
  · rintro ⟨h1, h2, h3, h4, h5⟩
    refine ⟨n, (hown n).2 ⟨h1, h2⟩, p, ⟨h3, ?_, ?_⟩, rfl, rfl⟩
    · simpa [hme] using h5
    · rw [← hown] at h4; simpa using h4

theorem otherTo_err (g : PGraph Str) (fs : List Filter) (o : Filter)
    (h : g.hasNode o.id = false ∨ ∃ f ∈ fs, f ≠ o ∧ g.hasNode f.id = false) :
    otherTo g fs o = .error .lookupError := by
  unfold otherTo
  by_cases he : ∃ f ∈ fs, f ≠ o ∧ g.hasNode f.id = false
  · simp [exclUnion_err g o fs he, bind, Except.bind]
  · have hf : g.hasNode o.id = false := by rcases h with h | h; exact h; exact absurd h he
    obtain ⟨le, hle, _⟩ := exclUnion_ok g o fs (fun f hf hne => by
      by_cases hn : g.hasNode f.id = true
      · exact hn
      · exact absurd ⟨f, hf, hne, by simpa using hn⟩ he)
    simp [hle, (submodulesOf_spec g o.id).1 hf, bind, Except.bind]

theorem mem_importPreds_iff (g : PGraph Str) (p n : Str) : p ∈ g.importPreds n ↔ n ∈ g.importSuccs p := by
  unfold PGraph.importPreds PGraph.importSuccs
  simp only [List.mem_map, List.mem_filter, Bool.and_eq_true, beq_iff_eq]
  constructor
  · rintro ⟨e, ⟨he, h1, h2⟩, rfl⟩; exact ⟨e, ⟨he, rfl, h2⟩, h1⟩
  · rintro ⟨e, ⟨he, h1, h2⟩, rfl⟩; exact ⟨e, ⟨he, rfl, h2⟩, h1⟩

theorem mem_dedup {α : Type} [DecidableEq α] (l : List α) (x : α) : x ∈ dedup l ↔ x ∈ l := by
  induction l with
  | nil => simp [dedup]
  | cons y ys ih =>
    simp only [dedup]
    split
    · rename_i hy
      rw [ih]
      constructor
      · intro h; exact List.mem_cons_of_mem _ h
      · intro h; rcases List.mem_cons.mp h with rfl | h
        · exact ih.1 hy
        · exact h
    · simp [ih]

theorem mapM_ok_mem {α β ε : Type} (f : α → Except ε β) (l : List α) (r : List β)
    (h : l.mapM f = .ok r) : ∀ y ∈ r, ∃ x ∈ l, f x = .ok y := by
  induction l generalizing r with
  | nil => simp [pure, Except.pure] at h; subst h; simp
  | cons a l ih =>
    rw [List.mapM_cons] at h
    cases hfa : f a with
    | error e => simp [hfa, bind, Except.bind] at h
    | ok b =>
      cases hl : l.mapM f with
      | error e => simp [hfa, hl, bind, Except.bind] at h
      | ok bs =>
        simp [hfa, hl, bind, Except.bind, pure, Except.pure] at h
        subst h
        intro y hy
        rcases List.mem_cons.mp hy with rfl | hy
        · exact ⟨a, by simp, hfa⟩
        · obtain ⟨x, hx, hfx⟩ := ih bs hl y hy
          exact ⟨x, List.mem_cons_of_mem _ hx, hfx⟩

theorem getDependencies_mem (g : PGraph Str) (ims ies : List Filter) (e : ExplDeps)
    (h : getDependencies g ims ies = .ok e) :
    ∀ kd ∈ e, ∃ f ∈ ims, ∃ o ∈ ies, kd.1 = (f.toMod, o.toMod) ∧ depBetween g f o = .ok kd.2 := by
  intro kd hkd
  obtain ⟨⟨f, o⟩, hx, hfx⟩ := mapM_ok_mem _ _ _ h kd hkd
  simp only [List.mem_flatMap, List.mem_map, mem_dedup, Prod.mk.injEq] at hx
  obtain ⟨f', hf', o', ho', rfl, rfl⟩ := hx
  refine ⟨f', hf', o', ho', ?_⟩
  cases hd : depBetween g f' o' with
  | error k => simp [hd, bind, Except.bind] at hfx
  | ok d =>
    simp [hd, bind, Except.bind, pure, Except.pure] at hfx
    subst hfx; simp

theorem getOtherFrom_mem (g : PGraph Str) (ims ies : List Filter) (e : OtherDeps)
    (h : getOtherFrom g ims ies = .ok e) :
    ∀ kd ∈ e, ∃ f ∈ ims, kd.1 = f.toMod ∧ otherFrom g f (dedup ies) = .ok kd.2 := by
  intro kd hkd
  obtain ⟨f, hx, hfx⟩ := mapM_ok_mem _ _ _ h kd hkd
  rw [mem_dedup] at hx
  refine ⟨f, hx, ?_⟩
  cases hd : otherFrom g f (dedup ies) with
  | error k => simp [hd, bind, Except.bind] at hfx
  | ok d =>
    simp [hd, bind, Except.bind, pure, Except.pure] at hfx
    subst hfx; simp

theorem getOtherTo_mem (g : PGraph Str) (ims ies : List Filter) (e : OtherDeps)
    (h : getOtherTo g ims ies = .ok e) :
    ∀ kd ∈ e, ∃ o ∈ ies, kd.1 = o.toMod ∧ otherTo g (dedup ims) o = .ok kd.2 := by
  intro kd hkd
  obtain ⟨f, hx, hfx⟩ := mapM_ok_mem _ _ _ h kd hkd
  rw [mem_dedup] at hx
  refine ⟨f, hx, ?_⟩
  cases hd : otherTo g (dedup ims) f with
  | error k => simp [hd, bind, Except.bind] at hfx
  | ok d =>
    simp [hd, bind, Except.bind, pure, Except.pure] at hfx
    subst hfx; simp

theorem depBetween_mem (g : PGraph Str) (f o : Filter) (l : List (Str × Str)) (h : depBetween g f o = .ok l)
    (u v : Str) (huv : (u, v) ∈ l) : Reach g f.id u ∧ v ∈ g.importSuccs u ∧ Reach g o.id v := by
  by_cases hn : g.hasNode f.id = true ∧ g.hasNode o.id = true
  · obtain ⟨l', hl', hm⟩ := depBetween_ok g f o hn.1 hn.2
    rw [h] at hl'; cases hl'
    have := (hm u v).1 huv
    exact ⟨this.1, this.2.1, this.2.2.1⟩
  · rw [depBetween_err g f o (by
      by_cases h1 : g.hasNode f.id = true
      · right; simpa using fun h2 => hn ⟨h1, h2⟩
      · left; simpa using h1)] at h
    cases h

theorem otherFrom_mem (g : PGraph Str) (f : Filter) (os : List Filter) (l : List (Str × Str))
    (h : otherFrom g f os = .ok l)
    (u v : Str) (huv : (u, v) ∈ l) : Reach g f.id u ∧ v ∈ g.importSuccs u := by
  by_cases hn : g.hasNode f.id = false ∨ ∃ o ∈ os, o ≠ f ∧ g.hasNode o.id = false
  · rw [otherFrom_err g f os hn] at h; cases h
  · have hf : g.hasNode f.id = true := by
      cases hh : g.hasNode f.id
      · exact absurd (Or.inl hh) hn
      · rfl
    obtain ⟨l', hl', hm⟩ := otherFrom_ok g f os hf (by
      intro o ho
      by_cases hof : o = f
      · rw [hof]; exact hf
      · cases hh : g.hasNode o.id
        · exact absurd (Or.inr ⟨o, ho, hof, hh⟩) hn
        · rfl)
    rw [h] at hl'; cases hl'
    have := (hm u v).1 huv
    exact ⟨this.1, this.2.2.1⟩

theorem otherTo_mem (g : PGraph Str) (fs : List Filter) (o : Filter) (l : List (Str × Str))
    (h : otherTo g fs o = .ok l)
    (u v : Str) (huv : (u, v) ∈ l) : Reach g o.id v ∧ v ∈ g.importSuccs u := by
  by_cases hn : g.hasNode o.id = false ∨ ∃ f ∈ fs, f ≠ o ∧ g.hasNode f.id = false
  · rw [otherTo_err g fs o hn] at h; cases h
  · have hf : g.hasNode o.id = true := by
      cases hh : g.hasNode o.id
      · exact absurd (Or.inl hh) hn
      · rfl
    obtain ⟨l', hl', hm⟩ := otherTo_ok g fs o hf (by
      intro f hf'
      by_cases hof : f = o
      · rw [hof]; exact hf
      · cases hh : g.hasNode f.id
        · exact absurd (Or.inr ⟨f, hf', hof, hh⟩) hn
        · rfl)
    rw [h] at hl'; cases hl'
    have := (hm u v).1 huv
    exact ⟨this.1, (mem_importPreds_iff g u v).1 this.2.2.1⟩

theorem runQueries_ok_iff (g : PGraph Str) (b : Behavior) (ir : Bool) (subs objs : List Filter)
    (expl : Option ExplDeps) (other : Option OtherDeps) :
    runQueries g b ir subs objs = .ok (expl, other) ↔
    ((if (b.explReq || b.explForb) = true then
        ∃ e, getDependencies g (if ir = true then subs else objs) (if ir = true then objs else subs) = .ok e ∧ expl = some e
      else expl = none) ∧
     (if (b.otherReq || b.otherForb) = true then
        ∃ e, (if ir = true then getOtherFrom g subs objs else getOtherTo g objs subs) = .ok e ∧ other = some e
      else other = none)) := by
  unfold runQueries
  simp only [bind, Except.bind, pure, Except.pure]
  by_cases h1 : (b.explReq || b.explForb) = true <;> by_cases h2 : (b.otherReq || b.otherForb) = true
  all_goals simp only [h1, h2, if_true]
  all_goals cases ir
  all_goals simp only [Bool.false_eq_true, if_true, if_false]
  · generalize getDependencies g objs subs = A; generalize getOtherTo g objs subs = B
    cases A <;> cases B <;> simp [Except.map, eq_comm]
  · generalize getDependencies g subs objs = A; generalize getOtherFrom g subs objs = B
    cases A <;> cases B <;> simp [Except.map, eq_comm]
  · generalize getDependencies g objs subs = A
    cases A <;> simp [Except.map, eq_comm]
  · generalize getDependencies g subs objs = A
    cases A <;> simp [Except.map, eq_comm]
  · generalize getOtherTo g objs subs = B
    cases B <;> simp [Except.map, eq_comm]
  · generalize getOtherFrom g subs objs = B
    cases B <;> simp [Except.map, eq_comm]
  · simp [eq_comm]
  · simp [eq_comm]

/-- what `runQueries` returns: every explicit entry is a `depBetween` result for an (importer, importee) pair,
    every "other" entry is an `otherFrom` / `otherTo` result keyed by a subject -/
theorem runQueries_spec (g : PGraph Str) (b : Behavior) (ir : Bool) (subs objs : List Filter)
    (expl : Option ExplDeps) (other : Option OtherDeps) (h : runQueries g b ir subs objs = .ok (expl, other)) :
    (∀ e, expl = some e → ∀ kd ∈ e, ∃ s ∈ subs, ∃ o ∈ objs, userOrder ir kd.1 = (s.toMod, o.toMod) ∧
        ∀ u v, (u, v) ∈ kd.2 → v ∈ g.importSuccs u ∧ (Reach g s.id u ∨ Reach g s.id v)) ∧
    (∀ e, other = some e → ∀ kd ∈ e, ∃ s ∈ subs, kd.1 = s.toMod ∧
        ∀ u v, (u, v) ∈ kd.2 → v ∈ g.importSuccs u ∧ (Reach g s.id u ∨ Reach g s.id v)) := by
  obtain ⟨h1, h2⟩ := (runQueries_ok_iff g b ir subs objs expl other).1 h
  constructor
  · intro e he kd hkd
    subst he
    split at h1
    · obtain ⟨e', hg, he'⟩ := h1
      cases he'
      obtain ⟨f, hf, o, ho, hk, hd⟩ := getDependencies_mem g _ _ _ hg kd hkd
      cases ir
      · simp only [Bool.false_eq_true, if_false] at hf ho
        refine ⟨o, ho, f, hf, by simp [userOrder, hk], ?_⟩
        intro u v huv
        have := depBetween_mem g f o _ hd u v huv
        exact ⟨this.2.1, .inr this.2.2⟩
      · simp only [if_true] at hf ho
        refine ⟨f, hf, o, ho, by simp [userOrder, hk], ?_⟩
        intro u v huv
        have := depBetween_mem g f o _ hd u v huv
        exact ⟨this.2.1, .inl this.1⟩
    · cases h1
  · intro e he kd hkd
    subst he
    split at h2
    · obtain ⟨e', hg, he'⟩ := h2
      cases he'
      cases ir
      · simp only [Bool.false_eq_true, if_false] at hg
        obtain ⟨o, ho, hk, hd⟩ := getOtherTo_mem g _ _ _ hg kd hkd
        refine ⟨o, ho, hk, ?_⟩
        intro u v huv
        have := otherTo_mem g _ o _ hd u v huv
        exact ⟨this.2, .inr this.1⟩
      · simp only [if_true] at hg
        obtain ⟨o, ho, hk, hd⟩ := getOtherFrom_mem g _ _ _ hg kd hkd
        refine ⟨o, ho, hk, ?_⟩
        intro u v huv
        have := otherFrom_mem g o _ _ hd u v huv
        exact ⟨this.2, .inl this.1⟩
    · cases h2

theorem assertApplies_fail (mt : Str → Str → Bool) (g : PGraph Str) (r : RuleState) (items : List Item)
    (h : (assertApplies mt r g).2 = .fail items) :
    ∃ d ss os subs objs expl other, (convertAliases r.cfg).importDir = some d ∧
      (convertAliases r.cfg).subjects = some ss ∧ (convertAliases r.cfg).objects = some os ∧
      convertFilters mt g.nodes ss = .ok subs ∧ convertFilters mt g.nodes os = .ok objs ∧
      runQueries g (convertAliases r.cfg).behavior d subs objs = .ok (expl, other) ∧
      items = reportItems d (detect (convertAliases r.cfg).behavior d expl other (objs.map Filter.toMod)) := by
  unfold assertApplies at h
  split at h
  · simp at h
  · simp only at h
    split at h
    · simp at h
    split at h
    · simp at h
    · split at h
      · simp at h
      · split at h
        · rename_i d ss os hd hs ho
          refine ⟨d, ss, os, ?_⟩
          unfold matchRule at h
          split at h
          · simp at h
          · rename_i subs hsubs
            split at h
            · simp at h
            · rename_i objs hobjs
              split at h
              · simp at h
              · rename_i expl other hq
                simp only at h
                split at h
                · exact ⟨subs, objs, expl, other, hd, hs, ho, hsubs, hobjs, hq, by simpa using h.symm⟩
                · simp at h
        · simp at h

theorem mem_impItems_realised (ir : Bool) {κ : Type} (deps : List (κ × List (Str × Str))) (u v : Str) (d : Bool)
    (h : Item.imp u v d ∈ impItems ir (realised ir deps)) : ∃ kd ∈ deps, (u, v) ∈ kd.2 := by
  unfold impItems realised at h
  simp only [List.mem_map, List.mem_flatMap] at h
  obtain ⟨dd, ⟨kd, hkd, p, hp, rfl⟩, hi⟩ := h
  refine ⟨kd, hkd, ?_⟩
  cases ir <;> simp [userOrder] at hi <;> obtain ⟨rfl, rfl, _⟩ := hi <;> exact hp

theorem imp_not_mem_missItems (a ir : Bool) (ds : List Dep) (u v : Str) (d : Bool) :
    Item.imp u v d ∉ missItems a ir ds := by
  unfold missItems; simp

theorem miss_not_mem_impItems (ir : Bool) (ds : List Dep) (a : Bool) (s : Mod) (os : List Mod) (d : Bool) :
    Item.miss a s os d ∉ impItems ir ds := by
  unfold impItems; simp

theorem mem_missItems (a ir : Bool) (ds : List Dep) (a' : Bool) (s : Mod) (os : List Mod) (d : Bool)
    (h : Item.miss a' s os d ∈ missItems a ir ds) : (∃ x ∈ ds, x.1 = s) ∧ ∀ o ∈ os, ∃ x ∈ ds, x.2 = o := by
  unfold missItems at h
  simp only [List.mem_map, mem_dedup, Item.miss.injEq] at h
  obtain ⟨s', ⟨x, hx, rfl⟩, -, rfl, rfl, -⟩ := h
  refine ⟨⟨x, hx, rfl⟩, ?_⟩
  intro o ho
  simp only [mem_dedup, List.mem_map, List.mem_filter] at ho
  obtain ⟨y, ⟨hy, _⟩, rfl⟩ := ho
  exact ⟨y, hy, rfl⟩

theorem mem_impItems_if (ir c : Bool) {κ : Type} (deps : List (κ × List (Str × Str))) (u v : Str) (d : Bool)
    (h : Item.imp u v d ∈ impItems ir (if c = true then realised ir deps else [])) : ∃ kd ∈ deps, (u, v) ∈ kd.2 := by
  cases c
  · simp [impItems] at h
  · exact mem_impItems_realised ir deps u v d h

theorem imp_mem_report (b : Behavior) (ir : Bool) (expl : Option ExplDeps) (other : Option OtherDeps)
    (objsM : List Mod) (u v : Str) (d : Bool)
    (h : Item.imp u v d ∈ reportItems ir (detect b ir expl other objsM)) :
    (∃ e, expl = some e ∧ ∃ kd ∈ e, (u, v) ∈ kd.2) ∨ (∃ e, other = some e ∧ ∃ kd ∈ e, (u, v) ∈ kd.2) := by
  unfold reportItems detect at h
  simp only [List.mem_append, imp_not_mem_missItems, false_or, or_false] at h
  have hnil : Item.imp u v d ∉ impItems ir [] := by simp [impItems]
  cases expl <;> cases other <;> simp only [hnil, or_false, false_or] at h
  · rcases h with h | h
    · exact .inr ⟨_, rfl, mem_impItems_if _ _ _ _ _ _ h⟩
    · exact .inr ⟨_, rfl, mem_impItems_if _ _ _ _ _ _ h⟩
  · rcases h with h | h
    · exact .inl ⟨_, rfl, mem_impItems_if _ _ _ _ _ _ h⟩
    · exact .inl ⟨_, rfl, mem_impItems_if _ _ _ _ _ _ h⟩
  · rcases h with ((h | h) | h) | h
    · exact .inr ⟨_, rfl, mem_impItems_if _ _ _ _ _ _ h⟩
    · exact .inl ⟨_, rfl, mem_impItems_if _ _ _ _ _ _ h⟩
    · exact .inl ⟨_, rfl, mem_impItems_if _ _ _ _ _ _ h⟩
    · exact .inr ⟨_, rfl, mem_impItems_if _ _ _ _ _ _ h⟩

theorem mem_missItems_if (a ir c : Bool) (ds : List Dep) (a' : Bool) (s : Mod) (os : List Mod) (d : Bool)
    (h : Item.miss a' s os d ∈ missItems a ir (if c = true then ds else [])) :
    (∃ x ∈ ds, x.1 = s) ∧ ∀ o ∈ os, ∃ x ∈ ds, x.2 = o := by
  cases c
  · simp [missItems, dedup] at h
  · exact mem_missItems a ir ds a' s os d h

theorem miss_mem_report (b : Behavior) (ir : Bool) (expl : Option ExplDeps) (other : Option OtherDeps)
    (objsM : List Mod) (a : Bool) (s : Mod) (os : List Mod) (d : Bool)
    (h : Item.miss a s os d ∈ reportItems ir (detect b ir expl other objsM)) :
    ∃ ds, ((∃ x ∈ ds, x.1 = s) ∧ ∀ o ∈ os, ∃ x ∈ ds, x.2 = o) ∧
      ((∃ e, expl = some e ∧ ds = abstractWithout ir e) ∨ (∃ e, other = some e ∧ ds = missingOther e objsM)) := by
  unfold reportItems detect at h
  simp only [List.mem_append, miss_not_mem_impItems, or_false] at h
  have hnil : ∀ a', Item.miss a s os d ∉ missItems a' ir [] := by simp [missItems, dedup]
  cases expl <;> cases other <;> simp only [hnil, or_false, false_or] at h
  · rcases h with h | h
    · exact ⟨_, mem_missItems_if _ _ _ _ _ _ _ _ h, .inr ⟨_, rfl, rfl⟩⟩
    · exact ⟨_, mem_missItems_if _ _ _ _ _ _ _ _ h, .inr ⟨_, rfl, rfl⟩⟩
  · rcases h with h | h
    · exact ⟨_, mem_missItems_if _ _ _ _ _ _ _ _ h, .inl ⟨_, rfl, rfl⟩⟩
    · exact ⟨_, mem_missItems_if _ _ _ _ _ _ _ _ h, .inl ⟨_, rfl, rfl⟩⟩
  · rcases h with ((h | h) | h) | h
    · exact ⟨_, mem_missItems_if _ _ _ _ _ _ _ _ h, .inl ⟨_, rfl, rfl⟩⟩
    · exact ⟨_, mem_missItems_if _ _ _ _ _ _ _ _ h, .inl ⟨_, rfl, rfl⟩⟩
    · exact ⟨_, mem_missItems_if _ _ _ _ _ _ _ _ h, .inr ⟨_, rfl, rfl⟩⟩
    · exact ⟨_, mem_missItems_if _ _ _ _ _ _ _ _ h, .inr ⟨_, rfl, rfl⟩⟩

theorem reported_imports_are_imports_lemma (mt : Str → Str → Bool) (g : PGraph Str) (r : RuleState) (items : List Item)
    (h : (assertApplies mt r g).2 = .fail items) :
    ∀ u v d, Item.imp u v d ∈ items → v ∈ g.importSuccs u := by
  obtain ⟨d, ss, os, subs, objs, expl, other, _, _, _, _, _, hq, rfl⟩ := assertApplies_fail mt g r items h
  obtain ⟨q1, q2⟩ := runQueries_spec g _ d subs objs expl other hq
  intro u v dd hi
  rcases imp_mem_report _ _ _ _ _ _ _ _ hi with ⟨e, he, kd, hkd, huv⟩ | ⟨e, he, kd, hkd, huv⟩
  · obtain ⟨s, _, o, _, _, hp⟩ := q1 e he kd hkd
    exact (hp u v huv).1
  · obtain ⟨s, _, _, hp⟩ := q2 e he kd hkd
    exact (hp u v huv).1

theorem reported_imports_touch_subject_lemma (mt : Str → Str → Bool) (g : PGraph Str) (r : RuleState) (items : List Item)
    (h : (assertApplies mt r g).2 = .fail items) (ss subs : List Filter)
    (hss : (convertAliases r.cfg).subjects = some ss) (hconv : convertFilters mt g.nodes ss = .ok subs) :
    ∀ u v d, Item.imp u v d ∈ items → ∃ s ∈ subs, Reach g s.id u ∨ Reach g s.id v := by
  obtain ⟨d, ss', os, subs', objs, expl, other, _, hss', _, hconv', _, hq, rfl⟩ := assertApplies_fail mt g r items h
  rw [hss] at hss'; cases hss'
  rw [hconv] at hconv'; cases hconv'
  obtain ⟨q1, q2⟩ := runQueries_spec g _ d subs objs expl other hq
  intro u v dd hi
  rcases imp_mem_report _ _ _ _ _ _ _ _ hi with ⟨e, he, kd, hkd, huv⟩ | ⟨e, he, kd, hkd, huv⟩
  · obtain ⟨s, hs, o, _, _, hp⟩ := q1 e he kd hkd
    exact ⟨s, hs, (hp u v huv).2⟩
  · obtain ⟨s, hs, _, hp⟩ := q2 e he kd hkd
    exact ⟨s, hs, (hp u v huv).2⟩

theorem missing_lines_name_subjects_lemma (mt : Str → Str → Bool) (g : PGraph Str) (r : RuleState) (items : List Item)
    (h : (assertApplies mt r g).2 = .fail items) (ss subs os objs : List Filter)
    (hss : (convertAliases r.cfg).subjects = some ss) (hconv : convertFilters mt g.nodes ss = .ok subs)
    (hos : (convertAliases r.cfg).objects = some os) (hconvo : convertFilters mt g.nodes os = .ok objs) :
    ∀ any s objsM d, Item.miss any s objsM d ∈ items → s ∈ subs.map Filter.toMod ∧ ∀ o ∈ objsM, o ∈ objs.map Filter.toMod := by
  obtain ⟨d, ss', os', subs', objs', expl, other, _, hss', hos', hconv', hconvo', hq, rfl⟩ :=
    assertApplies_fail mt g r items h
  rw [hss] at hss'; cases hss'
  rw [hconv] at hconv'; cases hconv'
  rw [hos] at hos'; cases hos'
  rw [hconvo] at hconvo'; cases hconvo'
  obtain ⟨q1, q2⟩ := runQueries_spec g _ d subs objs expl other hq
  intro a s objsM dd hi
  obtain ⟨ds, ⟨⟨x, hx, hxs⟩, hall⟩, hds⟩ := miss_mem_report _ _ _ _ _ _ _ _ _ hi
  have key : ∀ x ∈ ds, x.1 ∈ subs.map Filter.toMod ∧ x.2 ∈ objs.map Filter.toMod := by
    intro x hx
    rcases hds with ⟨e, he, rfl⟩ | ⟨e, he, rfl⟩
    · simp only [abstractWithout, List.mem_map, List.mem_filter] at hx
      obtain ⟨kd, ⟨hkd, _⟩, rfl⟩ := hx
      obtain ⟨s, hs, o, ho, hk, _⟩ := q1 e he kd hkd
      rw [hk]
      exact ⟨List.mem_map_of_mem hs, List.mem_map_of_mem ho⟩
    · simp only [missingOther, List.mem_flatMap, List.mem_map, List.mem_filter] at hx
      obtain ⟨kd, ⟨hkd, _⟩, o, ⟨o', ho', rfl⟩, rfl⟩ := hx
      obtain ⟨s, hs, hk, _⟩ := q2 e he kd hkd
      exact ⟨hk ▸ List.mem_map_of_mem hs, List.mem_map_of_mem ho'⟩
  refine ⟨hxs ▸ (key x hx).1, ?_⟩
  intro o ho
  obtain ⟨y, hy, rfl⟩ := hall o ho
  exact (key y hy).2

end Pta
