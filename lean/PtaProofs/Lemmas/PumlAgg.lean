/-
  PtaProofs.Lemmas.PumlAgg — aggregation lemmas behind Props/C06.lean (layer L3): the insertion-ordered
  dictionary `addDep`, the two folds of `pumlParse`, alias unification, `dedup`.
-/
import Bridge.PumlRender
namespace Pta

/-! ## `pumlParse` = tag slicing, then line recognisers, then aggregation -/

/-- everything `pumlParse` does after the per-line recognisers and the alias check -/
def pumlAgg (modules : List PModule) (rawDeps : List (Str × Str)) : Parsed' :=
  let aliases := modules.filterMap fun m => m.alias.map fun a => (a, m.name)
  let unify (x : Str) : Str := match (aliases.filter (·.1 == x)).getLast? with | some p => p.2 | none => x
  let grouped := rawDeps.foldl (fun acc d => addDep acc d.1 d.2) []
  let unified := grouped.foldl (fun acc kv => kv.2.foldl (fun acc v => addDep acc (unify kv.1) (unify v)) acc) []
  let all := dedup (modules.map (·.name) ++ unified.map (·.1) ++ unified.flatMap (·.2))
  ⟨all, unified⟩

theorem pumlParse_eq (content : Str) :
    pumlParse content =
      match pumlBody (pyStrip content) with
      | .error e => .error e
      | .ok body =>
        if aliasesConsistent ((splitLines body).flatMap lineModules) = true then
          .ok (pumlAgg ((splitLines body).flatMap lineModules) ((splitLines body).filterMap lineDependency))
        else .error .pumlParsingError := by
  unfold pumlParse
  cases pumlBody (pyStrip content) <;> rfl

/-- the check of `_get_modules_by_alias`, unpacked -/
theorem aliasesConsistent_iff_forall (modules : List PModule) :
    aliasesConsistent modules = true ↔
      ∀ m1 ∈ modules, ∀ m2 ∈ modules, ∀ a, m1.alias = some a → m2.alias = some a → m1.name = m2.name := by
  unfold aliasesConsistent
  simp only [List.all_eq_true]
  constructor
  · intro h m1 h1 m2 h2 a ha1 ha2
    have := h m1 h1 m2 h2
    rw [ha1, ha2] at this
    simpa using this
  · intro h m1 h1 m2 h2
    cases ha1 : m1.alias with
    | none => rfl
    | some a1 =>
      cases ha2 : m2.alias with
      | none => rfl
      | some a2 =>
        simp only [Bool.or_eq_true, bne_iff_ne, ne_eq, beq_iff_eq]
        by_cases e : a1 = a2
        · subst e; exact .inr (h m1 h1 m2 h2 a1 ha1 ha2)
        · exact .inl e

/-- the parser rejects the diagram as soon as two declarations give one alias to different names -/
theorem aliasesConsistent_false_of_conflict (modules : List PModule) (m1 m2 : PModule) (a : Str)
    (h1 : m1 ∈ modules) (h2 : m2 ∈ modules) (ha1 : m1.alias = some a) (ha2 : m2.alias = some a)
    (hne : m1.name ≠ m2.name) : aliasesConsistent modules = false := by
  cases h : aliasesConsistent modules with
  | false => rfl
  | true => exact absurd ((aliasesConsistent_iff_forall modules).1 h m1 h1 m2 h2 a ha1 ha2) hne

/-! ## `dedup` -/

theorem puml_mem_dedup {α : Type} [DecidableEq α] (x : α) (l : List α) : x ∈ dedup l ↔ x ∈ l := by
  induction l with
  | nil => simp [dedup]
  | cons y ys ih =>
    simp only [dedup]
    split
    · rename_i hy
      rw [ih, List.mem_cons]
      constructor
      · exact .inr
      · rintro (rfl | h)
        · exact ih.mp hy
        · exact h
    · simp [ih]

theorem puml_nodup_dedup {α : Type} [DecidableEq α] (l : List α) : (dedup l).Nodup := by
  induction l with
  | nil => simp [dedup]
  | cons y ys ih =>
    simp only [dedup]
    split
    · exact ih
    · rename_i hy
      exact List.nodup_cons.2 ⟨hy, ih⟩

/-! ## the dictionary -/

/-- `v ∈ d[k]` -/
def Pairs (d : List (Str × List Str)) (k v : Str) : Prop := ∃ vs, (k, vs) ∈ d ∧ v ∈ vs

/-- keys are unique; value lists are duplicate free and non-empty -/
def DictOK (d : List (Str × List Str)) : Prop :=
  (d.map (·.1)).Nodup ∧ ∀ kv ∈ d, kv.2.Nodup ∧ kv.2 ≠ []

theorem dictOK_nil : DictOK [] := by simp [DictOK]
theorem pairs_nil (k v : Str) : ¬ Pairs [] k v := by simp [Pairs]

/-- the update function of `addDep` -/
def addDepStep (k v : Str) (e : Str × List Str) : Str × List Str :=
  if e.1 == k then (e.1, if e.2.contains v then e.2 else e.2 ++ [v]) else e

theorem addDep_eq (d : List (Str × List Str)) (k v : Str) :
    addDep d k v = if d.any (·.1 == k) then d.map (addDepStep k v) else d ++ [(k, [v])] := rfl

theorem addDepStep_fst (k v : Str) (e : Str × List Str) : (addDepStep k v e).1 = e.1 := by
  unfold addDepStep; split <;> rfl

theorem addDepStep_mem (k v : Str) (e : Str × List Str) (x : Str) :
    x ∈ (addDepStep k v e).2 ↔ x ∈ e.2 ∨ (e.1 = k ∧ x = v) := by
  unfold addDepStep
  by_cases hk : e.1 = k
  · simp only [hk, beq_self_eq_true, if_true]
    by_cases hc : e.2.contains v = true
    · simp only [hc, if_true]
      constructor
      · exact .inl
      · rintro (h | ⟨_, rfl⟩)
        · exact h
        · simpa using hc
    · simp only [hc, Bool.false_eq_true, if_false, List.mem_append, List.mem_singleton, true_and]
  · have : (e.1 == k) = false := by simpa using hk
    simp [this, hk]

theorem addDepStep_ok (k v : Str) (e : Str × List Str) (h : e.2.Nodup ∧ e.2 ≠ []) :
    (addDepStep k v e).2.Nodup ∧ (addDepStep k v e).2 ≠ [] := by
  unfold addDepStep
  split
  · split
    · exact h
    · rename_i hc
      refine ⟨?_, by simp⟩
      rw [List.nodup_append]
      refine ⟨h.1, by simp, ?_⟩
      intro a ha b hb
      simp only [List.mem_singleton] at hb
      subst hb
      intro hab
      subst hab
      exact hc (by simpa using ha)
  · exact h

theorem pair_eta_of_fst {α β : Type} {p : α × β} {k : α} (h : p.1 = k) : (k, p.2) = p := by
  subst h; rfl

theorem pairs_addDep (d : List (Str × List Str)) (k v k' v' : Str) :
    Pairs (addDep d k v) k' v' ↔ Pairs d k' v' ∨ (k' = k ∧ v' = v) := by
  rw [addDep_eq]
  split
  · rename_i hany
    obtain ⟨e0, he0, hk0⟩ := List.any_eq_true.1 hany
    have hk0 : e0.1 = k := by simpa using hk0
    constructor
    · rintro ⟨vs, hmem, hv⟩
      obtain ⟨e, he, hfe⟩ := List.mem_map.1 hmem
      have h1 : e.1 = k' := by rw [← addDepStep_fst k v e, hfe]
      have h2 : v' ∈ (addDepStep k v e).2 := by rw [hfe]; exact hv
      rcases (addDepStep_mem k v e v').1 h2 with h | ⟨hk, hv⟩
      · exact .inl ⟨e.2, by rw [← h1]; exact he, h⟩
      · exact .inr ⟨by rw [← h1, hk], hv⟩
    · rintro (⟨vs, hmem, hv⟩ | ⟨rfl, rfl⟩)
      · refine ⟨(addDepStep k v (k', vs)).2, ?_, (addDepStep_mem k v (k', vs) v').2 (.inl hv)⟩
        have := List.mem_map_of_mem (f := addDepStep k v) hmem
        have h1 := addDepStep_fst k v (k', vs)
        rw [pair_eta_of_fst h1]
        exact this
      · refine ⟨(addDepStep k' v' e0).2, ?_, (addDepStep_mem k' v' e0 v').2 (.inr ⟨hk0, rfl⟩)⟩
        have := List.mem_map_of_mem (f := addDepStep k' v') he0
        have h1 := addDepStep_fst k' v' e0
        rw [pair_eta_of_fst (h1.trans hk0)]
        exact this
  · simp only [Pairs, List.mem_append, List.mem_singleton, Prod.mk.injEq]
    constructor
    · rintro ⟨vs, (h | ⟨rfl, rfl⟩), hv⟩
      · exact .inl ⟨vs, h, hv⟩
      · exact .inr ⟨rfl, by simpa using hv⟩
    · rintro (⟨vs, h, hv⟩ | ⟨rfl, rfl⟩)
      · exact ⟨vs, .inl h, hv⟩
      · exact ⟨[v'], .inr ⟨rfl, rfl⟩, by simp⟩

theorem dictOK_addDep (d : List (Str × List Str)) (k v : Str) (h : DictOK d) : DictOK (addDep d k v) := by
  rw [addDep_eq]
  split
  · refine ⟨?_, ?_⟩
    · have : (d.map (addDepStep k v)).map (·.1) = d.map (·.1) := by
        rw [List.map_map]; apply List.map_congr_left; intro e _; exact addDepStep_fst k v e
      rw [this]; exact h.1
    · intro kv hkv
      obtain ⟨e, he, rfl⟩ := List.mem_map.1 hkv
      exact addDepStep_ok k v e (h.2 e he)
  · rename_i hany
    refine ⟨?_, ?_⟩
    · rw [List.map_append, List.nodup_append]
      refine ⟨h.1, by simp, ?_⟩
      intro a ha b hb
      simp only [List.map_cons, List.map_nil, List.mem_singleton] at hb
      subst hb
      intro hab
      subst hab
      apply hany
      obtain ⟨e, he, hek⟩ := List.mem_map.1 ha
      exact List.any_eq_true.2 ⟨e, he, by simpa using hek⟩
    · intro kv hkv
      rcases List.mem_append.1 hkv with hkv | hkv
      · exact h.2 kv hkv
      · simp only [List.mem_singleton] at hkv
        subst hkv
        simp

/-- folding `addDep` over a list of pairs -/
def addAll (init : List (Str × List Str)) (l : List (Str × Str)) : List (Str × List Str) :=
  l.foldl (fun acc d => addDep acc d.1 d.2) init

theorem pairs_addAll (l : List (Str × Str)) (init : List (Str × List Str)) (k v : Str) :
    Pairs (addAll init l) k v ↔ Pairs init k v ∨ (k, v) ∈ l := by
  induction l generalizing init with
  | nil => simp [addAll]
  | cons p l ih =>
    have : addAll init (p :: l) = addAll (addDep init p.1 p.2) l := rfl
    rw [this, ih, pairs_addDep]
    simp only [List.mem_cons, Prod.ext_iff]
    constructor
    · rintro ((h | h) | h)
      · exact .inl h
      · exact .inr (.inl h)
      · exact .inr (.inr h)
    · rintro (h | h | h)
      · exact .inl (.inl h)
      · exact .inl (.inr h)
      · exact .inr h

theorem dictOK_addAll (l : List (Str × Str)) (init : List (Str × List Str)) (h : DictOK init) :
    DictOK (addAll init l) := by
  induction l generalizing init with
  | nil => exact h
  | cons p l ih => exact ih _ (dictOK_addDep init p.1 p.2 h)

/-- the second fold of `pumlParse` -/
def unifyAll (u : Str → Str) (init grouped : List (Str × List Str)) : List (Str × List Str) :=
  grouped.foldl (fun acc kv => kv.2.foldl (fun acc v => addDep acc (u kv.1) (u v)) acc) init

theorem inner_fold_eq (u : Str → Str) (k : Str) (vs : List Str) (acc : List (Str × List Str)) :
    vs.foldl (fun acc v => addDep acc (u k) (u v)) acc = addAll acc (vs.map fun v => (u k, u v)) := by
  simp [addAll, List.foldl_map]

theorem pairs_unifyAll (u : Str → Str) (grouped init : List (Str × List Str)) (k v : Str) :
    Pairs (unifyAll u init grouped) k v ↔
      Pairs init k v ∨ ∃ k0 v0, Pairs grouped k0 v0 ∧ k = u k0 ∧ v = u v0 := by
  induction grouped generalizing init with
  | nil => simp [unifyAll, Pairs]
  | cons kv g ih =>
    have : unifyAll u init (kv :: g) = unifyAll u (addAll init (kv.2.map fun v => (u kv.1, u v))) g := by
      simp only [unifyAll, List.foldl_cons, inner_fold_eq]
    rw [this, ih, pairs_addAll]
    constructor
    · rintro ((h | h) | ⟨k0, v0, ⟨vs, hm, hv⟩, h1, h2⟩)
      · exact .inl h
      · obtain ⟨w, hw, hkw⟩ := List.mem_map.1 h
        simp only [Prod.mk.injEq] at hkw
        exact .inr ⟨kv.1, w, ⟨kv.2, by simp, hw⟩, hkw.1.symm, hkw.2.symm⟩
      · exact .inr ⟨k0, v0, ⟨vs, List.mem_cons_of_mem _ hm, hv⟩, h1, h2⟩
    · rintro (h | ⟨k0, v0, ⟨vs, hm, hv⟩, h1, h2⟩)
      · exact .inl (.inl h)
      · rcases List.mem_cons.1 hm with hm | hm
        · refine .inl (.inr (List.mem_map.2 ⟨v0, ?_, ?_⟩))
          · rw [← hm]; exact hv
          · rw [← hm, h1, h2]
        · exact .inr ⟨k0, v0, ⟨vs, hm, hv⟩, h1, h2⟩

theorem dictOK_unifyAll (u : Str → Str) (grouped init : List (Str × List Str)) (h : DictOK init) :
    DictOK (unifyAll u init grouped) := by
  induction grouped generalizing init with
  | nil => exact h
  | cons kv g ih =>
    have : unifyAll u init (kv :: g) = unifyAll u (addAll init (kv.2.map fun v => (u kv.1, u v))) g := by
      simp only [unifyAll, List.foldl_cons, inner_fold_eq]
    rw [this]
    exact ih _ (dictOK_addAll _ _ h)

/-! ## lookup in a dictionary with unique keys -/

theorem dict_unique (d : List (Str × List Str)) (h : (d.map (·.1)).Nodup) (k : Str) (v1 v2 : List Str)
    (h1 : (k, v1) ∈ d) (h2 : (k, v2) ∈ d) : v1 = v2 := by
  induction d with
  | nil => cases h1
  | cons e d ih =>
    simp only [List.map_cons, List.nodup_cons] at h
    rcases List.mem_cons.1 h1 with h1 | h1 <;> rcases List.mem_cons.1 h2 with h2 | h2
    · rw [← h1] at h2; exact (Prod.mk.inj h2).2.symm
    · exact absurd (List.mem_map.2 ⟨(k, v2), h2, by rw [← h1]⟩) h.1
    · exact absurd (List.mem_map.2 ⟨(k, v1), h1, by rw [← h2]⟩) h.1
    · exact ih h.2 h1 h2

theorem mem_depsOf (p : Parsed') (hok : DictOK p.dependencies) (x y : Str) :
    y ∈ p.depsOf x ↔ Pairs p.dependencies x y := by
  unfold Parsed'.depsOf
  cases hf : p.dependencies.find? (·.1 == x) with
  | none =>
    simp only [List.not_mem_nil, false_iff]
    rintro ⟨vs, hm, _⟩
    have := List.find?_eq_none.1 hf (x, vs) hm
    simp at this
  | some kv =>
    have hm := List.mem_of_find?_eq_some hf
    have hk : kv.1 = x := by simpa using List.find?_some hf
    constructor
    · intro hy
      exact ⟨kv.2, by rw [← hk]; exact hm, hy⟩
    · rintro ⟨vs, hm2, hy⟩
      have : kv.2 = vs := dict_unique _ hok.1 x kv.2 vs (by rw [← hk]; exact hm) hm2
      simp only
      rw [this]; exact hy

theorem mem_keys_iff (d : List (Str × List Str)) (hok : DictOK d) (x : Str) :
    x ∈ d.map (·.1) ↔ ∃ v, Pairs d x v := by
  constructor
  · intro h
    obtain ⟨kv, hkv, rfl⟩ := List.mem_map.1 h
    obtain ⟨v, hv⟩ := List.exists_mem_of_ne_nil _ (hok.2 kv hkv).2
    exact ⟨v, kv.2, hkv, hv⟩
  · rintro ⟨v, vs, hm, _⟩
    exact List.mem_map.2 ⟨(x, vs), hm, rfl⟩

theorem mem_vals_iff (d : List (Str × List Str)) (x : Str) :
    x ∈ d.flatMap (·.2) ↔ ∃ k, Pairs d k x := by
  simp only [List.mem_flatMap, Pairs]
  constructor
  · rintro ⟨kv, hkv, hx⟩
    exact ⟨kv.1, kv.2, hkv, hx⟩
  · rintro ⟨k, vs, hm, hx⟩
    exact ⟨(k, vs), hm, hx⟩

/-! ## unification under a functional alias table -/

/-- `all_aliases.get(x, x)` as the model computes it -/
def unifyWith (tbl : List (Str × Str)) (x : Str) : Str :=
  match (tbl.filter (·.1 == x)).getLast? with
  | some p => p.2
  | none => x

theorem functionalTbl_iff (tbl : List (Str × Str)) :
    functionalTbl tbl = true ↔ ∀ p ∈ tbl, ∀ q ∈ tbl, p.1 = q.1 → p.2 = q.2 := by
  simp only [functionalTbl, List.all_eq_true, Bool.or_eq_true, bne_iff_ne, ne_eq, beq_iff_eq]
  constructor
  · intro h p hp q hq hpq
    rcases h p hp q hq with h | h
    · exact absurd hpq h
    · exact h
  · intro h p hp q hq
    by_cases hpq : p.1 = q.1
    · exact .inr (h p hp q hq hpq)
    · exact .inl hpq

/-- the model's check is functionality of the alias table -/
theorem aliasesConsistent_eq_functionalTbl (modules : List PModule) :
    aliasesConsistent modules = functionalTbl (modules.filterMap fun m => m.alias.map fun a => (a, m.name)) := by
  rw [Bool.eq_iff_iff, aliasesConsistent_iff_forall, functionalTbl_iff]
  simp only [List.mem_filterMap, Option.map_eq_some_iff]
  constructor
  · rintro h p ⟨m1, hm1, a1, ha1, rfl⟩ q ⟨m2, hm2, a2, ha2, rfl⟩ heq
    simp only at heq
    subst heq
    exact h m1 hm1 m2 hm2 a1 ha1 ha2
  · intro h m1 hm1 m2 hm2 a ha1 ha2
    exact h (a, m1.name) ⟨m1, hm1, a, ha1, rfl⟩ (a, m2.name) ⟨m2, hm2, a, ha2, rfl⟩ rfl

theorem unifyWith_hit (tbl : List (Str × Str)) (hf : functionalTbl tbl = true) (a n : Str) (h : (a, n) ∈ tbl) :
    unifyWith tbl a = n := by
  unfold unifyWith
  cases hl : (tbl.filter (·.1 == a)).getLast? with
  | none =>
    rw [List.getLast?_eq_none_iff] at hl
    have : (a, n) ∈ tbl.filter (·.1 == a) := List.mem_filter.2 ⟨h, by simp⟩
    rw [hl] at this; cases this
  | some p =>
    have hp : p ∈ tbl.filter (·.1 == a) := List.mem_of_getLast? hl
    obtain ⟨hp1, hp2⟩ := List.mem_filter.1 hp
    have hp2 : p.1 = a := by simpa using hp2
    exact (functionalTbl_iff tbl).1 hf p hp1 (a, n) h hp2

theorem unifyWith_miss (tbl : List (Str × Str)) (x : Str) (h : ∀ p ∈ tbl, p.1 ≠ x) : unifyWith tbl x = x := by
  unfold unifyWith
  have : tbl.filter (·.1 == x) = [] := by
    rw [List.filter_eq_nil_iff]
    intro p hp
    simpa using h p hp
  rw [this]; rfl

theorem resolveStr_hit (tbl : List (Str × Str)) (hf : functionalTbl tbl = true) (a n : Str) (h : (a, n) ∈ tbl) :
    resolveStr tbl a = n := by
  unfold resolveStr
  cases hl : tbl.find? (·.1 == a) with
  | none =>
    have := List.find?_eq_none.1 hl (a, n) h
    simp at this
  | some p =>
    have hp1 := List.mem_of_find?_eq_some hl
    have hp2 : p.1 = a := by simpa using List.find?_some hl
    exact (functionalTbl_iff tbl).1 hf p hp1 (a, n) h hp2

/-! ## the aggregate, characterised -/

theorem pumlAgg_spec (modules : List PModule) (raw : List (Str × Str)) :
    let tbl := modules.filterMap fun m => m.alias.map fun a => (a, m.name)
    let p := pumlAgg modules raw
    DictOK p.dependencies ∧ p.modules.Nodup ∧
    (∀ x y, y ∈ p.depsOf x ↔ ∃ a b, (a, b) ∈ raw ∧ x = unifyWith tbl a ∧ y = unifyWith tbl b) ∧
    (∀ x, x ∈ p.modules ↔ (∃ m ∈ modules, m.name = x) ∨
      ∃ a b, (a, b) ∈ raw ∧ (x = unifyWith tbl a ∨ x = unifyWith tbl b)) := by
  intro tbl p
  have hp : p = ⟨dedup (modules.map (·.name) ++ (unifyAll (unifyWith tbl) [] (addAll [] raw)).map (·.1) ++
      (unifyAll (unifyWith tbl) [] (addAll [] raw)).flatMap (·.2)), unifyAll (unifyWith tbl) [] (addAll [] raw)⟩ := rfl
  have hok : DictOK (unifyAll (unifyWith tbl) [] (addAll [] raw)) := dictOK_unifyAll _ _ _ dictOK_nil
  have hpairs : ∀ x y, Pairs (unifyAll (unifyWith tbl) [] (addAll [] raw)) x y ↔
      ∃ a b, (a, b) ∈ raw ∧ x = unifyWith tbl a ∧ y = unifyWith tbl b := by
    intro x y
    rw [pairs_unifyAll]
    simp only [pairs_nil, false_or, pairs_addAll]
  refine ⟨by rw [hp]; exact hok, by rw [hp]; exact puml_nodup_dedup _, ?_, ?_⟩
  · intro x y
    rw [mem_depsOf p (by rw [hp]; exact hok)]
    rw [hp]
    exact hpairs x y
  · intro x
    rw [hp]
    simp only [puml_mem_dedup, List.mem_append, mem_keys_iff _ hok, mem_vals_iff, hpairs, List.mem_map]
    constructor
    · rintro ((h | ⟨v, a, b, hab, h1, _⟩) | ⟨k, a, b, hab, _, h2⟩)
      · exact .inl h
      · exact .inr ⟨a, b, hab, .inl h1⟩
      · exact .inr ⟨a, b, hab, .inr h2⟩
    · rintro (h | ⟨a, b, hab, (h | h)⟩)
      · exact .inl (.inl h)
      · exact .inl (.inr ⟨_, a, b, hab, h, rfl⟩)
      · exact .inr ⟨_, a, b, hab, rfl, h⟩

end Pta
