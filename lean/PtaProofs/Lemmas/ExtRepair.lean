/-
  PtaProofs.Lemmas.ExtRepair — the module list before and after the repair of F-C10e (library commit 4ee40c9:
  `ImporteeModuleCalculator.calculate_importee_modules` no longer skips importees whose dotted name contains
  `str(root_path)`): `moduleListBeforeRepair` and `moduleList` (PtaModel/Scan.lean) agree whenever the substring test
  never fires on an external importee — in particular for a root path string containing a `/` (every absolute path)
  when no importee contains one.
-/
import PtaProofs.Lemmas.PumlBody
import PtaProofs.Lemmas.ExtScan
namespace Pta
namespace ExtRepair

/-- a pattern containing a character the text lacks is not a substring of the text -/
theorem isInfix_false_of_char (c : Char) (p s : Str) (hp : c ∈ p) (hs : c ∉ s) : isInfix p s = false := by
  cases h : isInfix p s with
  | false => rfl
  | true => exact absurd (((isInfix_iff p s).1 h).subset hp) hs

/-- the two definitions agree when the substring test fires on no external importee -/
theorem moduleList_eq_before_repair_lemma (mt : Str → Str → Bool) (base : Str) (o : ScanOptions) (pre : Str)
    (P : List Str) (R : List ImportRec)
    (h : ∀ i ∈ R, isInternal i.importee pre = false → isInfix base i.importee = false) :
    moduleListBeforeRepair mt base o pre P R = moduleList mt base o pre P R := by
  have hadd : (R.filter fun i => !isInternal i.importee pre).flatMap
        (fun i => if isInfix base i.importee then [] else i.importee :: i.importeeParents) =
      (R.filter fun i => !isInternal i.importee pre).flatMap (fun i => i.importee :: i.importeeParents) := by
    rw [List.flatMap_def, List.flatMap_def]
    congr 1
    apply List.map_congr_left
    intro i hi
    rw [List.mem_filter] at hi
    have := h i hi.1 (by simpa using hi.2)
    simp [this]
  unfold moduleListBeforeRepair moduleList
  simp only [hadd]

end ExtRepair
end Pta
