/-
  PtaProofs.Lemmas.RenameModel — the CODE MODEL commutes with every injective map of node names
  (namespace `Pta.RM`): graph accessors, the worklist searches, the three queries, violation detection, the
  report and `assert_applies`. All results are exact list equalities (`… = (…).map φ`), not only set equalities.
-/
import Bridge.Abs
import Bridge.Rename
import PtaProofs.Lemmas.QueryErr
import PtaProofs.Lemmas.DroppedAbsent
namespace Pta.RM
open Pta PtaSpec

/-! ### lists and injective maps -/

theorem mem_map_inj {α β : Type} (φ : α → β) (hφ : ∀ x y, φ x = φ y → x = y) (l : List α) (x : α) :
    φ x ∈ l.map φ ↔ x ∈ l := by
  simp only [List.mem_map]
  constructor
  · rintro ⟨y, hy, h⟩; rw [← hφ y x h]; exact hy
  · intro h; exact ⟨x, h, rfl⟩

theorem contains_map_inj {α β : Type} [BEq α] [LawfulBEq α] [BEq β] [LawfulBEq β] (φ : α → β) (hφ : ∀ x y, φ x = φ y → x = y)
    (l : List α) (x : α) : (l.map φ).contains (φ x) = l.contains x := by
  rw [Bool.eq_iff_iff]
  simp only [List.contains_iff_mem]
  exact mem_map_inj φ hφ l x

theorem beq_inj {α β : Type} [BEq α] [LawfulBEq α] [BEq β] [LawfulBEq β] (φ : α → β) (hφ : ∀ x y, φ x = φ y → x = y)
    (x y : α) : (φ x == φ y) = (x == y) := by
  rw [Bool.eq_iff_iff]; simp only [beq_iff_eq]; exact ⟨hφ x y, fun h => by rw [h]⟩

theorem contains_map_inj_d {α β : Type} [DecidableEq α] [DecidableEq β] (φ : α → β) (hφ : ∀ x y, φ x = φ y → x = y)
    (l : List α) (x : α) : (l.map φ).contains (φ x) = l.contains x := by
  rw [Bool.eq_iff_iff]
  simp only [List.contains_iff_mem]
  exact mem_map_inj φ hφ l x

theorem beq_inj_d {α β : Type} [DecidableEq α] [DecidableEq β] (φ : α → β) (hφ : ∀ x y, φ x = φ y → x = y)
    (x y : α) : (φ x == φ y) = (x == y) := by
  rw [Bool.eq_iff_iff]; simp only [beq_iff_eq]; exact ⟨hφ x y, fun h => by rw [h]⟩

theorem dedup_map_inj {α β : Type} [DecidableEq α] [DecidableEq β] (φ : α → β) (hφ : ∀ x y, φ x = φ y → x = y)
    (l : List α) : dedup (l.map φ) = (dedup l).map φ := by
  induction l with
  | nil => rfl
  | cons x xs ih =>
    simp only [List.map_cons, dedup, ih, mem_map_inj φ hφ]
    split <;> rfl

theorem mapM_map {α α' β β' : Type} (a : α → α') (b : β → β') (f : α → Except ErrKind β) (f' : α' → Except ErrKind β')
    (h : ∀ x, f' (a x) = (f x).map b) (l : List α) : (l.map a).mapM f' = (l.mapM f).map (List.map b) := by
  induction l with
  | nil => rfl
  | cons x xs ih =>
    simp only [List.map_cons, List.mapM_cons, h, ih]
    cases f x with
    | error e => rfl
    | ok y =>
      cases xs.mapM f with
      | error e => rfl
      | ok ys => rfl

/-- renaming of dependency records -/
def mapDep (φ : Str → Str) (d : Dep) : Dep := (d.1.mapId φ, d.2.mapId φ)
def mapExpl (φ : Str → Str) (kd : Dep × List (Str × Str)) : Dep × List (Str × Str) :=
  (mapDep φ kd.1, kd.2.map (Prod.map φ φ))
def mapOther (φ : Str → Str) (kd : Mod × List (Str × Str)) : Mod × List (Str × Str) :=
  (kd.1.mapId φ, kd.2.map (Prod.map φ φ))

/-! ### graph accessors -/

section Graph
variable (φ : Str → Str) (hφ : ∀ x y, φ x = φ y → x = y)
include hφ

theorem hasNode_map (g : PGraph Str) (n : Str) : (mapGraph φ g).hasNode (φ n) = g.hasNode n :=
  contains_map_inj_d φ hφ g.nodes n

theorem hierChildren_map (g : PGraph Str) (n : Str) :
    (mapGraph φ g).hierChildren (φ n) = (g.hierChildren n).map φ := by
  simp only [PGraph.hierChildren, mapGraph, List.filter_map, List.map_map, Function.comp_def, beq_inj_d φ hφ]

theorem importSuccs_map (g : PGraph Str) (n : Str) :
    (mapGraph φ g).importSuccs (φ n) = (g.importSuccs n).map φ := by
  simp only [PGraph.importSuccs, mapGraph, List.filter_map, List.map_map, Function.comp_def, beq_inj_d φ hφ]

theorem importPreds_map (g : PGraph Str) (n : Str) :
    (mapGraph φ g).importPreds (φ n) = (g.importPreds n).map φ := by
  simp only [PGraph.importPreds, mapGraph, List.filter_map, List.map_map, Function.comp_def, beq_inj_d φ hφ]

omit hφ in
theorem hierCount_map (g : PGraph Str) : hierCount (mapGraph φ g) = hierCount g := by
  simp only [hierCount, mapGraph, List.countP_map, Function.comp_def]

theorem subLoop_map (g : PGraph Str) (f : Nat) (work seen : List Str) :
    subLoop (mapGraph φ g) f (work.map φ) (seen.map φ) = (subLoop g f work seen).map φ := by
  induction f generalizing work seen with
  | zero => rfl
  | succ f ih =>
    cases work with
    | nil => rfl
    | cons n rest =>
      simp only [List.map_cons, subLoop, mem_map_inj φ hφ]
      split
      · exact ih rest seen
      · rw [hierChildren_map φ hφ, ← List.map_append, ← List.map_cons]
        exact ih _ _

theorem submodulesOf_map (g : PGraph Str) (s : Str) :
    submodulesOf (mapGraph φ g) (φ s) = (submodulesOf g s).map (List.map φ) := by
  simp only [submodulesOf, hasNode_map φ hφ, hierCount_map]
  split
  · have := subLoop_map φ hφ g (hierCount g + 2) [s] []
    simp only [List.map_cons, List.map_nil] at this
    rw [this]; rfl
  · rfl

/-! ### filters -/

omit hφ in
theorem mapId_id (f : Filter) : (f.mapId φ).id = φ f.id := by cases f <;> rfl

omit hφ in
theorem mapId_isParent (f : Filter) : (f.mapId φ).isParent = f.isParent := by cases f <;> rfl

omit hφ in
theorem mapId_isRegex (f : Filter) : (f.mapId φ).isRegex = f.isRegex := by cases f <;> rfl

omit hφ in
theorem mapId_toMod (f : Filter) : (f.mapId φ).toMod = f.toMod.mapId φ := by cases f <;> rfl

theorem filter_mapId_inj (f f' : Filter) (h : f.mapId φ = f'.mapId φ) : f = f' := by
  cases f <;> cases f' <;> simp only [Filter.mapId, Filter.name.injEq, Filter.parent.injEq, Filter.regex.injEq, reduceCtorEq] at h <;>
    rw [hφ _ _ h]

theorem mod_mapId_inj (m m' : Mod) (h : m.mapId φ = m'.mapId φ) : m = m' := by
  cases m; cases m'
  simp only [Mod.mapId, Mod.mk.injEq] at h ⊢
  exact ⟨h.1, hφ _ _ h.2⟩

omit hφ in
theorem parentIds_map (fs : List Filter) : parentIds (fs.map (Filter.mapId φ)) = (parentIds fs).map φ := by
  simp only [parentIds, List.filter_map, List.map_map, Function.comp_def, mapId_isParent, mapId_id]

/-! ### the searches -/

/-- renaming of a dependency pair -/
abbrev pm : Str × Str → Str × Str := Prod.map φ φ

theorem depBetween_map (g : PGraph Str) (f o : Filter) :
    depBetween (mapGraph φ g) (f.mapId φ) (o.mapId φ) = (depBetween g f o).map (List.map (Prod.map φ φ)) := by
  unfold depBetween
  rw [mapId_id, mapId_id, submodulesOf_map φ hφ, submodulesOf_map φ hφ]
  cases submodulesOf g o.id with
  | error e => rfl
  | ok upon =>
    cases submodulesOf g f.id with
    | error e => rfl
    | ok own =>
      simp only [Except.map, bind, Except.bind, pure, Except.pure]
      congr 1
      have hp : parentIds [f.mapId φ, o.mapId φ] = (parentIds [f, o]).map φ := parentIds_map φ [f, o]
      rw [hp, List.flatMap_map, List.map_flatMap]
      congr 1
      funext n
      simp only [importSuccs_map φ hφ, List.filter_map, List.map_map, Function.comp_def, contains_map_inj φ hφ, Prod.map]

theorem mapId_eq_iff (f f' : Filter) : f.mapId φ = f'.mapId φ ↔ f = f' :=
  ⟨filter_mapId_inj φ hφ f f', fun h => by rw [h]⟩

theorem exclUnion_aux (g : PGraph Str) (self : Filter) (others : List Filter) (acc : List Str) :
    (others.map (Filter.mapId φ)).foldlM (fun acc o => if o = self.mapId φ then pure acc else do
        let s ← submodulesOf (mapGraph φ g) o.id
        pure (acc ++ s)) (acc.map φ) =
    (others.foldlM (fun acc o => if o = self then pure acc else do
        let s ← submodulesOf g o.id
        pure (acc ++ s)) acc).map (List.map φ) := by
  induction others generalizing acc with
  | nil => rfl
  | cons o os ih =>
    simp only [List.map_cons, List.foldlM_cons, mapId_eq_iff φ hφ, mapId_id, submodulesOf_map φ hφ]
    by_cases ho : o = self
    · simp only [ho, if_true, pure_bind]
      exact ih acc
    · simp only [ho, if_false]
      cases submodulesOf g o.id with
      | error e => rfl
      | ok sub =>
        simp only [Except.map, bind, Except.bind, pure, Except.pure]
        rw [← List.map_append]
        exact ih _

theorem exclUnion_map (g : PGraph Str) (self : Filter) (others : List Filter) :
    exclUnion (mapGraph φ g) (self.mapId φ) (others.map (Filter.mapId φ)) =
      (exclUnion g self others).map (List.map φ) :=
  exclUnion_aux φ hφ g self others []

theorem otherFrom_map (g : PGraph Str) (f : Filter) (os : List Filter) :
    otherFrom (mapGraph φ g) (f.mapId φ) (os.map (Filter.mapId φ)) =
      (otherFrom g f os).map (List.map (Prod.map φ φ)) := by
  unfold otherFrom
  rw [exclUnion_map φ hφ, mapId_id, submodulesOf_map φ hφ, mapId_isParent, parentIds_map]
  cases exclUnion g f os with
  | error e => rfl
  | ok excl0 =>
    cases submodulesOf g f.id with
    | error e => rfl
    | ok own =>
      simp only [Except.map, bind, Except.bind, pure, Except.pure]
      congr 1
      have hskip : (if f.isParent = true then [φ f.id] else []) = (if f.isParent = true then [f.id] else []).map φ := by
        split <;> rfl
      rw [hskip]
      simp only [List.filter_map, List.flatMap_map, List.map_flatMap, Function.comp_def, contains_map_inj φ hφ]
      congr 1
      funext n
      simp only [importSuccs_map φ hφ, List.filter_map, List.map_map, Function.comp_def, contains_map_inj φ hφ, Prod.map]

theorem otherTo_map (g : PGraph Str) (fs : List Filter) (o : Filter) :
    otherTo (mapGraph φ g) (fs.map (Filter.mapId φ)) (o.mapId φ) =
      (otherTo g fs o).map (List.map (Prod.map φ φ)) := by
  unfold otherTo
  rw [exclUnion_map φ hφ, mapId_id, submodulesOf_map φ hφ, mapId_isParent, parentIds_map]
  cases exclUnion g o fs with
  | error e => rfl
  | ok excl0 =>
    cases submodulesOf g o.id with
    | error e => rfl
    | ok own0 =>
      simp only [Except.map, bind, Except.bind, pure, Except.pure]
      congr 1
      have hown : (if o.isParent = true then (own0.map φ).filter (· != φ o.id) else own0.map φ) =
          (if o.isParent = true then own0.filter (· != o.id) else own0).map φ := by
        split
        · simp only [List.filter_map, Function.comp_def, bne, beq_inj φ hφ]
        · rfl
      rw [hown]
      simp only [List.filter_map, List.flatMap_map, List.map_flatMap, Function.comp_def, contains_map_inj φ hφ]
      congr 1
      funext n
      simp only [importPreds_map φ hφ, List.filter_map, List.map_map, Function.comp_def, contains_map_inj φ hφ, Prod.map]

/-! ### the three queries -/

theorem getDependencies_map (g : PGraph Str) (A B : List Filter) :
    getDependencies (mapGraph φ g) (A.map (Filter.mapId φ)) (B.map (Filter.mapId φ)) =
      (getDependencies g A B).map (List.map (mapExpl φ)) := by
  unfold getDependencies
  rw [dedup_map_inj _ (filter_mapId_inj φ hφ), dedup_map_inj _ (filter_mapId_inj φ hφ)]
  have hl : ((dedup A).map (Filter.mapId φ)).flatMap (fun f => ((dedup B).map (Filter.mapId φ)).map fun o => (f, o)) =
      ((dedup A).flatMap fun f => (dedup B).map fun o => (f, o)).map (Prod.map (Filter.mapId φ) (Filter.mapId φ)) := by
    simp only [List.flatMap_map, List.map_flatMap, List.map_map, Function.comp_def, Prod.map]
  rw [hl]
  apply mapM_map
  rintro ⟨f, o⟩
  simp only [Prod.map, depBetween_map φ hφ, mapId_toMod]
  cases depBetween g f o with
  | error e => rfl
  | ok d => rfl

theorem getOtherFrom_map (g : PGraph Str) (A B : List Filter) :
    getOtherFrom (mapGraph φ g) (A.map (Filter.mapId φ)) (B.map (Filter.mapId φ)) =
      (getOtherFrom g A B).map (List.map (mapOther φ)) := by
  unfold getOtherFrom
  rw [dedup_map_inj _ (filter_mapId_inj φ hφ), dedup_map_inj _ (filter_mapId_inj φ hφ)]
  apply mapM_map
  intro f
  simp only [otherFrom_map φ hφ, mapId_toMod]
  cases otherFrom g f (dedup B) with
  | error e => rfl
  | ok d => rfl

theorem getOtherTo_map (g : PGraph Str) (A B : List Filter) :
    getOtherTo (mapGraph φ g) (A.map (Filter.mapId φ)) (B.map (Filter.mapId φ)) =
      (getOtherTo g A B).map (List.map (mapOther φ)) := by
  unfold getOtherTo
  rw [dedup_map_inj _ (filter_mapId_inj φ hφ), dedup_map_inj _ (filter_mapId_inj φ hφ)]
  apply mapM_map
  intro o
  simp only [otherTo_map φ hφ, mapId_toMod]
  cases otherTo g (dedup A) o with
  | error e => rfl
  | ok d => rfl

/-- renaming of the pair of query results -/
def mapQ (φ : Str → Str) (p : Option ExplDeps × Option OtherDeps) : Option ExplDeps × Option OtherDeps :=
  (p.1.map (List.map (mapExpl φ)), p.2.map (List.map (mapOther φ)))

theorem runQueries_map (g : PGraph Str) (b : Behavior) (ir : Bool) (S O : List Filter) :
    runQueries (mapGraph φ g) b ir (S.map (Filter.mapId φ)) (O.map (Filter.mapId φ)) =
      (runQueries g b ir S O).map (mapQ φ) := by
  unfold runQueries
  cases ir
  · simp only [Bool.false_eq_true, if_false, getDependencies_map φ hφ, getOtherTo_map φ hφ]
    cases (b.explReq || b.explForb) <;> cases (b.otherReq || b.otherForb) <;>
      cases getDependencies g O S <;> cases getOtherTo g O S <;> rfl
  · simp only [if_true, getDependencies_map φ hφ, getOtherFrom_map φ hφ]
    cases (b.explReq || b.explForb) <;> cases (b.otherReq || b.otherForb) <;>
      cases getDependencies g S O <;> cases getOtherFrom g S O <;> rfl

/-! ### violation detection and the report -/

omit hφ in
theorem userOrder_map {α β : Type} (k : α → β) (ir : Bool) (d : α × α) :
    userOrder ir (k d.1, k d.2) = ((userOrder ir d).1 |> k, (userOrder ir d).2 |> k) := by
  cases ir <;> rfl

omit hφ in
theorem realised_map (ir : Bool) {κ κ' : Type} (k : κ → κ') (deps : List (κ × List (Str × Str))) :
    realised ir (deps.map fun kd => (k kd.1, kd.2.map (Prod.map φ φ))) = (realised ir deps).map (mapDep φ) := by
  simp only [realised, List.flatMap_map, List.map_flatMap, List.map_map, Function.comp_def]
  congr 1; funext kd; congr 1; funext p
  cases ir <;> rfl

omit hφ in
theorem abstractWithout_map (ir : Bool) (e : ExplDeps) :
    abstractWithout ir (e.map (mapExpl φ)) = (abstractWithout ir e).map (mapDep φ) := by
  simp only [abstractWithout, List.filter_map, List.map_map, Function.comp_def, mapExpl, List.isEmpty_map]
  congr 1; funext kd
  cases ir <;> rfl

omit hφ in
theorem missingOther_map (o : OtherDeps) (objs : List Mod) :
    missingOther (o.map (mapOther φ)) (objs.map (Mod.mapId φ)) = (missingOther o objs).map (mapDep φ) := by
  simp only [missingOther, List.filter_map, List.flatMap_map, List.map_flatMap, List.map_map, Function.comp_def, mapOther,
    List.isEmpty_map, mapDep]

/-- renaming of the eight buckets -/
def mapV (φ : Str → Str) (v : Violations) : Violations :=
  { should := v.should.map (mapDep φ)
    shouldOnlyForbidden := v.shouldOnlyForbidden.map (mapDep φ)
    shouldOnlyNoImport := v.shouldOnlyNoImport.map (mapDep φ)
    shouldNot := v.shouldNot.map (mapDep φ)
    shouldExcept := v.shouldExcept.map (mapDep φ)
    shouldOnlyExceptForbidden := v.shouldOnlyExceptForbidden.map (mapDep φ)
    shouldOnlyExceptNoImport := v.shouldOnlyExceptNoImport.map (mapDep φ)
    shouldNotExcept := v.shouldNotExcept.map (mapDep φ) }

omit hφ in
theorem mapV_any (v : Violations) : (mapV φ v).any = v.any := by
  simp only [Violations.any, mapV, List.isEmpty_map]

omit hφ in
theorem detect_map (b : Behavior) (ir : Bool) (expl : Option ExplDeps) (other : Option OtherDeps) (objs : List Mod) :
    detect b ir (expl.map (List.map (mapExpl φ))) (other.map (List.map (mapOther φ))) (objs.map (Mod.mapId φ)) =
      mapV φ (detect b ir expl other objs) := by
  have hE : ∀ e : ExplDeps, realised ir (e.map (mapExpl φ)) = (realised ir e).map (mapDep φ) :=
    fun e => realised_map φ ir (mapDep φ) e
  have hO : ∀ o : OtherDeps, realised ir (o.map (mapOther φ)) = (realised ir o).map (mapDep φ) :=
    fun o => realised_map φ ir (Mod.mapId φ) o
  cases expl <;> cases other <;>
    simp only [detect, mapV, Option.map_none, Option.map_some, List.map_nil, hE, hO, abstractWithout_map, missingOther_map] <;>
    cases b.expExplNotPresent <;> cases b.expExplPresent <;> cases b.expExplAndNoOther <;> cases b.expAtLeastOneOther <;>
    cases b.expExplNotButOthers <;> cases b.expOtherNotPresent <;> rfl

omit hφ in
theorem impItems_map (ir : Bool) (ds : List Dep) :
    impItems ir (ds.map (mapDep φ)) = (impItems ir ds).map (Item.mapId φ) := by
  simp only [impItems, List.map_map, Function.comp_def]
  congr 1; funext d
  cases ir <;> rfl

theorem missItems_map (any ir : Bool) (ds : List Dep) :
    missItems any ir (ds.map (mapDep φ)) = (missItems any ir ds).map (Item.mapId φ) := by
  simp only [missItems, List.map_map, Function.comp_def]
  have h1 : (ds.map fun d => (mapDep φ d).1) = (ds.map (·.1)).map (Mod.mapId φ) := by
    simp only [List.map_map, Function.comp_def, mapDep]
  rw [h1, dedup_map_inj _ (mod_mapId_inj φ hφ), List.map_map]
  congr 1; funext s
  simp only [Function.comp_def, Item.mapId, List.filter_map]
  have h2 : (fun d : Dep => decide ((mapDep φ d).1 = Mod.mapId φ s)) = fun d => decide (d.1 = s) := by
    funext d
    apply decide_eq_decide.2
    exact ⟨mod_mapId_inj φ hφ _ _, fun h => by rw [mapDep, h]⟩
  rw [h2]
  have h3 : (((ds.filter fun d => decide (d.1 = s)).map (mapDep φ)).map fun x => x.2) =
      ((ds.filter fun d => decide (d.1 = s)).map (·.2)).map (Mod.mapId φ) := by
    simp only [List.map_map, Function.comp_def, mapDep]
  rw [h3, dedup_map_inj _ (mod_mapId_inj φ hφ)]

theorem reportItems_map (ir : Bool) (v : Violations) :
    reportItems ir (mapV φ v) = (reportItems ir v).map (Item.mapId φ) := by
  simp only [reportItems, mapV, List.map_append, impItems_map, missItems_map φ hφ]

/-! ### `matchRule` and `assert_applies` -/

omit hφ in
theorem noregex_map (fs : List Filter) (h : ∀ f ∈ fs, f.isRegex = false) :
    ∀ f ∈ fs.map (Filter.mapId φ), f.isRegex = false := by
  intro f hf
  obtain ⟨f0, hf0, rfl⟩ := List.mem_map.1 hf
  rw [mapId_isRegex]; exact h f0 hf0

theorem matchRule_map (mt : Str → Str → Bool) (g : PGraph Str) (b : Behavior) (d : Bool) (ss os : List Filter)
    (hss : ∀ f ∈ ss, f.isRegex = false) (hos : ∀ f ∈ os, f.isRegex = false) :
    matchRule mt (mapGraph φ g) b d (ss.map (Filter.mapId φ)) (os.map (Filter.mapId φ)) =
      (matchRule mt g b d ss os).mapId φ := by
  unfold matchRule
  rw [Pta.Hist.convertFilters_noregex mt _ _ (noregex_map φ ss hss), Pta.Hist.convertFilters_noregex mt _ _ (noregex_map φ os hos),
    Pta.Hist.convertFilters_noregex mt _ _ hss, Pta.Hist.convertFilters_noregex mt _ _ hos]
  simp only [runQueries_map φ hφ]
  cases runQueries g b d ss os with
  | error k => rfl
  | ok p =>
    obtain ⟨expl, other⟩ := p
    have hobj : (os.map (Filter.mapId φ)).map Filter.toMod = (os.map Filter.toMod).map (Mod.mapId φ) := by
      simp only [List.map_map, Function.comp_def, mapId_toMod]
    simp only [Except.map, mapQ, hobj, detect_map, mapV_any, reportItems_map φ hφ]
    split <;> rfl

omit hφ in
theorem dedupSubjects_map (fs : List Filter)
    (hsub : ∀ f ∈ fs, ∀ f' ∈ fs, isStrictSub (φ f.id) (φ f'.id) = isStrictSub f.id f'.id) :
    dedupSubjects (fs.map (Filter.mapId φ)) = (dedupSubjects fs).map (Filter.mapId φ) := by
  unfold dedupSubjects
  rw [List.filter_map]
  congr 1
  apply List.filter_congr
  intro m hm
  simp only [Function.comp_def, List.any_map, mapId_id, mapId_isParent]
  congr 1
  rw [Bool.eq_iff_iff]
  simp only [List.any_eq_true]
  constructor
  · rintro ⟨o, ho, h⟩; exact ⟨o, ho, by rw [← hsub o ho m hm]; exact h⟩
  · rintro ⟨o, ho, h⟩; exact ⟨o, ho, by rw [hsub o ho m hm]; exact h⟩

/-- all filters of a configuration are name / parent filters -/
def cfgNoRegex (c : RuleConfig) : Prop :=
  (∀ ss, c.subjects = some ss → ∀ f ∈ ss, f.isRegex = false) ∧ (∀ os, c.objects = some os → ∀ f ∈ os, f.isRegex = false)

/-- `φ` preserves the strict-sub-module test among the subject identifiers -/
def cfgSubOK (φ : Str → Str) (c : RuleConfig) : Prop :=
  ∀ ss, c.subjects = some ss → ∀ f ∈ ss, ∀ f' ∈ ss, isStrictSub (φ f.id) (φ f'.id) = isStrictSub f.id f'.id

omit hφ in
theorem droppedSubjects_map (fs : List Filter)
    (hsub : ∀ f ∈ fs, ∀ f' ∈ fs, isStrictSub (φ f.id) (φ f'.id) = isStrictSub f.id f'.id) :
    droppedSubjects (fs.map (Filter.mapId φ)) = (droppedSubjects fs).map (Filter.mapId φ) := by
  rw [droppedSubjects_eq, droppedSubjects_eq, List.filter_map]
  congr 1
  apply List.filter_congr
  intro m hm
  simp only [Function.comp_def, List.any_map, mapId_id, mapId_isParent]
  apply any_congr_mem
  intro o ho
  rw [hsub o ho m hm]

omit hφ in
theorem convertAliases_map (c : RuleConfig) (hsub : cfgSubOK φ c) :
    convertAliases (c.mapId φ) = (convertAliases c).mapId φ := by
  unfold convertAliases
  cases ha : c.anything
  · simp only [RuleConfig.mapId, ha, Bool.not_false, if_true]
  · simp only [RuleConfig.mapId, ha, Bool.not_true, Bool.false_eq_true, if_false]
    cases hs : c.subjects with
    | none => rfl
    | some ss =>
      simp only [Option.map_some, dedupSubjects_map φ ss (hsub ss hs), droppedSubjects_map φ ss (hsub ss hs)]

/-- the existence check on the removed subjects (`droppedAbsent`) commutes with an injective renaming -/
theorem droppedAbsent_map (g : PGraph Str) (c : RuleConfig) :
    droppedAbsent (mapGraph φ g) (c.mapId φ) = droppedAbsent g c := by
  unfold droppedAbsent
  simp only [RuleConfig.mapId, List.any_map, Function.comp_def, mapId_id, mapId_isRegex, hasNode_map φ hφ]

omit hφ in
theorem dedupSubjects_sub (fs : List Filter) : ∀ f ∈ dedupSubjects fs, f ∈ fs := by
  intro f hf; exact (List.mem_filter.1 hf).1

omit hφ in
theorem configMissing_map (c : RuleConfig) : configMissing (c.mapId φ) = configMissing c := by
  unfold configMissing
  cases hs : c.subjects <;> cases ho : c.objects <;> simp [RuleConfig.mapId, hs, ho]

theorem assertApplies_map (mt : Str → Str → Bool) (g : PGraph Str) (s : RuleState)
    (hreg : cfgNoRegex s.cfg) (hsub : cfgSubOK φ s.cfg) :
    assertApplies mt (s.mapId φ) (mapGraph φ g) =
      ((assertApplies mt s g).1.mapId φ, (assertApplies mt s g).2.mapId φ) := by
  unfold assertApplies
  have hmis : anythingMisused (s.mapId φ).cfg = anythingMisused s.cfg := rfl
  rw [hmis]
  split
  · rfl
  · have hca : convertAliases (s.mapId φ).cfg = (convertAliases s.cfg).mapId φ := convertAliases_map φ s.cfg hsub
    simp only [hca, configMissing_map, droppedAbsent_map φ hφ]
    split
    · rfl
    split
    · rfl
    · have hb : ((convertAliases s.cfg).mapId φ).behavior = (convertAliases s.cfg).behavior := rfl
      rw [hb]
      split
      · rfl
      · have hreg' : cfgNoRegex (convertAliases s.cfg) := by
          unfold convertAliases
          split
          · exact hreg
          · constructor
            · intro ss hss f hf
              cases hs : s.cfg.subjects with
              | none => simp [hs] at hss
              | some ss0 =>
                simp only [hs, Option.map_some, Option.some.injEq] at hss
                subst hss
                exact hreg.1 ss0 hs f (dedupSubjects_sub ss0 f hf)
            · intro ss hss f hf
              cases hs : s.cfg.subjects with
              | none => simp [hs] at hss
              | some ss0 =>
                simp only [hs, Option.map_some, Option.some.injEq] at hss
                subst hss
                exact hreg.1 ss0 hs f (dedupSubjects_sub ss0 f hf)
        generalize convertAliases s.cfg = c at hreg'
        obtain ⟨subjects, objects, sh, so, sn, ep, dir, anyt, drp⟩ := c
        cases dir <;> cases subjects <;> cases objects <;> try rfl
        rename_i d ss os
        simp only [RuleConfig.mapId, Option.map_some]
        rw [matchRule_map φ hφ mt g _ d ss os (hreg'.1 ss rfl) (hreg'.2 os rfl)]
        rfl

end Graph

end Pta.RM
