/-
  PtaProofs.Lemmas.OrderDiagramText — the aggregated diagram message under a change of the ORDER in which the parser
  lists modules, dictionary keys and dictionary values (property C15 for the diagram message text):
  * the aggregation `aggOf` of a permuted list of rule outcomes (`aggOf_perm`);
  * the outcomes (with message lines) of the rules generated from two parse results with the same module set and the
    same dependency relation are permutations of each other (`rules_text_perm`) — every rule has a counterpart with
    literally the same message, because a message sorts the objects inside a `does not import` line;
  * the parser's dictionary invariants for a file given by raw lines (`linesText_parse`).
-/
import Bridge.MessageAgg
import Bridge.OrderDefs
import PtaProofs.Lemmas.MessageAgg
import PtaProofs.Lemmas.OrderReport
import PtaProofs.Lemmas.OrderMore
import PtaProofs.Lemmas.DiagramE2E
import PtaProofs.Lemmas.RuleErrors
namespace Pta.OrdDT
open Pta PtaSpec Pta.Ord Pta.Dg Pta.Itm Pta.E2E

/-! ### `aggOf` of a permuted list of outcomes -/

theorem aggOf_err_mem (vs : List TextVerdict) (k : ErrKind) (h : aggOf vs = .err k) : TextVerdict.err k ∈ vs := by
  unfold aggOf at h
  cases hf : vs.findSome? TextVerdict.errKind with
  | none =>
    rw [hf] at h
    simp only at h
    split at h <;> cases h
  | some k' =>
    rw [hf] at h
    simp only [AggTextVerdict.err.injEq] at h
    subst h
    obtain ⟨v, hv, he⟩ := List.exists_of_findSome?_eq_some hf
    cases v with
    | err k1 => simp only [TextVerdict.errKind, Option.some.injEq] at he; subst he; exact hv
    | pass => cases he
    | fail ls => cases he

theorem aggOf_err_iff (vs : List TextVerdict) : (∃ k, aggOf vs = .err k) ↔ ∃ k, TextVerdict.err k ∈ vs := by
  constructor
  · rintro ⟨k, h⟩; exact ⟨k, aggOf_err_mem vs k h⟩
  · rintro ⟨k, h⟩
    unfold aggOf
    cases hf : vs.findSome? TextVerdict.errKind with
    | some k' => exact ⟨k', rfl⟩
    | none =>
      rw [List.findSome?_eq_none_iff] at hf
      have := hf _ h
      cases this

theorem aggOf_of_noErr (vs : List TextVerdict) (h : ∀ k, aggOf vs ≠ .err k) :
    aggOf vs = if !(vs.filterMap TextVerdict.msg?).isEmpty then .fail (joinWith ['\n'] (vs.filterMap TextVerdict.msg?))
      else .pass := by
  unfold aggOf at h ⊢
  cases hf : vs.findSome? TextVerdict.errKind with
  | some k => rw [hf] at h; exact absurd rfl (h k)
  | none => rfl

/-- permuting the outcomes: an error stays an error (of one of the raising rules); otherwise the class is the same and
    the messages and the lines are the same multisets -/
theorem aggOf_perm (vs vs' : List TextVerdict) (hp : vs.Perm vs') :
    ((∃ k, aggOf vs = .err k) ↔ (∃ k, aggOf vs' = .err k)) ∧
    (∀ k, aggOf vs = .err k → TextVerdict.err k ∈ vs') ∧
    ((∀ k, aggOf vs' ≠ .err k) →
      (aggOf vs).cls = (aggOf vs').cls ∧
      (vs.filterMap TextVerdict.msg?).Perm (vs'.filterMap TextVerdict.msg?) ∧
      (vs.flatMap TextVerdict.lines).Perm (vs'.flatMap TextVerdict.lines)) := by
  have herr : (∃ k, aggOf vs = .err k) ↔ (∃ k, aggOf vs' = .err k) := by
    rw [aggOf_err_iff, aggOf_err_iff]
    constructor
    · rintro ⟨k, h⟩; exact ⟨k, hp.mem_iff.1 h⟩
    · rintro ⟨k, h⟩; exact ⟨k, hp.mem_iff.2 h⟩
  refine ⟨herr, fun k h => hp.mem_iff.1 (aggOf_err_mem vs k h), fun hne => ?_⟩
  have hne1 : ∀ k, aggOf vs ≠ .err k := fun k h => by
    obtain ⟨k', hk'⟩ := herr.1 ⟨k, h⟩
    exact hne k' hk'
  have hm := hp.filterMap TextVerdict.msg?
  refine ⟨?_, hm, hp.flatMap_right _⟩
  rw [aggOf_of_noErr vs hne1, aggOf_of_noErr vs' hne]
  have hl := hm.length_eq
  cases h1 : vs.filterMap TextVerdict.msg? with
  | nil =>
    rw [h1] at hl
    cases h2 : vs'.filterMap TextVerdict.msg? with
    | nil => rfl
    | cons b t => rw [h2] at hl; cases hl
  | cons a t =>
    rw [h1] at hl
    cases h2 : vs'.filterMap TextVerdict.msg? with
    | nil => rw [h2] at hl; cases hl
    | cons b t' => rfl

theorem aggMessages_eq (mt : Str → Str → Bool) (g : PGraph Str) (rs : List RuleState) :
    aggMessages mt g rs = (rs.map (ruleText mt g)).filterMap TextVerdict.msg? := by
  rw [← Pta.Agg.filterMap_msg, List.filterMap_map]
  rfl

theorem aggLines_eq (mt : Str → Str → Bool) (g : PGraph Str) (rs : List RuleState) :
    aggLines mt g rs = (rs.map (ruleText mt g)).flatMap TextVerdict.lines := by
  unfold aggLines
  rw [List.flatMap_map]
  induction rs with
  | nil => rfl
  | cons r rs ih =>
    simp only [List.filter_cons, List.flatMap_cons, ← ih]
    cases h : ruleText mt g r <;> simp [h, TextVerdict.isFail, TextVerdict.lines]

/-- `applyAllText` on two rule lists whose outcomes are permutations of each other -/
theorem applyAllText_perm (mt : Str → Str → Bool) (g : PGraph Str) (rs rs' : List RuleState)
    (hp : (rs.map (ruleText mt g)).Perm (rs'.map (ruleText mt g))) :
    ((∃ k, applyAllText mt g rs = .err k) ↔ (∃ k, applyAllText mt g rs' = .err k)) ∧
    (∀ k, applyAllText mt g rs = .err k → ∃ r ∈ rs', ruleText mt g r = .err k) ∧
    ((∀ k, applyAllText mt g rs' ≠ .err k) →
      (applyAllText mt g rs).cls = (applyAllText mt g rs').cls ∧
      (aggMessages mt g rs).Perm (aggMessages mt g rs') ∧ (aggLines mt g rs).Perm (aggLines mt g rs')) := by
  rw [Pta.Agg.applyAllText_eq_aggOf, Pta.Agg.applyAllText_eq_aggOf, aggMessages_eq, aggMessages_eq, aggLines_eq, aggLines_eq]
  obtain ⟨h1, h2, h3⟩ := aggOf_perm _ _ hp
  refine ⟨h1, fun k h => ?_, h3⟩
  obtain ⟨r, hr, e⟩ := List.mem_map.1 (h2 k h)
  exact ⟨r, hr, e⟩

/-- … and, whether or not a rule raises, the messages and the lines of the failing rules are the same multisets -/
theorem views_perm (mt : Str → Str → Bool) (g : PGraph Str) (rs rs' : List RuleState)
    (hp : (rs.map (ruleText mt g)).Perm (rs'.map (ruleText mt g))) :
    (aggMessages mt g rs).Perm (aggMessages mt g rs') ∧ (aggLines mt g rs).Perm (aggLines mt g rs') := by
  rw [aggMessages_eq, aggMessages_eq, aggLines_eq, aggLines_eq]
  exact ⟨hp.filterMap _, hp.flatMap_right _⟩

/-! ### the rules generated from two parse results with the same content -/

theorem graphEquiv_refl (g : PGraph Str) : GraphEquiv g g :=
  ⟨fun _ => Iff.rfl, fun _ _ => Iff.rfl, fun _ _ => Iff.rfl, fun _ _ => Iff.rfl⟩

/-- a generated rule: outcome and message depend on the object SET only -/
theorem text_mkD_sm (mt : Str → Str → Bool) (g : PGraph Str) (s : Str) (os os' : List Str) (v : RuleOp) (h : SM os os') :
    ruleText mt g (mkD s os v) = ruleText mt g (mkD s os' v) :=
  Pta.report_congr_lemma mt g g (graphEquiv_refl g) _ _
    ⟨SM.refl _, sm_map Filter.name h, SM.refl _, rfl, rfl, rfl, rfl, rfl, rfl⟩

theorem keys_sm (p q : Parsed') (hp : DepsOK p) (hd : ∀ x y, y ∈ p.depsOf x ↔ y ∈ q.depsOf x) (k : Str)
    (hk : k ∈ p.dependencies.map (·.1)) : k ∈ q.dependencies.map (·.1) := by
  obtain ⟨kv, hkv, rfl⟩ := List.mem_map.1 hk
  obtain ⟨kv', hkv', h1, _⟩ := entry_sim p q hp hd kv hkv
  exact List.mem_map.2 ⟨kv', hkv', h1⟩

theorem deps_map_keys {β : Type} (p : Parsed') (hp : DepsOK p) (F : Str → List Str → β) :
    p.dependencies.map (fun kv => F kv.1 kv.2) = (p.dependencies.map (·.1)).map fun k => F k (p.depsOf k) := by
  rw [List.map_map]
  apply List.map_congr_left
  intro kv hkv
  show F kv.1 kv.2 = F kv.1 (p.depsOf kv.1)
  rw [depsOf_of_mem p hp.1 kv hkv]

/-- **the generated rules correspond one to one.** Same module set, same dependency relation, unique dictionary keys and
    non-empty value lists on both sides: on every graph the outcomes WITH MESSAGE LINES of the rules generated from `p` are
    a permutation of those of the rules generated from `q` (the `should` rules follow the key order of the dictionary;
    the `should not` rules come in the same — sorted — order, with literally the same messages) -/
theorem rules_text_perm (mt : Str → Str → Bool) (g : PGraph Str) (so : Bool) (p q : Parsed') (hp : DepsOK p) (hq : DepsOK q)
    (hm : ∀ x, x ∈ p.modules ↔ x ∈ q.modules) (hd : ∀ x y, y ∈ p.depsOf x ↔ y ∈ q.depsOf x) :
    ((diagramRules so p).map (ruleText mt g)).Perm ((diagramRules so q).map (ruleText mt g)) := by
  rw [diagramRules_eq, diagramRules_eq, List.map_append, List.map_append]
  apply List.Perm.append
  · -- the `should` rules
    rw [List.map_map, List.map_map]
    have e1 := deps_map_keys p hp (fun k vs => ruleText mt g (mkD k vs (shouldVerb so)))
    have e2 := deps_map_keys q hq (fun k vs => ruleText mt g (mkD k vs (shouldVerb so)))
    simp only [Function.comp_def]
    rw [e1, e2]
    have hk : (p.dependencies.map (·.1)).Perm (q.dependencies.map (·.1)) := by
      rw [List.perm_ext_iff_of_nodup hp.1 hq.1]
      exact fun k => ⟨keys_sm p q hp hd k, keys_sm q p hq (fun x y => (hd x y).symm) k⟩
    have hc : ((p.dependencies.map (·.1)).map fun k => ruleText mt g (mkD k (p.depsOf k) (shouldVerb so))) =
        (p.dependencies.map (·.1)).map fun k => ruleText mt g (mkD k (q.depsOf k) (shouldVerb so)) := by
      apply List.map_congr_left
      intro k _
      exact text_mkD_sm mt g k _ _ _ (fun y => hd k y)
    rw [hc]
    exact hk.map _
  · -- the `should not` rules
    have hmods : sortStr (dedup p.modules) = sortStr (dedup q.modules) := Pta.canon_ext _ _ hm
    rw [hmods, List.map_filterMap, List.map_filterMap]
    have : ∀ m, Option.map (ruleText mt g) (shouldNotOf p m) = Option.map (ruleText mt g) (shouldNotOf q m) := by
      intro m
      have hN := notImportedOf_sim p q hm hd m
      unfold shouldNotOf
      rw [isEmpty_congr hN.nil_iff]
      split
      · rfl
      · simp only [Option.map_some, Option.some.injEq]
        exact text_mkD_sm mt g m _ _ _ (sm_sortStr hN)
    simp only [this]
    exact List.Perm.refl _


/-! ### the only error a generated rule raises is the lookup error -/

theorem mkD_err (mt : Str → Str → Bool) (g : PGraph Str) (s : Str) (os : List Str) (v : RuleOp)
    (hv : v = .should ∨ v = .shouldOnly ∨ v = .shouldNot) (hos : os ≠ []) (k : ErrKind)
    (h : ruleText mt g (mkD s os v) = .err k) : k = .lookupError := by
  have hcls : verdictOf mt g (mkD s os v) = .err k := by
    unfold verdictOf
    have e := Pta.Agg.ruleText_eq mt g (mkD s os v)
    rw [h] at e
    unfold ruleVerdict at e
    cases hv' : (assertApplies mt (mkD s os v) g).2 with
    | pass => rw [hv'] at e; cases e
    | fail its => rw [hv'] at e; cases e
    | err k' => rw [hv'] at e; simp only [Verdict.toText, TextVerdict.err.injEq] at e; subst e; rfl
  rw [mkD_eq_mkRule] at hcls
  have hverb : ((v == .should) || (v == .shouldOnly) || (v == .shouldNot)) = true := by
    rcases hv with rfl | rfl | rfl <;> rfl
  have hc : (⟨v == .should, v == .shouldOnly, v == .shouldNot, false⟩ : Behavior).inconsistent = false := by
    rcases hv with rfl | rfl | rfl <;> rfl
  have hr := (Pta.Err.verdictOf_err_iff mt g _ _ _ true false [.name s] (os.map .name) hverb hc k).1 hcls
  rcases hr with ⟨h1 | h1, _⟩ | ⟨_, _, hm⟩
  · cases h1
  · exact absurd (List.map_eq_nil_iff.1 h1) hos
  · have c1 : convertFilters mt g.nodes [Filter.name s] = .ok [.name s] :=
      Pta.Hist.convertFilters_noregex mt g.nodes _ (fun f hf => by
        rw [List.mem_singleton] at hf; subst hf; rfl)
    have c2 : convertFilters mt g.nodes (os.map Filter.name) = .ok (os.map .name) :=
      Pta.Hist.convertFilters_noregex mt g.nodes _ (fun f hf => by
        obtain ⟨o, _, rfl⟩ := List.mem_map.1 hf; rfl)
    rcases hm with hm | ⟨_, _, hm⟩ | ⟨_, _, _, _, hk, _⟩
    · rw [c1] at hm; cases hm
    · rw [c2] at hm; cases hm
    · exact hk

/-- with non-empty dictionary values every generated rule that raises raises `lookupError` (a module of the diagram,
    with the base module prefixed, is not a module of the architecture) -/
theorem generated_rule_err (mt : Str → Str → Bool) (g : PGraph Str) (so : Bool) (p : Parsed') (hp : DepsOK p)
    (r : RuleState) (hr : r ∈ diagramRules so p) (k : ErrKind) (h : ruleText mt g r = .err k) : k = .lookupError := by
  rw [diagramRules_eq, List.mem_append, List.mem_map, List.mem_filterMap] at hr
  rcases hr with ⟨kv, hkv, rfl⟩ | ⟨m, _, hsome⟩
  · refine mkD_err mt g _ _ _ ?_ (hp.2 kv hkv) k h
    cases so
    · exact .inl rfl
    · exact .inr (.inl rfl)
  · unfold shouldNotOf at hsome
    by_cases he : (notImportedOf p m).isEmpty = true
    · rw [if_pos he] at hsome; cases hsome
    · rw [if_neg he] at hsome
      rw [← Option.some.inj hsome] at h
      refine mkD_err mt g _ _ _ (.inr (.inr rfl)) ?_ k h
      intro e
      apply he
      have hn : notImportedOf p m = [] := by
        have hperm := Pta.Dg.sortBy_perm strLe (notImportedOf p m)
        have := hperm.length_eq
        change (sortStr (notImportedOf p m)).length = _ at this
        rw [e] at this
        exact List.eq_nil_of_length_eq_zero this.symm
      rw [hn]; rfl

/-- hence `applyAllText` on the rules generated from such a parse result raises nothing but `lookupError` -/
theorem applyAllText_err_kind (mt : Str → Str → Bool) (g : PGraph Str) (so : Bool) (p : Parsed') (hp : DepsOK p)
    (k : ErrKind) (h : applyAllText mt g (diagramRules so p) = .err k) : k = .lookupError := by
  obtain ⟨pre, r, post, e, _, hr⟩ := (Pta.Agg.applyAllText_err_iff mt g _ k).1 h
  exact generated_rule_err mt g so p hp r (by rw [e]; simp) k hr

/-! ### a file given by raw lines -/

theorem depsOK_aggregate (modules : List PModule) (rawDeps : List (Str × Str)) : DepsOK (pumlAggregate modules rawDeps) := by
  have h := (Pta.pumlAgg_spec modules rawDeps).1
  exact ⟨h.1, fun kv hkv => (h.2 kv hkv).2⟩

/-- same content and the dictionary invariants survive `with_base_module` -/
theorem prefix_ok (p q : Parsed') (base : Option Str) (hp : DepsOK p) (hq : DepsOK q)
    (hm : ∀ x, x ∈ p.modules ↔ x ∈ q.modules) (hd : ∀ x y, y ∈ p.depsOf x ↔ y ∈ q.depsOf x) :
    DepsOK (prefixParsed p base) ∧ DepsOK (prefixParsed q base) ∧
    (∀ x, x ∈ (prefixParsed p base).modules ↔ x ∈ (prefixParsed q base).modules) ∧
    (∀ x y, y ∈ (prefixParsed p base).depsOf x ↔ y ∈ (prefixParsed q base).depsOf x) := by
  cases base with
  | none => exact ⟨hp, hq, hm, hd⟩
  | some b =>
    obtain ⟨t1, t2⟩ := prefix_sim p q b hm hd
    exact ⟨depsOK_prefix p b hp, depsOK_prefix q b hq, t1, t2⟩

/-- two files whose line lists are permutations of each other: both are rejected by the parser, or both parse, to results
    with the same content that satisfy the dictionary invariants -/
theorem linesText_parse (n1 n2 : Str) (lines lines' : List Str) (hperm : lines.Perm lines')
    (hl : ∀ l ∈ lines, '\n' ∉ l ∧ '@' ∉ l) (hn : isInfix "@enduml".toList n2 = false) :
    (pumlParse (linesText n1 lines n2) = .error .pumlParsingError ∧
      pumlParse (linesText n1 lines' n2) = .error .pumlParsingError) ∨
    ∃ p q, pumlParse (linesText n1 lines n2) = .ok p ∧ pumlParse (linesText n1 lines' n2) = .ok q ∧
      DepsOK p ∧ DepsOK q ∧ (∀ x, x ∈ p.modules ↔ x ∈ q.modules) ∧ (∀ x y, y ∈ p.depsOf x ↔ y ∈ q.depsOf x) := by
  have hl' : ∀ l ∈ lines', '\n' ∉ l ∧ '@' ∉ l := fun l h => hl l (hperm.mem_iff.2 h)
  have hs := Pta.diagram_text_perm_lemma n1 n2 lines lines' hperm hl hn
  rw [Pta.parse_linesText_lemma n1 n2 lines hl hn, Pta.parse_linesText_lemma n1 n2 lines' hl' hn] at hs ⊢
  unfold pumlUnify at hs ⊢
  by_cases c1 : aliasesConsistent (lines.flatMap lineModules) = true <;>
    by_cases c2 : aliasesConsistent (lines'.flatMap lineModules) = true
  · rw [if_pos c1, if_pos c2] at hs ⊢
    refine .inr ⟨_, _, rfl, rfl, depsOK_aggregate _ _, depsOK_aggregate _ _, hs.1, fun x y => ?_⟩
    rw [← hasDep_iff_depsOf _ (depsOK_aggregate _ _).1, ← hasDep_iff_depsOf _ (depsOK_aggregate _ _).1, hs.2 x y]
  · rw [if_pos c1, if_neg c2] at hs; exact hs.elim
  · rw [if_neg c1, if_pos c2] at hs; exact hs.elim
  · rw [if_neg c1, if_neg c2]; exact .inl ⟨rfl, rfl⟩

end Pta.OrdDT
