/-
  PtaProofs.Lemmas.OrderPumlText — line order of a diagram FILE (raw lines between the tags) is irrelevant for
  `pumlParse`, including the alias check of the repaired parser (namespace `Pta.OrdT`; behind `C15.diagram_text_perm`).
-/
import Bridge.OrderDefs
import PtaProofs.Lemmas.PumlBody
import PtaProofs.Lemmas.PumlRoundtrip
import PtaProofs.Lemmas.OrderDiagram
namespace Pta.OrdT
open Pta

/-- the body between the tags -/
def linesBody (lines : List Str) : Str := '\n' :: (joinWith ['\n'] lines ++ ['\n'])

theorem linesText_shape (n1 n2 : Str) (lines : List Str) :
    linesText n1 lines n2 =
      n1 ++ '@' :: ((['s','t','a','r','t','u','m','l'] ++ linesBody lines ++ ['@','e','n','d','u','m']) ++ 'l' :: n2) := by
  have h1 : "@startuml".toList = ['@','s','t','a','r','t','u','m','l'] := by decide
  have h2 : "@enduml".toList = ['@','e','n','d','u','m','l'] := by decide
  simp [linesText, linesBody, h1, h2]

theorem stripped_shape (x n2 : Str) (lines : List Str) :
    x ++ '@' :: ((['s','t','a','r','t','u','m','l'] ++ linesBody lines ++ ['@','e','n','d','u','m']) ++ 'l' :: n2) =
      x ++ (tagStart ++ (linesBody lines ++ (tagEnd ++ n2))) := by
  simp [tagStart, tagEnd]

theorem at_not_mem_body (lines : List Str) (hl : ∀ l ∈ lines, '@' ∉ l) : '@' ∉ linesBody lines := by
  intro h
  simp only [linesBody, List.mem_cons, List.mem_append, List.not_mem_nil, or_false] at h
  rcases h with h | h | h
  · revert h; decide
  · rcases mem_joinWith _ _ _ h with h | ⟨l, hl', hc⟩
    · revert h; decide
    · exact hl l hl' hc
  · revert h; decide

theorem pumlBody_linesText (n1 n2 : Str) (lines : List Str) (hl : ∀ l ∈ lines, '@' ∉ l)
    (hn : isInfix tagEnd n2 = false) :
    pumlBody (pyStrip (linesText n1 lines n2)) = .ok (linesBody lines) := by
  rw [linesText_shape, pyStrip_block n1 '@' _ 'l' n2 pyWs_at pyWs_l, stripped_shape]
  refine pumlBody_block _ _ _ (at_not_mem_body lines hl) ?_ (by simp [linesBody])
  exact isInfix_false_of_infix hn (rstrip_prefix n2).isInfix

theorem splitLines_linesBody (lines : List Str) (hl : ∀ l ∈ lines, '\n' ∉ l) :
    splitLines (linesBody lines) = [] :: ((if lines = [] then [[]] else lines) ++ [[]]) := by
  have h1 : linesBody lines = [] ++ '\n' :: (joinWith ['\n'] lines ++ ['\n']) := rfl
  rw [h1, splitLines_line [] _ (by simp), splitLines_join lines hl]

theorem splitLines_perm {lines lines' : List Str} (hp : lines.Perm lines')
    (hl : ∀ l ∈ lines, '\n' ∉ l) :
    (splitLines (linesBody lines)).Perm (splitLines (linesBody lines')) := by
  rw [splitLines_linesBody lines hl, splitLines_linesBody lines' (fun l h => hl l (hp.mem_iff.2 h))]
  refine List.Perm.cons _ (List.Perm.append_right _ ?_)
  by_cases h : lines = []
  · subst h
    have h' : lines' = [] := hp.nil_eq.symm
    subst h'
    exact List.Perm.refl _
  · have h' : lines' ≠ [] := fun e => h (by subst e; exact hp.eq_nil)
    rw [if_neg h, if_neg h']
    exact hp

/-- permuting the lines of a diagram file: both files are rejected with the parsing error, or both parse to the same
    module set and dependency relation -/
theorem text_perm (n1 n2 : Str) (lines lines' : List Str) (hp : lines.Perm lines')
    (hl : ∀ l ∈ lines, '\n' ∉ l ∧ '@' ∉ l) (hn : isInfix "@enduml".toList n2 = false) :
    SameDiagram (pumlParse (linesText n1 lines n2)) (pumlParse (linesText n1 lines' n2)) := by
  rw [tag_end_eq] at hn
  exact OrdD.parse_perm _ _ _ _
    (pumlBody_linesText n1 n2 lines (fun l h => (hl l h).2) hn)
    (pumlBody_linesText n1 n2 lines' (fun l h => (hl l (hp.mem_iff.2 h)).2) hn)
    (splitLines_perm hp (fun l h => (hl l h).1))

/-- what the file parses to: check + aggregation of the per-line results of its lines -/
theorem parse_linesText (n1 n2 : Str) (lines : List Str) (hl : ∀ l ∈ lines, '\n' ∉ l ∧ '@' ∉ l)
    (hn : isInfix "@enduml".toList n2 = false) :
    pumlParse (linesText n1 lines n2) = pumlUnify (lines.flatMap lineModules) (lines.filterMap lineDependency) := by
  rw [tag_end_eq] at hn
  rw [OrdD.pumlParse_eq, pumlBody_linesText n1 n2 lines (fun l h => (hl l h).2) hn]
  show pumlUnify _ _ = _
  rw [splitLines_linesBody lines (fun l h => (hl l h).1)]
  by_cases h : lines = []
  · subst h; rfl
  · rw [if_neg h]
    simp [lineModules_nil, lineDependency_nil]

end Pta.OrdT
