/-
  PtaProofs.Lemmas.GlobMeaning — audit finding F11: the model's `globSpec` (the converter's flag-and-slice reading of a
  glob-style pattern) against the independent existential meaning `PtaSpec.globMeaning`, and `isPyFile` / `dropSuffix`
  against `PtaSpec.isPyName`.
-/
import Bridge.Abs
import PtaSpec.GlobSem
import PtaProofs.Lemmas.Render
import PtaProofs.Lemmas.GlobLabel
import PtaProofs.Lemmas.PumlBody
namespace Pta
open PtaSpec

theorem endsWith_iff_suffix (p s : Str) : endsWith p s = true ↔ p <:+ s := by
  unfold endsWith
  rw [startsWith_iff_prefix, List.reverse_prefix]

/-- the literal the converter cuts out of the pattern -/
def globInner (p : Str) : Str :=
  pySlice p (if startsWith ['*'] p then 1 else 0) (if endsWith ['*'] p then p.length - 1 else p.length)

/-- the converter's flags and slice decompose the pattern as the specification describes -/
theorem glob_parts (p : Str) :
    (p = ['*'] ∧ globInner p = []) ∨
      p = starIf (startsWith ['*'] p) ++ globInner p ++ starIf (endsWith ['*'] p) := by
  unfold globInner
  cases h1 : startsWith ['*'] p <;> cases h2 : endsWith ['*'] p
  · right; simp [starIf, pySlice]
  · right
    obtain ⟨q, rfl⟩ := (endsWith_star p).1 h2
    simp [starIf, pySlice]
  · right
    obtain ⟨r, rfl⟩ := (startsWith_star p).1 h1
    simp [starIf, pySlice]
  · obtain ⟨r, rfl⟩ := (startsWith_star p).1 h1
    obtain ⟨q, hq⟩ := (endsWith_star _).1 h2
    cases q with
    | nil =>
      left
      simp only [List.nil_append, List.cons.injEq, true_and] at hq
      subst hq
      exact ⟨rfl, rfl⟩
    | cons c q' =>
      right
      simp only [List.cons_append, List.cons.injEq] at hq
      obtain ⟨rfl, rfl⟩ := hq
      simp [starIf, pySlice]

/-- "literal text with arbitrary text in front / behind where a star allows it" -/
def GlobFits (a e : Bool) (lit s : Str) : Prop :=
  ∃ pre suf, s = pre ++ lit ++ suf ∧ (a = false → pre = []) ∧ (e = false → suf = [])

theorem globSpec_iff_fits (p s : Str) :
    globSpec p s = true ↔ GlobFits (startsWith ['*'] p) (endsWith ['*'] p) (globInner p) s := by
  unfold globSpec GlobFits globInner
  cases startsWith ['*'] p <;> cases endsWith ['*'] p <;> simp only [Bool.false_eq_true, if_false, if_true]
  · simp only [beq_iff_eq, forall_const]
    constructor
    · intro h; exact ⟨[], [], by simp [h], rfl, rfl⟩
    · rintro ⟨pre, suf, h, rfl, rfl⟩; simpa using h
  · rw [startsWith_iff_prefix]
    simp only [forall_const, reduceCtorEq, false_imp_iff, and_true]
    constructor
    · rintro ⟨t, rfl⟩; exact ⟨[], t, by simp, rfl⟩
    · rintro ⟨pre, suf, h, rfl⟩; exact ⟨suf, by simpa using h.symm⟩
  · rw [endsWith_iff_suffix]
    simp only [forall_const, reduceCtorEq, false_imp_iff, true_and]
    constructor
    · rintro ⟨t, rfl⟩; exact ⟨t, [], by simp, rfl⟩
    · rintro ⟨pre, suf, h, rfl⟩; exact ⟨pre, by simpa using h.symm⟩
  · rw [isInfix_iff]
    simp only [reduceCtorEq, false_imp_iff, and_true]
    constructor
    · rintro ⟨a, b, rfl⟩; exact ⟨a, b, rfl⟩
    · rintro ⟨a, b, rfl⟩; exact ⟨a, b, rfl⟩

theorem glob_meaning_lemma (p s : Str) : globSpec p s = true ↔ globMeaning p s := by
  rw [globSpec_iff_fits]
  unfold globMeaning GlobFits
  constructor
  · rintro ⟨pre, suf, hs, h1, h2⟩
    exact ⟨_, _, globInner p, pre, suf, startsWith_star p, endsWith_star p, glob_parts p, hs, h1, h2⟩
  · rintro ⟨lead, trail, lit, pre, suf, hl, ht, hparts, hs, h1, h2⟩
    have e1 : lead = startsWith ['*'] p := by
      rw [Bool.eq_iff_iff, hl, startsWith_star]
    have e2 : trail = endsWith ['*'] p := by
      rw [Bool.eq_iff_iff, ht, endsWith_star]
    subst e1 e2
    have e3 : lit = globInner p := by
      rcases hparts with ⟨hp, hlit⟩ | hp <;> rcases glob_parts p with ⟨hp', hin⟩ | hp'
      · rw [hlit, hin]
      · rw [hp] at hp'
        have := congrArg List.length hp'
        simp [starIf, startsWith, endsWith] at this
      · rw [hp'] at hp
        have := congrArg List.length hp
        simp [starIf, startsWith, endsWith] at this
      · have := hp.symm.trans hp'
        exact List.append_cancel_left (List.append_cancel_right this)
    subst e3
    exact ⟨pre, suf, hs, h1, h2⟩

/-! ### `.py` file names -/

theorem isPyFile_iff (name : Str) : isPyFile name = true ↔ ∃ stem, isPyName name stem := by
  unfold isPyFile isPyName
  rw [Bool.and_eq_true, endsWith_iff_suffix]
  have hpy : ".py".toList = ['.', 'p', 'y'] := by decide
  rw [hpy]
  constructor
  · rintro ⟨⟨stem, rfl⟩, hlen⟩
    refine ⟨stem, rfl, ?_⟩
    rintro rfl
    simp at hlen
  · rintro ⟨stem, rfl, hne⟩
    refine ⟨⟨stem, rfl⟩, ?_⟩
    cases stem with
    | nil => exact absurd rfl hne
    | cons c cs => simp

theorem dropSuffix_pyName (name stem : Str) (h : isPyName name stem) : dropSuffix name = stem := by
  obtain ⟨rfl, hne⟩ := h
  unfold dropSuffix
  have : (stem ++ ['.', 'p', 'y']).reverse = 'y' :: 'p' :: '.' :: stem.reverse := by simp
  rw [this]
  have hd : List.dropWhile (fun x => x != '.') ('y' :: 'p' :: '.' :: stem.reverse) = '.' :: stem.reverse := by
    simp
  rw [hd]
  cases stem with
  | nil => exact absurd rfl hne
  | cons c cs => simp

end Pta
