/-
  PtaProofs.Props.E2EWide — the END-TO-END theorems of Props/E2E.lean (C04 ∘ C02 ∘ C01) for the WIDEST oracle domain:
  `parentFree` rules instead of strict rules.

  `Pta.E2E.scan_rule_verdict` / `scan_rule_report` compose the scan theorems with the oracle theorem for STRICT rules
  (subjects and objects pairwise unrelated). `Pta.C01.verdict_spec_parentFree` / `report_spec_parentFree` have since
  widened the oracle domain to `parentFree r` (Bridge/RuleChain.lean): the identifiers of the rule may be related in any
  way (equal, nested, repeated, also across the two sides) as long as the parent identifier of an `are_sub_modules_of`
  filter is not a MEMBER of any filter of the rule. The compositions below have the same shape as the strict ones, the
  hypothesis `r.strict = true` replaced by `parentFree r = true` (`strict_parentFree`: the new domain contains the old).
-/
import PtaProofs.Props.E2E
import PtaProofs.Props.C01
namespace Pta.E2E
open Pta PtaSpec

/-- the new domain contains the old one: strict ⊆ compatible ⊆ admissible ⊆ parentFree -/
theorem strict_parentFree (r : RuleSpec) (h : r.strict = true) : parentFree r = true :=
  Pta.C01.admissible_parentFree r (Pta.C01.compatible_admissible r (Pta.C01.strict_compatible r h))

section tree
variable (mt : Str → Str → Bool) (base root : Str) (mp : List Str) (entries : List Entry) (o : ScanOptions)
  (hwf : treeWFFor (isExcluded mt o.exclusions) base mp entries = true) (hmp : mpOK entries mp = true)
  (hroot : compWF root = true)
  (hxx : o.excludeExternal = true) (hlim : o.levelLimit = none) (hext : o.externalExclusions.isEmpty = true)
  (hst : ∀ e ∈ entries, ∀ st ∈ e.stmts, stmtOK (toSStmt st) = true)
  (is : List (Name × Name))
  (his : scanImports root (toSEntries (isExcluded mt o.exclusions) base entries) mp = some is)
include hwf hmp hroot hxx hlim hext hst his

/-- END-TO-END, verdict, widest domain: `Rule(...).assert_applies(get_evaluable_architecture(root, module_path))` passes
    exactly when the documented semantics hold on the modules of the directory tree and the imports its import
    statements account for, and raises AssertionError exactly when they do not — for every `parentFree` rule (all 12
    shapes and the `anything` aliases, any number of subjects / objects, both filter kinds, identifiers related or not)
    whose names are scanned modules, and every regex matcher `mt'` (irrelevant for such rules). -/
theorem scan_rule_verdict_parentFree :
    ∃ g, generateGraph mt base root mp entries o = .ok g ∧
      ∀ (mt' : Str → Str → Bool) (r : RuleSpec), parentFree r = true →
        r.namesIn (scanArch root (toSEntries (isExcluded mt o.exclusions) base entries) mp is) = true →
        r.subjects ≠ [] → (r.anything = true ∨ r.objects ≠ []) → (r.anything = true → r.verb = .shouldNot) →
        verdictOf mt' g (compile r) =
          VClass.ofBool (verdict (scanArch root (toSEntries (isExcluded mt o.exclusions) base entries) mp is) r) := by
  obtain ⟨g, hgen, hawf, hg⟩ := scan_graph_of_scanArch mt base root mp entries o hwf hmp hroot hxx hlim hext hst is his
  exact ⟨g, hgen, fun mt' r hpf hnames hs ho hany =>
    Pta.C01.verdict_spec_parentFree mt' _ g hg hawf r hpf hnames hs ho hany⟩

/-- END-TO-END, report, widest domain: when the rule fails, the atoms of the reported violations are exactly the atoms
    of the specification's violating set on the specification architecture of the tree -/
theorem scan_rule_report_parentFree :
    ∃ g, generateGraph mt base root mp entries o = .ok g ∧
      ∀ (mt' : Str → Str → Bool) (r : RuleSpec), parentFree r = true →
        r.namesIn (scanArch root (toSEntries (isExcluded mt o.exclusions) base entries) mp is) = true →
        r.subjects ≠ [] → (r.anything = true ∨ r.objects ≠ []) → (r.anything = true → r.verb = .shouldNot) →
        ∀ items, (assertApplies mt' (compile r) g).2 = .fail items →
          ∀ x, x ∈ items.flatMap Item.atoms ↔
            x ∈ (violating (scanArch root (toSEntries (isExcluded mt o.exclusions) base entries) mp is) r).flatMap
              SItem.atoms := by
  obtain ⟨g, hgen, hawf, hg⟩ := scan_graph_of_scanArch mt base root mp entries o hwf hmp hroot hxx hlim hext hst is his
  exact ⟨g, hgen, fun mt' r hpf hnames hs ho hany items h =>
    Pta.C01.report_spec_parentFree mt' _ g hg hawf r hpf hnames hs ho hany items h⟩

/-- the same for ANY presentation of the import set: only the set of imports matters -/
theorem scan_rule_verdict_parentFree_set (a : Arch) (ha : ∀ e, e ∈ a.imports ↔ e ∈ is) :
    ∃ g, generateGraph mt base root mp entries o = .ok g ∧
      ∀ (mt' : Str → Str → Bool) (r : RuleSpec), parentFree r = true →
        r.namesIn (scanArch root (toSEntries (isExcluded mt o.exclusions) base entries) mp is) = true →
        r.subjects ≠ [] → (r.anything = true ∨ r.objects ≠ []) → (r.anything = true → r.verb = .shouldNot) →
        verdictOf mt' g (compile r) = VClass.ofBool (verdict a r) := by
  obtain ⟨g, hgen, hall⟩ := scan_rule_verdict_parentFree mt base root mp entries o hwf hmp hroot hxx hlim hext hst is his
  refine ⟨g, hgen, fun mt' r hpf hnames hs ho hany => ?_⟩
  rw [verdict_congr_imports a (scanArch root (toSEntries (isExcluded mt o.exclusions) base entries) mp is) ha r]
  exact hall mt' r hpf hnames hs ho hany

end tree

/-- both cases in one statement: the scan raises exactly when the specification has no import list (a relative import
    reaching above the root); otherwise it yields a graph on which every `parentFree` rule over scanned modules has the
    documented verdict -/
theorem scan_rule_total_parentFree (mt : Str → Str → Bool) (base root : Str) (mp : List Str) (entries : List Entry)
    (o : ScanOptions)
    (hwf : treeWFFor (isExcluded mt o.exclusions) base mp entries = true) (hmp : mpOK entries mp = true)
    (hroot : compWF root = true)
    (hxx : o.excludeExternal = true) (hlim : o.levelLimit = none) (hext : o.externalExclusions.isEmpty = true)
    (hst : ∀ e ∈ entries, ∀ st ∈ e.stmts, stmtOK (toSStmt st) = true) :
    match scanImports root (toSEntries (isExcluded mt o.exclusions) base entries) mp with
    | none => generateGraph mt base root mp entries o = .error .lookupError
    | some is => ∃ g, generateGraph mt base root mp entries o = .ok g ∧
        ∀ (mt' : Str → Str → Bool) (r : RuleSpec), parentFree r = true →
          r.namesIn (scanArch root (toSEntries (isExcluded mt o.exclusions) base entries) mp is) = true →
          r.subjects ≠ [] → (r.anything = true ∨ r.objects ≠ []) → (r.anything = true → r.verb = .shouldNot) →
          verdictOf mt' g (compile r) =
            VClass.ofBool (verdict (scanArch root (toSEntries (isExcluded mt o.exclusions) base entries) mp is) r) := by
  cases his : scanImports root (toSEntries (isExcluded mt o.exclusions) base entries) mp with
  | none =>
    have h := scan_rule_total mt base root mp entries o hwf hmp hroot hxx hlim hext hst
    rw [his] at h
    exact h
  | some is => exact scan_rule_verdict_parentFree mt base root mp entries o hwf hmp hroot hxx hlim hext hst is his

/-! ### non-vacuity: the tree `exTree` of Props/E2E.lean, rules with RELATED names (none of them strict)

  modules `r`, `r.a`, `r.a.m`, `r.a.k`, `r.b`; imports `r.a.m → r.a.k`, `r.a.m → r.a`, `r.a.m → r.b`, `r.b → r.a.k`,
  `r.b → r.a` (`exIs`). -/

/-- `r.a` and its own descendant `r.a.m` should import `r` (an ancestor of both) or `r.b` — related on both sides;
    holds: `r.a.m → r.b` lies in `r.a` and in `r.a.m` -/
def exWPass : RuleSpec :=
  { verb := .should, importDir := true, exc := false, subjects := [.named (nm "r.a"), .named (nm "r.a.m")],
    objects := [.named (nm "r"), .named (nm "r.b")] }
/-- sub modules of `r` should not import `r.a.k`, `r.a.k` (a strict descendant of the parent identifier, repeated) —
    violated by `r.a.m → r.a.k` and `r.b → r.a.k` -/
def exWFail : RuleSpec :=
  { verb := .shouldNot, importDir := true, exc := false, subjects := [.subOf (nm "r")],
    objects := [.named (nm "r.a.k"), .named (nm "r.a.k")] }
/-- sub modules of `r.a` and `r.a.k` should only be imported by `r.b` — violated by the importer `r.a.m` of `r.a.k` -/
def exWOnly : RuleSpec :=
  { verb := .shouldOnly, importDir := false, exc := false, subjects := [.subOf (nm "r.a"), .named (nm "r.a.k")],
    objects := [.named (nm "r.b")] }
/-- `r.a`, `r.a.k`, `r.a.k` should not be imported by anything — the `anything` alias with nested and repeated subjects
    (`_convert_aliases` removes `r.a.k` twice); violated by `r.b → r.a.k` -/
def exWAny : RuleSpec :=
  { verb := .shouldNot, importDir := false, exc := false,
    subjects := [.named (nm "r.a"), .named (nm "r.a.k"), .named (nm "r.a.k")], objects := [], anything := true }
/-- `r.a.m` should not import anything except `r.a` and its descendant `r.a.k` — violated by `r.a.m → r.b` … -/
def exWExc : RuleSpec :=
  { verb := .shouldNot, importDir := true, exc := true, subjects := [.named (nm "r.a.m")],
    objects := [.named (nm "r.a"), .named (nm "r.a.k")] }
/-- … and with `r.b` among the exceptions it holds -/
def exWExcPass : RuleSpec :=
  { verb := .shouldNot, importDir := true, exc := true, subjects := [.named (nm "r.a.m")],
    objects := [.named (nm "r.a"), .named (nm "r.a.k"), .named (nm "r.b"), .named (nm "r")] }

def exWRules : List RuleSpec := [exWPass, exWFail, exWOnly, exWAny, exWExc, exWExcPass]

/-- the tree hypotheses of `scan_rule_verdict_parentFree` for `exTree` (as in Props/E2E.lean), and the specification's
    answer -/
example :
    treeWFFor (isExcluded noRe exOpts.exclusions) (s "/x/r") [] exTree = true ∧ mpOK exTree [] = true ∧
    compWF (s "r") = true ∧ exOpts.excludeExternal = true ∧ exOpts.levelLimit = none ∧
    exOpts.externalExclusions.isEmpty = true ∧ (∀ e ∈ exTree, ∀ st ∈ e.stmts, stmtOK (toSStmt st) = true) ∧
    scanImports (s "r") (toSEntries (isExcluded noRe exOpts.exclusions) (s "/x/r") exTree) [] = some exIs := by decide

/-- the rules meet the hypotheses on rules of `scan_rule_verdict_parentFree`, and NONE of them is strict (the tree
    hypotheses are those of Props/E2E.lean, discharged there for `exTree`) -/
example :
    ∀ r ∈ exWRules,
      r.strict = false ∧ parentFree r = true ∧
      r.namesIn (scanArch (s "r") (toSEntries (isExcluded noRe exOpts.exclusions) (s "/x/r") exTree) [] exIs) = true ∧
      r.subjects ≠ [] ∧ (r.anything = true ∨ r.objects ≠ []) ∧ (r.anything = true → r.verb = .shouldNot) := by decide

/-- two of them are outside `compatible` as well (an `are_sub_modules_of` identifier related to another identifier) -/
example : compatible exWFail = false ∧ compatible exWOnly = false := by decide

set_option maxRecDepth 40000 in
/-- both sides evaluated: the model (scan, then `assert_applies`) and the specification agree -/
example :
    (generateGraph noRe (s "/x/r") (s "r") [] exTree exOpts).toOption.map
        (fun g => exWRules.map fun r => verdictOf noRe g (compile r)) =
      some [.pass, .fail, .fail, .fail, .fail, .pass] ∧
    exWRules.map
        (verdict (scanArch (s "r") (toSEntries (isExcluded noRe exOpts.exclusions) (s "/x/r") exTree) [] exIs)) =
      [true, false, false, false, false, true] := by decide

set_option maxRecDepth 40000 in
/-- the report of a failing rule with related names, atom by atom, on both sides: the same SET of atoms (the model
    de-duplicates the repeated object, the specification lists the violations once per object) -/
example :
    (generateGraph noRe (s "/x/r") (s "r") [] exTree exOpts).toOption.map
        (fun g => match (assertApplies noRe (compile exWFail) g).2 with
          | .fail items => items.flatMap Item.atoms
          | _ => []) =
      some [.imp (s "r.b") (s "r.a.k"), .imp (s "r.a.m") (s "r.a.k")] ∧
    (violating (scanArch (s "r") (toSEntries (isExcluded noRe exOpts.exclusions) (s "/x/r") exTree) [] exIs) exWFail).flatMap
        SItem.atoms =
      [.imp (s "r.a.m") (s "r.a.k"), .imp (s "r.b") (s "r.a.k"), .imp (s "r.a.m") (s "r.a.k"), .imp (s "r.b") (s "r.a.k")] := by
  decide

/-! the boundary is the one of C01 (`plain_subOf_counterexample`), reached from a directory tree: `r/a/m.py` with
    `from .. import a`. "sub modules of `r.a` should not import `r.a`" is not `parentFree` (the parent identifier is a
    member of the object); the specification counts `r.a.m → r.a`, the model's query drops it. -/

def exTreeB : List Entry :=
  [ { rel := [s "a"], isDir := true },
    { rel := [s "a", s "m.py"], isDir := false, stmts := [.impFrom none [s "a"] 2] } ]
def exOptsB : ScanOptions := { exclusions := .globs [] }
def exWOut : RuleSpec :=
  { verb := .shouldNot, importDir := true, exc := false, subjects := [.subOf (nm "r.a")], objects := [.named (nm "r.a")] }

set_option maxRecDepth 40000 in
theorem parentFree_needed_on_scan :
    treeWFFor (isExcluded noRe exOptsB.exclusions) (s "/x/r") [] exTreeB = true ∧ mpOK exTreeB [] = true ∧
    (∀ e ∈ exTreeB, ∀ st ∈ e.stmts, stmtOK (toSStmt st) = true) ∧
    scanImports (s "r") (toSEntries (isExcluded noRe exOptsB.exclusions) (s "/x/r") exTreeB) [] =
      some [(nm "r.a.m", nm "r.a")] ∧
    parentFree exWOut = false ∧
    exWOut.namesIn (scanArch (s "r") (toSEntries (isExcluded noRe exOptsB.exclusions) (s "/x/r") exTreeB) []
      [(nm "r.a.m", nm "r.a")]) = true ∧
    (generateGraph noRe (s "/x/r") (s "r") [] exTreeB exOptsB).toOption.map
        (fun g => verdictOf noRe g (compile exWOut)) = some .pass ∧
    verdict (scanArch (s "r") (toSEntries (isExcluded noRe exOptsB.exclusions) (s "/x/r") exTreeB) []
      [(nm "r.a.m", nm "r.a")]) exWOut = false := by
  decide

end Pta.E2E
