/-
  PtaProofs.Props.Headline — ONE headline statement per property C01 … C17.

  `PtaProofs/Props/Cxx.lean` holds, per property, a bag of proved theorems.  This file writes down, in Lean, WHICH
  conjunction of those theorems is the property, and (in the docstring of each `Cxx_Statement`) which clause of the
  English statement of `properties.jsonl` is carried by which conjunct, under which hypotheses — and which clauses are
  carried by no theorem at all (outside the model; established only by the correspondence runs).

  Nothing new is proved here: every conjunct of `Cxx_Statement` is the full statement (all binders and hypotheses) of
  one existing theorem of `Pta.Cxx` / `Pta.E2E` (`Pta.C12` / `Pta.C13` of Props/Tables.lean and `Pta.C04` of
  Props/TablesWiring.lean included; the theorems of Props/C07Text, C09Layer, C10Limit, C12Scan, C13More, C14Text, C14Scan,
  C15Text, C15Hist live in the namespaces `Pta.C07`, `Pta.C09`, `Pta.C10`, `Pta.C12`, `Pta.C13`, `Pta.C14`, `Pta.C14`,
  `Pta.C15`, `Pta.C15`, those of Props/E2EWide in `Pta.E2E`),
  and `theorem cxx` is the tuple of those theorems.  Non-vacuity of the hypotheses of every conjunct is shown by the `example`s next to
  the original theorem in its Props file.

  Reading conventions common to all statements:
  * "the library" means the hand-written executable model `PtaModel/*` (checked against the Python code by the
    correspondence runs, not by a theorem); "the documented semantics" means `PtaSpec/*`.
  * Outcomes are three-valued (`VClass` / `Verdict`: pass | fail | err k).  "returns normally" = pass,
    "raises AssertionError" = fail, any other exception = `err k`.  Which Python exception CLASS an `ErrKind` stands for
    is a naming convention of the harness (correspondence check only).
  * `mt : Str → Str → Bool` is the regex engine (`re.match(pattern, s) is not None`), an uninterpreted parameter: the
    theorems hold for every interpretation; nothing is proved about Python's `re`.
  * `GraphOf a g` ("g is a graph of the architecture a") together with `a.wf = true` is the standing interface between
    specification and model; it is discharged for the constructor's graph by `Pta.C09.graph_of_arch` and for scanned
    architectures by `Pta.C04.scan_wf` / `Pta.E2E.scan_graph_of_scanArch`.
-/
import PtaProofs.Props.C01
import PtaProofs.Props.C02
import PtaProofs.Props.C03
import PtaProofs.Props.C04
import PtaProofs.Props.C05
import PtaProofs.Props.C06
import PtaProofs.Props.C07
import PtaProofs.Props.C08
import PtaProofs.Props.C09
import PtaProofs.Props.C10
import PtaProofs.Props.C11
import PtaProofs.Props.C12
import PtaProofs.Props.C13
import PtaProofs.Props.C14
import PtaProofs.Props.C15
import PtaProofs.Props.C16
import PtaProofs.Props.C17
import PtaProofs.Props.E2E
import PtaProofs.Props.Tables
import PtaProofs.Props.C07Text
import PtaProofs.Props.C09Layer
import PtaProofs.Props.C10Limit
import PtaProofs.Props.C12Scan
import PtaProofs.Props.C14Text
import PtaProofs.Props.C15Text
import PtaProofs.Props.E2EWide
import PtaProofs.Props.TablesWiring
import PtaProofs.Props.C13More
import PtaProofs.Props.C14Scan
import PtaProofs.Props.C15Hist

namespace Pta.Headline

/-! ## C01 -/
section C01
open PtaSpec

/-- C01 — Module-rule verdicts equal the documented rule semantics.
    English statement (verbatim from properties.jsonl): "For every evaluable architecture and every rule built with Rule
    (should / should_only / should_not, import or be-imported-by, with or without 'except', subjects and objects given by
    name or as 'sub modules of', singly or in batches), assert_applies returns normally exactly when the documented
    semantics hold on the architecture's import relation and raises AssertionError exactly when they do not. A named
    module stands for itself and all its descendants, 'sub modules of X' stands for X's strict descendants, 'edge'
    requirements are judged per subject/object pair, 'any edge to/from something else' requirements are judged per
    subject against all objects jointly, and imports that stay inside the subject never count as 'something else'."

    Clause map:
      (1) "For every evaluable architecture and every rule built with Rule (…all 12 shapes, both filter kinds, singly or
          in batches) assert_applies returns normally exactly when the documented semantics hold … and raises
          AssertionError exactly when they do not"
          — conjunct 1 (`Pta.C01.verdict_spec_parentFree`): `verdictOf mt g (compile r) = VClass.ofBool (verdict a r)`
          (an equation of three-valued classes: pass iff the semantics hold, fail iff they do not, never an error), for
          every well-formed `a` (`a.wf`), every `g` with `GraphOf a g`, and every rule in the domain `parentFree r`
          (the parent identifier of an `are_sub_modules_of` filter is not a member of any filter of the rule; contains
          all rules with pairwise unrelated identifiers, all all-named rules and all `admissible` rules), whose names
          exist (`r.namesIn a`), with non-empty subjects, objects given unless `anything`, and `anything` only with
          `should_not`.  The domain hypothesis is needed: `Pta.C01.plain_subOf_counterexample` (a non-`parentFree`
          rule on which model and specification differ; the documentation is ambiguous there).  `hany` is needed:
          with another verb the library raises ImproperlyConfigured (C13).  `hnames`: see (4).
      (2) "every rule built with Rule(…)" as a CALL CHAIN — conjunct 3 (`Pta.C01.rule_chain_state`): running the fluent
          chain `ruleOps r` and then `assert_applies` is `assertApplies` on `compile r`, for every rule one chain can
          express (`fluent r`: one naming call per side).  Rules with mixed filter kinds on one side (`fluent r =
          false`) are values of the model only.
      (3) "every evaluable architecture" — conjunct 5 (`Pta.C09.graph_of_arch`): the graph the constructor builds from a
          well-formed architecture satisfies `GraphOf`; conjunct 6 (`Pta.E2E.scan_graph_of_scanArch`): so does the graph
          of a SCANNED directory tree (`treeWFFor`, `mpOK`, `compWF root`, default options, `stmtOK` statements), with
          `Arch.wf` of the specification architecture a consequence; conjunct 7 (`Pta.E2E.scan_rule_total`): (1)
          composed with the scan for strict rules, including the case where the scan raises; conjunct 8
          (`Pta.E2E.scan_rule_total_parentFree`, Props/E2EWide.lean): the same composition for the WIDEST oracle domain,
          `parentFree` rules (identifiers related in any way; `Pta.E2E.strict_parentFree`: contains the strict rules) —
          the domain hypothesis is needed on scanned trees as well: `Pta.E2E.parentFree_needed_on_scan` (`r/a/m.py`
          with `from .. import a`, rule "sub modules of r.a should not import r.a").  Needed:
          `Pta.E2E.collision_needs_treeWF` (a file `x.py` next to a directory `x`).
      (4) (implicit in "exactly when") a rule naming a module that does not exist gives no verdict — conjunct 2
          (`Pta.C01.unknown_name_no_verdict`), lookup error (shared with C13).
      (5) "A named module stands for itself and all its descendants, 'sub modules of X' stands for X's strict
          descendants, 'edge' requirements are judged per subject/object pair, 'any edge to/from something else' … per
          subject against all objects jointly, imports that stay inside the subject never count as 'something else'"
          — these sentences are the DEFINITION of the right-hand side `PtaSpec.verdict` (PtaSpec/RuleSem.lean: `mem`,
          `edges`, `others`); they are carried by conjunct 1 through that definition, not by a separate theorem.  The
          one place where the definition takes the implementation's reading rather than the literal text (for a
          `sub modules of X` subject an import between a strict descendant of `X` and `X` itself is not "something
          else") is made explicit by conjunct 4 (`Pta.C01.others_literal_agree`): the literal reading `verdictLit` agrees
          with `verdict` whenever `noImportToOwnParent a r`; they differ otherwise
          (`Pta.C01.others_literal_counterexample`).
    Not carried by a theorem (correspondence check only / outside the model):
      * "raises AssertionError" as a Python exception class, and the message (C03) — the model has outcome classes.
      * rules OUTSIDE `parentFree` (e.g. "sub modules of p should_not import p"): no oracle theorem; model and
        specification are known to differ there (`plain_subOf_counterexample`, from a directory tree:
        `Pta.E2E.parentFree_needed_on_scan`); the differential run uses the strict oracle only on unrelated names.
      * scans with non-default options (level limit: C09; externals included: C10) are not composed with (1) here.
      * regex-specified subjects/objects are not part of `RuleSpec`; they are reduced to names by C11. -/
def C01_Statement : Prop :=
  -- 1 `Pta.C01.verdict_spec_parentFree`
  (∀ (mt : Str → Str → Bool) (a : Arch) (g : PGraph Str), GraphOf a g → a.wf = true →
    ∀ (r : RuleSpec), parentFree r = true → r.namesIn a = true →
    r.subjects ≠ [] → (r.anything = true ∨ r.objects ≠ []) →
    (r.anything = true → r.verb = .shouldNot) →
    verdictOf mt g (compile r) = VClass.ofBool (verdict a r)) ∧
  -- 2 `Pta.C01.unknown_name_no_verdict`
  (∀ (mt : Str → Str → Bool) (a : Arch) (g : PGraph Str), GraphOf a g →
    ∀ (r : RuleSpec), r.subjects ≠ [] → (r.anything = true ∨ r.objects ≠ []) →
    (r.anything = true → r.verb = .shouldNot) →
    (r.anything = true → dedupSubjects (r.subjects.map compileFilter) = r.subjects.map compileFilter) →
    (∃ f ∈ r.subjects ++ r.effObjects, f.id ∉ a.nodes) → (∀ f ∈ r.subjects ++ r.effObjects, nameWF f.id = true) →
    a.wf = true →
    verdictOf mt g (compile r) = .err .lookupError) ∧
  -- 3 `Pta.C01.rule_chain_state`
  (∀ (glob : Str → Str) (mt : Str → Str → Bool) (g : PGraph Str) (r : RuleSpec), fluent r = true →
    runRuleOps glob mt (ruleOps r) g = ((assertApplies mt (compile r) g).2, (ruleOps r).length)) ∧
  -- 4 `Pta.C01.others_literal_agree`
  (∀ (a : Arch) (r : RuleSpec), noImportToOwnParent a r = true →
    (∀ s ∈ r.subjects, ∀ os, othersLit a r.importDir s os = others a r.importDir s os) ∧
    verdictLit a r = verdict a r) ∧
  -- 5 `Pta.C09.graph_of_arch`
  (∀ (a : Arch), a.wf = true → GraphOf a (archGraph a)) ∧
  -- 6 `Pta.E2E.scan_graph_of_scanArch`
  (∀ (mt : Str → Str → Bool) (base root : Str) (mp : List Str) (entries : List Entry) (o : ScanOptions),
    treeWFFor (isExcluded mt o.exclusions) base mp entries = true → mpOK entries mp = true →
    compWF root = true →
    o.excludeExternal = true → o.levelLimit = none → o.externalExclusions.isEmpty = true →
    (∀ e ∈ entries, ∀ st ∈ e.stmts, stmtOK (toSStmt st) = true) →
    ∀ (is : List (Name × Name)),
    scanImports root (toSEntries (isExcluded mt o.exclusions) base entries) mp = some is →
    ∃ g, generateGraph mt base root mp entries o = .ok g ∧
      (Pta.E2E.scanArch root (toSEntries (isExcluded mt o.exclusions) base entries) mp is).wf = true ∧
      GraphOf (Pta.E2E.scanArch root (toSEntries (isExcluded mt o.exclusions) base entries) mp is) g) ∧
  -- 7 `Pta.E2E.scan_rule_total`
  (∀ (mt : Str → Str → Bool) (base root : Str) (mp : List Str) (entries : List Entry) (o : ScanOptions),
    treeWFFor (isExcluded mt o.exclusions) base mp entries = true → mpOK entries mp = true →
    compWF root = true →
    o.excludeExternal = true → o.levelLimit = none → o.externalExclusions.isEmpty = true →
    (∀ e ∈ entries, ∀ st ∈ e.stmts, stmtOK (toSStmt st) = true) →
    match scanImports root (toSEntries (isExcluded mt o.exclusions) base entries) mp with
    | none => generateGraph mt base root mp entries o = .error .lookupError
    | some is => ∃ g, generateGraph mt base root mp entries o = .ok g ∧
        ∀ (mt' : Str → Str → Bool) (r : RuleSpec), r.strict = true →
          r.namesIn (Pta.E2E.scanArch root (toSEntries (isExcluded mt o.exclusions) base entries) mp is) = true →
          r.subjects ≠ [] → (r.anything = true ∨ r.objects ≠ []) → (r.anything = true → r.verb = .shouldNot) →
          verdictOf mt' g (compile r) =
            VClass.ofBool (verdict (Pta.E2E.scanArch root (toSEntries (isExcluded mt o.exclusions) base entries) mp is) r)) ∧
  -- 8 `Pta.E2E.scan_rule_total_parentFree`
  (∀ (mt : Str → Str → Bool) (base root : Str) (mp : List Str) (entries : List Entry) (o : ScanOptions),
    treeWFFor (isExcluded mt o.exclusions) base mp entries = true → mpOK entries mp = true →
    compWF root = true →
    o.excludeExternal = true → o.levelLimit = none → o.externalExclusions.isEmpty = true →
    (∀ e ∈ entries, ∀ st ∈ e.stmts, stmtOK (toSStmt st) = true) →
    match scanImports root (toSEntries (isExcluded mt o.exclusions) base entries) mp with
    | none => generateGraph mt base root mp entries o = .error .lookupError
    | some is => ∃ g, generateGraph mt base root mp entries o = .ok g ∧
        ∀ (mt' : Str → Str → Bool) (r : RuleSpec), parentFree r = true →
          r.namesIn (Pta.E2E.scanArch root (toSEntries (isExcluded mt o.exclusions) base entries) mp is) = true →
          r.subjects ≠ [] → (r.anything = true ∨ r.objects ≠ []) → (r.anything = true → r.verb = .shouldNot) →
          verdictOf mt' g (compile r) =
            VClass.ofBool (verdict (Pta.E2E.scanArch root (toSEntries (isExcluded mt o.exclusions) base entries) mp is) r))

theorem c01 : C01_Statement :=
  ⟨@Pta.C01.verdict_spec_parentFree, @Pta.C01.unknown_name_no_verdict, @Pta.C01.rule_chain_state,
   @Pta.C01.others_literal_agree, @Pta.C09.graph_of_arch, @Pta.E2E.scan_graph_of_scanArch, @Pta.E2E.scan_rule_total,
   @Pta.E2E.scan_rule_total_parentFree⟩

end C01

/-! ## C02 -/
section C02
open PtaSpec

/-- C02 — Every import statement in a scanned file becomes an import edge, only those.
    English statement (verbatim): "Every import statement in a scanned file, whether at module level or nested at any
    depth inside functions, classes or any branch of any compound statement (if/else, try/except/else/finally, loops and
    their else, with, match cases), yields an import from that file's module to the internal module the statement names:
    'import a.b.c [as x]' names a.b.c, 'from P import n' names P.n when that is itself a scanned module and P otherwise,
    and relative forms are resolved against the importing file's package. Conversely the architecture contains no import
    between two internal modules that no import statement in the importer's file accounts for (imports of the importing
    file's own ancestor packages are outside this claim)."

    Clause map:
      (1) "whether at module level or nested at any depth inside functions, classes or any branch of any compound
          statement (…)" — conjunct 2 (`Pta.C02.collect_all_imports`): the walk of `ImportConverter.convert`
          (`collectImports`) collects a PERMUTATION of the statements of ALL import nodes of the file's AST, for every
          depth, node class and field name, under `astOK nodes` (paths unique, every parent listed, no import node
          below an import node — the last is about the flat encoding, `Pta.C02.import_below_import_counterexample`).
          What this rules out: `Pta.C02.walk_body_only_counterexample` (defect F-C02a, the pre-fix walk through `body`
          only).  The list of compound statements in the English text is not enumerated: the theorem quantifies over
          all trees, so every field (`orelse`, `handlers`, `finalbody`, `cases`, …) is included.
      (2) "'import a.b.c [as x]' names a.b.c, 'from P import n' names P.n when that is itself a scanned module and P
          otherwise, and relative forms are resolved against the importing file's package" — conjunct 1
          (`Pta.C02.convertStmt_spec`): for one statement of module `imp` (well-formed names, `stmtOK`: a relative
          `from` lists at least one name — needed, `Pta.C02.empty_alias_list_counterexample`), `ImportConverter._convert`
          yields exactly the rendered `PtaSpec.targets` (which is the quoted rule, PtaSpec/ScanSem.lean), and raises
          exactly when a relative import reaches above the root.
      (3) "yields an import from that file's module to the internal module the statement names … Conversely the
          architecture contains no import between two internal modules that no import statement in the importer's file
          accounts for" — conjunct 3 (`Pta.C02.scan_imports_exact_tree_ast`): on a directory tree (`treeWFFor`, `mpOK`,
          `compWF root`, default options: externals excluded, no level limit, no external exclusions; any exclusion
          patterns; `astOK` trees with `stmtOK` imports) the import pairs of the scan graph are EXACTLY (↔, both
          directions) the rendered edges of `scanImports`, computed from all import nodes of the trees; the scan raises
          exactly when the specification has no answer.  Conjunct 4 (`Pta.C02.scan_imports_exact`): the same under the
          abstract walk hypotheses `ScanHyps` (no `treeWFFor`), where ONE exception remains and is proved in both
          directions: an edge from a module to its own direct child (file `x.py` next to directory `x`) is not an
          import edge — conjunct 5 (`Pta.C02.parent_child_not_import`), witness `Pta.C02.collision_counterexample`.
          Conjunct 6 (`Pta.C02.scanHyps_of_tree`): `ScanHyps` holds on every `treeWFFor` tree.
      (4) "(imports of the importing file's own ancestor packages are outside this claim)" — not needed: in model and
          specification alike such imports ARE import edges, so conjunct 3 covers them too.
    Not carried by a theorem (correspondence check only / outside the model):
      * source text → AST (`ast.parse`) and the reduction of an `Import`/`ImportFrom` node to `ImportStmt` (the alias
        `as x` is dropped there): the AST is a parameter of the model.
      * non-default options (externals included, level limit) for the edge equality: see C09, C10. -/
def C02_Statement : Prop :=
  -- 1 `Pta.C02.convertStmt_spec`
  (∀ (imp : Name), nameWF imp = true → ∀ (mods : List Name),
    (∀ m ∈ mods, nameWF m = true) → ∀ (internal : List Str),
    (∀ s, s ∈ internal ↔ ∃ n ∈ mods, s = render n) → ∀ (absPrefix : Option Name),
    (∀ p, absPrefix = some p → nameWF p = true) → ∀ (st : ImportStmt), stmtOK (toSStmt st) = true →
    match targets mods absPrefix imp (toSStmt st) with
    | some ts => ∃ recs, convertStmt (render imp) (renderPrefix absPrefix) internal st = .ok recs ∧
        recs.map (·.importee) = ts.map render ∧
        (∀ r ∈ recs, r.importer = render imp ∧ r.importeeParents = parentModules r.importee) ∧
        ∀ t ∈ ts, nameWF t = true
    | none => convertStmt (render imp) (renderPrefix absPrefix) internal st = .error .lookupError) ∧
  -- 2 `Pta.C02.collect_all_imports`
  (∀ (nodes : List AstNode), astOK nodes = true →
    ((collectImports nodes).map toSStmt).Perm (allImports (nodes.map toSNode))) ∧
  -- 3 `Pta.C02.scan_imports_exact_tree_ast`
  (∀ (mt : Str → Str → Bool) (base root : Str) (mp : List Str) (entries : List Entry) (o : ScanOptions),
    treeWFFor (isExcluded mt o.exclusions) base mp entries = true → mpOK entries mp = true →
    compWF root = true →
    o.excludeExternal = true → o.levelLimit = none → o.externalExclusions.isEmpty = true →
    (∀ e ∈ entries, astOK e.tree = true) →
    (∀ e ∈ entries, ∀ st ∈ allImports (e.tree.map toSNode), stmtOK st = true) →
    match scanImports root (toSEntriesAst (isExcluded mt o.exclusions) base entries) mp with
    | none => generateGraph mt base root mp (entries.map Entry.withCollected) o = .error .lookupError
    | some is => ∃ g, generateGraph mt base root mp (entries.map Entry.withCollected) o = .ok g ∧
        ∀ u v, (u, v) ∈ g.importPairs ↔ ∃ e ∈ is, u = render e.1 ∧ v = render e.2) ∧
  -- 4 `Pta.C02.scan_imports_exact`
  (∀ (mt : Str → Str → Bool) (base root : Str) (mp : List Str) (entries : List Entry)
    (o : ScanOptions), ScanHyps mt base root mp entries o →
    match scanImports root (sentriesOf mt base entries o) mp with
    | none => generateGraph mt base root mp entries o = .error .lookupError
    | some is => ∃ g, generateGraph mt base root mp entries o = .ok g ∧
        ∀ u v, (u, v) ∈ g.importPairs ↔ ∃ e ∈ is, u = render e.1 ∧ v = render e.2 ∧ e.1 ≠ e.2.dropLast) ∧
  -- 5 `Pta.C02.parent_child_not_import`
  (∀ (mt : Str → Str → Bool) (base root : Str) (mp : List Str) (entries : List Entry)
    (o : ScanOptions), ScanHyps mt base root mp entries o → ∀ (g : PGraph Str),
    generateGraph mt base root mp entries o = .ok g → ∀ (c : Name),
    c ∈ scanModules root (sentriesOf mt base entries o) mp → 2 ≤ c.length →
    (render c.dropLast, render c) ∉ g.importPairs ∧ (render c.dropLast, render c) ∈ g.hierPairs) ∧
  -- 6 `Pta.C02.scanHyps_of_tree`
  (∀ (mt : Str → Str → Bool) (base root : Str) (mp : List Str) (entries : List Entry) (o : ScanOptions),
    treeWFFor (isExcluded mt o.exclusions) base mp entries = true → mpOK entries mp = true →
    compWF root = true →
    o.excludeExternal = true → o.levelLimit = none → o.externalExclusions.isEmpty = true →
    (∀ e ∈ entries, ∀ st ∈ e.stmts, stmtOK (toSStmt st) = true) →
    ScanHyps mt base root mp (rootEntry :: entries) o)

theorem c02 : C02_Statement :=
  ⟨@Pta.C02.convertStmt_spec, @Pta.C02.collect_all_imports, @Pta.C02.scan_imports_exact_tree_ast,
   @Pta.C02.scan_imports_exact, @Pta.C02.parent_child_not_import, @Pta.C02.scanHyps_of_tree⟩

end C02

/-! ## C03 -/
section C03
open PtaSpec

/-- C03 — Violation reports name exactly the offending imports and missing imports.
    English statement (verbatim): "When assert_applies fails, every line 'X imports Y' / 'X is imported by Y' in the
    message is a real import between two concrete modules that belongs to the rule's violating set (a forbidden import
    between subject and object, or a not-allowed import between the subject and something else), and every import in
    that violating set is listed. Every 'does not import' / 'is not imported by' line names exactly one subject for which
    the required import is missing, together with exactly the objects it is missing for; no import unrelated to the
    rule's subject is ever reported."

    Clause map:
      (1) "every line 'X imports Y' / 'X is imported by Y' … is a real import between two concrete modules" — conjunct 2
          (`Pta.C03.reported_imports_are_imports`): every reported import item is an import edge of the graph; EVERY
          graph and rule state, no hypothesis beyond "the rule failed".
      (2) "that belongs to the rule's violating set (…), and every import in that violating set is listed" — conjunct 1
          (`Pta.C01.report_spec_parentFree`): the atoms of the reported items are EXACTLY (↔) the atoms of
          `PtaSpec.violating a r`, on the oracle domain of C01 (`a.wf`, `GraphOf a g`, `parentFree r`, names exist, …;
          the hypothesis is needed for the same reason as in C01, `Pta.C01.plain_subOf_counterexample`).  The equality
          is of SETS of atoms (imports, and (subject, object) pairs of "does not import" lines); multiplicities and
          order are not claimed (for the `anything` aliases with related subjects the model reports on the retained
          subjects only, same set).  On SCANNED directory trees (`treeWFFor`, default options): conjunct 14
          (`Pta.E2E.scan_rule_report_parentFree`, Props/E2EWide.lean): the scan succeeds and for every `parentFree` rule
          over scanned modules that fails, the reported atoms are exactly the atoms of the violating set on the
          specification architecture of the tree.
      (3) "Every 'does not import' / 'is not imported by' line names exactly one subject for which the required import
          is missing, together with exactly the objects it is missing for" — conjuncts 4, 5
          (`Pta.C03.missing_lines_are_missing`, `…missing_any_lines_are_missing`): a plain line names one rule subject
          and EXACTLY (↔) the rule objects whose pair query is empty; the `except` form names one subject whose
          "other" query is empty and lists all objects; conjunct 6 (`…one_missing_line_per_subject`): one line per
          (form, subject); conjuncts 7, 8 (`…missing_lines_complete`, `…missing_any_lines_complete`): every missing
          pair / subject IS reported; conjunct 9 (`…pair_query_empty_iff`): what "the query is empty" means on the
          graph (no import from the sub tree of the one into the sub tree of the other).  Every graph, every rule
          (related names, regexes, aliases); `subs` / `objs` are the rule's filters after alias conversion and regex
          expansion.  (`Pta.C03.missing_line_twice_witness`: a rule object carrying both `should()` and `should_only()`
          lists the identical item twice; the text is de-duplicated.)
      (4) "no import unrelated to the rule's subject is ever reported" — conjunct 3
          (`Pta.C03.reported_imports_touch_subject`): one end of every reported import lies in the sub tree of a rule
          subject.  Every graph, every rule.
      (5) "in the message" (the literal TEXT) — conjunct 10 (`Pta.C03.line_of_item`): the message lines are the rendered
          report items, sorted, without duplicates; conjunct 11 (`…assert_text_eq`): `assert_applies` with text is
          `assert_applies` with items, rendered; conjunct 12 (`…text_lines_shape`): every literal line has one of the
          four shapes and says something true; conjunct 13 (`…parse_render`): a parser inverts the renderer on items
          whose names contain no `"` (`Item.parsable`), so lines determine items.
    Not carried by a theorem (correspondence check only / outside the model):
      * that `str(AssertionError)` is the '\n'-join of these lines preceded by nothing else: `messageText` is a
        transcription checked by the correspondence runs.
      * set equality with the specification's violating set OUTSIDE `parentFree` rules.
      * layer-rule and diagram-rule messages are covered by C05 (`layer_report_sound`) / C07, not here. -/
def C03_Statement : Prop :=
  -- 1 `Pta.C01.report_spec_parentFree`
  (∀ (mt : Str → Str → Bool) (a : Arch) (g : PGraph Str), GraphOf a g → a.wf = true →
    ∀ (r : RuleSpec), parentFree r = true → r.namesIn a = true →
    r.subjects ≠ [] → (r.anything = true ∨ r.objects ≠ []) →
    (r.anything = true → r.verb = .shouldNot) → ∀ (items : List Item),
    (assertApplies mt (compile r) g).2 = .fail items →
    ∀ x, x ∈ items.flatMap Item.atoms ↔ x ∈ (violating a r).flatMap SItem.atoms) ∧
  -- 2 `Pta.C03.reported_imports_are_imports`
  (∀ (mt : Str → Str → Bool) (g : PGraph Str) (r : RuleState) (items : List Item),
    (assertApplies mt r g).2 = .fail items →
    ∀ u v d, Item.imp u v d ∈ items → v ∈ g.importSuccs u) ∧
  -- 3 `Pta.C03.reported_imports_touch_subject`
  (∀ (mt : Str → Str → Bool) (g : PGraph Str) (r : RuleState) (items : List Item),
    (assertApplies mt r g).2 = .fail items → ∀ (ss subs : List Filter),
    (convertAliases r.cfg).subjects = some ss → convertFilters mt g.nodes ss = .ok subs →
    ∀ u v d, Item.imp u v d ∈ items → ∃ s ∈ subs, Reach g s.id u ∨ Reach g s.id v) ∧
  -- 4 `Pta.C03.missing_lines_are_missing`
  (∀ (mt : Str → Str → Bool) (g : PGraph Str) (r : RuleState) (items : List Item),
    (assertApplies mt r g).2 = .fail items → ∀ (dir : Bool) (ss subs os objs : List Filter),
    (convertAliases r.cfg).importDir = some dir →
    (convertAliases r.cfg).subjects = some ss → convertFilters mt g.nodes ss = .ok subs →
    (convertAliases r.cfg).objects = some os → convertFilters mt g.nodes os = .ok objs →
    ∀ s objsM d, Item.miss false s objsM d ∈ items →
      (((convertAliases r.cfg).behavior.should || (convertAliases r.cfg).behavior.shouldOnly) &&
        !(convertAliases r.cfg).behavior.exc) = true ∧ d = !dir ∧
      s.toFilter ∈ subs ∧ objsM ≠ [] ∧ objsM.Nodup ∧
      ∀ o, o ∈ objsM ↔ (o.toFilter ∈ objs ∧ pairQuery g dir s.toFilter o.toFilter = .ok [])) ∧
  -- 5 `Pta.C03.missing_any_lines_are_missing`
  (∀ (mt : Str → Str → Bool) (g : PGraph Str) (r : RuleState) (items : List Item),
    (assertApplies mt r g).2 = .fail items → ∀ (dir : Bool) (ss subs os objs : List Filter),
    (convertAliases r.cfg).importDir = some dir →
    (convertAliases r.cfg).subjects = some ss → convertFilters mt g.nodes ss = .ok subs →
    (convertAliases r.cfg).objects = some os → convertFilters mt g.nodes os = .ok objs →
    ∀ s objsM d, Item.miss true s objsM d ∈ items →
      (((convertAliases r.cfg).behavior.should || (convertAliases r.cfg).behavior.shouldOnly) &&
        (convertAliases r.cfg).behavior.exc) = true ∧ d = !dir ∧
      s.toFilter ∈ subs ∧ objsM = dedup (objs.map Filter.toMod) ∧ otherQuery g dir s.toFilter objs = .ok []) ∧
  -- 6 `Pta.C03.one_missing_line_per_subject`
  (∀ (mt : Str → Str → Bool) (g : PGraph Str) (r : RuleState) (items : List Item),
    (assertApplies mt r g).2 = .fail items →
    ∀ any s os₁ d₁ os₂ d₂, Item.miss any s os₁ d₁ ∈ items → Item.miss any s os₂ d₂ ∈ items → os₁ = os₂ ∧ d₁ = d₂) ∧
  -- 7 `Pta.C03.missing_lines_complete`
  (∀ (mt : Str → Str → Bool) (g : PGraph Str) (r : RuleState) (items : List Item),
    (assertApplies mt r g).2 = .fail items → ∀ (dir : Bool) (ss subs os objs : List Filter),
    (convertAliases r.cfg).importDir = some dir →
    (convertAliases r.cfg).subjects = some ss → convertFilters mt g.nodes ss = .ok subs →
    (convertAliases r.cfg).objects = some os → convertFilters mt g.nodes os = .ok objs →
    (((convertAliases r.cfg).behavior.should || (convertAliases r.cfg).behavior.shouldOnly) &&
        !(convertAliases r.cfg).behavior.exc) = true →
    ∀ s ∈ subs, ∀ o ∈ objs, pairQuery g dir s o = .ok [] →
      ∃ objsM, Item.miss false s.toMod objsM (!dir) ∈ items ∧ o.toMod ∈ objsM) ∧
  -- 8 `Pta.C03.missing_any_lines_complete`
  (∀ (mt : Str → Str → Bool) (g : PGraph Str) (r : RuleState) (items : List Item),
    (assertApplies mt r g).2 = .fail items → ∀ (dir : Bool) (ss subs os objs : List Filter),
    (convertAliases r.cfg).importDir = some dir →
    (convertAliases r.cfg).subjects = some ss → convertFilters mt g.nodes ss = .ok subs →
    (convertAliases r.cfg).objects = some os → convertFilters mt g.nodes os = .ok objs →
    (((convertAliases r.cfg).behavior.should || (convertAliases r.cfg).behavior.shouldOnly) &&
        (convertAliases r.cfg).behavior.exc) = true →
    ∀ s ∈ subs, otherQuery g dir s objs = .ok [] →
      Item.miss true s.toMod (dedup (objs.map Filter.toMod)) (!dir) ∈ items) ∧
  -- 9 `Pta.C03.pair_query_empty_iff`
  (∀ (g : PGraph Str) (dir : Bool) (s o : Filter),
    pairQuery g dir s o = .ok [] ↔
      g.hasNode s.id = true ∧ g.hasNode o.id = true ∧
      ∀ u v, Reach g s.id u → Reach g o.id v → u ∉ parentIds [s, o] → v ∉ parentIds [s, o] →
        ¬ (if dir = true then v ∈ g.importSuccs u else u ∈ g.importSuccs v)) ∧
  -- 10 `Pta.C03.line_of_item`
  (∀ (importRule : Bool) (v : Violations),
    messageLines importRule v = renderItems (reportItems importRule v) ∧
    ∀ line, line ∈ messageLines importRule v ↔ ∃ x ∈ reportItems importRule v, renderItem x = line) ∧
  -- 11 `Pta.C03.assert_text_eq`
  (∀ (mt : Str → Str → Bool) (r : RuleState) (g : PGraph Str),
    assertAppliesText mt r g = ((assertApplies mt r g).1, (assertApplies mt r g).2.toText)) ∧
  -- 12 `Pta.C03.text_lines_shape`
  (∀ (mt : Str → Str → Bool) (g : PGraph Str) (r : RuleState) (lines : List Str),
    (assertAppliesText mt r g).2 = .fail lines → ∀ (ss subs os objs : List Filter),
    (convertAliases r.cfg).subjects = some ss → convertFilters mt g.nodes ss = .ok subs →
    (convertAliases r.cfg).objects = some os → convertFilters mt g.nodes os = .ok objs →
    ∀ line ∈ lines,
      (∃ u v d, line = renderLine (.imp u v d) ∧ v ∈ g.importSuccs u ∧ ∃ s ∈ subs, Reach g s.id u ∨ Reach g s.id v) ∨
      (∃ any s objsM d, line = renderLine (.miss any s objsM d) ∧ s ∈ subs.map Filter.toMod ∧ objsM ≠ [] ∧
        ∀ o ∈ objsM, o ∈ objs.map Filter.toMod)) ∧
  -- 13 `Pta.C03.parse_render`
  (∀ (x : Item), x.parsable = true → parseLine (renderLine x) = some x) ∧
  -- 14 `Pta.E2E.scan_rule_report_parentFree`
  (∀ (mt : Str → Str → Bool) (base root : Str) (mp : List Str) (entries : List Entry) (o : ScanOptions),
    treeWFFor (isExcluded mt o.exclusions) base mp entries = true → mpOK entries mp = true →
    compWF root = true →
    o.excludeExternal = true → o.levelLimit = none → o.externalExclusions.isEmpty = true →
    (∀ e ∈ entries, ∀ st ∈ e.stmts, stmtOK (toSStmt st) = true) →
    ∀ (is : List (Name × Name)),
    scanImports root (toSEntries (isExcluded mt o.exclusions) base entries) mp = some is →
    ∃ g, generateGraph mt base root mp entries o = .ok g ∧
      ∀ (mt' : Str → Str → Bool) (r : RuleSpec), parentFree r = true →
        r.namesIn (Pta.E2E.scanArch root (toSEntries (isExcluded mt o.exclusions) base entries) mp is) = true →
        r.subjects ≠ [] → (r.anything = true ∨ r.objects ≠ []) → (r.anything = true → r.verb = .shouldNot) →
        ∀ items, (assertApplies mt' (compile r) g).2 = .fail items →
          ∀ x, x ∈ items.flatMap Item.atoms ↔
            x ∈ (violating (Pta.E2E.scanArch root (toSEntries (isExcluded mt o.exclusions) base entries) mp is) r).flatMap
              SItem.atoms)

theorem c03 : C03_Statement :=
  ⟨@Pta.C01.report_spec_parentFree, @Pta.C03.reported_imports_are_imports, @Pta.C03.reported_imports_touch_subject,
   @Pta.C03.missing_lines_are_missing, @Pta.C03.missing_any_lines_are_missing, @Pta.C03.one_missing_line_per_subject,
   @Pta.C03.missing_lines_complete, @Pta.C03.missing_any_lines_complete, @Pta.C03.pair_query_empty_iff,
   @Pta.C03.line_of_item, @Pta.C03.assert_text_eq, @Pta.C03.text_lines_shape, @Pta.C03.parse_render,
   @Pta.E2E.scan_rule_report_parentFree⟩

end C03

/-! ## C04 -/
section C04
open PtaSpec

/-- C04 — Modules and hierarchy mirror the scanned directory tree, named from root_path.
    English statement (verbatim): "The architecture's modules are exactly one module per non-excluded .py file and per
    non-excluded directory at or below module_path, each named by its dotted path starting with root_path's own directory
    name, plus every ancestor package of module_path up to the root; the sub modules of a module are exactly the modules
    whose dotted name extends it. Scanning a sub-directory as module_path gives the same modules and imports as scanning
    the whole root restricted to that sub-tree (absolute imports written either fully qualified from the root directory's
    name or relative to module_path's parent directory both resolve), and the module-object entry point builds the same
    architecture as the path entry point."

    The file system is a parameter: a flat list `entries` of paths below the root directory.  Domain predicates
    (Bridge/ScanAbs.lean, Bridge/ScanTree.lean): `treeShape` (paths duplicate-free, non-empty, parents listed as
    directories); `treeWFFor excl base mp` (shape, and — only for what the scan from `mp` can see — directory names and
    `.py` stems non-empty and dot-free, no `x.py` next to a directory `x`); `mpOK` (`module_path` is the root or a listed
    directory); `compWF root`.  Options: `excludeExternal = true`, `levelLimit = none` (the defaults; ANY exclusions).

    Clause map:
      (1) "The architecture's modules are exactly one module per non-excluded .py file and per non-excluded directory at or
          below module_path, each named by its dotted path starting with root_path's own directory name"
          — conjunct 1 (`Pta.C04.walk_modules_exact`, under `treeShape`, `mpOK`): the registered modules are exactly the
          names `render (entryName root e)` of the surviving entries (at or below `module_path`, directory or `.py` file,
          no excluded path from `module_path` down to the entry); "one module per …": conjunct 2
          (`Pta.C04.walk_modules_nodup`, under `treeWFFor`): no module is registered twice.
      (2) "plus every ancestor package of module_path up to the root" — conjunct 3 (`Pta.C04.graph_modules_explicit`):
          a node of the scan graph is the name of a surviving entry or (unless `module_path` itself is excluded) one of
          `root`, `root.c₁`, …  Under `treeWFFor`, `mpOK`, `compWF root`, default options, for a successful scan.
      (3) "the sub modules of a module are exactly the modules whose dotted name extends it" — conjunct 4
          (`Pta.C04.hierarchy_exact`): hierarchy edges = (parent, child) for every module with a parent; conjunct 5
          (`Pta.C04.submodules_exact`): `get_all_submodules_of` returns exactly the modules with `n <+: m` (component
          prefix; the module itself included).  Conjunct 6 (`Pta.C04.scan_wf`): the architecture read off the scan
          graph is well-formed and the graph is a graph of it (discharges the standing hypothesis of C01/C03/C05/…).
      (4) "Scanning a sub-directory as module_path gives the same modules and imports as scanning the whole root restricted
          to that sub-tree" — conjunct 7 (`Pta.C04.subscan_modules`) and conjunct 8 (`Pta.C04.subscan_graph`): modules
          and nodes = whole-root ones internal to `module_path` (plus the ancestor packages); import pairs = whole-root
          import pairs with both ends internal.  Extra hypotheses: no directory strictly between root and `module_path`
          is excluded (`hclear`), `stmtOK` statements, and `portable` (no absolute name the conversion looks up is, read
          relative to `module_path`'s parent, a module of the sub-scan) — needed: `Pta.C04.subscan_ambiguity` (a
          directory `proj/proj`).
      (5) "(absolute imports written either fully qualified from the root directory's name or relative to module_path's
          parent directory both resolve)" — conjunct 9 (`Pta.C04.parent_relative_graph`): the tree re-spelled relative to
          `module_path`'s parent (`parentRelative`) scans to a graph with the same nodes and import pairs; conjunct 10
          (`Pta.C04.parent_relative_equiv`): … which is the restriction of the whole-root scan of the fully qualified
          tree.  Extra hypothesis `plain` (the stripped name is not itself a module while the name as written is not) —
          needed: `Pta.C04.plain_needed`.
      (6) "named by its dotted path starting with root_path's own directory name" / the entry point as called —
          conjunct 12 (`Pta.C04.path_entry_eq_generateGraph`): `get_evaluable_architecture(root_path, module_path, …)`
          (`getEvaluableArchitecture`, PtaModel/Scan.lean; the file system is the parameter `fs`) IS `generateGraph` on
          what `entryPaths` derives from the two path strings, whenever the options pass `entryOptionsError`; so every
          conjunct above is about the entry point.  Conjunct 13 (`Pta.C04.entry_module_path_str`): `base` is
          `str(root_as_path)`, `root` its last component (`root_path`'s own directory name), and `str(module_as_path)`
          is the `pathStr base mp` the walk uses — for a root path with at least one component (for `/`, `//`, `""` the
          model's `pathStr` differs from pathlib's string: example in Props/C04.lean).
      (7) "and the module-object entry point builds the same architecture as the path entry point" — conjunct 11
          (`Pta.C04.dirname_spec`): `os.path.dirname(d + "/" + f) = d` for non-empty `d` not ending in `/` and `f`
          without `/` (the two cases left out: `Pta.C04.dirname_no_slash`, `dirname_root_file`); conjunct 14
          (`Pta.C04.module_object_entry_eq_path_entry`): for PACKAGE module objects (`__file__ = dir/__init__.py`)
          `get_evaluable_architecture_for_module_objects` returns literally (graph or error, same six options) what the
          path entry point returns for the two directories; conjunct 15 (`Pta.C04.module_object_plain_module`): for a
          PLAIN module object `dir/x.py` the scanned directory is `dir`, the parent package — the module-object entry
          point cannot scan a single file (so a plain module and the package `__init__.py` next to it give the same
          result: `Pta.C04.module_object_plain_eq_package`); conjunct 16 (`Pta.C04.module_object_modules_exact`): the
          transfer spelled out once — the nodes of the graph the module-object entry point returns are exactly the
          rendered `scanModules` of the specification.  That the six options reach `generate_graph` unchanged from both
          entry points, with the same defaults, is conjunct 17 (`Pta.C04.generated_wiring_agree`,
          Props/TablesWiring.lean): the option data flow extracted from pytestarch.py on every run
          (Generated/Wiring.lean) equals the plumbing the scan model assumes (PtaModel/Wiring.lean).
    Not carried by a theorem (correspondence check only / outside the model):
      * of the module-object entry point: that a module object is its `__file__` string (`ModuleObj.file`); module
        objects without `__file__` (namespace packages, built-ins) are not modelled; `__file__` values outside the
        hypotheses of conjuncts 14 / 15 (directory empty or ending in `/`) are covered by evaluation of `dirname` only.
      * that Python's `posixpath.dirname` / `pathlib.PurePosixPath` behave as the transcriptions `dirname`, `parsePath`,
        `PPath.str`, `PPath.name`, `PPath.relativeTo` (POSIX paths only; `..` is kept, nothing is resolved).
      * `os.walk` / `pathlib` producing `entries` (`fs base`), and symlinks: the listing is a parameter.
      * trees outside `treeWFFor` (dotted directory names, `x.py` next to `x/` inside the scanned part): the naming clauses
        are not claimed there (see `Pta.C02.collision_counterexample`). -/
def C04_Statement : Prop :=
  -- 1 `Pta.C04.walk_modules_exact`
  (∀ (mt : Str → Str → Bool) (base root : Str) (mp : List Str) (entries : List Entry) (o : ScanOptions),
    treeShape entries = true → mpOK entries mp = true → ∀ (x : Str),
    x ∈ (scanParsed mt base root mp entries o).allModules ↔
      ∃ e ∈ rootEntry :: entries,
        survives (toSEntries (Pta.C04.exclOf mt o) base entries) mp (toSEntry (Pta.C04.exclOf mt o) base e) = true ∧
        x = render (entryName root (toSEntry (Pta.C04.exclOf mt o) base e))) ∧
  -- 2 `Pta.C04.walk_modules_nodup`
  (∀ (mt : Str → Str → Bool) (base root : Str) (mp : List Str) (entries : List Entry) (o : ScanOptions),
    treeWFFor (Pta.C04.exclOf mt o) base mp entries = true → mpOK entries mp = true → compWF root = true →
    (scanParsed mt base root mp entries o).allModules.Nodup) ∧
  -- 3 `Pta.C04.graph_modules_explicit`
  (∀ (mt : Str → Str → Bool) (base root : Str) (mp : List Str) (entries : List Entry) (o : ScanOptions),
    treeWFFor (Pta.C04.exclOf mt o) base mp entries = true → mpOK entries mp = true → compWF root = true →
    o.excludeExternal = true → o.levelLimit = none → ∀ (g : PGraph Str),
    generateGraph mt base root mp entries o = .ok g → ∀ (s : Str),
    s ∈ g.nodes ↔
      (∃ e ∈ rootEntry :: entries,
        survives (toSEntries (Pta.C04.exclOf mt o) base entries) mp (toSEntry (Pta.C04.exclOf mt o) base e) = true ∧
        s = render (entryName root (toSEntry (Pta.C04.exclOf mt o) base e))) ∨
      (Pta.C04.exclOf mt o (pathStr base mp) = false ∧ ∃ k, 0 < k ∧ k ≤ mp.length ∧ s = render ((root :: mp).take k))) ∧
  -- 4 `Pta.C04.hierarchy_exact`
  (∀ (mt : Str → Str → Bool) (base root : Str) (mp : List Str) (entries : List Entry) (o : ScanOptions),
    treeWFFor (Pta.C04.exclOf mt o) base mp entries = true → mpOK entries mp = true → compWF root = true →
    o.excludeExternal = true → o.levelLimit = none → ∀ (g : PGraph Str),
    generateGraph mt base root mp entries o = .ok g → ∀ (s x : Str),
    x ∈ g.hierChildren s ↔
      ∃ c ∈ scanModules root (toSEntries (Pta.C04.exclOf mt o) base entries) mp,
        2 ≤ c.length ∧ s = render c.dropLast ∧ x = render c) ∧
  -- 5 `Pta.C04.submodules_exact`
  (∀ (mt : Str → Str → Bool) (base root : Str) (mp : List Str) (entries : List Entry) (o : ScanOptions),
    treeWFFor (Pta.C04.exclOf mt o) base mp entries = true → mpOK entries mp = true → compWF root = true →
    o.excludeExternal = true → o.levelLimit = none → ∀ (g : PGraph Str),
    generateGraph mt base root mp entries o = .ok g → ∀ (n : Name),
    n ∈ scanModules root (toSEntries (Pta.C04.exclOf mt o) base entries) mp →
    ∃ l, submodulesOf g (render n) = .ok l ∧
      ∀ x, x ∈ l ↔ ∃ m ∈ scanModules root (toSEntries (Pta.C04.exclOf mt o) base entries) mp, x = render m ∧ n <+: m) ∧
  -- 6 `Pta.C04.scan_wf`
  (∀ (mt : Str → Str → Bool) (base root : Str) (mp : List Str) (entries : List Entry) (o : ScanOptions),
    treeWFFor (Pta.C04.exclOf mt o) base mp entries = true → mpOK entries mp = true → compWF root = true →
    o.excludeExternal = true → o.levelLimit = none → ∀ (g : PGraph Str),
    generateGraph mt base root mp entries o = .ok g →
    (graphArch g).wf = true ∧ GraphOf (graphArch g) g) ∧
  -- 7 `Pta.C04.subscan_modules`
  (∀ (mt : Str → Str → Bool) (base root : Str) (mp : List Str) (entries : List Entry) (o : ScanOptions),
    treeWFFor (Pta.C04.exclOf mt o) base [] entries = true →
    treeWFFor (Pta.C04.exclOf mt o) base mp entries = true → mpOK entries mp = true → compWF root = true →
    (∀ k, k < mp.length → Pta.C04.exclOf mt o (pathStr base (mp.take k)) = false) → ∀ (x : Str),
    x ∈ (scanParsed mt base root mp entries o).allModules ↔
      x ∈ (scanParsed mt base root [] entries o).allModules ∧ isInternal x (internalPrefix root mp) = true) ∧
  -- 8 `Pta.C04.subscan_graph`
  (∀ (mt : Str → Str → Bool) (base root : Str) (mp : List Str) (entries : List Entry) (o : ScanOptions),
    treeWFFor (Pta.C04.exclOf mt o) base [] entries = true →
    treeWFFor (Pta.C04.exclOf mt o) base mp entries = true → mpOK entries mp = true → compWF root = true →
    (∀ k, k < mp.length → Pta.C04.exclOf mt o (pathStr base (mp.take k)) = false) →
    portable root (toSEntries (Pta.C04.exclOf mt o) base entries) mp = true →
    o.excludeExternal = true → o.levelLimit = none → o.externalExclusions.isEmpty = true →
    (∀ e ∈ entries, ∀ st ∈ e.stmts, stmtOK (toSStmt st) = true) →
    ∀ (g0 : PGraph Str), generateGraph mt base root [] entries o = .ok g0 →
    ∃ g, generateGraph mt base root mp entries o = .ok g ∧
      (∀ s, s ∈ g.nodes ↔
        (s ∈ g0.nodes ∧ isInternal s (internalPrefix root mp) = true) ∨
        (Pta.C04.exclOf mt o (pathStr base mp) = false ∧ ∃ k, 0 < k ∧ k ≤ mp.length ∧ s = render ((root :: mp).take k))) ∧
      (∀ u v, (u, v) ∈ g.importPairs ↔
        (u, v) ∈ g0.importPairs ∧ isInternal u (internalPrefix root mp) = true ∧
          isInternal v (internalPrefix root mp) = true)) ∧
  -- 9 `Pta.C04.parent_relative_graph`
  (∀ (mt : Str → Str → Bool) (base root : Str) (mp : List Str) (entries : List Entry) (o : ScanOptions),
    (∀ e ∈ entries, ∀ st ∈ e.stmts, stmtOK (toSStmt st) = true) →
    portable root (toSEntries (Pta.C04.exclOf mt o) base entries) mp = true →
    plain root (toSEntries (Pta.C04.exclOf mt o) base entries) mp = true →
    treeWFFor (Pta.C04.exclOf mt o) base mp entries = true → mpOK entries mp = true → compWF root = true →
    o.excludeExternal = true → o.levelLimit = none → o.externalExclusions.isEmpty = true →
    (generateGraph mt base root mp (parentRelative root mp entries) o = .error .lookupError ↔
      generateGraph mt base root mp entries o = .error .lookupError) ∧
    ∀ g, generateGraph mt base root mp entries o = .ok g →
      ∃ g', generateGraph mt base root mp (parentRelative root mp entries) o = .ok g' ∧
        (∀ s, s ∈ g'.nodes ↔ s ∈ g.nodes) ∧ ∀ u v, (u, v) ∈ g'.importPairs ↔ (u, v) ∈ g.importPairs) ∧
  -- 10 `Pta.C04.parent_relative_equiv`
  (∀ (mt : Str → Str → Bool) (base root : Str) (mp : List Str) (entries : List Entry) (o : ScanOptions),
    (∀ e ∈ entries, ∀ st ∈ e.stmts, stmtOK (toSStmt st) = true) →
    portable root (toSEntries (Pta.C04.exclOf mt o) base entries) mp = true →
    plain root (toSEntries (Pta.C04.exclOf mt o) base entries) mp = true →
    treeWFFor (Pta.C04.exclOf mt o) base mp entries = true → mpOK entries mp = true → compWF root = true →
    o.excludeExternal = true → o.levelLimit = none → o.externalExclusions.isEmpty = true →
    treeWFFor (Pta.C04.exclOf mt o) base [] entries = true →
    (∀ k, k < mp.length → Pta.C04.exclOf mt o (pathStr base (mp.take k)) = false) →
    ∀ (g0 : PGraph Str), generateGraph mt base root [] entries o = .ok g0 →
    ∃ g', generateGraph mt base root mp (parentRelative root mp entries) o = .ok g' ∧
      (∀ s, s ∈ g'.nodes ↔
        (s ∈ g0.nodes ∧ isInternal s (internalPrefix root mp) = true) ∨
        (Pta.C04.exclOf mt o (pathStr base mp) = false ∧ ∃ k, 0 < k ∧ k ≤ mp.length ∧ s = render ((root :: mp).take k))) ∧
      (∀ u v, (u, v) ∈ g'.importPairs ↔
        (u, v) ∈ g0.importPairs ∧ isInternal u (internalPrefix root mp) = true ∧
          isInternal v (internalPrefix root mp) = true)) ∧
  -- 11 `Pta.C04.dirname_spec`
  (∀ (d f : Str), d ≠ [] → d.getLast? ≠ some '/' → '/' ∉ f → dirname (d ++ '/' :: f) = d) ∧
  -- 12 `Pta.C04.path_entry_eq_generateGraph`
  (∀ (mt : Str → Str → Bool) (fs : Str → List Entry) (rootPath modulePath : Str) (a : EntryArgs) (base root : Str)
    (mp : List Str) (o : ScanOptions), entryOptionsError (a.flags true) = none →
    entryPaths rootPath modulePath = .ok (base, root, mp) → a.scanOptions = some o →
    getEvaluableArchitecture mt fs rootPath modulePath a =
      (generateGraph mt base root mp (fs base) o).mapError EntryErr.kind) ∧
  -- 13 `Pta.C04.entry_module_path_str`
  (∀ (rootPath modulePath base root : Str) (mp : List Str),
    entryPaths rootPath modulePath = .ok (base, root, mp) → (parsePath rootPath).parts ≠ [] →
    (parsePath modulePath).str = pathStr base mp ∧ base = (parsePath rootPath).str ∧ root = (parsePath rootPath).name) ∧
  -- 14 `Pta.C04.module_object_entry_eq_path_entry`
  (∀ (mt : Str → Str → Bool) (fs : Str → List Entry) (rdir mdir : Str) (a : EntryArgs),
    rdir ≠ [] → rdir.getLast? ≠ some '/' → mdir ≠ [] → mdir.getLast? ≠ some '/' →
    scanForModuleObjects mt fs ⟨rdir ++ "/__init__.py".toList⟩ ⟨mdir ++ "/__init__.py".toList⟩ a =
      getEvaluableArchitecture mt fs rdir mdir a) ∧
  -- 15 `Pta.C04.module_object_plain_module`
  (∀ (mt : Str → Str → Bool) (fs : Str → List Entry) (rdir dir rfile x : Str) (a : EntryArgs),
    rdir ≠ [] → rdir.getLast? ≠ some '/' → dir ≠ [] → dir.getLast? ≠ some '/' → '/' ∉ rfile → '/' ∉ x →
    dirname (dir ++ '/' :: x) = dir ∧
    scanForModuleObjects mt fs ⟨rdir ++ '/' :: rfile⟩ ⟨dir ++ '/' :: x⟩ a = getEvaluableArchitecture mt fs rdir dir a) ∧
  -- 16 `Pta.C04.module_object_modules_exact`
  (∀ (mt : Str → Str → Bool) (fs : Str → List Entry) (rdir mdir : Str) (a : EntryArgs),
    rdir ≠ [] → rdir.getLast? ≠ some '/' → mdir ≠ [] → mdir.getLast? ≠ some '/' →
    ∀ (base root : Str) (mp : List Str) (o : ScanOptions), entryOptionsError (a.flags true) = none →
    entryPaths rdir mdir = .ok (base, root, mp) → a.scanOptions = some o →
    treeWFFor (Pta.C04.exclOf mt o) base mp (fs base) = true → mpOK (fs base) mp = true → compWF root = true →
    o.excludeExternal = true → o.levelLimit = none → ∀ (g : PGraph Str),
    scanForModuleObjects mt fs ⟨rdir ++ "/__init__.py".toList⟩ ⟨mdir ++ "/__init__.py".toList⟩ a = .ok g → ∀ (s : Str),
    s ∈ g.nodes ↔ ∃ n ∈ scanModules root (toSEntries (Pta.C04.exclOf mt o) base (fs base)) mp, s = render n) ∧
  -- 17 `Pta.C04.generated_wiring_agree`
  (Generated.entryParams = Pta.Wiring.entryParams ∧
    Generated.entryDefaults = Pta.Wiring.defaults ∧
    Generated.moduleObjectsDefaults = Pta.Wiring.defaults ∧
    Generated.defaultExclusions = Pta.Wiring.defaultExclusions ∧
    Generated.moduleObjectsFlow = Pta.Wiring.moduleObjectsFlow ∧
    Generated.generateGraphFlow = Pta.Wiring.generateGraphFlow)

theorem c04 : C04_Statement :=
  ⟨@Pta.C04.walk_modules_exact, @Pta.C04.walk_modules_nodup, @Pta.C04.graph_modules_explicit,
   @Pta.C04.hierarchy_exact, @Pta.C04.submodules_exact, @Pta.C04.scan_wf, @Pta.C04.subscan_modules,
   @Pta.C04.subscan_graph, @Pta.C04.parent_relative_graph, @Pta.C04.parent_relative_equiv,
   @Pta.C04.dirname_spec, @Pta.C04.path_entry_eq_generateGraph, @Pta.C04.entry_module_path_str,
   @Pta.C04.module_object_entry_eq_path_entry, @Pta.C04.module_object_plain_module,
   @Pta.C04.module_object_modules_exact, Pta.C04.generated_wiring_agree⟩

end C04

/-! ## C05 -/
section C05
open PtaSpec

/-- C05 — Layer-rule verdicts follow the documented semantics, one unit per layer.
    English statement (verbatim): "For every layered architecture whose layers list unrelated modules (by name or by
    regex) and every LayerRule, assert_applies passes exactly when the documented layer semantics hold: a layer is the
    union of its listed modules and all their descendants; 'access' requirements need at least one import from some module
    of the subject layer into each named object layer; 'not'/'only' requirements forbid every such import; 'something
    else' means any module outside the subject layer and outside the named object layers, including modules in no layer.
    Imports between modules of the same layer never count, neither as violations nor as the required access to something
    else, and modules of layers that the rule does not mention are treated exactly like modules in no layer, however
    those layers were defined."

    Vocabulary: `larch : LArch` the layered architecture as built (name filters and regex filters); `ls : Layers` its
    layers with every regex resolved to the modules it matches (`resolves mt g.nodes larch ls`); `r : LRuleSpec`.
    Domain `layerDomain' a ls r` (PtaSpec/LayerSem.lean, relaxed after audit F6): non-empty layers listing existing
    modules, listed modules of DIFFERENT layers pairwise unrelated (inside one layer anything goes), distinct layer names,
    subject and objects defined layers, objects ≠ subject.  `layerDomainK a (ruleLayers larch ls r) r`: the same required
    only of the layers the rule works with.

    Clause map:
      (1) "For every layered architecture whose layers list unrelated modules (by name or by regex) and every LayerRule,
          assert_applies passes exactly when the documented layer semantics hold"
          — conjunct 1 (`Pta.C05.layer_verdict`): `(assertAppliesLayer …).cls = VClass.ofBool (layerVerdict a ls r)`
          (pass iff holds, fail iff not, never `LayerMismatch` or another error), for `a.wf`, `GraphOf a g`,
          `layerDomain' a ls r`, `anything` only with `should_not` (needed: `Pta.C05.any_layer_misused`), name and regex
          layers alike (`resolves`).  Conjunct 3 (`Pta.C05.layer_verdict_chain`): the same for the fluent call chain
          `based_on(larch).layers_that().are_named(…)…` followed by `assert_applies`.  Conjunct 9
          (`Pta.E2E.scan_layer_verdict`): the same on SCANNED architectures (`treeWFFor`, default options).
      (2) "a layer is the union of its listed modules and all their descendants; 'access' requirements need at least one
          import …; 'not'/'only' requirements forbid every such import; 'something else' means any module outside the
          subject layer and outside the named object layers, including modules in no layer. Imports between modules of the
          same layer never count …" — these sentences are the DEFINITION of `PtaSpec.layerVerdict` (PtaSpec/LayerSem.lean);
          carried by conjunct 1 through that definition.  The module → layer lookup they presuppose is conjunct 6
          (`Pta.C05.layerOf_correct`): on a mapping with cross-layer unrelated modules (`crossUnrelated`) the lookup
          returns the unique layer listing an ancestor-or-self, or none, never `LayerMismatch`.
      (3) "modules of layers that the rule does not mention are treated exactly like modules in no layer, however those
          layers were defined" — conjunct 2 (`Pta.C05.layer_verdict_kept`): the verdict theorem with the domain required
          only of `ruleLayers larch ls r`; conjunct 4 (`Pta.C05.unmentioned_layers_irrelevant'`): two layerings agreeing
          on the mentioned layers give the same class; conjunct 5 (`Pta.C05.unmentioned_layers_as_no_layer`): the class
          is the documented semantics of the layering that defines the mentioned layers only.  "however those layers
          were defined" holds for unmentioned REGEX layers; for unmentioned NAME layers the listed modules must still be
          unrelated to the modules of every other layer — otherwise `LayerMismatch`:
          `Pta.C05.unmentioned_related_layer_mismatch` (the English clause is FALSE without that restriction).
      (4) (report) conjunct 7 (`Pta.C05.layer_report_sound`): every reported import line is an import of the architecture
          whose two printed layer tags are the lookups of its ends and differ ("same layer never counts as violation").
      (5) (outside the domain) conjunct 8 (`Pta.C05.overlapping_layers_never_verdict`): if the layer mapping the rule uses
          assigns one module identifier to two layers, `assert_applies` raises and never returns a verdict.
    Not carried by a theorem (correspondence check only / outside the model):
      * layers listing RELATED modules in different layers: no oracle (the library raises `LayerMismatch` or gives an
        order-independent verdict, see C15.perm_layers), the documentation is silent.
      * the regex engine resolving a regex layer (`mt` is a parameter; `resolves` is a hypothesis). -/
def C05_Statement : Prop :=
  -- 1 `Pta.C05.layer_verdict`
  (∀ (mt : Str → Str → Bool) (a : Arch) (g : PGraph Str), GraphOf a g →
    a.wf = true → ∀ (ls : Layers) (r : LRuleSpec), layerDomain' a ls r = true →
    (r.anything = true → r.verb = .shouldNot) →
    ∀ (larch : LArch), resolves mt g.nodes larch ls = true →
    (assertAppliesLayer mt (compileLayerRule larch r) g).cls = VClass.ofBool (layerVerdict a ls r)) ∧
  -- 2 `Pta.C05.layer_verdict_kept`
  (∀ (mt : Str → Str → Bool) (a : Arch) (g : PGraph Str), GraphOf a g →
    a.wf = true → ∀ (ls : Layers) (r : LRuleSpec),
    (r.anything = true → r.verb = .shouldNot) →
    ∀ (larch : LArch), resolves mt g.nodes larch ls = true →
    layerDomainK a (ruleLayers larch ls r) r = true →
    (assertAppliesLayer mt (compileLayerRule larch r) g).cls = VClass.ofBool (layerVerdict a ls r)) ∧
  -- 3 `Pta.C05.layer_verdict_chain`
  (∀ (mt : Str → Str → Bool) (a : Arch) (g : PGraph Str), GraphOf a g →
    a.wf = true → ∀ (ls : Layers) (r : LRuleSpec), layerDomain' a ls r = true →
    (r.anything = true → r.verb = .shouldNot) →
    ∀ (larch : LArch), resolves mt g.nodes larch ls = true → ∀ (isList : Bool),
    (runLayerRuleOps mt (layerRuleOps larch r isList) g).1.cls = VClass.ofBool (layerVerdict a ls r)) ∧
  -- 4 `Pta.C05.unmentioned_layers_irrelevant'`
  (∀ (mt : Str → Str → Bool) (a : Arch) (g : PGraph Str), GraphOf a g →
    a.wf = true → ∀ (r : LRuleSpec), (r.anything = true → r.verb = .shouldNot) →
    ∀ (ls ls' : Layers) (larch larch' : LArch),
    resolves mt g.nodes larch ls = true → resolves mt g.nodes larch' ls' = true →
    layerDomainK a (ruleLayers larch ls r) r = true → layerDomainK a (ruleLayers larch' ls' r) r = true →
    ls.get r.subject = ls'.get r.subject → (r.anything = false → ∀ on ∈ r.objects, ls.get on = ls'.get on) →
    (assertAppliesLayer mt (compileLayerRule larch r) g).cls = (assertAppliesLayer mt (compileLayerRule larch' r) g).cls) ∧
  -- 5 `Pta.C05.unmentioned_layers_as_no_layer`
  (∀ (mt : Str → Str → Bool) (a : Arch) (g : PGraph Str), GraphOf a g →
    a.wf = true → ∀ (r : LRuleSpec), (r.anything = true → r.verb = .shouldNot) →
    ∀ (ls : Layers) (larch : LArch), resolves mt g.nodes larch ls = true →
    layerDomainK a (ruleLayers larch ls r) r = true →
    (assertAppliesLayer mt (compileLayerRule larch r) g).cls =
      VClass.ofBool (layerVerdict a (ls.filter fun l => l.1 == r.subject || (!r.anything && r.objects.contains l.1)) r)) ∧
  -- 6 `Pta.C05.layerOf_correct`
  (∀ (m : Layers), crossUnrelated m = true →
    (∀ l ∈ m, ∀ x ∈ l.2, nameWF x = true) → ∀ (n : Name), nameWF n = true →
    LayerMap.layerOf (m.map fun l => (l.1, l.2.map render)) (render n) = .ok (layerTag m n) ∧
    (∀ l ∈ m, inLayer l.2 n = true → layerTag m n = some l.1) ∧
    (∀ t, layerTag m n = some t → ∃ l ∈ m, l.1 = t ∧ inLayer l.2 n = true) ∧
    (∀ l ∈ m, ∀ l' ∈ m, inLayer l.2 n = true → inLayer l'.2 n = true → l.1 = l'.1)) ∧
  -- 7 `Pta.C05.layer_report_sound`
  (∀ (mt : Str → Str → Bool) (a : Arch) (g : PGraph Str), GraphOf a g →
    a.wf = true → ∀ (ls : Layers) (r : LRuleSpec), layerDomain' a ls r = true →
    (r.anything = true → r.verb = .shouldNot) →
    ∀ (larch : LArch), resolves mt g.nodes larch ls = true → ∀ (items : List LItem),
    assertAppliesLayer mt (compileLayerRule larch r) g = .fail items →
    ∀ u v b tu tv, LItem.imp u v b tu tv ∈ items →
      (∃ e ∈ a.imports, u = render e.1 ∧ v = render e.2) ∧ v ∈ g.importSuccs u ∧
      (ruleLayerMap mt g larch r).layerOf u = .ok tu ∧ (ruleLayerMap mt g larch r).layerOf v = .ok tv ∧ tu ≠ tv) ∧
  -- 8 `Pta.C05.overlapping_layers_never_verdict`
  (∀ (mt : Str → Str → Bool) (g : PGraph Str) (larch : LArch) (rule : RuleState)
    (l1 l2 : Str × List Str), l1 ∈ stateLayerMap mt g larch rule → l2 ∈ stateLayerMap mt g larch rule →
    ∀ (id : Str), id ∈ l1.2 → id ∈ l2.2 → l1.1 ≠ l2.1 →
    ∃ k, assertAppliesLayer mt ⟨some larch, some rule⟩ g = .err k) ∧
  -- 9 `Pta.E2E.scan_layer_verdict`
  (∀ (mt : Str → Str → Bool) (base root : Str) (mp : List Str) (entries : List Entry) (o : ScanOptions),
    treeWFFor (isExcluded mt o.exclusions) base mp entries = true → mpOK entries mp = true →
    compWF root = true →
    o.excludeExternal = true → o.levelLimit = none → o.externalExclusions.isEmpty = true →
    (∀ e ∈ entries, ∀ st ∈ e.stmts, stmtOK (toSStmt st) = true) →
    ∀ (is : List (Name × Name)),
    scanImports root (toSEntries (isExcluded mt o.exclusions) base entries) mp = some is →
    ∃ g, generateGraph mt base root mp entries o = .ok g ∧
      ∀ (mt' : Str → Str → Bool) (ls : Layers) (r : LRuleSpec) (larch : LArch),
        layerDomain' (Pta.E2E.scanArch root (toSEntries (isExcluded mt o.exclusions) base entries) mp is) ls r = true →
        (r.anything = true → r.verb = .shouldNot) →
        resolves mt' g.nodes larch ls = true →
        (assertAppliesLayer mt' (compileLayerRule larch r) g).cls =
          VClass.ofBool (layerVerdict (Pta.E2E.scanArch root (toSEntries (isExcluded mt o.exclusions) base entries) mp is) ls r))

theorem c05 : C05_Statement :=
  ⟨@Pta.C05.layer_verdict, @Pta.C05.layer_verdict_kept, @Pta.C05.layer_verdict_chain,
   @Pta.C05.unmentioned_layers_irrelevant', @Pta.C05.unmentioned_layers_as_no_layer, @Pta.C05.layerOf_correct,
   @Pta.C05.layer_report_sound, @Pta.C05.overlapping_layers_never_verdict, @Pta.E2E.scan_layer_verdict⟩

end C05

/-! ## C06 -/
section C06

/-- C06 — PlantUML diagrams parse to exactly their components, aliases and arrows.
    English statement (verbatim): "For every component diagram written in the documented subset (text outside
    @startuml/@enduml ignored; components declared as [name], component name, component [name], optionally 'as alias';
    dependencies written with -->, ->, <--, <-, -text-> or <-text- between bracketed names, bare names or aliases),
    parsing yields exactly the set of declared or referenced components, with every alias resolved to its component name,
    and exactly the dependor->dependee relation drawn, regardless of line order or of whether a component is referred to
    by alias in one line and by name in another. Component names may be single identifiers or fully qualified dotted
    module names; a file without the start/end tags is rejected with a parsing error."

    The documented subset is an abstract syntax `DLine` (Bridge/PumlRender.lean: `DeclForm` = the three declaration
    forms with optional alias; `ArrowForm` = the six arrow forms; `DRef` = bracketed name / bare name / alias) with a
    renderer `diagramText noise1 d noise2` and a meaning (`diagramComponents`, `diagramArrows`, aliases resolved).
    `diagramWF d`: names are `nameOK` (identifier characters and dots), aliases `wordOK`, arrow texts `textOK`, every
    alias used in an arrow is declared, the alias table is functional (an alias stands for one component) and no alias
    is itself written as a component name of the diagram, `component name` without brackets has no alias.

    Clause map:
      (1) "For every component diagram written in the documented subset (…) parsing yields exactly the set of declared or
          referenced components, with every alias resolved to its component name, and exactly the dependor->dependee
          relation drawn" — conjunct 1 (`Pta.C06.roundtrip`): for every `diagramWF d` and any noise (the trailing noise
          without a second `@enduml`: needed, `Pta.C06.second_end_tag_extends_body`), `pumlParse` succeeds, the module
          list is duplicate-free and is exactly `diagramComponents d`, `y ∈ deps[x]` iff `(x, y) ∈ diagramArrows d`,
          dictionary keys unique, value lists duplicate-free and non-empty.
      (2) "(text outside @startuml/@enduml ignored; …)" — conjunct 6 (`Pta.C06.body_of_text`): only the text between the
          tags survives; also the `noise1 noise2` quantifiers of conjunct 1.
      (3) "components declared as [name], component name, component [name], optionally 'as alias'" — conjunct 4
          (`Pta.C06.decl_line_modules`): each of the three forms declares exactly its component with its alias.
          "dependencies written with -->, ->, <--, <-, -text-> or <-text- between bracketed names, bare names or aliases"
          — conjunct 5 (`Pta.C06.arrow_line_dependency`): each of the six forms × nine reference-style combinations
          yields exactly one dependency in dependor → dependee orientation.
      (4) "regardless of line order or of whether a component is referred to by alias in one line and by name in another"
          — conjunct 3 (`Pta.C06.order_irrelevant`): a permutation of a well-formed diagram is well formed and parses to
          the same content (`Pta.C06.SameParse`); conjunct 2 (`Pta.C06.presentation_irrelevant`): two well-formed
          diagrams with the same meaning (whatever forms, reference styles, order, noise) parse to the same content.
      (5) "Component names may be single identifiers or fully qualified dotted module names" — `nameOK` admits dots; the
          quantifier of conjunct 1 (non-vacuity: `Pta.C06.sample`).
      (6) "a file without the start/end tags is rejected with a parsing error" — conjunct 7 (`Pta.C06.no_tags`).
      (7) (not in the English text; repaired defect) one alias declared for two components is rejected — conjunct 8
          (`Pta.C06.conflicting_alias_rejected`); and that is the only way a text with fine tags fails — conjunct 9
          (`Pta.C06.parse_error_iff`).
    Not carried by a theorem (correspondence check only / outside the model):
      * Python's `re` on the two PlantUML regexes: the line recognisers `lineModules` / `lineDependency` are hand
        transcriptions of those regexes.
      * diagrams OUTSIDE the subset (e.g. an alias written in brackets in an arrow line:
        `Pta.C06.bracketed_alias_outside_subset`; names with other characters): no claim. -/
def C06_Statement : Prop :=
  -- 1 `Pta.C06.roundtrip`
  (∀ (noise1 noise2 : Str) (d : List DLine), diagramWF d = true →
    isInfix "@enduml".toList noise2 = false →
    ∃ p, pumlParse (diagramText noise1 d noise2) = .ok p ∧
      p.modules.Nodup ∧ (∀ x, x ∈ p.modules ↔ x ∈ diagramComponents d) ∧
      (∀ x y, y ∈ p.depsOf x ↔ (x, y) ∈ diagramArrows d) ∧
      (p.dependencies.map (·.1)).Nodup ∧ (∀ kv ∈ p.dependencies, kv.2.Nodup ∧ kv.2 ≠ [])) ∧
  -- 2 `Pta.C06.presentation_irrelevant`
  (∀ (n1 n2 n1' n2' : Str) (d d' : List DLine),
    diagramWF d = true → diagramWF d' = true →
    isInfix "@enduml".toList n2 = false → isInfix "@enduml".toList n2' = false →
    (∀ x, x ∈ diagramComponents d ↔ x ∈ diagramComponents d') →
    (∀ e, e ∈ diagramArrows d ↔ e ∈ diagramArrows d') →
    ∃ p q, pumlParse (diagramText n1 d n2) = .ok p ∧ pumlParse (diagramText n1' d' n2') = .ok q ∧
      Pta.C06.SameParse p q) ∧
  -- 3 `Pta.C06.order_irrelevant`
  (∀ (n1 n2 : Str) (d d' : List DLine), d.Perm d' →
    diagramWF d = true → isInfix "@enduml".toList n2 = false →
    diagramWF d' = true ∧
    ∃ p q, pumlParse (diagramText n1 d n2) = .ok p ∧ pumlParse (diagramText n1 d' n2) = .ok q ∧
      Pta.C06.SameParse p q) ∧
  -- 4 `Pta.C06.decl_line_modules`
  (∀ (f : DeclForm) (n : Str) (al : Option Str), nameOK n = true →
    (∀ a, al = some a → wordOK a = true ∧ f ≠ .compBare) →
    lineModules (renderDecl f n al) = [⟨n, al⟩]) ∧
  -- 5 `Pta.C06.arrow_line_dependency`
  (∀ (f : ArrowForm) (a b : DRef), f.textOK = true →
    nameOK a.written = true → nameOK b.written = true →
    lineDependency (renderArrow f a b) = some (a.written, b.written)) ∧
  -- 6 `Pta.C06.body_of_text`
  (∀ (noise1 noise2 : Str) (d : List DLine), diagramWF d = true →
    isInfix "@enduml".toList noise2 = false →
    pumlBody (pyStrip (diagramText noise1 d noise2)) = .ok (diagramBody d)) ∧
  -- 7 `Pta.C06.no_tags`
  (∀ (content : Str),
    (isInfix "@startuml".toList content = false ∨ isInfix "@enduml".toList content = false) →
    pumlParse content = .error .pumlParsingError) ∧
  -- 8 `Pta.C06.conflicting_alias_rejected`
  (∀ (content body l1 l2 a x y : Str),
    pumlBody (pyStrip content) = .ok body → l1 ∈ splitLines body → l2 ∈ splitLines body →
    ⟨x, some a⟩ ∈ lineModules l1 → ⟨y, some a⟩ ∈ lineModules l2 → x ≠ y →
    pumlParse content = .error .pumlParsingError) ∧
  -- 9 `Pta.C06.parse_error_iff`
  (∀ (content body : Str), pumlBody (pyStrip content) = .ok body →
    (pumlParse content = .error .pumlParsingError ↔
      ∃ l1 ∈ splitLines body, ∃ l2 ∈ splitLines body, ∃ a x y,
        ⟨x, some a⟩ ∈ lineModules l1 ∧ ⟨y, some a⟩ ∈ lineModules l2 ∧ x ≠ y))

theorem c06 : C06_Statement :=
  ⟨@Pta.C06.roundtrip, @Pta.C06.presentation_irrelevant, @Pta.C06.order_irrelevant, @Pta.C06.decl_line_modules,
   @Pta.C06.arrow_line_dependency, @Pta.C06.body_of_text, @Pta.C06.no_tags, @Pta.C06.conflicting_alias_rejected,
   @Pta.C06.parse_error_iff⟩

end C06

/-! ## C07 -/
section C07
open PtaSpec

/-- C07 — DiagramRule passes exactly when the imports conform to the diagram.
    English statement (verbatim): "For every parsed diagram and every architecture containing its components,
    DiagramRule.assert_applies passes exactly when, for every ordered pair of distinct components (a, b), a imports b if
    the diagram draws a->b and a does not import b otherwise, and additionally (in the default should-only mode) no
    component that has outgoing arrows imports anything outside its drawn targets and itself. When it fails, the error
    aggregates the messages of all violated pairwise rules rather than stopping at the first, and with_base_module(p)
    behaves exactly like writing every component as p.name."

    Domain `diagramDomain a d` (PtaSpec/DiagramSem.lean): `a.wf`, components distinct, pairwise unrelated and present in
    the architecture, arrows between distinct components.  `conforms a d so` is the quoted condition (`so` = should-only
    mode).

    Clause map:
      (1) "For every parsed diagram and every architecture containing its components, DiagramRule.assert_applies passes
          exactly when [conforms]" — conjunct 1 (`Pta.C07.conforms_iff_of_graph`): on every `GraphOf a g`, both modes,
          `applyAll mt g (diagramRules so (parsedOf d)) = .pass ↔ conforms a d so = true`, under `diagramDomain a d`;
          conjunct 2 (`Pta.C07.fails_iff_not_conforms`): on the constructor's graph it FAILS (AssertionError, never
          another error) exactly when the imports do not conform.  From the diagram FILE (C06 ∘ C07): conjunct 7
          (`Pta.C07.diagram_file_conforms_iff`) and conjunct 8 (`Pta.C07.diagram_file_never_errs`), for every `diagramWF`
          line list rendered with any noise, with `diagramDomain a (specDiagram d)`; on SCANNED architectures: conjunct
          11 (`Pta.E2E.scan_diagram_file_conforms`).
      (2) "for every ordered pair of distinct components (a, b), a imports b if the diagram draws a->b and a does not
          import b otherwise, and additionally (in the default should-only mode) no component that has outgoing arrows
          imports anything outside its drawn targets and itself" — this is the DEFINITION of `PtaSpec.conforms`
          (PtaSpec/DiagramSem.lean); carried through it by conjunct 1.
      (3) "When it fails, the error aggregates the messages of all violated pairwise rules rather than stopping at the
          first" — conjunct 3 (`Pta.C07.aggregates_all`): if no rule errs, the items are the concatenation, in rule order,
          of the items of ALL failing rules; conjunct 4 (`Pta.C07.first_error_propagates`): a non-AssertionError
          exception of a rule propagates at once; conjunct 10 (`Pta.C07.diagram_file_report`): the report of the FILE
          check is that of the rules generated from `parsedOf (specDiagram d)` up to `sameItems` (same lines as sets, a
          "does not import" line listing its objects in any order — literal equality is not guaranteed:
          `Pta.C07.report_lists_objects_in_dict_order`).
          The aggregated message as TEXT (Props/C07Text.lean; `applyAllText` / `diagramAssertText`,
          PtaModel/DiagramText.lean, transcribe `MultipleRuleApplier.assert_applies`:
          `AssertionError("\n".join(error_messages))`) — conjunct 12 (`Pta.C07.aggregated_text_eq`): for every graph
          and every list of rule objects the outcome is the error `k` iff some rule raises `k` and no rule before it
          raises; if no rule raises: pass iff every rule passes, and `AssertionError(text)` iff some rule fails, `text`
          being the '\n'-join, in rule order, of the messages of ALL failing rules — none skipped, none added;
          conjunct 13 (`Pta.C07.aggregated_text_items`): same verdict class as the item-valued `applyAll`; the text is
          the '\n'-join of the lines `aggLines`, which are, rule by rule, the rendered report items (C03) of the failing
          rules, as a set the renderings of `applyAll`'s items, and literally `splitLines text` when no line contains a
          newline; conjunct 14 (`Pta.C07.diagram_text_is_aggregation`): `DiagramRule.assert_applies` with text: no file
          — ImproperlyConfigured, a file that does not parse — the parser's error, a component (base module prefixed)
          that is not a module of the architecture — a lookup error (repair of F-C13c, see C13), otherwise this
          aggregation over the generated rules (base module prefixed); same class as `diagramAssert`.
      (4) "with_base_module(p) behaves exactly like writing every component as p.name" — conjunct 5
          (`Pta.C07.base_module`): the rules generated after `with_base_module(q)` are the rules generated without it with
          every name `m` replaced by `q.m`, for EVERY parse result; conjunct 6 (`Pta.C07.base_module_diagram`): … which is
          the parse result of the diagram drawn with `q.name`; conjunct 9 (`Pta.C07.diagram_file_base_conforms_iff`): the
          file check with base module passes iff the imports conform to `prefixDiagram q (specDiagram d)`, never errs.
    Not carried by a theorem (correspondence check only / outside the model):
      * that `str(AssertionError)` of `MultipleRuleApplier` is `applyAllText`'s text and that `e.args[0]` of a failing
        rule is `messageText` of its lines: transcriptions, checked by the correspondence runs (the aggregation of the
        texts itself IS carried now, conjuncts 12–14; the text of each single rule is C03).
      * the text is in RULE order, not globally sorted or de-duplicated (per-rule blocks; see C15 conjuncts 15–17 for
        what that means under permuted diagram lines).
      * diagrams outside `diagramDomain` (related components, components missing from the architecture — the latter
        raise a lookup error by C13 / `Pta.C15.generated_rules_raise_lookup_only`, not stated here). -/
def C07_Statement : Prop :=
  -- 1 `Pta.C07.conforms_iff_of_graph`
  (∀ (mt : Str → Str → Bool) (a : Arch) (g : PGraph Str), GraphOf a g → ∀ (d : Diagram)
    (so : Bool), diagramDomain a d = true →
    (applyAll mt g (diagramRules so (parsedOf d)) = .pass ↔ conforms a d so = true)) ∧
  -- 2 `Pta.C07.fails_iff_not_conforms`
  (∀ (mt : Str → Str → Bool) (a : Arch) (d : Diagram) (so : Bool),
    diagramDomain a d = true →
    ((∃ items, applyAll mt (archGraph a) (diagramRules so (parsedOf d)) = .fail items) ↔ conforms a d so = false)) ∧
  -- 3 `Pta.C07.aggregates_all`
  (∀ (mt : Str → Str → Bool) (g : PGraph Str) (rs : List RuleState),
    (∀ r ∈ rs, ∀ k, (assertApplies mt r g).2 ≠ .err k) →
    (applyAll mt g rs = .pass ↔ ∀ r ∈ rs, (assertApplies mt r g).2 = .pass) ∧
    (∀ items, applyAll mt g rs = .fail items ↔
      (∃ r ∈ rs, ∃ its, (assertApplies mt r g).2 = .fail its) ∧
      items = (rs.filter fun r => (assertApplies mt r g).2.isFail).flatMap fun r => (assertApplies mt r g).2.items) ∧
    (∀ k, applyAll mt g rs ≠ .err k)) ∧
  -- 4 `Pta.C07.first_error_propagates`
  (∀ (mt : Str → Str → Bool) (g : PGraph Str) (pre post : List RuleState) (r : RuleState)
    (k : ErrKind), (∀ r' ∈ pre, ∀ k', (assertApplies mt r' g).2 ≠ .err k') →
    (assertApplies mt r g).2 = .err k →
    applyAll mt g (pre ++ r :: post) = .err k) ∧
  -- 5 `Pta.C07.base_module`
  (∀ (so : Bool) (p : Parsed') (q : Str),
    diagramRules so (prefixParsed p (some q)) = (diagramRules so p).map (prefixRule q)) ∧
  -- 6 `Pta.C07.base_module_diagram`
  (∀ (q : Name) (d : Diagram), q ≠ [] →
    (∀ c ∈ d.components, c ≠ []) → (∀ e ∈ d.arrows, e.1 ≠ [] ∧ e.2 ≠ []) →
    prefixParsed (parsedOf d) (some (render q)) = parsedOf (prefixDiagram q d)) ∧
  -- 7 `Pta.C07.diagram_file_conforms_iff`
  (∀ (mt : Str → Str → Bool) (a : Arch) (noise1 noise2 : Str)
    (d : List DLine), diagramWF d = true → isInfix "@enduml".toList noise2 = false → ∀ (so : Bool),
    diagramDomain a (specDiagram d) = true →
    (diagramAssert mt (some (diagramText noise1 d noise2)) none so (archGraph a) = .pass ↔
      conforms a (specDiagram d) so = true)) ∧
  -- 8 `Pta.C07.diagram_file_never_errs`
  (∀ (mt : Str → Str → Bool) (a : Arch) (noise1 noise2 : Str)
    (d : List DLine), diagramWF d = true → isInfix "@enduml".toList noise2 = false → ∀ (so : Bool),
    diagramDomain a (specDiagram d) = true → ∀ (k : ErrKind),
    diagramAssert mt (some (diagramText noise1 d noise2)) none so (archGraph a) ≠ .err k) ∧
  -- 9 `Pta.C07.diagram_file_base_conforms_iff`
  (∀ (mt : Str → Str → Bool) (a : Arch) (noise1 noise2 : Str)
    (d : List DLine), diagramWF d = true → isInfix "@enduml".toList noise2 = false →
    ∀ (q : Name), q ≠ [] → ∀ (so : Bool), diagramDomain a (prefixDiagram q (specDiagram d)) = true →
    (diagramAssert mt (some (diagramText noise1 d noise2)) (some (render q)) so (archGraph a) = .pass ↔
      conforms a (prefixDiagram q (specDiagram d)) so = true) ∧
    (∀ k, diagramAssert mt (some (diagramText noise1 d noise2)) (some (render q)) so (archGraph a) ≠ .err k)) ∧
  -- 10 `Pta.C07.diagram_file_report`
  (∀ (mt : Str → Str → Bool) (a : Arch) (noise1 noise2 : Str)
    (d : List DLine), diagramWF d = true → isInfix "@enduml".toList noise2 = false → ∀ (so : Bool),
    diagramDomain a (specDiagram d) = true →
    (diagramAssert mt (some (diagramText noise1 d noise2)) none so (archGraph a)).cls =
      (applyAll mt (archGraph a) (diagramRules so (parsedOf (specDiagram d)))).cls ∧
    sameItems (diagramAssert mt (some (diagramText noise1 d noise2)) none so (archGraph a)).items
      (applyAll mt (archGraph a) (diagramRules so (parsedOf (specDiagram d)))).items = true) ∧
  -- 11 `Pta.E2E.scan_diagram_file_conforms`
  (∀ (mt : Str → Str → Bool) (base root : Str) (mp : List Str) (entries : List Entry) (o : ScanOptions),
    treeWFFor (isExcluded mt o.exclusions) base mp entries = true → mpOK entries mp = true →
    compWF root = true →
    o.excludeExternal = true → o.levelLimit = none → o.externalExclusions.isEmpty = true →
    (∀ e ∈ entries, ∀ st ∈ e.stmts, stmtOK (toSStmt st) = true) →
    ∀ (is : List (Name × Name)),
    scanImports root (toSEntries (isExcluded mt o.exclusions) base entries) mp = some is →
    ∃ g, generateGraph mt base root mp entries o = .ok g ∧
      ∀ (mt' : Str → Str → Bool) (noise1 noise2 : Str) (d : List DLine), diagramWF d = true →
        isInfix "@enduml".toList noise2 = false → ∀ (so : Bool),
        diagramDomain (Pta.E2E.scanArch root (toSEntries (isExcluded mt o.exclusions) base entries) mp is) (specDiagram d) = true →
        (diagramAssert mt' (some (diagramText noise1 d noise2)) none so g = .pass ↔
          conforms (Pta.E2E.scanArch root (toSEntries (isExcluded mt o.exclusions) base entries) mp is) (specDiagram d) so = true) ∧
        (∀ k, diagramAssert mt' (some (diagramText noise1 d noise2)) none so g ≠ .err k)) ∧
  -- 12 `Pta.C07.aggregated_text_eq`
  (∀ (mt : Str → Str → Bool) (g : PGraph Str) (rs : List RuleState),
    (∀ k, applyAllText mt g rs = .err k ↔
      ∃ pre r post, rs = pre ++ r :: post ∧ (∀ r' ∈ pre, ∀ k', (assertAppliesText mt r' g).2 ≠ .err k') ∧
        (assertAppliesText mt r g).2 = .err k) ∧
    ((∀ r ∈ rs, ∀ k, (assertAppliesText mt r g).2 ≠ .err k) →
      (applyAllText mt g rs = .pass ↔ ∀ r ∈ rs, (assertAppliesText mt r g).2 = .pass) ∧
      (∀ text, applyAllText mt g rs = .fail text ↔
        (∃ r ∈ rs, ∃ lines, (assertAppliesText mt r g).2 = .fail lines) ∧
        text = joinWith ['\n'] ((rs.filter fun r => (assertAppliesText mt r g).2.isFail).map fun r =>
          messageText (assertAppliesText mt r g).2.lines)))) ∧
  -- 13 `Pta.C07.aggregated_text_items`
  (∀ (mt : Str → Str → Bool) (g : PGraph Str) (rs : List RuleState),
    (applyAllText mt g rs).cls = (applyAll mt g rs).cls ∧
    ∀ text, applyAllText mt g rs = .fail text →
      text = messageText (aggLines mt g rs) ∧ aggLines mt g rs ≠ [] ∧
      aggLines mt g rs = ((rs.filter fun r => (assertApplies mt r g).2.isFail).flatMap fun r =>
        renderItems (assertApplies mt r g).2.items) ∧
      (∀ line, line ∈ aggLines mt g rs ↔ ∃ x ∈ (applyAll mt g rs).items, renderItem x = line) ∧
      ((∀ l ∈ aggLines mt g rs, '\n' ∉ l) → splitLines text = aggLines mt g rs)) ∧
  -- 14 `Pta.C07.diagram_text_is_aggregation`
  (∀ (mt : Str → Str → Bool) (g : PGraph Str) (base : Option Str) (so : Bool),
    diagramAssertText mt none base so g = .err .improperlyConfigured ∧
    (∀ c k, pumlParse c = .error k → diagramAssertText mt (some c) base so g = .err k) ∧
    (∀ c p, pumlParse c = .ok p → diagramMissing (prefixParsed p base) g = true →
      diagramAssertText mt (some c) base so g = .err .lookupError) ∧
    (∀ c p, pumlParse c = .ok p → diagramMissing (prefixParsed p base) g = false →
      diagramAssertText mt (some c) base so g = applyAllText mt g (diagramRules so (prefixParsed p base))) ∧
    (∀ content, (diagramAssertText mt content base so g).cls = (diagramAssert mt content base so g).cls))

theorem c07 : C07_Statement :=
  ⟨@Pta.C07.conforms_iff_of_graph, @Pta.C07.fails_iff_not_conforms, @Pta.C07.aggregates_all,
   @Pta.C07.first_error_propagates, @Pta.C07.base_module, @Pta.C07.base_module_diagram,
   @Pta.C07.diagram_file_conforms_iff, @Pta.C07.diagram_file_never_errs, @Pta.C07.diagram_file_base_conforms_iff,
   @Pta.C07.diagram_file_report, @Pta.E2E.scan_diagram_file_conforms,
   @Pta.C07.aggregated_text_eq, @Pta.C07.aggregated_text_items, @Pta.C07.diagram_text_is_aggregation⟩

end C07

/-! ## C08 -/
section C08
open PtaSpec

/-- C08 — Exclusions remove exactly the matching files/directories, nothing else.
    English statement (verbatim): "A file or directory whose path matches an exclusion pattern, and everything below an
    excluded directory, contributes no module and no import; every other module and every import between two remaining
    modules is exactly as in the scan without that pattern. A glob-style pattern means: literal text matched in full, with
    a leading * allowing any prefix and a trailing * allowing any suffix, all other characters (including regex
    metacharacters) taken literally; regex_exclusions are applied as regular expressions anchored at the start of the
    path."

    Setting of conjuncts 3–8: one tree scanned under two exclusion tests with `excl0 p → excl p` (the second has more
    patterns; `Pta.C08.more_patterns_exclude_more`, conjunct 9, says adding patterns gives this).  `Survives excl0 base mp
    e`: the entry was scanned before; `Clear excl base mp e`: no path from `module_path` down to `e` (its own path and
    every directory above it) matches.

    Clause map:
      (1) "A file or directory whose path matches an exclusion pattern, and everything below an excluded directory,
          contributes no module" — conjunct 7 (`Pta.C08.excluded_contributes_no_module`, under `treeWFFor excl0`, `mpOK`,
          `compWF root`: a matching path at ANY level `k` between `module_path` and the entry removes the entry's module).
      (2) "every other module … is exactly as in the scan without that pattern" — conjunct 8
          (`Pta.C08.unexcluded_module_remains`) and the equivalences conjunct 3 (`Pta.C08.exclusion_exact_modules`,
          through entries, under `treeShape`, `mpOK`), conjunct 5 (`Pta.C08.exclusion_exact_modules_opts`, through module
          names, for option records differing only in `exclusions`).
      (3) "… and no import; … every import between two remaining modules is exactly as in the scan without that pattern"
          — conjunct 4 (`Pta.C08.exclusion_exact_files`): the parsed files (the sources of imports) are exactly the `Clear`
          ones, each with its statements; conjunct 6 (`Pta.C08.exclusion_exact_imports`): default options, `stmtOK`
          statements: the import pairs of the second graph are EXACTLY the import pairs of the first between nodes of
          the second — under the carve-out `carveOut` (Bridge/ScanExcl.lean), which is NEEDED:
          `Pta.C08.carve_out_needed` (excluding `P/n.py` turns the target of `from P import n` from `P.n` into `P`, an
          import between two remaining modules that the scan without the pattern does not have; the real library
          behaves the same way).  So the English clause holds only under the carve-out.
      (4) "A glob-style pattern means: literal text matched in full, with a leading * allowing any prefix and a trailing *
          allowing any suffix, all other characters (including regex metacharacters) taken literally" — conjunct 1
          (`Pta.C08.glob_spec`): matching the converted pattern `convertPartialMatch p` against `s` (by the model's
          interpreter `matchEmitted` of the emitted regex class: escaped literal with optional `.*` ends and `$`) always
          succeeds with `globSpec p s`; conjunct 2 (`Pta.C08.glob_meaning`): `globSpec` IS the independent meaning
          `PtaSpec.globMeaning` (PtaSpec/GlobSem.lean), for ALL patterns and subjects, `"*"`, `"**"`, `""` included.
      (5) "the scan without that pattern" EXISTS (repaired defect F-C08a, fix c0bb7ac) — the reference scan of (2), (3)
          for a single pattern is the call with `exclusions=()` and no `regex_exclusions`.  Conjunct 10
          (`Pta.C08.no_type_error`): the path entry point `getEvaluableArchitecture` never ends in the `TypeError`
          branch, whatever the options, paths and file system; conjunct 11 (`Pta.C08.no_patterns_scan`): with
          `exclusions = []` and `regexExclusions = none` the scan options carry the EMPTY regex list, which excludes no
          path.  Before the repair the pattern value handed to the file filter was `None`
          (`Pta.C08.no_patterns_before_repair`: `filePatternsBeforeRepair = none`, now `some (.regexes [])`).
    Not carried by a theorem (correspondence check only / outside the model):
      * "regex_exclusions are applied as regular expressions anchored at the start of the path": `re.match` is the
        uninterpreted parameter `mt` (`isExcluded mt (.regexes rs) s = rs.any (mt · s)`); anchoring is a property of
        Python's `re.match`, not of the model.
      * that Python's `re` interprets the emitted pattern (`re.escape` output, `.*`, `$`) as `matchEmitted` does.
      * the path STRING the patterns are matched against (`str(path)`; `pathStr base rel` in the model). -/
def C08_Statement : Prop :=
  -- 1 `Pta.C08.glob_spec`
  (∀ (p s : Str), matchEmitted (convertPartialMatch p) s = some (globSpec p s)) ∧
  -- 2 `Pta.C08.glob_meaning`
  (∀ (p s : Str), globSpec p s = true ↔ globMeaning p s) ∧
  -- 3 `Pta.C08.exclusion_exact_modules`
  (∀ (excl0 excl : Str → Bool), (∀ p, excl0 p = true → excl p = true) →
    ∀ (base root : Str) (mp : List Str) (entries : List Entry),
    treeShape entries = true → mpOK entries mp = true → ∀ (x : Str),
    x ∈ (walkFrom excl base root mp entries).allModules ↔
      ∃ e ∈ rootEntry :: entries, Survives excl0 base mp e ∧ Clear excl base mp e ∧ x = moduleName root e.rel) ∧
  -- 4 `Pta.C08.exclusion_exact_files`
  (∀ (excl0 excl : Str → Bool), (∀ p, excl0 p = true → excl p = true) →
    ∀ (base root : Str) (mp : List Str) (entries : List Entry),
    treeShape entries = true → mpOK entries mp = true → ∀ (y : Str × List ImportStmt),
    y ∈ (walkFrom excl base root mp entries).files ↔
      ∃ e ∈ entries, e.isDir = false ∧ Survives excl0 base mp e ∧ Clear excl base mp e ∧
        y = (moduleName root e.rel, e.stmts)) ∧
  -- 5 `Pta.C08.exclusion_exact_modules_opts`
  (∀ (mt : Str → Str → Bool) (base root : Str) (mp : List Str) (entries : List Entry) (o0 : ScanOptions)
    (ps : Patterns), (∀ p, isExcluded mt o0.exclusions p = true → isExcluded mt ps p = true) →
    treeWFFor (isExcluded mt o0.exclusions) base mp entries = true →
    mpOK entries mp = true → compWF root = true → ∀ (x : Str),
    x ∈ (scanParsed mt base root mp entries (o0.withExclusions ps)).allModules ↔
      x ∈ (scanParsed mt base root mp entries o0).allModules ∧
      ∀ e ∈ rootEntry :: entries, Survives (isExcluded mt o0.exclusions) base mp e → moduleName root e.rel = x →
        Clear (isExcluded mt ps) base mp e) ∧
  -- 6 `Pta.C08.exclusion_exact_imports`
  (∀ (mt : Str → Str → Bool) (base root : Str) (mp : List Str) (entries : List Entry) (o0 : ScanOptions)
    (ps : Patterns), (∀ p, isExcluded mt o0.exclusions p = true → isExcluded mt ps p = true) →
    treeWFFor (isExcluded mt o0.exclusions) base mp entries = true →
    mpOK entries mp = true → compWF root = true →
    o0.excludeExternal = true → o0.levelLimit = none → o0.externalExclusions.isEmpty = true →
    (∀ e ∈ entries, ∀ st ∈ e.stmts, stmtOK (toSStmt st) = true) →
    carveOut root (toSEntries (isExcluded mt o0.exclusions) base entries)
      (toSEntries (isExcluded mt ps) base entries) mp = true →
    ∀ (g0 : PGraph Str), generateGraph mt base root mp entries o0 = .ok g0 →
    ∃ g, generateGraph mt base root mp entries (o0.withExclusions ps) = .ok g ∧
      ∀ u v, (u, v) ∈ g.importPairs ↔ (u, v) ∈ g0.importPairs ∧ u ∈ g.nodes ∧ v ∈ g.nodes) ∧
  -- 7 `Pta.C08.excluded_contributes_no_module`
  (∀ (excl0 excl : Str → Bool), (∀ p, excl0 p = true → excl p = true) →
    ∀ (base root : Str) (mp : List Str) (entries : List Entry),
    treeWFFor excl0 base mp entries = true → mpOK entries mp = true →
    compWF root = true → ∀ (e : Entry), e ∈ rootEntry :: entries → Survives excl0 base mp e →
    ∀ (k : Nat), mp.length ≤ k → k ≤ e.rel.length → excl (pathStr base (e.rel.take k)) = true →
    moduleName root e.rel ∉ (walkFrom excl base root mp entries).allModules) ∧
  -- 8 `Pta.C08.unexcluded_module_remains`
  (∀ (excl0 excl : Str → Bool), (∀ p, excl0 p = true → excl p = true) →
    ∀ (base root : Str) (mp : List Str) (entries : List Entry),
    treeShape entries = true → mpOK entries mp = true →
    ∀ (e : Entry), e ∈ rootEntry :: entries → Survives excl0 base mp e → Clear excl base mp e →
    moduleName root e.rel ∈ (walkFrom excl base root mp entries).allModules) ∧
  -- 9 `Pta.C08.more_patterns_exclude_more`
  (∀ (mt : Str → Str → Bool) (a b c : Patterns), a.add b = some c → ∀ (s : Str),
    isExcluded mt c s = (isExcluded mt a s || isExcluded mt b s)) ∧
  -- 10 `Pta.C08.no_type_error`
  (∀ (mt : Str → Str → Bool) (fs : Str → List Entry) (rootPath modulePath : Str) (a : EntryArgs),
    getEvaluableArchitecture mt fs rootPath modulePath a ≠ .error .typeError) ∧
  -- 11 `Pta.C08.no_patterns_scan`
  (∀ (mt : Str → Str → Bool) (a : EntryArgs), a.exclusions = [] → a.regexExclusions = none →
    (a.scanOptions.map (·.exclusions)) = some (.regexes []) ∧
    ∀ s, isExcluded mt (.regexes []) s = false)

theorem c08 : C08_Statement :=
  ⟨@Pta.C08.glob_spec, @Pta.C08.glob_meaning, @Pta.C08.exclusion_exact_modules, @Pta.C08.exclusion_exact_files,
   @Pta.C08.exclusion_exact_modules_opts, @Pta.C08.exclusion_exact_imports, @Pta.C08.excluded_contributes_no_module,
   @Pta.C08.unexcluded_module_remains, @Pta.C08.more_patterns_exclude_more,
   @Pta.C08.no_type_error, @Pta.C08.no_patterns_scan⟩

end C08

/-! ## C09 -/
section C09
open PtaSpec

/-- C09 — level_limit yields the quotient graph and preserves verdicts above the limit.
    English statement (verbatim): "With level_limit=k the architecture is exactly the full architecture with every module
    name truncated to k levels below module_path: modules are the truncated names, and a imports b exactly when some
    module truncating to a imports some module truncating to b and a differs from b. Consequently every rule whose named
    modules lie at or above level k (and whose 'sub modules of' parents lie strictly above it) has the same verdict on the
    flattened and on the full architecture."

    Clause map:
      (1) "With level_limit=k the architecture is exactly the full architecture with every module name truncated …:
          modules are the truncated names, and a imports b exactly when some module truncating to a imports some module
          truncating to b and a differs from b"
          — graph constructor level: conjunct 1 (`Pta.C09.quotient`): for every well-formed `a` and every limit,
          `QuotientOf a lim (archGraphLim a lim)` (Bridge/Abs.lean: nodes = truncated names, hierarchy edge between
          a truncated name and its parent, import edge exactly as quoted); conjuncts 2, 3
          (`Pta.C09.graph_of_quotient_arch`, `Pta.C09.quotient_arch_wf`): the flattened graph is a graph of the
          well-formed quotient architecture `truncArch lim a`, so C01/C05 apply to it.
          — scan level (`generate_graph(level_limit=k)` against `level_limit=None`; NO hypothesis on tree, names,
          statements; externals may be included): conjunct 6 (`Pta.C09.scan_error_indep`): the scan fails with or
          without limit alike; conjunct 7 (`Pta.C09.scan_quotient_nodes`): nodes = flattened nodes; conjunct 8
          (`Pta.C09.scan_quotient_hier`): hierarchy edges; conjunct 9 (`Pta.C09.scan_quotient_imports`): `(a, b)` is an
          import pair of the limited graph iff `a ≠ b`, `(a, b)` is not a parent→child pair (`isHierPair`: such a pair
          stays the hierarchy edge — the collision `x.py` next to a directory `x`, `Pta.C09.CollEx.collision_facts`) and
          some import pair of the full graph flattens to it; conjunct 10 (`Pta.C09.scan_quotient_imports_clean`): the
          property text VERBATIM (no `isHierPair` clause) when no import leads from a module into its own sub tree
          (`noDownwardImports g0`).  (Before the repair of `_is_import_between_known_modules` a dangling import broke
          this: `Pta.C09.scan_quotient_imports_dangling_fixed`.)
          — on SCANNED trees: conjunct 12 (`Pta.E2E.scan_quotient_of_scanArch`): with `levelLimit = some k` (other options
          default, `treeWFFor`) the scan graph is the quotient of the specification architecture of the tree.
      (2) "truncated to k levels below module_path" — conjunct 11 (`Pta.C09.flatten_is_truncation`): the constructor's
          limit is `k + len(module_path)`, so `root.mp.rest` keeps the first `k` components of `rest`.
      (3) "Consequently every rule whose named modules lie at or above level k (and whose 'sub modules of' parents lie
          strictly above it) has the same verdict on the flattened and on the full architecture" — conjunct 4
          (`Pta.C09.verdict_preserved`) and conjunct 5 (`Pta.C09.verdict_lim_spec`: both equal the documented semantics
          on the FULL architecture), for STRICT rules (`r.strict`: subjects and objects pairwise unrelated) with
          `ruleAbove k r` (`are_named x`: at most k+1 components; `are_sub_modules_of x`: at most k); on scanned trees
          conjunct 13 (`Pta.E2E.scan_rule_verdict_limit`, bound `ruleAbove (k + |mp|)`).  Strictness is NEEDED: for
          related identifiers the verdict is not preserved (`Pta.C09.verdict_not_preserved_related`) — so "every rule"
          of the English text is false; the theorem is about strict rules.
      (4) "every rule …" for LAYER rules (Props/C09Layer.lean) — conjunct 14 (`Pta.C09.layer_verdict_preserved`): for a
          well-formed `a`, a layer rule in the domain of C05 (`layerDomain' a ls r`, `ls` = `larch` resolved on the FULL
          graph; name and regex layers) and a limit `k` such that every listed module of every layer THE RULE MENTIONS
          has at most `k + 1` components (`ruleLayersAbove k ls r`; unmentioned layers may lie deeper:
          `Pta.C09.unmentioned_deep_layers`), `LayerRule.assert_applies` has the same verdict class on
          `archGraphLim a (some k)` and on `archGraph a`; conjunct 15 (`Pta.C09.layer_verdict_lim_spec`): namely the
          documented layer semantics on the FULL architecture, never an error.  Nothing is assumed about the flattened
          graph (a regex layer may resolve there in another order: `Pta.C09.regex_resolution_order_differs`).  The
          depth condition is NEEDED: `Pta.C09.layer_verdict_not_preserved_deep` (a listed module of a mentioned layer
          below the limit is no node of the flattened graph; the rule raises).  Specification side:
          `Pta.C09.layer_spec_verdict_preserved`, `layer_domain_transfers`.  On SCANNED trees: conjunct 19
          (`Pta.C09.scan_layer_verdict_preserved`, bound `ruleLayersAbove (k + |mp|)`, layers resolved on the unlimited
          scan graph).
      (5) "every rule …" for DIAGRAM rules — conjunct 16 (`Pta.C09.diagram_verdict_preserved`) and conjunct 17
          (`Pta.C09.diagram_verdict_lim_spec`): for `diagramDomain a d` with every component of at most `k + 1`
          components (`diagramAbove k d`) the generated rules applied by `MultipleRuleApplier` have the same outcome
          class on the flattened and on the full graph: pass iff the imports of the FULL architecture conform, fail
          otherwise, never an error; conjunct 18 (`Pta.C09.diagram_file_verdict_preserved`): from the diagram FILE
          (C06 ∘ C07 ∘ C09); on SCANNED trees conjunct 20 (`Pta.C09.scan_diagram_verdict_preserved`).  Needed:
          `Pta.C09.diagram_verdict_not_preserved_deep` (limit 0: the components are no nodes; lookup error).
          Specification side: `Pta.C09.conforms_preserved`, `diagram_domain_transfers`.
    Not carried by a theorem (correspondence check only / outside the model):
      * verdict preservation for non-strict `parentFree` MODULE rules (false in general for related identifiers:
        `Pta.C09.verdict_not_preserved_related`; no theorem delimits the non-strict rules for which it holds).
      * for layer / diagram rules: only the verdict CLASS is preserved (conjuncts 14–20); the report / message on the
        flattened graph names flattened modules and is not related to the full one by a theorem; `with_base_module`
        under a limit is not stated. -/
def C09_Statement : Prop :=
  -- 1 `Pta.C09.quotient`
  (∀ (a : Arch), a.wf = true → ∀ (lim : Option Nat), QuotientOf a lim (archGraphLim a lim)) ∧
  -- 2 `Pta.C09.graph_of_quotient_arch`
  (∀ (a : Arch), a.wf = true → ∀ (lim : Option Nat), GraphOf (truncArch lim a) (archGraphLim a lim)) ∧
  -- 3 `Pta.C09.quotient_arch_wf`
  (∀ (a : Arch), a.wf = true → ∀ (lim : Option Nat), (truncArch lim a).wf = true) ∧
  -- 4 `Pta.C09.verdict_preserved`
  (∀ (mt : Str → Str → Bool) (a : Arch), a.wf = true → ∀ (k : Nat)
    (r : RuleSpec), r.strict = true → r.namesIn a = true →
    r.subjects ≠ [] → (r.anything = true ∨ r.objects ≠ []) →
    (r.anything = true → r.verb = .shouldNot) →
    ruleAbove k r = true →
    verdictOf mt (archGraphLim a (some k)) (compile r) = verdictOf mt (archGraph a) (compile r)) ∧
  -- 5 `Pta.C09.verdict_lim_spec`
  (∀ (mt : Str → Str → Bool) (a : Arch), a.wf = true → ∀ (k : Nat)
    (r : RuleSpec), r.strict = true → r.namesIn a = true →
    r.subjects ≠ [] → (r.anything = true ∨ r.objects ≠ []) →
    (r.anything = true → r.verb = .shouldNot) →
    ruleAbove k r = true →
    verdictOf mt (archGraphLim a (some k)) (compile r) = VClass.ofBool (verdict a r)) ∧
  -- 6 `Pta.C09.scan_error_indep`
  (∀ (mt : Str → Str → Bool) (base rootName : Str) (mp : List Str) (entries : List Entry)
    (o : ScanOptions) (e : ErrKind),
    generateGraph mt base rootName mp entries o = .error e ↔
      generateGraph mt base rootName mp entries o.noLimit = .error e) ∧
  -- 7 `Pta.C09.scan_quotient_nodes`
  (∀ (mt : Str → Str → Bool) (base rootName : Str) (mp : List Str) (entries : List Entry)
    (o : ScanOptions) (g g0 : PGraph Str),
    generateGraph mt base rootName mp entries o = .ok g →
    generateGraph mt base rootName mp entries o.noLimit = .ok g0 → ∀ (s : Str),
    s ∈ g.nodes ↔ ∃ n ∈ g0.nodes, s = flattenNode (shiftedLimit o mp) n) ∧
  -- 8 `Pta.C09.scan_quotient_hier`
  (∀ (mt : Str → Str → Bool) (base rootName : Str) (mp : List Str) (entries : List Entry)
    (o : ScanOptions) (g g0 : PGraph Str),
    generateGraph mt base rootName mp entries o = .ok g →
    generateGraph mt base rootName mp entries o.noLimit = .ok g0 → ∀ (a b : Str),
    (a, b) ∈ g.hierPairs ↔
      ∃ u v, (u, v) ∈ g0.hierPairs ∧ a = flattenNode (shiftedLimit o mp) u ∧ b = flattenNode (shiftedLimit o mp) v ∧ a ≠ b) ∧
  -- 9 `Pta.C09.scan_quotient_imports`
  (∀ (mt : Str → Str → Bool) (base rootName : Str) (mp : List Str) (entries : List Entry)
    (o : ScanOptions) (g g0 : PGraph Str),
    generateGraph mt base rootName mp entries o = .ok g →
    generateGraph mt base rootName mp entries o.noLimit = .ok g0 → ∀ (a b : Str),
    (a, b) ∈ g.importPairs ↔
      a ≠ b ∧ isHierPair a b = false ∧
      ∃ u v, (u, v) ∈ g0.importPairs ∧ a = flattenNode (shiftedLimit o mp) u ∧ b = flattenNode (shiftedLimit o mp) v) ∧
  -- 10 `Pta.C09.scan_quotient_imports_clean`
  (∀ (mt : Str → Str → Bool) (base rootName : Str) (mp : List Str) (entries : List Entry)
    (o : ScanOptions) (g g0 : PGraph Str),
    generateGraph mt base rootName mp entries o = .ok g →
    generateGraph mt base rootName mp entries o.noLimit = .ok g0 →
    noDownwardImports g0 = true → ∀ (a b : Str),
    (a, b) ∈ g.importPairs ↔
      a ≠ b ∧ ∃ u v, (u, v) ∈ g0.importPairs ∧ a = flattenNode (shiftedLimit o mp) u ∧ b = flattenNode (shiftedLimit o mp) v) ∧
  -- 11 `Pta.C09.flatten_is_truncation`
  (∀ (o : ScanOptions) (k : Nat), o.levelLimit = some k → ∀ (root : Comp) (mp rest : List Comp),
    nameWF (root :: mp ++ rest) = true →
    flattenNode (shiftedLimit o mp) (render (root :: mp ++ rest)) = render (root :: mp ++ rest.take k)) ∧
  -- 12 `Pta.E2E.scan_quotient_of_scanArch`
  (∀ (mt : Str → Str → Bool) (base root : Str) (mp : List Str) (entries : List Entry) (o : ScanOptions) (k : Nat),
    treeWFFor (isExcluded mt o.exclusions) base mp entries = true → mpOK entries mp = true →
    compWF root = true →
    o.excludeExternal = true → o.levelLimit = some k → o.externalExclusions.isEmpty = true →
    (∀ e ∈ entries, ∀ st ∈ e.stmts, stmtOK (toSStmt st) = true) →
    ∀ (is : List (Name × Name)),
    scanImports root (toSEntries (isExcluded mt o.exclusions) base entries) mp = some is →
    ∃ g g0, generateGraph mt base root mp entries o = .ok g ∧
      generateGraph mt base root mp entries o.noLimit = .ok g0 ∧
      shiftedLimit o mp = some (k + mp.length) ∧
      (Pta.E2E.scanArch root (toSEntries (isExcluded mt o.exclusions) base entries) mp is).wf = true ∧
      GraphOf (Pta.E2E.scanArch root (toSEntries (isExcluded mt o.exclusions) base entries) mp is) g0 ∧
      QuotientOf (Pta.E2E.scanArch root (toSEntries (isExcluded mt o.exclusions) base entries) mp is) (shiftedLimit o mp) g ∧
      (truncArch (shiftedLimit o mp) (Pta.E2E.scanArch root (toSEntries (isExcluded mt o.exclusions) base entries) mp is)).wf = true ∧
      GraphOf (truncArch (shiftedLimit o mp) (Pta.E2E.scanArch root (toSEntries (isExcluded mt o.exclusions) base entries) mp is)) g) ∧
  -- 13 `Pta.E2E.scan_rule_verdict_limit`
  (∀ (mt : Str → Str → Bool) (base root : Str) (mp : List Str) (entries : List Entry) (o : ScanOptions) (k : Nat),
    treeWFFor (isExcluded mt o.exclusions) base mp entries = true → mpOK entries mp = true →
    compWF root = true →
    o.excludeExternal = true → o.levelLimit = some k → o.externalExclusions.isEmpty = true →
    (∀ e ∈ entries, ∀ st ∈ e.stmts, stmtOK (toSStmt st) = true) →
    ∀ (is : List (Name × Name)),
    scanImports root (toSEntries (isExcluded mt o.exclusions) base entries) mp = some is →
    ∃ g g0, generateGraph mt base root mp entries o = .ok g ∧
      generateGraph mt base root mp entries o.noLimit = .ok g0 ∧
      ∀ (mt' : Str → Str → Bool) (r : RuleSpec), r.strict = true →
        r.namesIn (Pta.E2E.scanArch root (toSEntries (isExcluded mt o.exclusions) base entries) mp is) = true →
        r.subjects ≠ [] → (r.anything = true ∨ r.objects ≠ []) → (r.anything = true → r.verb = .shouldNot) →
        ruleAbove (k + mp.length) r = true →
        verdictOf mt' g (compile r) = verdictOf mt' g0 (compile r) ∧
        verdictOf mt' g (compile r) =
          VClass.ofBool (verdict (Pta.E2E.scanArch root (toSEntries (isExcluded mt o.exclusions) base entries) mp is) r)) ∧
  -- 14 `Pta.C09.layer_verdict_preserved`
  (∀ (mt : Str → Str → Bool) (a : Arch), a.wf = true → ∀ (k : Nat)
    (ls : Layers) (r : LRuleSpec), layerDomain' a ls r = true →
    (r.anything = true → r.verb = .shouldNot) → ruleLayersAbove k ls r = true →
    ∀ (larch : LArch), resolves mt (archGraph a).nodes larch ls = true →
    (assertAppliesLayer mt (compileLayerRule larch r) (archGraphLim a (some k))).cls =
      (assertAppliesLayer mt (compileLayerRule larch r) (archGraph a)).cls) ∧
  -- 15 `Pta.C09.layer_verdict_lim_spec`
  (∀ (mt : Str → Str → Bool) (a : Arch), a.wf = true → ∀ (k : Nat)
    (ls : Layers) (r : LRuleSpec), layerDomain' a ls r = true →
    (r.anything = true → r.verb = .shouldNot) → ruleLayersAbove k ls r = true →
    ∀ (larch : LArch), resolves mt (archGraph a).nodes larch ls = true →
    (assertAppliesLayer mt (compileLayerRule larch r) (archGraphLim a (some k))).cls =
      VClass.ofBool (layerVerdict a ls r)) ∧
  -- 16 `Pta.C09.diagram_verdict_preserved`
  (∀ (mt : Str → Str → Bool) (a : Arch) (k : Nat) (d : Diagram) (so : Bool),
    diagramDomain a d = true → diagramAbove k d = true →
    (applyAll mt (archGraphLim a (some k)) (diagramRules so (parsedOf d))).cls =
      (applyAll mt (archGraph a) (diagramRules so (parsedOf d))).cls) ∧
  -- 17 `Pta.C09.diagram_verdict_lim_spec`
  (∀ (mt : Str → Str → Bool) (a : Arch) (k : Nat) (d : Diagram) (so : Bool),
    diagramDomain a d = true → diagramAbove k d = true →
    (applyAll mt (archGraphLim a (some k)) (diagramRules so (parsedOf d))).cls = VClass.ofBool (conforms a d so)) ∧
  -- 18 `Pta.C09.diagram_file_verdict_preserved`
  (∀ (mt : Str → Str → Bool) (a : Arch) (k : Nat) (noise1 noise2 : Str)
    (d : List DLine), diagramWF d = true → isInfix "@enduml".toList noise2 = false → ∀ (so : Bool),
    diagramDomain a (specDiagram d) = true → diagramAbove k (specDiagram d) = true →
    (diagramAssert mt (some (diagramText noise1 d noise2)) none so (archGraphLim a (some k))).cls =
      (diagramAssert mt (some (diagramText noise1 d noise2)) none so (archGraph a)).cls ∧
    (diagramAssert mt (some (diagramText noise1 d noise2)) none so (archGraphLim a (some k))).cls =
      VClass.ofBool (conforms a (specDiagram d) so)) ∧
  -- 19 `Pta.C09.scan_layer_verdict_preserved`
  (∀ (mt : Str → Str → Bool) (base root : Str) (mp : List Str) (entries : List Entry) (o : ScanOptions) (k : Nat),
    treeWFFor (isExcluded mt o.exclusions) base mp entries = true → mpOK entries mp = true →
    compWF root = true →
    o.excludeExternal = true → o.levelLimit = some k → o.externalExclusions.isEmpty = true →
    (∀ e ∈ entries, ∀ st ∈ e.stmts, stmtOK (toSStmt st) = true) →
    ∀ (is : List (Name × Name)),
    scanImports root (toSEntries (isExcluded mt o.exclusions) base entries) mp = some is →
    ∃ g g0, generateGraph mt base root mp entries o = .ok g ∧
      generateGraph mt base root mp entries o.noLimit = .ok g0 ∧
      ∀ (mt' : Str → Str → Bool) (ls : Layers) (r : LRuleSpec) (larch : LArch),
        layerDomain' (Pta.E2E.scanArch root (toSEntries (isExcluded mt o.exclusions) base entries) mp is) ls r = true →
        (r.anything = true → r.verb = .shouldNot) →
        ruleLayersAbove (k + mp.length) ls r = true →
        resolves mt' g0.nodes larch ls = true →
        (assertAppliesLayer mt' (compileLayerRule larch r) g).cls =
          (assertAppliesLayer mt' (compileLayerRule larch r) g0).cls ∧
        (assertAppliesLayer mt' (compileLayerRule larch r) g).cls =
          VClass.ofBool (layerVerdict
            (Pta.E2E.scanArch root (toSEntries (isExcluded mt o.exclusions) base entries) mp is) ls r)) ∧
  -- 20 `Pta.C09.scan_diagram_verdict_preserved`
  (∀ (mt : Str → Str → Bool) (base root : Str) (mp : List Str) (entries : List Entry) (o : ScanOptions) (k : Nat),
    treeWFFor (isExcluded mt o.exclusions) base mp entries = true → mpOK entries mp = true →
    compWF root = true →
    o.excludeExternal = true → o.levelLimit = some k → o.externalExclusions.isEmpty = true →
    (∀ e ∈ entries, ∀ st ∈ e.stmts, stmtOK (toSStmt st) = true) →
    ∀ (is : List (Name × Name)),
    scanImports root (toSEntries (isExcluded mt o.exclusions) base entries) mp = some is →
    ∃ g g0, generateGraph mt base root mp entries o = .ok g ∧
      generateGraph mt base root mp entries o.noLimit = .ok g0 ∧
      ∀ (mt' : Str → Str → Bool) (D : Diagram) (so : Bool),
        diagramDomain (Pta.E2E.scanArch root (toSEntries (isExcluded mt o.exclusions) base entries) mp is) D = true →
        diagramAbove (k + mp.length) D = true →
        (applyAll mt' g (diagramRules so (parsedOf D))).cls = (applyAll mt' g0 (diagramRules so (parsedOf D))).cls ∧
        (applyAll mt' g (diagramRules so (parsedOf D))).cls =
          VClass.ofBool (conforms
            (Pta.E2E.scanArch root (toSEntries (isExcluded mt o.exclusions) base entries) mp is) D so))

theorem c09 : C09_Statement :=
  ⟨fun a hwf lim => Pta.C09.quotient a hwf lim, fun a hwf lim => Pta.C09.graph_of_quotient_arch a hwf lim,
   fun a hwf lim => Pta.C09.quotient_arch_wf a hwf lim, @Pta.C09.verdict_preserved, @Pta.C09.verdict_lim_spec,
   @Pta.C09.scan_error_indep, @Pta.C09.scan_quotient_nodes, @Pta.C09.scan_quotient_hier,
   @Pta.C09.scan_quotient_imports, @Pta.C09.scan_quotient_imports_clean, @Pta.C09.flatten_is_truncation,
   @Pta.E2E.scan_quotient_of_scanArch, @Pta.E2E.scan_rule_verdict_limit,
   @Pta.C09.layer_verdict_preserved, @Pta.C09.layer_verdict_lim_spec, @Pta.C09.diagram_verdict_preserved,
   @Pta.C09.diagram_verdict_lim_spec, @Pta.C09.diagram_file_verdict_preserved,
   fun mt base root mp entries o k hwf hmp hroot hxx hlim hext hst is his =>
     Pta.C09.scan_layer_verdict_preserved mt base root mp entries o k hwf hmp hroot hxx hlim hext hst is his,
   fun mt base root mp entries o k hwf hmp hroot hxx hlim hext hst is his =>
     Pta.C09.scan_diagram_verdict_preserved mt base root mp entries o k hwf hmp hroot hxx hlim hext hst is his⟩

end C09

/-! ## C10 -/
section C10

/-- C10 — External-library options affect only external modules, never internal ones.
    English statement (verbatim): "With external libraries excluded (the default) the architecture contains no module
    outside module_path and no import to one. With them included, every imported external module appears together with all
    of its ancestor packages and with the import from the importing module, except externals that match an external
    exclusion pattern or have a matching ancestor, which disappear together with their imports. In every configuration the
    internal modules and the imports among them are identical: external options and external exclusion patterns never add,
    remove or alter anything internal."

    Vocabulary (Bridge/ExtAbs.lean): `internalNodes / internalImports / internalHier pre g` (the part of `g` among nodes
    with `isInternal · pre`), `withParents m` (m and its dotted parents), `retained mt o pre i` (no external exclusion
    pattern matches the importee of `i` or one of its parents), `ScanOptions.admissible` (external exclusion patterns
    only when externals are included; the other combination is rejected by the entry point, C13).

    Clause map:
      (1) "With external libraries excluded (the default) the architecture contains no module outside module_path and no
          import to one" — conjunct 3 (`Pta.C10.externals_excluded`): the nodes are exactly the parsed modules with their
          dotted parents (flattened to the level limit) and every import edge joins two nodes and points to (the
          flattening of) an internal module.  ("no module outside module_path" is read as: parsed modules and their
          ancestor packages only — the ancestor packages of `module_path` ARE nodes, C04.)
      (2) "With them included, every imported external module appears together with all of its ancestor packages and with
          the import from the importing module, except externals that match an external exclusion pattern or have a
          matching ancestor, which disappear together with their imports" — conjunct 4 (`Pta.C10.externals_included`, no
          level limit): for a converted import `i` with external importee: retained → importee and all dotted parents
          are nodes and the edge exists (the side condition `isInfix base importee = false` of earlier versions is gone
          since the repair of F-C10e, library commit 4ee40c9: the library skipped importees whose dotted name CONTAINS
          the string `str(root_path)`; see (4)); not retained → the importee is not a node and no edge touches it,
          provided it is not itself a parsed module or a parent of one.  Conjunct 5
          (`Pta.C10.externals_included_limit`): the retained half under ANY level limit, for dot-free directory names.
          The NOT-retained half under a level limit (Props/C10Limit.lean; `L = shiftedLimit o mp`) — conjunct 6
          (`Pta.C10.nodes_included_limit`): the complete node set with externals included, for ANY limit: a node is (a
          dotted parent of) a flattened parsed module, or (a dotted parent of) the flattened importee of a RETAINED
          external import; conjunct 7 (`Pta.C10.externals_not_retained_limit`): if an external exclusion pattern hits a
          member of the importee's chain that SURVIVES the flattening (`withParents (flattenNode L importee)`), the
          flattened importee is not a node and no edge of any kind touches it — unless it is (a parent of) a flattened
          parsed module; conjunct 8 (`Pta.C10.externals_not_retained_uncut`): when the flattening does not cut the
          importee, "not retained" alone suffices — the statement of conjunct 4 verbatim; conjunct 9
          (`Pta.C10.externals_not_retained_iff`): in general (the pattern may hit BELOW the cut only) the flattened
          importee is a node exactly when it is (a parent of) the flattening of a parsed module or of a retained
          external importee, and if it is not a node no edge touches it (`Pta.C10.edges_between_nodes`).  The naive
          transfer of conjunct 4 with every name flattened is FALSE of the model:
          `Pta.C10.not_retained_limit_naive_counterexample` (`import scipy.sparse.linalg` removed by
          `scipy.sparse.linalg*`, `import scipy.sparse.csgraph` retained; with limit 1 both flatten to `scipy.sparse`,
          a node carrying the edge) — so "disappear together with their imports" holds under a limit only in the
          forms of conjuncts 7–9.
      (3) "In every configuration the internal modules and the imports among them are identical: external options and
          external exclusion patterns never add, remove or alter anything internal" — conjunct 1
          (`Pta.C10.internal_invariant_perm`): for option records agreeing on `exclusions` and `levelLimit`, successful
          scans have internal nodes / internal imports / internal hierarchy edges that are permutations of one another
          (identical as sets; list order is not specified) — for EVERY level limit, no well-formedness assumption;
          conjunct 2 (`Pta.C10.internal_invariant_errors`): and the scans fail alike, with the same error.
      (4) (the repair of F-C10e; not a clause of the English text, but the reason conjuncts 4–9 carry no hypothesis
          about the root path string `base`) `generateGraph` uses the REPAIRED `moduleList`; the code before the
          repair is kept in the model as `moduleListBeforeRepair` (PtaModel/Scan.lean).  Witness (cited, not
          conjoined): `Pta.C10.relative_root_before_repair` — root path given as the relative string `proj`,
          externals included, `proj/m.py` with `import projx, proj_ext.m, os.path`: the import records are external
          and retained, the OLD module list lacks `projx`, `proj_ext.m`, `proj_ext` (their names contain `proj`) so
          that before the repair `projx` was not a node and the edge `proj.m → projx` was missing (clause (2)
          violated); the repaired scan has both.  Conjunct 10 (`Pta.C10.moduleList_eq_before_repair_of_absolute`): for
          ABSOLUTE root paths the repair changes nothing — if the root path string contains a `/` and no importee
          does (dotted module names never do), the old and the repaired code compute the same module list; more
          generally whenever the substring test fires on no external importee
          (`Pta.C10.moduleList_eq_before_repair_of_no_infix`).
    Not carried by a theorem (correspondence check only / outside the model):
      * which imported names are "external" in Python's sense (stdlib / site-packages): in the model external = not
        `isInternal · (internalPrefix rootName mp)`.
      * that `moduleListBeforeRepair` / `moduleList` transcribe the library before / after commit 4ee40c9
        (correspondence runs on both versions).
      * under a level limit, an excluded external whose pattern hits only BELOW the cut does not disappear when a
        retained external (or a parsed module) flattens onto the same name: that is the model's (and the library's)
        behaviour (`not_retained_limit_naive_counterexample`), stated exactly by conjunct 9, not a gap of the proof.
      * the retained half under a limit (conjunct 5) for directory names containing dots. -/
def C10_Statement : Prop :=
  -- 1 `Pta.C10.internal_invariant_perm`
  (∀ (mt : Str → Str → Bool) (base rootName : Str) (mp : List Str) (entries : List Entry)
    (o o' : ScanOptions), o.exclusions = o'.exclusions → o.levelLimit = o'.levelLimit →
    ∀ (g g' : PGraph Str),
    generateGraph mt base rootName mp entries o = .ok g →
    generateGraph mt base rootName mp entries o' = .ok g' →
    (internalNodes (internalPrefix rootName mp) g).Perm (internalNodes (internalPrefix rootName mp) g') ∧
    (internalImports (internalPrefix rootName mp) g).Perm (internalImports (internalPrefix rootName mp) g') ∧
    (internalHier (internalPrefix rootName mp) g).Perm (internalHier (internalPrefix rootName mp) g')) ∧
  -- 2 `Pta.C10.internal_invariant_errors`
  (∀ (mt : Str → Str → Bool) (base rootName : Str) (mp : List Str) (entries : List Entry)
    (o o' : ScanOptions), o.exclusions = o'.exclusions → o.levelLimit = o'.levelLimit → ∀ (e : ErrKind),
    generateGraph mt base rootName mp entries o = .error e ↔ generateGraph mt base rootName mp entries o' = .error e) ∧
  -- 3 `Pta.C10.externals_excluded`
  (∀ (mt : Str → Str → Bool) (base rootName : Str) (mp : List Str) (entries : List Entry)
    (o : ScanOptions) (g : PGraph Str), o.excludeExternal = true → o.admissible = true →
    generateGraph mt base rootName mp entries o = .ok g →
    (∀ s, s ∈ g.nodes ↔ ∃ m ∈ (scanParsed mt base rootName mp entries o).allModules,
        s ∈ withParents (flattenNode (shiftedLimit o mp) m)) ∧
    (∀ a b, (a, b) ∈ g.importPairs → a ∈ g.nodes ∧ b ∈ g.nodes ∧
        ∃ y, isInternal y (internalPrefix rootName mp) = true ∧ b = flattenNode (shiftedLimit o mp) y)) ∧
  -- 4 `Pta.C10.externals_included`
  (∀ (mt : Str → Str → Bool) (base rootName : Str) (mp : List Str) (entries : List Entry)
    (o : ScanOptions) (g : PGraph Str), o.excludeExternal = false → o.levelLimit = none →
    generateGraph mt base rootName mp entries o = .ok g → ∀ (I : List ImportRec),
    convertAll (scanParsed mt base rootName mp entries o) (absolutePrefix rootName mp)
      ((scanParsed mt base rootName mp entries o).allModules.filter fun m => isInternal m (internalPrefix rootName mp)) = .ok I →
    ∀ (i : ImportRec), i ∈ I → isInternal i.importee (internalPrefix rootName mp) = false →
    (retained mt o (internalPrefix rootName mp) i = true →
      (∀ s ∈ withParents i.importee, s ∈ g.nodes) ∧
      (isInternal i.importer (internalPrefix rootName mp) = true → (i.importer, i.importee) ∈ g.importPairs)) ∧
    (retained mt o (internalPrefix rootName mp) i = false →
      (∀ m ∈ (scanParsed mt base rootName mp entries o).allModules, i.importee ∉ withParents m) →
      i.importee ∉ g.nodes ∧ ∀ x ∈ g.edges, x.src ≠ i.importee ∧ x.dst ≠ i.importee)) ∧
  -- 5 `Pta.C10.externals_included_limit`
  (∀ (mt : Str → Str → Bool) (base rootName : Str) (mp : List Str) (entries : List Entry)
    (o : ScanOptions) (g : PGraph Str), o.excludeExternal = false →
    generateGraph mt base rootName mp entries o = .ok g → ∀ (I : List ImportRec),
    convertAll (scanParsed mt base rootName mp entries o) (absolutePrefix rootName mp)
      ((scanParsed mt base rootName mp entries o).allModules.filter fun m => isInternal m (internalPrefix rootName mp)) = .ok I →
    ∀ (i : ImportRec), i ∈ I → isInternal i.importee (internalPrefix rootName mp) = false →
    retained mt o (internalPrefix rootName mp) i = true →
    '.' ∉ rootName → (∀ c ∈ mp, '.' ∉ c) →
    (∀ s ∈ withParents (flattenNode (shiftedLimit o mp) i.importee), s ∈ g.nodes) ∧
    (isInternal i.importer (internalPrefix rootName mp) = true →
      (flattenNode (shiftedLimit o mp) i.importer, flattenNode (shiftedLimit o mp) i.importee) ∈ g.importPairs)) ∧
  -- 6 `Pta.C10.nodes_included_limit`
  (∀ (mt : Str → Str → Bool) (base rootName : Str) (mp : List Str) (entries : List Entry)
    (o : ScanOptions) (g : PGraph Str), o.excludeExternal = false →
    generateGraph mt base rootName mp entries o = .ok g → ∀ (I : List ImportRec),
    convertAll (scanParsed mt base rootName mp entries o) (absolutePrefix rootName mp)
      ((scanParsed mt base rootName mp entries o).allModules.filter fun m => isInternal m (internalPrefix rootName mp)) = .ok I →
    ∀ (s : Str),
    s ∈ g.nodes ↔
      (∃ m ∈ (scanParsed mt base rootName mp entries o).allModules, s ∈ withParents (flattenNode (shiftedLimit o mp) m)) ∨
      (∃ j ∈ I, isInternal j.importee (internalPrefix rootName mp) = false ∧
        retained mt o (internalPrefix rootName mp) j = true ∧
        s ∈ withParents (flattenNode (shiftedLimit o mp) j.importee))) ∧
  -- 7 `Pta.C10.externals_not_retained_limit`
  (∀ (mt : Str → Str → Bool) (base rootName : Str) (mp : List Str) (entries : List Entry)
    (o : ScanOptions) (g : PGraph Str), o.excludeExternal = false →
    generateGraph mt base rootName mp entries o = .ok g → ∀ (I : List ImportRec),
    convertAll (scanParsed mt base rootName mp entries o) (absolutePrefix rootName mp)
      ((scanParsed mt base rootName mp entries o).allModules.filter fun m => isInternal m (internalPrefix rootName mp)) = .ok I →
    ∀ (i : ImportRec), i ∈ I → isInternal i.importee (internalPrefix rootName mp) = false →
    retained mt o (internalPrefix rootName mp) i = false →
    (∃ p ∈ withParents (flattenNode (shiftedLimit o mp) i.importee), isExcluded mt o.externalExclusions p = true) →
    (∀ m ∈ (scanParsed mt base rootName mp entries o).allModules,
      flattenNode (shiftedLimit o mp) i.importee ∉ withParents (flattenNode (shiftedLimit o mp) m)) →
    flattenNode (shiftedLimit o mp) i.importee ∉ g.nodes ∧
      ∀ x ∈ g.edges, x.src ≠ flattenNode (shiftedLimit o mp) i.importee ∧
        x.dst ≠ flattenNode (shiftedLimit o mp) i.importee) ∧
  -- 8 `Pta.C10.externals_not_retained_uncut`
  (∀ (mt : Str → Str → Bool) (base rootName : Str) (mp : List Str) (entries : List Entry)
    (o : ScanOptions) (g : PGraph Str), o.excludeExternal = false →
    generateGraph mt base rootName mp entries o = .ok g → ∀ (I : List ImportRec),
    convertAll (scanParsed mt base rootName mp entries o) (absolutePrefix rootName mp)
      ((scanParsed mt base rootName mp entries o).allModules.filter fun m => isInternal m (internalPrefix rootName mp)) = .ok I →
    ∀ (i : ImportRec), i ∈ I → isInternal i.importee (internalPrefix rootName mp) = false →
    retained mt o (internalPrefix rootName mp) i = false →
    flattenNode (shiftedLimit o mp) i.importee = i.importee →
    (∀ m ∈ (scanParsed mt base rootName mp entries o).allModules,
      i.importee ∉ withParents (flattenNode (shiftedLimit o mp) m)) →
    i.importee ∉ g.nodes ∧ ∀ x ∈ g.edges, x.src ≠ i.importee ∧ x.dst ≠ i.importee) ∧
  -- 9 `Pta.C10.externals_not_retained_iff`
  (∀ (mt : Str → Str → Bool) (base rootName : Str) (mp : List Str) (entries : List Entry)
    (o : ScanOptions) (g : PGraph Str), o.excludeExternal = false →
    generateGraph mt base rootName mp entries o = .ok g → ∀ (I : List ImportRec),
    convertAll (scanParsed mt base rootName mp entries o) (absolutePrefix rootName mp)
      ((scanParsed mt base rootName mp entries o).allModules.filter fun m => isInternal m (internalPrefix rootName mp)) = .ok I →
    ∀ (i : ImportRec), i ∈ I → isInternal i.importee (internalPrefix rootName mp) = false →
    retained mt o (internalPrefix rootName mp) i = false →
    (flattenNode (shiftedLimit o mp) i.importee ∈ g.nodes ↔
      (∃ m ∈ (scanParsed mt base rootName mp entries o).allModules,
        flattenNode (shiftedLimit o mp) i.importee ∈ withParents (flattenNode (shiftedLimit o mp) m)) ∨
      (∃ j ∈ I, isInternal j.importee (internalPrefix rootName mp) = false ∧
        retained mt o (internalPrefix rootName mp) j = true ∧
        flattenNode (shiftedLimit o mp) i.importee ∈ withParents (flattenNode (shiftedLimit o mp) j.importee))) ∧
    (flattenNode (shiftedLimit o mp) i.importee ∉ g.nodes →
      ∀ x ∈ g.edges, x.src ≠ flattenNode (shiftedLimit o mp) i.importee ∧
        x.dst ≠ flattenNode (shiftedLimit o mp) i.importee)) ∧
  -- 10 `Pta.C10.moduleList_eq_before_repair_of_absolute`
  (∀ (mt : Str → Str → Bool) (base : Str) (o : ScanOptions) (pre : Str)
    (parsedModules : List Str) (imports : List ImportRec),
    '/' ∈ base → (∀ i ∈ imports, '/' ∉ i.importee) →
    moduleListBeforeRepair mt base o pre parsedModules imports = moduleList mt base o pre parsedModules imports)

theorem c10 : C10_Statement :=
  ⟨@Pta.C10.internal_invariant_perm, @Pta.C10.internal_invariant_errors, @Pta.C10.externals_excluded,
   @Pta.C10.externals_included, @Pta.C10.externals_included_limit,
   @Pta.C10.nodes_included_limit, @Pta.C10.externals_not_retained_limit, @Pta.C10.externals_not_retained_uncut,
   @Pta.C10.externals_not_retained_iff, @Pta.C10.moduleList_eq_before_repair_of_absolute⟩

end C10

/-! ## C11 -/
section C11

/-- C11 — Regex, partial-name and batched specifications equal their expansions.
    English statement (verbatim): "A subject or object given by have_name_matching(regex) yields the same verdict as naming
    the list of all modules whose name the regex matches, and raises a no-match error (never a verdict) when nothing
    matches; the deprecated partial-name form equals its regex translation. A rule with several subjects and explicitly
    given objects has the verdict of the conjunction of the single-subject rules, and for plain should / should_not rules
    several objects likewise equal the conjunction over objects."

    All conjuncts hold on EVERY graph (no well-formedness unless stated), every regex interpretation `mt`, every rule
    shape `mkRule should shouldOnly shouldNot dir exc subjects objects`; related names allowed.

    Clause map:
      (1) "A subject or object given by have_name_matching(regex) yields the same verdict as naming the list of all modules
          whose name the regex matches" — conjunct 1 (`Pta.C11.regex_expansion_subject`) and conjunct 2
          (`Pta.C11.regex_expansion_object`): the same OUTCOME (verdict and report items), for a graph with duplicate-free
          node list (`g.nodes.Nodup`, true of every constructed graph: `Pta.C09.nodes_nodup`) and a regex matching at
          least one module; for the `anything` aliases: conjunct 3 (`Pta.C11.regex_expansion_anything_verdict`), same
          verdict class on `HierClosed` graphs (every graph `buildGraph` constructs: `Pta.C11.hierClosed_buildGraph`;
          needed: `Pta.C11.anything_dedup_needs_hierarchy_witness`).
      (2) "and raises a no-match error (never a verdict) when nothing matches" — conjunct 4 (`Pta.C11.regex_no_match`):
          never a verdict, whatever else the rule says; conjunct 5 (`Pta.C11.regex_no_match_exact`): on a complete,
          consistent, non-`anything` rule state the error is exactly the no-match error, the regex in subject OR object
          position, next to any other filters (the completeness hypotheses are needed: a configuration error comes first).
      (3) "the deprecated partial-name form equals its regex translation" — holds by DEFINITION of the model's builder step
          (`Pta.C11.partial_name`, proved by `rfl`: `have_name_containing(p)` is `have_name_matching(glob p)`), therefore
          not a conjunct; what the translation `glob` (`convertPartialMatch`) means is C08 (`Pta.C08.glob_spec`,
          `glob_meaning`).
      (4) "A rule with several subjects and explicitly given objects has the verdict of the conjunction of the
          single-subject rules" — conjunct 6 (`Pta.C11.batch_subjects`, all 12 shapes: passes iff every member passes),
          made three-valued by conjunct 8 (`Pta.C11.batch_subjects_err`: which error the batch raises — NOT "the first
          member that raises": the no-match error of any member wins over a lookup error) and conjunct 9
          (`Pta.C11.batch_subjects_fail`: fails iff no member raises and some member fails).
      (5) "for plain should / should_not rules several objects likewise equal the conjunction over objects" — conjuncts 7,
          10, 11 (`Pta.C11.batch_objects`, `batch_objects_err`, `batch_objects_fail`).
    Not carried by a theorem (correspondence check only / outside the model):
      * what a given regex matches (`re.match`): `mt` is a parameter.
      * batching of the `anything` aliases (subjects only, no explicit objects) is not a conjunction law: see C12
        (`alias_anything_verdict_api`). -/
def C11_Statement : Prop :=
  -- 1 `Pta.C11.regex_expansion_subject`
  (∀ (mt : Str → Str → Bool) (g : PGraph Str), g.nodes.Nodup →
    ∀ (s o n dir exc : Bool) (p : Str) (objs : List Filter), (∃ m ∈ g.nodes, mt p m = true) →
    (assertApplies mt (mkRule s o n dir exc [.regex p] objs) g).2 =
    (assertApplies mt (mkRule s o n dir exc ((g.nodes.filter (mt p)).map .name) objs) g).2) ∧
  -- 2 `Pta.C11.regex_expansion_object`
  (∀ (mt : Str → Str → Bool) (g : PGraph Str), g.nodes.Nodup →
    ∀ (s o n dir exc : Bool) (p : Str) (subs : List Filter), (∃ m ∈ g.nodes, mt p m = true) →
    (assertApplies mt (mkRule s o n dir exc subs [.regex p]) g).2 =
    (assertApplies mt (mkRule s o n dir exc subs ((g.nodes.filter (mt p)).map .name)) g).2) ∧
  -- 3 `Pta.C11.regex_expansion_anything_verdict`
  (∀ (mt : Str → Str → Bool) (g : PGraph Str), g.nodes.Nodup →
    HierClosed g → ∀ (dir : Bool) (p : Str), (∃ m ∈ g.nodes, mt p m = true) →
    verdictOf mt g { cfg := { subjects := some [.regex p], shouldNot := true, importDir := some dir, anything := true }, next := some false } =
    verdictOf mt g { cfg := { subjects := some ((g.nodes.filter (mt p)).map .name), shouldNot := true, importDir := some dir, anything := true }, next := some false }) ∧
  -- 4 `Pta.C11.regex_no_match`
  (∀ (mt : Str → Str → Bool) (g : PGraph Str) (s o n dir exc : Bool) (p : Str) (objs : List Filter),
    (∀ m ∈ g.nodes, mt p m = false) →
    ∃ k, (assertApplies mt (mkRule s o n dir exc [.regex p] objs) g).2 = .err k) ∧
  -- 5 `Pta.C11.regex_no_match_exact`
  (∀ (mt : Str → Str → Bool) (g : PGraph Str) (st : RuleState) (ss os : List Filter),
    st.cfg.anything = false → configMissing st.cfg = false → droppedAbsent g st.cfg = false →
    st.cfg.behavior.inconsistent = false →
    st.cfg.subjects = some ss → st.cfg.objects = some os →
    (∃ f ∈ ss ++ os, f.isRegex = true ∧ ∀ m ∈ g.nodes, mt f.id m = false) →
    (assertApplies mt st g).2 = .err .impossibleMatch) ∧
  -- 6 `Pta.C11.batch_subjects`
  (∀ (mt : Str → Str → Bool) (g : PGraph Str) (s o n dir exc : Bool) (subs objs : List Filter),
    subs ≠ [] →
    (verdictOf mt g (mkRule s o n dir exc subs objs) = .pass ↔
    ∀ x ∈ subs, verdictOf mt g (mkRule s o n dir exc [x] objs) = .pass)) ∧
  -- 7 `Pta.C11.batch_objects`
  (∀ (mt : Str → Str → Bool) (g : PGraph Str) (neg dir : Bool) (subs objs : List Filter),
    objs ≠ [] →
    (verdictOf mt g (mkRule (!neg) false neg dir false subs objs) = .pass ↔
    ∀ y ∈ objs, verdictOf mt g (mkRule (!neg) false neg dir false subs [y]) = .pass)) ∧
  -- 8 `Pta.C11.batch_subjects_err`
  (∀ (mt : Str → Str → Bool) (g : PGraph Str) (s o n dir exc : Bool) (subs objs : List Filter),
    subs ≠ [] → ∀ (k : ErrKind),
    (verdictOf mt g (mkRule s o n dir exc subs objs) = .err k ↔
      (∃ x ∈ subs, verdictOf mt g (mkRule s o n dir exc [x] objs) = .err k) ∧
      (k = .lookupError → ∀ x ∈ subs, verdictOf mt g (mkRule s o n dir exc [x] objs) ≠ .err .impossibleMatch))) ∧
  -- 9 `Pta.C11.batch_subjects_fail`
  (∀ (mt : Str → Str → Bool) (g : PGraph Str) (s o n dir exc : Bool) (subs objs : List Filter),
    subs ≠ [] →
    (verdictOf mt g (mkRule s o n dir exc subs objs) = .fail ↔
      (∀ x ∈ subs, ∀ k, verdictOf mt g (mkRule s o n dir exc [x] objs) ≠ .err k) ∧
      ∃ x ∈ subs, verdictOf mt g (mkRule s o n dir exc [x] objs) = .fail)) ∧
  -- 10 `Pta.C11.batch_objects_err`
  (∀ (mt : Str → Str → Bool) (g : PGraph Str) (neg dir : Bool) (subs objs : List Filter),
    objs ≠ [] → ∀ (k : ErrKind),
    (verdictOf mt g (mkRule (!neg) false neg dir false subs objs) = .err k ↔
      (∃ y ∈ objs, verdictOf mt g (mkRule (!neg) false neg dir false subs [y]) = .err k) ∧
      (k = .lookupError → ∀ y ∈ objs, verdictOf mt g (mkRule (!neg) false neg dir false subs [y]) ≠ .err .impossibleMatch))) ∧
  -- 11 `Pta.C11.batch_objects_fail`
  (∀ (mt : Str → Str → Bool) (g : PGraph Str) (neg dir : Bool) (subs objs : List Filter),
    objs ≠ [] →
    (verdictOf mt g (mkRule (!neg) false neg dir false subs objs) = .fail ↔
      (∀ y ∈ objs, ∀ k, verdictOf mt g (mkRule (!neg) false neg dir false subs [y]) ≠ .err k) ∧
      ∃ y ∈ objs, verdictOf mt g (mkRule (!neg) false neg dir false subs [y]) = .fail))

theorem c11 : C11_Statement :=
  ⟨@Pta.C11.regex_expansion_subject, @Pta.C11.regex_expansion_object, @Pta.C11.regex_expansion_anything_verdict,
   @Pta.C11.regex_no_match, @Pta.C11.regex_no_match_exact, @Pta.C11.batch_subjects, @Pta.C11.batch_objects,
   @Pta.C11.batch_subjects_err, @Pta.C11.batch_subjects_fail, @Pta.C11.batch_objects_err, @Pta.C11.batch_objects_fail⟩

end C11

/-! ## C12 -/
section C12
open PtaSpec

/-- C12 — Rule algebra: duality, negation, decomposition and monotonicity laws.
    English statement (verbatim): "On every architecture: 'A should (not) import B' and 'B should (not) be imported by A'
    have the same verdict; for one subject and one object, 'should' passes exactly when 'should not' fails (likewise for
    the two 'except' forms); 'should only' passes exactly when both 'should' and 'should not ... except' pass, and 'should
    only ... except' exactly when both 'should ... except' and 'should not' pass; 'should not import anything' equals 'should
    not import modules except' the subject itself. Adding an import to the architecture never turns a passing 'should' rule
    (with or without 'except') into a failing one nor a failing 'should not' rule into a passing one."

    All conjuncts are about `PtaModel.assertApplies` on EVERY graph (no well-formedness, related identifiers included)
    and every regex interpretation, unless stated.  `verdictOf` is three-valued; `VClass.both` / `VClass.neg` are the
    three-valued conjunction / negation (errors kept).

    Clause map:
      (1) "'A should (not) import B' and 'B should (not) be imported by A' have the same verdict" — conjunct 1
          (`Pta.C12.duality`): equal verdict CLASSES (pass, fail and every error alike); no hypothesis.
      (2) "for one subject and one object, 'should' passes exactly when 'should not' fails (likewise for the two 'except'
          forms)" — conjunct 2 (`Pta.C12.negation`) and conjunct 3 (`Pta.C12.negation_eq`: the whole truth table, errors
          included), both directions, plain and `except`; hypothesis: subject and object are not REGEX filters (a regex
          stands for several subjects) — needed: `Pta.C12.negation_counterexample_regex`.
      (3) "'should only' passes exactly when both 'should' and 'should not ... except' pass, and 'should only ... except'
          exactly when both 'should ... except' and 'should not' pass" — conjuncts 4, 5 (`Pta.C12.decomposition`,
          `decomposition_except`), and the full three-valued tables conjuncts 6, 7 (`Pta.C12.decomposition_eq`,
          `decomposition_except_eq`); any subject / object lists; no hypothesis.
      (4) "'should not import anything' equals 'should not import modules except' the subject itself" — conjunct 8
          (`Pta.C12.alias_anything`): the SAME outcome (verdict, report, rewritten rule object) for every subject batch
          the parent/sub-module de-duplication leaves unchanged (`dedupSubjects S = S`: a single subject, unrelated
          subjects, any batch of `sub modules of` filters); conjunct 9 (`Pta.C12.alias_anything_verdict_api`): the same
          verdict CLASS for EVERY batch one naming call of the fluent API builds (names — related, absent included —,
          `sub modules of` lists, one regex) on `HierClosed` graphs (every graph `buildGraph` constructs).  The law
          does NOT extend to value-level batches mixing named and `sub modules of` filters:
          `Pta.C12.alias_mixed_counterexample`; before the repair of F-C12a it failed for related `sub modules of`
          batches: `Pta.C12.alias_parents_regression_witness`.
      (5) "Adding an import to the architecture never turns a passing 'should' rule (with or without 'except') into a
          failing one nor a failing 'should not' rule into a passing one"
          — adding an import EDGE to a graph value: conjuncts 10, 11 (`Pta.C12.monotone_should`,
          `monotone_should_not`): for ANY pair `u v` (`addImportEdge g u v` appends the import edge `u → v` and adds no
          module; the former hypothesis `g.hasEdge u v = false` was unused and has been dropped); conjunct 12
          (`Pta.C12.monotone_err`): and the error a rule raises does not change; for a finite LIST of added import
          edges: conjuncts 18, 19, 20 (`Pta.C12.monotone_should_edges`, `monotone_should_not_edges`,
          `monotone_err_edges`; between any two graphs with the same nodes and hierarchy, the second with more
          imports: `Pta.C12.monotone_should_le`, `monotone_should_not_le`, `monotone_err_le`).
          — adding an import STATEMENT to a FILE (Props/C12Scan.lean; scan model `generateGraph`, external libraries
          excluded — the default —, ANY exclusion patterns, ANY level limit, `treeWFFor` trees, `stmtOK` statements;
          `addStmtAt entries i k st` inserts `st` at position `k` of the statement list of the `i`-th entry, i.e.
          anywhere in the file, nested blocks included): conjunct 14 (`Pta.C12.scan_add_statement_nodes`): if both
          scans succeed the graphs have the same nodes (as sets and up to a permutation) and hierarchy edges, and every
          import pair of the first is one of the second; conjunct 15 (`Pta.C12.scan_add_statement_monotone`): a
          passing `should` (plain / `except`, both directions, any subject and object filters, regexes included, any
          regex matcher) passes on the second, a failing `should_not` fails on the second, and a rule raises error `k`
          on the one iff on the other; conjunct 16 (`Pta.C12.scan_add_statement_error`): the second scan raises — always
          a lookup error — exactly when the first raises or the changed entry is a surviving `.py` file and the new
          statement reaches above the root (`aboveRoot`); success of the second scan implies success of the first
          (`Pta.C12.scan_add_statement_succeeds`); conjunct 17 (`Pta.C12.scan_more_statements_monotone`): the same for
          ANY number of statements added to any files (`MoreStmts entries entries'`).
      (6) (table provenance) conjunct 13 (`Pta.C12.generated_flags_agree`, Props/Tables.lean): the ten derived behaviour
          flags translated from behavior_requirement.py on every run equal the model's tables on all 16 flag combinations.
    Not carried by a theorem (correspondence check only / outside the model):
      * "On every architecture" is "on every graph value of the model" — a superset of the graphs the library can build.
      * file-level monotonicity with external libraries INCLUDED (`exclude_external_libraries=False`): outside
        conjuncts 14–17, and there the property is FALSE for regex subjects — an import of a library adds a MODULE,
        which a regex subject may match: `Pta.C12.ScanEx.external_modules_not_monotone` (rule "modules matching `.*s`
        should import r.c" passes, fails after `import os` is added to another file).  For name / `sub modules of`
        subjects with externals included no theorem is stated.
      * file-level monotonicity on trees outside `treeWFFor` (`x.py` next to `x/` inside the scanned part): the
        hypothesis is forced by the proof route; no counterexample to the conclusion is known (example in
        Props/C12Scan.lean).  `should only` rules are not monotone and not claimed.
      * source text → statement list (`ast.parse`, the walk is C02): the AST is a parameter of the model. -/
def C12_Statement : Prop :=
  -- 1 `Pta.C12.duality`
  (∀ (mt : Str → Str → Bool) (g : PGraph Str) (A B : List Filter) (neg : Bool),
    verdictOf mt g (mkRule (!neg) false neg true false A B) = verdictOf mt g (mkRule (!neg) false neg false false B A)) ∧
  -- 2 `Pta.C12.negation`
  (∀ (mt : Str → Str → Bool) (g : PGraph Str) (s o : Filter) (dir exc : Bool),
    s.isRegex = false → o.isRegex = false →
    (verdictOf mt g (mkRule true false false dir exc [s] [o]) = .pass ↔
    verdictOf mt g (mkRule false false true dir exc [s] [o]) = .fail)) ∧
  -- 3 `Pta.C12.negation_eq`
  (∀ (mt : Str → Str → Bool) (g : PGraph Str) (s o : Filter) (dir exc : Bool),
    s.isRegex = false → o.isRegex = false →
    verdictOf mt g (mkRule false false true dir exc [s] [o]) = VClass.neg (verdictOf mt g (mkRule true false false dir exc [s] [o]))) ∧
  -- 4 `Pta.C12.decomposition`
  (∀ (mt : Str → Str → Bool) (g : PGraph Str) (A B : List Filter) (dir : Bool),
    verdictOf mt g (mkRule false true false dir false A B) = .pass ↔
    (verdictOf mt g (mkRule true false false dir false A B) = .pass ∧
     verdictOf mt g (mkRule false false true dir true A B) = .pass)) ∧
  -- 5 `Pta.C12.decomposition_except`
  (∀ (mt : Str → Str → Bool) (g : PGraph Str) (A B : List Filter) (dir : Bool),
    verdictOf mt g (mkRule false true false dir true A B) = .pass ↔
    (verdictOf mt g (mkRule true false false dir true A B) = .pass ∧
     verdictOf mt g (mkRule false false true dir false A B) = .pass)) ∧
  -- 6 `Pta.C12.decomposition_eq`
  (∀ (mt : Str → Str → Bool) (g : PGraph Str) (A B : List Filter) (dir : Bool),
    verdictOf mt g (mkRule false true false dir false A B) =
      VClass.both (verdictOf mt g (mkRule true false false dir false A B)) (verdictOf mt g (mkRule false false true dir true A B))) ∧
  -- 7 `Pta.C12.decomposition_except_eq`
  (∀ (mt : Str → Str → Bool) (g : PGraph Str) (A B : List Filter) (dir : Bool),
    verdictOf mt g (mkRule false true false dir true A B) =
      VClass.both (verdictOf mt g (mkRule true false false dir true A B)) (verdictOf mt g (mkRule false false true dir false A B))) ∧
  -- 8 `Pta.C12.alias_anything`
  (∀ (mt : Str → Str → Bool) (g : PGraph Str) (S : List Filter) (dir : Bool),
    dedupSubjects S = S →
    assertApplies mt { cfg := { subjects := some S, shouldNot := true, importDir := some dir, anything := true }, next := some false } g
      = assertApplies mt (mkRule false false true dir true S S) g) ∧
  -- 9 `Pta.C12.alias_anything_verdict_api`
  (∀ (mt : Str → Str → Bool) (g : PGraph Str), HierClosed g → ∀ (S : List Filter) (dir : Bool),
    (namesOnly S = true ∨ S.all Filter.isParent = true ∨ (∃ p, S = [.regex p])) →
    verdictOf mt g { cfg := { subjects := some S, shouldNot := true, importDir := some dir, anything := true }, next := some false }
      = verdictOf mt g (mkRule false false true dir true S S)) ∧
  -- 10 `Pta.C12.monotone_should`
  (∀ (mt : Str → Str → Bool) (g : PGraph Str) (u v : Str) (A B : List Filter) (dir exc : Bool),
    verdictOf mt g (mkRule true false false dir exc A B) = .pass →
    verdictOf mt (addImportEdge g u v) (mkRule true false false dir exc A B) = .pass) ∧
  -- 11 `Pta.C12.monotone_should_not`
  (∀ (mt : Str → Str → Bool) (g : PGraph Str) (u v : Str) (A B : List Filter) (dir exc : Bool),
    verdictOf mt g (mkRule false false true dir exc A B) = .fail →
    verdictOf mt (addImportEdge g u v) (mkRule false false true dir exc A B) = .fail) ∧
  -- 12 `Pta.C12.monotone_err`
  (∀ (mt : Str → Str → Bool) (g : PGraph Str) (u v : Str) (A B : List Filter) (neg dir exc : Bool) (k : ErrKind),
    verdictOf mt (addImportEdge g u v) (mkRule (!neg) false neg dir exc A B) = .err k ↔
    verdictOf mt g (mkRule (!neg) false neg dir exc A B) = .err k) ∧
  -- 13 `Pta.C12.generated_flags_agree`
  (∀ s o n x : Bool, Pta.C12.generatedRow s o n x = Pta.C12.modelRow ⟨s, o, n, x⟩) ∧
  -- 14 `Pta.C12.scan_add_statement_nodes`
  (∀ (mt : Str → Str → Bool) (base root : Str) (mp : List Str) (entries : List Entry) (o : ScanOptions),
    treeWFFor (isExcluded mt o.exclusions) base mp entries = true → mpOK entries mp = true →
    compWF root = true →
    o.excludeExternal = true → o.externalExclusions.isEmpty = true →
    (∀ e ∈ entries, ∀ st ∈ e.stmts, stmtOK (toSStmt st) = true) →
    ∀ (i k : Nat) (st : ImportStmt), stmtOK (toSStmt st) = true → ∀ (g g' : PGraph Str),
    generateGraph mt base root mp entries o = .ok g →
    generateGraph mt base root mp (addStmtAt entries i k st) o = .ok g' →
    (∀ s, s ∈ g.nodes ↔ s ∈ g'.nodes) ∧ g.nodes.Perm g'.nodes ∧
    (∀ p, p ∈ g.hierPairs ↔ p ∈ g'.hierPairs) ∧ (∀ p ∈ g.importPairs, p ∈ g'.importPairs)) ∧
  -- 15 `Pta.C12.scan_add_statement_monotone`
  (∀ (mt : Str → Str → Bool) (base root : Str) (mp : List Str) (entries : List Entry) (o : ScanOptions),
    treeWFFor (isExcluded mt o.exclusions) base mp entries = true → mpOK entries mp = true →
    compWF root = true →
    o.excludeExternal = true → o.externalExclusions.isEmpty = true →
    (∀ e ∈ entries, ∀ st ∈ e.stmts, stmtOK (toSStmt st) = true) →
    ∀ (i k : Nat) (st : ImportStmt), stmtOK (toSStmt st) = true → ∀ (g g' : PGraph Str),
    generateGraph mt base root mp entries o = .ok g →
    generateGraph mt base root mp (addStmtAt entries i k st) o = .ok g' →
    ∀ (mt' : Str → Str → Bool) (A B : List Filter) (dir exc : Bool),
    (verdictOf mt' g (mkRule true false false dir exc A B) = .pass →
      verdictOf mt' g' (mkRule true false false dir exc A B) = .pass) ∧
    (verdictOf mt' g (mkRule false false true dir exc A B) = .fail →
      verdictOf mt' g' (mkRule false false true dir exc A B) = .fail) ∧
    (∀ (neg : Bool) (k : ErrKind), verdictOf mt' g' (mkRule (!neg) false neg dir exc A B) = .err k ↔
      verdictOf mt' g (mkRule (!neg) false neg dir exc A B) = .err k)) ∧
  -- 16 `Pta.C12.scan_add_statement_error`
  (∀ (mt : Str → Str → Bool) (base root : Str) (mp : List Str) (entries : List Entry) (o : ScanOptions),
    treeWFFor (isExcluded mt o.exclusions) base mp entries = true → mpOK entries mp = true →
    compWF root = true →
    o.excludeExternal = true → o.externalExclusions.isEmpty = true →
    (∀ e ∈ entries, ∀ st ∈ e.stmts, stmtOK (toSStmt st) = true) →
    ∀ (i k : Nat) (st : ImportStmt), stmtOK (toSStmt st) = true → ∀ (e : Entry), entries[i]? = some e →
    (generateGraph mt base root mp (addStmtAt entries i k st) o = .error .lookupError ↔
      generateGraph mt base root mp entries o = .error .lookupError ∨
      (e.isDir = false ∧
        survives (toSEntries (isExcluded mt o.exclusions) base entries) mp
          (toSEntry (isExcluded mt o.exclusions) base e) = true ∧
        aboveRoot (entryName root (toSEntry (isExcluded mt o.exclusions) base e)) (toSStmt st) = true)) ∧
    (∀ x, generateGraph mt base root mp (addStmtAt entries i k st) o = .error x → x = .lookupError)) ∧
  -- 17 `Pta.C12.scan_more_statements_monotone`
  (∀ (mt : Str → Str → Bool) (base root : Str) (mp : List Str) (entries entries' : List Entry) (o : ScanOptions),
    MoreStmts entries entries' →
    treeWFFor (isExcluded mt o.exclusions) base mp entries = true → mpOK entries mp = true →
    compWF root = true →
    o.excludeExternal = true → o.externalExclusions.isEmpty = true →
    (∀ e ∈ entries', ∀ st ∈ e.stmts, stmtOK (toSStmt st) = true) → ∀ (g g' : PGraph Str),
    generateGraph mt base root mp entries o = .ok g →
    generateGraph mt base root mp entries' o = .ok g' →
    ∀ (mt' : Str → Str → Bool) (A B : List Filter) (dir exc : Bool),
    (verdictOf mt' g (mkRule true false false dir exc A B) = .pass →
      verdictOf mt' g' (mkRule true false false dir exc A B) = .pass) ∧
    (verdictOf mt' g (mkRule false false true dir exc A B) = .fail →
      verdictOf mt' g' (mkRule false false true dir exc A B) = .fail) ∧
    (∀ (neg : Bool) (k : ErrKind), verdictOf mt' g' (mkRule (!neg) false neg dir exc A B) = .err k ↔
      verdictOf mt' g (mkRule (!neg) false neg dir exc A B) = .err k)) ∧
  -- 18 `Pta.C12.monotone_should_edges`
  (∀ (mt : Str → Str → Bool) (g : PGraph Str) (ps : List (Str × Str)) (A B : List Filter) (dir exc : Bool),
    verdictOf mt g (mkRule true false false dir exc A B) = .pass →
    verdictOf mt (addImportEdges g ps) (mkRule true false false dir exc A B) = .pass) ∧
  -- 19 `Pta.C12.monotone_should_not_edges`
  (∀ (mt : Str → Str → Bool) (g : PGraph Str) (ps : List (Str × Str)) (A B : List Filter) (dir exc : Bool),
    verdictOf mt g (mkRule false false true dir exc A B) = .fail →
    verdictOf mt (addImportEdges g ps) (mkRule false false true dir exc A B) = .fail) ∧
  -- 20 `Pta.C12.monotone_err_edges`
  (∀ (mt : Str → Str → Bool) (g : PGraph Str) (ps : List (Str × Str)) (A B : List Filter)
    (neg dir exc : Bool) (k : ErrKind),
    verdictOf mt (addImportEdges g ps) (mkRule (!neg) false neg dir exc A B) = .err k ↔
    verdictOf mt g (mkRule (!neg) false neg dir exc A B) = .err k)

theorem c12 : C12_Statement :=
  ⟨@Pta.C12.duality, @Pta.C12.negation, @Pta.C12.negation_eq, @Pta.C12.decomposition, @Pta.C12.decomposition_except,
   @Pta.C12.decomposition_eq, @Pta.C12.decomposition_except_eq, @Pta.C12.alias_anything,
   @Pta.C12.alias_anything_verdict_api, @Pta.C12.monotone_should, @Pta.C12.monotone_should_not,
   @Pta.C12.monotone_err, Pta.C12.generated_flags_agree,
   fun mt base root mp entries o hwf hmp hroot hxx hext hst i k st hnew g g' hg hg' =>
     Pta.C12.scan_add_statement_nodes mt base root mp entries o hwf hmp hroot hxx hext hst i k st hnew g g' hg hg',
   fun mt base root mp entries o hwf hmp hroot hxx hext hst i k st hnew g g' hg hg' mt' A B dir exc =>
     Pta.C12.scan_add_statement_monotone mt base root mp entries o hwf hmp hroot hxx hext hst i k st hnew g g' hg hg'
       mt' A B dir exc,
   fun mt base root mp entries o hwf hmp hroot hxx hext hst i k st hnew e hi =>
     Pta.C12.scan_add_statement_error mt base root mp entries o hwf hmp hroot hxx hext hst i k st hnew e hi,
   fun mt base root mp entries entries' o hms hwf hmp hroot hxx hext hst g g' hg hg' mt' A B dir exc =>
     Pta.C12.scan_more_statements_monotone mt base root mp entries entries' o hms hwf hmp hroot hxx hext hst g g' hg hg'
       mt' A B dir exc,
   @Pta.C12.monotone_should_edges, @Pta.C12.monotone_should_not_edges, @Pta.C12.monotone_err_edges⟩

end C12

/-! ## C13 -/
section C13
open PtaSpec Pta.C13M

/-- C13 — Undefined or incomplete specifications never produce a verdict.
    English statement (verbatim): "A rule that mentions a module name absent from the architecture, a regex matching
    nothing, or a layer that was never defined, and any rule, layer rule, diagram rule or architecture request that is
    incomplete or contradictory (missing subject, verb, import type or object; 'anything' with a verb other than
    should_not; should_not combined with another verb; object given before a subject; mutually exclusive exclusion
    options; external patterns while externals are excluded; module_path outside root_path; diagram without file or
    without start/end tags) raises a configuration or lookup error. It never returns normally and never raises the
    AssertionError that signals an architectural violation."

    "raises a configuration or lookup error … never returns normally and never raises AssertionError" is, in the model,
    "the outcome is `.err k`" (`VClass` / `Verdict` have exactly pass | fail | err).  Call histories (`List RuleOp`,
    `List LayerRuleOp`) are classified by the independent specification automata of PtaSpec/BuilderSpec.lean
    (`classifyRule`, `classifyLayerRule`); the theorems quantify over ALL call sequences of any length.

    Clause map:
      (1) "A rule that mentions a module name absent from the architecture" — conjunct 4 (`Pta.C13.unknown_name`):
          `matchRule … = .err .lookupError` for every regex-free rule with a verb, non-empty sides and a filter whose
          identifier is not a node, on every graph; for the `anything` aliases conjunct 6
          (`Pta.C13.anything_unknown_name`) — also when `_convert_aliases` drops that subject (repair of F-C13b,
          `Pta.C13.unknown_name_anything_rejected`); for layer rules with `any layer` conjunct 7
          (`Pta.C13.layer_anything_unknown_name`).  (Specification-level form: `Pta.C01.unknown_name_no_verdict`.)
          Absent modules BEHIND A LAYER (Props/C13More.lean; `compileLayerRule larch r`, Bridge/LayerAbs.lean: the
          LayerRule object after the complete builder chain of `r : LRuleSpec`, all 12 shapes and the two `any layer`
          forms; `mentionedLayers r`: the subject layer and, unless `any layer`, the object layers; `mentioned larch r`:
          the filters these layers list) — conjunct 21 (`Pta.C13.layer_unknown_module`): if a layer the rule MENTIONS
          lists by name an identifier that is not a node, `assert_applies` raises the lookup error, on every graph,
          for every regex engine, provided the regexes of the mentioned layers all have a match (otherwise the no-match
          error wins, conjunct 23) and the subject layer / the object layers list something (through the fluent
          chain, with the index of the raising call: `Pta.C13.layer_unknown_module_chain`; next to regexes in a module
          rule: `Pta.C13.unknown_name_with_regex`).  Conjunct 22 (`Pta.C13.layer_unmentioned_irrelevant`): layers the
          rule does NOT mention are irrelevant for the lookup error and the no-match error — two layered architectures
          that define the mentioned layers alike raise them together; in particular an absent module listed only by an
          unmentioned layer is NOT an error (`Pta.C13.layer_unmentioned_absent_no_lookup_error`; the matcher looks
          nothing up for such layers — stage description: `Pta.C13.layer_matcher_error_stages`).
          Absent modules BEHIND A DIAGRAM (`withBase base m`: the name `with_base_module` gives the component `m`;
          `Checked p m`: `m` is drawn together with another component, or is an end of an arrow) — conjunct 25
          (`Pta.C13.diagram_unknown_component`): a checked component that is, after prefixing, not a node makes the
          generated rule batch raise the lookup error, both modes, any base module, for every parse result without a
          dependor with an empty dependee list (`hne`; every parser output is one, `Pta.C13.parse_result_shape`);
          conjunct 26 (`Pta.C13.diagram_lookup_error_iff`): EXACTLY then, and the batch never raises anything else;
          conjunct 27 (`Pta.C13.diagram_single_component`): the BOUNDARY of the batch — a diagram with ONE isolated
          component generates no rule at all, the batch looks nothing up and passes on every graph whether the component
          exists or not ("exactly the checked components" of conjunct 26 is the true statement about the BATCH).  Before
          the repair of finding F-C13c this was the outcome of `DiagramRule.assert_applies`
          (`Pta.C13.diagram_single_component_before_repair`, on the model `diagramAssertBeforeRepair`; exact statement
          `Pta.C13.diagram_file_lookup_error_iff_before_repair`), so the English clause did not hold of the library for
          that diagram.  The repaired `assert_applies` (`diagramAssert`) checks, after prefixing and before the rules are
          generated, that EVERY component is a module of the architecture, else a lookup error (`KeyError`) —
          conjunct 28 (`Pta.C13.diagram_file_lookup_error_iff`): on every file that parses, `DiagramRule.assert_applies`
          raises the lookup error EXACTLY when some component (base module prefixed) is not a node of the graph — no
          `Checked`, no "at least two components", no `hne` — and it raises no other error (sufficient form
          `Pta.C13.diagram_file_unknown_component`; for every builder history supplying that file last:
          `Pta.C13.diagram_history_unknown_component`; the one isolated absent component now raises:
          `Pta.C13.diagram_single_component_repaired`).  In the domain of C07 / C09 / C14 / C15 / E2E (all components
          are nodes) the new check finds nothing (`Pta.C07.domain_nothing_missing`,
          `Pta.Repair.diagramAssert_eq_beforeRepair`).
          TOO-DEEP NAMES against level-limited architectures — conjunct 29 (`Pta.C13.too_deep_not_node`): on the graph
          built with `level_limit = k` no well-formed name with more than `k+1` components is a node; conjunct 30
          (`Pta.C13.too_deep_name`): hence a complete regex-free module rule naming (`are_named` or
          `are_sub_modules_of`) a module of the architecture below the limit raises the lookup error on the limited
          graph (with matching regexes elsewhere in the rule: `Pta.C13.too_deep_name_with_regex`); conjunct 31
          (`Pta.C13.too_deep_layer`): the same behind a mentioned layer.  (For what happens to verdicts of layer /
          diagram rules under a limit see `Pta.C09.layer_verdict_not_preserved_deep`,
          `diagram_verdict_not_preserved_deep`.)
      (2) "a regex matching nothing" — conjunct 5 (`Pta.C13.no_match_wins_over_unknown_name`): a regex without a match in
          subject or object position raises the no-match error, whatever else the rule says (even next to an absent name).
          REGEX LAYERS — conjunct 23 (`Pta.C13.layer_regex_no_match`, the 12 shapes): some mentioned layer contains a
          regex filter matching no node — `ImpossibleMatch`, never a verdict, NO hypothesis about the names (the
          no-match error wins over the lookup error of an absent module in the same or another mentioned layer);
          conjunct 24 (`Pta.C13.layer_regex_no_match_any`): the two `any layer` forms with the subject layer defined by
          `have_modules_with_names_matching(p)` (the only way the builder puts a regex into a layer).  On ARBITRARY
          layers (names and regexes mixed, not definable through the builder) `_convert_aliases` runs first:
          `Pta.C13.layer_regex_no_match_any_converted` (the regex must survive the alias conversion and no absent name
          may be dropped by it) and, the other way round, `Pta.C13.layer_any_dropped_absent_wins` (an absent module
          dropped by the alias conversion is reported first — lookup error).
      (3) "or a layer that was never defined" and "layer rule … incomplete or contradictory" — conjunct 8
          (`Pta.C13.layer_rule_history`): a LayerRule history the automaton rejects raises ImproperlyConfigured at
          exactly that call; an undefined layer raises a lookup error at the call that names it (`.lookupAt i`); a
          history without `based_on` raises; a final state the inner rule automaton classifies as must-raise never
          yields a verdict.
      (4) "any rule … that is incomplete or contradictory (missing subject, verb, import type or object; 'anything' with a
          verb other than should_not; should_not combined with another verb; object given before a subject; …)"
          — conjunct 1 (`Pta.C13.rule_history_raises`): every Rule history classified `mustRaise` (incomplete,
          contradictory, or an error at some call) ends in `.err k`; conjunct 2 (`Pta.C13.rule_history_error_at`): a
          naming call before a subject/object position raises ImproperlyConfigured at exactly that call; conjunct 3
          (`Pta.C13.rule_history_complete`): conversely a complete history is never rejected as a configuration
          problem.  Which histories ARE incomplete / contradictory is the definition of `classifyRule`.
      (5) "mutually exclusive exclusion options; external patterns while externals are excluded; module_path outside
          root_path" — conjunct 9 (`Pta.C13.options`): `entryOptionsError` is an error exactly for these combinations,
          "module_path outside root_path" being the Boolean `modulePathInsideRoot`.  That Boolean is now computed IN
          the model: conjunct 20 (`Pta.C04.path_entry_option_error`): with `modulePathInsideRoot` :=
          "`module_path.relative_to(root_path)` succeeds" (`(entryPaths rootPath modulePath).toBool`; `entryPaths` /
          `PPath.relativeTo`, PtaModel/Scan.lean: same root and the components of `root_path` a prefix of those of
          `module_path`) every combination `entryOptionsError` lists makes the path entry point
          `getEvaluableArchitecture` raise the listed error — for every file system and regex engine; through
          `Pta.C04.module_object_entry_eq_path_entry` the same holds of the module-object entry point for package
          module objects.  (With options that pass the check the entry point returns what the scan returns, graph or
          the scan's error: `Pta.C04.path_entry_eq_generateGraph`.)
          PATH CONTAINMENT spelled out (Props/C13More.lean) — conjunct 32 (`Pta.C13.module_path_outside_root`): the
          option checks pass (`entryOptionsError (a.flags true) = none`) and `module_path.relative_to(root_path)`
          raises (`PPath.relativeTo … = .error .lookupError`; by `Pta.C13.relative_to_error_iff` exactly when the roots
          differ or the components of `root_path` are not a prefix of those of `module_path`) — the path entry point
          raises that error (`ValueError`, kind `lookupError`) for every file system; conjunct 33
          (`Pta.C13.options_before_paths`): ORDER of the checks — a contradictory option set is ImproperlyConfigured
          whatever the two paths are, in particular it wins over the path error; conjunct 34
          (`Pta.C13.module_objects_outside_root`): the same through the module-object entry point, the two paths being
          the `dirname`s of the two `__file__`s (in terms of the two directories:
          `Pta.C13.module_objects_outside_root_dirs`; order of the checks there:
          `Pta.C13.module_objects_options_before_paths`).
      (6) "diagram without file or without start/end tags" — conjunct 10 (`Pta.C13.diagram_without_file`, holds by
          evaluation of `diagramAssert … none …`) and conjunct 11 (`Pta.C13.diagram_without_tags`; the parser-level
          statement is `Pta.C06.no_tags`).
          "diagram rule … that is incomplete" as a BUILDER HISTORY — `DiagramRule(should_only_rule)` followed by ANY
          sequence of `from_file` / `with_base_module` / `base_module_included_in_module_names` calls
          (`List DiagramRuleOp`, `runDiagramOps`, PtaModel/Puml.lean) and `assert_applies`, classified by the
          specification classifier `classifyDiagram` (PtaSpec/BuilderSpec.lean: was a file ever supplied; which file /
          base module were supplied LAST — `Pta.C13.diagram_last_file`, `diagram_last_base`): conjunct 13
          (`Pta.C13.diagram_history_raises`): a history that never calls `from_file` raises ImproperlyConfigured, for
          every graph, regex engine and mode — never a verdict; conjunct 14 (`Pta.C13.diagram_incomplete_iff`): these
          are exactly the histories the classifier calls incomplete (through the classifier: conjunct 19,
          `Pta.C13.diagram_history_incomplete`); conjunct 15 (`Pta.C13.diagram_history_complete`):
          every other history IS the one-shot check `diagramAssert` on the last file with the last base module
          (`with_base_module` before `from_file` included; `base_module_included_in_module_names` undoes nothing), so
          conjuncts 10, 11 and C07 apply; conjunct 16 (`Pta.C13.diagram_history_no_tags`): last file without tags —
          parsing error; conjuncts 17, 18 (`Pta.C13.diagram_history_conforms_iff`,
          `diagram_history_base_conforms_iff`): conversely a complete history over a diagram of the documented subset
          in the domain of C07 never raises and passes exactly when the imports conform.
      (7) (guard provenance) conjunct 12 (`Pta.C13.generated_config_agree`, Props/Tables.lean): the configuration guards
          translated from pytestarch.py / rule.py on every run equal the model's guards on all argument combinations.
    Not carried by a theorem (correspondence check only / outside the model):
      * the Python exception CLASSES (ImproperlyConfigured, KeyError / NetworkXError for lookups, ImpossibleMatch,
        PumlParsingError, ValueError from `Path.relative_to`): `ErrKind` is a naming convention of the harness.
      * absent modules: the cases in which the library gives a VERDICT although an absent name was written down are
        part of the theorems, not gaps — a module listed only by a layer the rule does not mention (conjunct 22), one
        isolated diagram component (conjunct 27) — and one observation outside the builder's typed API (an `example`
        of Props/C13More.lean): the alias conversion compares identifiers of REGEX filters like module names, so of
        the two patterns `p`, `p.zz` passed as a list to `have_name_matching` the second is dropped and never
        converted; that it matches nothing goes unnoticed.  Too-deep names behind a DIAGRAM on a level-limited
        graph are instances of conjuncts 25–28 with `too_deep_not_node` (conjunct 29); no separate theorem.
      * too-deep names on level-limited graphs of a SCAN: conjuncts 29–31 are about `archGraphLim a (some k)`; the link
        to scanned trees is C09 (`Pta.C09`, level limit at scan level), not composed here.
      * of path containment: that `pathlib.Path.relative_to` behaves as the transcription `PPath.relativeTo` (pure
        POSIX path arithmetic on the two strings: no `resolve()`, `..` kept, no symlinks, no Windows paths) — the
        containment test itself and the order of the entry-point checks are in the model (conjuncts 20, 32–34).
      * DiagramRule histories: a `DiagramRule` object re-used for a second `assert_applies`, and `from_file` on a path
        that cannot be read (the file CONTENT is the argument of `fromFile` in the model). -/
def C13_Statement : Prop :=
  -- 1 `Pta.C13.rule_history_raises`
  (∀ (glob : Str → Str) (mt : Str → Str → Bool) (ops : List RuleOp) (g : PGraph Str),
    (classifyRule (ops.map toRCall)).mustRaise = true → ∃ k, (runRuleOps glob mt ops g).1 = .err k) ∧
  -- 2 `Pta.C13.rule_history_error_at`
  (∀ (glob : Str → Str) (mt : Str → Str → Bool) (ops : List RuleOp) (g : PGraph Str) (i : Nat),
    classifyRule (ops.map toRCall) = .errorAtCall i → runRuleOps glob mt ops g = (.err .improperlyConfigured, i)) ∧
  -- 3 `Pta.C13.rule_history_complete`
  (∀ (glob : Str → Str) (mt : Str → Str → Bool) (ops : List RuleOp) (g : PGraph Str),
    classifyRule (ops.map toRCall) = .complete →
    (runRuleOps glob mt ops g).1 ≠ .err .improperlyConfigured ∧ (runRuleOps glob mt ops g).1 ≠ .err .ruleInconsistency) ∧
  -- 4 `Pta.C13.unknown_name`
  (∀ (mt : Str → Str → Bool) (g : PGraph Str) (b : Behavior) (dir : Bool) (subs objs : List Filter),
    (b.should = true ∨ b.shouldOnly = true ∨ b.shouldNot = true) →
    subs ≠ [] → objs ≠ [] →
    (∀ f ∈ subs ++ objs, f.isRegex = false) →
    (∃ f ∈ subs ++ objs, g.hasNode f.id = false) →
    matchRule mt g b dir subs objs = .err .lookupError) ∧
  -- 5 `Pta.C13.no_match_wins_over_unknown_name`
  (∀ (mt : Str → Str → Bool) (g : PGraph Str) (b : Behavior) (dir : Bool)
    (subs objs : List Filter),
    (∃ f ∈ subs ++ objs, f.isRegex = true ∧ ∀ m ∈ g.nodes, mt f.id m = false) →
    matchRule mt g b dir subs objs = .err .impossibleMatch) ∧
  -- 6 `Pta.C13.anything_unknown_name`
  (∀ (mt : Str → Str → Bool) (g : PGraph Str) (dir : Bool) (S : List Filter),
    (∀ f ∈ S, f.isRegex = false) →
    (∃ f ∈ S, g.hasNode f.id = false) →
    (assertApplies mt { cfg := { subjects := some S, shouldNot := true, importDir := some dir, anything := true },
                        next := some false } g).2 = .err .lookupError) ∧
  -- 7 `Pta.C13.layer_anything_unknown_name`
  (∀ (mt : Str → Str → Bool) (g : PGraph Str) (a : LArch) (dir : Bool) (S : List Filter),
    (∀ f ∈ S, f.isRegex = false) →
    (∃ f ∈ S, g.hasNode f.id = false) →
    assertAppliesLayer mt ⟨some a, some { cfg := { subjects := some S, shouldNot := true, importDir := some dir,
                                                    anything := true }, next := some false }⟩ g = .err .lookupError) ∧
  -- 8 `Pta.C13.layer_rule_history`
  (∀ (mt : Str → Str → Bool) (a : LArch) (ops : List LayerRuleOp) (g : PGraph Str),
    (∀ op ∈ ops, ∀ a', op = LayerRuleOp.basedOn a' → a' = a) →
    match classifyLayerRule (ops.map (toLRCall a)) with
    | .rejectedAt i => runLayerRuleOps mt ops g = (.err .improperlyConfigured, i)
    | .lookupAt i => runLayerRuleOps mt ops g = (.err .lookupError, i)
    | .notStarted => (runLayerRuleOps mt ops g).1 = .err .improperlyConfigured
    | .final c => c.mustRaise = true → ∃ k, (runLayerRuleOps mt ops g).1 = .err k) ∧
  -- 9 `Pta.C13.options`
  (∀ (o : EntryOptions),
    ((o.regexExclusions && o.exclusions) || (o.regexExternalExclusions && o.externalExclusions) ||
     (o.excludeExternal && (o.externalExclusions || o.regexExternalExclusions)) || !o.modulePathInsideRoot) = true ↔
    (entryOptionsError o).isSome = true) ∧
  -- 10 `Pta.C13.diagram_without_file`
  (∀ (mt : Str → Str → Bool) (base : Option Str) (only : Bool) (g : PGraph Str),
    ∃ k, diagramAssert mt none base only g = .err k) ∧
  -- 11 `Pta.C13.diagram_without_tags`
  (∀ (mt : Str → Str → Bool) (content : Str) (base : Option Str) (only : Bool) (g : PGraph Str),
    pumlBody (pyStrip content) = .error .pumlParsingError →
    ∃ k, diagramAssert mt (some content) base only g = .err k) ∧
  -- 12 `Pta.C13.generated_config_agree`
  ((∀ ex rex eex reex xx : Bool,
      Generated.entryImproper ex rex eex reex xx =
        (entryOptionsError ⟨ex, rex, eex, reex, xx, true⟩ == some ErrKind.improperlyConfigured)) ∧
    (∀ a n : Bool, Generated.anythingMisused a n = anythingMisused { anything := a, shouldNot := n }) ∧
    (∀ s o n : Bool, ∀ d ∈ [none, some true, some false], ∀ ss ∈ Pta.C13.listShapes, ∀ os ∈ Pta.C13.listShapes,
      Generated.configMissing s o n d.isNone
          (match ss with | none => true | some l => l.isEmpty) (match os with | none => true | some l => l.isEmpty) =
        configMissing { should := s, shouldOnly := o, shouldNot := n, importDir := d, subjects := ss, objects := os })) ∧
  -- 13 `Pta.C13.diagram_history_raises`
  (∀ (only : Bool) (ops : List DiagramRuleOp) (mt : Str → Str → Bool) (g : PGraph Str),
    (∀ c, DiagramRuleOp.fromFile c ∉ ops) → runDiagramOps only ops mt g = .err .improperlyConfigured) ∧
  -- 14 `Pta.C13.diagram_incomplete_iff`
  (∀ (ops : List DiagramRuleOp),
    classifyDiagram (ops.map toDCall) = .incomplete ↔ ∀ c, DiagramRuleOp.fromFile c ∉ ops) ∧
  -- 15 `Pta.C13.diagram_history_complete`
  (∀ (only : Bool) (ops : List DiagramRuleOp) (mt : Str → Str → Bool) (g : PGraph Str)
    (f : Str) (b : Option Str), classifyDiagram (ops.map toDCall) = .complete f b →
    runDiagramOps only ops mt g = diagramAssert mt (some f) b only g) ∧
  -- 16 `Pta.C13.diagram_history_no_tags`
  (∀ (only : Bool) (ops : List DiagramRuleOp) (mt : Str → Str → Bool) (g : PGraph Str)
    (f : Str) (b : Option Str), classifyDiagram (ops.map toDCall) = .complete f b →
    pumlBody (pyStrip f) = .error .pumlParsingError →
    runDiagramOps only ops mt g = .err .pumlParsingError) ∧
  -- 17 `Pta.C13.diagram_history_conforms_iff`
  (∀ (only : Bool) (ops : List DiagramRuleOp) (mt : Str → Str → Bool) (a : Arch)
    (noise1 noise2 : Str) (d : List DLine), diagramWF d = true → isInfix "@enduml".toList noise2 = false →
    classifyDiagram (ops.map toDCall) = .complete (diagramText noise1 d noise2) none →
    diagramDomain a (specDiagram d) = true →
    (runDiagramOps only ops mt (archGraph a) = .pass ↔ conforms a (specDiagram d) only = true) ∧
    (∀ k, runDiagramOps only ops mt (archGraph a) ≠ .err k)) ∧
  -- 18 `Pta.C13.diagram_history_base_conforms_iff`
  (∀ (only : Bool) (ops : List DiagramRuleOp) (mt : Str → Str → Bool) (a : Arch)
    (noise1 noise2 : Str) (d : List DLine), diagramWF d = true → isInfix "@enduml".toList noise2 = false →
    ∀ (q : Name), q ≠ [] →
    classifyDiagram (ops.map toDCall) = .complete (diagramText noise1 d noise2) (some (render q)) →
    diagramDomain a (prefixDiagram q (specDiagram d)) = true →
    (runDiagramOps only ops mt (archGraph a) = .pass ↔ conforms a (prefixDiagram q (specDiagram d)) only = true) ∧
    (∀ k, runDiagramOps only ops mt (archGraph a) ≠ .err k)) ∧
  -- 19 `Pta.C13.diagram_history_incomplete`
  (∀ (only : Bool) (ops : List DiagramRuleOp) (mt : Str → Str → Bool) (g : PGraph Str),
    classifyDiagram (ops.map toDCall) = .incomplete → runDiagramOps only ops mt g = .err .improperlyConfigured) ∧
  -- 20 `Pta.C04.path_entry_option_error`
  (∀ (mt : Str → Str → Bool) (fs : Str → List Entry) (rootPath modulePath : Str) (a : EntryArgs) (k : ErrKind),
    entryOptionsError (a.flags (entryPaths rootPath modulePath).toBool) = some k →
    getEvaluableArchitecture mt fs rootPath modulePath a = .error (.kind k)) ∧
  -- 21 `Pta.C13.layer_unknown_module`
  (∀ (mt : Str → Str → Bool) (g : PGraph Str) (larch : LArch) (r : LRuleSpec),
    (r.anything = true → r.verb = .shouldNot) →
    larch.getD r.subject ≠ [] → (r.anything = true ∨ r.objects.flatMap larch.getD ≠ []) →
    (∀ f ∈ mentioned larch r, f.isRegex = true → ∃ m ∈ g.nodes, mt f.id m = true) →
    ∀ (L : Str), L ∈ mentionedLayers r → ∀ (f : Filter), f ∈ larch.getD L →
    f.isRegex = false → g.hasNode f.id = false →
    assertAppliesLayer mt (compileLayerRule larch r) g = .err .lookupError) ∧
  -- 22 `Pta.C13.layer_unmentioned_irrelevant`
  (∀ (mt : Str → Str → Bool) (g : PGraph Str) (larch larch' : LArch) (r : LRuleSpec),
    (r.anything = true → r.verb = .shouldNot) →
    larch.getD r.subject ≠ [] → (r.anything = true ∨ r.objects.flatMap larch.getD ≠ []) →
    (∀ L ∈ mentionedLayers r, larch'.getD L = larch.getD L) →
    (assertAppliesLayer mt (compileLayerRule larch r) g = .err .lookupError ↔
      assertAppliesLayer mt (compileLayerRule larch' r) g = .err .lookupError) ∧
    (assertAppliesLayer mt (compileLayerRule larch r) g = .err .impossibleMatch ↔
      assertAppliesLayer mt (compileLayerRule larch' r) g = .err .impossibleMatch)) ∧
  -- 23 `Pta.C13.layer_regex_no_match`
  (∀ (mt : Str → Str → Bool) (g : PGraph Str) (larch : LArch) (r : LRuleSpec),
    r.anything = false →
    larch.getD r.subject ≠ [] → r.objects.flatMap larch.getD ≠ [] →
    ∀ (L : Str), L ∈ mentionedLayers r → ∀ (f : Filter), f ∈ larch.getD L →
    f.isRegex = true → (∀ m ∈ g.nodes, mt f.id m = false) →
    assertAppliesLayer mt (compileLayerRule larch r) g = .err .impossibleMatch) ∧
  -- 24 `Pta.C13.layer_regex_no_match_any`
  (∀ (mt : Str → Str → Bool) (g : PGraph Str) (larch : LArch) (r : LRuleSpec),
    r.anything = true → r.verb = .shouldNot → ∀ (p : Str), larch.getD r.subject = [.regex p] →
    (∀ m ∈ g.nodes, mt p m = false) →
    assertAppliesLayer mt (compileLayerRule larch r) g = .err .impossibleMatch) ∧
  -- 25 `Pta.C13.diagram_unknown_component`
  (∀ (mt : Str → Str → Bool) (g : PGraph Str) (so : Bool) (p : Parsed') (base : Option Str),
    (∀ kv ∈ p.dependencies, kv.2 ≠ []) → ∀ (m : Str),
    ((m ∈ p.modules ∧ ∃ x ∈ p.modules, x ≠ m) ∨ ∃ kv ∈ p.dependencies, m = kv.1 ∨ m ∈ kv.2) →
    g.hasNode (withBase base m) = false →
    applyAll mt g (diagramRules so (prefixParsed p base)) = .err .lookupError) ∧
  -- 26 `Pta.C13.diagram_lookup_error_iff`
  (∀ (mt : Str → Str → Bool) (g : PGraph Str) (so : Bool) (p : Parsed') (base : Option Str),
    (∀ kv ∈ p.dependencies, kv.2 ≠ []) →
    (applyAll mt g (diagramRules so (prefixParsed p base)) = .err .lookupError ↔
      ∃ m, Checked p m ∧ g.hasNode (withBase base m) = false) ∧
    (∀ k, applyAll mt g (diagramRules so (prefixParsed p base)) = .err k → k = .lookupError)) ∧
  -- 27 `Pta.C13.diagram_single_component`
  (∀ (mt : Str → Str → Bool) (g : PGraph Str) (so : Bool) (m : Str) (base : Option Str),
    diagramRules so (prefixParsed ⟨[m], []⟩ base) = [] ∧
    applyAll mt g (diagramRules so (prefixParsed ⟨[m], []⟩ base)) = .pass) ∧
  -- 28 `Pta.C13.diagram_file_lookup_error_iff`
  (∀ (mt : Str → Str → Bool) (g : PGraph Str) (so : Bool) (c : Str) (base : Option Str)
    (p : Parsed'), pumlParse c = .ok p →
    (diagramAssert mt (some c) base so g = .err .lookupError ↔ ∃ m ∈ p.modules, g.hasNode (withBase base m) = false) ∧
    (∀ k, diagramAssert mt (some c) base so g = .err k → k = .lookupError)) ∧
  -- 29 `Pta.C13.too_deep_not_node`
  (∀ (a : Arch), a.wf = true → ∀ (k : Nat) (n : Name), nameWF n = true →
    k + 1 < n.length → (archGraphLim a (some k)).hasNode (render n) = false) ∧
  -- 30 `Pta.C13.too_deep_name`
  (∀ (mt : Str → Str → Bool) (a : Arch), a.wf = true → ∀ (k : Nat) (b : Behavior) (dir : Bool)
    (subs objs : List Filter),
    (b.should = true ∨ b.shouldOnly = true ∨ b.shouldNot = true) →
    subs ≠ [] → objs ≠ [] →
    (∀ f ∈ subs ++ objs, f.isRegex = false) →
    ∀ (n : Name), n ∈ a.nodes → k + 1 < n.length →
    ∀ (f : Filter), f ∈ subs ++ objs → f.id = render n →
    matchRule mt (archGraphLim a (some k)) b dir subs objs = .err .lookupError) ∧
  -- 31 `Pta.C13.too_deep_layer`
  (∀ (mt : Str → Str → Bool) (a : Arch), a.wf = true → ∀ (k : Nat) (larch : LArch) (r : LRuleSpec),
    (r.anything = true → r.verb = .shouldNot) →
    larch.getD r.subject ≠ [] → (r.anything = true ∨ r.objects.flatMap larch.getD ≠ []) →
    (∀ f ∈ mentioned larch r, f.isRegex = true → ∃ m ∈ (archGraphLim a (some k)).nodes, mt f.id m = true) →
    ∀ (L : Str), L ∈ mentionedLayers r → ∀ (f : Filter), f ∈ larch.getD L → f.isRegex = false →
    ∀ (n : Name), n ∈ a.nodes → k + 1 < n.length → f.id = render n →
    assertAppliesLayer mt (compileLayerRule larch r) (archGraphLim a (some k)) = .err .lookupError) ∧
  -- 32 `Pta.C13.module_path_outside_root`
  (∀ (mt : Str → Str → Bool) (fs : Str → List Entry) (rootPath modulePath : Str) (a : EntryArgs),
    entryOptionsError (a.flags true) = none →
    (parsePath modulePath).relativeTo (parsePath rootPath) = .error .lookupError →
    getEvaluableArchitecture mt fs rootPath modulePath a = .error (.kind .lookupError)) ∧
  -- 33 `Pta.C13.options_before_paths`
  (∀ (mt : Str → Str → Bool) (fs : Str → List Entry) (rootPath modulePath : Str) (a : EntryArgs)
    (k : ErrKind), entryOptionsError (a.flags true) = some k →
    k = .improperlyConfigured ∧
    getEvaluableArchitecture mt fs rootPath modulePath a = .error (.kind .improperlyConfigured)) ∧
  -- 34 `Pta.C13.module_objects_outside_root`
  (∀ (mt : Str → Str → Bool) (fs : Str → List Entry) (rootModule module : ModuleObj)
    (a : EntryArgs), entryOptionsError (a.flags true) = none →
    (parsePath (dirname module.file)).relativeTo (parsePath (dirname rootModule.file)) = .error .lookupError →
    scanForModuleObjects mt fs rootModule module a = .error (.kind .lookupError))

theorem c13 : C13_Statement :=
  ⟨@Pta.C13.rule_history_raises, @Pta.C13.rule_history_error_at, @Pta.C13.rule_history_complete,
   @Pta.C13.unknown_name, @Pta.C13.no_match_wins_over_unknown_name, @Pta.C13.anything_unknown_name,
   @Pta.C13.layer_anything_unknown_name, @Pta.C13.layer_rule_history, @Pta.C13.options,
   @Pta.C13.diagram_without_file, @Pta.C13.diagram_without_tags, Pta.C13.generated_config_agree,
   @Pta.C13.diagram_history_raises, @Pta.C13.diagram_incomplete_iff, @Pta.C13.diagram_history_complete,
   @Pta.C13.diagram_history_no_tags, @Pta.C13.diagram_history_conforms_iff,
   @Pta.C13.diagram_history_base_conforms_iff, @Pta.C13.diagram_history_incomplete,
   @Pta.C04.path_entry_option_error,
   @Pta.C13.layer_unknown_module, @Pta.C13.layer_unmentioned_irrelevant, @Pta.C13.layer_regex_no_match,
   @Pta.C13.layer_regex_no_match_any, @Pta.C13.diagram_unknown_component, @Pta.C13.diagram_lookup_error_iff,
   @Pta.C13.diagram_single_component, @Pta.C13.diagram_file_lookup_error_iff, @Pta.C13.too_deep_not_node,
   @Pta.C13.too_deep_name, @Pta.C13.too_deep_layer, @Pta.C13.module_path_outside_root,
   @Pta.C13.options_before_paths, @Pta.C13.module_objects_outside_root⟩

end C13

/-! ## C14 -/
section C14
open PtaSpec

/-- C14 — Module identity follows dotted-name boundaries, never raw string prefixes.
    English statement (verbatim): "Whether one module is a sub module of, belongs to the layer of, shares the alias of, or
    is internal like another is decided by whole dotted components only: a module 'pkg.ab' is never treated as part of
    'pkg.a'. Consequently every verdict, violation message, layer attribution and plot label is invariant, up to the
    renaming itself, under any injective renaming of path components, including renamings that make one sibling's name a
    string prefix or substring of another's."

    `ρ : Comp → Comp` with `GoodRen ρ` (injective, preserves `compWF`: non-empty, dot-free components) is the renaming;
    `renName`, `renArch`, `renRule`, `renLayers`, `renDiagram`, `renAliases` apply it component-wise; `renDotted ρ` /
    `renStr ρ` are its action on dotted strings.  An adversarial instance (`x ↦ a`, `y ↦ ab`) is `Pta.C14.advRen_good`.

    Clause map:
      (1) "Whether one module is a sub module of, … shares the alias of, or is internal like another is decided by whole
          dotted components only: a module 'pkg.ab' is never treated as part of 'pkg.a'" — conjunct 1
          (`Pta.C14.raw_test_is_prefix`): the raw-string tests the (repaired) code performs on rendered well-formed names
          — `isModuleOrSub`, `isStrictSub`, `isInternal` — equal the component-prefix relations `desc` / `sdesc`
          (what a raw `startswith` would get wrong: `Pta.C14.raw_prefix_counterexample`); conjunct 2
          (`Pta.C14.desc_ren`): those relations are invariant under `ρ`; conjunct 12 (`Pta.C14.isInternal_ren`).
          "belongs to the layer of" — conjunct 7 (`Pta.C14.layerOf_ren`): the layer lookup on rendered names is invariant.
      (2) "Consequently every verdict, violation message … is invariant, up to the renaming itself" (module rules)
          — specification side: conjuncts 3, 4 (`Pta.C14.verdict_ren`, `violating_ren`; all rules);
          — the CODE MODEL: conjunct 5 (`Pta.C14.model_verdict_ren_all`): same verdict class (which error included) for
          EVERY rule with well-formed identifiers (`ruleWF r`; related names, batches, `anything`, absent names) on every
          well-formed architecture; conjunct 6 (`Pta.C14.model_report_ren`): the whole outcome is the original one with
          every module name in every report line renamed (same lines, same order).
          — the message TEXT (Props/C14Text.lean): conjunct 13 (`Pta.C14.text_ren_items`): the outcome WITH text on the
          renamed inputs is the rendering of the renamed report items (pass stays pass, an error stays the same
          error), no hypothesis about `"`; conjunct 14 (`Pta.C14.text_ren`): if moreover no path component contains
          `"` before or after the renaming (`archNoQuote a`, `ruleNoQuote r`, `QuoteFree ρ`; Python module names never
          do), the lines of the renamed message are, as a multiset (`List.Perm`), the renamed lines of the original
          message (`renLine ρ`, Bridge/RenameText.lean: parse the line, rename the names, render again), and literally
          those lines sorted again (`sortStr`).  Literal equality of the line LISTS is false, because sorting does not
          commute with renaming: `Pta.C14.text_ren_order_changes` (line order), `text_ren_object_order_changes` (order
          of the objects inside a `does not import` line).
      (3) "layer attribution" (layer rules) — conjunct 8 (`Pta.C14.layer_report_ren`): the outcome of a layer rule on the
          renamed architecture with the renamed layers (`layersWF ls`: well-formed listed names; related modules,
          duplicates, absent modules, undefined layers all allowed) is the original outcome with module names renamed;
          conjunct 9 (`Pta.C14.layer_verdict_ren_cls`): same class (`LayerMismatch` included) and the SAME layer tags.
      (4) (diagram rules) conjunct 10 (`Pta.C14.diagram_spec_ren`): same verdict class and the report items are the renamed
          items as a MULTISET (`Perm`; `sorted(...)` reorders the generated rules, so list equality fails), with or
          without base module.
      (5) "plot label" — conjunct 11 (`Pta.C14.labels_ren`): labels of the renamed modules under the renamed alias table:
          alias text kept, remaining components renamed (hypotheses of C17: well-formed names, distinct aliased
          modules that exist).
      (6) SCAN LEVEL — "invariant … under any injective renaming of path components" read as a renaming of the
          directories and files ON DISK (Props/C14Scan.lean; Bridge/RenameScan.lean).  The renamed inputs: every path
          component of every `Entry.rel` (`renFile ρ`: the stem is renamed, the suffix kept — `x ↦ ρ x`,
          `x.py ↦ (ρ x).py`; `Pta.C14.renFile_spec`), the root directory's name (`ρ root`), the components of
          `module_path` (`mp.map (renFile ρ)`), every dotted name in every import statement (`renStmt ρ`; for AST
          nodes `Pta.C14.collect_ren`); the path string of the root directory (`base'`) is arbitrary; the renamed scan
          may use any exclusion patterns `ps'` / matcher `mt'` whose test agrees with the original one on the paths of
          the listing (`ExclTransported`; trivially so without patterns, `Pta.C14.exclTransported_noPatterns`).
          Domain: trees well-formed as far as the scan can see them (`treeWFFor`, `mpOK`, `compWF root`),
          parser-producible statements (`stmtOK`), external modules excluded without external patterns (the
          default), ANY level limit.  (These hypotheses are preserved by the renaming: `Pta.C14.scan_hyps_ren`.)
          Conjunct 15 (`Pta.C14.scan_arch_ren`): the specification architecture of the renamed tree is the renamed
          specification architecture (`scanModules`, `scanImports`; "no answer" stays "no answer"); conjunct 16
          (`Pta.C14.scan_ren`): the scan of the renamed tree has the outcome class of the original scan (a relative
          import above the root stays a `LookupError`), and on success its graph has exactly the nodes, hierarchy
          pairs and import pairs of the image of the original graph (`GraphEquiv g' (mapGraph (renDotted ρ) g)`, and
          likewise for the guarded, injective string renaming `renStr ρ`); conjunct 17 (`Pta.C14.scan_error_ren`):
          errors correspond in both directions; conjunct 18 (`Pta.C14.scan_verdict_ren`): EVERY module rule with
          well-formed identifiers (`ruleWF r`: strict or not, `parentFree` or not, names scanned or not) has on the
          renamed scan, with the renamed names, the verdict class it has on the original scan; conjunct 19
          (`Pta.C14.scan_report_ren`): and the message text is the rendering of the original report with every module
          name renamed; conjunct 20 (`Pta.C14.scan_labels_ren`, no level limit): plot labels under the renamed alias
          table (keys distinct scanned modules): alias texts kept, components below the aliased ancestor renamed.
          Externals INCLUDED — conjunct 21 (`Pta.C14.scan_ren_ext`; `exclude_external_libraries=False`, no external
          exclusion patterns, no level limit; `ρ` acts on the names of external modules too, a renaming meant to
          leave the libraries alone has `ρ c = c` on their components): same outcome class, graph = image under
          `renStr ρ`, external nodes, their dotted parents and all import edges included (verdicts and messages of
          module rules on such scans: `Pta.C14.scan_verdict_ren_ext`, `scan_report_ren_ext`).
          The hypotheses are needed (witnesses, cited): `Pta.C14.ScanNeeds.scan_ren_needs_injective` (`y ↦ x` puts
          `x.py` next to `x/`: an import pair of the image is only a hierarchy edge of the renamed scan),
          `Pta.C14.ScanNeeds.scan_ren_needs_dotfree` (`x ↦ a.py`: the directory `r/a.py` is the module `r.a` with the
          package `r.a.py` below it), `Pta.C14.ScanNeeds.scan_ren_needs_transport` (the same glob `*x` on both sides
          no longer excludes the renamed directory).  `treeWFFor` comes from the route through the specification; it
          is not known to be needed (an `example` of Props/C14Scan.lean: on the collision tree of
          `Pta.E2E.collision_needs_treeWF` the statement still holds).
    Not carried by a theorem (correspondence check only / outside the model):
      * the message TEXT under renamings that INTRODUCE `"` into a path component (or for names that contain `"`):
        conjunct 14 needs quote-free names, and the hypothesis cannot be dropped —
        `Pta.C14.text_ren_needs_quoteFree` (a good renaming under which two different lines are rendered as the same
        string, and `sorted(set(...))` keeps one: the message shrinks from two lines to one).  Conjunct 13 (items,
        rendered) holds without it.
      * the message text under renaming for LAYER rules and DIAGRAM rules: conjuncts 8–10 rename report items / tags;
        their texts (`assertAppliesLayerText`, `applyAllText`) are not related by a theorem.
      * regex specifications (excluded by the property's quantifier; `mt` is not renamed).
      * scan-level invariance (6), what is still missing: scans with externals included AND external exclusion
        patterns, or externals included AND a level limit (conjunct 21 needs `externalExclusions` empty and
        `levelLimit = none`; a pattern is a raw-string test on the external's name and would have to be transported
        like `ExclTransported`); LAYER rules and DIAGRAM rules on the renamed scan (conjuncts 8–10 are stated on
        `archGraph (renArch ρ a)`; their composition with conjunct 16 — from `GraphEquiv g' (mapGraph … g)` to the
        layer / diagram outcome — is not proved; module rules: conjuncts 18, 19); plot labels under a level limit or
        with externals included (conjunct 20 has `levelLimit = none`, externals excluded); the message text of
        conjunct 19 as renamed LINES (it is the rendering of the renamed report items, the scan-level analogue of
        conjunct 13, not of conjunct 14); trees outside `treeWFFor` (not known to be needed, see (6)).
      * that renaming a directory on disk changes the listing as `renEntries ρ` says (`os.walk` / `Path` behaviour) —
        the file system is the argument `entries` of the model. -/
def C14_Statement : Prop :=
  -- 1 `Pta.C14.raw_test_is_prefix`
  (∀ (p n : Name), nameWF p = true → nameWF n = true →
    isModuleOrSub (render p) (render n) = desc p n ∧ isStrictSub (render p) (render n) = sdesc p n ∧
    isInternal (render n) (render p) = desc p n) ∧
  -- 2 `Pta.C14.desc_ren`
  (∀ (ρ : Comp → Comp), GoodRen ρ → ∀ (x n : Name),
    desc (renName ρ x) (renName ρ n) = desc x n ∧ sdesc (renName ρ x) (renName ρ n) = sdesc x n ∧
    related (renName ρ x) (renName ρ n) = related x n) ∧
  -- 3 `Pta.C14.verdict_ren`
  (∀ (ρ : Comp → Comp), GoodRen ρ → ∀ (a : Arch) (r : RuleSpec),
    verdict (renArch ρ a) (renRule ρ r) = verdict a r) ∧
  -- 4 `Pta.C14.violating_ren`
  (∀ (ρ : Comp → Comp), GoodRen ρ → ∀ (a : Arch) (r : RuleSpec),
    violating (renArch ρ a) (renRule ρ r) = (violating a r).map (renSItem ρ)) ∧
  -- 5 `Pta.C14.model_verdict_ren_all`
  (∀ (mt : Str → Str → Bool) (ρ : Comp → Comp), GoodRen ρ → ∀ (a : Arch), a.wf = true →
    ∀ (r : RuleSpec), ruleWF r = true →
    verdictOf mt (archGraph (renArch ρ a)) (compile (renRule ρ r)) = verdictOf mt (archGraph a) (compile r)) ∧
  -- 6 `Pta.C14.model_report_ren`
  (∀ (mt : Str → Str → Bool) (ρ : Comp → Comp), GoodRen ρ → ∀ (a : Arch), a.wf = true →
    ∀ (r : RuleSpec), ruleWF r = true →
    (assertApplies mt (compile (renRule ρ r)) (archGraph (renArch ρ a))).2 =
      (assertApplies mt (compile r) (archGraph a)).2.mapId (renDotted ρ)) ∧
  -- 7 `Pta.C14.layerOf_ren`
  (∀ (ρ : Comp → Comp), GoodRen ρ → ∀ (m : List (Str × List Name)) (n : Name),
    (∀ l ∈ m, ∀ x ∈ l.2, nameWF x = true) → nameWF n = true →
    LayerMap.layerOf (m.map fun l => (l.1, l.2.map fun x => render (renName ρ x))) (render (renName ρ n)) =
    LayerMap.layerOf (m.map fun l => (l.1, l.2.map render)) (render n)) ∧
  -- 8 `Pta.C14.layer_report_ren`
  (∀ (mt : Str → Str → Bool) (ρ : Comp → Comp), GoodRen ρ → ∀ (a : Arch), a.wf = true →
    ∀ (ls : Layers), layersWF ls = true → ∀ (r : LRuleSpec),
    assertAppliesLayer mt (compileLayerRule (compileLArch (renLayers ρ ls)) r) (archGraph (renArch ρ a)) =
      (assertAppliesLayer mt (compileLayerRule (compileLArch ls) r) (archGraph a)).mapId (renDotted ρ)) ∧
  -- 9 `Pta.C14.layer_verdict_ren_cls`
  (∀ (mt : Str → Str → Bool) (ρ : Comp → Comp), GoodRen ρ → ∀ (a : Arch), a.wf = true →
    ∀ (ls : Layers), layersWF ls = true → ∀ (r : LRuleSpec),
    (assertAppliesLayer mt (compileLayerRule (compileLArch (renLayers ρ ls)) r) (archGraph (renArch ρ a))).cls =
      (assertAppliesLayer mt (compileLayerRule (compileLArch ls) r) (archGraph a)).cls ∧
    (assertAppliesLayer mt (compileLayerRule (compileLArch (renLayers ρ ls)) r) (archGraph (renArch ρ a))).tags =
      (assertAppliesLayer mt (compileLayerRule (compileLArch ls) r) (archGraph a)).tags) ∧
  -- 10 `Pta.C14.diagram_spec_ren`
  (∀ (mt : Str → Str → Bool) (ρ : Comp → Comp), GoodRen ρ → ∀ (a : Arch), a.wf = true →
    ∀ (so : Bool) (d : Diagram), specDiagramWF d = true → ∀ (base : Option Name),
    (∀ q, base = some q → nameWF q = true) →
    (applyAll mt (archGraph (renArch ρ a))
        (diagramRules so (prefixParsed (parsedOf (renDiagram ρ d)) ((base.map (renName ρ)).map render)))).cls =
      (applyAll mt (archGraph a) (diagramRules so (prefixParsed (parsedOf d) (base.map render)))).cls ∧
    (applyAll mt (archGraph (renArch ρ a))
        (diagramRules so (prefixParsed (parsedOf (renDiagram ρ d)) ((base.map (renName ρ)).map render)))).items.Perm
      ((applyAll mt (archGraph a) (diagramRules so (prefixParsed (parsedOf d) (base.map render)))).items.map
        (Item.mapId (renStr ρ)))) ∧
  -- 11 `Pta.C14.labels_ren`
  (∀ (ρ : Comp → Comp), GoodRen ρ → ∀ (nodes : List Name) (al : Aliases),
    (∀ n ∈ nodes, nameWF n = true) → (al.map (·.1)).Nodup → (∀ a ∈ al, a.1 ∈ nodes) →
    plotLabels ((nodes.map (renName ρ)).map render) ((renAliases ρ al).map fun a => (render a.1, a.2)) =
      .ok (nodes.map fun n => (render (renName ρ n), labelWith (renName ρ) al n)) ∧
    plotLabels (nodes.map render) (al.map fun a => (render a.1, a.2)) =
      .ok (nodes.map fun n => (render n, labelWith id al n))) ∧
  -- 12 `Pta.C14.isInternal_ren`
  (∀ (ρ : Comp → Comp), GoodRen ρ → ∀ (n p : Name), nameWF n = true → nameWF p = true →
    isInternal (render (renName ρ n)) (render (renName ρ p)) = isInternal (render n) (render p)) ∧
  -- 13 `Pta.C14.text_ren_items`
  (∀ (mt : Str → Str → Bool) (ρ : Comp → Comp), GoodRen ρ → ∀ (a : Arch), a.wf = true →
    ∀ (r : RuleSpec), ruleWF r = true →
    (assertAppliesText mt (compile (renRule ρ r)) (archGraph (renArch ρ a))).2 =
      ((assertApplies mt (compile r) (archGraph a)).2.mapId (renDotted ρ)).toText ∧
    (assertAppliesText mt (compile r) (archGraph a)).2 = (assertApplies mt (compile r) (archGraph a)).2.toText) ∧
  -- 14 `Pta.C14.text_ren`
  (∀ (mt : Str → Str → Bool) (ρ : Comp → Comp), GoodRen ρ → QuoteFree ρ → ∀ (a : Arch),
    a.wf = true → archNoQuote a = true → ∀ (r : RuleSpec), ruleWF r = true → ruleNoQuote r = true →
    ((assertAppliesText mt (compile r) (archGraph a)).2 = .pass →
      (assertAppliesText mt (compile (renRule ρ r)) (archGraph (renArch ρ a))).2 = .pass) ∧
    (∀ k, (assertAppliesText mt (compile r) (archGraph a)).2 = .err k →
      (assertAppliesText mt (compile (renRule ρ r)) (archGraph (renArch ρ a))).2 = .err k) ∧
    (∀ lines, (assertAppliesText mt (compile r) (archGraph a)).2 = .fail lines →
      ∃ lines', (assertAppliesText mt (compile (renRule ρ r)) (archGraph (renArch ρ a))).2 = .fail lines' ∧
        lines'.Perm (lines.map (renLine ρ)) ∧ lines' = sortStr (lines.map (renLine ρ)))) ∧
  -- 15 `Pta.C14.scan_arch_ren`
  (∀ (mt mt' : Str → Str → Bool) (base base' root : Str) (mp : List Str) (entries : List Entry) (o : ScanOptions)
    (ps' : Patterns) (ρ : Comp → Comp), GoodRen ρ →
    treeWFFor (isExcluded mt o.exclusions) base mp entries = true → mpOK entries mp = true →
    compWF root = true →
    (∀ e ∈ entries, ∀ st ∈ e.stmts, stmtOK (toSStmt st) = true) →
    ExclTransported ρ (isExcluded mt o.exclusions) (isExcluded mt' ps') base base' entries →
    scanModules (ρ root) (toSEntries (isExcluded mt' ps') base' (renEntries ρ entries)) (mp.map (renFile ρ)) =
      (scanModules root (toSEntries (isExcluded mt o.exclusions) base entries) mp).map (renName ρ) ∧
    scanImports (ρ root) (toSEntries (isExcluded mt' ps') base' (renEntries ρ entries)) (mp.map (renFile ρ)) =
      (scanImports root (toSEntries (isExcluded mt o.exclusions) base entries) mp).map
        (List.map fun e => (renName ρ e.1, renName ρ e.2))) ∧
  -- 16 `Pta.C14.scan_ren`
  (∀ (mt mt' : Str → Str → Bool) (base base' root : Str) (mp : List Str) (entries : List Entry) (o : ScanOptions)
    (ps' : Patterns) (ρ : Comp → Comp), GoodRen ρ →
    treeWFFor (isExcluded mt o.exclusions) base mp entries = true → mpOK entries mp = true →
    compWF root = true →
    (∀ e ∈ entries, ∀ st ∈ e.stmts, stmtOK (toSStmt st) = true) →
    ExclTransported ρ (isExcluded mt o.exclusions) (isExcluded mt' ps') base base' entries →
    o.excludeExternal = true → o.externalExclusions.isEmpty = true →
    match generateGraph mt base root mp entries o with
    | .ok g => ∃ g', generateGraph mt' base' (ρ root) (mp.map (renFile ρ)) (renEntries ρ entries)
          (o.withExclusions ps') = .ok g' ∧
        GraphEquiv g' (mapGraph (renDotted ρ) g) ∧ GraphEquiv g' (mapGraph (renStr ρ) g)
    | .error k => generateGraph mt' base' (ρ root) (mp.map (renFile ρ)) (renEntries ρ entries)
          (o.withExclusions ps') = .error k) ∧
  -- 17 `Pta.C14.scan_error_ren`
  (∀ (mt mt' : Str → Str → Bool) (base base' root : Str) (mp : List Str) (entries : List Entry) (o : ScanOptions)
    (ps' : Patterns) (ρ : Comp → Comp), GoodRen ρ →
    treeWFFor (isExcluded mt o.exclusions) base mp entries = true → mpOK entries mp = true →
    compWF root = true →
    (∀ e ∈ entries, ∀ st ∈ e.stmts, stmtOK (toSStmt st) = true) →
    ExclTransported ρ (isExcluded mt o.exclusions) (isExcluded mt' ps') base base' entries →
    o.excludeExternal = true → o.externalExclusions.isEmpty = true →
    ∀ (k : ErrKind),
    generateGraph mt' base' (ρ root) (mp.map (renFile ρ)) (renEntries ρ entries) (o.withExclusions ps') = .error k ↔
      generateGraph mt base root mp entries o = .error k) ∧
  -- 18 `Pta.C14.scan_verdict_ren`
  (∀ (mt mt' : Str → Str → Bool) (base base' root : Str) (mp : List Str) (entries : List Entry) (o : ScanOptions)
    (ps' : Patterns) (ρ : Comp → Comp), GoodRen ρ →
    treeWFFor (isExcluded mt o.exclusions) base mp entries = true → mpOK entries mp = true →
    compWF root = true →
    (∀ e ∈ entries, ∀ st ∈ e.stmts, stmtOK (toSStmt st) = true) →
    ExclTransported ρ (isExcluded mt o.exclusions) (isExcluded mt' ps') base base' entries →
    o.excludeExternal = true → o.externalExclusions.isEmpty = true →
    ∀ (g g' : PGraph Str), generateGraph mt base root mp entries o = .ok g →
    generateGraph mt' base' (ρ root) (mp.map (renFile ρ)) (renEntries ρ entries) (o.withExclusions ps') = .ok g' →
    ∀ (mt'' : Str → Str → Bool) (r : RuleSpec), ruleWF r = true →
    verdictOf mt'' g' (compile (renRule ρ r)) = verdictOf mt'' g (compile r)) ∧
  -- 19 `Pta.C14.scan_report_ren`
  (∀ (mt mt' : Str → Str → Bool) (base base' root : Str) (mp : List Str) (entries : List Entry) (o : ScanOptions)
    (ps' : Patterns) (ρ : Comp → Comp), GoodRen ρ →
    treeWFFor (isExcluded mt o.exclusions) base mp entries = true → mpOK entries mp = true →
    compWF root = true →
    (∀ e ∈ entries, ∀ st ∈ e.stmts, stmtOK (toSStmt st) = true) →
    ExclTransported ρ (isExcluded mt o.exclusions) (isExcluded mt' ps') base base' entries →
    o.excludeExternal = true → o.externalExclusions.isEmpty = true →
    ∀ (g g' : PGraph Str), generateGraph mt base root mp entries o = .ok g →
    generateGraph mt' base' (ρ root) (mp.map (renFile ρ)) (renEntries ρ entries) (o.withExclusions ps') = .ok g' →
    ∀ (mt'' : Str → Str → Bool) (r : RuleSpec), ruleWF r = true →
    (assertAppliesText mt'' (compile (renRule ρ r)) g').2 =
      ((assertApplies mt'' (compile r) g).2.mapId (renStr ρ)).toText) ∧
  -- 20 `Pta.C14.scan_labels_ren`
  (∀ (mt mt' : Str → Str → Bool) (base base' root : Str) (mp : List Str) (entries : List Entry) (o : ScanOptions)
    (ps' : Patterns) (ρ : Comp → Comp), GoodRen ρ →
    treeWFFor (isExcluded mt o.exclusions) base mp entries = true → mpOK entries mp = true →
    compWF root = true →
    (∀ e ∈ entries, ∀ st ∈ e.stmts, stmtOK (toSStmt st) = true) →
    ExclTransported ρ (isExcluded mt o.exclusions) (isExcluded mt' ps') base base' entries →
    o.excludeExternal = true → o.externalExclusions.isEmpty = true →
    ∀ (g g' : PGraph Str), generateGraph mt base root mp entries o = .ok g →
    generateGraph mt' base' (ρ root) (mp.map (renFile ρ)) (renEntries ρ entries) (o.withExclusions ps') = .ok g' →
    o.levelLimit = none → ∀ (al : Aliases), (al.map (·.1)).Nodup →
    (∀ a ∈ al, a.1 ∈ scanModules root (toSEntries (isExcluded mt o.exclusions) base entries) mp) →
    ∃ ls ls', plotLabels g.nodes (al.map fun a => (render a.1, a.2)) = .ok ls ∧
      plotLabels g'.nodes ((renAliases ρ al).map fun a => (render a.1, a.2)) = .ok ls' ∧
      ls.map (·.1) = g.nodes ∧ ls'.map (·.1) = g'.nodes ∧
      ls.Perm ((scanModules root (toSEntries (isExcluded mt o.exclusions) base entries) mp).map
        fun n => (render n, labelWith id al n)) ∧
      ls'.Perm ((scanModules root (toSEntries (isExcluded mt o.exclusions) base entries) mp).map
        fun n => (render (renName ρ n), labelWith (renName ρ) al n))) ∧
  -- 21 `Pta.C14.scan_ren_ext`
  (∀ (mt mt' : Str → Str → Bool) (base base' root : Str) (mp : List Str) (entries : List Entry) (o : ScanOptions)
    (ps' : Patterns) (ρ : Comp → Comp), GoodRen ρ →
    treeWFFor (isExcluded mt o.exclusions) base mp entries = true → mpOK entries mp = true →
    compWF root = true →
    (∀ e ∈ entries, ∀ st ∈ e.stmts, stmtOK (toSStmt st) = true) →
    ExclTransported ρ (isExcluded mt o.exclusions) (isExcluded mt' ps') base base' entries →
    o.excludeExternal = false → o.externalExclusions.isEmpty = true → o.levelLimit = none →
    match generateGraph mt base root mp entries o with
    | .ok g => ∃ g', generateGraph mt' base' (ρ root) (mp.map (renFile ρ)) (renEntries ρ entries)
          (o.withExclusions ps') = .ok g' ∧ GraphEquiv g' (mapGraph (renStr ρ) g)
    | .error k => generateGraph mt' base' (ρ root) (mp.map (renFile ρ)) (renEntries ρ entries)
          (o.withExclusions ps') = .error k)

theorem c14 : C14_Statement :=
  ⟨@Pta.C14.raw_test_is_prefix, @Pta.C14.desc_ren, @Pta.C14.verdict_ren, @Pta.C14.violating_ren,
   @Pta.C14.model_verdict_ren_all, @Pta.C14.model_report_ren, @Pta.C14.layerOf_ren, @Pta.C14.layer_report_ren,
   @Pta.C14.layer_verdict_ren_cls, @Pta.C14.diagram_spec_ren, @Pta.C14.labels_ren, @Pta.C14.isInternal_ren,
   @Pta.C14.text_ren_items, @Pta.C14.text_ren,
   @Pta.C14.scan_arch_ren, @Pta.C14.scan_ren, @Pta.C14.scan_error_ren, @Pta.C14.scan_verdict_ren,
   @Pta.C14.scan_report_ren, @Pta.C14.scan_labels_ren, @Pta.C14.scan_ren_ext⟩

end C14

/-! ## C15 -/
section C15
open PtaSpec

/-- C15 — Evaluation is pure and independent of order, history and hash seed.
    English statement (verbatim): "Evaluating any number of rules, layer rules or diagram rules leaves the evaluable
    architecture unchanged, and the verdict and message of a rule do not depend on which rules were evaluated before it,
    on how often the same rule object is re-applied or to how many architectures, on the order in which subjects, objects,
    layers or exclusion patterns were listed, on the order in which the file system enumerates directory entries, or on
    the interpreter's hash seed. Two scans of the same tree always build architectures with equal sets of modules and
    imports."

    `GraphEquiv g g'`: same node set and the same three edge sets.  `SameRuleUpToOrder r r'`: the same subject / object
    filters as sets, the same flags.  `assertAppliesText` returns the rewritten rule object and the outcome WITH the
    literal list of message lines, so the conjuncts below are about verdict AND message.

    The history machine (Bridge/History.lean): a `World` holds any number of `Rule` objects (`RuleState`), `LayerRule`
    objects (`LayerRuleState`), `DiagramRule` objects (`DiagramRuleState`) and evaluable architectures (`PGraph Str`);
    an event `Ev` is one call `object_i.assert_applies(architecture_j)` (`.rule i j`, `.layerRule i j`,
    `.diagramRule i j`); `step` makes the call with the model's functions and WRITES THE OBJECT THE CALL LEAVES BEHIND
    BACK INTO ITS SLOT (`Rule._configuration` is rewritten in place by `_convert_aliases`), so that later events see the
    rewritten object; `exec mt w h` is the world after the history `h`, `run mt w h` its outcomes in order,
    `outcomeIn mt w e` the outcome of `e` in `w`, `trace mt w h` the (event, outcome) pairs; `Outcome` is pass / the
    literal message lines (for a diagram rule: report items and aggregated text) / the exception, or `none` when an index
    is out of range (no call is made).

    Clause map:
      (0) "Evaluating any number of rules, layer rules or diagram rules leaves the evaluable architecture unchanged" —
          conjunct 18 (`Pta.C15.history_archs_unchanged`): for every world and EVERY history (any length, any mixture of
          the three object kinds, any objects, any architectures) the list of architectures after the history is
          literally the list before it (also the diagram-rule objects: `Pta.C15.history_diagram_rules_unchanged`).
          "the verdict and message of a rule do not depend on which rules were evaluated before it, on how often the
          same rule object is re-applied or to how many architectures" — conjunct 19
          (`Pta.C15.history_outcome_fresh`): for every history `h` and event `e`, the outcome of `e` after `h` —
          verdict, message lines, exception — is its outcome in the INITIAL world; conjunct 20
          (`Pta.C15.history_outcomes`): hence the outcomes of a history are the outcomes of its events in the initial
          world; what that outcome is — conjunct 25 (`Pta.C15.outcome_initial`): the model's function
          (`assertAppliesText`, `assertAppliesLayerText`, `DiagramRuleState.assertApplies` / `assertAppliesText`)
          applied to the INITIAL object in slot `i` and architecture `j`; conjuncts 21, 22
          (`Pta.C15.history_rule_outcome`, `history_layer_rule_outcome`): whatever was evaluated before, rule object /
          layer-rule object `i` applied to architecture `j` gives what the object ORIGINALLY in slot `i` gives on it
          (the general form of conjunct 1).  Order of the evaluations — conjunct 23 (`Pta.C15.history_perm`): the
          multiset of (event, outcome) pairs is invariant under permuting the history; conjunct 24
          (`Pta.C15.history_final`): the world left behind in closed form (`World.after`: an object that was really
          called at least once is in `_convert_aliases`-normal form, every other object and every architecture is
          untouched), so the objects left behind do not depend on the order either
          (`Pta.C15.history_final_perm`).  The invariant behind these is `World.Equiv` (slot-wise the same normal
          form): `Pta.C15.history_equiv`, `world_equiv_congr`, `rule_equiv_congr`, `layer_rule_equiv_congr`,
          `rule_step_normalForm`.  The history is NOT a no-op on the objects (an `example` of Props/C15Hist.lean: slot
          0 is rewritten by the first call and the later events run on the rewritten object).
      (1) "on how often the same rule object is re-applied or to how many architectures" — conjunct 1
          (`Pta.C15.report_reapply`): applying the rule object left behind by a first application (to any graph) gives the
          outcome and message lines a fresh rule object gives (the only in-place rewrite, `_convert_aliases`, is idempotent
          and keeps the subjects it removed).  For arbitrary histories: (0), conjuncts 19–22.
      (2) "on the order in which subjects, objects … were listed" — conjunct 2 (`Pta.C15.report_congr`, master statement:
          every rule state, any order and multiplicity of subjects / objects, two graphs with the same node and edge sets);
          conjunct 3 (`Pta.C15.report_perm_anything`): the `anything` aliases; conjunct 10 (`Pta.C15.run_report_perm`): the
          same for fluent `Rule` call chains (names permuted inside the naming calls), the index of a raising call
          included.
      (3) "… layers …" — conjunct 8 (`Pta.C15.report_layer_congr`): layers DEFINED in another order, rule filters in another
          order, graph with the same sets: same outcome, same message lines — no hypothesis (if the mapping assigns a
          module to two layers, every order raises `LayerMismatch`: `Pta.C15.perm_layers_overlap_rejected`); conjunct 11
          (`Pta.C15.run_layer_report_perm`): for `LayerRule` call chains.
      (4) "… or exclusion patterns were listed" — conjunct 7 (`Pta.C15.perm_patterns`): `isExcluded` is invariant under
          permutation of the pattern list (glob and regex kind).
      (5) "on the order in which the file system enumerates directory entries" and "Two scans of the same tree always build
          architectures with equal sets of modules and imports" — conjunct 5 (`Pta.C15.scan_graph_perm`): two scans whose
          entry lists are permutations of one another raise the same error or build graphs with the same nodes, hierarchy
          edges and import edges (`SameScan`); NO hypothesis on tree, options, limit, statements; conjunct 6
          (`Pta.C15.scan_report_perm`): hence every rule has the same outcome and message on both; conjunct 9
          (`Pta.C15.scan_report_layer_perm`): and so has every layer rule; conjunct 4
          (`Pta.C15.report_perm_modules_imports`): the same at the graph constructor (module / import lists permuted,
          any level limit).
      (6) (diagram rules) conjunct 12 (`Pta.C15.applyAll_perm`): if no generated rule raises, pass / fail and the collected
          items (as a multiset) do not depend on the order of the rules; conjunct 13 (`Pta.C15.applyAll_perm_err`): if
          some rule raises, every order raises the error of one of the raising rules (the KIND may depend on the
          order: `Pta.C15.applyAll_error_kind_counterexample`); conjunct 14 (`Pta.C15.diagram_text_perm`): permuting the
          lines of a diagram file gives the parsing error for both orders or the same module set and dependency relation.
          The diagram MESSAGE (text-valued model `diagramAssertText`, Props/C15Text.lean) — conjunct 15
          (`Pta.C15.diagram_rules_text_perm`): two parse results with the same module SET and dependency RELATION
          (`SameDiagram`; `Pta.C07.DepsOK`: unique keys, non-empty value lists — the parser guarantees them), any
          graph, both modes: one check raises `k` iff the other raises `k`, and `k` can only be the lookup error (so
          the order dependence of the error KIND cannot show for a diagram: `Pta.C15.generated_rules_raise_lookup_only`);
          same class; the per-rule messages and the message lines are the same MULTISETS (`List.Perm`); conjunct 16
          (`Pta.C15.diagram_message_lines_perm`): the same for two FILES whose line lists are permutations of one another
          (raw lines without newline and `@`), any base module, any graph; conjunct 17
          (`Pta.C15.diagram_message_text_lines_perm`): if both checks fail with texts `t`, `t'` and no message line
          contains a newline, `splitLines t'` is a permutation of `splitLines t`.  This is the strongest true
          statement: literal equality of the two texts is FALSE (`Pta.C15.diagram_message_order_counterexample`: the
          per-rule blocks follow the order of the arrow lines); the dictionary order of the objects inside one
          `does not import` item (C07, `report_lists_objects_in_dict_order`) does NOT reach the text, which sorts them
          (`Pta.C15.diagram_message_objects_sorted`).
    Not carried by a theorem (correspondence check only / outside the model):
      * "leaves the evaluable architecture unchanged" / "do not depend on which rules were evaluated before it … how
        often … to how many architectures" are statements about the history machine now ((0), conjuncts 18–25).  What
        the machine does NOT contain: (a) BUILDER calls interleaved with applications on the same object (a history
        is a list of `assert_applies` events on finished objects; `Rule` chains continued after an application,
        `DiagramRule.from_file` between applications — the latter only as the one-shot statements of C13 / C16).
        For `Rule` objects this is treated in `Props/C15Build.lean` (not conjoined here): the conjecture that applications are
        transparent for later builder calls is REFUTED (`Pta.C15.ApplicationsTransparent_Statement_false`,
        `apply_changes_later_calls_counterexample_six`: an application of a still incomplete `anything` rule rewrites the
        object — open finding F-C15c, replayed on the library), and proved under `syncAtUnsafe`
        (`Pta.C15.applications_transparent_sync`, `applications_transparent_no_rewrite`);
        (b) two slots ALIASING one Python object (slots are values: a call on slot `i` rewrites slot `i` only; by
        conjunct 19 an alias could not change an outcome, since the rewritten object is equivalent to the original,
        but the aliasing itself is not modelled); (c) that the model's functions cannot touch the graph is true by
        their TYPE (`step` copies `archs`); that the Python objects behave so (frozen networkx graph, matcher
        caches) is observed by the snapshot runs only.
      * "the interpreter's hash seed" (set / dict iteration order): outside the model; the theorems above show the
        outcome depends on lists only as sets, which is the reason the seed cannot matter, but the seed itself is only
        exercised by the 8-seed correspondence run.
      * literal equality of the diagram message TEXT for permuted diagram lines: false
        (`diagram_message_order_counterexample`); carried as equality of the multisets of blocks / lines (conjuncts
        15–17), of the class and of the error.  For diagrams outside the raw-line hypotheses of conjunct 16 (a line
        containing `@` or a newline) nothing is stated. -/
def C15_Statement : Prop :=
  -- 1 `Pta.C15.report_reapply`
  (∀ (mt : Str → Str → Bool) (s : RuleState) (g g' : PGraph Str),
    (assertAppliesText mt (assertAppliesText mt s g).1 g').2 = (assertAppliesText mt s g').2) ∧
  -- 2 `Pta.C15.report_congr`
  (∀ (mt : Str → Str → Bool) (g g' : PGraph Str), GraphEquiv g g' → ∀ (r r' : RuleState),
    SameRuleUpToOrder r r' → (assertAppliesText mt r g).2 = (assertAppliesText mt r' g').2) ∧
  -- 3 `Pta.C15.report_perm_anything`
  (∀ (mt : Str → Str → Bool) (g : PGraph Str) (S S' : List Filter) (dir : Bool), S.Perm S' →
    (assertAppliesText mt (anythingRule dir S) g).2 = (assertAppliesText mt (anythingRule dir S') g).2) ∧
  -- 4 `Pta.C15.report_perm_modules_imports`
  (∀ (mt : Str → Str → Bool) (a a' : Arch), a.wf = true →
    a.nodes.Perm a'.nodes → a.imports.Perm a'.imports → ∀ (lim : Option Nat) (r : RuleState),
    (assertAppliesText mt r (archGraphLim a lim)).2 = (assertAppliesText mt r (archGraphLim a' lim)).2) ∧
  -- 5 `Pta.C15.scan_graph_perm`
  (∀ (mt : Str → Str → Bool) (base rootName : Str) (mp : List Str) (entries entries' : List Entry)
    (o : ScanOptions), entries.Perm entries' →
    SameScan (generateGraph mt base rootName mp entries o) (generateGraph mt base rootName mp entries' o)) ∧
  -- 6 `Pta.C15.scan_report_perm`
  (∀ (mt mt' : Str → Str → Bool) (base rootName : Str) (mp : List Str) (entries entries' : List Entry)
    (o : ScanOptions), entries.Perm entries' → ∀ (g g' : PGraph Str),
    generateGraph mt base rootName mp entries o = .ok g → generateGraph mt base rootName mp entries' o = .ok g' →
    ∀ (r : RuleState), (assertAppliesText mt' r g).2 = (assertAppliesText mt' r g').2) ∧
  -- 7 `Pta.C15.perm_patterns`
  (∀ (mt : Str → Str → Bool) (ps ps' : List Str), ps.Perm ps' → ∀ (s : Str),
    isExcluded mt (.globs ps) s = isExcluded mt (.globs ps') s ∧ isExcluded mt (.regexes ps) s = isExcluded mt (.regexes ps') s) ∧
  -- 8 `Pta.C15.report_layer_congr`
  (∀ (mt : Str → Str → Bool) (g g' : PGraph Str), GraphEquiv g g' → ∀ (a a' : LArch), a.Perm a' →
    ∀ (r r' : RuleState), SameRuleUpToOrder r r' →
    assertAppliesLayerText mt ⟨some a, some r⟩ g = assertAppliesLayerText mt ⟨some a', some r'⟩ g') ∧
  -- 9 `Pta.C15.scan_report_layer_perm`
  (∀ (mt mt' : Str → Str → Bool) (base rootName : Str) (mp : List Str) (entries entries' : List Entry)
    (o : ScanOptions), entries.Perm entries' → ∀ (g g' : PGraph Str),
    generateGraph mt base rootName mp entries o = .ok g → generateGraph mt base rootName mp entries' o = .ok g' →
    ∀ (s : LayerRuleState), assertAppliesLayerText mt' s g = assertAppliesLayerText mt' s g') ∧
  -- 10 `Pta.C15.run_report_perm`
  (∀ (glob : Str → Str) (mt : Str → Str → Bool) (g g' : PGraph Str), GraphEquiv g g' →
    ∀ (ops ops' : List RuleOp), RuleOpsUpToOrder ops ops' →
    runRuleOpsText glob mt ops g = runRuleOpsText glob mt ops' g') ∧
  -- 11 `Pta.C15.run_layer_report_perm`
  (∀ (mt : Str → Str → Bool) (g g' : PGraph Str), GraphEquiv g g' →
    ∀ (ops ops' : List LayerRuleOp), LayerRuleOpsUpToOrder ops ops' →
    runLayerRuleOpsText mt ops g = runLayerRuleOpsText mt ops' g') ∧
  -- 12 `Pta.C15.applyAll_perm`
  (∀ (mt : Str → Str → Bool) (g : PGraph Str) (rules rules' : List RuleState), rules.Perm rules' →
    (∀ r ∈ rules, ∀ k, (assertApplies mt r g).2 ≠ .err k) →
    (applyAll mt g rules).cls = (applyAll mt g rules').cls ∧ (∀ k, (applyAll mt g rules).cls ≠ .err k) ∧
    (applyAll mt g rules).items.Perm (applyAll mt g rules').items) ∧
  -- 13 `Pta.C15.applyAll_perm_err`
  (∀ (mt : Str → Str → Bool) (g : PGraph Str) (rules rules' : List RuleState), rules.Perm rules' →
    (∃ r ∈ rules, ∃ k, (assertApplies mt r g).2 = .err k) →
    ∃ k k', applyAll mt g rules = .err k ∧ applyAll mt g rules' = .err k' ∧
      (∃ r ∈ rules, (assertApplies mt r g).2 = .err k) ∧ (∃ r ∈ rules, (assertApplies mt r g).2 = .err k')) ∧
  -- 14 `Pta.C15.diagram_text_perm`
  (∀ (noise1 noise2 : Str) (lines lines' : List Str), lines.Perm lines' →
    (∀ l ∈ lines, '\n' ∉ l ∧ '@' ∉ l) → isInfix "@enduml".toList noise2 = false →
    SameDiagram (pumlParse (linesText noise1 lines noise2)) (pumlParse (linesText noise1 lines' noise2))) ∧
  -- 15 `Pta.C15.diagram_rules_text_perm`
  (∀ (mt : Str → Str → Bool) (g : PGraph Str) (so : Bool) (p q : Parsed'),
    SameDiagram (.ok p) (.ok q) → Pta.C07.DepsOK p → Pta.C07.DepsOK q →
    (∀ k, applyAllText mt g (diagramRules so p) = .err k ↔ applyAllText mt g (diagramRules so q) = .err k) ∧
    (∀ k, applyAllText mt g (diagramRules so p) = .err k → k = .lookupError) ∧
    (applyAllText mt g (diagramRules so p)).cls = (applyAllText mt g (diagramRules so q)).cls ∧
    (aggMessages mt g (diagramRules so p)).Perm (aggMessages mt g (diagramRules so q)) ∧
    (aggLines mt g (diagramRules so p)).Perm (aggLines mt g (diagramRules so q))) ∧
  -- 16 `Pta.C15.diagram_message_lines_perm`
  (∀ (mt : Str → Str → Bool) (g : PGraph Str) (so : Bool) (base : Option Str)
    (noise1 noise2 : Str) (lines lines' : List Str), lines.Perm lines' →
    (∀ l ∈ lines, '\n' ∉ l ∧ '@' ∉ l) → isInfix "@enduml".toList noise2 = false →
    (∀ k, diagramAssertText mt (some (linesText noise1 lines noise2)) base so g = .err k ↔
      diagramAssertText mt (some (linesText noise1 lines' noise2)) base so g = .err k) ∧
    (diagramAssertText mt (some (linesText noise1 lines noise2)) base so g).cls =
      (diagramAssertText mt (some (linesText noise1 lines' noise2)) base so g).cls ∧
    (aggMessages mt g (diagramRulesOf (linesText noise1 lines noise2) base so)).Perm
      (aggMessages mt g (diagramRulesOf (linesText noise1 lines' noise2) base so)) ∧
    (aggLines mt g (diagramRulesOf (linesText noise1 lines noise2) base so)).Perm
      (aggLines mt g (diagramRulesOf (linesText noise1 lines' noise2) base so))) ∧
  -- 17 `Pta.C15.diagram_message_text_lines_perm`
  (∀ (mt : Str → Str → Bool) (g : PGraph Str) (so : Bool) (base : Option Str)
    (noise1 noise2 : Str) (lines lines' : List Str), lines.Perm lines' →
    (∀ l ∈ lines, '\n' ∉ l ∧ '@' ∉ l) → isInfix "@enduml".toList noise2 = false → ∀ (t t' : Str),
    diagramAssertText mt (some (linesText noise1 lines noise2)) base so g = .fail t →
    diagramAssertText mt (some (linesText noise1 lines' noise2)) base so g = .fail t' →
    (∀ l ∈ aggLines mt g (diagramRulesOf (linesText noise1 lines noise2) base so), '\n' ∉ l) →
    (splitLines t).Perm (splitLines t')) ∧
  -- 18 `Pta.C15.history_archs_unchanged`
  (∀ (mt : Str → Str → Bool) (w : World) (h : List Ev), (exec mt w h).archs = w.archs) ∧
  -- 19 `Pta.C15.history_outcome_fresh`
  (∀ (mt : Str → Str → Bool) (w : World) (h : List Ev) (e : Ev),
    outcomeIn mt (exec mt w h) e = outcomeIn mt w e) ∧
  -- 20 `Pta.C15.history_outcomes`
  (∀ (mt : Str → Str → Bool) (w : World) (h : List Ev), run mt w h = h.map (outcomeIn mt w)) ∧
  -- 21 `Pta.C15.history_rule_outcome`
  (∀ (mt : Str → Str → Bool) (w : World) (h : List Ev) (i j : Nat) (r : RuleState) (g : PGraph Str),
    w.rules[i]? = some r → w.archs[j]? = some g →
    outcomeIn mt (exec mt w h) (.rule i j) = .rule (assertAppliesText mt r g).2) ∧
  -- 22 `Pta.C15.history_layer_rule_outcome`
  (∀ (mt : Str → Str → Bool) (w : World) (h : List Ev) (i j : Nat) (s : LayerRuleState)
    (g : PGraph Str), w.layerRules[i]? = some s → w.archs[j]? = some g →
    outcomeIn mt (exec mt w h) (.layerRule i j) = .layerRule (assertAppliesLayerText mt s g)) ∧
  -- 23 `Pta.C15.history_perm`
  (∀ (mt : Str → Str → Bool) (w : World) (h h' : List Ev), h.Perm h' →
    (trace mt w h).Perm (trace mt w h')) ∧
  -- 24 `Pta.C15.history_final`
  (∀ (mt : Str → Str → Bool) (w : World) (h : List Ev), exec mt w h = w.after h) ∧
  -- 25 `Pta.C15.outcome_initial`
  (∀ (mt : Str → Str → Bool) (w : World) (i j : Nat) (g : PGraph Str), w.archs[j]? = some g →
    (∀ r, w.rules[i]? = some r → outcomeIn mt w (.rule i j) = .rule (assertAppliesText mt r g).2) ∧
    (∀ s, w.layerRules[i]? = some s → outcomeIn mt w (.layerRule i j) = .layerRule (assertAppliesLayerText mt s g)) ∧
    (∀ d, w.diagramRules[i]? = some d →
      outcomeIn mt w (.diagramRule i j) = .diagramRule (d.assertApplies mt g) (d.assertAppliesText mt g)))

theorem c15 : C15_Statement :=
  ⟨@Pta.C15.report_reapply, @Pta.C15.report_congr, @Pta.C15.report_perm_anything,
   @Pta.C15.report_perm_modules_imports, @Pta.C15.scan_graph_perm, @Pta.C15.scan_report_perm, @Pta.C15.perm_patterns,
   @Pta.C15.report_layer_congr, @Pta.C15.scan_report_layer_perm, @Pta.C15.run_report_perm,
   @Pta.C15.run_layer_report_perm, @Pta.C15.applyAll_perm, @Pta.C15.applyAll_perm_err, @Pta.C15.diagram_text_perm,
   @Pta.C15.diagram_rules_text_perm, @Pta.C15.diagram_message_lines_perm, @Pta.C15.diagram_message_text_lines_perm,
   @Pta.C15.history_archs_unchanged, @Pta.C15.history_outcome_fresh, @Pta.C15.history_outcomes,
   @Pta.C15.history_rule_outcome, @Pta.C15.history_layer_rule_outcome, @Pta.C15.history_perm,
   @Pta.C15.history_final, @Pta.C15.outcome_initial⟩

end C15

/-! ## C16 -/
section C16
open PtaSpec

/-- C16 — Layer definitions are well-formed: one layer per module, unique names.
    English statement (verbatim): "For every sequence of LayeredArchitecture and LayerRule builder calls, a module name can
    be assigned to at most one layer no matter whether it is passed as a string or inside a list, a layer name can be
    defined once, a layer must receive its modules before the next layer is opened, and a layer rule needs an architecture
    first and exactly one subject layer; every violating sequence is rejected with a configuration error at the offending
    call. Every accepted definition lists exactly the layers and modules that were supplied, in order."

    Histories are `List LArchOp` (`layer n`, `containingModules ms`, `matching regex`, `withLayer`), classified by the
    independent specification automaton `classifyLArch` (PtaSpec/BuilderSpec.lean) whose states `LTrack` record the
    finished layers with their supplied identifiers, in order, and the layer currently open.

    Clause map:
      (1) "a module name can be assigned to at most one layer …, a layer name can be defined once, a layer must receive its
          modules before the next layer is opened …; every violating sequence is rejected with a configuration error at the
          offending call" — conjunct 1 (`Pta.C16.larch_refines`), branch `.rejectedAt i`: whenever the automaton rejects a
          history at call `i`, the builder raises ImproperlyConfigured at exactly call `i`, for EVERY history.  Which
          sequences are violating is the definition of `classifyLArch` (a module identifier already supplied to an
          EARLIER layer, a layer name already defined, `layer` while a layer is open, modules / regex without an open
          layer).  Branch
          `.unspecified` (a regex textually equal to a module name given elsewhere) is a declared don't-care.
          Conjunct 2 (`Pta.C16.larch_invariant`): every reachable architecture has unique layer names, at most one
          pending layer, and no (non-regex) module identifier in two different layers.
      (2) "Every accepted definition lists exactly the layers and modules that were supplied, in order" — conjunct 1,
          branch `.accepted t`: the builder succeeds and the identifiers per layer (`Pta.C16.ids`) are exactly the
          automaton's record `t.closed` (+ the open layer, empty).
      (3) "a layer must receive its modules before the next layer is opened" for the EMPTY list — conjuncts 3, 4, 5
          (`Pta.C16.empty_module_list_keeps_layer_open`, `empty_module_list_is_noop`, `empty_module_list_without_layer`):
          `containing_modules([])` supplies nothing: the layer stays open and the next `layer` call is rejected.
      (4) "a layer rule needs an architecture first and exactly one subject layer" — conjunct 6
          (`Pta.C16.layer_rule_guards`): a LayerRule history the automaton `classifyLayerRule` rejects at call `i` raises
          ImproperlyConfigured at exactly call `i` (shared with C13).
      (5) "no matter whether it is passed as a string or inside a list" — the argument FORM is part of the model now
          (`LArchCall`, `ModArg` = `.str s` | `.list l`, `runLArchCalls`; PtaModel/Layer.lean: `ModArg.toList` transcribes
          `modules_list = modules if isinstance(modules, list) else [modules]`; the specification call of either form
          is `LCall.modules` with the names supplied, `callToLCall`, Bridge/BuilderCalls.lean).  Conjunct 7
          (`Pta.C16.string_form_eq_list_form`): two histories that become equal when every `containing_modules("m")`
          is written `containing_modules(["m"])` (`LArchCall.listForm`) — i.e. that differ, at any number of positions,
          in the FORM of that argument only — have the same result: the same accepted architecture or the same error
          at the same call (`Pta.C16.calls_eq_list_form_run`: the run is the list-form run, so conjuncts 1–5 apply;
          `string_form_eq_list_form_all`, `string_form_eq_list_form_one`).  Conjuncts 8, 9
          (`Pta.C16.larch_calls_refine`, `larch_calls_invariant`): refinement of the specification automaton and the
          invariant (unique layer names, at most one pending layer, no module identifier in two layers) for histories
          with BOTH forms.  Conjunct 10 (`Pta.C16.module_in_one_layer`): a module passed to `containing_modules`
          twice, in whatever forms: EVERY history `pre, containing_modules(y), mid, containing_modules(x), rest` is
          rejected with a configuration error, at the second of the two calls when the calls before it were accepted
          and earlier otherwise; conjunct 11 (`Pta.C16.string_form_one_layer`): after an accepted history in which `m`
          was passed as a STRING, passing `m` again — as a string or inside a list, to the same or another layer — is
          rejected AT that call (`Pta.C16.string_form_never_twice`).  The repaired defect F-C16 (fix 1df0d8a;
          `module_set = set(modules)` is, for a `str`, the set of its CHARACTERS) on the model of the pre-repair code
          `runLArchCharset`: `Pta.C16.charset_counterexample_accepts` (`layer A, "mod", layer B, "mod"` was ACCEPTED: two
          layers own `mod`) and `Pta.C16.charset_counterexample_rejects` (`layer A, ["m"], layer B, "mod"` was REJECTED
          although no module is shared).
    Not carried by a theorem (correspondence check only / outside the model):
      * argument forms other than `str` and `list[str]` (a tuple, a set, a generator: `isinstance(modules, list)` is
        false for them and the whole object becomes ONE list element) are not values of `ModArg`.
      * the string form of `have_modules_with_names_matching` (a regex is a single string in the API; no list form).
      * `str(architecture)` / `architecture[layer]` as observation of accepted definitions. -/
def C16_Statement : Prop :=
  -- 1 `Pta.C16.larch_refines`
  (∀ (ops : List LArchOp),
    match classifyLArch (ops.map toLCall) with
    | .accepted t => ∃ a, runLArch ops = .ok a ∧
        Pta.C16.ids a = t.closed ++ (match t.opened with | some n => [(n, [])] | none => [])
    | .rejectedAt i => runLArch ops = .error (.improperlyConfigured, i)
    | .unspecified => True) ∧
  -- 2 `Pta.C16.larch_invariant`
  (∀ (ops : List LArchOp) (a : LArch), runLArch ops = .ok a →
    (a.map (·.1)).Nodup ∧ a.pending.length ≤ 1 ∧
    ∀ l₁ ∈ a, ∀ l₂ ∈ a, ∀ f₁ ∈ l₁.2, ∀ f₂ ∈ l₂.2, f₁.isRegex = false → f₂.isRegex = false → f₁.id = f₂.id → l₁.1 = l₂.1) ∧
  -- 3 `Pta.C16.empty_module_list_keeps_layer_open`
  (∀ (h : List LArchOp) (t : LTrack) (n m : Str),
    classifyLArch (h.map toLCall) = .accepted t → t.opened = some n →
    classifyLArch ((h ++ [LArchOp.containingModules [], LArchOp.layer m]).map toLCall) = .rejectedAt (h.length + 1) ∧
    runLArch (h ++ [LArchOp.containingModules [], LArchOp.layer m]) = .error (.improperlyConfigured, h.length + 1)) ∧
  -- 4 `Pta.C16.empty_module_list_is_noop`
  (∀ (h : List LArchOp) (t : LTrack) (n : Str),
    classifyLArch (h.map toLCall) = .accepted t → t.opened = some n →
    classifyLArch ((h ++ [LArchOp.containingModules []]).map toLCall) = .accepted t ∧
    ∃ a, runLArch (h ++ [LArchOp.containingModules []]) = .ok a ∧ runLArch h = .ok a ∧ a.pending = [n]) ∧
  -- 5 `Pta.C16.empty_module_list_without_layer`
  (∀ (h rest : List LArchOp) (t : LTrack),
    classifyLArch (h.map toLCall) = .accepted t → t.opened = none →
    classifyLArch ((h ++ LArchOp.containingModules [] :: rest).map toLCall) = .rejectedAt h.length ∧
    runLArch (h ++ LArchOp.containingModules [] :: rest) = .error (.improperlyConfigured, h.length)) ∧
  -- 6 `Pta.C16.layer_rule_guards`
  (∀ (mt : Str → Str → Bool) (a : LArch) (ops : List LayerRuleOp) (g : PGraph Str) (i : Nat),
    (∀ op ∈ ops, ∀ a', op = LayerRuleOp.basedOn a' → a' = a) →
    classifyLayerRule (ops.map (toLRCall a)) = .rejectedAt i → runLayerRuleOps mt ops g = (.err .improperlyConfigured, i)) ∧
  -- 7 `Pta.C16.string_form_eq_list_form`
  (∀ (cs cs' : List LArchCall),
    cs.map LArchCall.listForm = cs'.map LArchCall.listForm → runLArchCalls cs = runLArchCalls cs') ∧
  -- 8 `Pta.C16.larch_calls_refine`
  (∀ (cs : List LArchCall),
    match classifyLArch (cs.map callToLCall) with
    | .accepted t => ∃ a, runLArchCalls cs = .ok a ∧
        a.idsPerLayer = t.closed ++ (match t.opened with | some n => [(n, [])] | none => [])
    | .rejectedAt i => runLArchCalls cs = .error (.improperlyConfigured, i)
    | .unspecified => True) ∧
  -- 9 `Pta.C16.larch_calls_invariant`
  (∀ (cs : List LArchCall) (a : LArch), runLArchCalls cs = .ok a →
    (a.map (·.1)).Nodup ∧ a.pending.length ≤ 1 ∧
    ∀ l₁ ∈ a, ∀ l₂ ∈ a, ∀ f₁ ∈ l₁.2, ∀ f₂ ∈ l₂.2, f₁.isRegex = false → f₂.isRegex = false → f₁.id = f₂.id → l₁.1 = l₂.1) ∧
  -- 10 `Pta.C16.module_in_one_layer`
  (∀ (pre mid rest : List LArchCall) (y x : ModArg) (m : Str),
    m ∈ y.toList → m ∈ x.toList →
    ∃ i, i ≤ pre.length + 1 + mid.length ∧
      runLArchCalls (pre ++ .containing y :: mid ++ .containing x :: rest) = .error (.improperlyConfigured, i) ∧
      ((∃ a, runLArchCalls (pre ++ .containing y :: mid) = .ok a) → i = pre.length + 1 + mid.length)) ∧
  -- 11 `Pta.C16.string_form_one_layer`
  (∀ (pre mid rest : List LArchCall) (m : Str) (x : ModArg), m ∈ x.toList → ∀ (a : LArch),
    runLArchCalls (pre ++ .containing (.str m) :: mid) = .ok a →
    runLArchCalls (pre ++ .containing (.str m) :: mid ++ .containing x :: rest)
      = .error (.improperlyConfigured, pre.length + 1 + mid.length))

theorem c16 : C16_Statement :=
  ⟨@Pta.C16.larch_refines, @Pta.C16.larch_invariant, @Pta.C16.empty_module_list_keeps_layer_open,
   @Pta.C16.empty_module_list_is_noop, @Pta.C16.empty_module_list_without_layer, @Pta.C16.layer_rule_guards,
   @Pta.C16.string_form_eq_list_form, @Pta.C16.larch_calls_refine, @Pta.C16.larch_calls_invariant,
   @Pta.C16.module_in_one_layer, @Pta.C16.string_form_one_layer⟩

end C16

/-! ## C17 -/
section C17
open PtaSpec

/-- C17 — Plot labels: aliases replace the nearest aliased ancestor, all modules labelled.
    English statement (verbatim): "visualize(aliases=...) labels every module of the architecture exactly once: a module
    whose name equals, or extends by whole dotted components, an aliased module name gets that name part replaced by the
    alias of the most specific such aliased module, and every other module keeps its full name. An alias given for a
    module that does not exist is rejected with an error naming it, and remaining drawing options are passed through to
    the drawing backend unchanged."

    Clause map:
      (1) "labels every module of the architecture exactly once" — conjunct 2 (`Pta.C17.labels_cover`): whenever
          `plotLabels nodes aliases` succeeds, the labelled modules are exactly `nodes`, in module order (every node list
          and alias list, no hypothesis).
      (2) "a module whose name equals, or extends by whole dotted components, an aliased module name gets that name part
          replaced by the alias of the most specific such aliased module, and every other module keeps its full name"
          — conjunct 1 (`Pta.C17.labels_spec`): the computed labels are `PtaSpec.label al n` (PtaSpec/LabelSem.lean, the
          quoted rule: nearest aliased ancestor-or-self by components), for well-formed module names, an alias map with
          distinct keys that all exist; on SCANNED architectures conjunct 6 (`Pta.E2E.scan_labels`): the labelling of the
          scan graph is the documented one on the modules of the directory tree (as a permutation, in the graph's node
          order).  Boundary safety (`p.ab` keeps its name although `p.a` has an alias) is C14.
      (3) "An alias given for a module that does not exist is rejected with an error naming it" — conjunct 3
          (`Pta.C17.unknown_alias`): lookup error carrying a name `who` that is an alias key and not a module.
      (4) "remaining drawing options are passed through to the drawing backend unchanged" — conjunct 4
          (`Pta.C17.kwargs_exact`): the argument list handed to the backend is the given keywords without `spacing` /
          `aliases`, in their order, followed by `pos` iff `spacing` was given and `labels` iff `aliases` was given;
          conjunct 5 (`Pta.C17.kwargs_passthrough_ordered`): the (key, value) pairs of the remaining options arrive in the
          same order with the same values and multiplicities.
    Not carried by a theorem (correspondence check only / outside the model):
      * option VALUES are opaque tokens (`KwArg.other k v`): that Python passes the very objects is observed at the
        intercepted backend call only; the computed `pos` layout and matplotlib are outside the model.
      * alias STRINGS containing dots or regex metacharacters: the alias text is opaque in the model (kept verbatim). -/
def C17_Statement : Prop :=
  -- 1 `Pta.C17.labels_spec`
  (∀ (nodes : List Name) (al : Aliases),
    (∀ n ∈ nodes, nameWF n = true) → (al.map (·.1)).Nodup → (∀ a ∈ al, a.1 ∈ nodes) →
    plotLabels (nodes.map render) (al.map fun a => (render a.1, a.2)) =
      .ok (nodes.map fun n => (render n, PtaSpec.label al n))) ∧
  -- 2 `Pta.C17.labels_cover`
  (∀ (nodes : List Str) (aliases : List (Str × Str)) (ls : List (Str × Str)),
    plotLabels nodes aliases = .ok ls → ls.map (·.1) = nodes) ∧
  -- 3 `Pta.C17.unknown_alias`
  (∀ (nodes : List Str) (aliases : List (Str × Str)), (∃ a ∈ aliases, a.1 ∉ nodes) →
    ∃ who, plotLabels nodes aliases = .error (.lookupError, who) ∧ who ∉ nodes ∧ who ∈ aliases.map (·.1)) ∧
  -- 4 `Pta.C17.kwargs_exact`
  (∀ (kw : List KwArg),
    drawKwargs kw = kw.filter KwArg.kept ++ (if KwArg.spacing ∈ kw then [KwArg.pos] else []) ++
      (if KwArg.aliases ∈ kw then [KwArg.labels] else [])) ∧
  -- 5 `Pta.C17.kwargs_passthrough_ordered`
  (∀ (kw : List KwArg), (drawKwargs kw).filterMap KwArg.pair? = kw.filterMap KwArg.pair?) ∧
  -- 6 `Pta.E2E.scan_labels`
  (∀ (mt : Str → Str → Bool) (base root : Str) (mp : List Str) (entries : List Entry) (o : ScanOptions),
    treeWFFor (isExcluded mt o.exclusions) base mp entries = true → mpOK entries mp = true →
    compWF root = true →
    o.excludeExternal = true → o.levelLimit = none → ∀ (g : PGraph Str),
    generateGraph mt base root mp entries o = .ok g →
    ∀ (al : Aliases), (al.map (·.1)).Nodup →
    (∀ a ∈ al, a.1 ∈ scanModules root (toSEntries (isExcluded mt o.exclusions) base entries) mp) →
    ∃ ls, plotLabels g.nodes (al.map fun a => (render a.1, a.2)) = .ok ls ∧
      ls.map (·.1) = g.nodes ∧
      ls.Perm ((scanModules root (toSEntries (isExcluded mt o.exclusions) base entries) mp).map
        fun n => (render n, PtaSpec.label al n)))

theorem c17 : C17_Statement :=
  ⟨@Pta.C17.labels_spec, @Pta.C17.labels_cover, @Pta.C17.unknown_alias, @Pta.C17.kwargs_exact,
   @Pta.C17.kwargs_passthrough_ordered, @Pta.E2E.scan_labels⟩

end C17

end Pta.Headline

/-
  Axiom check (run with a scratch file `import PtaProofs.Props.Headline` + the 17 commands below; result recorded
  here, NOT live commands; re-run after the conjuncts of Props/C07Text, C09Layer, C10Limit, C12Scan, C14Text, C15Text,
  E2EWide, TablesWiring and the appended sections of Props/C04, C08, C13, C16 were added).  Every headline theorem
  depends on exactly [propext, Classical.choice, Quot.sound]:

  #print axioms Pta.Headline.c01   -- 'Pta.Headline.c01' depends on axioms: [propext, Classical.choice, Quot.sound]
  #print axioms Pta.Headline.c02   -- 'Pta.Headline.c02' depends on axioms: [propext, Classical.choice, Quot.sound]
  #print axioms Pta.Headline.c03   -- 'Pta.Headline.c03' depends on axioms: [propext, Classical.choice, Quot.sound]
  #print axioms Pta.Headline.c04   -- 'Pta.Headline.c04' depends on axioms: [propext, Classical.choice, Quot.sound]
  #print axioms Pta.Headline.c05   -- 'Pta.Headline.c05' depends on axioms: [propext, Classical.choice, Quot.sound]
  #print axioms Pta.Headline.c06   -- 'Pta.Headline.c06' depends on axioms: [propext, Classical.choice, Quot.sound]
  #print axioms Pta.Headline.c07   -- 'Pta.Headline.c07' depends on axioms: [propext, Classical.choice, Quot.sound]
  #print axioms Pta.Headline.c08   -- 'Pta.Headline.c08' depends on axioms: [propext, Classical.choice, Quot.sound]
  #print axioms Pta.Headline.c09   -- 'Pta.Headline.c09' depends on axioms: [propext, Classical.choice, Quot.sound]
  #print axioms Pta.Headline.c10   -- 'Pta.Headline.c10' depends on axioms: [propext, Classical.choice, Quot.sound]
  #print axioms Pta.Headline.c11   -- 'Pta.Headline.c11' depends on axioms: [propext, Classical.choice, Quot.sound]
  #print axioms Pta.Headline.c12   -- 'Pta.Headline.c12' depends on axioms: [propext, Classical.choice, Quot.sound]
  #print axioms Pta.Headline.c13   -- 'Pta.Headline.c13' depends on axioms: [propext, Classical.choice, Quot.sound]
  #print axioms Pta.Headline.c14   -- 'Pta.Headline.c14' depends on axioms: [propext, Classical.choice, Quot.sound]
  #print axioms Pta.Headline.c15   -- 'Pta.Headline.c15' depends on axioms: [propext, Classical.choice, Quot.sound]
  #print axioms Pta.Headline.c16   -- 'Pta.Headline.c16' depends on axioms: [propext, Classical.choice, Quot.sound]
  #print axioms Pta.Headline.c17   -- 'Pta.Headline.c17' depends on axioms: [propext, Classical.choice, Quot.sound]
-/
